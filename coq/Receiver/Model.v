(* Receiver/Model.v — labelled transition system for
     syncer/receiver/receiver.go  (RunOnce, getDownloader, Next, SeenInstances, MarkCorrupt)
     syncer/receiver/downloader.go (NotifyNewSnapshot, Run, LoadOnce)
     utils/climit/climit.go       (New, Acquire, Token.Release)
     snapshot/update.go           (Update.Close)
     syncer/sync.go + instanceset.go (the waitingForInstances logic of syncLoop)
   No proofs here.

   Granularity.  Every transition is one critical section of Receiver.mu, one blocking call
   (List, Load, Acquire, the wait on newSnapshotSignal, SleepContext) or a run of goroutine-local
   statements between two such points.  Actions that were merged into one transition:
   * RunOnce: "copy corruptSnapshots into ignoredFilenames" (first critical section), the loop over
     the names (goroutine-local) and the installation of the new lastSeenByInstance map (second
     critical section) are one step [LListOk].  corruptSnapshots is read only by that first critical
     section, so a MarkCorrupt that falls between the two sections commutes to after the second.
   * every iteration of the final `for inst, ni := range lastSeenByInstance` loop is its own step
     [LNotify j] (getDownloader is a critical section); Go's map order = any order of the j.
   * LoadOnce's decode-failure path (Release, MarkCorrupt, d.last = ni, deferred Release) and its
     success path (Release download token, publish under the mutex, Close of the overwritten Update,
     d.last = ni in Run) are one step each [LDecode j]: d.last is goroutine-local and token releases
     only enable other goroutines.
   Names.  A snapshot name is modelled by [name]: the instance it parses to, a sequence number standing
   for the timestamp part (fresh for every Publish, so a deleted name never comes back), whether its
   blob decodes ([n_ok], fixed at Store time: blobs are immutable), and what ParseName makes of it
   ([n_kind]).  The bucket is the listing in listing order; only the relative order of the names of
   one instance matters to RunOnce. *)
From Coq Require Import List NArith ZArith Bool.
Import ListNotations.
Open Scope N_scope.

(* ---------- names ---------- *)

Inductive kind :=
| KSnap    (* ParseName succeeds, Kind == KindSnapshot *)
| KOther   (* ParseName succeeds, another kind (filtered by `ni.Kind != snapshot.KindSnapshot`) *)
| KBad.    (* ParseName fails *)

Record name := mkName { n_inst : N; n_seq : N; n_ok : bool; n_kind : kind }.

Definition kind_eqb (a b : kind) : bool :=
  match a, b with KSnap, KSnap | KOther, KOther | KBad, KBad => true | _, _ => false end.

(* Go: comparison of FullName strings *)
Definition name_eqb (a b : name) : bool :=
  (n_inst a =? n_inst b) && (n_seq a =? n_seq b) && Bool.eqb (n_ok a) (n_ok b) && kind_eqb (n_kind a) (n_kind b).

(* Go: `ni.FullName == lastNotified.FullName`, `ni.FullName == d.last.FullName`; the zero NameInfo
   (FullName "") is [None] and equals no real name *)
Definition oname_eqb (a b : option name) : bool :=
  match a, b with
  | Some x, Some y => name_eqb x y
  | None, None => true
  | _, _ => false
  end.

(* Go: map[string]bool / map[string]error used as sets of file names *)
Fixpoint mem (x : name) (l : list name) : bool :=
  match l with [] => false | y :: r => name_eqb x y || mem x r end.
Definition add (x : name) (l : list name) : list name := if mem x l then l else x :: l.
Fixpoint add_all (xs l : list name) : list name :=
  match xs with [] => l | x :: r => add_all r (add x l) end.
Fixpoint remove_name (x : name) (l : list name) : list name :=
  match l with [] => [] | y :: r => if name_eqb x y then remove_name x r else y :: remove_name x r end.

Fixpoint memN (j : N) (l : list N) : bool :=
  match l with [] => false | k :: r => (j =? k) || memN j r end.
Fixpoint removeN (j : N) (l : list N) : list N :=
  match l with [] => [] | k :: r => if j =? k then removeN j r else k :: removeN j r end.

(* Go: map[string]snapshot.NameInfo built by RunOnce (a fresh map per listing) *)
Definition amap := list (N * name).
Fixpoint alook (m : amap) (j : N) : option name :=
  match m with [] => None | (k, x) :: r => if j =? k then Some x else alook r j end.
Fixpoint aset (m : amap) (j : N) (x : name) : amap :=
  match m with
  | [] => [(j, x)]
  | (k, y) :: r => if j =? k then (k, x) :: r else (k, y) :: aset r j x
  end.
Fixpoint adel (m : amap) (j : N) : amap :=
  match m with [] => [] | (k, y) :: r => if j =? k then adel r j else (k, y) :: adel r j end.

Definition upd {A} (f : N -> A) (j : N) (v : A) : N -> A := fun k => if k =? j then v else f k.

(* ---------- downloader goroutine ---------- *)

Inductive phase :=
| Idle                 (* Run: blocked in the outer select on newSnapshotSignal *)
| Check                (* Run: top of the inner loop, about to read lastSeenByInstance under the mutex *)
| WantDl (x : name)    (* LoadOnce: in downloadSnapshotLimit.Acquire() *)
| HaveDl (x : name)    (* LoadOnce: holds a download token, in st.Load *)
| Loaded (x : name)    (* LoadOnce: holds a download token and the blob, in decompressedSnapshotLimit.Acquire() *)
| HaveDc (x : name)    (* LoadOnce: holds both tokens, in snapshot.LoadData *)
| Sleeping.            (* Run: LoadOnce returned an error, in SleepContext(StorageRetryInterval) *)

Record dler := mkDl {
  d_sig : bool;          (* newSnapshotSignal (capacity 1) holds a value *)
  d_last : option name;  (* Downloader.last *)
  d_phase : phase
}.

(* ---------- configuration ---------- *)

Record cfg := mkCfg {
  c_own : N;        (* Receiver.ownInstance *)
  c_dl : Z;         (* config.MemoryDownloadedSnapshots *)
  c_dc : Z;         (* config.MemoryDecompressedSnapshots *)
  c_once : bool     (* config.OnlyOnce *)
}.

(* Go: climit.New  `if limit < 1 { limit = 1 }` *)
Definition eff_limit (z : Z) : nat := if (z <? 1)%Z then 1%nat else Z.to_nat z.
Definition lim_dl (c : cfg) : nat := eff_limit (c_dl c).
Definition lim_dc (c : cfg) : nat := eff_limit (c_dc c).

(* ---------- state ---------- *)
(* s_bucket : the storage backend's listing, in listing order      s_next : next fresh sequence number
   s_seen   : Receiver.lastSeenByInstance                           s_has  : Receiver.hasSnapshots
   s_ign    : Receiver.ignoredFilenames                             s_cor  : keys of Receiver.corruptSnapshots
   s_notif  : Receiver.lastNotifiedByInstance                       s_ready: Receiver.snapshotsByInstance
   s_dl     : Receiver.downloadersByInstance with each goroutine's control state
   s_dls    : the keys of downloadersByInstance (creation order)
   s_pend   : a RunOnce is between installing lastSeenByInstance and returning: its includingOwn flag
              and the entries of its local map not yet visited by the final range loop
   s_fdl / s_fdc : tokens in the channel of downloadSnapshotLimit / decompressedSnapshotLimit
   s_merge  : the syncer took this Update from Next and has not yet called Close
   s_started / s_wait / s_exited : syncLoop: waitingForInstances initialised / its content / returned
   ghost (never read by a guard): s_deliv = results of Next, newest first; s_init = the instances
   put into waitingForInstances; s_gone = instances removed from it by CleanDisappeared;
   s_ownskip = some RunOnce(includingOwn=false) found a not yet notified name of the own instance
   and skipped it (the name it had notified about not being ignored) *)
Record state := mkSt {
  s_bucket : list name;
  s_next : N;
  s_seen : amap;
  s_has : bool;
  s_ign : list name;
  s_cor : list name;
  s_notif : N -> option name;
  s_ready : N -> option name;
  s_dl : N -> option dler;
  s_dls : list N;
  s_pend : option (bool * amap);
  s_fdl : nat;
  s_fdc : nat;
  s_merge : option name;
  s_started : bool;
  s_wait : list N;
  s_exited : bool;
  s_deliv : list name;
  s_gone : list N;
  s_init : list N;
  s_ownskip : bool
}.

Definition set_bucket (s : state) (v : list name) : state :=
  mkSt v (s_next s) (s_seen s) (s_has s) (s_ign s) (s_cor s) (s_notif s) (s_ready s) (s_dl s) (s_dls s) (s_pend s) (s_fdl s) (s_fdc s) (s_merge s) (s_started s) (s_wait s) (s_exited s) (s_deliv s) (s_gone s) (s_init s) (s_ownskip s).
Definition set_next (s : state) (v : N) : state :=
  mkSt (s_bucket s) v (s_seen s) (s_has s) (s_ign s) (s_cor s) (s_notif s) (s_ready s) (s_dl s) (s_dls s) (s_pend s) (s_fdl s) (s_fdc s) (s_merge s) (s_started s) (s_wait s) (s_exited s) (s_deliv s) (s_gone s) (s_init s) (s_ownskip s).
Definition set_seen (s : state) (v : amap) : state :=
  mkSt (s_bucket s) (s_next s) v (s_has s) (s_ign s) (s_cor s) (s_notif s) (s_ready s) (s_dl s) (s_dls s) (s_pend s) (s_fdl s) (s_fdc s) (s_merge s) (s_started s) (s_wait s) (s_exited s) (s_deliv s) (s_gone s) (s_init s) (s_ownskip s).
Definition set_has (s : state) (v : bool) : state :=
  mkSt (s_bucket s) (s_next s) (s_seen s) v (s_ign s) (s_cor s) (s_notif s) (s_ready s) (s_dl s) (s_dls s) (s_pend s) (s_fdl s) (s_fdc s) (s_merge s) (s_started s) (s_wait s) (s_exited s) (s_deliv s) (s_gone s) (s_init s) (s_ownskip s).
Definition set_ign (s : state) (v : list name) : state :=
  mkSt (s_bucket s) (s_next s) (s_seen s) (s_has s) v (s_cor s) (s_notif s) (s_ready s) (s_dl s) (s_dls s) (s_pend s) (s_fdl s) (s_fdc s) (s_merge s) (s_started s) (s_wait s) (s_exited s) (s_deliv s) (s_gone s) (s_init s) (s_ownskip s).
Definition set_cor (s : state) (v : list name) : state :=
  mkSt (s_bucket s) (s_next s) (s_seen s) (s_has s) (s_ign s) v (s_notif s) (s_ready s) (s_dl s) (s_dls s) (s_pend s) (s_fdl s) (s_fdc s) (s_merge s) (s_started s) (s_wait s) (s_exited s) (s_deliv s) (s_gone s) (s_init s) (s_ownskip s).
Definition set_notif (s : state) (v : N -> option name) : state :=
  mkSt (s_bucket s) (s_next s) (s_seen s) (s_has s) (s_ign s) (s_cor s) v (s_ready s) (s_dl s) (s_dls s) (s_pend s) (s_fdl s) (s_fdc s) (s_merge s) (s_started s) (s_wait s) (s_exited s) (s_deliv s) (s_gone s) (s_init s) (s_ownskip s).
Definition set_ready (s : state) (v : N -> option name) : state :=
  mkSt (s_bucket s) (s_next s) (s_seen s) (s_has s) (s_ign s) (s_cor s) (s_notif s) v (s_dl s) (s_dls s) (s_pend s) (s_fdl s) (s_fdc s) (s_merge s) (s_started s) (s_wait s) (s_exited s) (s_deliv s) (s_gone s) (s_init s) (s_ownskip s).
Definition set_dl (s : state) (v : N -> option dler) : state :=
  mkSt (s_bucket s) (s_next s) (s_seen s) (s_has s) (s_ign s) (s_cor s) (s_notif s) (s_ready s) v (s_dls s) (s_pend s) (s_fdl s) (s_fdc s) (s_merge s) (s_started s) (s_wait s) (s_exited s) (s_deliv s) (s_gone s) (s_init s) (s_ownskip s).
Definition set_dls (s : state) (v : list N) : state :=
  mkSt (s_bucket s) (s_next s) (s_seen s) (s_has s) (s_ign s) (s_cor s) (s_notif s) (s_ready s) (s_dl s) v (s_pend s) (s_fdl s) (s_fdc s) (s_merge s) (s_started s) (s_wait s) (s_exited s) (s_deliv s) (s_gone s) (s_init s) (s_ownskip s).
Definition set_pend (s : state) (v : option (bool * amap)) : state :=
  mkSt (s_bucket s) (s_next s) (s_seen s) (s_has s) (s_ign s) (s_cor s) (s_notif s) (s_ready s) (s_dl s) (s_dls s) v (s_fdl s) (s_fdc s) (s_merge s) (s_started s) (s_wait s) (s_exited s) (s_deliv s) (s_gone s) (s_init s) (s_ownskip s).
Definition set_fdl (s : state) (v : nat) : state :=
  mkSt (s_bucket s) (s_next s) (s_seen s) (s_has s) (s_ign s) (s_cor s) (s_notif s) (s_ready s) (s_dl s) (s_dls s) (s_pend s) v (s_fdc s) (s_merge s) (s_started s) (s_wait s) (s_exited s) (s_deliv s) (s_gone s) (s_init s) (s_ownskip s).
Definition set_fdc (s : state) (v : nat) : state :=
  mkSt (s_bucket s) (s_next s) (s_seen s) (s_has s) (s_ign s) (s_cor s) (s_notif s) (s_ready s) (s_dl s) (s_dls s) (s_pend s) (s_fdl s) v (s_merge s) (s_started s) (s_wait s) (s_exited s) (s_deliv s) (s_gone s) (s_init s) (s_ownskip s).
Definition set_merge (s : state) (v : option name) : state :=
  mkSt (s_bucket s) (s_next s) (s_seen s) (s_has s) (s_ign s) (s_cor s) (s_notif s) (s_ready s) (s_dl s) (s_dls s) (s_pend s) (s_fdl s) (s_fdc s) v (s_started s) (s_wait s) (s_exited s) (s_deliv s) (s_gone s) (s_init s) (s_ownskip s).
Definition set_started (s : state) (v : bool) : state :=
  mkSt (s_bucket s) (s_next s) (s_seen s) (s_has s) (s_ign s) (s_cor s) (s_notif s) (s_ready s) (s_dl s) (s_dls s) (s_pend s) (s_fdl s) (s_fdc s) (s_merge s) v (s_wait s) (s_exited s) (s_deliv s) (s_gone s) (s_init s) (s_ownskip s).
Definition set_wait (s : state) (v : list N) : state :=
  mkSt (s_bucket s) (s_next s) (s_seen s) (s_has s) (s_ign s) (s_cor s) (s_notif s) (s_ready s) (s_dl s) (s_dls s) (s_pend s) (s_fdl s) (s_fdc s) (s_merge s) (s_started s) v (s_exited s) (s_deliv s) (s_gone s) (s_init s) (s_ownskip s).
Definition set_exited (s : state) (v : bool) : state :=
  mkSt (s_bucket s) (s_next s) (s_seen s) (s_has s) (s_ign s) (s_cor s) (s_notif s) (s_ready s) (s_dl s) (s_dls s) (s_pend s) (s_fdl s) (s_fdc s) (s_merge s) (s_started s) (s_wait s) v (s_deliv s) (s_gone s) (s_init s) (s_ownskip s).
Definition set_deliv (s : state) (v : list name) : state :=
  mkSt (s_bucket s) (s_next s) (s_seen s) (s_has s) (s_ign s) (s_cor s) (s_notif s) (s_ready s) (s_dl s) (s_dls s) (s_pend s) (s_fdl s) (s_fdc s) (s_merge s) (s_started s) (s_wait s) (s_exited s) v (s_gone s) (s_init s) (s_ownskip s).
Definition set_gone (s : state) (v : list N) : state :=
  mkSt (s_bucket s) (s_next s) (s_seen s) (s_has s) (s_ign s) (s_cor s) (s_notif s) (s_ready s) (s_dl s) (s_dls s) (s_pend s) (s_fdl s) (s_fdc s) (s_merge s) (s_started s) (s_wait s) (s_exited s) (s_deliv s) v (s_init s) (s_ownskip s).
Definition set_init (s : state) (v : list N) : state :=
  mkSt (s_bucket s) (s_next s) (s_seen s) (s_has s) (s_ign s) (s_cor s) (s_notif s) (s_ready s) (s_dl s) (s_dls s) (s_pend s) (s_fdl s) (s_fdc s) (s_merge s) (s_started s) (s_wait s) (s_exited s) (s_deliv s) (s_gone s) v (s_ownskip s).
Definition set_ownskip (s : state) (v : bool) : state :=
  mkSt (s_bucket s) (s_next s) (s_seen s) (s_has s) (s_ign s) (s_cor s) (s_notif s) (s_ready s) (s_dl s) (s_dls s) (s_pend s) (s_fdl s) (s_fdc s) (s_merge s) (s_started s) (s_wait s) (s_exited s) (s_deliv s) (s_gone s) (s_init s) v.

Definition init (c : cfg) : state :=
  mkSt [] 0 [] false [] [] (fun _ => None) (fun _ => None) (fun _ => None) [] None
       (lim_dl c) (lim_dc c) None false [] false [] [] [] false.

(* ---------- RunOnce ---------- *)

(* Go: receiver.go RunOnce, `for _, name := range names` *)
Fixpoint scan (names : list name) (ign : list name) (m : amap) : list name * amap :=
  match names with
  | [] => (ign, m)
  | x :: r =>
      if mem x ign then scan r ign m
      else match n_kind x with
           | KBad => scan r (x :: ign) m
           | KOther => scan r ign m
           | KSnap => scan r ign (aset m (n_inst x) x)
           end
  end.

Definition pend_of (incl : bool) (m : amap) : option (bool * amap) :=
  match m with [] => None | _ => Some (incl, m) end.

(* Go: receiver.go RunOnce up to and including `r.lastSeenByInstance = lastSeenByInstance`,
   with the List call succeeding.  The first successful RunOnce is the one of syncLoop's start-up
   (includingOwn = true); directly after it syncLoop fills waitingForInstances from SeenInstances()
   (sync.go:121-129) — no other listing can intervene, so that is folded into this step. *)
Definition list_ok (incl : bool) (s : state) : option state :=
  match s_pend s with
  | Some _ => None                       (* one RunOnce at a time: start-up loop, then Receiver.Run *)
  | None =>
      if negb incl && negb (s_started s) then None
      else
        let ign1 := add_all (s_cor s) (s_ign s) in
        let '(ign2, m) := scan (s_bucket s) ign1 [] in
        let s1 := set_pend (set_has (set_seen (set_ign s ign2) m) (negb (Nat.eqb (length m) 0))) (pend_of incl m) in
        Some (if s_started s then s1
              else set_init (set_wait (set_started s1 true) (map fst m)) (map fst m))
  end.

(* Go: receiver.go RunOnce, `if err != nil { ...; return }` after st.List: nothing changes *)
Definition list_fail (s : state) : option state :=
  match s_pend s with Some _ => None | None => Some s end.

(* Go: receiver.go RunOnce, `r.ignoredFilenames[lastNotified.FullName]`; the zero NameInfo ("") is in no map *)
Definition notif_ignored (s : state) (j : N) : bool :=
  match s_notif s j with Some y => mem y (s_ign s) | None => false end.

(* Go: receiver.go RunOnce, one iteration of `for inst, ni := range lastSeenByInstance`,
   with getDownloader and Downloader.NotifyNewSnapshot.  The own instance is skipped by the polls
   (includingOwn = false) unless the own snapshot it was last notified about has been ignored since. *)
Definition notify (c : cfg) (j : N) (s : state) : option state :=
  match s_pend s with
  | None => None
  | Some (incl, m) =>
      match alook m j with
      | None => None
      | Some x =>
          let s0 := set_pend s (pend_of incl (adel m j)) in
          if oname_eqb (Some x) (s_notif s j) then Some s0            (* no change *)
          else if negb incl && (j =? c_own c) && negb (notif_ignored s j)
               then Some (set_ownskip s0 true)                        (* own instance *)
          else
            let s1 := match s_dl s j with
                      | Some d => set_dl s0 (upd (s_dl s) j (Some (mkDl true (d_last d) (d_phase d))))
                      | None => set_dls (set_dl s0 (upd (s_dl s) j (Some (mkDl true None Idle)))) (s_dls s ++ [j])
                      end in
            Some (set_notif s1 (upd (s_notif s) j (Some x)))
      end
  end.

(* ---------- Downloader.Run / LoadOnce ---------- *)

Definition with_dl (s : state) (j : N) (f : dler -> option state) : option state :=
  match s_dl s j with Some d => f d | None => None end.
Definition put_dl (s : state) (j : N) (d : dler) : state := set_dl s (upd (s_dl s) j (Some d)).

(* Go: downloader.go Run, `case <-d.newSnapshotSignal` *)
Definition wake (j : N) (s : state) : option state :=
  with_dl s j (fun d =>
    match d_phase d with
    | Idle => if d_sig d then Some (put_dl s j (mkDl false (d_last d) Check)) else None
    | _ => None
    end).

(* Go: downloader.go Run, inner loop: read lastSeenByInstance[d.instance]; !exists => break;
   ni.FullName == d.last.FullName => break; else LoadOnce (which starts with Acquire) *)
Definition check (j : N) (s : state) : option state :=
  with_dl s j (fun d =>
    match d_phase d with
    | Check =>
        match alook (s_seen s) j with
        | None => Some (put_dl s j (mkDl (d_sig d) (d_last d) Idle))
        | Some x =>
            if oname_eqb (Some x) (d_last d) then Some (put_dl s j (mkDl (d_sig d) (d_last d) Idle))
            else Some (put_dl s j (mkDl (d_sig d) (d_last d) (WantDl x)))
        end
    | _ => None
    end).

(* Go: climit Acquire on downloadSnapshotLimit (`it := <-cl.ch`) *)
Definition acq_dl (j : N) (s : state) : option state :=
  with_dl s j (fun d =>
    match d_phase d, s_fdl s with
    | WantDl x, S n => Some (set_fdl (put_dl s j (mkDl (d_sig d) (d_last d) (HaveDl x))) n)
    | _, _ => None
    end).

(* Go: LoadOnce, st.Load succeeds (the blob is in the bucket) *)
Definition load_ok (j : N) (s : state) : option state :=
  with_dl s j (fun d =>
    match d_phase d with
    | HaveDl x => if mem x (s_bucket s) then Some (put_dl s j (mkDl (d_sig d) (d_last d) (Loaded x))) else None
    | _ => None
    end).

(* Go: LoadOnce, st.Load fails (transient error, or the blob vanished): deferred downloadToken.Release();
   Run: SleepContext *)
Definition load_fail (j : N) (s : state) : option state :=
  with_dl s j (fun d =>
    match d_phase d with
    | HaveDl x => Some (set_fdl (put_dl s j (mkDl (d_sig d) (d_last d) Sleeping)) (S (s_fdl s)))
    | _ => None
    end).

(* Go: climit Acquire on decompressedSnapshotLimit *)
Definition acq_dc (j : N) (s : state) : option state :=
  with_dl s j (fun d =>
    match d_phase d, s_fdc s with
    | Loaded x, S n => Some (set_fdc (put_dl s j (mkDl (d_sig d) (d_last d) (HaveDc x))) n)
    | _, _ => None
    end).

(* Go: LoadOnce from snapshot.LoadData on.
   error: token.Release(); MarkCorrupt; d.last = ni; return err (deferred downloadToken.Release()); Run sleeps.
   ok:    downloadToken.Release(); publish into snapshotsByInstance; Close the overwritten Update (its OnClose
          releases its decompress token); Run: d.last = ni; break to the outer select.  The published Update
          keeps the decompress token. *)
Definition decode (j : N) (s : state) : option state :=
  with_dl s j (fun d =>
    match d_phase d with
    | HaveDc x =>
        if n_ok x then
          let s1 := set_ready (put_dl s j (mkDl (d_sig d) (Some x) Idle)) (upd (s_ready s) j (Some x)) in
          let s2 := set_fdl s1 (S (s_fdl s)) in
          Some (match s_ready s j with
                | Some _ => set_fdc s2 (S (s_fdc s))
                | None => s2
                end)
        else
          Some (set_cor (set_fdc (set_fdl (put_dl s j (mkDl (d_sig d) (Some x) Sleeping)) (S (s_fdl s))) (S (s_fdc s)))
                        (add x (s_cor s)))
    | _ => None
    end).

(* Go: downloader.go Run, SleepContext returns, `continue` *)
Definition retry (j : N) (s : state) : option state :=
  with_dl s j (fun d =>
    match d_phase d with
    | Sleeping => Some (put_dl s j (mkDl (d_sig d) (d_last d) Check))
    | _ => None
    end).

(* ---------- the syncer side ---------- *)

(* Go: receiver.go Next returning the entry of instance j (Go's map order = any j with an entry), and
   sync.go `waitingForInstances.Remove(instance)` (hooks.InstanceReady == nil).  The syncer is one
   goroutine: it calls Close on an Update before it calls Next again. *)
Definition next (j : N) (s : state) : option state :=
  match s_merge s, s_ready s j with
  | None, Some x =>
      if s_exited s then None
      else Some (set_wait (set_deliv (set_merge (set_ready s (upd (s_ready s) j None)) (Some x)) (x :: s_deliv s))
                          (removeN j (s_wait s)))
  | _, _ => None
  end.

(* Go: update.Close() in sync.go -> OnClose -> token.Release() *)
Definition close (s : state) : option state :=
  match s_merge s with
  | Some _ => Some (set_fdc (set_merge s None) (S (s_fdc s)))
  | None => None
  end.

(* Go: instanceset.go CleanDisappeared(r.SeenInstances()) *)
Definition seen_insts (s : state) : list N := map fst (s_seen s).
Definition still_seen (s : state) (w : list N) : list N := filter (fun j => memN j (seen_insts s)) w.
Definition disappeared (s : state) (w : list N) : list N := filter (fun j => negb (memN j (seen_insts s))) w.

(* Go: sync.go syncLoop after loadReadySnapshotsLoop: `if !Done() { CleanDisappeared }` ...
   `if s.c.OnlyOnce && waitingForInstances.Done() { return nil }` *)
Definition bottom (c : cfg) (s : state) : option state :=
  match s_merge s with
  | Some _ => None
  | None =>
      if negb (s_started s) || s_exited s then None
      else
        let w := still_seen s (s_wait s) in
        let s1 := set_gone (set_wait s w) (s_gone s ++ disappeared s (s_wait s)) in
        Some (set_exited s1 (c_once c && match w with [] => true | _ => false end))
  end.

(* ---------- the bucket ---------- *)

(* another instance (or this one) stores a new snapshot; newest in listing order *)
Definition publish (j : N) (ok : bool) (k : kind) (s : state) : option state :=
  Some (set_next (set_bucket s (s_bucket s ++ [mkName j (s_next s) ok k])) (s_next s + 1)).

(* a cleaner deletes a blob *)
Definition delete (x : name) (s : state) : option state :=
  if mem x (s_bucket s) then Some (set_bucket s (remove_name x (s_bucket s))) else None.

(* ---------- labels ---------- *)

Inductive label :=
| LListOk (incl : bool) | LListFail | LNotify (j : N)
| LWake (j : N) | LCheck (j : N) | LAcqDl (j : N) | LLoadOk (j : N) | LLoadFail (j : N)
| LAcqDc (j : N) | LDecode (j : N) | LRetry (j : N)
| LNext (j : N) | LClose | LBottom
| LPublish (j : N) (ok : bool) (k : kind) | LDelete (x : name).

Definition step (c : cfg) (s : state) (l : label) : option state :=
  match l with
  | LListOk incl => list_ok incl s
  | LListFail => list_fail s
  | LNotify j => notify c j s
  | LWake j => wake j s
  | LCheck j => check j s
  | LAcqDl j => acq_dl j s
  | LLoadOk j => load_ok j s
  | LLoadFail j => load_fail j s
  | LAcqDc j => acq_dc j s
  | LDecode j => decode j s
  | LRetry j => retry j s
  | LNext j => next j s
  | LClose => close s
  | LBottom => bottom c s
  | LPublish j ok k => publish j ok k s
  | LDelete x => delete x s
  end.

Fixpoint run (c : cfg) (s : state) (ls : list label) : option state :=
  match ls with
  | [] => Some s
  | l :: r => match step c s l with Some s' => run c s' r | None => None end
  end.

(* reachability; the history is kept newest-first *)
Inductive reach (c : cfg) : list label -> state -> Prop :=
| reach0 : reach c [] (init c)
| reachS h s l s' : reach c h s -> step c s l = Some s' -> reach c (l :: h) s'.

(* ---------- specification-level notions used by the theorems ---------- *)

(* the newest name of instance j in a listing that is a snapshot and not ignored *)
Fixpoint newest (names ign : list name) (j : N) : option name :=
  match names with
  | [] => None
  | x :: r =>
      match newest r ign j with
      | Some y => Some y
      | None => if (n_inst x =? j) && kind_eqb (n_kind x) KSnap && negb (mem x ign) then Some x else None
      end
  end.

(* the newest snapshot name of instance j whose blob decodes *)
Fixpoint newest_ok (names : list name) (j : N) : option name :=
  match names with
  | [] => None
  | x :: r =>
      match newest_ok r j with
      | Some y => Some y
      | None => if (n_inst x =? j) && kind_eqb (n_kind x) KSnap && n_ok x then Some x else None
      end
  end.

(* the most recent result of Next for instance j *)
Fixpoint last_deliv (d : list name) (j : N) : option name :=
  match d with
  | [] => None
  | x :: r => if n_inst x =? j then Some x else last_deliv r j
  end.

(* token holders *)
Definition holds_dl (p : phase) : bool :=
  match p with HaveDl _ | Loaded _ | HaveDc _ => true | _ => false end.
Definition holds_dc (p : phase) : bool :=
  match p with HaveDc _ => true | _ => false end.
Definition phase_of (s : state) (j : N) : phase :=
  match s_dl s j with Some d => d_phase d | None => Idle end.
Fixpoint count (f : N -> bool) (l : list N) : nat :=
  match l with [] => 0%nat | j :: r => ((if f j then 1 else 0) + count f r)%nat end.
Definition is_some {A} (o : option A) : bool := match o with Some _ => true | None => false end.

Definition held_dl (s : state) : nat := count (fun j => holds_dl (phase_of s j)) (s_dls s).
Definition n_ready (s : state) : nat := count (fun j => is_some (s_ready s j)) (s_dls s).
Definition n_decoding (s : state) : nat := count (fun j => holds_dc (phase_of s j)) (s_dls s).
Definition n_merge (s : state) : nat := if is_some (s_merge s) then 1%nat else 0%nat.
Definition held_dc (s : state) : nat := (n_ready s + n_decoding s + n_merge s)%nat.
