(* Receiver/Basics.v — list/map lemmas, step inversion tactic, scan = newest *)
From Coq Require Import List NArith ZArith Bool Lia Arith Wellfounded.
From Coq Require Import ZifyN ZifyNat ZifyBool.
From LS Require Import Receiver.Model.
Import ListNotations.
Open Scope N_scope.

(* ------------------------------------------------------------------ *)
(* basic facts                                                          *)
(* ------------------------------------------------------------------ *)

Lemma kind_eqb_eq a b : kind_eqb a b = true <-> a = b.
Proof. destruct a, b; cbn; split; intros; try discriminate; reflexivity. Qed.

Lemma name_eqb_eq a b : name_eqb a b = true <-> a = b.
Proof.
  destruct a as [i1 q1 o1 k1], b as [i2 q2 o2 k2]; unfold name_eqb; cbn.
  rewrite !andb_true_iff, !N.eqb_eq, eqb_true_iff, kind_eqb_eq.
  split.
  - intros [[[-> ->] ->] ->]; reflexivity.
  - intros E; inversion E; auto.
Qed.

Lemma name_eqb_refl a : name_eqb a a = true.
Proof. apply name_eqb_eq; reflexivity. Qed.

Lemma name_eqb_neq a b : name_eqb a b = false <-> a <> b.
Proof.
  split.
  - intros E H. apply name_eqb_eq in H. congruence.
  - intros H. destruct (name_eqb a b) eqn:E; [apply name_eqb_eq in E; contradiction | reflexivity].
Qed.

Lemma name_eq_dec (a b : name) : {a = b} + {a <> b}.
Proof.
  destruct (name_eqb a b) eqn:E.
  - left; apply name_eqb_eq; exact E.
  - right; apply name_eqb_neq; exact E.
Qed.

Lemma oname_eqb_eq a b : oname_eqb a b = true <-> a = b.
Proof.
  destruct a, b; cbn; try (split; intros; congruence).
  rewrite name_eqb_eq. split; intros; congruence.
Qed.

Lemma oname_eqb_neq a b : oname_eqb a b = false <-> a <> b.
Proof.
  split.
  - intros E H. apply oname_eqb_eq in H. congruence.
  - intros H. destruct (oname_eqb a b) eqn:E; [apply oname_eqb_eq in E; contradiction | reflexivity].
Qed.

Lemma mem_In x l : mem x l = true <-> In x l.
Proof.
  induction l as [|y r IH]; cbn.
  - split; [discriminate | tauto].
  - rewrite orb_true_iff, name_eqb_eq, IH. split; intros [H|H]; auto.
Qed.

Lemma mem_false x l : mem x l = false <-> ~ In x l.
Proof.
  rewrite <- mem_In. destruct (mem x l); split; intros; congruence.
Qed.

Lemma mem_app x l1 l2 : mem x (l1 ++ l2) = mem x l1 || mem x l2.
Proof. induction l1; cbn; [reflexivity | rewrite IHl1, orb_assoc; reflexivity]. Qed.

Lemma mem_add x y l : mem x (add y l) = name_eqb x y || mem x l.
Proof.
  unfold add. destruct (mem y l) eqn:E; cbn; [|reflexivity].
  destruct (name_eqb x y) eqn:F; [|reflexivity].
  apply name_eqb_eq in F; subst. cbn. exact E.
Qed.

Lemma mem_add_all x xs l : mem x (add_all xs l) = mem x xs || mem x l.
Proof.
  revert l; induction xs as [|y r IH]; intros l; cbn; [reflexivity|].
  rewrite IH, mem_add. destruct (name_eqb x y), (mem x r), (mem x l); reflexivity.
Qed.

Lemma add_all_sub xs l : (forall x, mem x xs = true -> mem x l = true) -> add_all xs l = l.
Proof.
  revert l; induction xs as [|y r IH]; intros l H; cbn; [reflexivity|].
  assert (E : mem y l = true) by (apply H; cbn; rewrite name_eqb_refl; reflexivity).
  unfold add; rewrite E. apply IH. intros x Hx. apply H. cbn. rewrite Hx, orb_true_r; reflexivity.
Qed.

Lemma mem_remove x y l : mem x (remove_name y l) = negb (name_eqb y x) && mem x l.
Proof.
  induction l as [|z r IH]; cbn; [rewrite andb_false_r; reflexivity|].
  destruct (name_eqb y z) eqn:E.
  - rewrite IH. apply name_eqb_eq in E; subst z.
    destruct (name_eqb x y) eqn:F; cbn.
    + apply name_eqb_eq in F; subst. rewrite name_eqb_refl. reflexivity.
    + reflexivity.
  - cbn. rewrite IH. destruct (name_eqb x z) eqn:F; cbn.
    + apply name_eqb_eq in F; subst. rewrite E. reflexivity.
    + reflexivity.
Qed.

Lemma memN_In j l : memN j l = true <-> In j l.
Proof.
  induction l as [|k r IH]; cbn.
  - split; [discriminate | tauto].
  - rewrite orb_true_iff, N.eqb_eq, IH. split; intros [H|H]; auto.
Qed.

Lemma In_removeN k j l : In k (removeN j l) <-> In k l /\ k <> j.
Proof.
  induction l as [|i r IH]; cbn; [tauto|].
  destruct (j =? i) eqn:E.
  - apply N.eqb_eq in E; subst. rewrite IH. split; [tauto|]. intros [[H|H] N0]; [congruence|tauto].
  - apply N.eqb_neq in E. cbn. rewrite IH. split; [intros [H|H]; [subst; split; auto | tauto] | tauto].
Qed.

Lemma upd_same {A} (f : N -> A) j v : upd f j v j = v.
Proof. unfold upd. rewrite N.eqb_refl. reflexivity. Qed.
Lemma upd_other {A} (f : N -> A) j v k : k <> j -> upd f j v k = f k.
Proof. intros H. unfold upd. apply N.eqb_neq in H. rewrite H. reflexivity. Qed.

Lemma alook_aset m j x k : alook (aset m j x) k = if k =? j then Some x else alook m k.
Proof.
  induction m as [|[i y] r IH]; cbn.
  - destruct (k =? j); reflexivity.
  - destruct (j =? i) eqn:E; cbn.
    + apply N.eqb_eq in E; subst. destruct (k =? i); reflexivity.
    + rewrite IH. destruct (k =? i) eqn:F; [|reflexivity].
      apply N.eqb_eq in F; subst. rewrite N.eqb_sym, E. reflexivity.
Qed.

Lemma alook_adel m j k : alook (adel m j) k = if k =? j then None else alook m k.
Proof.
  induction m as [|[i y] r IH]; cbn.
  - destruct (k =? j); reflexivity.
  - destruct (j =? i) eqn:E; cbn.
    + rewrite IH. apply N.eqb_eq in E; subst. destruct (k =? i); reflexivity.
    + rewrite IH. destruct (k =? i) eqn:F; [|reflexivity].
      apply N.eqb_eq in F; subst. rewrite N.eqb_sym, E. reflexivity.
Qed.

Lemma alook_In m j x : alook m j = Some x -> In (j, x) m.
Proof.
  induction m as [|[i y] r IH]; cbn; [discriminate|].
  destruct (j =? i) eqn:E.
  - apply N.eqb_eq in E; subst. intros H; inversion H; auto.
  - auto.
Qed.

Lemma alook_map_fst m j x : alook m j = Some x -> In j (map fst m).
Proof. intros H. apply alook_In in H. apply (in_map fst) in H. exact H. Qed.

Lemma alook_none_fst m j : alook m j = None -> ~ In j (map fst m).
Proof.
  induction m as [|[i y] r IH]; cbn; [tauto|].
  destruct (j =? i) eqn:E; [discriminate|]. apply N.eqb_neq in E. intros H [F|F]; [congruence | tauto].
Qed.

Lemma length_adel_le m j : (length (adel m j) <= length m)%nat.
Proof. induction m as [|[i y] r IH]; cbn; [lia|]. destruct (j =? i); cbn; lia. Qed.

Lemma length_adel_lt m j x : alook m j = Some x -> (length (adel m j) < length m)%nat.
Proof.
  induction m as [|[i y] r IH]; cbn; [discriminate|].
  destruct (j =? i); cbn; intros H.
  - pose proof (length_adel_le r j). lia.
  - apply IH in H. lia.
Qed.

(* counting over the list of downloaders *)
Lemma count_ext f g l : (forall j, In j l -> f j = g j) -> count f l = count g l.
Proof.
  induction l as [|k r IH]; cbn; intros H; [reflexivity|].
  rewrite (H k), IH; auto.
Qed.

Lemma count_app f l1 l2 : count f (l1 ++ l2) = (count f l1 + count f l2)%nat.
Proof. induction l1; cbn; [reflexivity | rewrite IHl1; lia]. Qed.

Definition b2n (b : bool) : nat := if b then 1%nat else 0%nat.

Lemma count_upd f g l j :
  NoDup l -> In j l -> (forall k, k <> j -> f k = g k) ->
  (count f l + b2n (g j) = count g l + b2n (f j))%nat.
Proof.
  intros ND IN H. induction l as [|k r IH]; cbn; [destruct IN|].
  inversion ND as [|? ? NI ND']; subst.
  destruct (N.eq_dec k j) as [->|NE].
  - rewrite (count_ext f g r).
    + unfold b2n. destruct (f j), (g j); lia.
    + intros i Hi. apply H. intros ->. contradiction.
  - destruct IN as [E|IN]; [congruence|]. specialize (IH ND' IN).
    rewrite (H k NE). lia.
Qed.

Lemma count_pos f l : (0 < count f l)%nat -> exists j, In j l /\ f j = true.
Proof.
  induction l as [|k r IH]; cbn; [lia|].
  destruct (f k) eqn:E; intros H.
  - exists k; auto.
  - destruct (IH H) as (j & Hj & Fj). exists j; auto.
Qed.

Lemma count_zero f l j : count f l = 0%nat -> In j l -> f j = false.
Proof.
  induction l as [|k r IH]; cbn; [tauto|].
  intros H [E|IN].
  - subst. destruct (f j); [discriminate | reflexivity].
  - apply IH; [destruct (f k); [discriminate | exact H] | exact IN].
Qed.

Lemma eff_limit_pos z : (1 <= eff_limit z)%nat.
Proof. unfold eff_limit. destruct (z <? 1)%Z eqn:E; lia. Qed.

(* ------------------------------------------------------------------ *)
(* step inversion                                                       *)
(* ------------------------------------------------------------------ *)

Ltac unfold_steps H :=
  unfold list_ok, list_fail, notify, wake, check, acq_dl, load_ok, load_fail, acq_dc, decode,
         retry, next, close, bottom, publish, delete, with_dl, put_dl in H.

Ltac break_match H :=
  repeat match type of H with
  | context [match ?x with _ => _ end] =>
      match x with
      | context [match _ with _ => _ end] => fail 1
      | _ => destruct x eqn:?; try discriminate H
      end
  end.

Ltac step_inv H :=
  match type of H with step _ _ ?l = Some _ => destruct l end;
  cbn [step] in H; unfold_steps H; break_match H;
  inversion H; subst; clear H.

(* ------------------------------------------------------------------ *)
(* the scan of RunOnce computes [newest]                                *)
(* ------------------------------------------------------------------ *)

Definition is_bad_kind (x : name) : bool := kind_eqb (n_kind x) KBad.

Lemma scan_spec names : forall ign m ign' m',
  scan names ign m = (ign', m') ->
  (forall x, mem x ign' = mem x ign || (is_bad_kind x && mem x names)) /\
  (forall j, alook m' j = match newest names ign' j with Some y => Some y | None => alook m j end).
Proof.
  induction names as [|x r IH]; intros ign m ign' m' H; cbn in H.
  - inversion H; subst. split; intros; cbn; [rewrite andb_false_r, orb_false_r|]; reflexivity.
  - destruct (mem x ign) eqn:Ex.
    + destruct (IH _ _ _ _ H) as [A B]. split.
      * intros y. rewrite A. cbn. destruct (name_eqb y x) eqn:E; [|reflexivity].
        apply name_eqb_eq in E; subst. rewrite Ex. reflexivity.
      * intros j. rewrite B. cbn. destruct (newest r ign' j); [reflexivity|].
        rewrite A, Ex. cbn. rewrite andb_false_r. reflexivity.
    + destruct (n_kind x) eqn:K.
      * (* KSnap *)
        destruct (IH _ _ _ _ H) as [A B]. split.
        -- intros y. rewrite A. cbn. destruct (name_eqb y x) eqn:E; [|reflexivity].
           apply name_eqb_eq in E; subst. unfold is_bad_kind. rewrite K. cbn. reflexivity.
        -- intros j. rewrite B. cbn. destruct (newest r ign' j); [reflexivity|].
           rewrite alook_aset, A, Ex, K. unfold is_bad_kind. rewrite K. cbn.
           rewrite N.eqb_sym. destruct (n_inst x =? j); reflexivity.
      * (* KOther *)
        destruct (IH _ _ _ _ H) as [A B]. split.
        -- intros y. rewrite A. cbn. destruct (name_eqb y x) eqn:E; [|reflexivity].
           apply name_eqb_eq in E; subst. unfold is_bad_kind. rewrite K. cbn. reflexivity.
        -- intros j. rewrite B. cbn. destruct (newest r ign' j); [reflexivity|].
           rewrite K. cbn. rewrite andb_false_r. reflexivity.
      * (* KBad *)
        destruct (IH _ _ _ _ H) as [A B]. split.
        -- intros y. rewrite A. cbn. destruct (name_eqb y x) eqn:E; cbn.
           ++ apply name_eqb_eq in E; subst. unfold is_bad_kind. rewrite K. cbn. rewrite orb_true_r. reflexivity.
           ++ reflexivity.
        -- intros j. rewrite B. cbn. destruct (newest r ign' j); [reflexivity|].
           rewrite K. cbn. rewrite andb_false_r. reflexivity.
Qed.

Lemma newest_some names ign j x :
  newest names ign j = Some x ->
  In x names /\ n_inst x = j /\ n_kind x = KSnap /\ mem x ign = false.
Proof.
  induction names as [|y r IH]; cbn; [discriminate|].
  destruct (newest r ign j) eqn:E.
  - intros H; inversion H; subst. destruct (IH eq_refl) as (A & B); auto.
  - destruct ((n_inst y =? j) && kind_eqb (n_kind y) KSnap && negb (mem y ign)) eqn:C; [|discriminate].
    intros H; inversion H; subst.
    apply andb_true_iff in C as [C C3]. apply andb_true_iff in C as [C1 C2].
    apply N.eqb_eq in C1. apply kind_eqb_eq in C2. apply negb_true_iff in C3. auto.
Qed.

Lemma newest_none names ign j x :
  newest names ign j = None -> In x names -> n_inst x = j -> n_kind x = KSnap -> mem x ign = true.
Proof.
  induction names as [|y r IH]; cbn; [tauto|].
  destruct (newest r ign j) eqn:E; [discriminate|].
  destruct ((n_inst y =? j) && kind_eqb (n_kind y) KSnap && negb (mem y ign)) eqn:C; [discriminate|].
  intros _ [->|IN] I K; [|auto].
  rewrite I, K, N.eqb_refl in C. cbn in C. apply negb_false_iff in C. exact C.
Qed.

(* names of another instance in the ignored set do not matter *)
Lemma newest_other_ign names ign x j :
  n_inst x <> j -> newest names (x :: ign) j = newest names ign j.
Proof.
  intros NE. induction names as [|y r IH]; cbn; [reflexivity|].
  rewrite IH. destruct (newest r ign j); [reflexivity|].
  destruct (name_eqb y x) eqn:E; [|reflexivity].
  apply name_eqb_eq in E; subst. apply N.eqb_neq in NE. rewrite NE. reflexivity.
Qed.

(* what is newer than the newest non-ignored name is ignored *)
Lemma newest_app names ign j l2 :
  newest (names ++ l2) ign j =
  match newest l2 ign j with Some y => Some y | None => newest names ign j end.
Proof.
  induction names as [|y r IH]; cbn.
  - destruct (newest l2 ign j); reflexivity.
  - rewrite IH. destruct (newest l2 ign j); reflexivity.
Qed.

Global Arguments oname_eqb : simpl never.
Global Arguments name_eqb : simpl never.
