(* Receiver/Proofs.v — the statements used by Props/C16.v and Props/C08_receiver.v *)
From Coq Require Import List NArith ZArith Bool Lia Arith Relations.
From Coq Require Import ZifyN ZifyNat ZifyBool.
From LS Require Import Receiver.Model Receiver.Basics Receiver.Inv Receiver.Progress Receiver.Own.
Import ListNotations.
Open Scope N_scope.

(* ------------------------------------------------------------------ *)
(* C16_limits                                                           *)
(* ------------------------------------------------------------------ *)

Theorem limits c h s : reach c h s ->
  (1 <= lim_dl c)%nat /\ (1 <= lim_dc c)%nat /\
  (held_dl s + s_fdl s = lim_dl c)%nat /\ (held_dc s + s_fdc s = lim_dc c)%nat /\
  (held_dl s <= lim_dl c)%nat /\ (held_dc s <= lim_dc c)%nat /\
  NoDup (s_dls s) /\
  (forall j, s_dl s j <> None -> In j (s_dls s)) /\
  (forall j x, s_ready s j = Some x -> In j (s_dls s)).
Proof.
  intros R. destruct (reach_inv _ _ _ R) as [[ND DL RD TL TC] _ _ _].
  pose proof (eff_limit_pos (c_dl c)). pose proof (eff_limit_pos (c_dc c)). unfold lim_dl, lim_dc in *.
  repeat split; try assumption; try lia.
  intros j Hj. apply DL. exact Hj.
Qed.

(* a decoded snapshot that replaces one not yet taken by the syncer returns that one's token *)
Theorem superseded_released c s j d x y s' :
  s_dl s j = Some d -> d_phase d = HaveDc x -> n_ok x = true -> s_ready s j = Some y ->
  step c s (LDecode j) = Some s' ->
  s_ready s' j = Some x /\ s_fdc s' = S (s_fdc s) /\ s_fdl s' = S (s_fdl s) /\
  (forall k, k <> j -> s_ready s' k = s_ready s k).
Proof.
  intros E P OK RY H. cbn in H. unfold decode, with_dl in H. rewrite E, P, OK, RY in H.
  inversion H; subst; clear H. scbn. rewrite upd_same. repeat split; try reflexivity.
  intros k NE. rewrite upd_other by exact NE. reflexivity.
Qed.

(* ------------------------------------------------------------------ *)
(* C16_newest_only                                                      *)
(* ------------------------------------------------------------------ *)

(* x was the newest non-ignored snapshot name of its instance at some listing of the history h *)
Definition was_listed (c : cfg) (h : list label) (x : name) : Prop :=
  exists h1 h2 s1 s2 incl,
    h = h2 ++ LListOk incl :: h1 /\ reach c h1 s1 /\ step c s1 (LListOk incl) = Some s2 /\
    newest (s_bucket s1) (s_ign s2) (n_inst x) = Some x.

Lemma was_listed_cons c h l x : was_listed c h x -> was_listed c (l :: h) x.
Proof.
  intros (h1 & h2 & s1 & s2 & incl & A & B & C & D).
  exists h1, (l :: h2), s1, s2, incl. split; [rewrite A; reflexivity | auto].
Qed.

Lemma listed_inv c h s : reach c h s ->
  (forall j x, alook (s_seen s) j = Some x -> was_listed c h x) /\
  (forall j d x, s_dl s j = Some d -> working (d_phase d) = Some x -> was_listed c h x) /\
  (forall j x, s_ready s j = Some x -> was_listed c h x).
Proof.
  induction 1 as [|h s l s' R IH H].
  - cbn. repeat split; intros; discriminate.
  - destruct IH as (A & B & C).
    assert (A' : forall j x, alook (s_seen s) j = Some x -> was_listed c (l :: h) x)
      by (intros; eapply was_listed_cons, A; eassumption).
    assert (B' : forall j d x, s_dl s j = Some d -> working (d_phase d) = Some x -> was_listed c (l :: h) x)
      by (intros; eapply was_listed_cons, B; eassumption).
    assert (C' : forall j x, s_ready s j = Some x -> was_listed c (l :: h) x)
      by (intros; eapply was_listed_cons, C; eassumption).
    clear A B C. pose proof H as H'.
    step_inv H; scbn; repeat split; try assumption.
    all: try solve [fin].
    all: try solve [intros; upd_cases; inv_some; scbn; inv_some; eauto;
                    eapply B'; [eassumption | phase_rw; reflexivity]].
    all: try solve [intros; upd_cases; inv_some; scbn; cbn [working] in *; inv_some; eauto;
                    eapply B'; [eassumption | phase_rw; reflexivity]].
    + intros j x Hx. destruct (scan_spec _ _ _ _ _ Heqp) as [_ SB]. rewrite SB in Hx. cbn in Hx.
      destruct (newest (s_bucket s) l j) eqn:EN; [|discriminate]. inversion Hx; subst n.
      exists h, [], s. eexists. exists incl. split; [reflexivity|]. split; [exact R|]. split; [exact H'|].
      scbn. destruct (newest_some _ _ _ _ EN) as (_ & -> & _). exact EN.
    + intros j x Hx. destruct (scan_spec _ _ _ _ _ Heqp) as [_ SB]. rewrite SB in Hx. cbn in Hx.
      destruct (newest (s_bucket s) l j) eqn:EN; [|discriminate]. inversion Hx; subst n.
      exists h, [], s. eexists. exists incl. split; [reflexivity|]. split; [exact R|]. split; [exact H'|].
      scbn. destruct (newest_some _ _ _ _ EN) as (_ & -> & _). exact EN.
Qed.

Theorem newest_only c h s j x s' :
  reach c h s -> s_ready s j = Some x -> step c s (LNext j) = Some s' ->
  n_inst x = j /\ n_ok x = true /\ was_listed c h x /\ s_deliv s' = x :: s_deliv s.
Proof.
  intros R E H. destruct (listed_inv _ _ _ R) as (_ & _ & C).
  destruct (Inv.q_ready _ (inv_2 _ _ (reach_inv _ _ _ R)) _ _ E) as [[A _] B].
  repeat split; auto; [eapply C; eassumption|].
  cbn in H. unfold next in H. rewrite E in H. destruct (s_merge s); [discriminate|].
  destruct (s_exited s); [discriminate|]. inversion H; subst. reflexivity.
Qed.

(* every element of the delivery log was put there by such a Next *)
Theorem deliveries_listed c h s : reach c h s -> forall x, In x (s_deliv s) -> n_ok x = true /\ was_listed c h x.
Proof.
  induction 1 as [|h s l s' R IH H]; [intros x Hx; destruct Hx|].
  intros x Hx. destruct l; try (step_inv0 H; scbn; destruct (IH _ Hx) as [A B]; (split; [exact A | apply was_listed_cons; exact B])).
  pose proof H as H'. step_inv0 H. scbn. cbn [In] in Hx. destruct Hx as [<-|Hx].
  - destruct (newest_only _ _ _ _ _ _ R Heqo0 H') as (_ & A & B & _). split; [exact A | apply was_listed_cons; exact B].
  - destruct (IH _ Hx) as [A B]. split; [exact A | apply was_listed_cons; exact B].
Qed.


(* ------------------------------------------------------------------ *)
(* C08_corrupt_isolated                                                 *)
(* ------------------------------------------------------------------ *)

(* a decode failure: marked corrupt, both tokens back, nothing published, d.last := x, and no
   component belonging to another instance changes *)
Theorem corrupt_marked c s j d x s' :
  s_dl s j = Some d -> d_phase d = HaveDc x -> n_ok x = false -> step c s (LDecode j) = Some s' ->
  mem x (s_cor s') = true /\ s_fdl s' = S (s_fdl s) /\ s_fdc s' = S (s_fdc s) /\
  s_ready s' = s_ready s /\ s_deliv s' = s_deliv s /\ s_merge s' = s_merge s /\
  s_seen s' = s_seen s /\ s_notif s' = s_notif s /\ s_ign s' = s_ign s /\ s_pend s' = s_pend s /\
  s_bucket s' = s_bucket s /\ s_wait s' = s_wait s /\
  (forall k, k <> j -> s_dl s' k = s_dl s k) /\
  s_dl s' j = Some (mkDl (d_sig d) (Some x) Sleeping).
Proof.
  intros E P OK H. cbn in H. unfold decode, with_dl in H. rewrite E, P, OK in H.
  inversion H; subst; clear H. unfold put_dl. scbn. rewrite mem_add, name_eqb_refl.
  repeat split; try reflexivity; unfold put_dl; scbn; [|apply upd_same]. intros k NE. rewrite upd_other by exact NE. reflexivity.
Qed.

Lemma marks_mono c s l s' : step c s l = Some s' ->
  (forall x, mem x (s_cor s) = true -> mem x (s_cor s') = true) /\
  (forall x, mem x (s_ign s) = true -> mem x (s_ign s') = true).
Proof.
  intros H. step_inv H; scbn; split; auto.
  all: try (destruct (scan_spec _ _ _ _ _ Heqp) as [SA _]; intros x Hx; rewrite SA, mem_add_all, Hx, orb_true_r; reflexivity).
  intros x0 Hx. rewrite mem_add, Hx. apply orb_true_r.
Qed.

(* the next successful listing ignores every name marked corrupt *)
Theorem corrupt_then_ignored c s incl s' x :
  step c s (LListOk incl) = Some s' -> mem x (s_cor s) = true -> mem x (s_ign s') = true.
Proof.
  intros H Hx. step_inv0 H; scbn; destruct (scan_spec _ _ _ _ _ Heqp) as [SA _];
  rewrite SA, mem_add_all, Hx; reflexivity.
Qed.

(* an ignored name is never the lastSeen entry of any instance *)
Lemma ignored_not_seen c h s : reach c h s ->
  forall j x, alook (s_seen s) j = Some x -> mem x (s_ign s) = false.
Proof.
  induction 1 as [|h s l s' R IH H]; [intros; discriminate|].
  step_inv H; scbn; try assumption.
  all: intros j x Hx; destruct (scan_spec _ _ _ _ _ Heqp) as [_ SB]; rewrite SB in Hx; cbn in Hx;
       destruct (newest (s_bucket s) l j) eqn:EN; [|discriminate]; inversion Hx; subst;
       apply newest_some in EN; tauto.
Qed.

(* a name marked corrupt is never downloaded or decoded again *)
Theorem corrupt_not_retried c h s : reach c h s ->
  forall x j d, mem x (s_cor s) = true -> s_dl s j = Some d -> working (d_phase d) <> Some x.
Proof.
  induction 1 as [|h s l s' R IH H]; [intros; discriminate|].
  pose proof (reach_inv _ _ _ R) as [I1 I2 I3 I4].
  step_inv H; scbn; try assumption.
  all: try solve [fin].
  all: intros; upd_cases; inv_some; scbn; cbn [working] in *; try discriminate; eauto.
  all: try solve [intros HW; inv_some; eapply IH; [eassumption | eassumption | phase_rw; reflexivity]].
  - (* check -> WantDl *)
    intros HW; inv_some. destruct (v_r _ _ I3 _ _ _ H Heqo0 Heqo) as [A _].
    apply oname_eqb_neq in Heqb. congruence.
  - (* decode failure, other downloader *)
    rewrite mem_add in H. apply orb_true_iff in H. destruct H as [H|H]; [|eauto].
    apply name_eqb_eq in H; subst x0. intros HW. apply E.
    destruct (Inv.q_phase _ I2 _ _ _ H0 HW) as [A _]. rewrite <- A.
    apply (Inv.q_phase _ I2 j d x Heqo). rewrite Heqp. reflexivity.
Qed.

(* what a listing makes of an instance does not depend on ignored names of other instances *)
Lemma newest_indep names ign1 ign2 k :
  (forall y, n_inst y = k -> mem y ign1 = mem y ign2) -> newest names ign1 k = newest names ign2 k.
Proof.
  intros H. induction names as [|y r IH]; cbn; [reflexivity|].
  rewrite IH. destruct (newest r ign2 k); [reflexivity|].
  destruct (n_inst y =? k) eqn:E; cbn; [|reflexivity].
  apply N.eqb_eq in E. rewrite (H y E). reflexivity.
Qed.

(* what a listing installs is the newest non-ignored snapshot name per instance *)
Theorem listing_promotes c s incl s' :
  step c s (LListOk incl) = Some s' ->
  (forall j, alook (s_seen s') j = newest (s_bucket s) (s_ign s') j) /\
  (forall x, mem x (s_ign s') = mem x (s_cor s) || mem x (s_ign s) || (is_bad_kind x && mem x (s_bucket s))).
Proof.
  intros H. step_inv0 H; scbn; destruct (scan_spec _ _ _ _ _ Heqp) as [SA SB]; split.
  all: try (intros j; rewrite SB; cbn; destruct (newest (s_bucket s) l j); reflexivity).
  all: intros x; rewrite SA, mem_add_all; reflexivity.
Qed.

(* ------------------------------------------------------------------ *)
(* run-once                                                             *)
(* ------------------------------------------------------------------ *)

(* instance j was removed from the waiting set by CleanDisappeared at a moment it had no snapshots *)
Definition was_gone (c : cfg) (h : list label) (j : N) : Prop :=
  exists h1 h2 s1, h = h2 ++ LBottom :: h1 /\ reach c h1 s1 /\
    In j (s_wait s1) /\ alook (s_seen s1) j = None.

Lemma gone_meaning c h s : reach c h s -> forall j, In j (s_gone s) -> was_gone c h j.
Proof.
  induction 1 as [|h s l s' R IH H]; [intros j []|].
  assert (IH' : forall j, In j (s_gone s) -> was_gone c (l :: h) j).
  { intros j Hj. destruct (IH j Hj) as (h1 & h2 & s1 & A & B). exists h1, (l :: h2), s1.
    split; [rewrite A; reflexivity | exact B]. }
  step_inv H; scbn; try assumption.
  all: intros j Hj; apply in_app_iff in Hj; destruct Hj as [Hj|Hj]; [auto|].
  all: unfold disappeared in Hj; apply filter_In in Hj; destruct Hj as [A B];
       exists h, [], s; split; [reflexivity|]; split; [exact R|]; split; [exact A|];
       apply negb_true_iff in B; destruct (alook (s_seen s) j) eqn:E; [|reflexivity];
       apply alook_map_fst in E; apply memN_In in E; unfold seen_insts in B; congruence.
Qed.

(* the waiting set is what SeenInstances() returned after the first successful listing *)
Lemma init_meaning c s incl s' :
  step c s (LListOk incl) = Some s' -> s_started s = false ->
  s_init s' = map fst (s_seen s') /\ s_wait s' = map fst (s_seen s') /\ incl = true.
Proof.
  intros H ST. step_inv0 H; scbn; try congruence.
  repeat split. destruct incl; [reflexivity | discriminate].
Qed.

Theorem once_not_early c h s : reach c h s -> s_exited s = true ->
  c_once c = true /\ s_wait s = [] /\
  forall j, In j (s_init s) -> (exists x, In x (s_deliv s) /\ n_inst x = j /\ n_ok x = true) \/ was_gone c h j.
Proof.
  intros R EX. pose proof (reach_inv _ _ _ R) as [I1 I2 I3 I4].
  destruct (o_exit _ _ I4 EX) as [A B]. repeat split; try assumption.
  intros j Hj. destruct (o_cover _ _ I4 _ Hj) as [C|[(x & C & D)|C]].
  - rewrite A in C. destruct C.
  - left. exists x. repeat split; try assumption. apply (Inv.q_deliv _ I2 _ C).
  - right. eapply gone_meaning; eassumption.
Qed.

(* while the waiting set is not empty syncLoop has not returned *)
Theorem once_waits c h s : reach c h s -> s_wait s <> [] -> s_exited s = false.
Proof.
  intros R W. destruct (s_exited s) eqn:E; [|reflexivity].
  destruct (once_not_early _ _ _ R E) as (_ & A & _). contradiction.
Qed.

(* state-level form: no poll has skipped a new own name while the own instance was waited for *)
Theorem once_exits_state c s :
  good c s -> s_started s = true -> quiescent c s ->
  c_once c = true -> (own_waiting c s = true -> s_ownskip s = false) -> s_exited s = true.
Proof.
  intros G ST Q ON OS. destruct (s_exited s) eqn:EX; [reflexivity|].
  exfalso. eapply quiescent_once; eassumption.
Qed.

(* environment-level form: histories in which nobody stores under the own instance's name, or deletes the
   own snapshot the receiver is after, while the own instance is waited for (Receiver/Own.v [calm]) *)
Theorem once_exits c h s :
  reach_calm c h s -> synced s -> s_started s = true -> quiescent c s ->
  c_once c = true -> s_exited s = true.
Proof.
  intros R SY ST Q ON. eapply once_exits_state; try eassumption.
  - split; [eapply reach_inv; eapply reach_calm_reach; exact R | exact SY].
  - eapply calm_no_ownskip; exact R.
Qed.

(* a successful listing puts the system into a state from which C16_progress applies *)
Lemma good_after_listing c h s incl s' :
  reach c h s -> step c s (LListOk incl) = Some s' -> good c s'.
Proof.
  intros R H. split.
  - eapply reach_inv. eapply reachS; eassumption.
  - eapply list_ok_synced; eassumption.
Qed.

Lemma run_reach c : forall ls h s s', reach c h s -> run c s ls = Some s' -> reach c (rev ls ++ h) s'.
Proof.
  induction ls as [|l r IH]; cbn; intros h s s' R H.
  - inversion H; subst. exact R.
  - destruct (step c s l) as [s1|] eqn:E; [|discriminate].
    rewrite <- app_assoc. cbn. eapply IH; [|exact H]. eapply reachS; eassumption.
Qed.

Fixpoint run_calm (c : cfg) (s : state) (ls : list label) : option state :=
  match ls with
  | [] => Some s
  | l :: r => if calm c s l then match step c s l with Some s1 => run_calm c s1 r | None => None end else None
  end.

Lemma run_reach_calm c : forall ls h s s',
  reach_calm c h s -> run_calm c s ls = Some s' -> reach_calm c (rev ls ++ h) s'.
Proof.
  induction ls as [|l r IH]; cbn; intros h s s' R H.
  - inversion H; subst. exact R.
  - destruct (calm c s l) eqn:CA; [|discriminate]. destruct (step c s l) as [s1|] eqn:E; [|discriminate].
    rewrite <- app_assoc. cbn. eapply IH; [|exact H]. eapply rcS; eassumption.
Qed.

Lemma run_calm_reach c ls s' : run_calm c (init c) ls = Some s' -> reach_calm c (rev ls ++ []) s'.
Proof. intros H. apply (run_reach_calm c ls [] (init c) s'); [constructor | exact H]. Qed.

(* ---- regression: the run-once wedge of the rule BEFORE the fix in receiver.RunOnce ---- *)
(* own instance 0 has an older good snapshot (seq 0) and a newest undecodable one (seq 1).  Start-up
   listing (includingOwn) -> downloader 0 loads seq 1 -> decode fails -> marked corrupt, d.last = seq 1 ->
   retry: lastSeen is still seq 1 = d.last -> back to the outer select.  The next poll (includingOwn =
   false) ignores seq 1 and promotes seq 0.
   OLD rule  `if !includingOwn && inst == r.ownInstance { continue }`: the own instance is skipped,
   nobody wakes downloader 0, waitingForInstances = {0} for ever (replayed on the real Sync before the fix).
   NEW rule  `... && !r.ignoredFilenames[lastNotified.FullName]`: the downloader is signalled, seq 0 is
   delivered, the loop bottom exits. *)
Definition notify_old (c : cfg) (j : N) (s : state) : option state :=
  match s_pend s with
  | None => None
  | Some (incl, m) =>
      match alook m j with
      | None => None
      | Some x =>
          let s0 := set_pend s (pend_of incl (adel m j)) in
          if oname_eqb (Some x) (s_notif s j) then Some s0
          else if negb incl && (j =? c_own c) then Some (set_ownskip s0 true)
          else
            let s1 := match s_dl s j with
                      | Some d => set_dl s0 (upd (s_dl s) j (Some (mkDl true (d_last d) (d_phase d))))
                      | None => set_dls (set_dl s0 (upd (s_dl s) j (Some (mkDl true None Idle)))) (s_dls s ++ [j])
                      end in
            Some (set_notif s1 (upd (s_notif s) j (Some x)))
      end
  end.
Definition step_old (c : cfg) (s : state) (l : label) : option state :=
  match l with LNotify j => notify_old c j s | _ => step c s l end.
Fixpoint run_old (c : cfg) (s : state) (ls : list label) : option state :=
  match ls with
  | [] => Some s
  | l :: r => match step_old c s l with Some s' => run_old c s' r | None => None end
  end.

Definition wedge_cfg : cfg := mkCfg 0 1 1 true.
Definition wedge_trace : list label :=
  [LPublish 0 true KSnap; LPublish 0 false KSnap; LListOk true; LNotify 0; LWake 0; LCheck 0;
   LAcqDl 0; LLoadOk 0; LAcqDc 0; LDecode 0; LRetry 0; LCheck 0; LListOk false; LNotify 0].
Definition wedge_rest : list label :=
  [LWake 0; LCheck 0; LAcqDl 0; LLoadOk 0; LAcqDc 0; LDecode 0; LNext 0; LClose; LBottom].

(* old rule: after the trace nothing is pending, downloader 0 is idle without a signal, it has only dealt
   with the corrupt seq 1, the good seq 0 is lastSeen but was never notified, and every further downloader
   or syncer step of instance 0 is disabled *)
Lemma wedge_old_rule :
  exists s, run_old wedge_cfg (init wedge_cfg) wedge_trace = Some s /\
    s_pend s = None /\ s_wait s = [0] /\ s_exited s = false /\ s_deliv s = [] /\
    s_dl s 0 = Some (mkDl false (Some (mkName 0 1 false KSnap)) Idle) /\
    alook (s_seen s) 0 = Some (mkName 0 0 true KSnap) /\ s_notif s 0 = Some (mkName 0 1 false KSnap) /\
    step_old wedge_cfg s (LWake 0) = None /\ step_old wedge_cfg s (LNext 0) = None /\
    (exists s', step_old wedge_cfg s LBottom = Some s' /\ s_wait s' = [0] /\ s_exited s' = false).
Proof. vm_compute. eexists. repeat split. eexists. repeat split. Qed.

(* new rule: the same history goes on to deliver seq 0 and to exit *)
Lemma wedge_new_rule :
  exists s, run_calm wedge_cfg (init wedge_cfg) (wedge_trace ++ wedge_rest) = Some s /\
    s_deliv s = [mkName 0 0 true KSnap] /\ s_wait s = [] /\ s_exited s = true /\ s_ownskip s = false.
Proof. vm_compute. eexists. repeat split. Qed.

(* ---- what remains false without the environment assumption ---- *)
(* own instance 0 has seq 0 (good), seq 1 (undecodable), seq 2 (good, newest).  Start-up notifies seq 2;
   a cleaner deletes seq 2 before it is loaded (Load fails, the downloader sleeps); the poll promotes seq 1
   but skips the own instance (seq 2 is not ignored, only gone); the retry loop picks seq 1 up by itself,
   it does not decode and is marked corrupt; the next poll promotes seq 0 and skips again.  Nobody wakes
   downloader 0.  Needs the deletion of the newest own snapshot during start-up AND an undecodable
   next-newest one. *)
Definition resid_trace : list label :=
  [LPublish 0 true KSnap; LPublish 0 false KSnap; LPublish 0 true KSnap; LListOk true; LNotify 0;
   LWake 0; LCheck 0; LAcqDl 0; LDelete (mkName 0 2 true KSnap); LLoadFail 0;
   LListOk false; LNotify 0; LRetry 0; LCheck 0; LAcqDl 0; LLoadOk 0; LAcqDc 0; LDecode 0; LRetry 0; LCheck 0;
   LListOk false; LNotify 0].
Definition resid_state : state :=
  Eval vm_compute in match run wedge_cfg (init wedge_cfg) resid_trace with Some s => s | None => init wedge_cfg end.

Lemma resid_run : run wedge_cfg (init wedge_cfg) resid_trace = Some resid_state.
Proof. vm_compute. reflexivity. Qed.

Lemma resid_quiescent : quiescent wedge_cfg resid_state.
Proof.
  split; [reflexivity|].
  intros l s' IN ST. destruct l; cbn [internal] in IN; try discriminate IN.
  all: try (vm_compute in ST; discriminate ST).
  all: try (vm_compute; reflexivity).
  all: destruct j; try (vm_compute in IN; discriminate IN); vm_compute in ST; discriminate ST.
Qed.

Theorem once_exits_unconditional_refuted :
  exists c h s, reach c h s /\ good c s /\ s_started s = true /\ quiescent c s /\ c_once c = true /\
                s_exited s = false /\ s_wait s = [c_own c] /\
                newest_ok (s_bucket s) (c_own c) <> None /\ last_deliv (s_deliv s) (c_own c) = None /\
                ~ reach_calm c h s.
Proof.
  exists wedge_cfg, (rev resid_trace ++ []), resid_state.
  assert (R : reach wedge_cfg (rev resid_trace ++ []) resid_state)
    by (apply (run_reach wedge_cfg resid_trace [] (init wedge_cfg)); [constructor | exact resid_run]).
  assert (G : good wedge_cfg resid_state)
    by (split; [eapply reach_inv; exact R | vm_compute; reflexivity]).
  split; [exact R|]. split; [exact G|].
  repeat split; try reflexivity; try apply resid_quiescent.
  - vm_compute. discriminate.
  - intros RC. assert (E : s_exited resid_state = true).
    { eapply once_exits; [exact RC | apply G | reflexivity | apply resid_quiescent | reflexivity]. }
    vm_compute in E. discriminate.
Qed.

(* ------------------------------------------------------------------ *)
(* C16_progress, assembled                                              *)
(* ------------------------------------------------------------------ *)

Theorem progress_quiescent c s :
  good c s -> s_started s = true -> s_exited s = false -> quiescent c s ->
  (forall j d, s_dl s j = Some d -> d_phase d = Idle /\ d_sig d = false) /\
  (forall j, s_ready s j = None) /\ s_merge s = None /\
  s_fdl s = lim_dl c /\ s_fdc s = lim_dc c /\
  (forall x, mem x (s_cor s) = true -> mem x (s_ign s) = true) /\
  (forall j x, (j <> c_own c \/ s_ownskip s = false) ->
     newest_ok (s_bucket s) j = Some x -> last_deliv (s_deliv s) j = Some x).
Proof.
  intros G ST EX Q. repeat split.
  - eapply q_idle; eassumption.
  - eapply q_idle; eassumption.
  - intros j. eapply Progress.q_ready; eassumption.
  - eapply Progress.q_merge; eassumption.
  - eapply q_dl_free; eassumption.
  - eapply q_dc_free; eassumption.
  - intros x. eapply q_cor_ign; eassumption.
  - intros j x. eapply quiescent_delivered; eassumption.
Qed.

(* ------------------------------------------------------------------ *)
(* concrete runs (non-vacuity of the hypotheses)                        *)
(* ------------------------------------------------------------------ *)

(* own instance 0; instance 1 has one good snapshot; instance 2 has a good one and a newer undecodable
   one; one download and one decompress token.  The run shows: the limit-1 wait for the syncer, the decode
   failure, the promotion of the older snapshot at the next poll, both deliveries, quiescence. *)
Definition demo_trace : list label :=
  [LPublish 1 true KSnap; LPublish 2 true KSnap; LPublish 2 false KSnap;
   LListOk true; LNotify 1; LNotify 2;
   LWake 1; LCheck 1; LAcqDl 1; LLoadOk 1; LAcqDc 1; LDecode 1;
   LWake 2; LCheck 2; LAcqDl 2; LLoadOk 2;
   LNext 1; LClose;
   LAcqDc 2; LDecode 2; LRetry 2; LCheck 2;
   LListOk false; LNotify 1; LNotify 2;
   LWake 2; LCheck 2; LAcqDl 2; LLoadOk 2; LAcqDc 2; LDecode 2;
   LNext 2; LClose].

Definition demo_cfg (once : bool) : cfg := mkCfg 0 1 1 once.
Definition demo_state : state :=
  Eval vm_compute in match run (demo_cfg false) (init (demo_cfg false)) demo_trace with Some s => s | None => init (demo_cfg false) end.
Definition demo_state_once : state :=
  Eval vm_compute in match run (demo_cfg true) (init (demo_cfg true)) (demo_trace ++ [LBottom]) with Some s => s | None => init (demo_cfg true) end.

Lemma demo_run : run (demo_cfg false) (init (demo_cfg false)) demo_trace = Some demo_state.
Proof. vm_compute. reflexivity. Qed.
Lemma demo_run_once : run (demo_cfg true) (init (demo_cfg true)) (demo_trace ++ [LBottom]) = Some demo_state_once.
Proof. vm_compute. reflexivity. Qed.

Lemma demo_reach : reach (demo_cfg false) (rev demo_trace ++ []) demo_state.
Proof. apply (run_reach _ demo_trace [] (init (demo_cfg false))); [constructor | exact demo_run]. Qed.
Lemma demo_reach_once : reach (demo_cfg true) (rev (demo_trace ++ [LBottom]) ++ []) demo_state_once.
Proof. apply (run_reach _ (demo_trace ++ [LBottom]) [] (init (demo_cfg true))); [constructor | exact demo_run_once]. Qed.

Ltac quiescent_by_cases :=
  split; [reflexivity|];
  intros l s' IN ST; destruct l; cbn [internal] in IN; try discriminate IN;
  try (vm_compute in ST; discriminate ST); try (vm_compute; reflexivity);
  match goal with j : N |- _ => destruct j as [|[[p|p|]|[p|p|]|]] end;
  try (vm_compute in IN; discriminate IN); vm_compute in ST; discriminate ST.

Lemma demo_quiescent : quiescent (demo_cfg false) demo_state.
Proof. quiescent_by_cases. Qed.
Lemma demo_quiescent_once : quiescent (demo_cfg true) demo_state_once.
Proof. quiescent_by_cases. Qed.

Lemma demo_good : good (demo_cfg false) demo_state.
Proof. split; [eapply reach_inv; exact demo_reach | vm_compute; reflexivity]. Qed.
Lemma demo_good_once : good (demo_cfg true) demo_state_once.
Proof. split; [eapply reach_inv; exact demo_reach_once | vm_compute; reflexivity]. Qed.

(* the hypotheses of C16_progress_quiescent hold of demo_state, and its conclusion says something *)
Lemma demo_facts :
  good (demo_cfg false) demo_state /\ s_started demo_state = true /\ s_exited demo_state = false /\
  quiescent (demo_cfg false) demo_state /\
  newest_ok (s_bucket demo_state) 2 = Some (mkName 2 1 true KSnap) /\
  newest (s_bucket demo_state) [] 2 = Some (mkName 2 2 false KSnap) /\
  mem (mkName 2 2 false KSnap) (s_cor demo_state) = true /\
  s_deliv demo_state = [mkName 2 1 true KSnap; mkName 1 0 true KSnap].
Proof.
  split; [exact demo_good|]. repeat split; try reflexivity. apply demo_quiescent.
Qed.

Lemma demo_facts_once :
  good (demo_cfg true) demo_state_once /\ s_started demo_state_once = true /\
  quiescent (demo_cfg true) demo_state_once /\ c_once (demo_cfg true) = true /\
  s_ownskip demo_state_once = false /\ s_exited demo_state_once = true /\ s_init demo_state_once = [1; 2].
Proof.
  split; [exact demo_good_once|]. repeat split; try reflexivity. apply demo_quiescent_once.
Qed.

Lemma demo_reach_calm_once : reach_calm (demo_cfg true) (rev (demo_trace ++ [LBottom]) ++ []) demo_state_once.
Proof. apply run_calm_reach. vm_compute. reflexivity. Qed.
