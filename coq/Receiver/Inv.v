(* Receiver/Inv.v — invariants of every reachable state of Receiver/Model.v *)
From Coq Require Import List NArith ZArith Bool Lia Arith.
From Coq Require Import ZifyN ZifyNat ZifyBool.
From LS Require Import Receiver.Model Receiver.Basics.
Import ListNotations.
Open Scope N_scope.

(* ------------------------------------------------------------------ *)
(* 1. downloader table and token accounting                             *)
(* ------------------------------------------------------------------ *)

Record inv1 (c : cfg) (s : state) : Prop := {
  i_nodup : NoDup (s_dls s);
  i_dls : forall j, In j (s_dls s) <-> s_dl s j <> None;
  i_ready_dl : forall j x, s_ready s j = Some x -> In j (s_dls s);
  i_tok_dl : (held_dl s + s_fdl s = lim_dl c)%nat;
  i_tok_dc : (held_dc s + s_fdc s = lim_dc c)%nat
}.

Lemma count_phase_upd (f : phase -> bool) s s' j d d' :
  NoDup (s_dls s) -> In j (s_dls s) -> s_dl s j = Some d ->
  s_dl s' = upd (s_dl s) j (Some d') -> s_dls s' = s_dls s ->
  (count (fun k => f (phase_of s' k)) (s_dls s') + b2n (f (d_phase d))
   = count (fun k => f (phase_of s k)) (s_dls s) + b2n (f (d_phase d')))%nat.
Proof.
  intros ND IN E E1 E2. rewrite E2.
  assert (P1 : phase_of s j = d_phase d) by (unfold phase_of; rewrite E; reflexivity).
  assert (P2 : phase_of s' j = d_phase d') by (unfold phase_of; rewrite E1, upd_same; reflexivity).
  rewrite <- P1, <- P2.
  apply (count_upd (fun k => f (phase_of s' k)) (fun k => f (phase_of s k)) (s_dls s) j ND IN).
  intros k NE. unfold phase_of. rewrite E1, upd_other by exact NE. reflexivity.
Qed.

Lemma count_phase_same (f : phase -> bool) s s' :
  s_dl s' = s_dl s -> s_dls s' = s_dls s ->
  count (fun k => f (phase_of s' k)) (s_dls s') = count (fun k => f (phase_of s k)) (s_dls s).
Proof. intros E1 E2. unfold phase_of. rewrite E1, E2. reflexivity. Qed.

Lemma count_ready_upd s s' j v :
  NoDup (s_dls s) -> In j (s_dls s) ->
  s_ready s' = upd (s_ready s) j v -> s_dls s' = s_dls s ->
  (count (fun k => is_some (s_ready s' k)) (s_dls s') + b2n (is_some (s_ready s j))
   = count (fun k => is_some (s_ready s k)) (s_dls s) + b2n (is_some v))%nat.
Proof.
  intros ND IN E1 E2. rewrite E2.
  pose proof (count_upd (fun k => is_some (s_ready s' k)) (fun k => is_some (s_ready s k)) (s_dls s) j ND IN) as H.
  cbv beta in H. rewrite E1, upd_same in H. rewrite E1. apply H.
  intros k NE. rewrite upd_other by exact NE. reflexivity.
Qed.

Lemma inv1_init c : inv1 c (init c).
Proof.
  constructor; cbn; try (intros; discriminate); try reflexivity.
  - constructor.
  - intros j; split; [tauto | intros H; apply H; reflexivity].
Qed.

Lemma dls_upd (l : list N) (f : N -> option dler) j d :
  (forall k, In k l <-> f k <> None) -> In j l ->
  forall k, In k l <-> upd f j (Some d) k <> None.
Proof.
  intros H IN k. destruct (N.eq_dec k j) as [->|NE].
  - rewrite upd_same. split; [congruence | auto].
  - rewrite upd_other by exact NE. apply H.
Qed.

Lemma nodup_snoc (l : list N) j : NoDup l -> ~ In j l -> NoDup (l ++ [j]).
Proof.
  induction l as [|k r IH]; cbn; intros ND NI.
  - repeat constructor. tauto.
  - inversion ND; subst. constructor.
    + rewrite in_app_iff. cbn. intuition.
    + apply IH; [assumption | tauto].
Qed.

Lemma count_new f g l j :
  ~ In j l -> (forall k, k <> j -> f k = g k) -> f j = false -> count f (l ++ [j]) = count g l.
Proof.
  intros NI H F. rewrite count_app. cbn. rewrite F. rewrite (count_ext f g l); [lia|].
  intros k Hk. apply H. intros ->. contradiction.
Qed.

Lemma inv1_step c s l s' : inv1 c s -> step c s l = Some s' -> inv1 c s'.
Proof.
  intros [ND DL RD TL TC] H.
  unfold held_dc, held_dl, n_ready, n_decoding, n_merge in *.
  step_inv H.
  all: try match goal with E : s_dl ?s ?j = Some ?d, DL : forall j, In j (s_dls ?s) <-> _ |- inv1 _ ?s' =>
      assert (IN : In j (s_dls s)) by (apply DL; congruence)
    end.
  all: try match goal with E : s_dl ?s ?j = None, DL : forall j, In j (s_dls ?s) <-> _ |- inv1 _ ?s' =>
      assert (NIN : ~ In j (s_dls s)) by (rewrite DL; intros NIN; apply NIN; exact E)
    end.
  all: try match goal with E : s_ready ?s ?j = Some ?d, RD : forall j x, s_ready ?s j = Some x -> _ |- inv1 _ ?s' =>
      assert (IN : In j (s_dls s)) by (eapply RD; eassumption)
    end.
  all: try match goal with E : s_dl ?s ?j = Some ?d, ND : NoDup (s_dls ?s), IN : In ?j (s_dls ?s) |- inv1 _ ?s' =>
      match s' with context [upd (s_dl s) j (Some ?d')] =>
      pose proof (count_phase_upd holds_dl s s' j d d' ND IN E eq_refl eq_refl) as HL;
      pose proof (count_phase_upd holds_dc s s' j d d' ND IN E eq_refl eq_refl) as HC
      end end.
  all: try match goal with ND : NoDup (s_dls ?s), IN : In ?j (s_dls ?s) |- inv1 _ ?s' =>
      match s' with context [upd (s_ready s) j ?v] =>
      pose proof (count_ready_upd s s' j v ND IN eq_refl eq_refl) as HR
      end end.
  all: constructor; unfold held_dc, held_dl, n_ready, n_decoding, n_merge, phase_of in *; cbn in *.
  all: try assumption.
  all: try (apply dls_upd; assumption).
  all: try match goal with H : d_phase _ = _ |- _ => rewrite H in * end; cbn in *.
  all: try match goal with H : s_ready _ _ = _ |- _ => rewrite H in * end; cbn in *.
  all: try match goal with H : s_merge _ = _ |- _ => rewrite H in * end; cbn in *.
  all: try lia.
  all: try (intros j0 x0; unfold upd; destruct (j0 =? _) eqn:EQ; [apply N.eqb_eq in EQ; subst; intros; assumption | apply RD]).
  - (* new downloader *)
    apply nodup_snoc; assumption.
  - intros k. rewrite in_app_iff. cbn. destruct (N.eq_dec k j) as [->|NE].
    + rewrite upd_same. split; [congruence | auto].
    + rewrite upd_other by exact NE. rewrite <- DL. split; [intros [?|[?|[]]]; [assumption | congruence] | auto].
  - intros k x Hk. apply in_app_iff. left. eapply RD; eassumption.
  - rewrite (count_new _ (fun j0 => holds_dl match s_dl s j0 with Some d => d_phase d | None => Idle end)); auto.
    + intros k NE. rewrite upd_other by exact NE. reflexivity.
    + rewrite upd_same. reflexivity.
  - match goal with |- (count ?f1 _ + count ?f2 _ + _ + _)%nat = _ =>
      rewrite (count_new f1 (fun j0 => is_some (s_ready s j0)) (s_dls s) j),
              (count_new f2 (fun j0 => holds_dc match s_dl s j0 with Some d => d_phase d | None => Idle end) (s_dls s) j)
    end; auto.
    + intros k NE. rewrite upd_other by exact NE. reflexivity.
    + rewrite upd_same. reflexivity.
    + destruct (s_ready s j) eqn:E; [|reflexivity]. exfalso. apply NIN. eapply RD; eassumption.
Qed.

(* ------------------------------------------------------------------ *)
(* 2. which names can be where                                          *)
(* ------------------------------------------------------------------ *)

Definition working (p : phase) : option name :=
  match p with WantDl x | HaveDl x | Loaded x | HaveDc x => Some x | _ => None end.

Definition snap_of (j : N) (x : name) : Prop := n_inst x = j /\ n_kind x = KSnap.

Record inv2 (s : state) : Prop := {
  q_bucket : forall x, In x (s_bucket s) -> n_seq x < s_next s;
  q_seen : forall j x, alook (s_seen s) j = Some x -> snap_of j x /\ n_seq x < s_next s;
  q_pend : forall i m j x, s_pend s = Some (i, m) -> alook m j = Some x -> alook (s_seen s) j = Some x;
  q_notif : forall j x, s_notif s j = Some x -> snap_of j x /\ n_seq x < s_next s;
  q_phase : forall j d x, s_dl s j = Some d -> working (d_phase d) = Some x -> snap_of j x;
  q_last : forall j d x, s_dl s j = Some d -> d_last d = Some x -> snap_of j x;
  q_ready : forall j x, s_ready s j = Some x -> snap_of j x /\ n_ok x = true;
  q_merge : forall x, s_merge s = Some x -> n_ok x = true;
  q_deliv : forall x, In x (s_deliv s) -> n_ok x = true;
  q_cor : forall x, mem x (s_cor s) = true -> n_ok x = false /\ n_kind x = KSnap;
  q_ign : forall x, mem x (s_ign s) = true -> n_kind x = KBad \/ mem x (s_cor s) = true
}.

Lemma pend_of_some i m i' m' : pend_of i m = Some (i', m') -> i' = i /\ m' = m.
Proof. destruct m; cbn; intros H; inversion H; auto. Qed.

Lemma inv2_init c : inv2 (init c).
Proof. constructor; cbn; intros; try discriminate; try tauto. Qed.

Ltac upd_cases :=
  repeat match goal with
  | E : ?k <> ?j, H : context [upd _ ?j _ ?k] |- _ => rewrite (upd_other _ _ _ _ E) in H
  | E : ?k <> ?j |- context [upd _ ?j _ ?k] => rewrite (upd_other _ _ _ _ E)
  | H : context [upd _ ?j _ ?j] |- _ => rewrite upd_same in H
  | |- context [upd _ ?j _ ?j] => rewrite upd_same
  | H : context [upd _ ?j _ ?k] |- _ =>
      let E := fresh "E" in
      destruct (N.eq_dec k j) as [E|E]; [ first [subst k | rewrite E in * ] | ]
  | |- context [upd _ ?j _ ?k] =>
      let E := fresh "E" in
      destruct (N.eq_dec k j) as [E|E]; [ first [subst k | rewrite E in * ] | ]
  end.

Ltac inv_some :=
  repeat match goal with
  | H : Some _ = Some _ |- _ => inversion H; subst; clear H
  | H : None = Some _ |- _ => discriminate H
  | H : Some _ = None |- _ => discriminate H
  end.

Ltac fin := intros; upd_cases; inv_some; cbn in *; inv_some; eauto.

Lemma inv2_step c s l s' : inv2 s -> step c s l = Some s' -> inv2 s'.
Proof.
  intros [NB NS NP NN NPH NL NR NM ND NC NI] H.
  step_inv H.
  all: constructor; cbn in *.
  all: try assumption.
  all: try solve [fin].
  all: try solve [intros; upd_cases; inv_some; cbn in *; inv_some; eauto;
                  match goal with HP : d_phase ?d = _, HD : s_dl _ ?j = Some ?d |- snap_of ?j _ =>
                    eapply NPH; [exact HD | rewrite HP; reflexivity] end].
  all: try solve [intros; congruence].
  all: try match goal with HS : scan _ _ [] = (_, _) |- _ => destruct (scan_spec _ _ _ _ _ HS) as [SA SB] end.
  (* list ok: seen, pend, ign (twice) *)
  1,4: intros j x Hx; rewrite SB in Hx; cbn in Hx;
       destruct (newest (s_bucket s) l j) eqn:EN; [|discriminate]; inversion Hx; subst;
       apply newest_some in EN; destruct EN as (A & B & C & _); split; [split; assumption | auto].
  1,3: intros i m j x Hp Hm; apply pend_of_some in Hp; destruct Hp as [_ ->]; exact Hm.
  1,2: intros x Hx; rewrite SA, mem_add_all in Hx; unfold is_bad_kind in Hx;
       destruct (mem x (s_cor s)) eqn:E1; [right; reflexivity|];
       destruct (mem x (s_ign s)) eqn:E2; [destruct (NI x E2); [left; assumption | congruence]|];
       cbn in Hx; apply andb_true_iff in Hx; destruct Hx as [Hx _]; apply kind_eqb_eq in Hx; left; exact Hx.
  (* notify: pend *)
  1-4: intros i m j0 x Hp Hm; apply pend_of_some in Hp; destruct Hp as [_ ->];
       rewrite alook_adel in Hm; destruct (j0 =? j); [discriminate|]; eapply NP; [reflexivity | exact Hm].
  (* check -> WantDl *)
  - intros; upd_cases; inv_some; cbn in *; inv_some; [apply NS; assumption | eauto].
  (* decode ok, twice *)
  - intros; upd_cases; inv_some; [|eauto];
       split; [eapply NPH; [eassumption | match goal with HP : d_phase _ = _ |- _ => rewrite HP end; reflexivity] | assumption].
  - intros; upd_cases; inv_some; [|eauto];
       split; [eapply NPH; [eassumption | match goal with HP : d_phase _ = _ |- _ => rewrite HP end; reflexivity] | assumption].
  (* decode fail *)
  - intros x0 Hx. rewrite mem_add in Hx. apply orb_true_iff in Hx. destruct Hx as [Hx|Hx]; [|auto].
    apply name_eqb_eq in Hx; subst. split; [assumption|].
    eapply NPH; [eassumption | match goal with HP : d_phase _ = _ |- _ => rewrite HP end; reflexivity].
  - intros x0 Hx. rewrite mem_add. destruct (NI x0 Hx) as [A|A]; [left; exact A | right; rewrite A, orb_true_r; reflexivity].
  (* next *)
  - intros; inv_some. apply (NR _ _ Heqo0).
  - intros x [<-|Hx]; [apply (NR _ _ Heqo0) | auto].
  (* publish *)
  - intros x Hx. apply in_app_iff in Hx. destruct Hx as [Hx|[<-|[]]]; [apply NB in Hx|cbn]; lia.
  - intros j0 x Hx. destruct (NS _ _ Hx). split; [assumption | lia].
  - intros j0 x Hx. destruct (NN _ _ Hx). split; [assumption | lia].
  (* delete *)
  - intros x0 Hx. apply NB. apply mem_In. apply mem_In in Hx. rewrite mem_remove in Hx.
    apply andb_true_iff in Hx. tauto.
Qed.

(* ------------------------------------------------------------------ *)
(* 3. notification / download bookkeeping                               *)
(* ------------------------------------------------------------------ *)

Definition pending_has (s : state) (j : N) (x : name) : Prop :=
  exists i m, s_pend s = Some (i, m) /\ alook m j = Some x.

(* the downloader will look at lastSeenByInstance again, or is dealing with x, or is done with x *)
Definition k_ok (d : dler) (x : name) : Prop :=
  d_sig d = true \/
  match d_phase d with
  | Idle => d_last d = Some x
  | Check | Sleeping => True
  | WantDl n | HaveDl n | Loaded n | HaveDc n => n = x
  end.

Record inv3 (c : cfg) (s : state) : Prop := {
  v_w : forall j d x, s_dl s j = Some d -> working (d_phase d) = Some x -> d_last d <> Some x;
  v_n : forall j x, alook (s_seen s) j = Some x ->
          s_notif s j = Some x \/ pending_has s j x \/
          (j = c_own c /\ s_ownskip s = true /\ notif_ignored s j = false);
  v_k : forall j x, (j <> c_own c \/ s_ownskip s = false) ->
          alook (s_seen s) j = Some x -> s_notif s j = Some x ->
          exists d, s_dl s j = Some d /\ k_ok d x;
  v_p : forall j x, alook (s_seen s) j = None -> s_notif s j = Some x ->
          mem x (s_bucket s) = false \/ mem x (s_ign s) = true;
  v_d : forall j d x, s_dl s j = Some d -> d_last d = Some x ->
          mem x (s_cor s) = true \/ s_ready s j = Some x \/ last_deliv (s_deliv s) j = Some x;
  v_rl : forall j d x, s_ready s j = Some x -> s_dl s j = Some d ->
          d_last d = Some x \/ exists y, d_last d = Some y /\ mem y (s_cor s) = true;
  v_r : forall j d x, mem x (s_cor s) = true -> alook (s_seen s) j = Some x -> s_dl s j = Some d ->
          d_last d = Some x /\ working (d_phase d) = None;
  v_cor_dl : forall x, mem x (s_cor s) = true -> s_dl s (n_inst x) <> None
}.

Lemma inv3_init c : inv3 c (init c).
Proof. constructor; cbn; intros; try discriminate; try tauto. Qed.

Ltac scbn := cbn [s_bucket s_next s_seen s_has s_ign s_cor s_notif s_ready s_dl s_dls s_pend s_fdl s_fdc s_merge
  s_started s_wait s_exited s_deliv s_gone s_init s_ownskip
  set_bucket set_next set_seen set_has set_ign set_cor set_notif set_ready set_dl set_dls set_pend set_fdl set_fdc
  set_merge set_started set_wait set_exited set_deliv set_gone set_init set_ownskip d_last d_phase d_sig] in *.

Ltac phase_rw := repeat match goal with HP : d_phase ?d = _ |- _ => rewrite HP in *; clear HP end.

Lemma inv3_w c s l s' : inv2 s -> inv3 c s -> step c s l = Some s' ->
  forall j d x, s_dl s' j = Some d -> working (d_phase d) = Some x -> d_last d <> Some x.
Proof.
  intros I2 [W N K P D RL R CD] H. step_inv H; cbn in *; try assumption.
  all: try solve [fin].
  all: intros; upd_cases; inv_some; cbn in *; inv_some; eauto.
  all: try solve [eapply W; [eassumption | phase_rw; reflexivity]].
  apply oname_eqb_neq in Heqb. congruence.
Qed.

Lemma last_deliv_cons x d j : last_deliv (x :: d) j = if n_inst x =? j then Some x else last_deliv d j.
Proof. reflexivity. Qed.

Lemma inv3_d c s l s' : inv2 s -> inv3 c s -> step c s l = Some s' ->
  forall j d x, s_dl s' j = Some d -> d_last d = Some x ->
    mem x (s_cor s') = true \/ s_ready s' j = Some x \/ last_deliv (s_deliv s') j = Some x.
Proof.
  intros I2 [W N K P D RL R CD] H. step_inv H; scbn; try assumption.
  all: try solve [fin].
  all: intros; upd_cases; inv_some; scbn; inv_some; eauto.
  - (* decode fail, same instance *) left. rewrite mem_add, name_eqb_refl. reflexivity.
  - (* decode fail, other instance *)
    destruct (D _ _ _ H H0) as [A|A]; [left; rewrite mem_add, A, orb_true_r; reflexivity | auto].
  - (* next, same instance *)
    rewrite last_deliv_cons. destruct (q_ready _ I2 _ _ Heqo0) as [[A _] _]. rewrite A, N.eqb_refl.
    destruct (RL _ _ _ Heqo0 H) as [B|(y & B & C)]; rewrite B in H0; inversion H0; subst; auto.
  - (* next, other instance *)
    rewrite last_deliv_cons. destruct (q_ready _ I2 _ _ Heqo0) as [[A _] _]. rewrite A.
    apply N.eqb_neq in E. rewrite N.eqb_sym, E. eauto.
Qed.

Lemma inv3_rl c s l s' : inv1 c s -> inv2 s -> inv3 c s -> step c s l = Some s' ->
  forall j d x, s_ready s' j = Some x -> s_dl s' j = Some d ->
    d_last d = Some x \/ exists y, d_last d = Some y /\ mem y (s_cor s') = true.
Proof.
  intros I1 I2 [W N K P D RL R CD] H. step_inv H; scbn; try assumption.
  all: try solve [fin].
  all: intros; upd_cases; inv_some; scbn; inv_some; eauto.

  all: try solve [eapply RL; eassumption].
  - exfalso. apply (i_ready_dl _ _ I1) in H. apply (i_dls _ _ I1) in H. contradiction.
  - right. exists x. split; [reflexivity|]. rewrite mem_add, name_eqb_refl. reflexivity.
  - destruct (RL _ _ _ H H0) as [A|(y & A & B)]; [auto|].
    right. exists y. split; [assumption|]. rewrite mem_add, B, orb_true_r. reflexivity.
Qed.

Lemma inv3_cd c s l s' : inv2 s -> inv3 c s -> step c s l = Some s' ->
  forall x, mem x (s_cor s') = true -> s_dl s' (n_inst x) <> None.
Proof.
  intros I2 [W N K P D RL R CD] H. step_inv H; scbn; try assumption.
  all: try solve [fin].
  all: intros; upd_cases; inv_some; scbn; inv_some; eauto; try congruence.
  rewrite mem_add in H. apply orb_true_iff in H. destruct H as [H|H]; [|auto].
  apply name_eqb_eq in H; subst x0. exfalso. apply E.
  apply (q_phase _ I2 j d x Heqo). rewrite Heqp. reflexivity.
Qed.

Lemma inv3_r c s l s' : inv2 s -> inv3 c s -> step c s l = Some s' ->
  forall j d x, mem x (s_cor s') = true -> alook (s_seen s') j = Some x -> s_dl s' j = Some d ->
          d_last d = Some x /\ working (d_phase d) = None.
Proof.
  intros I2 [W N K P D RL R CD] H. step_inv H; scbn; try assumption.
  all: try solve [fin].
  all: try match goal with HS : scan _ _ [] = (_, _) |- _ => destruct (scan_spec _ _ _ _ _ HS) as [SA SB] end.
  all: intros; upd_cases; inv_some; scbn; inv_some; eauto.
  all: try solve [match goal with HC : mem ?x (s_cor _) = true, HS : alook (s_seen _) ?j = Some ?x, HD : s_dl _ ?j = Some ?d |- _ =>
         destruct (R j d x HC HS HD) as [RA RB]; phase_rw; cbn in RB; first [discriminate RB | split; [assumption|reflexivity]] end].
  - (* list ok *) exfalso. rewrite SB in H0. cbn in H0. destruct (newest (s_bucket s) l j) eqn:EN; [|discriminate].
    inversion H0; subst. apply newest_some in EN. destruct EN as (_ & _ & _ & EN).
    rewrite SA, mem_add_all, H in EN. discriminate.
  - exfalso. rewrite SB in H0. cbn in H0. destruct (newest (s_bucket s) l j) eqn:EN; [|discriminate].
    inversion H0; subst. apply newest_some in EN. destruct EN as (_ & _ & _ & EN).
    rewrite SA, mem_add_all, H in EN. discriminate.
  - (* new downloader *) exfalso. apply (CD _ H). destruct (q_seen _ I2 _ _ H0) as [[A _] _]. rewrite A. assumption.
  - (* check -> WantDl *) exfalso. rewrite Heqo0 in H0. inversion H0; subst.
    destruct (R _ _ _ H Heqo0 Heqo) as [RA _]. apply oname_eqb_neq in Heqb. congruence.
  - (* decode fail, same instance *)
    rewrite mem_add in H. apply orb_true_iff in H. destruct H as [H|H].
    + apply name_eqb_eq in H; subst. auto.
    + destruct (R _ _ _ H H0 Heqo) as [_ RB]. rewrite Heqp in RB. discriminate.
  - (* decode fail, other instance *)
    rewrite mem_add in H. apply orb_true_iff in H. destruct H as [H|H].
    + apply name_eqb_eq in H; subst. exfalso. apply E.
      destruct (q_seen _ I2 _ _ H0) as [[A _] _]. rewrite <- A.
      apply (q_phase _ I2 j d x Heqo). rewrite Heqp. reflexivity.
    + eauto.
Qed.

Lemma pend_of_look i m j x : alook m j = Some x -> exists m', pend_of i m = Some (i, m') /\ alook m' j = Some x.
Proof. destruct m; cbn; [discriminate|]. intros H. eexists; split; [reflexivity | exact H]. Qed.

Lemma pend_adel b a j k x : k <> j -> alook a k = Some x ->
  exists i m, pend_of b (adel a j) = Some (i, m) /\ alook m k = Some x.
Proof.
  intros NE H. destruct (pend_of_look b (adel a j) k x) as (m' & A & B).
  - rewrite alook_adel. apply N.eqb_neq in NE. rewrite NE. exact H.
  - eauto.
Qed.

Lemma n_other c s b a j k x :
  s_pend s = Some (b, a) -> k <> j ->
  (s_notif s k = Some x \/ pending_has s k x \/
   (k = c_own c /\ s_ownskip s = true /\ notif_ignored s k = false)) ->
  forall os, (os = true \/ os = s_ownskip s) ->
  s_notif s k = Some x \/
  (exists i m, pend_of b (adel a j) = Some (i, m) /\ alook m k = Some x) \/
  (k = c_own c /\ os = true /\ notif_ignored s k = false).
Proof.
  intros HP NE [A|[(i & m & A & B)|(A & B & C)]] os Hos; [auto| |].
  - rewrite HP in A. inversion A; subst. right. left. apply pend_adel; assumption.
  - right. right. split; [assumption|]. split; [destruct Hos; congruence | exact C].
Qed.

Lemma inv3_n c s l s' : inv2 s -> inv3 c s -> step c s l = Some s' ->
  forall j x, alook (s_seen s') j = Some x ->
          s_notif s' j = Some x \/ pending_has s' j x \/
          (j = c_own c /\ s_ownskip s' = true /\ notif_ignored s' j = false).
Proof.
  intros I2 [W N K P D RL R CD] H. unfold notif_ignored in *. step_inv H; scbn; try assumption.
  all: try solve [fin].
  all: unfold pending_has; scbn.
  all: intros; upd_cases; inv_some; scbn; inv_some; eauto.
  - right. left. destruct (pend_of_look incl a j x H) as (m' & A & B). eauto.
  - right. left. destruct (pend_of_look incl a j x H) as (m' & A & B). eauto.
  - (* notify: no change *)
    destruct (N.eq_dec j0 j) as [->|NE].
    + left. apply oname_eqb_eq in Heqb0. rewrite <- Heqb0. f_equal.
      pose proof (q_pend _ I2 _ _ _ _ Heqo Heqo0) as A. congruence.
    + eapply (n_other c s b a j j0 x Heqo NE (N _ _ H) (s_ownskip s)). auto.
  - (* notify: own skipped *)
    apply andb_true_iff in Heqb1. destruct Heqb1 as [A1 A2].
    apply andb_true_iff in A1. destruct A1 as [_ A1]. apply N.eqb_eq in A1. apply negb_true_iff in A2.
    destruct (N.eq_dec j0 j) as [->|NE].
    + right. right. split; [exact A1|]. split; [reflexivity|]. exact A2.
    + eapply (n_other c s b a j j0 x Heqo NE (N _ _ H) true). auto.
  - left. f_equal. pose proof (q_pend _ I2 _ _ _ _ Heqo Heqo0) as A. congruence.
  - eapply (n_other c s b a j j0 x Heqo E (N _ _ H) (s_ownskip s)). auto.
  - left. f_equal. pose proof (q_pend _ I2 _ _ _ _ Heqo Heqo0) as A. congruence.
  - eapply (n_other c s b a j j0 x Heqo E (N _ _ H) (s_ownskip s)). auto.
Qed.

Lemma inv3_p c s l s' : inv2 s -> inv3 c s -> step c s l = Some s' ->
  forall j x, alook (s_seen s') j = None -> s_notif s' j = Some x ->
          mem x (s_bucket s') = false \/ mem x (s_ign s') = true.
Proof.
  intros I2 [W N K P D RL R CD] H. step_inv H; scbn; try assumption.
  all: try solve [fin].
  all: try match goal with HS : scan _ _ [] = (_, _) |- _ => destruct (scan_spec _ _ _ _ _ HS) as [SA SB] end.
  all: intros; upd_cases; inv_some; scbn; inv_some; eauto.
  - rewrite SB in H. cbn in H. destruct (newest (s_bucket s) l j) eqn:EN; [discriminate|].
    destruct (mem x (s_bucket s)) eqn:EM; [|auto]. right. apply mem_In in EM.
    destruct (q_notif _ I2 _ _ H0) as [[A B] _]. eapply newest_none; eauto.
  - rewrite SB in H. cbn in H. destruct (newest (s_bucket s) l j) eqn:EN; [discriminate|].
    destruct (mem x (s_bucket s)) eqn:EM; [|auto]. right. apply mem_In in EM.
    destruct (q_notif _ I2 _ _ H0) as [[A B] _]. eapply newest_none; eauto.
  - pose proof (q_pend _ I2 _ _ _ _ Heqo Heqo0) as A. congruence.
  - pose proof (q_pend _ I2 _ _ _ _ Heqo Heqo0) as A. congruence.
  - destruct (P _ _ H H0) as [A|A]; [|auto]. left. rewrite mem_app, A. cbn.
    rewrite orb_false_r. apply name_eqb_neq. intros ->.
    destruct (q_notif _ I2 _ _ H0) as [_ B]. cbn in B. lia.
  - destruct (P _ _ H H0) as [A|A]; [|auto]. left. rewrite mem_remove, A. apply andb_false_r.
Qed.

Lemma k_ok_sig d x : d_sig d = true -> k_ok d x.
Proof. left. assumption. Qed.

Lemma inv3_k c s l s' : inv2 s -> inv3 c s -> step c s l = Some s' ->
  forall j x, (j <> c_own c \/ s_ownskip s' = false) ->
          alook (s_seen s') j = Some x -> s_notif s' j = Some x ->
          exists d, s_dl s' j = Some d /\ k_ok d x.
Proof.
  intros I2 [W N K P D RL R CD] H. step_inv H; scbn; try assumption.
  all: try solve [fin].
  all: try match goal with HS : scan _ _ [] = (_, _) |- _ => destruct (scan_spec _ _ _ _ _ HS) as [SA SB] end.
  all: intros; upd_cases; inv_some; scbn; inv_some; eauto.
  all: try solve [eexists; split; [reflexivity|]; left; reflexivity].
  all: try solve [match goal with HS : alook (s_seen _) ?j = Some ?x, HN : s_notif _ ?j = Some ?x, HD : s_dl _ ?j = Some ?d |- _ =>
     let d1 := fresh "d1" in let D1 := fresh "D1" in let KO := fresh "KO" in
     destruct (K j x ltac:(assumption) HS HN) as (d1 & D1 & KO); rewrite HD in D1; inversion D1; subst d1;
     eexists; split; [reflexivity|]; unfold k_ok in *; scbn; phase_rw; cbn in *;
     repeat match goal with HE : oname_eqb _ _ = true |- _ => apply oname_eqb_eq in HE end;
     intuition congruence end].
  - rewrite SB in H0. cbn in H0. destruct (newest (s_bucket s) l j) eqn:EN; [|discriminate].
    inversion H0; subst n. apply newest_some in EN. destruct EN as (A1 & _ & _ & A2).
    destruct (alook (s_seen s) j) as [z|] eqn:EZ.
    + destruct (N _ _ EZ) as [B|[(i & m & B & _)|(B1 & B2 & B3)]].
      * rewrite B in H1. inversion H1; subst z. apply K; assumption.
      * unfold pending_has in *; congruence.
      * destruct H as [H|H]; congruence.
    + exfalso. destruct (P _ _ EZ H1) as [B|B].
      * apply mem_In in A1. congruence.
      * rewrite SA, mem_add_all, B, orb_true_r in A2. discriminate.
  - rewrite SB in H0. cbn in H0. destruct (newest (s_bucket s) l j) eqn:EN; [|discriminate].
    inversion H0; subst n. apply newest_some in EN. destruct EN as (A1 & _ & _ & A2).
    destruct (alook (s_seen s) j) as [z|] eqn:EZ.
    + destruct (N _ _ EZ) as [B|[(i & m & B & _)|(B1 & B2 & B3)]].
      * rewrite B in H1. inversion H1; subst z. apply K; assumption.
      * unfold pending_has in *; congruence.
      * destruct H as [H|H]; congruence.
    + exfalso. destruct (P _ _ EZ H1) as [B|B].
      * apply mem_In in A1. congruence.
      * rewrite SA, mem_add_all, B, orb_true_r in A2. discriminate.
  - apply K; auto. destruct H as [H|H]; [left; assumption | discriminate].
Qed.

Lemma inv3_step c s l s' : inv1 c s -> inv2 s -> inv3 c s -> step c s l = Some s' -> inv3 c s'.
Proof.
  intros I1 I2 I3 H. constructor.
  - eapply inv3_w; eassumption.
  - eapply inv3_n; eassumption.
  - eapply inv3_k; eassumption.
  - eapply inv3_p; eassumption.
  - eapply inv3_d; eassumption.
  - eapply inv3_rl; eassumption.
  - eapply inv3_r; eassumption.
  - eapply inv3_cd; eassumption.
Qed.

(* ------------------------------------------------------------------ *)
(* 4. the waiting set of syncLoop                                       *)
(* ------------------------------------------------------------------ *)

Record inv4 (c : cfg) (s : state) : Prop := {
  o_exit : s_exited s = true -> s_wait s = [] /\ c_once c = true;
  o_cover : forall j, In j (s_init s) ->
      In j (s_wait s) \/ (exists x, In x (s_deliv s) /\ n_inst x = j) \/ In j (s_gone s);
  o_nostart : s_started s = false ->
      s_wait s = [] /\ s_init s = [] /\ s_deliv s = [] /\ s_dls s = [] /\ s_exited s = false /\ s_pend s = None;
  o_nodeliv : forall j, In j (s_wait s) -> last_deliv (s_deliv s) j = None
}.

Lemma inv4_init c : inv4 c (init c).
Proof. constructor; cbn; intros; try discriminate; try tauto. Qed.

Lemma filter_split (f : N -> bool) l k : In k l -> In k (filter f l) \/ In k (filter (fun j => negb (f j)) l).
Proof.
  intros H. destruct (f k) eqn:E.
  - left. apply filter_In. auto.
  - right. apply filter_In. rewrite E. auto.
Qed.

Lemma inv4_step c s l s' : inv1 c s -> inv2 s -> inv4 c s -> step c s l = Some s' -> inv4 c s'.
Proof.
  intros I1 I2 [OE OC ON OD] H. step_inv H; constructor; scbn; try assumption.
  all: try solve [intros; congruence].
  all: try solve [intros HS; destruct (ON HS) as (A1 & A2 & A3 & A4 & A5 & A6); first [congruence | repeat split; congruence]].
  - (* first listing *) intros HE. destruct (ON eq_refl) as (_ & _ & _ & _ & A5 & _). congruence.
  - intros j Hj. auto.
  - intros j Hj. destruct (ON eq_refl) as (_ & _ & A3 & _). rewrite A3. reflexivity.
  - (* next *) intros j0 Hj. destruct (N.eq_dec j0 j) as [->|NE].
    + right. left. exists n. split; [left; reflexivity|]. apply (q_ready _ I2 _ _ Heqo0).
    + destruct (OC _ Hj) as [A|[(x & A & B)|A]]; [left; apply In_removeN; auto | right; left; exists x; split; [right|]; auto | auto].
  - intros HS. destruct (ON HS) as (_ & _ & _ & A4 & _). exfalso.
    apply (i_ready_dl _ _ I1) in Heqo0. rewrite A4 in Heqo0. destruct Heqo0.
  - intros j0 Hj. apply In_removeN in Hj. destruct Hj as [Hj NE]. rewrite last_deliv_cons.
    destruct (q_ready _ I2 _ _ Heqo0) as [[A _] _]. rewrite A. apply N.eqb_neq in NE. rewrite N.eqb_sym, NE. auto.
  - (* bottom, waiting set empty *) intros HE. apply andb_true_iff in HE. tauto.
  - intros j Hj. destruct (OC _ Hj) as [A|[A|A]]; [|auto|right; right; apply in_app_iff; auto].
    destruct (filter_split (fun j => memN j (seen_insts s)) _ _ A) as [B|B].
    + unfold still_seen in Heql. rewrite Heql in B. destruct B.
    + right. right. apply in_app_iff. right. exact B.
  - apply orb_false_iff in Heqb. destruct Heqb as [A _]. apply negb_false_iff in A. congruence.
  - intros j [].
  - (* bottom, still waiting *) rewrite andb_false_r. discriminate.
  - intros j Hj. destruct (OC _ Hj) as [A|[A|A]]; [|auto|right; right; apply in_app_iff; auto].
    destruct (filter_split (fun j => memN j (seen_insts s)) _ _ A) as [B|B].
    + unfold still_seen in Heql. rewrite Heql in B. auto.
    + right. right. apply in_app_iff. right. exact B.
  - apply orb_false_iff in Heqb. destruct Heqb as [A _]. apply negb_false_iff in A. congruence.
  - intros j Hj. apply OD. rewrite <- Heql in Hj. unfold still_seen in Hj. apply filter_In in Hj. tauto.
Qed.

(* ------------------------------------------------------------------ *)
(* all together                                                         *)
(* ------------------------------------------------------------------ *)

Record inv (c : cfg) (s : state) : Prop := {
  inv_1 : inv1 c s; inv_2 : inv2 s; inv_3 : inv3 c s; inv_4 : inv4 c s
}.

Lemma inv_init c : inv c (init c).
Proof. constructor; [apply inv1_init | apply inv2_init | apply inv3_init | apply inv4_init]. Qed.

Lemma inv_step c s l s' : inv c s -> step c s l = Some s' -> inv c s'.
Proof.
  intros [I1 I2 I3 I4] H. constructor.
  - eapply inv1_step; eassumption.
  - eapply inv2_step; eassumption.
  - eapply inv3_step; eassumption.
  - eapply inv4_step; eassumption.
Qed.

Lemma reach_inv c h s : reach c h s -> inv c s.
Proof. induction 1; [apply inv_init | eapply inv_step; eassumption]. Qed.
