(* Receiver/Inv.v — invariants of every reachable state of Receiver/Model.v *)
From Coq Require Import List NArith ZArith Bool Lia Arith.
From Coq Require Import ZifyN ZifyNat ZifyBool.
From LS Require Import Receiver.Model Receiver.Basics.
Import ListNotations.
Open Scope N_scope.

(* ------------------------------------------------------------------ *)
(* 1. downloader table and token accounting                             *)
(* ------------------------------------------------------------------ *)

Record inv1 (c : cfg) (s : state) : Prop := {
  i_nodup : NoDup (s_dls s);
  i_dls : forall j, In j (s_dls s) <-> s_dl s j <> None;
  i_ready_dl : forall j x, s_ready s j = Some x -> In j (s_dls s);
  i_tok_dl : (held_dl s + s_fdl s = lim_dl c)%nat;
  i_tok_dc : (held_dc s + s_fdc s = lim_dc c)%nat
}.

Lemma count_phase_upd (f : phase -> bool) s s' j d d' :
  NoDup (s_dls s) -> In j (s_dls s) -> s_dl s j = Some d ->
  s_dl s' = upd (s_dl s) j (Some d') -> s_dls s' = s_dls s ->
  (count (fun k => f (phase_of s' k)) (s_dls s') + b2n (f (d_phase d))
   = count (fun k => f (phase_of s k)) (s_dls s) + b2n (f (d_phase d')))%nat.
Proof.
  intros ND IN E E1 E2. rewrite E2.
  assert (P1 : phase_of s j = d_phase d) by (unfold phase_of; rewrite E; reflexivity).
  assert (P2 : phase_of s' j = d_phase d') by (unfold phase_of; rewrite E1, upd_same; reflexivity).
  rewrite <- P1, <- P2.
  apply (count_upd (fun k => f (phase_of s' k)) (fun k => f (phase_of s k)) (s_dls s) j ND IN).
  intros k NE. unfold phase_of. rewrite E1, upd_other by exact NE. reflexivity.
Qed.

Lemma count_phase_same (f : phase -> bool) s s' :
  s_dl s' = s_dl s -> s_dls s' = s_dls s ->
  count (fun k => f (phase_of s' k)) (s_dls s') = count (fun k => f (phase_of s k)) (s_dls s).
Proof. intros E1 E2. unfold phase_of. rewrite E1, E2. reflexivity. Qed.

Lemma count_ready_upd s s' j v :
  NoDup (s_dls s) -> In j (s_dls s) ->
  s_ready s' = upd (s_ready s) j v -> s_dls s' = s_dls s ->
  (count (fun k => is_some (s_ready s' k)) (s_dls s') + b2n (is_some (s_ready s j))
   = count (fun k => is_some (s_ready s k)) (s_dls s) + b2n (is_some v))%nat.
Proof.
  intros ND IN E1 E2. rewrite E2.
  pose proof (count_upd (fun k => is_some (s_ready s' k)) (fun k => is_some (s_ready s k)) (s_dls s) j ND IN) as H.
  cbv beta in H. rewrite E1, upd_same in H. rewrite E1. apply H.
  intros k NE. rewrite upd_other by exact NE. reflexivity.
Qed.

Lemma inv1_init c : inv1 c (init c).
Proof.
  constructor; cbn; try (intros; discriminate); try reflexivity.
  - constructor.
  - intros j; split; [tauto | intros H; apply H; reflexivity].
Qed.

Lemma dls_upd (l : list N) (f : N -> option dler) j d :
  (forall k, In k l <-> f k <> None) -> In j l ->
  forall k, In k l <-> upd f j (Some d) k <> None.
Proof.
  intros H IN k. destruct (N.eq_dec k j) as [->|NE].
  - rewrite upd_same. split; [congruence | auto].
  - rewrite upd_other by exact NE. apply H.
Qed.

Lemma nodup_snoc (l : list N) j : NoDup l -> ~ In j l -> NoDup (l ++ [j]).
Proof.
  induction l as [|k r IH]; cbn; intros ND NI.
  - repeat constructor. tauto.
  - inversion ND; subst. constructor.
    + rewrite in_app_iff. cbn. intuition.
    + apply IH; [assumption | tauto].
Qed.

Lemma count_new f g l j :
  ~ In j l -> (forall k, k <> j -> f k = g k) -> f j = false -> count f (l ++ [j]) = count g l.
Proof.
  intros NI H F. rewrite count_app. cbn. rewrite F. rewrite (count_ext f g l); [lia|].
  intros k Hk. apply H. intros ->. contradiction.
Qed.

Lemma inv1_step c s l s' : inv1 c s -> step c s l = Some s' -> inv1 c s'.
Proof.
  intros [ND DL RD TL TC] H.
  unfold held_dc, held_dl, n_ready, n_decoding, n_merge in *.
  step_inv H.
  all: try match goal with E : s_dl ?s ?j = Some ?d, DL : forall j, In j (s_dls ?s) <-> _ |- inv1 _ ?s' =>
      assert (IN : In j (s_dls s)) by (apply DL; congruence)
    end.
  all: try match goal with E : s_dl ?s ?j = None, DL : forall j, In j (s_dls ?s) <-> _ |- inv1 _ ?s' =>
      assert (NIN : ~ In j (s_dls s)) by (rewrite DL; intros NIN; apply NIN; exact E)
    end.
  all: try match goal with E : s_ready ?s ?j = Some ?d, RD : forall j x, s_ready ?s j = Some x -> _ |- inv1 _ ?s' =>
      assert (IN : In j (s_dls s)) by (eapply RD; eassumption)
    end.
  all: try match goal with E : s_dl ?s ?j = Some ?d, ND : NoDup (s_dls ?s), IN : In ?j (s_dls ?s) |- inv1 _ ?s' =>
      match s' with context [upd (s_dl s) j (Some ?d')] =>
      pose proof (count_phase_upd holds_dl s s' j d d' ND IN E eq_refl eq_refl) as HL;
      pose proof (count_phase_upd holds_dc s s' j d d' ND IN E eq_refl eq_refl) as HC
      end end.
  all: try match goal with ND : NoDup (s_dls ?s), IN : In ?j (s_dls ?s) |- inv1 _ ?s' =>
      match s' with context [upd (s_ready s) j ?v] =>
      pose proof (count_ready_upd s s' j v ND IN eq_refl eq_refl) as HR
      end end.
  all: constructor; unfold held_dc, held_dl, n_ready, n_decoding, n_merge, phase_of in *; cbn in *.
  all: try assumption.
  all: try (apply dls_upd; assumption).
  all: try match goal with H : d_phase _ = _ |- _ => rewrite H in * end; cbn in *.
  all: try match goal with H : s_ready _ _ = _ |- _ => rewrite H in * end; cbn in *.
  all: try match goal with H : s_merge _ = _ |- _ => rewrite H in * end; cbn in *.
  all: try lia.
  all: try (intros j0 x0; unfold upd; destruct (j0 =? _) eqn:EQ; [apply N.eqb_eq in EQ; subst; intros; assumption | apply RD]).
  - (* new downloader *)
    apply nodup_snoc; assumption.
  - intros k. rewrite in_app_iff. cbn. destruct (N.eq_dec k j) as [->|NE].
    + rewrite upd_same. split; [congruence | auto].
    + rewrite upd_other by exact NE. rewrite <- DL. split; [intros [?|[?|[]]]; [assumption | congruence] | auto].
  - intros k x Hk. apply in_app_iff. left. eapply RD; eassumption.
  - rewrite (count_new _ (fun j0 => holds_dl match s_dl s j0 with Some d => d_phase d | None => Idle end)); auto.
    + intros k NE. rewrite upd_other by exact NE. reflexivity.
    + rewrite upd_same. reflexivity.
  - match goal with |- (count ?f1 _ + count ?f2 _ + _ + _)%nat = _ =>
      rewrite (count_new f1 (fun j0 => is_some (s_ready s j0)) (s_dls s) j),
              (count_new f2 (fun j0 => holds_dc match s_dl s j0 with Some d => d_phase d | None => Idle end) (s_dls s) j)
    end; auto.
    + intros k NE. rewrite upd_other by exact NE. reflexivity.
    + rewrite upd_same. reflexivity.
    + destruct (s_ready s j) eqn:E; [|reflexivity]. exfalso. apply NIN. eapply RD; eassumption.
Qed.
