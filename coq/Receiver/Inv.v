(* Receiver/Inv.v — invariants of every reachable state of Receiver/Model.v *)
From Coq Require Import List NArith ZArith Bool Lia Arith.
From Coq Require Import ZifyN ZifyNat ZifyBool.
From LS Require Import Receiver.Model Receiver.Basics.
Import ListNotations.
Open Scope N_scope.

(* ------------------------------------------------------------------ *)
(* 1. downloader table and token accounting                             *)
(* ------------------------------------------------------------------ *)

Record inv1 (c : cfg) (s : state) : Prop := {
  i_nodup : NoDup (s_dls s);
  i_dls : forall j, In j (s_dls s) <-> s_dl s j <> None;
  i_ready_dl : forall j x, s_ready s j = Some x -> In j (s_dls s);
  i_tok_dl : (held_dl s + s_fdl s = lim_dl c)%nat;
  i_tok_dc : (held_dc s + s_fdc s = lim_dc c)%nat
}.

Lemma count_phase_upd (f : phase -> bool) s s' j d d' :
  NoDup (s_dls s) -> In j (s_dls s) -> s_dl s j = Some d ->
  s_dl s' = upd (s_dl s) j (Some d') -> s_dls s' = s_dls s ->
  (count (fun k => f (phase_of s' k)) (s_dls s') + b2n (f (d_phase d))
   = count (fun k => f (phase_of s k)) (s_dls s) + b2n (f (d_phase d')))%nat.
Proof.
  intros ND IN E E1 E2. rewrite E2.
  assert (P1 : phase_of s j = d_phase d) by (unfold phase_of; rewrite E; reflexivity).
  assert (P2 : phase_of s' j = d_phase d') by (unfold phase_of; rewrite E1, upd_same; reflexivity).
  rewrite <- P1, <- P2.
  apply (count_upd (fun k => f (phase_of s' k)) (fun k => f (phase_of s k)) (s_dls s) j ND IN).
  intros k NE. unfold phase_of. rewrite E1, upd_other by exact NE. reflexivity.
Qed.

Lemma count_phase_same (f : phase -> bool) s s' :
  s_dl s' = s_dl s -> s_dls s' = s_dls s ->
  count (fun k => f (phase_of s' k)) (s_dls s') = count (fun k => f (phase_of s k)) (s_dls s).
Proof. intros E1 E2. unfold phase_of. rewrite E1, E2. reflexivity. Qed.

Lemma count_ready_upd s s' j v :
  NoDup (s_dls s) -> In j (s_dls s) ->
  s_ready s' = upd (s_ready s) j v -> s_dls s' = s_dls s ->
  (count (fun k => is_some (s_ready s' k)) (s_dls s') + b2n (is_some (s_ready s j))
   = count (fun k => is_some (s_ready s k)) (s_dls s) + b2n (is_some v))%nat.
Proof.
  intros ND IN E1 E2. rewrite E2.
  pose proof (count_upd (fun k => is_some (s_ready s' k)) (fun k => is_some (s_ready s k)) (s_dls s) j ND IN) as H.
  cbv beta in H. rewrite E1, upd_same in H. rewrite E1. apply H.
  intros k NE. rewrite upd_other by exact NE. reflexivity.
Qed.

Lemma inv1_init c : inv1 c (init c).
Proof.
  constructor; cbn; try (intros; discriminate); try reflexivity.
  - constructor.
  - intros j; split; [tauto | intros H; apply H; reflexivity].
Qed.

Lemma dls_upd (l : list N) (f : N -> option dler) j d :
  (forall k, In k l <-> f k <> None) -> In j l ->
  forall k, In k l <-> upd f j (Some d) k <> None.
Proof.
  intros H IN k. destruct (N.eq_dec k j) as [->|NE].
  - rewrite upd_same. split; [congruence | auto].
  - rewrite upd_other by exact NE. apply H.
Qed.

Lemma nodup_snoc (l : list N) j : NoDup l -> ~ In j l -> NoDup (l ++ [j]).
Proof.
  induction l as [|k r IH]; cbn; intros ND NI.
  - repeat constructor. tauto.
  - inversion ND; subst. constructor.
    + rewrite in_app_iff. cbn. intuition.
    + apply IH; [assumption | tauto].
Qed.

Lemma count_new f g l j :
  ~ In j l -> (forall k, k <> j -> f k = g k) -> f j = false -> count f (l ++ [j]) = count g l.
Proof.
  intros NI H F. rewrite count_app. cbn. rewrite F. rewrite (count_ext f g l); [lia|].
  intros k Hk. apply H. intros ->. contradiction.
Qed.

Lemma inv1_step c s l s' : inv1 c s -> step c s l = Some s' -> inv1 c s'.
Proof.
  intros [ND DL RD TL TC] H.
  unfold held_dc, held_dl, n_ready, n_decoding, n_merge in *.
  step_inv H.
  all: try match goal with E : s_dl ?s ?j = Some ?d, DL : forall j, In j (s_dls ?s) <-> _ |- inv1 _ ?s' =>
      assert (IN : In j (s_dls s)) by (apply DL; congruence)
    end.
  all: try match goal with E : s_dl ?s ?j = None, DL : forall j, In j (s_dls ?s) <-> _ |- inv1 _ ?s' =>
      assert (NIN : ~ In j (s_dls s)) by (rewrite DL; intros NIN; apply NIN; exact E)
    end.
  all: try match goal with E : s_ready ?s ?j = Some ?d, RD : forall j x, s_ready ?s j = Some x -> _ |- inv1 _ ?s' =>
      assert (IN : In j (s_dls s)) by (eapply RD; eassumption)
    end.
  all: try match goal with E : s_dl ?s ?j = Some ?d, ND : NoDup (s_dls ?s), IN : In ?j (s_dls ?s) |- inv1 _ ?s' =>
      match s' with context [upd (s_dl s) j (Some ?d')] =>
      pose proof (count_phase_upd holds_dl s s' j d d' ND IN E eq_refl eq_refl) as HL;
      pose proof (count_phase_upd holds_dc s s' j d d' ND IN E eq_refl eq_refl) as HC
      end end.
  all: try match goal with ND : NoDup (s_dls ?s), IN : In ?j (s_dls ?s) |- inv1 _ ?s' =>
      match s' with context [upd (s_ready s) j ?v] =>
      pose proof (count_ready_upd s s' j v ND IN eq_refl eq_refl) as HR
      end end.
  all: constructor; unfold held_dc, held_dl, n_ready, n_decoding, n_merge, phase_of in *; cbn in *.
  all: try assumption.
  all: try (apply dls_upd; assumption).
  all: try match goal with H : d_phase _ = _ |- _ => rewrite H in * end; cbn in *.
  all: try match goal with H : s_ready _ _ = _ |- _ => rewrite H in * end; cbn in *.
  all: try match goal with H : s_merge _ = _ |- _ => rewrite H in * end; cbn in *.
  all: try lia.
  all: try (intros j0 x0; unfold upd; destruct (j0 =? _) eqn:EQ; [apply N.eqb_eq in EQ; subst; intros; assumption | apply RD]).
  - (* new downloader *)
    apply nodup_snoc; assumption.
  - intros k. rewrite in_app_iff. cbn. destruct (N.eq_dec k j) as [->|NE].
    + rewrite upd_same. split; [congruence | auto].
    + rewrite upd_other by exact NE. rewrite <- DL. split; [intros [?|[?|[]]]; [assumption | congruence] | auto].
  - intros k x Hk. apply in_app_iff. left. eapply RD; eassumption.
  - rewrite (count_new _ (fun j0 => holds_dl match s_dl s j0 with Some d => d_phase d | None => Idle end)); auto.
    + intros k NE. rewrite upd_other by exact NE. reflexivity.
    + rewrite upd_same. reflexivity.
  - match goal with |- (count ?f1 _ + count ?f2 _ + _ + _)%nat = _ =>
      rewrite (count_new f1 (fun j0 => is_some (s_ready s j0)) (s_dls s) j),
              (count_new f2 (fun j0 => holds_dc match s_dl s j0 with Some d => d_phase d | None => Idle end) (s_dls s) j)
    end; auto.
    + intros k NE. rewrite upd_other by exact NE. reflexivity.
    + rewrite upd_same. reflexivity.
    + destruct (s_ready s j) eqn:E; [|reflexivity]. exfalso. apply NIN. eapply RD; eassumption.
Qed.

(* ------------------------------------------------------------------ *)
(* 2. which names can be where                                          *)
(* ------------------------------------------------------------------ *)

Definition working (p : phase) : option name :=
  match p with WantDl x | HaveDl x | Loaded x | HaveDc x => Some x | _ => None end.

Definition snap_of (j : N) (x : name) : Prop := n_inst x = j /\ n_kind x = KSnap.

Record inv2 (s : state) : Prop := {
  n_bucket : forall x, In x (s_bucket s) -> n_seq x < s_next s;
  n_seen : forall j x, alook (s_seen s) j = Some x -> snap_of j x /\ n_seq x < s_next s;
  n_pend : forall i m j x, s_pend s = Some (i, m) -> alook m j = Some x -> alook (s_seen s) j = Some x;
  n_notif : forall j x, s_notif s j = Some x -> snap_of j x /\ n_seq x < s_next s;
  n_phase : forall j d x, s_dl s j = Some d -> working (d_phase d) = Some x -> snap_of j x;
  n_last : forall j d x, s_dl s j = Some d -> d_last d = Some x -> snap_of j x;
  n_ready : forall j x, s_ready s j = Some x -> snap_of j x /\ n_ok x = true;
  n_merge : forall x, s_merge s = Some x -> n_ok x = true;
  n_deliv : forall x, In x (s_deliv s) -> n_ok x = true;
  n_cor : forall x, mem x (s_cor s) = true -> n_ok x = false /\ n_kind x = KSnap;
  n_ign : forall x, mem x (s_ign s) = true -> n_kind x = KBad \/ mem x (s_cor s) = true
}.

Lemma pend_of_some i m i' m' : pend_of i m = Some (i', m') -> i' = i /\ m' = m.
Proof. destruct m; cbn; intros H; inversion H; auto. Qed.

Lemma inv2_init c : inv2 (init c).
Proof. constructor; cbn; intros; try discriminate; try tauto. Qed.

Ltac upd_cases :=
  repeat match goal with
  | E : ?k <> ?j, H : context [upd _ ?j _ ?k] |- _ => rewrite (upd_other _ _ _ _ E) in H
  | E : ?k <> ?j |- context [upd _ ?j _ ?k] => rewrite (upd_other _ _ _ _ E)
  | H : context [upd _ ?j _ ?j] |- _ => rewrite upd_same in H
  | |- context [upd _ ?j _ ?j] => rewrite upd_same
  | H : context [upd _ ?j _ ?k] |- _ =>
      let E := fresh "E" in
      destruct (N.eq_dec k j) as [E|E]; [ first [subst k | rewrite E in * ] | ]
  | |- context [upd _ ?j _ ?k] =>
      let E := fresh "E" in
      destruct (N.eq_dec k j) as [E|E]; [ first [subst k | rewrite E in * ] | ]
  end.

Ltac inv_some :=
  repeat match goal with
  | H : Some _ = Some _ |- _ => inversion H; subst; clear H
  | H : None = Some _ |- _ => discriminate H
  | H : Some _ = None |- _ => discriminate H
  end.

Ltac fin := intros; upd_cases; inv_some; cbn in *; inv_some; eauto.

Lemma inv2_step c s l s' : inv2 s -> step c s l = Some s' -> inv2 s'.
Proof.
  intros [NB NS NP NN NPH NL NR NM ND NC NI] H.
  step_inv H.
  all: constructor; cbn in *.
  all: try assumption.
  all: try solve [fin].
  all: try solve [intros; upd_cases; inv_some; cbn in *; inv_some; eauto;
                  match goal with HP : d_phase ?d = _, HD : s_dl _ ?j = Some ?d |- snap_of ?j _ =>
                    eapply NPH; [exact HD | rewrite HP; reflexivity] end].
  all: try solve [intros; congruence].
  all: try match goal with HS : scan _ _ [] = (_, _) |- _ => destruct (scan_spec _ _ _ _ _ HS) as [SA SB] end.
  (* list ok: seen, pend, ign (twice) *)
  1,4: intros j x Hx; rewrite SB in Hx; cbn in Hx;
       destruct (newest (s_bucket s) l j) eqn:EN; [|discriminate]; inversion Hx; subst;
       apply newest_some in EN; destruct EN as (A & B & C & _); split; [split; assumption | auto].
  1,3: intros i m j x Hp Hm; apply pend_of_some in Hp; destruct Hp as [_ ->]; exact Hm.
  1,2: intros x Hx; rewrite SA, mem_add_all in Hx; unfold is_bad_kind in Hx;
       destruct (mem x (s_cor s)) eqn:E1; [right; reflexivity|];
       destruct (mem x (s_ign s)) eqn:E2; [destruct (NI x E2); [left; assumption | congruence]|];
       cbn in Hx; apply andb_true_iff in Hx; destruct Hx as [Hx _]; apply kind_eqb_eq in Hx; left; exact Hx.
  (* notify: pend *)
  1-4: intros i m j0 x Hp Hm; apply pend_of_some in Hp; destruct Hp as [_ ->];
       rewrite alook_adel in Hm; destruct (j0 =? j); [discriminate|]; eapply NP; [reflexivity | exact Hm].
  (* check -> WantDl *)
  - intros; upd_cases; inv_some; cbn in *; inv_some; [apply NS; assumption | eauto].
  (* decode ok, twice *)
  - intros; upd_cases; inv_some; [|eauto];
       split; [eapply NPH; [eassumption | match goal with HP : d_phase _ = _ |- _ => rewrite HP end; reflexivity] | assumption].
  - intros; upd_cases; inv_some; [|eauto];
       split; [eapply NPH; [eassumption | match goal with HP : d_phase _ = _ |- _ => rewrite HP end; reflexivity] | assumption].
  (* decode fail *)
  - intros x0 Hx. rewrite mem_add in Hx. apply orb_true_iff in Hx. destruct Hx as [Hx|Hx]; [|auto].
    apply name_eqb_eq in Hx; subst. split; [assumption|].
    eapply NPH; [eassumption | match goal with HP : d_phase _ = _ |- _ => rewrite HP end; reflexivity].
  - intros x0 Hx. rewrite mem_add. destruct (NI x0 Hx) as [A|A]; [left; exact A | right; rewrite A, orb_true_r; reflexivity].
  (* next *)
  - intros; inv_some. apply (NR _ _ Heqo0).
  - intros x [<-|Hx]; [apply (NR _ _ Heqo0) | auto].
  (* publish *)
  - intros x Hx. apply in_app_iff in Hx. destruct Hx as [Hx|[<-|[]]]; [apply NB in Hx|cbn]; lia.
  - intros j0 x Hx. destruct (NS _ _ Hx). split; [assumption | lia].
  - intros j0 x Hx. destruct (NN _ _ Hx). split; [assumption | lia].
  (* delete *)
  - intros x0 Hx. apply NB. apply mem_In. apply mem_In in Hx. rewrite mem_remove in Hx.
    apply andb_true_iff in Hx. tauto.
Qed.
