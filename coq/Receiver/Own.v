(* Receiver/Own.v — the own instance during start-up, with the rule of RunOnce after the fix
   "notify the own downloader again when the own snapshot it was last notified about has been ignored".

   Environment assumption [calm]: while the own instance is still in waitingForInstances,
   nobody stores a blob under the own instance's name (this process does not: syncLoop's "Waiting to load
   own old snapshot before writing a new one"; instance names are unique), and nobody deletes THE own
   snapshot the receiver is currently after (the one in lastNotifiedByInstance / about to be notified)
   unless it is already marked corrupt or ignored.  Other own snapshots, older or newer, may be cleaned.
   Under it no poll ever skips a not yet notified own name ([s_ownskip] stays false), which is all that
   C16_once_exits needs. *)
From Coq Require Import List NArith ZArith Bool Lia Arith.
From LS Require Import Receiver.Model Receiver.Basics Receiver.Inv Receiver.Progress.
Import ListNotations.
Open Scope N_scope.

Definition own_waiting (c : cfg) (s : state) : bool := memN (c_own c) (s_wait s).

(* the own snapshot name(s) the receiver is after *)
Definition own_target (c : cfg) (s : state) (x : name) : bool :=
  oname_eqb (s_notif s (c_own c)) (Some x)
  || match s_pend s with Some (_, m) => oname_eqb (alook m (c_own c)) (Some x) | None => false end.

Definition calm (c : cfg) (s : state) (l : label) : bool :=
  match l with
  | LPublish j _ _ => negb ((j =? c_own c) && own_waiting c s)
  | LDelete x => negb (own_waiting c s && own_target c s x && negb (mem x (s_ign s)) && negb (mem x (s_cor s)))
  | _ => true
  end.

Inductive reach_calm (c : cfg) : list label -> state -> Prop :=
| rc0 : reach_calm c [] (init c)
| rcS h s l s' : reach_calm c h s -> calm c s l = true -> step c s l = Some s' -> reach_calm c (l :: h) s'.

Lemma reach_calm_reach c h s : reach_calm c h s -> reach c h s.
Proof. induction 1; [constructor | econstructor; eassumption]. Qed.

(* ---------- facts about [newest] ---------- *)

Lemma newest_ign_mono names ign ign' j x :
  newest names ign j = Some x -> (forall y, mem y ign = true -> mem y ign' = true) ->
  mem x ign' = false -> newest names ign' j = Some x.
Proof.
  intros H M X. induction names as [|y r IH]; cbn in *; [discriminate|].
  destruct (newest r ign j) as [z|] eqn:E.
  - inversion H; subst z. rewrite (IH eq_refl). reflexivity.
  - destruct ((n_inst y =? j) && kind_eqb (n_kind y) KSnap && negb (mem y ign)) eqn:C; [|discriminate].
    inversion H; subst y.
    assert (N0 : newest r ign' j = None).
    { clear - E M. induction r as [|w r IH]; cbn in *; [reflexivity|].
      destruct (newest r ign j) eqn:F; [discriminate|]. rewrite (IH eq_refl).
      destruct ((n_inst w =? j) && kind_eqb (n_kind w) KSnap) eqn:G; cbn in *; [|reflexivity].
      destruct (mem w ign) eqn:Hm; cbn in E; [|discriminate]. rewrite (M _ Hm). reflexivity. }
    rewrite N0. apply andb_true_iff in C. destruct C as [C _]. rewrite C, X. reflexivity.
Qed.

Lemma newest_remove names ign j x y :
  newest names ign j = Some x -> y <> x -> newest (remove_name y names) ign j = Some x.
Proof.
  intros H NE. induction names as [|w r IH]; cbn in *; [discriminate|].
  destruct (newest r ign j) as [z|] eqn:E.
  - inversion H; subst z. specialize (IH eq_refl).
    destruct (name_eqb y w); [exact IH|]. cbn. rewrite IH. reflexivity.
  - destruct ((n_inst w =? j) && kind_eqb (n_kind w) KSnap && negb (mem w ign)) eqn:C; [|discriminate].
    inversion H; subst w.
    assert (N0 : newest (remove_name y r) ign j = None).
    { clear - E. induction r as [|w r IH]; cbn in *; [reflexivity|].
      destruct (newest r ign j) eqn:F; [discriminate|]. specialize (IH eq_refl).
      destruct (name_eqb y w); [exact IH|]. cbn. rewrite IH. exact E. }
    destruct (name_eqb y x) eqn:F; [apply name_eqb_eq in F; congruence|].
    cbn. rewrite N0, C. reflexivity.
Qed.

Lemma newest_snoc_other names ign j w :
  n_inst w <> j -> newest (names ++ [w]) ign j = newest names ign j.
Proof.
  intros NE. rewrite newest_app. cbn. apply N.eqb_neq in NE. rewrite NE. cbn. reflexivity.
Qed.

(* ---------- the invariant ---------- *)

(* x is still what a listing would come up with for the own instance, or is already on its way out *)
Definition on_track (c : cfg) (s : state) (x : name) : Prop :=
  newest (s_bucket s) (s_ign s) (c_own c) = Some x \/ mem x (s_ign s) = true \/ mem x (s_cor s) = true.

Record inv5 (c : cfg) (s : state) : Prop := {
  w_seen : forall j x, alook (s_seen s) j = Some x -> mem x (s_ign s) = false;
  w_pre : s_started s = false -> s_notif s (c_own c) = None /\ s_ownskip s = false /\ s_pend s = None;
  w_skip : own_waiting c s = true -> s_ownskip s = false;
  w_notif : own_waiting c s = true -> forall x, s_notif s (c_own c) = Some x -> on_track c s x;
  w_pend : own_waiting c s = true -> forall i m x, s_pend s = Some (i, m) -> alook m (c_own c) = Some x -> on_track c s x;
  w_same : own_waiting c s = true -> forall i m x n, s_pend s = Some (i, m) -> alook m (c_own c) = Some x ->
             s_notif s (c_own c) = Some n -> mem n (s_ign s) = false -> x = n;
  w_first : own_waiting c s = true -> s_notif s (c_own c) = None ->
             exists m x, s_pend s = Some (true, m) /\ alook m (c_own c) = Some x
}.

Lemma inv5_init c : inv5 c (init c).
Proof. constructor; cbn; intros; try discriminate; auto. Qed.

Lemma on_track_frame c s s' x :
  s_bucket s' = s_bucket s -> s_ign s' = s_ign s -> (forall y, mem y (s_cor s) = true -> mem y (s_cor s') = true) ->
  on_track c s x -> on_track c s' x.
Proof.
  intros E1 E2 E3 [H|[H|H]]; unfold on_track; rewrite E1, E2; auto.
Qed.

Lemma memN_removeN k j l : memN k (removeN j l) = true -> memN k l = true.
Proof. intros H. apply memN_In in H. apply In_removeN in H. apply memN_In. tauto. Qed.

Lemma memN_filter k f l : memN k (filter f l) = true -> memN k l = true.
Proof. intros H. apply memN_In in H. apply filter_In in H. apply memN_In. tauto. Qed.

Lemma inv5_frame c s s' :
  inv5 c s ->
  s_bucket s' = s_bucket s -> s_ign s' = s_ign s -> s_seen s' = s_seen s -> s_notif s' = s_notif s ->
  s_pend s' = s_pend s -> s_ownskip s' = s_ownskip s -> s_started s' = s_started s ->
  (forall y, mem y (s_cor s) = true -> mem y (s_cor s') = true) ->
  (own_waiting c s' = true -> own_waiting c s = true) ->
  inv5 c s'.
Proof.
  intros [WS WP WK WN WD WE WF] E1 E2 E3 E4 E5 E6 E7 E8 E9.
  constructor; rewrite ?E2, ?E3, ?E4, ?E5, ?E6, ?E7; auto.
  - intros W x Hx. eapply on_track_frame; eauto.
  - intros W i m x Hp Hm. eapply on_track_frame; eauto.
  - intros W i m x n Hp Hm Hn Hi. eapply WE; eauto.
Qed.

Lemma pend_entry b a j i m k x :
  pend_of b (adel a j) = Some (i, m) -> alook m k = Some x -> i = b /\ k <> j /\ alook a k = Some x.
Proof.
  intros Hp Hm. apply pend_of_some in Hp. destruct Hp as [-> ->]. rewrite alook_adel in Hm.
  destruct (k =? j) eqn:E; [discriminate|]. apply N.eqb_neq in E. auto.
Qed.

Lemma on_track_ign c s s' x :
  s_bucket s' = s_bucket s -> (forall y, mem y (s_ign s) = true -> mem y (s_ign s') = true) ->
  (forall y, mem y (s_cor s) = true -> mem y (s_ign s') = true) ->
  on_track c s x -> on_track c s' x.
Proof.
  intros E1 M1 M2 [H|[H|H]]; unfold on_track; rewrite E1.
  - destruct (mem x (s_ign s')) eqn:E; [auto|]. left. eapply newest_ign_mono; eauto.
  - auto.
  - right. left. auto.
Qed.

(* the parts of the invariant that every branch of the notification loop re-establishes the same way *)
Lemma inv5_notify c s s' b a j n os :
  inv5 c s -> s_pend s = Some (b, a) -> alook a j = Some n ->
  s_bucket s' = s_bucket s -> s_ign s' = s_ign s -> s_cor s' = s_cor s -> s_seen s' = s_seen s ->
  s_started s' = s_started s -> s_wait s' = s_wait s ->
  s_pend s' = pend_of b (adel a j) -> s_ownskip s' = os ->
  (forall k, k <> j -> s_notif s' k = s_notif s k) ->
  (s_notif s' j = s_notif s j \/ s_notif s' j = Some n) ->
  (own_waiting c s = true -> os = false) ->
  (own_waiting c s = true -> j = c_own c -> s_notif s' j <> None) ->
  inv5 c s'.
Proof.
  intros [WS WP WK WN WD WE WF] Hp Ha E1 E2 E3 E4 E5 E6 E7 E8 NO NJ OS NN.
  assert (OT : forall x, on_track c s x -> on_track c s' x).
  { intros x. apply on_track_frame; try assumption. rewrite E3. auto. }
  assert (OW : own_waiting c s' = own_waiting c s) by (unfold own_waiting; rewrite E6; reflexivity).
  constructor; rewrite ?OW, ?E2, ?E4, ?E5, ?E7, ?E8.
  - exact WS.
  - intros HS. destruct (WP HS) as (_ & _ & A). congruence.
  - exact OS.
  - intros HW x Hx. apply OT. destruct (N.eq_dec (c_own c) j) as [E|NE].
    + rewrite E in Hx. destruct NJ as [NJ|NJ]; rewrite NJ in Hx.
      * rewrite <- E in Hx. auto.
      * inversion Hx; subst x. eapply WD; eauto. rewrite E. exact Ha.
    + rewrite NO in Hx by exact NE. auto.
  - intros HW i m x Hq Hm. destruct (pend_entry _ _ _ _ _ _ _ Hq Hm) as (_ & NE & A). apply OT. eapply WD; eauto.
  - intros HW i m x k Hq Hm Hn Hi. destruct (pend_entry _ _ _ _ _ _ _ Hq Hm) as (_ & NE & A).
    rewrite NO in Hn by exact NE. eapply WE; eauto.
  - intros HW Hn. destruct (N.eq_dec (c_own c) j) as [E|NE].
    + exfalso. apply (NN HW (eq_sym E)). rewrite <- E. exact Hn.
    + rewrite NO in Hn by exact NE. destruct (WF HW Hn) as (m & x & A & B).
      rewrite Hp in A. inversion A; subst b m. exists (adel a j), x.
      destruct (pend_of_look true (adel a j) (c_own c) x) as (m' & C & D).
      * rewrite alook_adel. apply N.eqb_neq in NE. rewrite NE. exact B.
      * apply pend_of_some in C as C'. destruct C' as [_ ->]. split; [exact C | exact D].
Qed.

Lemma inv5_step c s l s' :
  inv c s -> inv5 c s -> calm c s l = true -> step c s l = Some s' -> inv5 c s'.
Proof.
  intros [I1 I2 I3 I4] W5 CA H.
  pose proof W5 as [WS WP WK WN WD WE WF].
  step_inv H.
  all: try solve [apply (inv5_frame c _ _ W5); try reflexivity; unfold own_waiting; scbn; auto;
                  first [ intros y Hy; rewrite mem_add, Hy; apply orb_true_r
                        | apply memN_removeN
                        | intros HW; rewrite <- Heql in HW; apply memN_filter in HW; exact HW ]].
  - (* a later listing *)
    destruct (scan_spec _ _ _ _ _ Heqp) as [SA SB].
    assert (M1 : forall y, mem y (s_ign s) = true -> mem y l = true)
      by (intros y Hy; rewrite SA, mem_add_all, Hy, orb_true_r; reflexivity).
    assert (M2 : forall y, mem y (s_cor s) = true -> mem y l = true)
      by (intros y Hy; rewrite SA, mem_add_all, Hy; reflexivity).
    assert (NW : forall j x, alook a j = Some x -> newest (s_bucket s) l j = Some x).
    { intros j x Hx. rewrite SB in Hx. cbn in Hx. destruct (newest (s_bucket s) l j); [exact Hx | discriminate]. }
    constructor; unfold own_waiting in *; scbn.
    + intros j x Hx. apply NW in Hx. apply newest_some in Hx. tauto.
    + intros; congruence.
    + exact WK.
    + intros HW x Hx. apply (on_track_ign c s); auto; reflexivity.
    + intros HW i m x Hp Hm. apply pend_of_some in Hp. destruct Hp as [_ ->]. left. scbn. apply NW. exact Hm.
    + intros HW i m x n Hp Hm Hn Hi. apply pend_of_some in Hp. destruct Hp as [_ ->]. apply NW in Hm.
      destruct (WN HW _ Hn) as [A|[A|A]].
      * rewrite (newest_ign_mono _ _ _ _ _ A M1 Hi) in Hm. congruence.
      * rewrite (M1 _ A) in Hi. discriminate.
      * rewrite (M2 _ A) in Hi. discriminate.
    + intros HW Hn. destruct (WF HW Hn) as (m & x & A & _). discriminate.
  - (* the first listing *)
    destruct (scan_spec _ _ _ _ _ Heqp) as [SA SB].
    assert (NW : forall j x, alook a j = Some x -> newest (s_bucket s) l j = Some x).
    { intros j x Hx. rewrite SB in Hx. cbn in Hx. destruct (newest (s_bucket s) l j); [exact Hx | discriminate]. }
    destruct (WP eq_refl) as (P1 & P2 & _). destruct incl; [|discriminate].
    constructor; unfold own_waiting in *; scbn.
    + intros j x Hx. apply NW in Hx. apply newest_some in Hx. tauto.
    + discriminate.
    + intros _. exact P2.
    + intros _ x Hx. congruence.
    + intros HW i m x Hp Hm. apply pend_of_some in Hp. destruct Hp as [_ ->]. left. scbn. apply NW. exact Hm.
    + intros; congruence.
    + intros HW _. apply memN_alook in HW. destruct HW as (x & Hx). exists a, x. split; [|exact Hx].
      destruct a; [discriminate | reflexivity].
  - (* notify: no change *)
    apply oname_eqb_eq in Heqb0.
    eapply (inv5_notify c s _ b a j n (s_ownskip s) W5 Heqo Heqo0); try reflexivity; auto; scbn; intros; congruence.
  - (* notify: own skipped — impossible while the own instance is waited for *)
    apply andb_true_iff in Heqb1. destruct Heqb1 as [A1 A3]. apply andb_true_iff in A1. destruct A1 as [A1 A2].
    apply negb_true_iff in A1. subst b. apply N.eqb_eq in A2. subst j. apply negb_true_iff in A3.
    eapply (inv5_notify c s _ false a (c_own c) n true W5 Heqo Heqo0); try reflexivity; auto; scbn.
    + intros HW. exfalso. unfold notif_ignored in A3. apply oname_eqb_neq in Heqb0.
      destruct (s_notif s (c_own c)) as [k|] eqn:EN.
      * apply Heqb0. f_equal. eapply WE; eauto.
      * destruct (WF HW eq_refl) as (m & x & A & _). congruence.
    + intros HW _ EN. destruct (WF HW EN) as (m & x & A & _). congruence.
  - (* notify: existing downloader signalled *)
    eapply (inv5_notify c s _ b a j n (s_ownskip s) W5 Heqo Heqo0); try reflexivity; auto; scbn.
    + intros k NE. rewrite upd_other by exact NE. reflexivity.
    + right. apply upd_same.
    + intros _ _. rewrite upd_same. discriminate.
  - eapply (inv5_notify c s _ b a j n (s_ownskip s) W5 Heqo Heqo0); try reflexivity; auto; scbn.
    + intros k NE. rewrite upd_other by exact NE. reflexivity.
    + right. apply upd_same.
    + intros _ _. rewrite upd_same. discriminate.
  - (* publish *)
    cbn [calm] in CA. apply negb_true_iff in CA.
    assert (OT : own_waiting c s = true -> forall x, on_track c s x ->
                 on_track c (set_next (set_bucket s (s_bucket s ++ [mkName j (s_next s) ok k])) (s_next s + 1)) x).
    { intros HW x [A|[A|A]]; unfold on_track; scbn; auto. left.
      rewrite newest_snoc_other; [exact A|]. cbn. rewrite HW, andb_true_r in CA. apply N.eqb_neq. exact CA. }
    constructor; unfold own_waiting in *; scbn; auto.
    all: try solve [intros HW x0 Hx; apply OT; auto].
    all: try solve [intros HW i m x0 Hp Hm; apply OT; auto; eapply WD; eauto].
  - (* delete *)
    cbn [calm] in CA. apply negb_true_iff in CA.
    assert (OT : own_waiting c s = true -> forall y, own_target c s y = true -> on_track c s y ->
                 on_track c (set_bucket s (remove_name x (s_bucket s))) y).
    { intros HW y TY [A|[A|A]]; unfold on_track; scbn; auto.
      destruct (name_eq_dec x y) as [->|NE].
      - rewrite HW, TY in CA. cbn in CA. apply andb_false_iff in CA. destruct CA as [CA|CA]; apply negb_false_iff in CA; auto.
      - left. apply newest_remove; assumption. }
    assert (EQ : forall y, oname_eqb (Some y) (Some y) = true) by (intros; apply oname_eqb_eq; reflexivity).
    constructor; unfold own_waiting in *; scbn; auto.
    all: try solve [intros HW y Hy; apply OT; auto; unfold own_target; rewrite Hy, EQ; reflexivity].
    all: try solve [intros HW i m y Hp Hm; apply OT; [assumption | | eapply WD; eauto]; unfold own_target;
                    rewrite Hp, Hm, EQ; apply orb_true_r].
Qed.

Lemma reach_calm_inv5 c h s : reach_calm c h s -> inv5 c s.
Proof.
  induction 1 as [|h s l s' R IH CA H]; [apply inv5_init|].
  eapply inv5_step; try eassumption. eapply reach_inv. eapply reach_calm_reach. exact R.
Qed.

(* under the assumption, no poll skips a new own name while the own instance is waited for *)
Theorem calm_no_ownskip c h s : reach_calm c h s -> own_waiting c s = true -> s_ownskip s = false.
Proof. intros R. apply (w_skip _ _ (reach_calm_inv5 _ _ _ R)). Qed.
