(* Receiver/Progress.v — C16_progress: with a stable bucket and no further faults the system runs out of
   useful work (explicit lexicographic measure), and when it has, every instance's newest decodable
   snapshot is the last one that was handed to the merge loop. *)
From Coq Require Import List NArith ZArith Bool Lia Arith Wellfounded Relations.
From Coq Require Import ZifyN ZifyNat ZifyBool.
From LS Require Import Receiver.Model Receiver.Basics Receiver.Inv.
Import ListNotations.
Open Scope N_scope.

(* ------------------------------------------------------------------ *)
(* definitions                                                          *)
(* ------------------------------------------------------------------ *)

(* lastSeenByInstance / ignoredFilenames are what a listing of the present bucket produces *)
Definition synced (s : state) : Prop := scan (s_bucket s) (s_ign s) [] = (s_ign s, s_seen s).

(* the steps that can happen while the bucket is stable and nothing fails:
   no Publish/Delete, no failing List, no failing Load of a blob that exists; the polling listing
   of Receiver.Run (includingOwn = false); a Load of a blob that is gone does fail *)
Definition internal (s : state) (l : label) : bool :=
  match l with
  | LListOk incl => negb incl
  | LListFail => false
  | LLoadFail j => match phase_of s j with HaveDl x => negb (mem x (s_bucket s)) | _ => false end
  | LPublish _ _ _ | LDelete _ => false
  | _ => true
  end.

(* would the range loop of RunOnce signal the downloader for this entry *)
Definition signals (c : cfg) (s : state) (incl : bool) (e : N * name) : bool :=
  negb (oname_eqb (Some (snd e)) (s_notif s (fst e))) && negb (negb incl && (fst e =? c_own c)).

(* "administrative" steps: a poll that finds nothing new to ignore, a loop iteration of RunOnce that
   notifies nobody, a pass through the bottom of syncLoop that neither shrinks the waiting set nor exits.
   They repeat forever in a running daemon and change nothing the measure looks at. *)
Definition admin (c : cfg) (s : state) (l : label) : bool :=
  match l with
  | LListOk _ => forallb (fun x => mem x (s_ign s)) (s_cor s)
  | LNotify j =>
      match s_pend s with
      | Some (incl, m) => match alook m j with Some x => negb (signals c s incl (j, x)) | None => false end
      | None => false
      end
  | LBottom =>
      (length (still_seen s (s_wait s)) =? length (s_wait s))%nat
      && negb (c_once c && match still_seen s (s_wait s) with [] => true | _ => false end)
  | _ => false
  end.

(* first component of the measure: names that may still have to be added to ignoredFilenames *)
Definition inflight (s : state) : list name :=
  flat_map (fun j => match working (phase_of s j) with Some x => [x] | None => [] end) (s_dls s).
Definition cand (s : state) : list name := s_bucket s ++ inflight s ++ s_cor s.
Definition U (s : state) : nat :=
  length (nodup name_eq_dec (filter (fun x => negb (mem x (s_ign s))) (cand s))).

(* second component *)
Definition rank (p : phase) : nat :=
  match p with
  | Idle => 0 | Check => 10 | WantDl _ => 9 | HaveDl _ => 8 | Loaded _ => 7 | HaveDc _ => 6 | Sleeping => 11
  end%nat.
Definition todo (seen : amap) (j : N) (d : dler) : bool :=
  match alook seen j with Some x => negb (oname_eqb (Some x) (d_last d)) | None => false end.
Definition stale (seen : amap) (j : N) (d : dler) : bool :=
  match working (d_phase d) with Some n => negb (oname_eqb (alook seen j) (Some n)) | None => false end.
Definition dl_meas (seen : amap) (j : N) (d : dler) : nat :=
  (20 * b2n (d_sig d) + 20 * b2n (todo seen j d) + 40 * b2n (stale seen j d) + rank (d_phase d))%nat.
Definition mj (s : state) (j : N) : nat :=
  match s_dl s j with Some d => dl_meas (s_seen s) j d | None => 0%nat end.
Fixpoint sum (f : N -> nat) (l : list N) : nat :=
  match l with [] => 0%nat | j :: r => (f j + sum f r)%nat end.
Definition pw (c : cfg) (s : state) : nat :=
  match s_pend s with
  | Some (incl, m) => (50 * length (filter (signals c s incl) m))%nat
  | None => 0%nat
  end.
Definition mu (c : cfg) (s : state) : nat :=
  (pw c s + sum (mj s) (s_dls s) + 2 * n_ready s + n_merge s
   + 2 * length (s_wait s) + (if s_exited s then 0 else 1))%nat.

(* lexicographic order on (U, mu) *)
Definition lex_lt (a b : nat * nat) : Prop :=
  (fst a < fst b)%nat \/ (fst a = fst b /\ (snd a < snd b)%nat).
Definition meas (c : cfg) (s : state) : nat * nat := (U s, mu c s).

Lemma lex_lt_wf : well_founded lex_lt.
Proof.
  assert (H : forall n m p, (fst p <= n)%nat -> (snd p <= m)%nat -> Acc lex_lt p).
  { induction n as [n IHn] using lt_wf_ind. induction m as [m IHm] using lt_wf_ind.
    intros [a b] Ha Hb. cbn in *. constructor. intros [a' b'] [L|[E L]]; cbn in *.
    - apply (IHn a' ltac:(lia) b'); cbn; lia.
    - subst a'. apply (IHm b' ltac:(lia)); cbn; lia. }
  intros p. apply (H (fst p) (snd p)); lia.
Qed.

(* ------------------------------------------------------------------ *)
(* generic list facts                                                   *)
(* ------------------------------------------------------------------ *)

Lemma nodup_len_le (l1 l2 : list name) :
  incl l1 l2 -> (length (nodup name_eq_dec l1) <= length (nodup name_eq_dec l2))%nat.
Proof.
  intros H. apply NoDup_incl_length; [apply NoDup_nodup|].
  intros x Hx. apply nodup_In. apply H. apply nodup_In in Hx. exact Hx.
Qed.

Lemma nodup_len_lt (l1 l2 : list name) x :
  incl l1 l2 -> In x l2 -> ~ In x l1 ->
  (length (nodup name_eq_dec l1) < length (nodup name_eq_dec l2))%nat.
Proof.
  intros H H2 H1.
  assert (A : (length (x :: nodup name_eq_dec l1) <= length (nodup name_eq_dec l2))%nat).
  { apply NoDup_incl_length.
    - constructor; [rewrite nodup_In; exact H1 | apply NoDup_nodup].
    - intros y [<-|Hy]; apply nodup_In; [exact H2 | apply H; apply nodup_In in Hy; exact Hy]. }
  cbn in A. lia.
Qed.

Lemma sum_ext f g l : (forall j, In j l -> f j = g j) -> sum f l = sum g l.
Proof. induction l as [|k r IH]; cbn; intros H; [reflexivity|]. rewrite (H k), IH; auto. Qed.

Lemma sum_app f l1 l2 : sum f (l1 ++ l2) = (sum f l1 + sum f l2)%nat.
Proof. induction l1; cbn; [reflexivity | rewrite IHl1; lia]. Qed.

Lemma sum_upd f g l j :
  NoDup l -> In j l -> (forall k, k <> j -> f k = g k) ->
  (sum f l + g j = sum g l + f j)%nat.
Proof.
  intros ND IN H. induction l as [|k r IH]; cbn; [destruct IN|].
  inversion ND as [|? ? NI ND']; subst.
  destruct (N.eq_dec k j) as [->|NE].
  - rewrite (sum_ext f g r); [lia|]. intros i Hi. apply H. intros ->. contradiction.
  - destruct IN as [E|IN]; [congruence|]. specialize (IH ND' IN). rewrite (H k NE). lia.
Qed.

Lemma filter_adel_le (f : N * name -> bool) m j :
  (length (filter f (adel m j)) <= length (filter f m))%nat.
Proof.
  induction m as [|[k y] r IH]; cbn; [lia|].
  destruct (j =? k); cbn; destruct (f (k, y)); cbn; lia.
Qed.

Lemma filter_adel_lt (f : N * name -> bool) m j x :
  alook m j = Some x -> f (j, x) = true ->
  (length (filter f (adel m j)) < length (filter f m))%nat.
Proof.
  induction m as [|[k y] r IH]; cbn; [discriminate|].
  destruct (j =? k) eqn:E.
  - apply N.eqb_eq in E; subst k. intros H F. inversion H; subst y. rewrite F. cbn.
    pose proof (filter_adel_le f r j). lia.
  - intros H F. cbn. specialize (IH H F). destruct (f (k, y)); cbn; lia.
Qed.

Lemma filter_adel_ext (f g : N * name -> bool) m j :
  (forall k y, k <> j -> f (k, y) = g (k, y)) -> filter f (adel m j) = filter g (adel m j).
Proof.
  intros H. induction m as [|[k y] r IH]; cbn; [reflexivity|].
  destruct (j =? k) eqn:E; [exact IH|]. apply N.eqb_neq in E. cbn.
  rewrite (H k y) by congruence. rewrite IH. reflexivity.
Qed.

Lemma filter_len_le (f : N -> bool) l : (length (filter f l) <= length l)%nat.
Proof. induction l as [|k r IH]; cbn; [lia|]. destruct (f k); cbn; lia. Qed.

Lemma filter_len_eq (f : N -> bool) l : length (filter f l) = length l -> filter f l = l.
Proof.
  induction l as [|k r IH]; cbn; [reflexivity|].
  destruct (f k); cbn; intros H.
  - f_equal. apply IH. lia.
  - pose proof (filter_len_le f r). lia.
Qed.

Lemma removeN_len j l : (length (removeN j l) <= length l)%nat.
Proof. induction l as [|k r IH]; cbn; [lia|]. destruct (j =? k); cbn; lia. Qed.

Lemma forallb_mem_sub xs l : forallb (fun x => mem x l) xs = true -> forall x, mem x xs = true -> mem x l = true.
Proof.
  intros H x Hx. apply mem_In in Hx. rewrite forallb_forall in H. apply H. exact Hx.
Qed.

Lemma forallb_mem_not xs l : forallb (fun x => mem x l) xs = false -> exists x, In x xs /\ mem x l = false.
Proof.
  induction xs as [|y r IH]; cbn; [discriminate|].
  destruct (mem y l) eqn:E; cbn; intros H.
  - destruct (IH H) as (x & A & B). exists x; auto.
  - exists y; auto.
Qed.
