(* Receiver/Progress.v — C16_progress: with a stable bucket and no further faults the system runs out of
   useful work (explicit lexicographic measure), and when it has, every instance's newest decodable
   snapshot is the last one that was handed to the merge loop. *)
From Coq Require Import List NArith ZArith Bool Lia Arith Wellfounded Relations.
From Coq Require Import ZifyN ZifyNat ZifyBool.
From LS Require Import Receiver.Model Receiver.Basics Receiver.Inv.
Import ListNotations.
Open Scope N_scope.

(* ------------------------------------------------------------------ *)
(* definitions                                                          *)
(* ------------------------------------------------------------------ *)

(* lastSeenByInstance / ignoredFilenames are what a listing of the present bucket produces *)
Definition synced (s : state) : Prop := scan (s_bucket s) (s_ign s) [] = (s_ign s, s_seen s).

(* the steps that can happen while the bucket is stable and nothing fails:
   no Publish/Delete, no failing List, no failing Load of a blob that exists; the polling listing
   of Receiver.Run (includingOwn = false); a Load of a blob that is gone does fail *)
Definition internal (s : state) (l : label) : bool :=
  match l with
  | LListOk incl => negb incl
  | LListFail => false
  | LLoadFail j => match phase_of s j with HaveDl x => negb (mem x (s_bucket s)) | _ => false end
  | LPublish _ _ _ | LDelete _ => false
  | _ => true
  end.

(* would the range loop of RunOnce signal the downloader for this entry *)
Definition signals (c : cfg) (s : state) (incl : bool) (e : N * name) : bool :=
  negb (oname_eqb (Some (snd e)) (s_notif s (fst e)))
  && negb (negb incl && (fst e =? c_own c) && negb (notif_ignored s (fst e))).

(* "administrative" steps: a poll that finds nothing new to ignore, a loop iteration of RunOnce that
   notifies nobody, a pass through the bottom of syncLoop that neither shrinks the waiting set nor exits.
   They repeat forever in a running daemon and change nothing the measure looks at. *)
Definition admin (c : cfg) (s : state) (l : label) : bool :=
  match l with
  | LListOk _ => forallb (fun x => mem x (s_ign s)) (s_cor s)
  | LNotify j =>
      match s_pend s with
      | Some (incl, m) => match alook m j with Some x => negb (signals c s incl (j, x)) | None => false end
      | None => false
      end
  | LBottom =>
      (length (still_seen s (s_wait s)) =? length (s_wait s))%nat
      && negb (c_once c && match still_seen s (s_wait s) with [] => true | _ => false end)
  | _ => false
  end.

(* first component of the measure: names that may still have to be added to ignoredFilenames *)
Definition inflight (s : state) : list name :=
  flat_map (fun j => match working (phase_of s j) with Some x => [x] | None => [] end) (s_dls s).
Definition cand (s : state) : list name := s_bucket s ++ inflight s ++ s_cor s.
Definition U (s : state) : nat :=
  length (nodup name_eq_dec (filter (fun x => negb (mem x (s_ign s))) (cand s))).

(* second component *)
Definition rank (p : phase) : nat :=
  match p with
  | Idle => 0 | Check => 10 | WantDl _ => 9 | HaveDl _ => 8 | Loaded _ => 7 | HaveDc _ => 6 | Sleeping => 11
  end%nat.
Definition todo (seen : amap) (j : N) (d : dler) : bool :=
  match alook seen j with Some x => negb (oname_eqb (Some x) (d_last d)) | None => false end.
Definition stale (seen : amap) (j : N) (d : dler) : bool :=
  match working (d_phase d) with Some n => negb (oname_eqb (alook seen j) (Some n)) | None => false end.
Definition dl_meas (seen : amap) (j : N) (d : dler) : nat :=
  (20 * b2n (d_sig d) + 20 * b2n (todo seen j d) + 40 * b2n (stale seen j d) + rank (d_phase d))%nat.
Definition mj (s : state) (j : N) : nat :=
  match s_dl s j with Some d => dl_meas (s_seen s) j d | None => 0%nat end.
Fixpoint sum (f : N -> nat) (l : list N) : nat :=
  match l with [] => 0%nat | j :: r => (f j + sum f r)%nat end.
Definition pw (c : cfg) (s : state) : nat :=
  match s_pend s with
  | Some (incl, m) => (50 * length (filter (signals c s incl) m))%nat
  | None => 0%nat
  end.
Definition mu (c : cfg) (s : state) : nat :=
  (pw c s + sum (mj s) (s_dls s) + 2 * n_ready s + n_merge s
   + 2 * length (s_wait s) + (if s_exited s then 0 else 1))%nat.

(* lexicographic order on (U, mu) *)
Definition lex_lt (a b : nat * nat) : Prop :=
  (fst a < fst b)%nat \/ (fst a = fst b /\ (snd a < snd b)%nat).
Definition meas (c : cfg) (s : state) : nat * nat := (U s, mu c s).

Lemma lex_lt_wf : well_founded lex_lt.
Proof.
  assert (H : forall n m p, (fst p <= n)%nat -> (snd p <= m)%nat -> Acc lex_lt p).
  { induction n as [n IHn] using lt_wf_ind. induction m as [m IHm] using lt_wf_ind.
    intros [a b] Ha Hb. cbn in *. constructor. intros [a' b'] [L|[E L]]; cbn in *.
    - apply (IHn a' ltac:(lia) b'); cbn; lia.
    - subst a'. apply (IHm b' ltac:(lia)); cbn; lia. }
  intros p. apply (H (fst p) (snd p)); lia.
Qed.

(* ------------------------------------------------------------------ *)
(* generic list facts                                                   *)
(* ------------------------------------------------------------------ *)

Lemma nodup_len_le (l1 l2 : list name) :
  incl l1 l2 -> (length (nodup name_eq_dec l1) <= length (nodup name_eq_dec l2))%nat.
Proof.
  intros H. apply NoDup_incl_length; [apply NoDup_nodup|].
  intros x Hx. apply nodup_In. apply H. apply nodup_In in Hx. exact Hx.
Qed.

Lemma nodup_len_lt (l1 l2 : list name) x :
  incl l1 l2 -> In x l2 -> ~ In x l1 ->
  (length (nodup name_eq_dec l1) < length (nodup name_eq_dec l2))%nat.
Proof.
  intros H H2 H1.
  assert (A : (length (x :: nodup name_eq_dec l1) <= length (nodup name_eq_dec l2))%nat).
  { apply NoDup_incl_length.
    - constructor; [rewrite nodup_In; exact H1 | apply NoDup_nodup].
    - intros y [<-|Hy]; apply nodup_In; [exact H2 | apply H; apply nodup_In in Hy; exact Hy]. }
  cbn in A. lia.
Qed.

Lemma sum_ext f g l : (forall j, In j l -> f j = g j) -> sum f l = sum g l.
Proof. induction l as [|k r IH]; cbn; intros H; [reflexivity|]. rewrite (H k), IH; auto. Qed.

Lemma sum_app f l1 l2 : sum f (l1 ++ l2) = (sum f l1 + sum f l2)%nat.
Proof. induction l1; cbn; [reflexivity | rewrite IHl1; lia]. Qed.

Lemma sum_upd f g l j :
  NoDup l -> In j l -> (forall k, k <> j -> f k = g k) ->
  (sum f l + g j = sum g l + f j)%nat.
Proof.
  intros ND IN H. induction l as [|k r IH]; cbn; [destruct IN|].
  inversion ND as [|? ? NI ND']; subst.
  destruct (N.eq_dec k j) as [->|NE].
  - rewrite (sum_ext f g r); [lia|]. intros i Hi. apply H. intros ->. contradiction.
  - destruct IN as [E|IN]; [congruence|]. specialize (IH ND' IN). rewrite (H k NE). lia.
Qed.

Lemma filter_adel_le (f : N * name -> bool) m j :
  (length (filter f (adel m j)) <= length (filter f m))%nat.
Proof.
  induction m as [|[k y] r IH]; cbn; [lia|].
  destruct (j =? k); cbn; destruct (f (k, y)); cbn; lia.
Qed.

Lemma filter_adel_lt (f : N * name -> bool) m j x :
  alook m j = Some x -> f (j, x) = true ->
  (length (filter f (adel m j)) < length (filter f m))%nat.
Proof.
  induction m as [|[k y] r IH]; cbn; [discriminate|].
  destruct (j =? k) eqn:E.
  - apply N.eqb_eq in E; subst k. intros H F. inversion H; subst y. rewrite F. cbn.
    pose proof (filter_adel_le f r j). lia.
  - intros H F. cbn. specialize (IH H F). destruct (f (k, y)); cbn; lia.
Qed.

Lemma filter_adel_ext (f g : N * name -> bool) m j :
  (forall k y, k <> j -> f (k, y) = g (k, y)) -> filter f (adel m j) = filter g (adel m j).
Proof.
  intros H. induction m as [|[k y] r IH]; cbn; [reflexivity|].
  destruct (j =? k) eqn:E; [exact IH|]. apply N.eqb_neq in E. cbn.
  rewrite (H k y) by congruence. rewrite IH. reflexivity.
Qed.

Lemma filter_len_le (f : N -> bool) l : (length (filter f l) <= length l)%nat.
Proof. induction l as [|k r IH]; cbn; [lia|]. destruct (f k); cbn; lia. Qed.

Lemma filter_len_eq (f : N -> bool) l : length (filter f l) = length l -> filter f l = l.
Proof.
  induction l as [|k r IH]; cbn; [reflexivity|].
  destruct (f k); cbn; intros H.
  - f_equal. apply IH. lia.
  - pose proof (filter_len_le f r). lia.
Qed.

Lemma removeN_len j l : (length (removeN j l) <= length l)%nat.
Proof. induction l as [|k r IH]; cbn; [lia|]. destruct (j =? k); cbn; lia. Qed.

Lemma forallb_mem_sub xs l : forallb (fun x => mem x l) xs = true -> forall x, mem x xs = true -> mem x l = true.
Proof.
  intros H x Hx. apply mem_In in Hx. rewrite forallb_forall in H. apply H. exact Hx.
Qed.

Lemma forallb_mem_not xs l : forallb (fun x => mem x l) xs = false -> exists x, In x xs /\ mem x l = false.
Proof.
  induction xs as [|y r IH]; cbn; [discriminate|].
  destruct (mem y l) eqn:E; cbn; intros H.
  - destruct (IH H) as (x & A & B). exists x; auto.
  - exists y; auto.
Qed.

Ltac step_inv0 H :=
  cbn [step] in H; unfold_steps H; break_match H; inversion H; subst; clear H.

Lemma scan_idem names : forall ign m ign' m',
  scan names ign m = (ign', m') ->
  forall I, (forall x, mem x I = mem x ign') -> scan names I m = (I, m').
Proof.
  induction names as [|x r IH]; intros ign m ign' m' H I HI; cbn in *.
  - inversion H; subst. reflexivity.
  - destruct (mem x ign) eqn:Ex.
    + destruct (scan_spec _ _ _ _ _ H) as [A _].
      rewrite HI, A, Ex. cbn. eapply IH; eassumption.
    + destruct (n_kind x) eqn:K.
      * destruct (scan_spec _ _ _ _ _ H) as [A _].
        assert (E : mem x I = false).
        { rewrite HI, A, Ex. unfold is_bad_kind. rewrite K. reflexivity. }
        rewrite E. eapply IH; eassumption.
      * destruct (scan_spec _ _ _ _ _ H) as [A _].
        assert (E : mem x I = false).
        { rewrite HI, A, Ex. unfold is_bad_kind. rewrite K. reflexivity. }
        rewrite E. eapply IH; eassumption.
      * destruct (scan_spec _ _ _ _ _ H) as [A _].
        assert (E : mem x I = true).
        { rewrite HI, A. cbn. rewrite name_eqb_refl. reflexivity. }
        rewrite E. eapply IH; eassumption.
Qed.

Lemma synced_seen s : synced s -> forall j, alook (s_seen s) j = newest (s_bucket s) (s_ign s) j.
Proof.
  intros H j. destruct (scan_spec _ _ _ _ _ H) as [_ B]. rewrite B. cbn.
  destruct (newest (s_bucket s) (s_ign s) j); reflexivity.
Qed.

Lemma synced_seen_bucket s j x : synced s -> alook (s_seen s) j = Some x -> mem x (s_bucket s) = true.
Proof.
  intros H E. rewrite synced_seen in E by exact H. apply newest_some in E. apply mem_In. tauto.
Qed.

(* a successful listing establishes [synced] *)
Lemma list_ok_synced c s incl s' : step c s (LListOk incl) = Some s' -> synced s'.
Proof.
  intros H. step_inv0 H; unfold synced; scbn; eapply scan_idem; eauto.
Qed.

(* a poll that finds nothing new to ignore leaves lastSeenByInstance and ignoredFilenames as they are *)
Lemma admin_list_same s : synced s -> forallb (fun x => mem x (s_ign s)) (s_cor s) = true ->
  scan (s_bucket s) (add_all (s_cor s) (s_ign s)) [] = (s_ign s, s_seen s).
Proof.
  intros H A. rewrite add_all_sub; [exact H|]. apply forallb_mem_sub. exact A.
Qed.

(* ------------------------------------------------------------------ *)
(* first component                                                      *)
(* ------------------------------------------------------------------ *)

Lemma in_inflight s x : In x (inflight s) <-> exists j, In j (s_dls s) /\ working (phase_of s j) = Some x.
Proof.
  unfold inflight. rewrite in_flat_map. split.
  - intros (j & A & B). exists j. split; [exact A|]. destruct (working (phase_of s j)); [|destruct B].
    destruct B as [<-|[]]. reflexivity.
  - intros (j & A & B). exists j. split; [exact A|]. rewrite B. left. reflexivity.
Qed.

Lemma U_le s s' :
  (forall x, In x (cand s') -> mem x (s_ign s') = false -> In x (cand s) /\ mem x (s_ign s) = false) ->
  (U s' <= U s)%nat.
Proof.
  intros H. unfold U. apply nodup_len_le. intros x Hx. apply filter_In in Hx. destruct Hx as [A B].
  apply negb_true_iff in B. destruct (H x A B) as [C D]. apply filter_In. rewrite D. auto.
Qed.

Lemma U_lt s s' x0 :
  (forall x, In x (cand s') -> mem x (s_ign s') = false -> In x (cand s) /\ mem x (s_ign s) = false) ->
  In x0 (cand s) -> mem x0 (s_ign s) = false -> mem x0 (s_ign s') = true ->
  (U s' < U s)%nat.
Proof.
  intros H A B C. unfold U. apply (nodup_len_lt _ _ x0).
  - intros x Hx. apply filter_In in Hx. destruct Hx as [A1 B1].
    apply negb_true_iff in B1. destruct (H x A1 B1) as [C1 D1]. apply filter_In. rewrite D1. auto.
  - apply filter_In. rewrite B. auto.
  - intros Hx. apply filter_In in Hx. destruct Hx as [_ Hx]. rewrite C in Hx. discriminate.
Qed.

Lemma in_cand s x : In x (cand s) <-> In x (s_bucket s) \/ In x (inflight s) \/ mem x (s_cor s) = true.
Proof. unfold cand. rewrite !in_app_iff, mem_In. tauto. Qed.

Lemma working_in_cand c s j d x :
  inv1 c s -> s_dl s j = Some d -> working (d_phase d) = Some x -> In x (cand s).
Proof.
  intros I1 E W. apply in_cand. right. left. apply in_inflight. exists j. split.
  - apply (i_dls _ _ I1). congruence.
  - unfold phase_of. rewrite E. exact W.
Qed.

(* candidates never grow and nothing is un-ignored, on every step that keeps the bucket *)
Lemma cand_mono c s l s' :
  inv c s -> synced s -> internal s l = true -> step c s l = Some s' ->
  (forall x, In x (cand s') -> In x (cand s)) /\ (forall x, mem x (s_ign s) = true -> mem x (s_ign s') = true).
Proof.
  intros [I1 I2 I3 I4] SY IN H.
  assert (INF : forall s1 j d d', s_dl s j = Some d -> s_dl s1 = upd (s_dl s) j (Some d') -> s_dls s1 = s_dls s ->
            (forall x, working (d_phase d') = Some x -> In x (cand s)) ->
            forall x, In x (inflight s1) -> In x (cand s)).
  { intros s1 j d d' E1 E2 E3 HW x Hx. apply in_inflight in Hx. destruct Hx as (k & A & B).
    unfold phase_of in B. rewrite E2 in B. rewrite E3 in A.
    destruct (N.eq_dec k j) as [->|NE].
    - rewrite upd_same in B. auto.
    - rewrite upd_other in B by exact NE. apply in_cand. right. left. apply in_inflight.
      exists k. split; [exact A|exact B]. }
  step_inv H; scbn; cbn [internal negb] in IN; try discriminate IN.
  all: try match goal with HS : scan _ _ [] = (_, _) |- _ => destruct (scan_spec _ _ _ _ _ HS) as [SA SB] end.
  all: split; [|try solve [auto]].
  all: try solve [intros x0 Hx; rewrite SA, mem_add_all, Hx, orb_true_r; reflexivity].
  all: intros x0 Hx; apply in_cand in Hx; scbn; destruct Hx as [Hx|[Hx|Hx]];
       [apply in_cand; left; exact Hx | | try solve [apply in_cand; right; right; exact Hx]].
  all: try solve [apply in_cand; right; left; exact Hx].
  all: try solve [match goal with HD : s_dl ?s0 ?j = Some ?d, Hx : In _ (inflight ?s1) |- _ =>
         eapply (INF s1 j d _ HD eq_refl eq_refl); [|exact Hx]; cbn; intros y Hy; inv_some;
         first [ discriminate Hy
               | eapply working_in_cand; [eassumption | eassumption | phase_rw; reflexivity]
               | apply in_cand; left; apply mem_In; eapply synced_seen_bucket; eassumption ] end].
  - match type of Hx with In _ (inflight ?s1) => eapply (INF s1 j d _ Heqo1 eq_refl eq_refl); [|exact Hx] end. cbn. intros y Hy.
    eapply working_in_cand; eassumption.
  - apply in_inflight in Hx. destruct Hx as (k & A & B). scbn. unfold phase_of in B. scbn.
    destruct (N.eq_dec k j) as [->|NE].
    + rewrite upd_same in B. discriminate.
    + rewrite upd_other in B by exact NE. apply in_app_iff in A. destruct A as [A|[A|[]]]; [|congruence].
      apply in_cand. right. left. apply in_inflight. exists k. split; [exact A|exact B].
  - rewrite mem_add in Hx. apply orb_true_iff in Hx. destruct Hx as [Hx|Hx].
    + apply name_eqb_eq in Hx; subst x0. eapply working_in_cand; [eassumption | eassumption | rewrite Heqp; reflexivity].
    + apply in_cand. right. right. exact Hx.
Qed.

(* ------------------------------------------------------------------ *)
(* the measure                                                          *)
(* ------------------------------------------------------------------ *)

Lemma synced_step c s l s' :
  synced s -> internal s l = true -> step c s l = Some s' -> synced s'.
Proof.
  intros SY IN H. destruct l; try discriminate IN.
  1: { eapply list_ok_synced; eassumption. }
  all: step_inv0 H; unfold synced in *; scbn; assumption.
Qed.

Lemma U_step_le c s l s' :
  inv c s -> synced s -> internal s l = true -> step c s l = Some s' -> (U s' <= U s)%nat.
Proof.
  intros I SY IN H. destruct (cand_mono _ _ _ _ I SY IN H) as [A B].
  apply U_le. intros x Hx Hi. split; [auto|].
  destruct (mem x (s_ign s)) eqn:E; [|reflexivity]. rewrite (B _ E) in Hi. discriminate.
Qed.

Lemma U_list_lt c s incl s' :
  inv c s -> synced s -> internal s (LListOk incl) = true -> step c s (LListOk incl) = Some s' ->
  admin c s (LListOk incl) = false -> (U s' < U s)%nat.
Proof.
  intros I SY IN H AD. destruct (cand_mono _ _ _ _ I SY IN H) as [A B].
  cbn in AD. apply forallb_mem_not in AD. destruct AD as (x0 & X1 & X2).
  apply (U_lt s s' x0).
  - intros x Hx Hi. split; [auto|].
    destruct (mem x (s_ign s)) eqn:E; [|reflexivity]. rewrite (B _ E) in Hi. discriminate.
  - apply in_cand. right. right. apply mem_In. exact X1.
  - exact X2.
  - step_inv0 H; scbn; destruct (scan_spec _ _ _ _ _ Heqp) as [SA _];
    rewrite SA, mem_add_all; apply mem_In in X1; rewrite X1; reflexivity.
Qed.

Lemma sum_mj_upd s s' j d d' :
  NoDup (s_dls s) -> In j (s_dls s) -> s_dl s j = Some d ->
  s_dl s' = upd (s_dl s) j (Some d') -> s_dls s' = s_dls s -> s_seen s' = s_seen s ->
  (sum (mj s') (s_dls s') + dl_meas (s_seen s) j d = sum (mj s) (s_dls s) + dl_meas (s_seen s) j d')%nat.
Proof.
  intros ND IN E E1 E2 E3. rewrite E2.
  pose proof (sum_upd (mj s') (mj s) (s_dls s) j ND IN) as H.
  assert (A : mj s j = dl_meas (s_seen s) j d) by (unfold mj; rewrite E; reflexivity).
  assert (B : mj s' j = dl_meas (s_seen s) j d') by (unfold mj; rewrite E1, E3, upd_same; reflexivity).
  rewrite A, B in H. apply H. intros k NE. unfold mj. rewrite E1, E3, upd_other by exact NE. reflexivity.
Qed.

Lemma sum_mj_same s s' :
  s_dl s' = s_dl s -> s_dls s' = s_dls s -> s_seen s' = s_seen s ->
  sum (mj s') (s_dls s') = sum (mj s) (s_dls s).
Proof. intros E1 E2 E3. unfold mj. rewrite E1, E2, E3. reflexivity. Qed.

Lemma n_ready_upd s s' j v :
  NoDup (s_dls s) -> In j (s_dls s) ->
  s_ready s' = upd (s_ready s) j v -> s_dls s' = s_dls s ->
  (n_ready s' + b2n (is_some (s_ready s j)) = n_ready s + b2n (is_some v))%nat.
Proof. intros. unfold n_ready. apply count_ready_upd; assumption. Qed.

Lemma n_ready_same s s' : s_ready s' = s_ready s -> s_dls s' = s_dls s -> n_ready s' = n_ready s.
Proof. intros E1 E2. unfold n_ready. rewrite E1, E2. reflexivity. Qed.

Lemma pw_pend_of c s s' incl m :
  s_pend s' = pend_of incl m -> (forall e, signals c s' incl e = signals c s incl e) ->
  pw c s' = (50 * length (filter (signals c s incl) m))%nat.
Proof.
  intros E H. unfold pw. rewrite E. destruct m as [|e r]; cbn [pend_of]; [reflexivity|].
  rewrite (filter_ext _ _ (H)). reflexivity.
Qed.

Lemma pw_same c s s' : s_pend s' = s_pend s -> s_notif s' = s_notif s -> s_ign s' = s_ign s -> pw c s' = pw c s.
Proof. intros E1 E2 E3. unfold pw, signals, notif_ignored. rewrite E1, E2, E3. reflexivity. Qed.

Lemma pw_of_pend c s incl m :
  s_pend s = pend_of incl m -> pw c s = (50 * length (filter (signals c s incl) m))%nat.
Proof. intros E. unfold pw. rewrite E. destruct m; reflexivity. Qed.

Lemma pw_notify c s s' b a j n :
  s_pend s = Some (b, a) -> alook a j = Some n -> signals c s b (j, n) = true ->
  s_pend s' = pend_of b (adel a j) -> s_notif s' = upd (s_notif s) j (Some n) -> s_ign s' = s_ign s ->
  (pw c s' + 50 <= pw c s)%nat.
Proof.
  intros E1 E2 E3 E4 E5 E6. rewrite (pw_of_pend c s' b (adel a j) E4).
  unfold pw at 1. rewrite E1.
  rewrite (filter_adel_ext (signals c s' b) (signals c s b)).
  - pose proof (filter_adel_lt (signals c s b) a j n E2 E3). lia.
  - intros k y NE. unfold signals, notif_ignored. cbn [fst snd]. rewrite E5, E6, upd_other by exact NE. reflexivity.
Qed.

Ltac onames :=
  repeat match goal with
  | |- context [oname_eqb ?a ?b] =>
      let E := fresh "E" in destruct (oname_eqb a b) eqn:E; [apply oname_eqb_eq in E | apply oname_eqb_neq in E]
  | H : context [oname_eqb ?a ?b] |- _ =>
      let E := fresh "E" in destruct (oname_eqb a b) eqn:E; [apply oname_eqb_eq in E | apply oname_eqb_neq in E]
  end.

(* the measure strictly decreases on every non-administrative step other than a listing *)
Lemma mu_step c s l s' :
  inv c s -> synced s -> internal s l = true -> step c s l = Some s' ->
  admin c s l = false -> (forall incl, l <> LListOk incl) -> (mu c s' < mu c s)%nat.
Proof.
  intros [I1 I2 I3 I4] SY IN H AD NL.
  pose proof (i_nodup _ _ I1) as ND.
  step_inv H; cbn [internal negb] in IN; try discriminate IN; try (exfalso; eapply NL; reflexivity).
  all: try (unfold phase_of in IN; match goal with E : s_dl _ _ = Some ?d, HP : d_phase ?d = _ |- _ => rewrite E, HP in IN end).
  all: try match goal with E : s_dl ?s ?j = Some ?d |- _ =>
      assert (INJ : In j (s_dls s)) by (apply (i_dls _ _ I1); congruence)
    end.
  all: try match goal with E : s_ready ?s ?j = Some ?d |- _ =>
      assert (INJ : In j (s_dls s)) by (eapply (i_ready_dl _ _ I1); eassumption)
    end.
  all: try match goal with E : s_dl ?s ?j = Some ?d, HP : d_phase ?d = _ |- _ =>
      pose proof (v_w _ _ I3 j d) as HW; rewrite HP in HW; cbn in HW; specialize (HW _ E eq_refl)
    end.
  all: try match goal with E : s_dl ?s ?j = Some ?d |- (mu _ ?s' < _)%nat =>
      match s' with context [upd (s_dl s) j (Some ?d')] =>
      pose proof (sum_mj_upd s s' j d d' ND INJ E eq_refl eq_refl eq_refl) as HS
      end end.
  all: try match goal with |- (mu _ ?s' < mu _ ?s)%nat =>
      assert (EP : pw c s' = pw c s) by (apply pw_same; reflexivity) end.
  all: try match goal with |- (mu _ ?s' < mu _ ?s)%nat =>
      assert (ER : n_ready s' = n_ready s) by (apply n_ready_same; reflexivity) end.
  all: try match goal with |- (mu _ ?s' < mu _ ?s)%nat =>
      match s' with context [upd (s_ready s) ?j ?v] =>
      pose proof (n_ready_upd s s' j v ND INJ eq_refl eq_refl) as ER end end.
  all: try match goal with |- (mu _ ?s' < mu _ ?s)%nat =>
      assert (ES : sum (mj s') (s_dls s') = sum (mj s) (s_dls s)) by (apply sum_mj_same; reflexivity) end.
  all: unfold mu, n_merge.
  all: try rewrite EP. all: try rewrite ER. all: try rewrite ES.
  all: scbn.
  all: try (unfold dl_meas, todo, stale in HS; scbn; phase_rw; cbn [working rank] in HS).
  all: try solve [lia].
  all: try solve [destruct (alook (s_seen s) j) eqn:EA; onames; cbn [b2n negb] in *; try congruence; try lia].
  all: repeat match goal with H : d_sig _ = _ |- _ => rewrite H in * end.
  all: try match goal with H : s_merge _ = _ |- _ => rewrite H in * end.
  all: try match goal with H : s_ready _ _ = _ |- _ => rewrite H in * end.
  all: cbn [is_some b2n] in *.
  all: try match goal with |- context [removeN ?j ?w] => pose proof (removeN_len j w) end.
  all: try solve [lia].
  all: try solve [destruct (alook (s_seen s) j) eqn:EA; onames; cbn [b2n negb] in *; try congruence; try lia].
  - (* notify, no change: administrative *)
    exfalso. cbn in AD. rewrite Heqo, Heqo0 in AD. unfold signals in AD. cbn [fst snd] in AD.
    rewrite Heqb0 in AD. discriminate.
  - exfalso. cbn in AD. rewrite Heqo, Heqo0 in AD. unfold signals in AD. cbn [fst snd] in AD.
    rewrite Heqb1 in AD. rewrite andb_false_r in AD. discriminate.
  - (* notify existing downloader *)
    match goal with |- (pw c ?s1 + _ + _ + _ + _ + _ < _)%nat =>
      assert (PW : (pw c s1 + 50 <= pw c s)%nat) end.
    { eapply pw_notify; try eassumption; try reflexivity.
      unfold signals. cbn [fst snd]. rewrite Heqb0, Heqb1. reflexivity. }
    destruct (d_sig d); cbn [b2n] in HS; lia.
  - (* notify, new downloader *)
    assert (NIN : ~ In j (s_dls s)) by (rewrite (i_dls _ _ I1); intros NIN; apply NIN; exact Heqo1).
    match goal with |- (pw c ?s1 + _ + _ + _ + _ + _ < _)%nat =>
      assert (PW : (pw c s1 + 50 <= pw c s)%nat);
      [| assert (SM : (sum (mj s1) (s_dls s ++ [j]) <= sum (mj s) (s_dls s) + 40)%nat);
         [| assert (NR : n_ready s1 = n_ready s) ] ] end.
    { eapply pw_notify; try eassumption; try reflexivity.
      unfold signals. cbn [fst snd]. rewrite Heqb0, Heqb1. reflexivity. }
    { rewrite sum_app. cbn [sum].
      match goal with |- (sum ?f _ + _ <= _)%nat => rewrite (sum_ext f (mj s) (s_dls s)) end.
      - fold (mj s). unfold mj at 2. scbn. rewrite upd_same. unfold dl_meas, todo, stale. cbn [d_sig d_last d_phase working rank b2n].
        destruct (alook (s_seen s) j); cbn [b2n negb]; try lia.
        match goal with |- context [b2n ?bb] => destruct bb end; cbn [b2n]; lia.
      - intros k Hk. unfold mj. scbn. rewrite upd_other; [reflexivity|]. intros ->. contradiction. }
    { unfold n_ready. scbn. rewrite count_app. cbn [count].
      destruct (s_ready s j) eqn:ER; [exfalso; apply NIN; eapply (i_ready_dl _ _ I1); eassumption|].
      cbn. lia. }
    lia.
  - (* load of a vanished blob *)
    apply negb_true_iff in IN.
    destruct (alook (s_seen s) j) eqn:EA; onames; cbn [b2n negb] in *; try congruence; try lia.
    all: exfalso; apply (synced_seen_bucket _ _ _ SY) in EA; congruence.
  - (* bottom *)
    apply orb_false_iff in Heqb. destruct Heqb as [_ EX]. rewrite EX.
    cbn in AD. rewrite Heql in AD. cbn in AD. rewrite andb_true_r in AD.
    destruct (s_wait s) as [|w0 wr]; cbn in *.
    + destruct (c_once c); cbn in *; [lia | discriminate].
    + destruct (c_once c); cbn; lia.
  - apply orb_false_iff in Heqb. destruct Heqb as [_ EX]. rewrite EX.
    cbn [admin] in AD. rewrite Heql in AD. rewrite andb_false_r in AD. cbn [negb] in AD. rewrite andb_true_r in AD.
    pose proof (filter_len_le (fun j => memN j (seen_insts s)) (s_wait s)) as LE.
    unfold still_seen in Heql. rewrite Heql in LE. cbn [length] in *.
    apply Nat.eqb_neq in AD. rewrite andb_false_r. lia.
Qed.

Lemma aset_keys m j x : NoDup (map fst m) -> NoDup (map fst (aset m j x)).
Proof.
  induction m as [|[k y] r IH]; cbn; intros ND.
  - repeat constructor. tauto.
  - inversion ND as [|? ? NI ND']; subst. destruct (j =? k) eqn:E; cbn.
    + constructor; assumption.
    + constructor; [|auto]. intros HI. apply NI.
      clear - HI E. induction r as [|[i z] r IH]; cbn in *.
      * destruct HI as [HI|[]]. subst. rewrite N.eqb_refl in E. discriminate.
      * destruct (j =? i) eqn:F; cbn in *; [exact HI|]. destruct HI as [HI|HI]; auto.
Qed.

Lemma scan_keys names : forall ign m ign' m',
  scan names ign m = (ign', m') -> NoDup (map fst m) -> NoDup (map fst m').
Proof.
  induction names as [|x r IH]; intros ign m ign' m' H ND; cbn in H.
  - inversion H; subst. exact ND.
  - destruct (mem x ign); [eapply IH; eassumption|].
    destruct (n_kind x); try (eapply IH; eassumption).
    eapply IH; [eassumption|]. apply aset_keys. exact ND.
Qed.

Lemma alook_of_in m j x : NoDup (map fst m) -> In (j, x) m -> alook m j = Some x.
Proof.
  induction m as [|[k y] r IH]; cbn; intros ND HI; [destruct HI|].
  inversion ND as [|? ? NI ND']; subst. destruct HI as [HI|HI].
  - inversion HI; subst. rewrite N.eqb_refl. reflexivity.
  - destruct (j =? k) eqn:E.
    + apply N.eqb_eq in E; subst. exfalso. apply NI. apply (in_map fst) in HI. exact HI.
    + auto.
Qed.

Lemma filter_none {A} (f : A -> bool) l : (forall e, In e l -> f e = false) -> filter f l = [].
Proof.
  induction l as [|e r IH]; cbn; intros H; [reflexivity|].
  rewrite (H e) by auto. apply IH. auto.
Qed.

(* administrative steps do not increase the measure *)
Lemma mu_admin c s l s' :
  inv c s -> synced s -> internal s l = true -> step c s l = Some s' ->
  admin c s l = true -> (mu c s' <= mu c s)%nat.
Proof.
  intros [I1 I2 I3 I4] SY IN H AD.
  pose proof (i_nodup _ _ I1) as ND.
  destruct l; cbn [admin] in AD; try discriminate AD.
  - (* a poll that finds nothing new *)
    cbn [internal] in IN. apply negb_true_iff in IN. subst incl.
    pose proof (admin_list_same s SY AD) as SC.
    assert (NS : forall e, In e (s_seen s) -> signals c s false e = false).
    { intros [j x] He. unfold signals. cbn [fst snd negb andb].
      assert (NK : NoDup (map fst (s_seen s))) by (eapply scan_keys; [exact SY | constructor]).
      pose proof (alook_of_in _ _ _ NK He) as AL.
      destruct (v_n _ _ I3 _ _ AL) as [A|[(i & m & A & _)|(A & _ & C)]].
      - rewrite A. assert (E : oname_eqb (Some x) (Some x) = true) by (apply oname_eqb_eq; reflexivity).
        rewrite E. reflexivity.
      - step_inv0 H; congruence.
      - subst j. rewrite N.eqb_refl, C. cbn. apply andb_false_r. }
    step_inv0 H; inversion SC; subst l a.
    + unfold mu. 
      match goal with |- (pw _ ?s1 + sum (mj ?s1) _ + 2 * n_ready ?s1 + n_merge ?s1 + _ + _ <= _)%nat =>
        assert (EP : pw c s1 = 0%nat);
        [| assert (ES : sum (mj s1) (s_dls s1) = sum (mj s) (s_dls s)) by (apply sum_mj_same; reflexivity);
           assert (ER : n_ready s1 = n_ready s) by (apply n_ready_same; reflexivity) ] end.
      { erewrite pw_of_pend; [|reflexivity]. scbn.
        match goal with |- context [filter ?f ?l] =>
          replace (filter f l) with (filter (signals c s false) l) by (apply filter_ext; intros; reflexivity) end.
        rewrite (filter_none _ _ NS). reflexivity. }
      rewrite EP, ES, ER. unfold n_merge. scbn. lia.
    + cbn in Heqb. discriminate.
  - (* a loop iteration of RunOnce that notifies nobody *)
    step_inv0 H; try rewrite Heqo in AD; try rewrite Heqo0 in AD; apply negb_true_iff in AD;
    unfold signals in AD; cbn [fst snd] in AD.
    3,4: rewrite Heqb0, Heqb1 in AD; discriminate AD.
    all: unfold mu;
      match goal with |- (pw _ ?s1 + sum (mj ?s1) _ + 2 * n_ready ?s1 + n_merge ?s1 + _ + _ <= _)%nat =>
        assert (EP : (pw c s1 <= pw c s)%nat);
        [| assert (ES : sum (mj s1) (s_dls s1) = sum (mj s) (s_dls s)) by (apply sum_mj_same; reflexivity);
           assert (ER : n_ready s1 = n_ready s) by (apply n_ready_same; reflexivity) ] end.
    1,3: erewrite pw_of_pend; [|reflexivity]; unfold pw; rewrite Heqo; scbn;
         match goal with Hp : s_pend ?s0 = Some (?b0, ?a0) |- context [filter ?f (adel ?a0 ?j0)] =>
           replace (filter f (adel a0 j0)) with (filter (signals c s0 b0) (adel a0 j0))
             by (apply filter_ext; intros; reflexivity);
           pose proof (filter_adel_le (signals c s0 b0) a0 j0) end; lia.
    all: rewrite ES, ER; unfold n_merge; scbn; lia.
  - (* a pass through the bottom of syncLoop that changes nothing *)
    apply andb_true_iff in AD. destruct AD as [A1 A2]. apply Nat.eqb_eq in A1. apply negb_true_iff in A2.
    unfold still_seen in A1. apply filter_len_eq in A1.
    step_inv0 H; unfold still_seen in Heql; rewrite A1 in Heql.
    all: apply orb_false_iff in Heqb; destruct Heqb as [_ EX].
    all: unfold mu;
      match goal with |- (pw _ ?s1 + sum (mj ?s1) _ + 2 * n_ready ?s1 + n_merge ?s1 + _ + _ <= _)%nat =>
        assert (EP : pw c s1 = pw c s) by (apply pw_same; reflexivity);
        assert (ES : sum (mj s1) (s_dls s1) = sum (mj s) (s_dls s)) by (apply sum_mj_same; reflexivity);
        assert (ER : n_ready s1 = n_ready s) by (apply n_ready_same; reflexivity) end.
    all: rewrite EP, ES, ER; unfold n_merge; scbn; rewrite EX, Heql; cbn [length].
    + rewrite A2. lia.
    + rewrite andb_false_r. lia.
Qed.

(* ------------------------------------------------------------------ *)
(* C16_progress, part 1: the measure                                    *)
(* ------------------------------------------------------------------ *)

Definition good (c : cfg) (s : state) : Prop := inv c s /\ synced s.

Theorem progress_measure c s l s' :
  good c s -> internal s l = true -> step c s l = Some s' ->
  good c s' /\
  (admin c s l = true -> (U s' <= U s)%nat /\ (mu c s' <= mu c s)%nat) /\
  (admin c s l = false -> lex_lt (meas c s') (meas c s)).
Proof.
  intros [I SY] IN H. split; [|split].
  - split; [eapply inv_step; eassumption | eapply synced_step; eassumption].
  - intros AD. split; [eapply U_step_le; eassumption | eapply mu_admin; eassumption].
  - intros AD. unfold lex_lt, meas. cbn [fst snd].
    destruct l; try (pose proof (U_step_le _ _ _ _ I SY IN H) as LE;
                     assert (LT : (mu c s' < mu c s)%nat) by (eapply mu_step; try eassumption; intros; discriminate);
                     lia).
    left. eapply U_list_lt; eassumption.
Qed.

Definition admin_succ (c : cfg) (s1 s2 : state) : Prop :=
  exists l, internal s1 l = true /\ admin c s1 l = true /\ step c s1 l = Some s2.
Definition useful_succ (c : cfg) (s1 s2 : state) : Prop :=
  exists l, internal s1 l = true /\ admin c s1 l = false /\ step c s1 l = Some s2.
(* any number of administrative steps, then one useful step *)
Definition macro (c : cfg) (s2 s1 : state) : Prop :=
  exists s1', clos_refl_trans_1n state (admin_succ c) s1 s1' /\ useful_succ c s1' s2.

Lemma admin_star c s1 s1' :
  clos_refl_trans_1n state (admin_succ c) s1 s1' -> good c s1 ->
  good c s1' /\ (U s1' <= U s1)%nat /\ (mu c s1' <= mu c s1)%nat.
Proof.
  induction 1 as [s|s sm s' (l & A & B & C) R IH]; intros G.
  - split; [exact G | lia].
  - destruct (progress_measure _ _ _ _ G A C) as (G' & AD & _).
    destruct (AD B) as [L1 L2]. destruct (IH G') as (G'' & L3 & L4). split; [exact G''|lia].
Qed.

Theorem progress_finite c s :
  good c s -> Acc (fun s2 s1 => good c s1 /\ macro c s2 s1) s.
Proof.
  remember (meas c s) as p eqn:E. revert s E.
  induction p as [p IH] using (well_founded_induction lex_lt_wf).
  intros s E G. constructor. intros s2 [_ (s1' & A & (l & B1 & B2 & B3))].
  destruct (admin_star _ _ _ A G) as (G1 & L1 & L2).
  destruct (progress_measure _ _ _ _ G1 B1 B3) as (G2 & _ & US).
  specialize (US B2).
  apply (IH (meas c s2)); [|reflexivity|exact G2].
  subst p. unfold lex_lt, meas in *. cbn [fst snd] in *. lia.
Qed.

(* ------------------------------------------------------------------ *)
(* C16_progress, part 2: what holds when no useful step is enabled      *)
(* ------------------------------------------------------------------ *)

Definition quiescent (c : cfg) (s : state) : Prop :=
  s_pend s = None /\
  forall l s', internal s l = true -> step c s l = Some s' -> admin c s l = true.

Lemma count_all_false f l : (forall j, In j l -> f j = false) -> count f l = 0%nat.
Proof. induction l as [|k r IH]; cbn; intros H; [reflexivity|]. rewrite (H k), IH; auto. Qed.

Lemma newest_vs_ok names ign j :
  (forall y, mem y ign = true -> n_kind y = KSnap -> n_ok y = false) ->
  match newest names ign j with
  | Some x => n_ok x = true -> newest_ok names j = Some x
  | None => newest_ok names j = None
  end.
Proof.
  intros HB. induction names as [|y r IH]; cbn; [reflexivity|].
  destruct (newest r ign j) as [z|].
  - intros Hz. rewrite (IH Hz). reflexivity.
  - rewrite IH. destruct (n_inst y =? j) eqn:E1; cbn; [|reflexivity].
    destruct (kind_eqb (n_kind y) KSnap) eqn:E2; cbn; [|reflexivity].
    destruct (mem y ign) eqn:E3; cbn.
    + apply kind_eqb_eq in E2. rewrite (HB y E3 E2). reflexivity.
    + intros ->. reflexivity.
Qed.

Lemma last_deliv_in d j x : last_deliv d j = Some x -> In x d.
Proof.
  induction d as [|y r IH]; cbn; [discriminate|].
  destruct (n_inst y =? j); intros H; [inversion H; auto | auto].
Qed.

Lemma memN_alook m j : memN j (map fst m) = true -> exists x, alook m j = Some x.
Proof.
  induction m as [|[k y] r IH]; cbn; [discriminate|].
  destruct (j =? k); cbn; [eauto | exact IH].
Qed.

Section Quiescent.
  Variable c : cfg.
  Variable s : state.
  Hypothesis G : good c s.
  Hypothesis ST : s_started s = true.
  Hypothesis EX : s_exited s = false.
  Hypothesis Q : quiescent c s.

  Let I := proj1 G.
  Let SY := proj2 G.
  Let I1 := inv_1 _ _ I.
  Let I2 := inv_2 _ _ I.
  Let I3 := inv_3 _ _ I.
  Let I4 := inv_4 _ _ I.

  Lemma q_no (l : label) : internal s l = true -> admin c s l = false -> step c s l = None.
  Proof.
    intros A B. destruct (step c s l) eqn:E; [|reflexivity].
    rewrite (proj2 Q _ _ A E) in B. discriminate.
  Qed.

  Lemma q_merge : s_merge s = None.
  Proof.
    pose proof (q_no LClose eq_refl eq_refl) as H. cbn in H. unfold close in H.
    destruct (s_merge s); [discriminate | reflexivity].
  Qed.

  Lemma q_ready j : s_ready s j = None.
  Proof.
    pose proof (q_no (LNext j) eq_refl eq_refl) as H. cbn in H. unfold next in H.
    rewrite q_merge, EX in H. destruct (s_ready s j); [discriminate | reflexivity].
  Qed.

  (* every downloader is idle, or blocked on a token *)
  Lemma q_phase j d : s_dl s j = Some d ->
    (d_phase d = Idle /\ d_sig d = false) \/
    (exists x, d_phase d = WantDl x /\ s_fdl s = 0%nat) \/
    (exists x, d_phase d = Loaded x /\ s_fdc s = 0%nat).
  Proof.
    intros E. destruct (d_phase d) eqn:P.
    - left. split; [reflexivity|]. pose proof (q_no (LWake j) eq_refl eq_refl) as H.
      cbn in H. unfold wake, with_dl in H. rewrite E, P in H. destruct (d_sig d); [discriminate|reflexivity].
    - exfalso. pose proof (q_no (LCheck j) eq_refl eq_refl) as H.
      cbn in H. unfold check, with_dl in H. rewrite E, P in H.
      destruct (alook (s_seen s) j); [destruct (oname_eqb _ _)|]; discriminate.
    - right. left. exists x. split; [reflexivity|]. pose proof (q_no (LAcqDl j) eq_refl eq_refl) as H.
      cbn in H. unfold acq_dl, with_dl in H. rewrite E, P in H. destruct (s_fdl s); [reflexivity|discriminate].
    - exfalso. destruct (mem x (s_bucket s)) eqn:M.
      + pose proof (q_no (LLoadOk j) eq_refl eq_refl) as H.
        cbn in H. unfold load_ok, with_dl in H. rewrite E, P, M in H. discriminate.
      + assert (A : internal s (LLoadFail j) = true).
        { cbn. unfold phase_of. rewrite E, P, M. reflexivity. }
        pose proof (q_no (LLoadFail j) A eq_refl) as H.
        cbn in H. unfold load_fail, with_dl in H. rewrite E, P in H. discriminate.
    - right. right. exists x. split; [reflexivity|]. pose proof (q_no (LAcqDc j) eq_refl eq_refl) as H.
      cbn in H. unfold acq_dc, with_dl in H. rewrite E, P in H. destruct (s_fdc s); [reflexivity|discriminate].
    - exfalso. pose proof (q_no (LDecode j) eq_refl eq_refl) as H.
      cbn in H. unfold decode, with_dl in H. rewrite E, P in H.
      destruct (n_ok x); [destruct (s_ready s j)|]; discriminate.
    - exfalso. pose proof (q_no (LRetry j) eq_refl eq_refl) as H.
      cbn in H. unfold retry, with_dl in H. rewrite E, P in H. discriminate.
  Qed.

  Lemma q_dc_free : s_fdc s = lim_dc c.
  Proof.
    pose proof (i_tok_dc _ _ I1) as T. unfold held_dc, n_ready, n_decoding, n_merge in T.
    rewrite q_merge in T. cbn in T.
    rewrite (count_all_false (fun j => is_some (s_ready s j))) in T by (intros; rewrite q_ready; reflexivity).
    rewrite (count_all_false (fun j => holds_dc (phase_of s j))) in T.
    - lia.
    - intros j Hj. unfold phase_of. destruct (s_dl s j) as [d|] eqn:E; [|reflexivity].
      destruct (q_phase j d E) as [[A _]|[(x & A & _)|(x & A & _)]]; rewrite A; reflexivity.
  Qed.

  Lemma q_no_loaded j d x : s_dl s j = Some d -> d_phase d <> Loaded x.
  Proof.
    intros E P. destruct (q_phase j d E) as [[A _]|[(y & A & _)|(y & A & B)]]; try congruence.
    pose proof q_dc_free. pose proof (eff_limit_pos (c_dc c)). unfold lim_dc in *. lia.
  Qed.

  Lemma q_dl_free : s_fdl s = lim_dl c.
  Proof.
    pose proof (i_tok_dl _ _ I1) as T. unfold held_dl in T.
    rewrite (count_all_false (fun j => holds_dl (phase_of s j))) in T; [lia|].
    intros j Hj. unfold phase_of. destruct (s_dl s j) as [d|] eqn:E; [|reflexivity].
    destruct (q_phase j d E) as [[A _]|[(x & A & _)|(x & A & _)]]; rewrite A; try reflexivity.
    exfalso. eapply q_no_loaded; eassumption.
  Qed.

  Lemma q_idle j d : s_dl s j = Some d -> d_phase d = Idle /\ d_sig d = false.
  Proof.
    intros E. destruct (q_phase j d E) as [A|[(x & A & B)|(x & A & _)]]; [exact A| |].
    - exfalso. pose proof q_dl_free. pose proof (eff_limit_pos (c_dl c)). unfold lim_dl in *. lia.
    - exfalso. eapply q_no_loaded; eassumption.
  Qed.

  Lemma q_cor_ign x : mem x (s_cor s) = true -> mem x (s_ign s) = true.
  Proof.
    assert (A : admin c s (LListOk false) = true).
    { destruct (step c s (LListOk false)) eqn:E.
      - apply (proj2 Q (LListOk false) _ eq_refl E).
      - exfalso. cbn in E. unfold list_ok in E. rewrite (proj1 Q), ST in E. cbn in E.
        destruct (scan _ _ _). discriminate. }
    cbn in A. apply forallb_mem_sub. exact A.
  Qed.

  (* the newest non-ignored name of j has been handed to the merge loop, and nothing of j after it *)
  Lemma q_seen_delivered j x :
    (j <> c_own c \/ s_ownskip s = false) -> alook (s_seen s) j = Some x ->
    last_deliv (s_deliv s) j = Some x /\ n_ok x = true.
  Proof.
    intros HJ E.
    assert (NT : s_notif s j = Some x).
    { destruct (v_n _ _ I3 _ _ E) as [A|[(i & m & A & _)|(A & B & _)]]; [exact A| |].
      - rewrite (proj1 Q) in A. discriminate.
      - destruct HJ; congruence. }
    destruct (v_k _ _ I3 _ _ HJ E NT) as (d & D & KO).
    destruct (q_idle _ _ D) as [P S]. unfold k_ok in KO. rewrite P, S in KO.
    destruct KO as [KO|KO]; [discriminate|].
    assert (LD : last_deliv (s_deliv s) j = Some x).
    { destruct (v_d _ _ I3 _ _ _ D KO) as [A|[A|A]]; [| |exact A].
      - exfalso. apply q_cor_ign in A. rewrite synced_seen in E by exact SY.
        apply newest_some in E. destruct E as (_ & _ & _ & E). congruence.
      - rewrite q_ready in A. discriminate. }
    split; [exact LD|]. apply (q_deliv _ I2). eapply last_deliv_in. exact LD.
  Qed.

  Theorem quiescent_delivered j x :
    (j <> c_own c \/ s_ownskip s = false) ->
    newest_ok (s_bucket s) j = Some x -> last_deliv (s_deliv s) j = Some x.
  Proof.
    intros HJ E.
    assert (HB : forall y, mem y (s_ign s) = true -> n_kind y = KSnap -> n_ok y = false).
    { intros y A B. destruct (q_ign _ I2 _ A) as [C|C]; [congruence|]. apply (q_cor _ I2 _ C). }
    pose proof (newest_vs_ok (s_bucket s) (s_ign s) j HB) as NV.
    destruct (newest (s_bucket s) (s_ign s) j) as [z|] eqn:EN.
    - rewrite <- synced_seen in EN by exact SY.
      destruct (q_seen_delivered j z HJ EN) as [A B]. rewrite (NV B) in E. inversion E; subst. exact A.
    - congruence.
  Qed.

  (* run-once: a quiescent state with an un-emptied waiting set is impossible *)
  Theorem quiescent_once :
    c_once c = true -> (memN (c_own c) (s_wait s) = true -> s_ownskip s = false) -> False.
  Proof.
    intros ON OS.
    assert (A : admin c s LBottom = true).
    { destruct (step c s LBottom) eqn:E.
      - apply (proj2 Q LBottom _ eq_refl E).
      - exfalso. cbn in E. unfold bottom in E. rewrite q_merge, ST, EX in E. cbn in E. discriminate. }
    cbn in A. rewrite ON in A. apply andb_true_iff in A. destruct A as [A1 A2].
    destruct (still_seen s (s_wait s)) as [|j r] eqn:W; [discriminate|].
    assert (HJ : In j (still_seen s (s_wait s))) by (rewrite W; left; reflexivity).
    unfold still_seen in HJ. apply filter_In in HJ. destruct HJ as [H1 H2].
    apply memN_alook in H2. destruct H2 as (x & H2).
    assert (HO : j <> c_own c \/ s_ownskip s = false).
    { destruct (N.eq_dec j (c_own c)) as [->|NE]; [right; apply OS; apply memN_In; exact H1 | left; exact NE]. }
    destruct (q_seen_delivered j x HO H2) as [B _].
    rewrite (o_nodeliv _ _ I4 _ H1) in B. discriminate.
  Qed.
End Quiescent.
