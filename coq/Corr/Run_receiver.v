(* Corr/Run_receiver.v — correspondence runner for syncer/receiver (+ climit, Update.Close, InstanceSet).

   The Go harness drives the real Receiver over a gating fake backend.  It controls: RunOnce calls and
   their List result, the outcome of every pending Load, Next/Close, the bucket, and the bottom-of-loop
   bookkeeping of syncLoop (real syncer.InstanceSet).  Everything else — the notification loop of RunOnce,
   the downloaders waking up, checking, acquiring tokens, decoding, sleeping and retrying — runs by itself
   until all goroutines are blocked ("quiescence", read off the goroutine dump).  After every action the
   harness records what is observable through the exported API and the climit gauges.

   The model side replays the actions on a SET of candidate model states: after each action every
   candidate is run to quiescence in all ways that differ in who wins a token ([settle]; steps that
   never take a token commute with everything and are taken eagerly), and candidates whose observation
   differs from the recorded one are dropped.  A case agrees iff a candidate survives to the end. *)
From Coq Require Import List NArith ZArith Bool.
From LS Require Import Receiver.Model Corr.Obs.
Import ListNotations.
Open Scope N_scope.

(* ---------- actions and observations ---------- *)

Inductive action :=
| AList (incl : bool)              (* RunOnce(ctx, incl), List succeeds *)
| AListFail (incl : bool)          (* RunOnce(ctx, incl), List fails *)
| ALoadOk (j seq : N)              (* release the pending Load of (j, seq) with the blob stored under that name *)
| ALoadFail (j seq : N)            (* release it with an error (transient, or not found when it was deleted) *)
| ANext (j seq : N)                (* Next() returned the snapshot (j, seq) *)
| ANextNone                        (* Next() returned "" *)
| AClose                           (* update.Close() on the snapshot taken last *)
| ABottom                          (* the CleanDisappeared / OnlyOnce part of syncLoop *)
| APublish (j : N) (ok : bool) (k : kind)
| ADelete (j seq : N).

Record robs := mkObs {
  o_seen : list N;         (* SeenInstances(), sorted *)
  o_has : bool;            (* HasSnapshots() *)
  o_loads : list (N * N);  (* Load calls blocked on the gate: (instance, seq), sorted *)
  o_adl : N; o_adc : N;    (* lightningstream_climit_active {download, decompress} *)
  o_wdl : N; o_wdc : N;    (* lightningstream_climit_waiting *)
  o_wait : list N;         (* InstanceSet.List() *)
  o_exit : bool            (* OnlyOnce && Done() was reached *)
}.

Inductive rcase := RCase (c : cfg) (acts : list (action * robs)).

(* ---------- helpers ---------- *)

Fixpoint insN (x : N) (l : list N) : list N :=
  match l with [] => [x] | y :: r => if x <=? y then x :: l else y :: insN x r end.
Definition sortN (l : list N) : list N := fold_right insN [] l.
Fixpoint insP (x : N * N) (l : list (N * N)) : list (N * N) :=
  match l with
  | [] => [x]
  | y :: r => if (fst x <? fst y) || ((fst x =? fst y) && (snd x <=? snd y)) then x :: l else y :: insP x r
  end.
Definition sortP (l : list (N * N)) : list (N * N) := fold_right insP [] l.

Fixpoint listN_eqb (a b : list N) : bool :=
  match a, b with
  | [], [] => true
  | x :: r, y :: q => (x =? y) && listN_eqb r q
  | _, _ => false
  end.
Fixpoint listP_eqb (a b : list (N * N)) : bool :=
  match a, b with
  | [], [] => true
  | x :: r, y :: q => (fst x =? fst y) && (snd x =? snd y) && listP_eqb r q
  | _, _ => false
  end.

Definition obs_of (c : cfg) (s : state) : robs :=
  mkObs (sortN (map fst (s_seen s))) (s_has s)
        (sortP (flat_map (fun j => match phase_of s j with HaveDl x => [(j, n_seq x)] | _ => [] end) (s_dls s)))
        (N.of_nat (lim_dl c - s_fdl s)) (N.of_nat (lim_dc c - s_fdc s))
        (N.of_nat (count (fun j => match phase_of s j with WantDl _ => true | _ => false end) (s_dls s)))
        (N.of_nat (count (fun j => match phase_of s j with Loaded _ => true | _ => false end) (s_dls s)))
        (sortN (s_wait s)) (s_exited s).

Definition robs_eqb (a b : robs) : bool :=
  listN_eqb (o_seen a) (o_seen b) && Bool.eqb (o_has a) (o_has b) && listP_eqb (o_loads a) (o_loads b)
  && (o_adl a =? o_adl b) && (o_adc a =? o_adc b) && (o_wdl a =? o_wdl b) && (o_wdc a =? o_wdc b)
  && listN_eqb (o_wait a) (o_wait b) && Bool.eqb (o_exit a) (o_exit b).

(* ---------- branch ids of the model paths ---------- *)

Fixpoint scan_branches (names ign : list name) : list N :=
  match names with
  | [] => []
  | x :: r =>
      if mem x ign then 4 :: scan_branches r ign
      else match n_kind x with
           | KBad => 5 :: scan_branches r (x :: ign)
           | KOther => 6 :: scan_branches r ign
           | KSnap => 7 :: scan_branches r ign
           end
  end.

Definition lbranch (c : cfg) (s : state) (l : label) : list N :=
  match l with
  | LListOk _ => (if s_started s then 1 else 2) :: scan_branches (s_bucket s) (add_all (s_cor s) (s_ign s))
  | LListFail => [3]
  | LNotify j =>
      match s_pend s with
      | Some (incl, m) =>
          match alook m j with
          | Some x => if oname_eqb (Some x) (s_notif s j) then [10]
                      else if negb incl && (j =? c_own c) && negb (notif_ignored s j) then [11]
                      else (if negb incl && (j =? c_own c) then [14] else [])
                           ++ match s_dl s j with Some _ => [12] | None => [13] end
          | None => []
          end
      | None => []
      end
  | LWake _ => [20]
  | LCheck j =>
      match s_dl s j, alook (s_seen s) j with
      | Some d, Some x => if oname_eqb (Some x) (d_last d) then [22] else [23]
      | _, _ => [21]
      end
  | LAcqDl _ => [24]
  | LLoadOk _ => [25]
  | LLoadFail j => match phase_of s j with HaveDl x => if mem x (s_bucket s) then [27] else [26] | _ => [] end
  | LAcqDc _ => [28]
  | LDecode j =>
      match phase_of s j with
      | HaveDc x => if n_ok x then (match s_ready s j with Some _ => [30] | None => [29] end) else [31]
      | _ => []
      end
  | LRetry _ => [32]
  | LNext _ => [33]
  | LClose => [35]
  | LBottom => match still_seen s (s_wait s) with [] => [38] | _ => [39] end
  | LPublish _ _ _ => [36]
  | LDelete _ => [37]
  end.
Definition rbranches_all : list N :=
  [1;2;3;4;5;6;7;10;11;12;13;14;20;21;22;23;24;25;26;27;28;29;30;31;32;33;34;35;36;37;38;39;40;41].

(* ---------- candidates ---------- *)

Definition cand := (state * list N)%type.   (* model state, branch ids seen on the way *)

Definition add_cov (ids cov : list N) : list N := fold_left (fun a x => ins x a) ids cov.

Definition stepc (c : cfg) (l : label) (x : cand) : option cand :=
  match step c (fst x) l with
  | Some s' => Some (s', add_cov (lbranch c (fst x) l) (snd x))
  | None => None
  end.

(* a key that identifies a candidate up to what can differ between candidates of one history *)
Definition enc_name (o : option name) : N := match o with Some x => n_seq x + 1 | None => 0 end.
Definition enc_phase (p : phase) : list N :=
  match p with
  | Idle => [0; 0] | Check => [1; 0] | WantDl x => [2; n_seq x] | HaveDl x => [3; n_seq x]
  | Loaded x => [4; n_seq x] | HaveDc x => [5; n_seq x] | Sleeping => [6; 0]
  end.
Definition key_of (s : state) : list N :=
  flat_map (fun j =>
      match s_dl s j with
      | Some d => [j; (if d_sig d then 1 else 0); enc_name (d_last d)] ++ enc_phase (d_phase d)
                  ++ [enc_name (s_ready s j); enc_name (s_notif s j)]
      | None => [j]
      end) (sortN (s_dls s))
  ++ [N.of_nat (s_fdl s); N.of_nat (s_fdc s); enc_name (s_merge s)]
  ++ sortN (map n_seq (s_cor s)) ++ [0] ++ sortN (map n_seq (s_ign s)) ++ [0]
  ++ flat_map (fun e => [fst e; n_seq (snd e)]) (s_seen s).

Fixpoint has_key (k : list N) (l : list (list N * cand)) : bool :=
  match l with [] => false | (k', _) :: r => listN_eqb k k' || has_key k r end.
Fixpoint dedup_aux (l : list cand) (acc : list (list N * cand)) : list (list N * cand) :=
  match l with
  | [] => acc
  | x :: r => let k := key_of (fst x) in
              if has_key k acc then dedup_aux r acc else dedup_aux r ((k, x) :: acc)
  end.
Definition dedup (l : list cand) : list cand := map snd (dedup_aux l []).

(* steps that never take a token: taken eagerly, in a fixed order *)
Definition local_labels (s : state) : list label :=
  (match s_pend s with Some (_, (j, _) :: _) => [LNotify j] | _ => [] end)
  ++ flat_map (fun j => [LWake j; LCheck j; LDecode j; LRetry j]) (s_dls s).
Definition acq_labels (s : state) : list label :=
  flat_map (fun j => [LAcqDl j; LAcqDc j]) (s_dls s).

Fixpoint first_enabled (c : cfg) (x : cand) (ls : list label) : option cand :=
  match ls with
  | [] => None
  | l :: r => match stepc c l x with Some y => Some y | None => first_enabled c x r end
  end.
Definition all_enabled (c : cfg) (x : cand) (ls : list label) : list cand :=
  flat_map (fun l => match stepc c l x with Some y => [y] | None => [] end) ls.

(* all quiescent states reachable through uncontrolled steps; [] when the fuel runs out *)
Fixpoint settle (fuel : nat) (c : cfg) (x : cand) : list cand :=
  match fuel with
  | O => []
  | S f =>
      match first_enabled c x (local_labels (fst x)) with
      | Some y => settle f c y
      | None =>
          match all_enabled c x (acq_labels (fst x)) with
          | [] => [x]
          | ys => dedup (flat_map (settle f c) ys)
          end
      end
  end.

Definition find_bucket (s : state) (j seq : N) : option name :=
  find (fun x => (n_inst x =? j) && (n_seq x =? seq)) (s_bucket s).

Definition all_ready_none (s : state) : bool :=
  forallb (fun j => match s_ready s j with Some _ => false | None => true end) (s_dls s).

(* the controlled part of an action *)
Definition act (c : cfg) (a : action) (x : cand) : list cand :=
  let s := fst x in
  let one l := match stepc c l x with Some y => [y] | None => [] end in
  match a with
  | AList incl => one (LListOk incl)
  | AListFail _ => one LListFail
  | ALoadOk j seq =>
      match phase_of s j with HaveDl n => if n_seq n =? seq then one (LLoadOk j) else [] | _ => [] end
  | ALoadFail j seq =>
      match phase_of s j with HaveDl n => if n_seq n =? seq then one (LLoadFail j) else [] | _ => [] end
  | ANext j seq =>
      match s_ready s j with Some n => if n_seq n =? seq then one (LNext j) else [] | None => [] end
  | ANextNone => if all_ready_none s then [(s, add_cov [34] (snd x))] else []
  | AClose => one LClose
  | ABottom => one LBottom
  | APublish j ok k => one (LPublish j ok k)
  | ADelete j seq => match find_bucket s j seq with Some n => one (LDelete n) | None => [] end
  end.

Definition FUEL : nat := 400.

Definition advance (c : cfg) (cands : list cand) (a : action) (o : robs) : list cand :=
  let after := dedup (flat_map (fun x => flat_map (settle FUEL c) (act c a x)) cands) in
  filter (fun x => robs_eqb (obs_of c (fst x)) o) after.

Fixpoint replay (c : cfg) (cands : list cand) (acts : list (action * robs)) : list cand :=
  match acts with
  | [] => cands
  | (a, o) :: r =>
      match advance c cands a o with
      | [] => []
      | cs => replay c cs r
      end
  end.

Definition cov_limits (c : cfg) : list N :=
  [(if (c_dl c <? 1)%Z then 40 else 41); (if (c_dc c <? 1)%Z then 40 else 41)].

Definition start (c : cfg) : list cand := [(init c, add_cov (cov_limits c) [])].

Definition rcheck (r : rcase) : bool :=
  match r with RCase c acts => match replay c (start c) acts with [] => false | _ => true end end.

Definition rcov (r : rcase) : list N :=
  match r with RCase c acts => match replay c (start c) acts with [] => [] | x :: _ => snd x end end.

Definition mismatches (l : list rcase) : list N := mism rcheck l.
Definition coverage (l : list rcase) : list N :=
  fold_left (fun acc r => add_cov (rcov r) acc) l [].

(* for replays: index of the first action no candidate survives, and what the model would have observed *)
Fixpoint explain_aux (c : cfg) (cands : list cand) (acts : list (action * robs)) (i : N) : N * list robs :=
  match acts with
  | [] => (i, [])
  | (a, o) :: r =>
      match advance c cands a o with
      | [] => (i, map (fun x => obs_of c (fst x))
                      (dedup (flat_map (fun x => flat_map (settle FUEL c) (act c a x)) cands)))
      | cs => explain_aux c cs r (i + 1)
      end
  end.
Definition explain (r : rcase) : N * list robs :=
  match r with RCase c acts => explain_aux c (start c) acts 0 end.
