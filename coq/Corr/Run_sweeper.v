(* Corr/Run_sweeper.v — correspondence runner for the tomb sweeper (syncer/sweeper/sweeper.go)
   and the LimitScanner resume rule (lmdbenv/limitscanner/scanner.go). *)
From LS Require Import Base.Bytes Base.Res Header.Model Retention.Model Sweeper.Model Corr.Obs.
Open Scope N_scope.

(* one slice: the DBI afterwards, the cursor (Key(), Val() when the scan stopped), limitReached *)
Inductive sobs :=
| SOk (db : dbi) (last : option (bytes * bytes)) (lr : bool)
| SErr (cls : N).

(* a pass: 0 = returned nil, 100 = still looping when the schedule ran out, else error class;
   and the environment afterwards *)
Inductive eobs := EObs (cls : N) (e : env).

Inductive scase :=
(* one write transaction with limitscanner.NewLimitScanner{LimitRecords: lim, Last: last} and the
   sweeper's loop body, on a real LMDB holding [db] *)
| SSlice (cutoff : N) (last : option (bytes * bytes)) (lim : nat) (db : dbi) (o : sobs)
(* a whole pass over the environment.  tag 1: the harness's replay of the sweep loop with
   LimitRecords slices and application transactions in between; tag 2: the real Sweeper
   (VerifSweepOnce), LockDuration 0 or 1ns (limit at every 1000th record), quiescent application *)
| SPass (tag : N) (cutoff : N) (native : bool) (sc : sched) (e : env) (o : eobs).

(* compact literal for the large DBIs of the real-Sweeper cases: keys "k%06d" of an index, values
   from a table *)
Definition dec6 (n : N) : bytes := map (fun p => 48 + (n / p) mod 10) [100000; 10000; 1000; 100; 10; 1].
Definition big_key (i : N) : bytes := 107 :: dec6 i.
Definition big_dbi (tbl : list bytes) (recs : list (N * N)) : dbi :=
  map (fun p => (big_key (fst p), nth (N.to_nat (snd p)) tbl [])) recs.

Fixpoint dbi_eqb (a b : dbi) : bool :=
  match a, b with
  | [], [] => true
  | (k, v) :: a', (k', v') :: b' => beqb k k' && beqb v v' && dbi_eqb a' b'
  | _, _ => false
  end.
Fixpoint env_eqb (a b : env) : bool :=
  match a, b with
  | [], [] => true
  | (d, x) :: a', (d', x') :: b' => beqb d d' && dbi_eqb x x' && env_eqb a' b'
  | _, _ => false
  end.
Definition cur_eqb (a b : option (bytes * bytes)) : bool :=
  match a, b with
  | None, None => true
  | Some (k, v), Some (k', v') => beqb k k' && beqb v v'
  | _, _ => false
  end.

Definition model_slice (cutoff : N) last lim db : sobs :=
  match slice bcmp cutoff last lim db with
  | Ok (db', last', lr) => SOk db' last' lr
  | Err x => SErr (err_class x)
  | Panic => SErr 98
  | OutOfFuel => SErr 99
  end.

Definition model_pass (cutoff : N) native sc e : eobs :=
  match fst (sweep_dbis bcmp cutoff native (map fst e) sc e) with
  | Done e' _ => EObs 0 e'
  | Failed x e' => EObs (err_class x) e'
  | Fuel e' => EObs 100 e'
  end.

Definition sobs_eqb (a b : sobs) : bool :=
  match a, b with
  | SOk d l r, SOk d' l' r' => dbi_eqb d d' && cur_eqb l l' && Bool.eqb r r'
  | SErr x, SErr y => x =? y
  | _, _ => false
  end.
Definition eobs_eqb (a b : eobs) : bool :=
  match a, b with EObs x e, EObs y e' => (x =? y) && env_eqb e e' end.

Definition scheck (c : scase) : bool :=
  match c with
  | SSlice cutoff last lim db o => sobs_eqb (model_slice cutoff last lim db) o
  | SPass _ cutoff native sc e o => eobs_eqb (model_pass cutoff native sc e) o
  end.

(* ---- coverage ---- *)
(* 1..5  resume path (resume_branch + 1): first slice / nothing left / unchanged, skipped /
         same key, value changed / last key gone
   11 live record scanned, 12 young marker, 13 expired marker, 14 unparsable value
   15 marker with timestamp = cutoff, 16 marker with timestamp = cutoff - 1
   21 slice stopped at its limit, 22 slice ran to the end, 23 limit reached exactly at the end
   31 native mode DBI, 32 non-native "_sync" DBI swept, 33 non-native DBI skipped
   41 pass returned nil, 42 pass failed, 43 still looping (stale limitReached retry), 44 retry of a
      failed transaction because of the stale limitReached
   51 slice observed through the real Sweeper, 52 through the replayed loop *)
Definition bits_ids (b : N) : list N :=
  (if N.testbit b 0 then [11] else []) ++ (if N.testbit b 1 then [12] else []) ++
  (if N.testbit b 2 then [13] else []) ++ (if N.testbit b 3 then [14] else []).

Definition boundary_ids (cutoff : N) (s : dbi) : list N :=
  flat_map (fun p => match parse (snd p) with
                     | Ok (h, _) => if is_deleted (h_flags h) then
                                      (if h_ts h =? cutoff then [15] else if h_ts h + 1 =? cutoff then [16] else [])
                                    else []
                     | _ => [] end) s.

Definition slice_ids (cutoff : N) last (lim : nat) (db : dbi) : list N :=
  let s := resume bcmp last db in
  [resume_branch bcmp last db + 1] ++ bits_ids (scan_kinds cutoff lim 0 s) ++ boundary_ids cutoff (firstn (if Nat.eqb lim 0 then length s else lim) s) ++
  match slice bcmp cutoff last lim db with
  | Ok (_, _, true) => if Nat.leb (length s) lim then [21; 23] else [21]
  | Ok (_, _, false) => [22]
  | _ => []
  end.

(* twin of dbi_pass collecting the ids of every slice *)
Fixpoint dbi_pass_ids (cutoff : N) (d : bytes) (sc : sched) (last : option (bytes * bytes)) (lr : bool)
  (e : env) : list N :=
  match sc with
  | [] => [43]
  | (lim, ops) :: sc' =>
      let ids := match env_get d e with Some db => slice_ids cutoff last lim db | None => [] end in
      match eslice bcmp cutoff d last lim e with
      | Ok (e', last', lr') =>
          if lr' then ids ++ dbi_pass_ids cutoff d sc' last' true (apply_ops bcmp ops e') else ids
      | Err x => if lr then ids ++ [44] ++ dbi_pass_ids cutoff d sc' last true (apply_ops bcmp ops e) else ids
      | _ => ids
      end
  end.

Fixpoint sweep_ids (cutoff : N) (native : bool) (names : list bytes) (sc : sched) (e : env) : list N :=
  match names with
  | [] => [41]
  | d :: names' =>
      if selected native d then
        (if native then [31] else [32]) ++ dbi_pass_ids cutoff d sc None false e ++
        match dbi_pass bcmp cutoff d sc None false e with
        | (Done e' sc', _) => sweep_ids cutoff native names' sc' e'
        | (Failed _ _, _) => [42]
        | (Fuel _, _) => []
        end
      else [33] ++ sweep_ids cutoff native names' sc e
  end.

Definition sbranches (c : scase) : list N :=
  match c with
  | SSlice cutoff last lim db _ => slice_ids cutoff last lim db
  | SPass tag cutoff native sc e _ => [if tag =? 2 then 51 else 52] ++ sweep_ids cutoff native (map fst e) sc e
  end.
Definition sbranches_all : list N :=
  [1; 2; 3; 4; 5; 11; 12; 13; 14; 15; 16; 21; 22; 23; 31; 32; 33; 41; 42; 43; 44; 51; 52].

Definition mismatches (l : list scase) : list N := mism scheck l.
Definition coverage (l : list scase) : list N :=
  fold_left (fun acc x => fold_left (fun a b => ins b a) (sbranches x) acc) l [].
