(* Corr/Obs.v — observation encoding shared by the correspondence runners.
   The Go harness canonicalises what the implementation did into these values. *)
From LS Require Import Base.Bytes Base.Res.
Open Scope N_scope.

(* error classes, as the harness maps Go errors *)
Definition err_class (e : err) : N :=
  match e with
  | ETooShort => 1 | EVersion => 2 | ENotSorted => 3 | ERefused => 4
  | EMalformed => 5 | ECancelled => 6 | EOther => 7
  end.

Inductive obs :=
| OErr (cls : N)        (* an error of that class *)
| OPanic                (* the implementation panicked *)
| OTimeout              (* did not return *)
| OBytes (b : bytes).   (* returned these bytes (nil and empty are both []) *)

Definition obs_of_res (r : res bytes) : obs :=
  match r with
  | Ok b => OBytes b
  | Err e => OErr (err_class e)
  | Panic => OPanic
  | OutOfFuel => OTimeout
  end.

Definition obs_eqb (a b : obs) : bool :=
  match a, b with
  | OErr x, OErr y => x =? y
  | OPanic, OPanic => true
  | OTimeout, OTimeout => true
  | OBytes x, OBytes y => beqb x y
  | _, _ => false
  end.

(* indices of the cases on which [ok] is false *)
Fixpoint mism_aux {A} (ok : A -> bool) (i : N) (l : list A) : list N :=
  match l with
  | [] => []
  | c :: l' => if ok c then mism_aux ok (i + 1) l' else i :: mism_aux ok (i + 1) l'
  end.
Definition mism {A} (ok : A -> bool) (l : list A) : list N := mism_aux ok 0 l.

(* sorted, de-duplicated list of branch ids hit *)
Fixpoint ins (x : N) (l : list N) : list N :=
  match l with
  | [] => [x]
  | y :: l' => if x <? y then x :: l else if x =? y then l else y :: ins x l'
  end.
Definition cover {A} (br : A -> N) (l : list A) : list N := fold_left (fun acc c => ins (br c) acc) l [].
