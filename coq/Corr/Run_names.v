(* Corr/Run_names.v — correspondence runner for snapshot/name.go and the instance-name sanitiser. *)
From LS Require Import Base.Bytes Base.Res Names.Civil Names.Model Corr.Obs.
Open Scope N_scope.

(* what Go's ParseName returned, flattened. The time.Time is reported as (Unix seconds, nanosecond
   part) because instants outside 1677..2262 do not fit UnixNano *)
Inductive pobs :=
| PErr                      (* any error (the property only says "rejected") *)
| PPanic
| POk (full base ext kind syncer inst gen tss : bytes) (sec nsec : Z) (extra : list bytes).

(* the fields of a NameInfo that BuildName reads *)
Record bargs := mkB {
  b_db : bytes; b_inst : bytes; b_gen : bytes; b_tss : bytes; b_t : Z; b_extra : list bytes; b_ext : bytes }.
Definition info_of (a : bargs) : name_info :=
  mkNI [] [] (b_ext a) [] (b_db a) (b_inst a) (b_gen a) (b_tss a) (b_t a) (b_extra a).

Inductive ncase :=
| NTs (t : Z) (o : bytes)               (* NameTimestamp(time.Unix(0, t)) *)
| NTsNano (u : N) (o : bytes)           (* NameTimestampFromNano(u) *)
| NBuild (a : bargs) (o : bytes)        (* NameInfo{...}.BuildName() *)
| NParse (name : bytes) (o : pobs)      (* ParseName(name) *)
| NSan (s : bytes) (o : bytes)          (* the instanceID sanitiser on a non-empty configured name *)
| NPair (a b : bargs) (c : N).          (* bytes.Compare of the two built names: 0 less, 1 equal, 2 greater *)

Fixpoint lbeqb (a b : list bytes) : bool :=
  match a, b with
  | [], [] => true
  | x :: a', y :: b' => beqb x y && lbeqb a' b'
  | _, _ => false
  end.

Definition pobs_eqb (a b : pobs) : bool :=
  match a, b with
  | PErr, PErr => true
  | PPanic, PPanic => true
  | POk f1 b1 e1 k1 s1 i1 g1 t1 sec1 ns1 x1, POk f2 b2 e2 k2 s2 i2 g2 t2 sec2 ns2 x2 =>
      beqb f1 f2 && beqb b1 b2 && beqb e1 e2 && beqb k1 k2 && beqb s1 s2 && beqb i1 i2 && beqb g1 g2
      && beqb t1 t2 && (sec1 =? sec2)%Z && (ns1 =? ns2)%Z && lbeqb x1 x2
  | _, _ => false
  end.

Definition model_parse_name (name : bytes) : pobs :=
  match parse_name name with
  | Ok x => POk (ni_full x) (ni_base x) (ni_ext x) (ni_kind x) (ni_syncer x) (ni_inst x) (ni_gen x)
                (ni_tss x) (ni_ts x / NS_SEC)%Z (ni_ts x mod NS_SEC)%Z (ni_extra x)
  | Err _ => PErr
  | _ => PPanic
  end.

Definition cmp_code (c : comparison) : N := match c with Lt => 0 | Eq => 1 | Gt => 2 end.

Definition ncheck (c : ncase) : bool :=
  match c with
  | NTs t o => beqb (name_timestamp t) o
  | NTsNano u o => beqb (name_timestamp_from_nano u) o
  | NBuild a o => beqb (build_name (info_of a)) o
  | NParse name o => pobs_eqb (model_parse_name name) o
  | NSan s o => beqb (instance_id s []) o
  | NPair a b c => cmp_code (bcmp (build_name (info_of a)) (build_name (info_of b))) =? c
  end.

(* highest-numbered rune class met while sanitising (0 safe only, 1 unsafe ASCII, 2..4 = 2..4-byte
   rune, 5 invalid lead byte, 6 truncated / bad continuation) *)
Fixpoint san_class (skip : nat) (s : bytes) : N :=
  match s with
  | [] => 0
  | c :: r =>
      match skip with
      | S k => san_class k r
      | O => if is_safe c then san_class 0 r
             else
               let '(w, b) := utf8_width_br s in
               let k := match b with 0 => 1 | 1 => 2 | 2 => 3 | 3 => 4 | 4 => 5 | _ => 6 end in
               N.max k (san_class (w - 1) r)
      end
  end.

(* branches of the model exercised *)
Definition nbranch (c : ncase) : N :=
  match c with
  | NParse name _ => snd (parse_name_br name)
  | NTs t _ => if (t <? 0)%Z then 40 else 41
  | NTsNano u _ => if u <? two63 then 42 else 43
  | NBuild a _ =>
      match b_tss a, b_extra a with
      | [], [] => 44 | [], _ :: _ => 45 | _ :: _, [] => 46 | _ :: _, _ :: _ => 47
      end
  | NSan s _ => 50 + san_class 0 s
  | NPair a b _ => 60 + cmp_code (bcmp (build_name (info_of a)) (build_name (info_of b)))
  end.
Definition nbranches_all : list N :=
  [1;2;3;4;5; 13;14;15;16;17;18;19;20;21;22;23;24;25;26;27;28;29;
   40;41;42;43;44;45;46;47; 50;51;52;53;54;55;56; 60;61;62].

Definition mismatches (l : list ncase) : list N := mism ncheck l.
Definition coverage (l : list ncase) : list N := cover nbranch l.

(* what the model computes for a case (for the replay file of a mismatch) *)
Inductive mout := MBytes (o : bytes) | MParse (o : pobs) | MCmp (c : N).
Definition model_out (c : ncase) : mout :=
  match c with
  | NTs t _ => MBytes (name_timestamp t)
  | NTsNano u _ => MBytes (name_timestamp_from_nano u)
  | NBuild a _ => MBytes (build_name (info_of a))
  | NParse name _ => MParse (model_parse_name name)
  | NSan s _ => MBytes (instance_id s [])
  | NPair a b _ => MCmp (cmp_code (bcmp (build_name (info_of a)) (build_name (info_of b))))
  end.
