(* Corr/Run_dupsort.v — correspondence runner for the one-entry functions of syncer/dupsorthack.go. *)
From LS Require Import Base.Bytes Base.Res Merge.Model DupSort.Model Corr.Obs.
Open Scope N_scope.

(* dupsort one-entry functions *)
Inductive kobs := KErr (cls : N) | KPanic | KOk (e : kv).
Inductive dcase :=
| DEnc (e : kv) (o : kobs)
| DDec (e : kv) (o : kobs)
| DEncList (l : list kv) (o : option (list kv)).   (* None = refused *)

Definition kv_eqb (a b : kv) : bool :=
  beqb (k_key a) (k_key b) && beqb (k_val a) (k_val b) && (k_ts a =? k_ts b) && (k_flags a =? k_flags b).
Definition kobs_of (r : res kv) : kobs := match r with Ok e => KOk e | Err x => KErr (err_class x) | _ => KPanic end.
Definition kobs_eqb (a b : kobs) : bool :=
  match a, b with
  | KErr x, KErr y => x =? y | KPanic, KPanic => true | KOk x, KOk y => kv_eqb x y | _, _ => false end.
Fixpoint kvl_eqb (a b : list kv) : bool :=
  match a, b with
  | [], [] => true | x :: a', y :: b' => kv_eqb x y && kvl_eqb a' b' | _, _ => false end.

Definition dcheck (c : dcase) : bool :=
  match c with
  | DEnc e o => kobs_eqb (kobs_of (enc_one e)) o
  | DDec e o => kobs_eqb (kobs_of (dec_one e)) o
  | DEncList l o => match hack_encode l, o with
                    | Ok r, Some r' => kvl_eqb r r'
                    | Err _, None => true
                    | _, _ => false
                    end
  end.
Definition dbranch (c : dcase) : N :=
  match c with
  | DEnc e _ => match enc_one e with
                | Ok _ => if Nat.ltb (LMDBMaxKeySize - (length (k_key e) + 4) - 1) (length (k_val e)) then 2 else 1
                | _ => if Nat.eqb (length (k_key e)) 0 then 3 else 4 end
  | DDec e _ => match dec_one e with Ok _ => 10 | _ =>
                  if Nat.ltb (length (k_key e)) 6 then 11
                  else if Nat.ltb (length (k_key e)) (N.to_nat (last (k_key e) 0) + 5) then 12 else 13 end
  | DEncList l _ => match hack_encode l with Ok _ => 20 | _ => 21 end
  end.
Definition dbranches_all : list N := [1;2;3;4;10;11;12;13;20;21].

Definition mismatches (l : list dcase) : list N := mism dcheck l.
Definition coverage (l : list dcase) : list N := cover dbranch l.
