(* Corr/Run_conc.v — correspondence runner for the small concurrent protocols (property C17).

   The Go harness drives the REAL code (utils/topics, utils/climit, snapshot/storage, syncer.Sync) through
   scripted schedules: a case is a list of GROUPS of events; the events of a group are issued together,
   then the harness waits until every goroutine it started is finished or parked (quiescence) and
   records which operations are still pending.  The model side explores EVERY interleaving of the same
   events (each group run to quiescence) and the case agrees iff what was observed is one of the
   model's possible outcomes (for most cases the model has exactly one).

   outcome classes (harness side): 0 completed, 1 deadlock (some operation still pending at the end),
   2 panic, 3 returned-after-cancel, 4 not-returned.  For the scripted cases the class is implied by the
   last pending mask (0 = completed) and the panic bit, which are what is compared. *)
From LS Require Import Conc.Topics Conc.Climit Conc.GlobalStorage Conc.Cancel Corr.Obs.
Open Scope N_scope.

(* ------------------------------------------------------------------ topics *)

Inductive tev :=
| EDo (s j : nat) (a : kact)   (* goroutine j of subscription s is asked to do a (queued behind its earlier work) *)
| EPub (p : nat) (v : N)       (* publisher goroutine p is asked to Publish(v) *)
| ECancel (s : nat).           (* the context used by subscription s's Next calls is cancelled *)

Definition app_tev (st : state) (e : tev) : state :=
  match e with
  | EDo s j a => set_ks s j (ks st s j ++ [a]) st
  | EPub p v => set_ps p (ps st p ++ [v]) st
  | ECancel s => set_sub s (set_ctxc true (subs st s)) st
  end.

Definition bitmask {T} (pend : T -> bool) (ts : list T) : N :=
  fst (fold_left (fun (acc : N * N) t => let '(m, b) := acc in ((if pend t then m + b else m), 2 * b)) ts (0, 1)).

Definition t_mask (np nj : nat) (st : state) : N := bitmask (pending st) (all_tids np (nsub st) nj).

(* one path of the exploration: masks observed after each group so far (newest first), current state *)
Definition tpath := (list N * state)%type.

Definition tpath_seen (np nj : nat) (p : tpath) (l : list tpath) : bool :=
  existsb (fun q => leqb (fst p) (fst q) && leqb (encode np nj (snd p)) (encode np nj (snd q))) l.
Fixpoint tdedupe (np nj : nat) (l acc : list tpath) : list tpath :=
  match l with
  | [] => acc
  | p :: r => if tpath_seen np nj p acc then tdedupe np nj r acc else tdedupe np nj r (p :: acc)
  end.

Definition texplore_fuel : nat := 100 * 200.

(* apply one group to every path; returns the new paths, coverage, fuel-exhausted flag *)
Definition tgroup (v : variant) (np nj : nat) (g : list tev) (acc : list tpath * list N * bool) : list tpath * list N * bool :=
  let '(paths, cov, out) := acc in
  let step1 (a : list tpath * list N * bool) (p : tpath) :=
    let '(ps', cv, o) := a in
    if bad (snd p) then (p :: ps', cv, o)     (* a panicked run stays as it is *)
    else
      let st := fold_left app_tev g (snd p) in
      let x := quiescent_from v np nj texplore_fuel [st] cv in
      (map (fun f => (t_mask np nj f :: fst p, f)) (x_finals x) ++ ps', x_cov x, o || x_fuel_out x) in
  let '(ps2, cv2, o2) := fold_left step1 paths ([], cov, out) in
  (tdedupe np nj ps2 [], cv2, o2).

Definition t_outcomes (v : variant) (np ns nj : nat) (groups : list (list tev)) : list tpath * list N * bool :=
  fold_left (fun acc g => tgroup v np nj g acc) groups
            ([([], init ns (fun _ _ => []) (fun _ => []))], [], false).

(* observation: did a panic occur; pending mask after each group (oldest first); per subscription the
   results of Next in order (3+v value, 1 closed, 2 ctx) *)
Record tobs := mkTObs { to_panic : bool; to_masks : list N; to_gots : list (list N) }.

Definition t_gots (ns : nat) (st : state) : list (list N) :=
  map (fun s => rev (map enc_rev (got (subs st s)))) (seq 0 ns).
Fixpoint lleqb (a b : list (list N)) : bool :=
  match a, b with
  | [], [] => true
  | x :: a', y :: b' => leqb x y && lleqb a' b'
  | _, _ => false
  end.

Definition t_match (ns : nat) (o : tobs) (p : tpath) : bool :=
  if to_panic o then bad (snd p)
  else negb (bad (snd p)) && leqb (rev (fst p)) (to_masks o) && lleqb (t_gots ns (snd p)) (to_gots o).

(* ------------------------------------------------------------------ climit *)

Inductive cev := CEAcq (a : nat) | CERel (r : nat).
Definition app_cev (c : cstate) (e : cev) : cstate :=
  match e with
  | CEAcq a => mkC (pool c) (limit c) (ntok c) (toks c) (rp c) (rtok c) (rcnt c) (upd (acnt c) a (S (acnt c a)))
  | CERel r => mkC (pool c) (limit c) (ntok c) (toks c) (rp c) (rtok c) (upd (rcnt c) r (S (rcnt c r))) (acnt c)
  end.
Definition cpath := (list N * cstate)%type.
Definition c_mask (na nr : nat) (c : cstate) : N := bitmask (c_pending c) (c_tids na nr).
Definition cpath_seen (na nr : nat) (p : cpath) (l : list cpath) : bool :=
  existsb (fun q => leqb (fst p) (fst q) && leqb (c_encode na nr (snd p)) (c_encode na nr (snd q))) l.
Fixpoint cdedupe (na nr : nat) (l acc : list cpath) : list cpath :=
  match l with
  | [] => acc
  | p :: r => if cpath_seen na nr p acc then cdedupe na nr r acc else cdedupe na nr r (p :: acc)
  end.
Definition cgroup (checked : bool) (na nr : nat) (g : list cev) (acc : list cpath * list N * bool) :=
  let '(paths, cov, out) := acc in
  let step1 (a : list cpath * list N * bool) (p : cpath) :=
    let '(ps', cv, o) := a in
    let c := fold_left app_cev g (snd p) in
    let x := c_explore checked na nr texplore_fuel [c] (mkCX [] trie0 cv false) in
    (map (fun f => (c_mask na nr f :: fst p, f)) (cx_finals x) ++ ps', cx_cov x, o || cx_out x) in
  let '(ps2, cv2, o2) := fold_left step1 paths ([], cov, out) in
  (cdedupe na nr ps2 [], cv2, o2).
Definition c_outcomes (checked : bool) (lim na nr : nat) (rtoks : list nat) (groups : list (list cev)) :=
  fold_left (fun acc g => cgroup checked na nr g acc) groups
            ([([], cinit lim (fun r => nth r rtoks 0%nat) (fun _ => 0%nat) (fun _ => 0%nat))], [], false).

(* ------------------------------------------------------------------ global storage *)

Inductive gev := GESet (w : nat) (h : N) | GEGet (g : nat).
Definition app_gev (s : gstate) (e : gev) : gstate :=
  match e with
  | GESet w h => mkG (wmu s) (rd s) (storage s) (ready s) (gbad s) (wp s) (upd (ws s) w (ws s w ++ [h])) (gp s) (gc s) (gres s) (hist s) (ng s)
  | GEGet g => mkG (wmu s) (rd s) (storage s) (ready s) (gbad s) (wp s) (ws s) (gp s) (upd (gc s) g (S (gc s g))) (gres s) (hist s) (ng s)
  end.
Definition gpath := (list N * gstate)%type.
Definition g_mask (nw : nat) (s : gstate) : N := bitmask (g_pending s) (g_tids nw (ng s)).
Definition gpath_seen (nw : nat) (p : gpath) (l : list gpath) : bool :=
  existsb (fun q => leqb (fst p) (fst q) && leqb (g_encode nw (snd p)) (g_encode nw (snd q))) l.
Fixpoint gdedupe (nw : nat) (l acc : list gpath) : list gpath :=
  match l with
  | [] => acc
  | p :: r => if gpath_seen nw p acc then gdedupe nw r acc else gdedupe nw r (p :: acc)
  end.
Definition ggroup (fixed : bool) (nw : nat) (g : list gev) (acc : list gpath * list N * bool) :=
  let '(paths, cov, out) := acc in
  let step1 (a : list gpath * list N * bool) (p : gpath) :=
    let '(ps', cv, o) := a in
    if gbad (snd p) then (p :: ps', cv, o)
    else
      let s := fold_left app_gev g (snd p) in
      let x := g_explore fixed nw texplore_fuel [s] (mkGX [] trie0 cv false) in
      (map (fun f => (g_mask nw f :: fst p, f)) (gx_finals x) ++ ps', gx_cov x, o || gx_out x) in
  let '(ps2, cv2, o2) := fold_left step1 paths ([], cov, out) in
  (gdedupe nw ps2 [], cv2, o2).
Definition g_outcomes (fixed : bool) (nw n : nat) (groups : list (list gev)) :=
  fold_left (fun acc g => ggroup fixed nw g acc) groups
            ([([], ginit n (fun _ => []) (fun _ => 0%nat))], [], false).
(* results per getter, oldest first: 0 = nil, 1+h *)
Definition g_results (s : gstate) : list (list N) := map (fun g => rev (map enc_on (gres s g))) (seq 0 (ng s)).

(* ------------------------------------------------------------------ cancellation scenarios *)

Definition ch_ok : choice := mkCh true false.
Definition ch_fail : choice := mkCh false false.
Definition is_boot_sleep (p : spc) : bool := match p with SBootSleep _ => true | _ => false end.
Definition is_boot_list (p : spc) : bool := match p with SBootList => true | _ => false end.
Definition is_sleep (p : spc) : bool := match p with SSleep _ => true | _ => false end.
Definition is_retry_sleep (p : spc) : bool := match p with SRetrySleep _ _ _ => true | _ => false end.
Definition is_store (p : spc) : bool := match p with SStore _ _ => true | _ => false end.

Record scen := mkScen {
  sc_cfg : cfg;
  sc_o : spc -> choice;        (* results of the library calls *)
  sc_at : spc -> bool;         (* the blocking point at which the harness cancels ... *)
  sc_nth : nat                 (* ... its (nth+1)-th occurrence *)
}.
Definition scen_cfg (shadow data : bool) : cfg := mkCfg (negb shadow) data false false true 3 (if data then 1 else 0)%nat.
(* scenario numbers are shared with harness/area_conc.go *)
Definition scen_of (n : N) (shadow : bool) : option scen :=
  match n with
  | 1 => (* initial listing keeps failing; cancel during the first retry sleep *)
      Some (mkScen (scen_cfg shadow false) (fun p => if is_boot_list p then ch_fail else ch_ok) is_boot_sleep 0)
  | 2 => (* initial listing blocks until the context is cancelled (then fails) *)
      Some (mkScen (scen_cfg shadow false) (fun p => if is_boot_list p then ch_fail else ch_ok) is_boot_list 0)
  | 3 => (* empty LMDB, listing fine: the loop idles in its poll sleep *)
      Some (mkScen (scen_cfg shadow false) (fun _ => ch_ok) is_sleep 0)
  | 4 => (* data, no snapshots yet, Store keeps failing: cancel during the retry sleep *)
      Some (mkScen (scen_cfg shadow true) (fun p => if is_store p then ch_fail else ch_ok) is_retry_sleep 0)
  | 5 => (* Store blocks until the context is cancelled (then fails) *)
      Some (mkScen (scen_cfg shadow true) (fun p => if is_store p then ch_fail else ch_ok) is_store 0)
  | 6 => (* data, the initial snapshot is stored, then the loop idles *)
      Some (mkScen (scen_cfg shadow true) (fun _ => ch_ok) is_sleep 0)
  | _ => None
  end.

(* class predicted by the model: 3 returned-after-cancel, 4 not returned; 9 = the scenario did not reach
   its blocking point (or returned before) in the model *)
Definition cancel_outcome (fixed : bool) (n : N) (shadow : bool) : N * list N :=
  match scen_of n shadow with
  | None => (9, [])
  | Some sc =>
      let s0 := mkS SBootList false [] 0 in
      match run_until fixed (sc_cfg sc) (sc_o sc) (sc_at sc) (sc_nth sc) 200 s0 [] with
      | None => (9, [])
      | Some (s, cov) =>
          let s1 := mkS (pc s) true (sready s) (nloads s) in
          let '(s2, cov2) := run_cov fixed (sc_cfg sc) (sc_o sc) (14 + 3 * length (sready s1)) s1 cov in
          ((if is_returned s2 then 3 else 4), cov2)
      end
  end.

(* ------------------------------------------------------------------ cases *)

Inductive ccase :=
| CTopic (np ns nj : nat) (groups : list (list tev)) (o : tobs)
| CClimit (lim na nr : nat) (rtoks : list nat) (groups : list (list cev)) (masks : list N)
| CStorage (nw n : nat) (groups : list (list gev)) (panic : bool) (masks : list N) (results : list (list N))
| CCancel (scn : N) (shadow : bool) (cls : N).

Definition ccheck (c : ccase) : bool :=
  match c with
  | CTopic np ns nj groups o =>
      let '(paths, _, out) := t_outcomes VFixed np ns nj groups in
      negb out && existsb (t_match ns o) paths
  | CClimit lim na nr rtoks groups masks =>
      let '(paths, _, out) := c_outcomes true lim na nr rtoks groups in
      negb out && existsb (fun p => leqb (rev (fst p)) masks) paths
  | CStorage nw n groups panic masks results =>
      let '(paths, _, out) := g_outcomes true nw n groups in
      negb out && existsb (fun p => if panic then gbad (snd p)
                                    else negb (gbad (snd p)) && leqb (rev (fst p)) masks
                                         && lleqb (g_results (snd p)) results) paths
  | CCancel scn shadow cls => fst (cancel_outcome true scn shadow) =? cls
  end.

(* model branches exercised by a case: topics 1..32, climit 101..107, storage 201..220, cancel 301..334 *)
Definition cbranches (c : ccase) : list N :=
  match c with
  | CTopic np ns nj groups _ => snd (fst (t_outcomes VFixed np ns nj groups))
  | CClimit lim na nr rtoks groups _ => map (fun b => 100 + b) (snd (fst (c_outcomes true lim na nr rtoks groups)))
  | CStorage nw n groups _ _ _ => map (fun b => 200 + b) (snd (fst (g_outcomes true nw n groups)))
  | CCancel scn shadow _ => map (fun b => 300 + b) (snd (cancel_outcome true scn shadow))
  end.

Definition conc_branches_all : list N :=
  branches_all ++ map (fun b => 100 + b) cbranches_all ++ map (fun b => 200 + b) gbranches_all.

Definition mismatches (l : list ccase) : list N := mism ccheck l.
Definition coverage (l : list ccase) : list N :=
  fold_left (fun acc c => fold_left (fun a b => ins b a) (cbranches c) acc) l [].

(* what the model allows, for the replay file of a mismatching case *)
Definition cexplain (c : ccase) : list (list N) :=
  match c with
  | CTopic np ns nj groups _ =>
      let '(paths, _, out) := t_outcomes VFixed np ns nj groups in
      [enc_bool out] :: map (fun p => enc_bool (bad (snd p)) :: rev (fst p) ++ [999] ++ concat (map (fun l => 998 :: l) (t_gots ns (snd p)))) paths
  | CClimit lim na nr rtoks groups _ =>
      let '(paths, _, out) := c_outcomes true lim na nr rtoks groups in
      [enc_bool out] :: map (fun p => rev (fst p)) paths
  | CStorage nw n groups _ _ _ =>
      let '(paths, _, out) := g_outcomes true nw n groups in
      [enc_bool out] :: map (fun p => enc_bool (gbad (snd p)) :: rev (fst p) ++ [999] ++ concat (map (fun l => 998 :: l) (g_results (snd p)))) paths
  | CCancel scn shadow _ => [[fst (cancel_outcome true scn shadow)]]
  end.
