(* Corr/Run_header.v — correspondence runner for lmdbenv/header. *)
From LS Require Import Base.Bytes Base.Res Header.Model Corr.Obs.
Open Scope N_scope.

(* what Go's Parse returned, flattened *)
Inductive hobs :=
| HErr (cls : N)
| HPanic
| HOk (ts txn flags nextra : N) (extra app : bytes).

Inductive hcase :=
| HParse (v : bytes) (o : hobs)          (* header.Parse(v) *)
| HSkip (v : bytes) (o : obs)            (* header.Skip(v) *)
| HPut (ts txn flags : N) (o : bytes).   (* PutBasic into a dirty 24-byte buffer *)

Definition hobs_eqb (a b : hobs) : bool :=
  match a, b with
  | HErr x, HErr y => x =? y
  | HPanic, HPanic => true
  | HOk t1 x1 f1 n1 e1 a1, HOk t2 x2 f2 n2 e2 a2 =>
      (t1 =? t2) && (x1 =? x2) && (f1 =? f2) && (n1 =? n2) && beqb e1 e2 && beqb a1 a2
  | _, _ => false
  end.

Definition model_parse (v : bytes) : hobs :=
  match parse v with
  | Ok (h, a) => HOk (h_ts h) (h_txn h) (h_flags h) (h_nextra h) (h_extra h) a
  | Err e => HErr (err_class e)
  | _ => HPanic
  end.

Definition hcheck (c : hcase) : bool :=
  match c with
  | HParse v o => hobs_eqb (model_parse v) o
  | HSkip v o => obs_eqb (obs_of_res (skip v)) o
  | HPut ts txn f o => beqb (put_basic ts txn f) o
  end.

(* branches of the model exercised *)
Definition hbranch (c : hcase) : N :=
  match c with
  | HParse v _ | HSkip v _ =>
      let off := match c with HParse _ _ => 0 | _ => 10 end in
      off + (if Nat.ltb (length v) 24 then 1
      else if negb (nth 16 v 0 =? 0) then 2
      else if get_num_extra v =? 0 then 3
      else if Nat.ltb (length v) (24 + 8 * N.to_nat (get_num_extra v)) then 4
      else 5)
  | HPut _ _ _ _ => 20
  end.
Definition hbranches_all : list N := [1;2;3;4;5;11;12;13;14;15;20].

Definition mismatches (l : list hcase) : list N := mism hcheck l.
Definition coverage (l : list hcase) : list N := cover hbranch l.
