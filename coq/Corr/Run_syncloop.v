(* Corr/Run_syncloop.v — correspondence runner for the real syncLoop driven through the yield hooks. *)
From LS Require Import Base.Bytes Base.Res Merge.Model Strategy.Model Shadow.Model Instance.Model Instance.SyncLoop
  Corr.Obs Corr.Run_instance.
Open Scope N_scope.

Record lcase := mkLC { lc_cfg : icfg; lc_env : env; lc_acts : list (list action); lc_clock0 : N;
                       lc_trace : list titem; lc_final : env;
                       lc_comm : N;    (* cleaner.GetCommitted(peer) at the end, 0 = none *)
                       lc_lastb : N    (* lastByInstance[peer] at the end, 0 = none *) }.

Definition peer : bytes := [98].   (* "b": the instance all injected snapshots come from *)
Fixpoint assoc_get (l : list (bytes * N)) (k : bytes) : N :=
  match l with
  | [] => 0
  | (k0, v) :: l' => if beqb k0 k then v else assoc_get l' k
  end.

Definition titem_eqb (a b : titem) : bool :=
  match a, b with
  | TYield p1 l1, TYield p2 l2 => (p1 =? p2) && (l1 =? l2)
  | TStore o1 t1 i1 d1, TStore o2 t2 i2 d2 => Bool.eqb o1 o2 && (t1 =? t2) && (i1 =? i2) && sdbis_eqb d1 d2
  | TExit c1, TExit c2 => c1 =? c2
  | _, _ => false
  end.
Fixpoint trace_eqb (a b : list titem) : bool :=
  match a, b with
  | [], [] => true
  | x :: a', y :: b' => titem_eqb x y && trace_eqb a' b'
  | _, _ => false
  end.

Definition lmodel (c : lcase) : lstate := run (lc_cfg c) (lc_env c) (lc_acts c) (lc_clock0 c).
Definition lcheck (c : lcase) : bool :=
  let s := lmodel c in
  trace_eqb (rev (l_trace s)) (lc_trace c) && env_eqb (l_env s) (lc_final c)
  && (assoc_get (l_committed s) peer =? lc_comm c) && (assoc_get (l_last_by s) peer =? lc_lastb c).

(* for the replay file: first position where the traces differ, with both items *)
Fixpoint first_diff (i : N) (a b : list titem) : option (N * option titem * option titem) :=
  match a, b with
  | [], [] => None
  | x :: a', y :: b' => if titem_eqb x y then first_diff (i + 1) a' b' else Some (i, Some x, Some y)
  | x :: _, [] => Some (i, Some x, None)
  | [], y :: _ => Some (i, None, Some y)
  end.
Definition lexplain (c : lcase) := (first_diff 0 (rev (l_trace (lmodel c))) (lc_trace c), env_eqb (l_env (lmodel c)) (lc_final c),
  (assoc_get (l_committed (lmodel c)) peer, lc_comm c), (assoc_get (l_last_by (lmodel c)) peer, lc_lastb c)).

(* coverage: which kinds of steps the run contained *)
Definition has_point (p : N) (t : list titem) : bool :=
  existsb (fun x => match x with TYield q _ => q =? p | _ => false end) t.
Definition lbranch (c : lcase) : N :=
  let t := lc_trace c in
  (if i_native (lc_cfg c) then 0 else 100)
  + (if i_receive_only (lc_cfg c) then 1000 else 0)
  + (if has_point P_load_begin t then 1 else 0)
  + (if has_point P_send_begin t then 2 else 0)
  + (if has_point P_boot_send t then 4 else 0)
  + (if existsb (fun x => match x with TStore false _ _ _ => true | _ => false end) t then 8 else 0)
  + (if existsb (fun x => match x with TExit 0 => false | TExit _ => true | _ => false end) t then 16 else 0).
Definition lbranches_all : list N := [2;3;6;7;102;103;106;107].

Definition mismatches (l : list lcase) : list N := mism lcheck l.
Definition coverage (l : list lcase) : list N := cover lbranch l.
