(* Corr/Run_cleaner.v — correspondence runner for syncer/cleaner/cleaner.go (area `cleaner`).
   A case is a whole history on one real cleaner.Worker over a fault-injecting fake bucket; the
   observation of every event is the log of backend calls it caused: the prefixes of the List
   calls in order, and the Delete calls (name, succeeded) SORTED by name — the order of deletions
   within a run is not part of the property. *)
From LS Require Import Base.Bytes Cleaner.Model Corr.Obs.
Open Scope Z_scope.

Inductive cev :=
| ERun (bucket : list name) (now : Z) (del_fail : list name)
       (o_list : list bytes) (o_del : list (name * bool))     (* RunOnce(ctx, now), List succeeds *)
| EListFails (o_list : list bytes) (o_del : list (name * bool)) (* RunOnce, List returns an error *)
| ESet (m : cmap)                                              (* SetCommitted(m) *)
| EProbe (o : list (inst * Z)).                                (* GetCommitted(i) for some instances *)

Inductive ccase :=
| CHist (db : bytes) (cf : conf) (tbl : list (name * pinfo)) (evs : list cev)
  (* syncer.New(..., Options{ReceiveOnly}) with Cleanup.Enabled = cfg_enabled; one LoadOnce, one
     SendOnce (Store succeeding or not); observed: successful Store calls, whether the cleaner got
     the committed timestamp, List calls of one RunOnce of the syncer's cleaner *)
| CSyncer (receive_only cfg_enabled store_ok : bool) (o_stores : N) (o_committed : bool) (o_lists : N).

(* names in case files: a head (enough bytes of the real name to decide the prefix test) followed by
   0xff and the index of the name in the case *)
Definition nm (h : bytes) (i : N) : bytes := h ++ [255%N; i].

Fixpoint lbeqb (a b : list bytes) : bool :=
  match a, b with
  | [], [] => true
  | x :: a', y :: b' => beqb x y && lbeqb a' b'
  | _, _ => false
  end.

Fixpoint dels_eqb (a b : list (name * bool)) : bool :=
  match a, b with
  | [], [] => true
  | (x, p) :: a', (y, q) :: b' => beqb x y && Bool.eqb p q && dels_eqb a' b'
  | _, _ => false
  end.

Fixpoint ins_del (d : name * bool) (l : list (name * bool)) : list (name * bool) :=
  match l with
  | [] => [d]
  | e :: l' => if is_gt (bcmp (fst d) (fst e)) then e :: ins_del d l' else d :: l
  end.
Definition sort_dels (l : list (name * bool)) : list (name * bool) := fold_right ins_del [] l.

Definition dels_of (log : list bcall) : list (name * bool) :=
  flat_map (fun c => match c with BDelete n ok => [(n, ok)] | _ => [] end) log.

Definition log_matches (log : list bcall) (o_list : list bytes) (o_del : list (name * bool)) : bool :=
  lbeqb (listed log) o_list && dels_eqb (sort_dels (dels_of log)) (sort_dels o_del).

Fixpoint probes_ok (committed : cmap) (o : list (inst * Z)) : bool :=
  match o with
  | [] => true
  | (i, t) :: o' => (get_committed committed i =? t) && probes_ok committed o'
  end.

Fixpoint check_evs (parse : parser) (prefix : bytes) (cf : conf) (ws : wstate) (evs : list cev) : bool :=
  match evs with
  | [] => true
  | ERun b now df ol od :: r =>
      let (ws', log) := step parse prefix cf ws (Run b now df) in
      log_matches log ol od && check_evs parse prefix cf ws' r
  | EListFails ol od :: r =>
      let (ws', log) := step parse prefix cf ws ListFails in
      log_matches log ol od && check_evs parse prefix cf ws' r
  | ESet m :: r =>
      let (ws', _) := step parse prefix cf ws (SetCommitted m) in check_evs parse prefix cf ws' r
  | EProbe o :: r => probes_ok (ws_committed ws) o && check_evs parse prefix cf ws r
  end.

Definition b2n (b : bool) : N := if b then 1%N else 0%N.

Definition ccheck (c : ccase) : bool :=
  match c with
  | CHist db cf tbl evs => check_evs (parse_tbl tbl) (new_prefix db) cf ws0 evs
  | CSyncer ro en ok o_stores o_comm o_lists =>
      let (stores, evs) := send_once_tail ro ok [] in
      (stores =? o_stores)%N && Bool.eqb (match evs with [] => false | _ => true end) o_comm &&
      (b2n (cf_enabled (syncer_cleanup_conf ro (mkConf en 0 0))) =? o_lists)%N
  end.

(* what the model says for a case: the per-event logs (for the replay file) *)
Fixpoint model_logs (parse : parser) (prefix : bytes) (cf : conf) (ws : wstate) (evs : list cev)
  : list (list bytes * list (name * bool)) :=
  match evs with
  | [] => []
  | ERun b now df _ _ :: r =>
      let (ws', log) := step parse prefix cf ws (Run b now df) in
      (listed log, sort_dels (dels_of log)) :: model_logs parse prefix cf ws' r
  | EListFails _ _ :: r =>
      let (ws', log) := step parse prefix cf ws ListFails in
      (listed log, sort_dels (dels_of log)) :: model_logs parse prefix cf ws' r
  | ESet m :: r =>
      let (ws', _) := step parse prefix cf ws (SetCommitted m) in ([], []) :: model_logs parse prefix cf ws' r
  | EProbe o :: r =>
      ([], map (fun p => (fst p, (get_committed (ws_committed ws) (fst p) =? snd p))) o)
      :: model_logs parse prefix cf ws r
  end.
Definition model_out (c : ccase) : list (list bytes * list (name * bool)) :=
  match c with
  | CHist db cf tbl evs => model_logs (parse_tbl tbl) (new_prefix db) cf ws0 evs
  | CSyncer ro en ok _ _ _ =>
      [([], [([fst (send_once_tail ro ok [])], cf_enabled (syncer_cleanup_conf ro (mkConf en 0 0)))])]
  end.

(* ---------------- branch coverage ---------------- *)
Open Scope N_scope.

Definition ins_all (l acc : list N) : list N := fold_left (fun a x => ins x a) l acc.

(* scan: 1 cached as ignored, 2 parse error, 3 other kind, 4 candidate *)
Fixpoint br_scan (parse : parser) (ign : list name) (names : list name) : list N :=
  match names with
  | [] => []
  | n :: r =>
      if mem n ign then 1 :: br_scan parse ign r
      else match parse n with
           | None => 2 :: br_scan parse (n :: ign) r
           | Some p => (if p_snap p then 4 else 3) :: br_scan parse ign r
           end
  end.

Definition br_dur (lo : N) (d lim : Z) : N :=
  (* lo: d < lim, lo+1: d = lim, lo+2: d = lim+1, lo+3: d > lim+1 *)
  if (d <? lim)%Z then lo else if (d =? lim)%Z then lo + 1 else if (d =? lim + 1)%Z then lo + 2 else lo + 3.

Definition br_sat (a b : Z) : list N :=
  if (a - b <? min_i64)%Z then [29] else if (max_i64 <? a - b)%Z then [28] else [].

(* first filter: 10 first seen now, 11.. age against MustKeepInterval *)
Definition br_f1 (now keep : Z) (fs : list (name * Z)) (c : cand) : list N :=
  match get fs (c_name c) with
  | None => [10]
  | Some t => br_dur 11 (dur_sub now t) keep :: br_sat now t
  end.

(* second filter: 15 marked instance, 16.. silence against RemoveOldInstancesInterval *)
Fixpoint br_f2 (now rem : Z) (marks : list inst) (l : list cand) : list N :=
  match l with
  | [] => []
  | c :: l' =>
      if mem (c_inst c) marks then 15 :: br_f2 now rem marks l'
      else br_dur 16 (dur_sub now (c_ts c)) rem :: br_sat now (c_ts c) ++ br_f2 now rem (c_inst c :: marks) l'
  end.

(* stale list: 20 instance never committed, 21.. committed against the snapshot's timestamp *)
Definition br_stale (committed : cmap) (c : cand) : N :=
  match get committed (c_inst c) with
  | None => 20
  | Some t => if (t =? c_ts c - 1)%Z then 35   (* committed one ns older than the snapshot: keep *)
              else br_dur 21 t (c_ts c)     (* 21 committed older: keep; 22 equal; 23 newer by 1; 24 newer *)
  end.

Fixpoint has_tie (l : list cand) : bool :=
  match l with
  | [] => false
  | c :: l' => existsb (fun d => (c_ts c =? c_ts d)%Z) l' || has_tie l'
  end.

Definition br_run (parse : parser) (prefix : bytes) (cf : conf) (ws : wstate)
  (bucket : list name) (now : Z) (df : list name) : list N :=
  if negb (cf_enabled cf) then [31] else
  let listing := blob_list prefix bucket in
  let ign := s_ignored (ws_st ws) in
  let cands := snd (scan parse ign listing) in
  let seen := map c_name cands in
  let fs := s_fs (ws_st ws) in
  let fs1 := prune (fun n => mem n seen) fs in
  let sorted := sort_newest_first cands in
  let '(_, marks, rc) := filter1 now (cf_keep cf) fs1 [] sorted in
  let (rc2, too) := filter2 now (cf_rem cf) marks rc in
  let dels := snd (run_core cf (ws_committed ws) fs1 sorted now df) in
  (if Nat.ltb (length listing) (length bucket) then [5] else []) ++
  br_scan parse ign listing ++
  (if Nat.ltb (length fs1) (length fs) then [6] else []) ++
  (match fs1 with [] => [] | _ => [7] end) ++
  flat_map (br_f1 now (cf_keep cf) fs1) sorted ++
  br_f2 now (cf_rem cf) marks rc ++
  map (br_stale (ws_committed ws)) too ++
  (if has_tie cands then [27] else []) ++
  map (fun d : name * bool => if snd d then 25 else 26) dels.

Fixpoint br_evs (parse : parser) (prefix : bytes) (cf : conf) (ws : wstate) (evs : list cev) : list N :=
  match evs with
  | [] => []
  | ERun b now df _ _ :: r =>
      br_run parse prefix cf ws b now df ++
      br_evs parse prefix cf (fst (step parse prefix cf ws (Run b now df))) r
  | EListFails _ _ :: r => 30 :: br_evs parse prefix cf ws r
  | ESet m :: r =>
      (if existsb (fun kv => match get (ws_committed ws) (fst kv) with Some _ => true | None => false end) m
       then [32; 33] else [32]) ++
      br_evs parse prefix cf (fst (step parse prefix cf ws (SetCommitted m))) r
  | EProbe _ :: r => 34 :: br_evs parse prefix cf ws r
  end.

Definition cbranches (c : ccase) : list N :=
  match c with
  | CHist db cf tbl evs => br_evs (parse_tbl tbl) (new_prefix db) cf ws0 evs
  | CSyncer ro en ok _ _ _ => [40 + 2 * b2n ro + b2n ok]
  end.

Definition cbranches_all : list N :=
  [1;2;3;4;5;6;7;10;11;12;13;14;15;16;17;18;19;20;21;22;23;24;25;26;27;28;29;30;31;32;33;34;35;40;41;42;43].

Definition mismatches (l : list ccase) : list N := mism ccheck l.
Definition coverage (l : list ccase) : list N := fold_left (fun acc c => ins_all (cbranches c) acc) l [].
