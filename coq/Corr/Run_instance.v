(* Corr/Run_instance.v — correspondence runner for Syncer.LoadOnce / Syncer.SendOnce on a real LMDB. *)
From LS Require Import Base.Bytes Base.Res Merge.Model Strategy.Model Shadow.Model Instance.Model Corr.Obs.
Open Scope N_scope.

Inductive iobs :=
| IErr (cls : N)
| IPanic
| ILoad (e : env) (ret_id : N) (lc : bool)          (* environment after, returned (adjusted) txn id, localChanged *)
| ISend (e : env) (ret_id : N) (ds : list sdbi).    (* environment after, returned id, decoded upload *)

Inductive icase :=
| ILoadCase (c : icfg) (e : env) (s : snapshot) (last_synced now cutoff : N) (o : iobs)
| ISendCase (c : icfg) (e : env) (now cutoff : N) (o : iobs).

Fixpoint dbis_eqb (a b : dbis) : bool :=
  match a, b with
  | [], [] => true
  | (n1, d1) :: a', (n2, d2) :: b' =>
      beqb n1 n2 && (d_flags d1 =? d_flags d2) && db_eqb (d_data d1) (d_data d2) && dbis_eqb a' b'
  | _, _ => false
  end.
Definition env_eqb (a b : env) : bool := dbis_eqb (e_dbis a) (e_dbis b) && (e_last a =? e_last b).

Definition kv_eqb (a b : kv) : bool :=
  beqb (k_key a) (k_key b) && beqb (k_val a) (k_val b) && (k_ts a =? k_ts b) && (k_flags a =? k_flags b).
Fixpoint kvl_eqb (a b : list kv) : bool :=
  match a, b with [], [] => true | x :: a', y :: b' => kv_eqb x y && kvl_eqb a' b' | _, _ => false end.
Fixpoint sdbis_eqb (a b : list sdbi) : bool :=
  match a, b with
  | [], [] => true
  | x :: a', y :: b' => beqb (sd_name x) (sd_name y) && (sd_flags x =? sd_flags y)
                        && beqb (sd_transform x) (sd_transform y) && kvl_eqb (sd_entries x) (sd_entries y)
                        && sdbis_eqb a' b'
  | _, _ => false
  end.

Definition imodel (c : icase) : iobs :=
  match c with
  | ILoadCase cf e s ls now cut _ =>
      match load_txn cf e s ls now cut with
      | Ok (e', T, lc) => ILoad e' (adjust_id T (e_last e')) lc
      | Err x => IErr (err_class x)
      | _ => IPanic
      end
  | ISendCase cf e now cut _ =>
      match send_txn cf e now cut with
      | Ok (e', T, ds) => ISend e' (adjust_id T (e_last e')) ds
      | Err x => IErr (err_class x)
      | _ => IPanic
      end
  end.
Definition iobs_of (c : icase) : iobs :=
  match c with ILoadCase _ _ _ _ _ _ o | ISendCase _ _ _ _ o => o end.
Definition iobs_eqb (a b : iobs) : bool :=
  match a, b with
  | IErr x, IErr y => x =? y
  | IPanic, IPanic => true
  | ILoad e1 i1 l1, ILoad e2 i2 l2 => env_eqb e1 e2 && (i1 =? i2) && Bool.eqb l1 l2
  | ISend e1 i1 d1, ISend e2 i2 d2 => env_eqb e1 e2 && (i1 =? i2) && sdbis_eqb d1 d2
  | _, _ => false
  end.
Definition icheck (c : icase) : bool := iobs_eqb (imodel c) (iobs_of c).

Definition ibranch (c : icase) : N :=
  match c with
  | ILoadCase cf e s ls _ _ _ =>
      (if i_native cf then 0 else 10) +
      match imodel c with
      | ILoad e' _ lc => if e_last e' =? e_last e then (if lc then 1 else 2) else (if lc then 3 else 4)
      | IErr 4 => 5 | IErr _ => 6 | _ => 0
      end
  | ISendCase cf e _ _ _ =>
      30 + (if i_native cf then 0 else 10) +
      match imodel c with
      | ISend e' _ _ => if e_last e' =? e_last e then 1 else 2
      | IErr _ => 3 | _ => 0
      end
  end.
Definition ibranches_all : list N := [2;4;5;6;11;12;13;14;15;16;31;33;41;42;43].

Definition mismatches (l : list icase) : list N := mism icheck l.
Definition coverage (l : list icase) : list N := cover ibranch l.
