(* Corr/Run_strategy.v — correspondence runner for lmdbenv/strategy (Update, IterUpdate, EmptyPut)
   with a table-driven iterator whose decisions are part of the case. *)
From LS Require Import Base.Bytes Base.Res Strategy.Model Shadow.Model Corr.Obs.
Open Scope N_scope.

Inductive dec := DSet (v : bytes) | DKeep | DAppend (s : bytes) | DFail | DIfAbsent (v : bytes).
Record tent := mkT { t_key : bytes; t_dec : dec }.

Definition apply_dec (d : dec) (old : bytes) : res bytes :=
  match d with
  | DSet v => Ok v
  | DKeep => Ok old
  | DAppend s => Ok (old ++ s)
  | DFail => Err EOther
  | DIfAbsent v => match old with [] => Ok v | _ => Ok old end
  end.

Inductive strat := SUpdate | SIterUpdate | SEmptyPut.
Inductive sobs := SErr (cls : N) | SPanic | SDb (d : db).
Record scase := mkS { s_strat : strat; s_flags : N; s_db : db; s_in : list tent; s_clean : dec; s_obs : sobs }.

Definition model_run (c : scase) : res db :=
  let cmp := dbi_cmp (s_flags c) in
  let mg := fun e old => apply_dec (t_dec e) old in
  match s_strat c with
  | SUpdate => update cmp tent t_key mg (s_db c) (s_in c)
  | SIterUpdate => iter_update cmp tent t_key mg (apply_dec (s_clean c)) (s_db c) (s_in c)
  | SEmptyPut =>
      if has_flag (s_flags c) DupSortFlag then empty_put tent t_key mg (s_db c) (s_in c)
      else empty_put_plain cmp tent t_key mg (s_db c) (s_in c)
  end.

Fixpoint db_eqb (a b : db) : bool :=
  match a, b with
  | [], [] => true
  | (k1, v1) :: a', (k2, v2) :: b' => beqb k1 k2 && beqb v1 v2 && db_eqb a' b'
  | _, _ => false
  end.

Definition sobs_of (r : res db) : sobs :=
  match r with Ok d => SDb d | Err e => SErr (err_class e) | _ => SPanic end.
Definition sobs_eqb (a b : sobs) : bool :=
  match a, b with
  | SErr x, SErr y => x =? y
  | SPanic, SPanic => true
  | SDb x, SDb y => db_eqb x y
  | _, _ => false
  end.

Definition scheck (c : scase) : bool := sobs_eqb (sobs_of (model_run c)) (s_obs c).
Definition sexplain (c : scase) : sobs := sobs_of (model_run c).

(* coverage: strategy x outcome x comparator *)
Definition sbranch (c : scase) : N :=
  (match s_strat c with SUpdate => 0 | SIterUpdate => 10 | SEmptyPut => 20 end)
  + (if has_flag (s_flags c) IntegerKeyFlag then 5 else 0)
  + (match model_run c with
     | Ok d => if db_eqb d (s_db c) then 1 else 2
     | Err ENotSorted => 3
     | Err _ => 4
     | _ => 0
     end).
Definition sbranches_all : list N := [1;2;4;6;7;9;11;12;13;14;16;17;18;19;22;24;27].

Definition mismatches (l : list scase) : list N := mism scheck l.
Definition coverage (l : list scase) : list N := cover sbranch l.
