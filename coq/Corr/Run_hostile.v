(* Corr/Run_hostile.v — correspondence runner for area "hostile" (property C08, decoding half):
   arbitrary bytes through the real decoder (Unmarshal + full iteration, directly or via LoadData in a
   gzip container) against [custom_decode] of Codec.Custom: same verdict ok(content) / error, and the
   model never says Panic / OutOfFuel (the real code never panicked / hung). *)
From LS Require Import Base.Bytes Base.Res Merge.Model Codec.Varint Codec.Loop Codec.Wire Codec.Custom Corr.Obs Corr.Run_codec.
Open Scope N_scope.

(* b: the blob; site: the implementation's error site as classified by the harness from the error text
   (0 = no error; used for the coverage report only, and only when the model errs too); o: observed *)
Inductive hcase := HCase (b : bytes) (site : N) (o : dobs).

Definition hcheck (c : hcase) : bool :=
  match c with HCase b _ o => dobs_eqb (model_decode b) o end.

(* coverage ids:
   101 Unmarshal fails, 102 Unmarshal succeeds and the iteration fails, 103 everything decodes;
   110/111/112: 0 / 1 / more DBI objects after a successful Unmarshal;
   120: decodes although not a message of the wire grammar (the hand-written DBI/KV loops do not check
        field numbers); 121: a message of the grammar that the decoder rejects; 122: agree with the spec;
   200+s: implementation error site s (1 invalid varint, 2 unexpected EOF, 3 varint overflow, 4 invalid tag
        value, 5 length over the field limit, 6 unexpected wire type, 7 length beyond the data, 8 fixed64
        beyond the data, 9 unsupported wire type), counted when the model reports an error as well *)
Definition hids (c : hcase) : list N :=
  match c with
  | HCase b site o =>
      match snap_unmarshal b with
      | Ok s =>
          (match so_dbis s with [] => 110 | [_] => 111 | _ => 112 end)
          :: match mapM dbi_content (so_dbis s) with
             | Ok _ => [103; match spec_decode b with Ok _ => 122 | _ => 120 end]
             | _ => [102; 200 + site]
             end
      | Err _ => [101; 200 + site; match spec_decode b with Ok _ => 121 | _ => 122 end]
      | _ => [199]
      end
  end.

Definition hbranches_all : list N :=
  [101; 102; 103; 110; 111; 112; 120; 121; 122; 201; 202; 203; 204; 205; 206; 207; 208; 209].

Definition mismatches (l : list hcase) : list N := mism hcheck l.
Definition coverage (l : list hcase) : list N :=
  fold_left (fun acc c => fold_left (fun a x => ins x a) (hids c) acc) l [].

Definition hexplain (c : hcase) : dobs * N := match c with HCase b _ _ => (model_decode b, steps b) end.
