(* Corr/Run_crash.v — correspondence runner for C05: the event log of real Syncers (started, stopped, restarted
   with kept or emptied LMDBs, cleaners run by hand) is replayed against the GUARDS of Fleet/Crash.v:
   every observed upload / delete must be a step the model allows. Content plays no role in the guards, so
   snapshots are (instance, sequence number) here; the content side (nothing published is ever lost) is
   checked on the real bucket by the harness oracle. *)
From LS Require Import Base.Bytes Base.Res Corr.Obs.
From Coq Require Import Arith.
Open Scope nat_scope.

Inductive cev :=
| EStart (i : nat)
| EStop (i : nat)
| EMerge (i : nat) (q : nat)         (* instance i finished loading the snapshot with sequence number q *)
| EUpload (i : nat)                  (* a successful Store by i: gets the next sequence number *)
| EDelete (c : nat) (q : nat).       (* the cleaner of instance c deleted snapshot q *)

Record gproc := mkGP { g_waiting : bool; g_listed : option nat; g_last_by : list (nat * nat); g_committed : list (nat * nat) }.
Record gst := mkG { g_procs : list (nat * gproc); g_bucket : list (nat * nat) (* (instance, seq) *); g_next : nat;
                    g_ever : list (nat * nat) }.

Fixpoint alookup {A} (l : list (nat * A)) (k : nat) : option A :=
  match l with [] => None | (k0, v) :: l' => if Nat.eqb k0 k then Some v else alookup l' k end.
Fixpoint aset {A} (l : list (nat * A)) (k : nat) (v : A) : list (nat * A) :=
  match l with [] => [(k, v)] | (k0, v0) :: l' => if Nat.eqb k0 k then (k, v) :: l' else (k0, v0) :: aset l' k v end.
Fixpoint adel {A} (l : list (nat * A)) (k : nat) : list (nat * A) :=
  match l with [] => [] | (k0, v0) :: l' => if Nat.eqb k0 k then l' else (k0, v0) :: adel l' k end.

Definition newest_of (b : list (nat * nat)) (i : nat) : option nat :=
  fold_left (fun acc p => if Nat.eqb (fst p) i then
                            match acc with None => Some (snd p) | Some m => Some (Nat.max m (snd p)) end
                          else acc) b None.
Definition inst_of (ev : list (nat * nat)) (q : nat) : option nat :=
  match find (fun p => Nat.eqb (snd p) q) ev with Some p => Some (fst p) | None => None end.

(* one observed event against the model's guards; None = the model has no such step *)
Definition gstep (s : gst) (e : cev) : option gst :=
  match e with
  | EStart i =>
      match alookup (g_procs s) i with
      | Some _ => None
      | None =>
          let lo := newest_of (g_bucket s) i in
          Some (mkG (aset (g_procs s) i (mkGP (match lo with Some _ => true | None => false end) lo [] []))
                    (g_bucket s) (g_next s) (g_ever s))
      end
  | EStop i => Some (mkG (adel (g_procs s) i) (g_bucket s) (g_next s) (g_ever s))
  | EMerge i q =>
      match alookup (g_procs s) i, inst_of (g_ever s) q with
      | Some p, Some j =>
          let clears := match g_listed p with Some lq => Nat.eqb lq q | None => false end in
          Some (mkG (aset (g_procs s) i (mkGP (if clears then false else g_waiting p) (g_listed p)
                                             (aset (g_last_by p) j q) (g_committed p)))
                    (g_bucket s) (g_next s) (g_ever s))
      | _, _ => None
      end
  | EUpload i =>
      match alookup (g_procs s) i with
      | Some p =>
          (* c_disappeared may fire silently first: the own name has no snapshots any more *)
          let waiting := g_waiting p && match newest_of (g_bucket s) i with Some _ => true | None => false end in
          if waiting then None      (* upload while still waiting for the own snapshot: NOT a model step *)
          else Some (mkG (aset (g_procs s) i (mkGP false (g_listed p) (g_last_by p) (g_last_by p)))
                         ((i, g_next s) :: g_bucket s) (S (g_next s)) ((i, g_next s) :: g_ever s))
      | None => None
      end
  | EDelete c q =>
      match alookup (g_procs s) c, inst_of (g_bucket s) q with
      | Some p, Some j =>
          let superseded := match newest_of (g_bucket s) j with Some m => Nat.ltb q m | None => false end in
          let stale := match newest_of (g_bucket s) j, alookup (g_committed p) j with
                       | Some m, Some cq => Nat.eqb m q && Nat.leb q cq
                       | _, _ => false
                       end in
          if superseded || stale
          then Some (mkG (g_procs s) (filter (fun p => negb (Nat.eqb (snd p) q)) (g_bucket s)) (g_next s) (g_ever s))
          else None
      | _, _ => None
      end
  end.

Fixpoint grun (s : gst) (l : list cev) (i : N) : option N :=   (* index of the first event without a model step *)
  match l with
  | [] => None
  | e :: l' => match gstep s e with Some s' => grun s' l' (i + 1)%N | None => Some i end
  end.

Record ccase := mkCC { cc_events : list cev }.
Definition ccheck (c : ccase) : bool := match grun (mkG [] [] 0 []) (cc_events c) 0%N with None => true | Some _ => false end.
Definition cexplain (c : ccase) := grun (mkG [] [] 0 []) (cc_events c) 0%N.
Definition cbranch (c : ccase) : N :=
  ((if existsb (fun e => match e with EDelete _ _ => true | _ => false end) (cc_events c) then 1 else 0)
   + (if existsb (fun e => match e with EStop _ => true | _ => false end) (cc_events c) then 2 else 0))%N.
Definition cbranches_all : list N := [3%N].
Definition mismatches (l : list ccase) : list N := mism ccheck l.
Definition coverage (l : list ccase) : list N := cover cbranch l.
