(* Corr/Run_codec.v — correspondence runner for the snapshot codec (area "codec", property C07).
   The Go harness ran the real hand-written codec of /repo/snapshot and the generated reference codec
   snapshot/gogosnapshot; here the SAME definitions the theorems are about are evaluated on the same
   inputs: Codec.Custom (the model of the hand-written codec) against the former, Codec.Wire (grammar +
   schema specification) against the latter. *)
From LS Require Import Base.Bytes Base.Res Merge.Model Codec.Varint Codec.Loop Codec.Wire Codec.Custom Corr.Obs.
From Coq Require Strings.Byte.
Open Scope N_scope.

(* byte strings in the cases files are lists of the 256 constructors of Coq.Init.Byte.byte (the hex string
   literals of Base.Hex cost about 0.15 ms per byte to read, these about 0.03 ms) *)
Definition bs (l : list Coq.Init.Byte.byte) : bytes := map Coq.Strings.Byte.to_N l.

(* what decoding a blob did: Unmarshal + full iteration of every DBI *)
Inductive dobs :=
| DErr
| DPanic
| DTimeout
| DOk (s : snap).

Definition kv_eqb (a b : kv) : bool :=
  beqb (k_key a) (k_key b) && beqb (k_val a) (k_val b) && (k_ts a =? k_ts b) && (k_flags a =? k_flags b).
Fixpoint list_eqb {A : Type} (eqb : A -> A -> bool) (a b : list A) : bool :=
  match a, b with
  | [], [] => true
  | x :: a', y :: b' => eqb x y && list_eqb eqb a' b'
  | _, _ => false
  end.
Definition dbi_eqb (a b : dbi) : bool :=
  beqb (db_name a) (db_name b) && (db_flags a =? db_flags b) && beqb (db_transform a) (db_transform b)
  && list_eqb kv_eqb (db_entries a) (db_entries b).
Definition meta_eqb (a b : meta) : bool :=
  beqb (m_gen a) (m_gen b) && beqb (m_inst a) (m_inst b) && beqb (m_host a) (m_host b)
  && Z.eqb (m_txn a) (m_txn b) && (m_ts a =? m_ts b) && beqb (m_dbname a) (m_dbname b) && Z.eqb (m_from a) (m_from b).
Definition snap_eqb (a b : snap) : bool :=
  (s_fmt a =? s_fmt b) && (s_compat a =? s_compat b) && meta_eqb (s_meta a) (s_meta b)
  && list_eqb dbi_eqb (s_dbis a) (s_dbis b).

Definition dobs_of_res (r : res snap) : dobs :=
  match r with
  | Ok s => DOk s
  | Err _ => DErr
  | Panic => DPanic
  | OutOfFuel => DTimeout
  end.
Definition dobs_eqb (a b : dobs) : bool :=
  match a, b with
  | DErr, DErr => true
  | DPanic, DPanic => true
  | DTimeout, DTimeout => true
  | DOk x, DOk y => snap_eqb x y
  | _, _ => false
  end.

Inductive ccase :=
(* snapshot s given to the real hand-written encoder (DBIs built as the syncer builds them, WriteTo):
   [enc] is what it wrote (or that it panicked), [dec] what the real hand-written decoder made of it *)
| CEnc (s : snap) (enc : obs) (dec : dobs)
(* the common case written short: it wrote [enc] and the decoder returned exactly s *)
| CEncS (s : snap) (enc : bytes)
(* message b of the wire grammar: [custom] = real hand-written decoder, [ref] = generated reference decoder *)
| CMsg (b : bytes) (custom ref : dobs)
(* the common case written short: both decoders returned [o] *)
| CMsgS (b : bytes) (o : dobs)
(* message b outside the wire grammar of Codec.Wire (group wire types): hand-written decoder only *)
| CCus (b : bytes) (custom : dobs)
(* DBI.Map: NewDBIFromData(data).Map(transform, f).Marshal() with f appending the byte '!' to every value *)
| CMap (data transform : bytes) (out : obs).

Definition model_decode (b : bytes) : dobs := dobs_of_res (custom_decode b).
Definition model_spec (b : bytes) : dobs := dobs_of_res (spec_decode b).

Definition model_map (data tr : bytes) : res bytes :=
  do o <- new_dbi_from_data data;
  do w <- dbi_map o tr (fun e => Ok (mkKV (k_key e) (k_val e ++ [33]) (k_ts e) (k_flags e)));
  do (b, _) <- dbi_marshal w;
  Ok b.

Definition ccheck (c : ccase) : bool :=
  match c with
  | CEnc s enc dec =>
      obs_eqb (obs_of_res (custom_encode s)) enc
      && match enc with
         | OBytes b => dobs_eqb (model_decode b) dec
         | _ => true
         end
  | CEncS s b =>
      obs_eqb (obs_of_res (custom_encode s)) (OBytes b) && dobs_eqb (model_decode b) (DOk s)
  | CMsg b cu rf => dobs_eqb (model_decode b) cu && dobs_eqb (model_spec b) rf
  | CMsgS b o => dobs_eqb (model_decode b) o && dobs_eqb (model_spec b) o
  | CCus b cu => dobs_eqb (model_decode b) cu
  | CMap data tr out => obs_eqb (obs_of_res (model_map data tr)) out
  end.

(* ---- coverage ----
   decoding side: every (message level, field, wire type) combination met while walking a grammatical
   message with the specification parser: id = 1000*level + 10*number + wire type for the numbers the
   schema knows at that level, 1000*level + 900 + wire type for unknown numbers
   (level 1 Snapshot, 2 Meta, 3 DBI, 4 KV);
   encoding side: every condition of the encoder model, both ways: 5000 + 2*i + (0|1);
   outcomes: 6000.. *)
Definition wt_of (v : wval) : N := match v with WVar _ => 0 | WF64 _ => 1 | WLen _ => 2 | WF32 _ => 5 end.
Definition known (level num : N) : bool :=
  match level with
  | 1 => (1 <=? num) && (num <=? 4)
  | 2 => ((1 <=? num) && (num <=? 5)) || (num =? 7) || (num =? 8)
  | _ => (1 <=? num) && (num <=? 4)
  end.
Definition fid (level : N) (f : field) : N :=
  let '(num, v) := f in
  if known level num then 1000 * level + 10 * num + wt_of v else 1000 * level + 900 + wt_of v.
Definition sub_fields (p : bytes) : list field := match wire_parse p with Some fs => fs | None => [] end.
Definition kv_ids (p : bytes) : list N := map (fid 4) (sub_fields p).
Definition dbi_ids (p : bytes) : list N :=
  flat_map (fun f => fid 3 f :: match f with (2, WLen q) => kv_ids q | _ => [] end) (sub_fields p).
Definition msg_ids (b : bytes) : list N :=
  flat_map (fun f => fid 1 f :: match f with
                                | (2, WLen q) => map (fid 2) (sub_fields q)
                                | (3, WLen q) => dbi_ids q
                                | _ => []
                                end) (sub_fields b).

Definition cond (i : N) (b : bool) : N := 5000 + 2 * i + (if b then 1 else 0).
Definition vsize_id (v : N) : N := 5100 + sizeof_varint v.    (* varint sizes 1..10 *)
Definition enc_ids (s : snap) : list N :=
  [cond 0 (0 <? s_fmt s); cond 1 (0 <? s_compat s);
   cond 2 (Nat.ltb 0 (length (meta_marshal (s_meta s))));
   cond 3 (0 <? m_txn (s_meta s))%Z; cond 4 (0 <? m_ts (s_meta s)); cond 5 (0 <? m_from (s_meta s))%Z;
   cond 6 (Nat.ltb 0 (length (m_gen (s_meta s))))]
  ++ flat_map (fun d =>
       [cond 7 (Nat.ltb 0 (length (db_name d))); cond 8 (0 <? db_flags d);
        cond 9 (Nat.ltb 0 (length (db_transform d))); cond 10 (Nat.ltb 0 (length (db_entries d)));
        vsize_id (db_flags d)]
       ++ flat_map (fun e =>
            [cond 11 (Nat.ltb 0 (length (k_key e))); cond 12 (Nat.ltb 0 (length (k_val e)));
             cond 13 (0 <? k_flags e); cond 14 (0 <? k_ts e);
             vsize_id (lenN (k_val e)); vsize_id (k_flags e)]) (db_entries d)) (s_dbis s).

Definition outcome_id (base : N) (o : dobs) : N :=
  base + match o with DOk _ => 0 | DErr => 1 | DPanic => 2 | DTimeout => 3 end.

Definition cids (c : ccase) : list N :=
  match c with
  | CEnc s enc dec =>
      (match enc with OBytes _ => 6010 | OPanic => 6011 | _ => 6012 end) :: outcome_id 6000 dec :: enc_ids s
  | CEncS s _ => 6010 :: 6000 :: enc_ids s
  | CMsg b cu rf => outcome_id 6020 cu :: outcome_id 6030 rf :: msg_ids b
  | CMsgS b o => outcome_id 6020 o :: outcome_id 6030 o :: msg_ids b
  | CCus b cu => [outcome_id 6040 cu]
  | CMap _ _ out => [match out with OBytes _ => 6050 | _ => 6051 end]
  end.

Definition cbranches_all : list N :=
  (* Snapshot: formatVersion, meta, databases, compatVersion, unknown x 4 wire types *)
  [1010; 1022; 1032; 1040; 1900; 1901; 1902; 1905;
  (* Meta *)
   2012; 2022; 2032; 2040; 2051; 2072; 2080; 2900; 2901; 2902; 2905;
  (* DBI *)
   3012; 3022; 3030; 3042; 3900; 3901; 3902; 3905;
  (* KV *)
   4012; 4022; 4031; 4040; 4900; 4901; 4902; 4905;
  (* encoder conditions, both ways *)
   5000; 5001; 5002; 5003; 5004; 5005; 5006; 5007; 5008; 5009; 5010; 5011; 5012; 5013; 5014; 5015;
   5016; 5017; 5018; 5019; 5020; 5021; 5022; 5023; 5024; 5025; 5026; 5027; 5028; 5029;
  (* varint sizes met by the encoder: 1, 2, 3, 4, 5 and 10 bytes *)
   5101; 5102; 5103; 5104; 5105; 5110;
  (* outcomes: encoder wrote bytes / panicked (scratch buffer); decoders ok / error *)
   6000; 6010; 6011; 6020; 6021; 6030; 6041; 6050].

Definition mismatches (l : list ccase) : list N := mism ccheck l.
Definition coverage (l : list ccase) : list N :=
  fold_left (fun acc c => fold_left (fun a x => ins x a) (cids c) acc) l [].

(* what the model says for one case (for the replay file of a disagreement) *)
Definition cexplain (c : ccase) : obs * dobs * dobs :=
  match c with
  | CEnc s enc _ =>
      (obs_of_res (custom_encode s), match enc with OBytes b => model_decode b | _ => DErr end, DErr)
  | CEncS s b => (obs_of_res (custom_encode s), model_decode b, model_spec b)
  | CMsg b _ _ | CMsgS b _ => (OBytes [], model_decode b, model_spec b)
  | CCus b _ => (OBytes [], model_decode b, DErr)
  | CMap data tr _ => (obs_of_res (model_map data tr), DErr, DErr)
  end.
