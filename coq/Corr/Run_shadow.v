(* Corr/Run_shadow.v — correspondence runner for syncer/shadow.go (mainToShadow, shadowToMain) and
   syncer/dupsorthack.go. *)
From LS Require Import Base.Bytes Base.Res Header.Model Merge.Model Strategy.Model DupSort.Model Shadow.Model Corr.Obs Corr.Run_strategy.
Open Scope N_scope.

Inductive shcase :=
| ShCapture (flags now txn cutoff : N) (main shadow : db) (o : sobs)   (* mainToShadow: resulting shadow DBI *)
| ShProject (flags : N) (main shadow : db) (o : sobs)                  (* shadowToMain: resulting application DBI *)
| ShCaptureDup (now txn cutoff : N) (main shadow : db) (o : sobs)      (* DUPSORT + dupsort_hack *)
| ShProjectDup (main shadow : db) (o : sobs).

Definition sh_model (c : shcase) : sobs :=
  match c with
  | ShCapture f now txn cut m s _ => sobs_of (main_to_shadow f now txn cut m s)
  | ShProject f m s _ => sobs_of (shadow_to_main f m s)
  | ShCaptureDup now txn cut m s _ => sobs_of (main_to_shadow_dup now txn cut m s)
  | ShProjectDup m s _ => sobs_of (shadow_to_main_dup m s)
  end.
Definition sh_obs (c : shcase) : sobs :=
  match c with
  | ShCapture _ _ _ _ _ _ o | ShProject _ _ _ o | ShCaptureDup _ _ _ _ _ o | ShProjectDup _ _ o => o
  end.
Definition shcheck (c : shcase) : bool := sobs_eqb (sh_model c) (sh_obs c).

Definition shbranch (c : shcase) : N :=
  let outcome := match sh_model c with SDb _ => 1 | SErr _ => 2 | SPanic => 3 end in
  match c with
  | ShCapture f _ _ _ _ _ _ => (if has_flag f IntegerKeyFlag then 10 else 0) + outcome
  | ShProject f _ _ _ => 20 + (if has_flag f IntegerKeyFlag then 10 else 0) + outcome
  | ShCaptureDup _ _ _ _ _ _ => 40 + outcome
  | ShProjectDup _ _ _ => 50 + outcome
  end.
Definition shbranches_all : list N := [1;2;11;21;22;31;41;42;51;52].

Definition mismatches (l : list shcase) : list N := mism shcheck l.
Definition coverage (l : list shcase) : list N := cover shbranch l.

