(* Corr/Run_fleet.v — correspondence runner for whole fleets: real Syncers (native mode) exchanging real
   snapshots through one bucket; the history is replayed on the PROVEN Fleet model (stores as functions) and
   the logical content of every instance's LMDB is compared key by key. *)
From LS Require Import Base.Bytes Base.Res Merge.Version Merge.Order Fleet.Model Corr.Obs.
Open Scope N_scope.

Definition K := bytes.   (* DBI name ++ [0] ++ key *)
Definition K_eq_dec : forall a b : K, {a = b} + {a <> b} := list_eq_dec N.eq_dec.

Inductive fop :=
| FWrite (i : nat) (k : K) (v : ver)
| FUpload (i : nat)
| FMerge (i : nat) (x : nat)      (* x = index of the snapshot in upload order (0 = first upload) *)
| FReset (i : nat).               (* instance i restarts under the same name with an EMPTIED LMDB *)

Definition vle_b (a : option ver) (b : ver) : bool :=
  match a with None => true | Some x => ver_eqb x b || wins b x end.

(* executable replay of Fleet steps; None when a step's precondition does not hold *)
Definition fapply (s : sys K) (o : fop) : option (sys K) :=
  match o with
  | FWrite i k v =>
      if vle_b (st K s i k) v
      then Some (mkSys K (upd_inst K (st K s) i (upd K K_eq_dec (st K s i) k (Some v))) (snaps K s) ((i, k, v) :: written K s))
      else None
  | FUpload i => Some (mkSys K (st K s) (snaps K s ++ [(i, st K s i)]) (written K s))
  | FMerge i x =>
      match nth_error (snaps K s) x with
      | Some sn => Some (mkSys K (upd_inst K (st K s) i (fun k => ojoin2 (st K s i k) (snd sn k))) (snaps K s) (written K s))
      | None => None
      end
  | FReset i => Some (mkSys K (upd_inst K (st K s) i (fun _ => None)) (snaps K s) (written K s))
  end.
Fixpoint frun (s : sys K) (l : list fop) : option (sys K) :=
  match l with
  | [] => Some s
  | o :: l' => match fapply s o with Some s' => frun s' l' | None => None end
  end.

Record fcase := mkFC { fc_ops : list fop; fc_obs : list (nat * K * option ver) }.

Definition over_eqb (a b : option ver) : bool :=
  match a, b with
  | None, None => true
  | Some x, Some y => ver_eqb x y
  | _, _ => false
  end.

Definition fcheck (c : fcase) : bool :=
  match frun (finit K) (fc_ops c) with
  | Some s => forallb (fun o => match o with (i, k, v) => over_eqb (st K s i k) v end) (fc_obs c)
  | None => false
  end.
Definition fexplain (c : fcase) :=
  match frun (finit K) (fc_ops c) with
  | Some s => Some (filter (fun o => match o with (i, k, v, m) => negb (over_eqb m v) end)
                           (map (fun o => match o with (i, k, v) => (i, k, v, st K s i k) end) (fc_obs c)))
  | None => None
  end.

Definition fbranch (c : fcase) : N :=
  (if existsb (fun o => match o with FMerge _ _ => true | _ => false end) (fc_ops c) then 1 else 0)
  + (if existsb (fun o => match o with FWrite _ _ v => del v | _ => false end) (fc_ops c) then 2 else 0)
  + (if existsb (fun o => match o with FReset _ => true | _ => false end) (fc_ops c) then 4 else 0).
Definition fbranches_all : list N := [3; 7].

Definition mismatches (l : list fcase) : list N := mism fcheck l.
Definition coverage (l : list fcase) : list N := cover fbranch l.
