(* Corr/Run_merge.v — correspondence runner for syncer/iterators.go. *)
From LS Require Import Base.Bytes Base.Res Header.Model Merge.Model Corr.Obs.
Open Scope N_scope.

Inductive mcase :=
| MMerge (c : iter_cfg) (compat : N) (old : bytes) (e : kv) (o : obs)  (* NewNativeIterator; Next; Merge(old) *)
| MClean (c : iter_cfg) (compat : N) (old : bytes) (o : obs)           (* ...; Clean(old) *)
| MPlain (old : bytes) (e : kv) (om oc : obs).                          (* PlainIterator Merge / Clean *)

Definition model_merge (c : iter_cfg) (compat : N) (old : bytes) (e : kv) : obs :=
  match new_native_iterator (c_fmt c) compat (c_txn c) with
  | Ok _ => obs_of_res (native_merge c old e)
  | r => obs_of_res (match r with Ok _ => Ok [] | Err x => Err x | Panic => Panic | OutOfFuel => OutOfFuel end)
  end.

Definition model_clean (c : iter_cfg) (compat : N) (old : bytes) : obs :=
  match new_native_iterator (c_fmt c) compat (c_txn c) with
  | Ok _ => obs_of_res (native_clean c old)
  | r => obs_of_res (match r with Ok _ => Ok [] | Err x => Err x | Panic => Panic | OutOfFuel => OutOfFuel end)
  end.

Definition mcheck (m : mcase) : bool :=
  match m with
  | MMerge c compat old e o => obs_eqb (model_merge c compat old e) o
  | MClean c compat old o => obs_eqb (model_clean c compat old) o
  | MPlain old e om oc => obs_eqb (obs_of_res (plain_merge e)) om && obs_eqb (obs_of_res (plain_clean old)) oc
  end.

(* which path of native_merge a case takes (for coverage) *)
Definition mbranch (m : mcase) : N :=
  match m with
  | MMerge c compat old e _ =>
      match new_native_iterator (c_fmt c) compat (c_txn c) with
      | Ok _ =>
          match old with
          | [] => if is_deleted (masked_flags e) && (k_ts e <? c_cutoff c) then 1 else 2
          | _ =>
              match parse old with
              | Ok (h, app) =>
                  let oldDeleted := is_deleted (h_flags h) in
                  let newDeleted := is_deleted (masked_flags e)
                                    || (Nat.eqb (length (k_val e)) 0 && (c_fmt c <? 2)) in
                  let ev := if newDeleted then [] else k_val e in
                  if (k_ts e =? 0) && beqb app ev && Bool.eqb oldDeleted newDeleted then 3
                  else
                    let newTS := if k_ts e =? 0 then c_default_ts c else k_ts e in
                    if newTS <? h_ts h then 4
                    else if newTS =? h_ts h then
                      (if is_lt (bcmp app ev) then 5
                       else if is_eq (bcmp app ev) then
                         (if oldDeleted || negb newDeleted then 6 else 7)
                       else 8)
                    else 9
              | _ => 10
              end
          end
      | _ => 11
      end
  | MClean c compat old _ =>
      match new_native_iterator (c_fmt c) compat (c_txn c) with
      | Ok _ => match parse old with
                | Ok (h, _) => if is_deleted (h_flags h) then 20 else 21
                | _ => 22
                end
      | _ => 23
      end
  | MPlain _ _ _ _ => 30
  end.
Definition mbranches_all : list N := [1;2;3;4;5;6;7;8;9;10;11;20;21;22;23;30].

Definition mismatches (l : list mcase) : list N := mism mcheck l.
Definition coverage (l : list mcase) : list N := cover mbranch l.
