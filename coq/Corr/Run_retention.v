(* Corr/Run_retention.v — correspondence runner for the retention arithmetic:
   config.Sweeper.RetentionDurationMinusCutoff, header.TimestampFromTime(now.Add(-R)) (the
   sweeper's cutoff) and Syncer.deletedCutoff (through VerifDeletedCutoff). *)
From LS Require Import Base.Bytes Base.Res Retention.Model Corr.Obs.
Open Scope Z_scope.

(* R = RetentionDuration() and c = RetentionLoadCutoffDuration as int64 nanoseconds,
   t = now.UnixNano(), enabled = Sweeper.Enabled; observed: RetentionDurationMinusCutoff(),
   TimestampFromTime(now.Add(-R)), deletedCutoff(now) *)
Inductive rcase := RCase (R c t : Z) (enabled : bool) (o_rmc : Z) (o_sweep o_del : N).

Definition rcheck (x : rcase) : bool :=
  match x with
  | RCase R c t en o_rmc o_sweep o_del =>
      (rmc R c =? o_rmc) && (sweep_cutoff t R =? o_sweep)%N && (deleted_cutoff en t R c =? o_del)%N
  end.

(* model output, for replay files *)
Definition rmodel (x : rcase) : Z * N * N :=
  match x with RCase R c t en _ _ _ => (rmc R c, sweep_cutoff t R, deleted_cutoff en t R c) end.

(* branches: 1-3 rmc path; 11/12 sweep cutoff clamped / not; 21/22 load cutoff clamped / not;
   31/32 sweeper enabled / disabled; 41/42/43 load cutoff <, =, > sweep cutoff *)
Definition rbranches (x : rcase) : list N :=
  match x with
  | RCase R c t en _ _ _ =>
      [ rmc_branch R c;
        (if (add_neg t R <? 0)%Z then 11%N else 12%N);
        (if (add_neg t (rmc R c) <? 0)%Z then 21%N else 22%N);
        (if en then 31 else 32)%N;
        (match N.compare (load_cutoff t R c) (sweep_cutoff t R) with Lt => 41 | Eq => 42 | Gt => 43 end)%N ]
  end.
Definition rbranches_all : list N := [1; 2; 3; 11; 12; 21; 22; 31; 32; 41; 42; 43]%N.

Definition mismatches (l : list rcase) : list N := mism rcheck l.
Definition coverage (l : list rcase) : list N :=
  fold_left (fun acc x => fold_left (fun a b => ins b a) (rbranches x) acc) l [].
