(* Retention/Model.v — the retention arithmetic shared by the tomb sweeper and the snapshot loader.
   Mirrors config/config.go Sweeper.RetentionDurationMinusCutoff, syncer/utils.go deletedCutoff,
   the cutoff computation at the top of syncer/sweeper/sweeper.go sweep, and
   lmdbenv/header/header.go TimestampFromTime.

   time.Duration and Time.UnixNano() are Go int64 (two's complement, silent wrap-around);
   header.Timestamp is uint64.  Every int64 operation is written with its wrap ([wrap64]), the
   int64 -> uint64 conversion is [to_uint64], Go's `/` on int64 truncates toward zero ([Z.quot]).

   R = Sweeper.RetentionDuration() is an INPUT of the model: it is
   time.Duration(RetentionDays * float32(24*time.Hour)), a float32 product converted to int64,
   computed by Go in the correspondence (any int64 can come out, including negative values).
   No proofs here. *)
From LS Require Import Base.Bytes Base.Res.
Open Scope Z_scope.

(* an int64 result: reduce modulo 2^64 into [-2^63, 2^63) *)
Definition wrap64 (z : Z) : Z := to_int64 (to_uint64 z).

Definition min_int64 : Z := - 9223372036854775808.
Definition max_int64 : Z := 9223372036854775807.
Definition is_int64 (z : Z) : bool := (min_int64 <=? z) && (z <=? max_int64).

(* Go: config.Sweeper.RetentionDurationMinusCutoff, with retention := sw.RetentionDuration() = R
   and c = sw.RetentionLoadCutoffDuration *)
Definition rmc (R c : Z) : Z :=
  if 0 <? c then
    let maxBuffer := wrap64 (Z.quot R 4 * 3) in          (* retention / 4 * 3 *)
    let buffer := if maxBuffer <? c then maxBuffer else c in
    wrap64 (R - buffer)
  else
    wrap64 (R - Z.quot R 100).                            (* retention -= retention / 100 *)

(* branch taken by [rmc] (coverage): 1 cutoff duration capped at 75%, 2 cutoff duration used,
   3 default 1% *)
Definition rmc_branch (R c : Z) : N :=
  if 0 <? c then (if wrap64 (Z.quot R 4 * 3) <? c then 1%N else 2%N) else 3%N.

(* Go: header.TimestampFromTime(t) where t.UnixNano() = ns (the clamp of commit 31f909d) *)
Definition ts_from_ns (ns : Z) : N := if ns <? 0 then 0%N else to_uint64 ns.

(* Go: now.Add(-d).UnixNano() where now.UnixNano() = t.  `-d` is an int64 negation (wraps for
   minInt64); Time.Add is exact on (sec, nsec) and UnixNano reduces the exact value modulo 2^64 *)
Definition add_neg (t d : Z) : Z := wrap64 (t + wrap64 (- d)).

(* Go: sweeper.sweep: cutoffTS := header.TimestampFromTime(time.Now().Add(-retention)) *)
Definition sweep_cutoff (t R : Z) : N := ts_from_ns (add_neg t R).

(* Go: Syncer.deletedCutoff(now) with Sweeper.Enabled = true *)
Definition load_cutoff (t R c : Z) : N := ts_from_ns (add_neg t (rmc R c)).

(* Go: Syncer.deletedCutoff(now) *)
Definition deleted_cutoff (enabled : bool) (t R c : Z) : N :=
  if enabled then load_cutoff t R c else 0%N.

(* ---- the arithmetic BEFORE commit 31f909d (kept for the regression examples only) ---- *)

(* maxBuffer := retention * 3 / 4 *)
Definition rmc_prefix (R c : Z) : Z :=
  if 0 <? c then
    let maxBuffer := Z.quot (wrap64 (R * 3)) 4 in
    let buffer := if maxBuffer <? c then maxBuffer else c in
    wrap64 (R - buffer)
  else
    wrap64 (R - Z.quot R 100).
(* return Timestamp(t.UnixNano()) *)
Definition ts_from_ns_prefix (ns : Z) : N := to_uint64 ns.
Definition sweep_cutoff_prefix (t R : Z) : N := ts_from_ns_prefix (add_neg t R).
Definition load_cutoff_prefix (t R c : Z) : N := ts_from_ns_prefix (add_neg t (rmc_prefix R c)).
