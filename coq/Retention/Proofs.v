(* Retention/Proofs.v — the load cutoff is never younger than the sweep cutoff. *)
From LS Require Import Base.Bytes Base.BytesProofs Base.Res Header.Model Merge.Model Retention.Model.
From Coq Require Import ZifyN ZifyNat ZifyBool.
Open Scope Z_scope.

Lemma two64_val : Z.of_N two64 = 18446744073709551616. Proof. reflexivity. Qed.
Lemma two63_val : Z.of_N two63 = 9223372036854775808. Proof. reflexivity. Qed.

Lemma to_uint64_small z : 0 <= z < 18446744073709551616 -> Z.of_N (to_uint64 z) = z.
Proof.
  intros H. unfold to_uint64. rewrite two64_val.
  rewrite Z.mod_small by lia. rewrite Z2N.id by lia. reflexivity.
Qed.

Lemma wrap64_id z : min_int64 <= z <= max_int64 -> wrap64 z = z.
Proof.
  unfold min_int64, max_int64. intros H. unfold wrap64, to_int64, to_uint64.
  rewrite two64_val.
  destruct (Z.ltb_spec z 0) as [Hn|Hp].
  - assert (E : z mod 18446744073709551616 = z + 18446744073709551616).
    { symmetry. apply Z.mod_unique with (q := -1); lia. }
    rewrite E.
    assert (Hb : (Z.to_N (z + 18446744073709551616) <? two63)%N = false).
    { apply N.ltb_ge. unfold two63. lia. }
    rewrite Hb. rewrite Z2N.id by lia. lia.
  - rewrite Z.mod_small by lia.
    assert (Hb : (Z.to_N z <? two63)%N = true).
    { apply N.ltb_lt. unfold two63. lia. }
    rewrite Hb. rewrite Z2N.id by lia. reflexivity.
Qed.

Lemma quot_nonneg_bounds R d : 0 <= R -> 0 < d -> 0 <= Z.quot R d /\ Z.quot R d * d <= R /\ R < (Z.quot R d + 1) * d.
Proof.
  intros HR Hd. rewrite Z.quot_div_nonneg by lia.
  pose proof (Z.div_mod R d ltac:(lia)) as E.
  pose proof (Z.mod_pos_bound R d Hd) as B.
  assert (0 <= R / d) by (apply Z.div_pos; lia).
  nia.
Qed.

(* the load retention never exceeds the sweep retention and is never negative: every
   RetentionLoadCutoffDuration (zero, negative, larger than R, any int64 and beyond) *)
Theorem rmc_bounds R c : 0 <= R <= max_int64 -> 0 <= rmc R c <= R.
Proof.
  intros HR. unfold rmc.
  destruct (quot_nonneg_bounds R 4 ltac:(lia) ltac:(lia)) as (Q0 & Q1 & Q2).
  destruct (quot_nonneg_bounds R 100 ltac:(lia) ltac:(lia)) as (P0 & P1 & P2).
  unfold max_int64 in *.
  destruct (Z.ltb_spec 0 c) as [Hc|Hc].
  - rewrite (wrap64_id (Z.quot R 4 * 3)) by (unfold min_int64, max_int64; lia).
    destruct (Z.ltb_spec (Z.quot R 4 * 3) c) as [Hm|Hm];
      rewrite wrap64_id by (unfold min_int64, max_int64; lia); lia.
  - rewrite wrap64_id by (unfold min_int64, max_int64; lia). lia.
Qed.

Lemma add_neg_exact t d : 0 <= t <= max_int64 -> 0 <= d <= max_int64 -> add_neg t d = t - d.
Proof.
  unfold max_int64. intros Ht Hd. unfold add_neg.
  rewrite (wrap64_id (- d)) by (unfold min_int64, max_int64; lia).
  rewrite wrap64_id by (unfold min_int64, max_int64; lia). lia.
Qed.

Lemma ts_from_ns_mono a b : min_int64 <= a -> a <= b -> b <= max_int64 -> (ts_from_ns a <= ts_from_ns b)%N.
Proof.
  unfold min_int64, max_int64. intros Ha Hab Hb. unfold ts_from_ns.
  destruct (Z.ltb_spec a 0) as [Ha0|Ha0]; destruct (Z.ltb_spec b 0) as [Hb0|Hb0]; try lia.
  pose proof (to_uint64_small a ltac:(lia)). pose proof (to_uint64_small b ltac:(lia)). lia.
Qed.

(* the sweeper's cutoff, when the retention fits before `now`: exactly now - R (no wrap) *)
Theorem sweep_cutoff_exact t R : 0 <= R -> R <= t -> t <= max_int64 ->
  Z.of_N (sweep_cutoff t R) = t - R.
Proof.
  unfold max_int64. intros HR Ht Hm. unfold sweep_cutoff.
  rewrite add_neg_exact by (unfold max_int64; lia). unfold ts_from_ns.
  destruct (Z.ltb_spec (t - R) 0); [lia|]. apply to_uint64_small. lia.
Qed.

(* a retention reaching before the UNIX epoch: the clamp gives cutoff 0 *)
Theorem sweep_cutoff_clamped t R : 0 <= t -> t < R -> R <= max_int64 -> sweep_cutoff t R = 0%N.
Proof.
  unfold max_int64. intros Ht HR Hm. unfold sweep_cutoff.
  rewrite add_neg_exact by (unfold max_int64; lia). unfold ts_from_ns.
  destruct (Z.ltb_spec (t - R) 0); [reflexivity|lia].
Qed.

(* the cutoff never lies after `now`: an entry stamped at or after the start of the pass is
   never "expired" *)
Theorem sweep_cutoff_le_now t R : 0 <= t <= max_int64 -> 0 <= R <= max_int64 ->
  Z.of_N (sweep_cutoff t R) <= t.
Proof.
  intros Ht HR. destruct (Z.le_gt_cases R t).
  - rewrite sweep_cutoff_exact; lia.
  - rewrite sweep_cutoff_clamped; lia.
Qed.

(* the core of "no bounce": the load cutoff of any later time is at least the sweep cutoff *)
Theorem cutoff_mono ts tl R c :
  0 <= R <= max_int64 -> 0 <= ts -> ts <= tl -> tl <= max_int64 ->
  (sweep_cutoff ts R <= load_cutoff tl R c)%N.
Proof.
  intros HR H0 Hle Hm. pose proof (rmc_bounds R c HR) as Hb.
  unfold sweep_cutoff, load_cutoff.
  rewrite !add_neg_exact by lia.
  unfold max_int64 in *. apply ts_from_ns_mono; unfold min_int64, max_int64; lia.
Qed.

Theorem stale_stays_stale ts tl R c m :
  0 <= R <= max_int64 -> 0 <= ts -> ts <= tl -> tl <= max_int64 ->
  (m < sweep_cutoff ts R)%N -> (m < load_cutoff tl R c)%N.
Proof. intros HR H0 Hle Hm Hlt. pose proof (cutoff_mono ts tl R c HR H0 Hle Hm). lia. Qed.

(* combined with the merge rule for an absent key: a deletion marker the sweeper may have removed
   (timestamp below the sweep cutoff of a pass started at t_sweep) is not re-created by a snapshot
   load started at any t_load >= t_sweep *)
Theorem no_bounce cfg e ts tl R c :
  0 <= R <= max_int64 -> 0 <= ts -> ts <= tl -> tl <= max_int64 ->
  c_cutoff cfg = deleted_cutoff true tl R c ->
  (is_deleted (masked_flags e) || (Nat.eqb (length (k_val e)) 0 && (c_fmt cfg <? 2)%N)) = true ->
  (k_ts e < sweep_cutoff ts R)%N ->
  native_merge cfg [] e = Ok [].
Proof.
  intros HR H0 Hle Hm Hc Hd Hlt. cbn [native_merge]. rewrite Hd, Hc. cbn [deleted_cutoff].
  pose proof (stale_stays_stale ts tl R c (k_ts e) HR H0 Hle Hm Hlt) as Hl.
  apply N.ltb_lt in Hl. rewrite Hl. reflexivity.
Qed.

(* and the converse side of the rule, so the statement above is not vacuous about the cutoff:
   a marker at or above the load cutoff IS created on an absent key *)
Theorem young_marker_loaded cfg e :
  is_deleted (masked_flags e) = true -> (c_cutoff cfg <= k_ts e)%N ->
  native_merge cfg [] e = Ok (add_header cfg (k_val e) (k_ts e) (masked_flags e)).
Proof.
  intros Hd Hle. cbn [native_merge]. rewrite Hd.
  apply N.ltb_ge in Hle. rewrite Hle. reflexivity.
Qed.
