(* DupSort/Proofs.v — the dupsort hack maps (key, value) pairs reversibly or refuses them. *)
From LS Require Import Base.Bytes Base.BytesProofs Base.Res Merge.Model DupSort.Model.
From Coq Require Import ZifyN ZifyNat ZifyBool Sorted.
Open Scope N_scope.

Definition vpart (e : kv) : bytes :=
  let remaining := (LMDBMaxKeySize - (length (k_key e) + 4) - 1)%nat in
  if Nat.ltb remaining (length (k_val e)) then firstn remaining (k_val e) else k_val e.

Lemma enc_one_ok e :
  (1 <= length (k_key e) <= 255)%nat ->
  enc_one e = Ok (mkKV (k_key e ++ [0;0;0;0] ++ vpart e ++ [N.of_nat (length (k_key e))]) (k_val e) 0 (k_flags e)).
Proof.
  intros [H1 H2]. unfold enc_one.
  replace (Nat.eqb (length (k_key e)) 0) with false by (symmetry; apply Nat.eqb_neq; lia).
  replace (Nat.ltb DupSortHackMaxKeySize (length (k_key e))) with false by (symmetry; apply Nat.ltb_ge; unfold DupSortHackMaxKeySize; lia).
  unfold vpart. rewrite app_length. cbn [length]. rewrite <- !app_assoc. reflexivity.
Qed.

Lemma enc_one_err e : ~ (1 <= length (k_key e) <= 255)%nat -> enc_one e = Err ERefused.
Proof.
  intros H. unfold enc_one. destruct (Nat.eqb (length (k_key e)) 0) eqn:E0; [reflexivity|].
  apply Nat.eqb_neq in E0.
  replace (Nat.ltb DupSortHackMaxKeySize (length (k_key e))) with true; [reflexivity|].
  symmetry. apply Nat.ltb_lt. unfold DupSortHackMaxKeySize. lia.
Qed.

Lemma vpart_len e : (length (k_key e) <= 255)%nat -> (length (vpart e) <= 511 - (length (k_key e) + 4) - 1)%nat.
Proof.
  intros H. unfold vpart, LMDBMaxKeySize.
  destruct (Nat.ltb _ _) eqn:E.
  - rewrite firstn_length. lia.
  - apply Nat.ltb_ge in E. exact E.
Qed.

(* legal LMDB key length *)
Theorem enc_one_len e e' : enc_one e = Ok e' -> (6 <= length (k_key e') <= 511)%nat.
Proof.
  intros H.
  destruct (Nat.eq_dec (length (k_key e)) 0) as [E0|E0];
    [rewrite enc_one_err in H by lia; discriminate|].
  destruct (le_lt_dec (length (k_key e)) 255) as [L|L];
    [|rewrite enc_one_err in H by lia; discriminate].
  rewrite enc_one_ok in H by lia. injection H as <-. cbn [k_key].
  pose proof (vpart_len e L). rewrite !app_length. cbn [length]. rewrite app_length. cbn [length]. lia.
Qed.

(* the original pair is recovered exactly *)
Theorem dec_enc_one e e' :
  enc_one e = Ok e' -> dec_one e' = Ok (mkKV (k_key e) (k_val e) 0 (k_flags e)).
Proof.
  intros H.
  destruct (Nat.eq_dec (length (k_key e)) 0) as [E0|E0];
    [rewrite enc_one_err in H by lia; discriminate|].
  destruct (le_lt_dec (length (k_key e)) 255) as [L|L];
    [|rewrite enc_one_err in H by lia; discriminate].
  rewrite enc_one_ok in H by lia. injection H as <-.
  unfold dec_one. cbn [k_key k_val k_flags].
  set (k := k_key e) in *. set (vp := vpart e) in *. cbn [app].
  set (full := k ++ 0 :: 0 :: 0 :: 0 :: vp ++ [N.of_nat (length k)]).
  assert (Hlast : last full 0 = N.of_nat (length k)).
  { unfold full. change (k ++ 0 :: 0 :: 0 :: 0 :: vp ++ [N.of_nat (length k)])
      with (k ++ [0;0;0;0] ++ vp ++ [N.of_nat (length k)]). rewrite !app_assoc. apply last_last. }
  rewrite Hlast, Nat2N.id.
  assert (Hn : length full = (length k + 4 + length vp + 1)%nat)
    by (unfold full; rewrite app_length; cbn [length]; rewrite app_length; cbn [length]; lia).
  rewrite Hn.
  replace (Nat.ltb (length k + 4 + length vp + 1) 6) with false by (symmetry; apply Nat.ltb_ge; lia).
  replace (Nat.ltb (length k + 4 + length vp + 1) (length k + 5)) with false by (symmetry; apply Nat.ltb_ge; lia).
  assert (Hnth : forall i, (i < 4)%nat -> nth (length k + i) full 0 = 0).
  { intros i Hi. unfold full. rewrite app_nth2 by lia. replace (length k + i - length k)%nat with i by lia.
    destruct i as [|[|[|[|i]]]]; try reflexivity. lia. }
  rewrite <- (Nat.add_0_r (length k)) at 1. rewrite !Hnth by lia. cbn [N.eqb andb negb].
  unfold full. rewrite firstn_app, firstn_all, Nat.sub_diag. cbn [firstn]. rewrite app_nil_r. reflexivity.
Qed.

(* Encode of a whole DBI: when it succeeds the shadow keys are strictly increasing in byte order —
   hence distinct and order preserving — and every pair is recovered by decoding *)
Lemma hack_encode_from_spec l : forall prev r,
  hack_encode_from prev l = Ok r ->
  Forall2 (fun e e' => enc_one e = Ok e') l r /\
  StronglySorted (fun a b => bcmp a b = Lt) (prev :: map k_key r).
Proof.
  induction l as [|e l IH]; intros prev r H.
  - cbn in H. injection H as <-. split; constructor; constructor.
  - cbn [hack_encode_from] in H. destruct (enc_one e) as [e'| | |] eqn:Ee; try discriminate.
    destruct (bcmp prev (k_key e')) eqn:C; try discriminate.
    destruct (hack_encode_from (k_key e') l) as [r'| | |] eqn:Er; try discriminate.
    injection H as <-. destruct (IH _ _ Er) as [HF HS]. split; [constructor; auto|].
    cbn [map]. constructor; [exact HS|].
    constructor; [exact C|]. inversion HS as [|? ? _ Hall]; subst.
    eapply Forall_impl; [|exact Hall]. intros x Hx. eapply bcmp_lt_trans; eauto.
Qed.

Theorem hack_encode_spec l r :
  hack_encode l = Ok r ->
  Forall2 (fun e e' => enc_one e = Ok e') l r /\
  StronglySorted (fun a b => bcmp a b = Lt) (map k_key r).
Proof.
  intros H. destruct (hack_encode_from_spec l [] r H) as [HF HS]. split; [exact HF|].
  inversion HS; assumption.
Qed.

Theorem hack_decode_encode l r :
  hack_encode l = Ok r ->
  hack_decode r = Ok (map (fun e => mkKV (k_key e) (k_val e) 0 (k_flags e)) l).
Proof.
  intros H. destruct (hack_encode_spec l r H) as [HF _]. clear H.
  induction HF as [|e e' l r He _ IH]; [reflexivity|].
  cbn [hack_decode map]. rewrite (dec_enc_one e e' He), IH. reflexivity.
Qed.

(* refusals: data with an empty or too long key is never accepted *)
Theorem hack_encode_keys_ok l r :
  hack_encode l = Ok r -> Forall (fun e => (1 <= length (k_key e) <= 255)%nat) l.
Proof.
  intros H. destruct (hack_encode_spec l r H) as [HF _]. clear H.
  induction HF as [|e e' l r He _ IH]; constructor; [|exact IH].
  destruct (Nat.eq_dec (length (k_key e)) 0) as [E0|E0];
    [rewrite enc_one_err in He by lia; discriminate|].
  destruct (le_lt_dec (length (k_key e)) 255) as [L|L];
    [lia|rewrite enc_one_err in He by lia; discriminate].
Qed.

(* the result is total: Ok or a refusal, never a panic *)
Theorem hack_encode_total l : forall prev, (exists r, hack_encode_from prev l = Ok r) \/ hack_encode_from prev l = Err ERefused.
Proof.
  induction l as [|e l IH]; intros prev; [left; eexists; reflexivity|].
  cbn [hack_encode_from].
  destruct (Nat.eq_dec (length (k_key e)) 0) as [E0|E0];
    [rewrite enc_one_err by lia; right; reflexivity|].
  destruct (le_lt_dec (length (k_key e)) 255) as [L|L];
    [|rewrite enc_one_err by lia; right; reflexivity].
  rewrite enc_one_ok by lia.
  destruct (bcmp prev _); try (right; reflexivity).
  match goal with |- context [hack_encode_from ?p l] => destruct (IH p) as [[r ->]| ->] end;
    [left; eexists; reflexivity|right; reflexivity].
Qed.
