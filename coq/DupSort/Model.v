(* DupSort/Model.v — mirrors syncer/dupsorthack.go: dupSortHackEncodeOne/DecodeOne/Encode/Decode.
   No proofs here. *)
From LS Require Import Base.Bytes Base.Res Merge.Model.
Open Scope N_scope.

Definition LMDBMaxKeySize : nat := 511.
Definition DupSortHackMaxKeySize : nat := 255.

(* Go: dupSortHackEncodeOne — the result copies Key, Value and Flags only (TimestampNano is dropped) *)
Definition enc_one (e : kv) : res kv :=
  if Nat.eqb (length (k_key e)) 0 then Err ERefused
  else if Nat.ltb DupSortHackMaxKeySize (length (k_key e)) then Err ERefused
  else
    let key := k_key e ++ [0;0;0;0] in
    let remaining := (LMDBMaxKeySize - length key - 1)%nat in
    let key := key ++ (if Nat.ltb remaining (length (k_val e)) then firstn remaining (k_val e) else k_val e) in
    let key := key ++ [N.of_nat (length (k_key e))] in
    Ok (mkKV key (k_val e) 0 (k_flags e)).

(* Go: dupSortHackDecodeOne *)
Definition dec_one (e : kv) : res kv :=
  let n := length (k_key e) in
  if Nat.ltb n 6 then Err ERefused
  else
    let keyLen := N.to_nat (last (k_key e) 0) in
    if Nat.ltb n (keyLen + 5) then Err ERefused
    else if negb ((nth keyLen (k_key e) 0 =? 0) && (nth (keyLen + 1) (k_key e) 0 =? 0)
                  && (nth (keyLen + 2) (k_key e) 0 =? 0) && (nth (keyLen + 3) (k_key e) 0 =? 0))
    then Err ERefused
    else Ok (mkKV (firstn keyLen (k_key e)) (k_val e) 0 (k_flags e)).

(* Go: dupSortHackEncode — DBI.Map with the uniqueness / order check against the previous key *)
Fixpoint hack_encode_from (prev : bytes) (l : list kv) : res (list kv) :=
  match l with
  | [] => Ok []
  | e :: l' =>
      match enc_one e with
      | Ok e' =>
          match bcmp prev (k_key e') with
          | Eq => Err ERefused   (* not unique *)
          | Gt => Err ERefused   (* reverse sort order *)
          | Lt => match hack_encode_from (k_key e') l' with
                  | Ok r => Ok (e' :: r)
                  | Err x => Err x | Panic => Panic | OutOfFuel => OutOfFuel
                  end
          end
      | Err x => Err x | Panic => Panic | OutOfFuel => OutOfFuel
      end
  end.
Definition hack_encode (l : list kv) : res (list kv) := hack_encode_from [] l.

(* Go: dupSortHackDecode *)
Fixpoint hack_decode (l : list kv) : res (list kv) :=
  match l with
  | [] => Ok []
  | e :: l' =>
      match dec_one e with
      | Ok e' => match hack_decode l' with
                 | Ok r => Ok (e' :: r)
                 | Err x => Err x | Panic => Panic | OutOfFuel => OutOfFuel
                 end
      | Err x => Err x | Panic => Panic | OutOfFuel => OutOfFuel
      end
  end.
