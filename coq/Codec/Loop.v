(* Codec/Loop.v — the loop combinator used to mirror Go `for` loops of the snapshot codec.
   A loop body maps a state to: continue with a new state ([inl]), or leave the loop with a value
   ([inr]); errors and panics leave the loop too. The fuel bounds the number of iterations; running
   out of it is [OutOfFuel], never a value. [loop_steps] counts the iterations the same loop
   executes, each weighted by [cost] (1 + the iterations of the loops nested in that iteration).
   No proofs here (see Codec/Util.v). *)
From LS Require Import Base.Bytes Base.Res.
Open Scope N_scope.

Fixpoint loop {S A : Type} (body : S -> res (S + A)) (fuel : nat) (s : S) : res A :=
  match fuel with
  | O => OutOfFuel
  | Datatypes.S f =>
      match body s with
      | Ok (inl s') => loop body f s'
      | Ok (inr a) => Ok a
      | Err e => Err e
      | Panic => Panic
      | OutOfFuel => OutOfFuel
      end
  end.

Fixpoint loop_steps {S A : Type} (body : S -> res (S + A)) (cost : S -> N) (fuel : nat) (s : S) : N :=
  match fuel with
  | O => 0
  | Datatypes.S f =>
      cost s + match body s with
               | Ok (inl s') => loop_steps body cost f s'
               | _ => 0
               end
  end.

(* sequential composition over a list, left to right, stopping at the first non-Ok *)
Fixpoint mapM {A B : Type} (f : A -> res B) (l : list A) : res (list B) :=
  match l with
  | [] => Ok []
  | x :: l' => do y <- f x; do ys <- mapM f l'; Ok (y :: ys)
  end.

Definition sumN {A : Type} (f : A -> N) (l : list A) : N := fold_right (fun x acc => f x + acc) 0 l.
