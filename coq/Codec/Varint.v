(* Codec/Varint.v — mirrors the base-128 varint functions of csproto
   (github.com/wojas/csproto@0e013c7984a2: encoder.go EncodeVarint/EncodeTag, sizeof.go SizeOfVarint,
   decoder.go DecodeVarint). Values are uint64 (N below 2^64); the number of bytes consumed is a Go
   int (Z). A byte b of the input is a N below 256; `b & 0x7f` is written [b mod 128] and
   `b & 0x80 == 0` / `b < 0x80` is written [b <? 128] (the same thing for every real byte).
   No proofs here (see Codec/VarintProofs.v). *)
From LS Require Import Base.Bytes Base.Res.
Open Scope N_scope.

Definition E {A : Type} : res A := Err EMalformed.

(* uint64 truncation *)
Definition u64 (x : N) : N := x mod two64.

(* Go: csproto.EncodeVarint(dest, v) — the bytes written.
     for v >= 1<<7 { dest[n] = uint8(v&0x7f | 0x80); v >>= 7; n++ }; dest[n] = uint8(v)
   A uint64 leaves the loop after at most 9 rounds (v < 2^64 -> v >> 63 < 2). *)
Fixpoint encode_varint_f (fuel : nat) (v : N) : bytes :=
  match fuel with
  | O => [v mod 256]
  | S f => if v <? 128 then [v] else (v mod 128 + 128) :: encode_varint_f f (v / 128)
  end.
Definition encode_varint (v : N) : bytes := encode_varint_f 9 v.

(* Go: csproto.EncodeTag(dest, tag, wireType): k := (uint64(tag) << 3) | uint64(wireType) *)
Definition tag_key (tag wt : N) : N := N.lor (u64 (N.shiftl tag 3)) wt.
Definition encode_tag (tag wt : N) : bytes := encode_varint (tag_key tag wt).

(* Go: csproto.SizeOfVarint(v) = (bits.Len64(v|1) + 6) / 7 *)
Definition sizeof_varint (v : N) : N := (N.size (N.lor v 1) + 6) / 7.

(* Go: csproto.DecodeVarint(p) (v uint64, n int, err error).
   Three paths: one-byte values; len(p) < 10 ("2-9 byte values": loop shift = 0,7,..,63 with a bounds
   check on every byte, io.ErrUnexpectedEOF when p ends, ErrValueOverflow after 10 rounds); len(p) >= 10
   ("10-byte values": v = p[0]&0x7f, then bytes 1..9 without bounds checks, ErrValueOverflow when the
   10th byte still has the high bit). The shift of the 10th byte (<< 63) drops its upper 6 payload bits.
   Both loops are [dv_loop]; [empty] is what happens when p[n] does not exist (an error on the first
   path, an index-out-of-range panic on the second, where it is unreachable). *)
Fixpoint dv_loop (empty : res (N * Z)) (k : nat) (shift : N) (v : N) (n : Z) (p : bytes) : res (N * Z) :=
  match k with
  | O => E                                  (* ErrValueOverflow *)
  | S k' =>
      match p with
      | [] => empty
      | b :: p' =>
          let v' := N.lor v (u64 ((b mod 128) * 2 ^ shift)) in      (* v |= (b & 0x7f) << shift *)
          if b <? 128 then Ok (v', (n + 1)%Z)
          else dv_loop empty k' (shift + 7) v' (n + 1)%Z p'
      end
  end.

Definition decode_varint (p : bytes) : res (N * Z) :=
  match p with
  | [] => E                                 (* ErrInvalidVarintData *)
  | b0 :: p' =>
      if b0 <? 128 then Ok (b0, 1%Z)
      else if Nat.ltb (length p) 10 then dv_loop E 10 0 0 0%Z p
      else dv_loop Panic 9 7 (b0 mod 128) 1%Z p'
  end.
