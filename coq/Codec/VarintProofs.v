(* Codec/VarintProofs.v — the general varint lemmas (for all values, by proof):
   DecodeVarint = the grammar's varint on every input (both code paths), never a panic;
   decode (encode v) = v for every v < 2^64; 1 <= length <= 10; length = SizeOfVarint v. *)
From LS Require Import Base.Bytes Base.BytesProofs Base.Res Codec.Varint Merge.Model Codec.Wire.
From Coq Require Import ZifyN ZifyNat ZifyBool.
Open Scope N_scope.
Ltac Zify.zify_post_hook ::= Z.div_mod_to_equations.

(* ---- bit facts ---- *)

Lemma two64_pow : two64 = 2 ^ 64. Proof. reflexivity. Qed.

Lemma land_low_high a c n : a < 2 ^ n -> N.land a (c * 2 ^ n) = 0.
Proof.
  intros Ha. apply N.bits_inj_0. intros m. rewrite N.land_spec.
  destruct (N.lt_ge_cases m n) as [L|G].
  - rewrite (N.mul_pow2_bits_low c n m L). apply andb_false_r.
  - rewrite <- (N.mod_small a (2 ^ n) Ha). rewrite (N.mod_pow2_bits_high a n m G). reflexivity.
Qed.

Lemma lor_low_high a c n : a < 2 ^ n -> N.lor a (c * 2 ^ n) = a + c * 2 ^ n.
Proof.
  intros Ha. pose proof (land_low_high a c n Ha) as H.
  rewrite (N.add_nocarry_lxor _ _ H). symmetry. apply N.lxor_lor, H.
Qed.

(* a truncated shifted group is still a multiple of 2^s *)
Lemma u64_shift_multiple c s : exists q, u64 (c * 2 ^ s) = q * 2 ^ s.
Proof.
  unfold u64. rewrite two64_pow.
  destruct (N.le_gt_cases s 64) as [L|G].
  - replace (2 ^ 64) with (2 ^ (64 - s) * 2 ^ s) by (rewrite <- N.pow_add_r; f_equal; lia).
    rewrite N.mul_mod_distr_r by (apply N.pow_nonzero; lia).
    eexists; reflexivity.
  - exists 0. rewrite N.mul_0_l.
    replace s with (64 + (s - 64)) by lia. rewrite N.pow_add_r.
    replace (c * (2 ^ 64 * 2 ^ (s - 64))) with (c * 2 ^ (s - 64) * 2 ^ 64) by lia.
    apply N.mod_mul. apply N.pow_nonzero; lia.
Qed.

Lemma lor_u64_shift v c s : v < 2 ^ s -> N.lor v (u64 (c * 2 ^ s)) = v + u64 (c * 2 ^ s).
Proof.
  intros Hv. destruct (u64_shift_multiple c s) as [q Hq]. rewrite Hq. apply lor_low_high, Hv.
Qed.

Lemma u64_group_bound c s : c < 128 -> u64 (c * 2 ^ s) <= 127 * 2 ^ s.
Proof.
  intros Hc. unfold u64.
  assert (H2 : 2 ^ s <> 0) by (apply N.pow_nonzero; lia).
  assert (Hle : c * 2 ^ s <= 127 * 2 ^ s) by (apply N.mul_le_mono_r; lia).
  eapply N.le_trans; [apply N.mod_le; unfold two64; lia|exact Hle].
Qed.

Lemma pow_step s : 2 ^ (s + 7) = 128 * 2 ^ s.
Proof. rewrite N.pow_add_r. change (2 ^ 7) with 128. lia. Qed.

(* ---- DecodeVarint is the grammar's varint ---- *)

Lemma zlen_cons (b : N) (p : bytes) : Z.of_nat (length (b :: p)) = (Z.of_nat (length p) + 1)%Z.
Proof. cbn [length]. lia. Qed.

Lemma dv_loop_spec k : forall shift v n p,
  v < 2 ^ shift ->
  dv_loop E k shift v n p =
  match vspec_aux k shift p with
  | Some (x, r) => Ok (v + x, (n + (Z.of_nat (length p) - Z.of_nat (length r)))%Z)
  | None => E
  end.
Proof.
  induction k as [|k IH]; intros shift v n p Hv; cbn [dv_loop vspec_aux]; [reflexivity|].
  destruct p as [|b p']; [reflexivity|].
  rewrite (lor_u64_shift v (b mod 128) shift Hv).
  set (x := u64 (b mod 128 * 2 ^ shift)).
  destruct (b <? 128) eqn:Hb.
  - f_equal. f_equal. rewrite zlen_cons. lia.
  - assert (Hx : x <= 127 * 2 ^ shift) by (apply u64_group_bound; apply N.mod_lt; lia).
    rewrite IH by (rewrite pow_step; lia).
    destruct (vspec_aux k (shift + 7) p') as [[y r]|]; [|reflexivity].
    f_equal. f_equal; [lia|]. rewrite zlen_cons. lia.
Qed.

Lemma dv_loop_panic_unreachable k : forall shift v n p,
  (k <= length p)%nat -> dv_loop Panic k shift v n p = dv_loop E k shift v n p.
Proof.
  induction k as [|k IH]; intros shift v n p Hl; cbn [dv_loop]; [reflexivity|].
  destruct p as [|b p']; [cbn [length] in Hl; lia|].
  destruct (b <? 128); [reflexivity|]. apply IH. cbn [length] in Hl. lia.
Qed.

Lemma vspec_aux_cons k s b p' :
  vspec_aux (S k) s (b :: p') =
  if b <? 128 then Some (u64 (b mod 128 * 2 ^ s), p')
  else match vspec_aux k (s + 7) p' with
       | Some (v, r) => Some (u64 (b mod 128 * 2 ^ s) + v, r)
       | None => None
       end.
Proof. reflexivity. Qed.

(* csproto.DecodeVarint, on every input and on both of its code paths, computes the grammar's varint *)
Theorem decode_varint_spec p :
  decode_varint p =
  match vspec p with
  | Some (v, r) => Ok (v, (Z.of_nat (length p) - Z.of_nat (length r))%Z)
  | None => E
  end.
Proof.
  unfold decode_varint, vspec. destruct p as [|b0 p']; [reflexivity|].
  destruct (b0 <? 128) eqn:Hb.
  - change 10%nat with (S 9). rewrite vspec_aux_cons, Hb. unfold u64. change (2 ^ 0) with 1.
    rewrite N.mul_1_r. rewrite (N.mod_small b0 128) by lia.
    rewrite N.mod_small by (unfold two64; lia).
    f_equal. f_equal. rewrite zlen_cons. lia.
  - destruct (Nat.ltb (length (b0 :: p')) 10) eqn:Hl.
    + rewrite dv_loop_spec by (change (2 ^ 0) with 1; lia).
      destruct (vspec_aux 10 0 (b0 :: p')) as [[x r]|]; [|reflexivity].
      f_equal.
    + apply Nat.ltb_ge in Hl. cbn [length] in Hl.
      rewrite dv_loop_panic_unreachable by lia.
      rewrite dv_loop_spec by (change (2 ^ 7) with 128; apply N.mod_lt; lia).
      change 10%nat with (S 9). rewrite vspec_aux_cons, Hb. change (0 + 7) with 7.
      assert (Hx : u64 (b0 mod 128 * 2 ^ 0) = b0 mod 128).
      { unfold u64. change (2 ^ 0) with 1. rewrite N.mul_1_r.
        apply N.mod_small. pose proof (N.mod_lt b0 128). unfold two64. lia. }
      rewrite Hx.
      destruct (vspec_aux 9 7 p') as [[y r]|]; [|reflexivity].
      f_equal. f_equal. rewrite zlen_cons. lia.
Qed.

(* ---- what the grammar's varint consumes and returns ---- *)

Lemma vspec_aux_split k : forall s p v r,
  vspec_aux k s p = Some (v, r) ->
  exists c, p = c ++ r /\ (1 <= length c <= k)%nat.
Proof.
  induction k as [|k IH]; intros s p v r H; cbn [vspec_aux] in H; [discriminate|].
  destruct p as [|b p']; [discriminate|].
  destruct (b <? 128).
  - inversion H; subst. exists [b]. split; [reflexivity|cbn [length]; lia].
  - destruct (vspec_aux k (s + 7) p') as [[y r']|] eqn:Hr; [|discriminate].
    inversion H; subst. destruct (IH _ _ _ _ Hr) as (c & -> & Hc).
    exists (b :: c). split; [reflexivity|cbn [length]; lia].
Qed.

Lemma vspec_aux_range k : forall s p v r,
  vspec_aux k s p = Some (v, r) -> v < two64 /\ exists q, v = q * 2 ^ s.
Proof.
  induction k as [|k IH]; intros s p v r H; cbn [vspec_aux] in H; [discriminate|].
  destruct p as [|b p']; [discriminate|].
  assert (Hx : u64 (b mod 128 * 2 ^ s) < two64) by (unfold u64; apply N.mod_lt; unfold two64; lia).
  destruct (u64_shift_multiple (b mod 128) s) as [qx Hqx].
  destruct (b <? 128).
  - inversion H; subst. split; [exact Hx|exists qx; exact Hqx].
  - destruct (vspec_aux k (s + 7) p') as [[y r']|] eqn:Hr; [|discriminate].
    inversion H; subst. destruct (IH _ _ _ _ Hr) as (Hy & qy & Hqy).
    split; [|exists (qx + qy * 128); rewrite Hqx, Hqy, pow_step; lia].
    pose proof (u64_group_bound (b mod 128) s (N.mod_lt b 128 ltac:(lia))) as Hb.
    rewrite Hqy in *. rewrite pow_step in *.
    assert (H2 : 0 < 2 ^ s) by (apply N.neq_0_lt_0, N.pow_nonzero; lia).
    (* qy * (128 * 2^s) < 2^64 and both sides multiples of 128*2^s, or 128 * 2^s > 2^64 and qy = 0 *)
    destruct (N.le_gt_cases (s + 7) 64) as [L|G].
    + assert (E64 : two64 = 2 ^ (64 - (s + 7)) * (128 * 2 ^ s)).
      { rewrite <- pow_step, <- N.pow_add_r, two64_pow. f_equal. lia. }
      set (m := 128 * 2 ^ s) in *. set (t := 2 ^ (64 - (s + 7))) in *.
      assert (qy < t) by nia. nia.
    + assert (Hbig : two64 <= 128 * 2 ^ s).
      { rewrite <- pow_step, two64_pow. apply N.pow_le_mono_r; lia. }
      assert (qy = 0) by nia. subst qy. lia.
Qed.

Lemma vspec_split p v r : vspec p = Some (v, r) ->
  v < two64 /\ exists c, p = c ++ r /\ (1 <= length c <= 10)%nat.
Proof.
  intros H. unfold vspec in H. split; [apply (vspec_aux_range _ _ _ _ _ H)|apply (vspec_aux_split _ _ _ _ _ H)].
Qed.

(* DecodeVarint never panics or hangs; when it returns a value, it is a uint64 and 1..10 bytes of the
   input were consumed *)
Theorem decode_varint_total p :
  decode_varint p = E \/
  exists v n r, decode_varint p = Ok (v, n) /\ v < two64 /\ (1 <= n <= 10)%Z /\
                (n <= Z.of_nat (length p))%Z /\ r = skipn (Z.to_nat n) p /\ vspec p = Some (v, r).
Proof.
  rewrite decode_varint_spec. destruct (vspec p) as [[v r]|] eqn:Hv; [right|left; reflexivity].
  destruct (vspec_split _ _ _ Hv) as (Hr & c & -> & Hc).
  exists v, (Z.of_nat (length (c ++ r)) - Z.of_nat (length r))%Z, r.
  rewrite app_length.
  replace (Z.of_nat (length c + length r) - Z.of_nat (length r))%Z with (Z.of_nat (length c)) by lia.
  repeat split; try lia; try assumption.
  rewrite Nat2Z.id. rewrite skipn_app, skipn_all, Nat.sub_diag. reflexivity.
Qed.

(* ---- encode, then decode ---- *)

Lemma vspec_aux_encode f : forall k s v rest,
  (f < k)%nat -> v < 128 ^ (N.of_nat f + 1) -> v * 2 ^ s < two64 ->
  vspec_aux k s (encode_varint_f f v ++ rest) = Some (v * 2 ^ s, rest).
Proof.
  induction f as [|f IH]; intros k s v rest Hk Hv Hs.
  - cbn [encode_varint_f]. change (128 ^ (N.of_nat 0 + 1)) with 128 in Hv.
    rewrite (N.mod_small v 256) by lia.
    destruct k as [|k]; [lia|]. cbn [vspec_aux app].
    replace (v <? 128) with true by lia.
    rewrite (N.mod_small v 128) by lia. unfold u64. rewrite N.mod_small by exact Hs. reflexivity.
  - cbn [encode_varint_f]. destruct k as [|k]; [lia|].
    destruct (v <? 128) eqn:Hlt.
    + cbn [vspec_aux app]. rewrite Hlt.
      rewrite (N.mod_small v 128) by lia. unfold u64. rewrite N.mod_small by exact Hs. reflexivity.
    + cbn [vspec_aux app].
      replace (v mod 128 + 128 <? 128) with false by lia.
      replace ((v mod 128 + 128) mod 128) with (v mod 128) by lia.
      assert (H2 : 0 < 2 ^ s) by (apply N.neq_0_lt_0, N.pow_nonzero; lia).
      assert (Hsplit : v * 2 ^ s = v mod 128 * 2 ^ s + v / 128 * 2 ^ (s + 7)).
      { rewrite pow_step. pose proof (N.div_mod v 128 ltac:(lia)). nia. }
      rewrite IH.
      * unfold u64. rewrite N.mod_small by nia. rewrite Hsplit. reflexivity.
      * lia.
      * replace (N.of_nat (S f) + 1) with (N.succ (N.of_nat f + 1)) in Hv by lia.
        rewrite N.pow_succ_r' in Hv. apply N.div_lt_upper_bound; lia.
      * nia.
Qed.

(* the general round trip of the varint encoding: every uint64, in front of anything *)
Theorem vspec_encode v rest : v < two64 -> vspec (encode_varint v ++ rest) = Some (v, rest).
Proof.
  intros Hv. unfold vspec, encode_varint.
  rewrite (vspec_aux_encode 9 10 0 v rest).
  - change (2 ^ 0) with 1. rewrite N.mul_1_r. reflexivity.
  - lia.
  - change (128 ^ (N.of_nat 9 + 1)) with 1180591620717411303424. unfold two64 in Hv. lia.
  - change (2 ^ 0) with 1. lia.
Qed.

Theorem decode_encode_varint v rest : v < two64 ->
  decode_varint (encode_varint v ++ rest) = Ok (v, Z.of_nat (length (encode_varint v))).
Proof.
  intros Hv. rewrite decode_varint_spec, (vspec_encode v rest Hv). f_equal. f_equal.
  rewrite app_length. lia.
Qed.

Lemma encode_varint_f_length f v : (1 <= length (encode_varint_f f v) <= f + 1)%nat.
Proof.
  revert v; induction f as [|f IH]; intros v; cbn [encode_varint_f]; [cbn [length]; lia|].
  destruct (v <? 128); cbn [length]; [lia|]. specialize (IH (v / 128)). lia.
Qed.

Theorem encode_varint_length v : (1 <= length (encode_varint v) <= 10)%nat.
Proof. unfold encode_varint. pose proof (encode_varint_f_length 9 v). lia. Qed.

Lemma encode_varint_f_wfb f v : v < two64 -> wfb (encode_varint_f f v).
Proof.
  revert v; induction f as [|f IH]; intros v Hv; cbn [encode_varint_f].
  - constructor; [apply N.mod_lt; lia|constructor].
  - destruct (v <? 128) eqn:H.
    + constructor; [lia|constructor].
    + constructor; [pose proof (N.mod_lt v 128); lia|].
      apply IH. assert (v / 128 <= v) by (apply N.div_le_upper_bound; lia). lia.
Qed.
Theorem encode_varint_wfb v : v < two64 -> wfb (encode_varint v).
Proof. apply encode_varint_f_wfb. Qed.

(* ---- the canonical size: length (EncodeVarint v) = SizeOfVarint v ---- *)

Lemma sizeof_varint_log2 v : sizeof_varint v = N.log2 v / 7 + 1.
Proof.
  unfold sizeof_varint.
  assert (Hpos : N.lor v 1 <> 0).
  { intros H. apply N.lor_eq_0_iff in H. destruct H; discriminate. }
  rewrite N.size_log2 by exact Hpos.
  rewrite N.log2_lor. change (N.log2 1) with 0. rewrite N.max_0_r. lia.
Qed.

Lemma log2_div128 v : 128 <= v -> N.log2 (v / 128) = N.log2 v - 7.
Proof.
  intros H. change 128 with (2 ^ 7). rewrite <- N.shiftr_div_pow2. apply N.log2_shiftr.
Qed.

Lemma encode_varint_f_size f : forall v, v < 128 ^ (N.of_nat f + 1) ->
  N.of_nat (length (encode_varint_f f v)) = N.log2 v / 7 + 1.
Proof.
  induction f as [|f IH]; intros v Hv.
  - change (128 ^ (N.of_nat 0 + 1)) with 128 in Hv. cbn [encode_varint_f length].
    destruct (N.eq_dec v 0) as [->|Hz]; [reflexivity|].
    assert (N.log2 v < 7) by (apply N.log2_lt_pow2; [lia|exact Hv]). lia.
  - cbn [encode_varint_f]. destruct (v <? 128) eqn:Hlt.
    + cbn [length]. destruct (N.eq_dec v 0) as [->|Hz]; [reflexivity|].
      assert (N.log2 v < 7) by (apply N.log2_lt_pow2; [lia|change (2 ^ 7) with 128; lia]). lia.
    + cbn [length]. rewrite Nat2N.inj_succ, IH.
      * rewrite log2_div128 by lia.
        assert (7 <= N.log2 v) by (change 7 with (N.log2 128); apply N.log2_le_mono; lia). lia.
      * replace (N.of_nat (S f) + 1) with (N.succ (N.of_nat f + 1)) in Hv by lia.
        rewrite N.pow_succ_r' in Hv. apply N.div_lt_upper_bound; lia.
Qed.

Theorem encode_varint_size v : v < two64 -> N.of_nat (length (encode_varint v)) = sizeof_varint v.
Proof.
  intros Hv. rewrite sizeof_varint_log2. unfold encode_varint. apply encode_varint_f_size.
  change (128 ^ (N.of_nat 9 + 1)) with 1180591620717411303424. unfold two64 in Hv. lia.
Qed.

