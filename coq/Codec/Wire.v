(* Codec/Wire.v — the SPECIFICATION side of C07: the protobuf wire grammar and the interpretation of a
   parsed message under snapshot/gogosnapshot/snapshot.proto (proto3), as the generated reference codec
   snapshot/gogosnapshot/snapshot.pb.go implements it:
     - a message is a sequence of fields  key value, key = varint (number << 3 | wire type);
     - field numbers 1 .. 2^29-1; wire types 0 varint, 1 fixed64, 2 length-delimited, 5 fixed32;
       group wire types 3/4 (never emitted by proto3 encoders) and 6/7 are NOT part of this grammar;
     - a varint is 1..10 bytes, little-endian groups of 7 bits, the value is taken modulo 2^64;
       non-minimal encodings are accepted (every decoder accepts them);
     - scalar fields: the last occurrence wins; uint32 takes the low 32 bits; int64 is two's complement;
     - repeated message fields are appended in order; an embedded message field occurring several
       times is merged (its fields are applied in sequence to the same record);
     - unknown field numbers are ignored; a known field number with another wire type is an error;
     - strings are byte strings (the generated Go code does not validate UTF-8).
   Everything here works on the remaining input (no offsets). No proofs here. *)
From LS Require Import Base.Bytes Base.Res Merge.Model Codec.Varint.
Open Scope N_scope.

(* ---- content types (what a snapshot says about LMDB) ---- *)

Record meta := mkMeta {
  m_gen : bytes; m_inst : bytes; m_host : bytes;
  m_txn : Z;                (* int64 lmdbTxnID *)
  m_ts : N;                 (* fixed64 timestampNano *)
  m_dbname : bytes;
  m_from : Z                (* int64 fromLmdbTxnID *)
}.
Record dbi := mkDbi { db_name : bytes; db_flags : N; db_transform : bytes; db_entries : list kv }.
Record snap := mkSnap { s_fmt : N; s_compat : N; s_meta : meta; s_dbis : list dbi }.

Definition kv0 : kv := mkKV [] [] 0 0.
Definition meta0 : meta := mkMeta [] [] [] 0 0 [] 0.

(* ---- wire grammar ---- *)

(* varint: value (mod 2^64) and the remaining input *)
Fixpoint vspec_aux (k : nat) (shift : N) (p : bytes) : option (N * bytes) :=
  match k with
  | O => None
  | S k' =>
      match p with
      | [] => None
      | b :: p' =>
          let x := u64 ((b mod 128) * 2 ^ shift) in
          if b <? 128 then Some (x, p')
          else match vspec_aux k' (shift + 7) p' with
               | Some (v, r) => Some (x + v, r)
               | None => None
               end
      end
  end.
Definition vspec (p : bytes) : option (N * bytes) := vspec_aux 10 0 p.

Inductive wval :=
| WVar (v : N)          (* wire type 0 *)
| WF64 (v : N)          (* wire type 1, little-endian value *)
| WLen (p : bytes)      (* wire type 2, the payload *)
| WF32 (v : N).         (* wire type 5 *)
Definition field : Type := N * wval.

Definition MaxFieldNumber : N := 536870911.   (* 2^29 - 1 *)

Definition parse_field (p : bytes) : option (field * bytes) :=
  match vspec p with
  | None => None
  | Some (key, r) =>
      let num := key / 8 in
      let wt := key mod 8 in
      if (num =? 0) || (MaxFieldNumber <? num) then None
      else if wt =? 0 then
        match vspec r with
        | Some (v, r') => Some ((num, WVar v), r')
        | None => None
        end
      else if wt =? 1 then
        if Nat.ltb (length r) 8 then None
        else Some ((num, WF64 (of_le (firstn 8 r))), skipn 8 r)
      else if wt =? 2 then
        match vspec r with
        | Some (l, r') =>
            if lenN r' <? l then None
            else Some ((num, WLen (firstn (N.to_nat l) r')), skipn (N.to_nat l) r')
        | None => None
        end
      else if wt =? 5 then
        if Nat.ltb (length r) 4 then None
        else Some ((num, WF32 (of_le (firstn 4 r))), skipn 4 r)
      else None                  (* group wire types 3/4, undefined 6/7 *)
  end.

Fixpoint wire_parse_f (fuel : nat) (p : bytes) : option (list field) :=
  match p with
  | [] => Some []
  | _ :: _ =>
      match fuel with
      | O => None
      | S f =>
          match parse_field p with
          | None => None
          | Some (fl, r) =>
              match wire_parse_f f r with
              | Some l => Some (fl :: l)
              | None => None
              end
          end
      end
  end.
Definition wire_parse (p : bytes) : option (list field) := wire_parse_f (length p) p.

(* ---- schema interpretation ---- *)

Definition two32 : N := 4294967296.

(* message KV { bytes key = 1; bytes value = 2; fixed64 timestampNano = 3; uint32 flags = 4; } *)
Definition spec_kv_step (f : field) (e : kv) : res kv :=
  let '(num, v) := f in
  if num =? 1 then match v with WLen p => Ok (mkKV p (k_val e) (k_ts e) (k_flags e)) | _ => E end
  else if num =? 2 then match v with WLen p => Ok (mkKV (k_key e) p (k_ts e) (k_flags e)) | _ => E end
  else if num =? 3 then match v with WF64 x => Ok (mkKV (k_key e) (k_val e) x (k_flags e)) | _ => E end
  else if num =? 4 then match v with WVar x => Ok (mkKV (k_key e) (k_val e) (k_ts e) (x mod two32)) | _ => E end
  else Ok e.
Fixpoint spec_kv_fold (fs : list field) (e : kv) : res kv :=
  match fs with
  | [] => Ok e
  | f :: r => do e' <- spec_kv_step f e; spec_kv_fold r e'
  end.
Definition spec_kv (p : bytes) : res kv :=
  match wire_parse p with
  | Some fs => spec_kv_fold fs kv0
  | None => E
  end.

(* message DBI { string name = 1; repeated KV entries = 2; uint64 flags = 3; string transform = 4; } *)
Definition spec_dbi_step (f : field) (d : dbi) : res dbi :=
  let '(num, v) := f in
  if num =? 1 then match v with WLen p => Ok (mkDbi p (db_flags d) (db_transform d) (db_entries d)) | _ => E end
  else if num =? 2 then
    match v with
    | WLen p => do e <- spec_kv p; Ok (mkDbi (db_name d) (db_flags d) (db_transform d) (db_entries d ++ [e]))
    | _ => E
    end
  else if num =? 3 then match v with WVar x => Ok (mkDbi (db_name d) x (db_transform d) (db_entries d)) | _ => E end
  else if num =? 4 then match v with WLen p => Ok (mkDbi (db_name d) (db_flags d) p (db_entries d)) | _ => E end
  else Ok d.
Fixpoint spec_dbi_fold (fs : list field) (d : dbi) : res dbi :=
  match fs with
  | [] => Ok d
  | f :: r => do d' <- spec_dbi_step f d; spec_dbi_fold r d'
  end.
Definition dbi0 : dbi := mkDbi [] 0 [] [].
Definition spec_dbi (p : bytes) : res dbi :=
  match wire_parse p with
  | Some fs => spec_dbi_fold fs dbi0
  | None => E
  end.

(* message Meta { string generationID = 1; string instanceID = 2; string hostname = 3; int64 lmdbTxnID = 4;
   fixed64 timestampNano = 5; reserved 6; string databaseName = 7; int64 fromLmdbTxnID = 8; } *)
Definition spec_meta_step (f : field) (m : meta) : res meta :=
  let '(num, v) := f in
  if num =? 1 then match v with WLen p => Ok (mkMeta p (m_inst m) (m_host m) (m_txn m) (m_ts m) (m_dbname m) (m_from m)) | _ => E end
  else if num =? 2 then match v with WLen p => Ok (mkMeta (m_gen m) p (m_host m) (m_txn m) (m_ts m) (m_dbname m) (m_from m)) | _ => E end
  else if num =? 3 then match v with WLen p => Ok (mkMeta (m_gen m) (m_inst m) p (m_txn m) (m_ts m) (m_dbname m) (m_from m)) | _ => E end
  else if num =? 4 then match v with WVar x => Ok (mkMeta (m_gen m) (m_inst m) (m_host m) (to_int64 x) (m_ts m) (m_dbname m) (m_from m)) | _ => E end
  else if num =? 5 then match v with WF64 x => Ok (mkMeta (m_gen m) (m_inst m) (m_host m) (m_txn m) x (m_dbname m) (m_from m)) | _ => E end
  else if num =? 7 then match v with WLen p => Ok (mkMeta (m_gen m) (m_inst m) (m_host m) (m_txn m) (m_ts m) p (m_from m)) | _ => E end
  else if num =? 8 then match v with WVar x => Ok (mkMeta (m_gen m) (m_inst m) (m_host m) (m_txn m) (m_ts m) (m_dbname m) (to_int64 x)) | _ => E end
  else Ok m.
Fixpoint spec_meta_fold (fs : list field) (m : meta) : res meta :=
  match fs with
  | [] => Ok m
  | f :: r => do m' <- spec_meta_step f m; spec_meta_fold r m'
  end.
Definition spec_meta (p : bytes) (m : meta) : res meta :=
  match wire_parse p with
  | Some fs => spec_meta_fold fs m
  | None => E
  end.

(* message Snapshot { uint32 formatVersion = 1; Meta meta = 2; repeated DBI databases = 3; uint32 compatVersion = 4; } *)
Definition spec_snapshot_step (f : field) (s : snap) : res snap :=
  let '(num, v) := f in
  if num =? 1 then match v with WVar x => Ok (mkSnap (x mod two32) (s_compat s) (s_meta s) (s_dbis s)) | _ => E end
  else if num =? 2 then
    match v with
    | WLen p => do m <- spec_meta p (s_meta s); Ok (mkSnap (s_fmt s) (s_compat s) m (s_dbis s))
    | _ => E
    end
  else if num =? 3 then
    match v with
    | WLen p => do d <- spec_dbi p; Ok (mkSnap (s_fmt s) (s_compat s) (s_meta s) (s_dbis s ++ [d]))
    | _ => E
    end
  else if num =? 4 then match v with WVar x => Ok (mkSnap (s_fmt s) (x mod two32) (s_meta s) (s_dbis s)) | _ => E end
  else Ok s.
Fixpoint spec_snapshot_fold (fs : list field) (s : snap) : res snap :=
  match fs with
  | [] => Ok s
  | f :: r => do s' <- spec_snapshot_step f s; spec_snapshot_fold r s'
  end.
Definition snap0 : snap := mkSnap 0 0 meta0 [].
Definition spec_snapshot (fs : list field) : res snap := spec_snapshot_fold fs snap0.

(* the reference decoder: grammar, then schema *)
Definition spec_decode (m : bytes) : res snap :=
  match wire_parse m with
  | Some fs => spec_snapshot fs
  | None => E
  end.

(* ---- the messages for which the hand-written decoder is claimed to agree with the reference ----
   [schema_ok fs] holds for a top-level field list when, in addition to being grammatical at the top
   level (which [wire_parse m = Some fs] says), the message is grammatical at the nested levels where
   the schema has messages, and avoids exactly the things the hand-written decoder (csproto Decoder
   for Snapshot and Meta, hand-written loops for DBI and KV) rejects although the reference accepts:
     (x1) Snapshot and Meta level: field numbers >= 2^26 (csproto compares the whole key
          number<<3|type with MaxTagValue = 2^29-1);
     (x2) Snapshot level: formatVersion / compatVersion varints above 2^32-1 (DecodeUInt32 reports
          overflow; the reference truncates);
     (x3) Snapshot level: length-delimited fields longer than 100 GB (snapshot.MaxFieldLength);
          Meta level: longer than 2^31-1 bytes (csproto default);
     (x4) DBI level: an `entries` field whose KV message has length 0 (KV.Unmarshal needs one tag;
          such an entry has no key and does not describe LMDB content). *)
Definition MaxTagNumber : N := 67108863.             (* 2^26 - 1 = MaxTagValue >> 3 *)
Definition MaxFieldLength : N := 107374182400.       (* 100 * datasize.GB *)
Definition MaxFieldLenDefault : N := 2147483647.     (* math.MaxInt32 *)

Definition is_some {A : Type} (o : option A) : bool := match o with Some _ => true | None => false end.

Definition kv_ok (p : bytes) : bool :=
  match p with [] => false | _ => is_some (wire_parse p) end.

Definition dbi_field_ok (f : field) : bool :=
  let '(num, v) := f in
  match v with WLen p => if num =? 2 then kv_ok p else true | _ => true end.
Definition dbi_ok (p : bytes) : bool :=
  match wire_parse p with
  | Some fs => forallb dbi_field_ok fs
  | None => false
  end.

Definition meta_field_ok (f : field) : bool :=
  let '(num, v) := f in
  (num <=? MaxTagNumber) &&
  match v with WLen p => lenN p <=? MaxFieldLenDefault | _ => true end.
Definition meta_ok (p : bytes) : bool :=
  match wire_parse p with
  | Some fs => forallb meta_field_ok fs
  | None => false
  end.

Definition snap_field_ok (f : field) : bool :=
  let '(num, v) := f in
  (num <=? MaxTagNumber) &&
  match v with
  | WLen p =>
      (lenN p <=? MaxFieldLength) &&
      (if num =? 2 then meta_ok p else if num =? 3 then dbi_ok p else true)
  | WVar x => if (num =? 1) || (num =? 4) then x <? two32 else true
  | _ => true
  end.
Definition schema_ok (fs : list field) : bool := forallb snap_field_ok fs.
