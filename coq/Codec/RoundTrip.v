(* Codec/RoundTrip.v — C07 round trip and wire validity.
   The bytes the hand-written encoder writes for a valid snapshot are the canonical encoding
   [enc_fields (snap_fields s)] of an explicit field list; that encoding parses back to the same field
   list under the wire grammar, the schema specification maps the field list to s, and the field list
   satisfies [schema_ok] — so, by the forward-compatibility theorem, the hand-written decoder returns s. *)
From LS Require Import Base.Bytes Base.BytesProofs Base.Res Codec.Varint Codec.Loop Merge.Model Codec.Wire
  Codec.Custom Codec.VarintProofs Codec.Util Codec.Hostile Codec.Compat.
From Coq Require Import ZifyN ZifyNat ZifyBool.
Open Scope N_scope.
Ltac Zify.zify_post_hook ::= Z.div_mod_to_equations.

(* ---- canonical encoding of field lists ---- *)

Definition enc_field (f : field) : bytes :=
  let '(num, v) := f in
  match v with
  | WVar x => encode_varint (num * 8 + 0) ++ encode_varint x
  | WF64 x => encode_varint (num * 8 + 1) ++ le64 x
  | WLen p => encode_varint (num * 8 + 2) ++ encode_varint (lenN p) ++ p
  | WF32 x => encode_varint (num * 8 + 5) ++ le 4 x
  end.
Definition enc_fields (fs : list field) : bytes := flat_map enc_field fs.

Definition wf_field (f : field) : Prop :=
  let '(num, v) := f in
  1 <= num <= MaxFieldNumber /\
  match v with
  | WVar x => x < two64
  | WF64 x => x < two64
  | WLen p => lenN p < two64
  | WF32 x => x < 4294967296
  end.

Lemma le_length' k n : length (le k n) = k. Proof. apply le_length. Qed.

Lemma of_le_le64 x : x < two64 -> of_le (le64 x) = x.
Proof. intros H. unfold le64. rewrite of_le_le. apply N.mod_small. exact H. Qed.

Lemma firstn_app_exact {A : Type} (a b : list A) : firstn (length a) (a ++ b) = a.
Proof. rewrite firstn_app, Nat.sub_diag, firstn_all. cbn [firstn]. apply app_nil_r. Qed.
Lemma skipn_app_exact {A : Type} (a b : list A) : skipn (length a) (a ++ b) = b.
Proof. rewrite skipn_app, Nat.sub_diag, skipn_all. reflexivity. Qed.

Lemma firstn_len_app {A : Type} (a b : list A) n : length a = n -> firstn n (a ++ b) = a.
Proof. intros <-. apply firstn_app_exact. Qed.
Lemma skipn_len_app {A : Type} (a b : list A) n : length a = n -> skipn n (a ++ b) = b.
Proof. intros <-. apply skipn_app_exact. Qed.

Lemma parse_enc_field f rest : wf_field f -> parse_field (enc_field f ++ rest) = Some (f, rest).
Proof.
  destruct f as [num v]. intros [Hnum Hv]. unfold MaxFieldNumber in Hnum.
  assert (Hkey : forall wt, wt < 8 -> (num * 8 + wt) / 8 = num /\ (num * 8 + wt) mod 8 = wt /\ num * 8 + wt < two64)
    by (intros wt Hwt; unfold two64; lia).
  unfold parse_field, enc_field. destruct v as [x|x|p|x].
  - destruct (Hkey 0 ltac:(lia)) as (Hd & Hm & Hk). rewrite <- app_assoc, (vspec_encode _ _ Hk), Hd, Hm.
    replace ((num =? 0) || (MaxFieldNumber <? num)) with false by (unfold MaxFieldNumber; lia).
    cbn [N.eqb]. rewrite (vspec_encode _ _ Hv). reflexivity.
  - destruct (Hkey 1 ltac:(lia)) as (Hd & Hm & Hk). rewrite <- app_assoc, (vspec_encode _ _ Hk), Hd, Hm.
    replace ((num =? 0) || (MaxFieldNumber <? num)) with false by (unfold MaxFieldNumber; lia).
    change (1 =? 0) with false. change (1 =? 1) with true. cbn iota.
    assert (Hl : length (le64 x) = 8%nat) by apply le_length.
    replace (Nat.ltb (length (le64 x ++ rest)) 8) with false
      by (symmetry; apply Nat.ltb_ge; rewrite app_length; lia).
    rewrite (firstn_len_app _ _ 8 Hl), (skipn_len_app _ _ 8 Hl), (of_le_le64 x Hv). reflexivity.
  - destruct (Hkey 2 ltac:(lia)) as (Hd & Hm & Hk). rewrite <- !app_assoc, (vspec_encode _ _ Hk), Hd, Hm.
    replace ((num =? 0) || (MaxFieldNumber <? num)) with false by (unfold MaxFieldNumber; lia).
    change (2 =? 0) with false. change (2 =? 1) with false. change (2 =? 2) with true. cbn iota.
    rewrite (vspec_encode _ _ Hv).
    replace (lenN (p ++ rest) <? lenN p) with false by (unfold lenN; rewrite app_length; lia).
    unfold lenN. rewrite Nat2N.id, firstn_app_exact, skipn_app_exact. reflexivity.
  - destruct (Hkey 5 ltac:(lia)) as (Hd & Hm & Hk). rewrite <- app_assoc, (vspec_encode _ _ Hk), Hd, Hm.
    replace ((num =? 0) || (MaxFieldNumber <? num)) with false by (unfold MaxFieldNumber; lia).
    change (5 =? 0) with false. change (5 =? 1) with false. change (5 =? 2) with false. change (5 =? 5) with true.
    cbn iota.
    assert (Hl : length (le 4 x) = 4%nat) by apply le_length.
    replace (Nat.ltb (length (le 4 x ++ rest)) 4) with false
      by (symmetry; apply Nat.ltb_ge; rewrite app_length; lia).
    rewrite (firstn_len_app _ _ 4 Hl), (skipn_len_app _ _ 4 Hl), of_le_le.
    rewrite N.mod_small by (change (256 ^ N.of_nat 4) with 4294967296; exact Hv). reflexivity.
Qed.

Lemma enc_field_nonempty f : enc_field f <> [].
Proof.
  destruct f as [num v]. unfold enc_field.
  destruct v; (match goal with |- encode_varint ?k ++ _ <> [] =>
     pose proof (encode_varint_length k) as H; destruct (encode_varint k); [cbn [length] in H; lia|discriminate] end).
Qed.

Theorem wire_parse_enc_fields fs : Forall wf_field fs -> wire_parse (enc_fields fs) = Some fs.
Proof.
  induction 1 as [|f fs Hf Hfs IH]; [reflexivity|].
  unfold enc_fields. cbn [flat_map]. fold (enc_fields fs).
  rewrite wire_parse_cons.
  - rewrite (parse_enc_field f (enc_fields fs) Hf), IH. reflexivity.
  - pose proof (enc_field_nonempty f). destruct (enc_field f); [congruence|discriminate].
Qed.

(* ---- the field lists the encoder writes ---- *)

Definition f_len (num : N) (p : bytes) : list field := if Nat.ltb 0 (length p) then [(num, WLen p)] else [].
Definition f_var (num v : N) : list field := if 0 <? v then [(num, WVar v)] else [].
Definition f_f64 (num v : N) : list field := if 0 <? v then [(num, WF64 v)] else [].

(* KV in the order Append writes it: key, value, flags, timestamp *)
Definition kv_fields (e : kv) : list field :=
  f_len 1 (k_key e) ++ f_len 2 (k_val e) ++ f_var 4 (k_flags e) ++ f_f64 3 (k_ts e).
Definition kv_pb (e : kv) : bytes := enc_fields (kv_fields e).
Definition entry_field (e : kv) : list field := if lenN (kv_pb e) =? 0 then [] else [(2, WLen (kv_pb e))].
(* DBI: name, flags, transform (doFlushFields), then the entries *)
Definition dbi_fields (d : dbi) : list field :=
  f_len 1 (db_name d) ++ f_var 3 (db_flags d) ++ f_len 4 (db_transform d) ++ flat_map entry_field (db_entries d).
Definition dbi_pb (d : dbi) : bytes := enc_fields (dbi_fields d).
(* Meta in the order Marshal writes it *)
Definition meta_fields (m : meta) : list field :=
  f_len 1 (m_gen m) ++ f_len 2 (m_inst m) ++ f_len 3 (m_host m) ++ f_len 7 (m_dbname m)
  ++ f_var 4 (Z.to_N (m_txn m)) ++ f_f64 5 (m_ts m) ++ f_var 8 (Z.to_N (m_from m)).
Definition meta_pb (m : meta) : bytes := enc_fields (meta_fields m).
Definition snap_fields (s : snap) : list field :=
  f_var 1 (s_fmt s) ++ f_var 4 (s_compat s)
  ++ (if Nat.ltb 0 (length (meta_pb (s_meta s))) then [(2, WLen (meta_pb (s_meta s)))] else [])
  ++ flat_map (fun d => if Nat.eqb (length (dbi_pb d)) 0 then [] else [(3, WLen (dbi_pb d))]) (s_dbis s).

Lemma enc_fields_app a b : enc_fields (a ++ b) = enc_fields a ++ enc_fields b.
Proof. unfold enc_fields. apply flat_map_app. Qed.

(* the one-byte tags of the encoder *)
Lemma tag_1_2 : encode_tag 1 2 = encode_varint (1 * 8 + 2). Proof. reflexivity. Qed.
Lemma tag_2_2 : encode_tag 2 2 = encode_varint (2 * 8 + 2). Proof. reflexivity. Qed.
Lemma tag_3_2 : encode_tag 3 2 = encode_varint (3 * 8 + 2). Proof. reflexivity. Qed.
Lemma tag_4_2 : encode_tag 4 2 = encode_varint (4 * 8 + 2). Proof. reflexivity. Qed.
Lemma tag_7_2 : encode_tag 7 2 = encode_varint (7 * 8 + 2). Proof. reflexivity. Qed.
Lemma tag_1_0 : encode_tag 1 0 = encode_varint (1 * 8 + 0). Proof. reflexivity. Qed.
Lemma tag_3_0 : encode_tag 3 0 = encode_varint (3 * 8 + 0). Proof. reflexivity. Qed.
Lemma tag_4_0 : encode_tag 4 0 = encode_varint (4 * 8 + 0). Proof. reflexivity. Qed.
Lemma tag_8_0 : encode_tag 8 0 = encode_varint (8 * 8 + 0). Proof. reflexivity. Qed.
Lemma tag_3_1 : encode_tag 3 1 = encode_varint (3 * 8 + 1). Proof. reflexivity. Qed.
Lemma tag_5_1 : encode_tag 5 1 = encode_varint (5 * 8 + 1). Proof. reflexivity. Qed.

Lemma enc_f_len num p : enc_fields (f_len num p) =
  if Nat.ltb 0 (length p) then encode_varint (num * 8 + 2) ++ encode_varint (lenN p) ++ p else [].
Proof. unfold f_len. destruct (Nat.ltb 0 (length p)); cbn [enc_fields flat_map enc_field]; [rewrite app_nil_r|]; reflexivity. Qed.
Lemma enc_f_var num v : enc_fields (f_var num v) =
  if 0 <? v then encode_varint (num * 8 + 0) ++ encode_varint v else [].
Proof. unfold f_var. destruct (0 <? v); cbn [enc_fields flat_map enc_field]; [rewrite app_nil_r|]; reflexivity. Qed.
Lemma enc_f_f64 num v : enc_fields (f_f64 num v) =
  if 0 <? v then encode_varint (num * 8 + 1) ++ le64 v else [].
Proof. unfold f_f64. destruct (0 <? v); cbn [enc_fields flat_map enc_field]; [rewrite app_nil_r|]; reflexivity. Qed.

(* ---- sizes ---- *)

Lemma lenN_app (a b : bytes) : lenN (a ++ b) = lenN a + lenN b.
Proof. unfold lenN. rewrite app_length. lia. Qed.

Lemma lenN_varint v : v < two64 -> lenN (encode_varint v) = sizeof_varint v.
Proof. apply encode_varint_size. Qed.

Lemma lenN_tag1 k : k < 128 -> lenN (encode_varint k) = 1.
Proof.
  intros H. unfold encode_varint. cbn [encode_varint_f]. replace (k <? 128) with true by lia. reflexivity.
Qed.

Lemma lenN_le64 v : lenN (le64 v) = 8.
Proof. unfold lenN, le64. rewrite le_length. reflexivity. Qed.

Lemma lenN_f_len num p : num < 16 -> lenN p < two64 ->
  lenN (enc_fields (f_len num p)) = if Nat.ltb 0 (length p) then 1 + sizeof_varint (lenN p) + lenN p else 0.
Proof.
  intros Hn Hp. rewrite enc_f_len. destruct (Nat.ltb 0 (length p)); [|reflexivity].
  rewrite !lenN_app, lenN_tag1, lenN_varint by lia. lia.
Qed.
Lemma lenN_f_var num v : num < 16 -> v < two64 ->
  lenN (enc_fields (f_var num v)) = if 0 <? v then 1 + sizeof_varint v else 0.
Proof.
  intros Hn Hp. rewrite enc_f_var. destruct (0 <? v); [|reflexivity].
  rewrite !lenN_app, lenN_tag1, lenN_varint by lia. lia.
Qed.
Lemma lenN_f_f64 num v : num < 15 ->
  lenN (enc_fields (f_f64 num v)) = if 0 <? v then 1 + 8 else 0.
Proof.
  intros Hn. rewrite enc_f_f64. destruct (0 <? v); [|reflexivity].
  rewrite !lenN_app, lenN_tag1, lenN_le64 by lia. lia.
Qed.

Lemma kv_pb_size e : lenN (k_key e) < two64 -> lenN (k_val e) < two64 -> k_flags e < two64 ->
  lenN (kv_pb e) = kv_size e.
Proof.
  intros Hk Hv Hf. unfold kv_pb, kv_fields, kv_size.
  rewrite !enc_fields_app, !lenN_app, !lenN_f_len, lenN_f_var, lenN_f_f64 by lia. lia.
Qed.

(* ---- the encoder writes exactly these field lists ---- *)

Lemma buf_put_ok cap acc x : (zlen acc + zlen x <= cap)%Z -> buf_put cap acc x = Ok (acc ++ x).
Proof. intros H. unfold buf_put. replace (zlen acc + zlen x <=? cap)%Z with true by lia. reflexivity. Qed.

Lemma buf_copy_ok cap acc x : (zlen acc + zlen x <= cap)%Z -> buf_copy cap acc x = acc ++ x.
Proof.
  intros H. unfold buf_copy. f_equal. apply firstn_all2. unfold zlen in *. lia.
Qed.

Lemma zlen_lenN (b : bytes) : zlen b = Z.of_N (lenN b).
Proof. unfold zlen, lenN. lia. Qed.

Lemma sizeof_small v : v < 16384 -> sizeof_varint v <= 2.
Proof.
  intros H. rewrite sizeof_varint_log2. destruct (N.eq_dec v 0) as [->|Hz]; [cbn; lia|].
  assert (N.log2 v < 14) by (apply N.log2_lt_pow2; [lia|exact H]). lia.
Qed.

Lemma sizeof_le10 v : v < two64 -> sizeof_varint v <= 10.
Proof. intros H. rewrite <- (encode_varint_size v H). pose proof (encode_varint_length v). lia. Qed.

Lemma do_flush_fields_ok name flags transform :
  lenN name <= 511 -> lenN transform <= 472 -> flags < two64 ->
  do_flush_fields name flags transform = Ok (enc_fields (f_len 1 name ++ f_var 3 flags ++ f_len 4 transform)).
Proof.
  intros Hn Ht Hf. unfold do_flush_fields.
  rewrite !enc_fields_app, !enc_f_len, enc_f_var.
  change (encode_tag 1 2) with (encode_varint (1 * 8 + 2)).
  change (encode_tag 3 0) with (encode_varint (3 * 8 + 0)).
  change (encode_tag 4 2) with (encode_varint (4 * 8 + 2)).
  assert (L1 : lenN (encode_varint (lenN name)) <= 2)
    by (rewrite lenN_varint by (unfold two64; lia); apply sizeof_small; lia).
  assert (L2 : lenN (encode_varint flags) <= 10) by (rewrite lenN_varint by exact Hf; apply sizeof_le10, Hf).
  assert (L3 : lenN (encode_varint (lenN transform)) <= 2)
    by (rewrite lenN_varint by (unfold two64; lia); apply sizeof_small; lia).
  assert (T1 : lenN (encode_varint (1 * 8 + 2)) = 1) by reflexivity.
  assert (T3 : lenN (encode_varint (3 * 8 + 0)) = 1) by reflexivity.
  assert (T4 : lenN (encode_varint (4 * 8 + 2)) = 1) by reflexivity.
  set (tn := encode_varint (1 * 8 + 2)) in *. set (tf := encode_varint (3 * 8 + 0)) in *.
  set (tt := encode_varint (4 * 8 + 2)) in *.
  set (vn := encode_varint (lenN name)) in *. set (vf := encode_varint flags) in *.
  set (vt := encode_varint (lenN transform)) in *.
  (* name *)
  assert (S1 : exists b1, (if Nat.ltb 0 (length name)
                           then do b <- buf_put 1000 [] tn; do b <- buf_put 1000 b vn; Ok (buf_copy 1000 b name)
                           else Ok []) = Ok b1 /\
                          b1 = (if Nat.ltb 0 (length name) then tn ++ vn ++ name else []) /\ lenN b1 <= 514).
  { destruct (Nat.ltb 0 (length name)).
    - rewrite buf_put_ok by (rewrite !zlen_lenN; change (lenN (@nil N)) with 0; lia). cbn [bind app].
      rewrite buf_put_ok by (rewrite !zlen_lenN; lia). cbn [bind].
      rewrite buf_copy_ok by (rewrite !zlen_lenN, lenN_app; lia).
      eexists. split; [reflexivity|]. split; [rewrite <- app_assoc; reflexivity|]. rewrite !lenN_app. lia.
    - eexists. split; [reflexivity|]. split; [reflexivity|]. cbn. lia. }
  destruct S1 as (b1 & -> & E1 & B1). cbn [bind].
  assert (S2 : exists b2, (if 0 <? flags then do b <- buf_put 1000 b1 tf; buf_put 1000 b vf else Ok b1) = Ok b2 /\
                          b2 = b1 ++ (if 0 <? flags then tf ++ vf else []) /\ lenN b2 <= 525).
  { destruct (0 <? flags).
    - rewrite buf_put_ok by (rewrite !zlen_lenN; lia). cbn [bind].
      rewrite buf_put_ok by (rewrite !zlen_lenN, lenN_app; lia).
      eexists. split; [reflexivity|]. split; [rewrite <- app_assoc; reflexivity|]. rewrite !lenN_app. lia.
    - eexists. split; [reflexivity|]. split; [rewrite app_nil_r; reflexivity|]. lia. }
  destruct S2 as (b2 & -> & E2 & B2). cbn [bind].
  destruct (Nat.ltb 0 (length transform)).
  - rewrite buf_put_ok by (rewrite !zlen_lenN; lia). cbn [bind].
    rewrite buf_put_ok by (rewrite !zlen_lenN, lenN_app; lia). cbn [bind].
    rewrite buf_copy_ok by (rewrite !zlen_lenN, !lenN_app; lia).
    f_equal. subst b2 b1. rewrite <- !app_assoc. reflexivity.
  - f_equal. subst b2 b1. rewrite app_nil_r. reflexivity.
Qed.

Lemma kv_size_bounds e : lenN (k_key e) <= kv_size e /\ lenN (k_val e) <= kv_size e /\
  (0 <? k_flags e = true -> sizeof_varint (k_flags e) <= kv_size e).
Proof.
  unfold kv_size, lenN.
  destruct (Nat.ltb 0 (length (k_key e))) eqn:K; destruct (Nat.ltb 0 (length (k_val e))) eqn:V;
    destruct (0 <? k_flags e); try apply Nat.ltb_ge in K; try apply Nat.ltb_ge in V;
    repeat split; intros; try discriminate; lia.
Qed.

Lemma kv_pb_written e :
  kv_pb e =
  (if Nat.ltb 0 (length (k_key e)) then encode_tag 1 2 ++ encode_varint (lenN (k_key e)) ++ k_key e else [])
  ++ (if Nat.ltb 0 (length (k_val e)) then encode_tag 2 2 ++ encode_varint (lenN (k_val e)) ++ k_val e else [])
  ++ (if 0 <? k_flags e then encode_tag 4 0 ++ encode_varint (k_flags e) else [])
  ++ (if 0 <? k_ts e then encode_tag 3 1 ++ le64 (k_ts e) else []).
Proof.
  unfold kv_pb, kv_fields. rewrite !enc_fields_app, !enc_f_len, enc_f_var, enc_f_f64. reflexivity.
Qed.

Definition set_data (d : dbi_w) (b : bytes) : dbi_w :=
  mkW (w_name d) (w_flags d) (w_transform d) b (w_dirty d) (w_flushed d).

Lemma append_kv_ok d e : w_dirty d = false -> kv_valid e = true -> kv_size e < two63 ->
  append_kv d e = Ok (set_data d (w_data d ++ enc_fields (entry_field e))).
Proof.
  intros Hd Hv Hs. unfold kv_valid in Hv.
  apply andb_prop in Hv. destruct Hv as [Hv Hts]. apply andb_prop in Hv. destruct Hv as [Hk Hfl].
  destruct (kv_size_bounds e) as (B1 & B2 & _).
  assert (Hsz : lenN (kv_pb e) = kv_size e) by (apply kv_pb_size; unfold two64, two63, two32 in *; lia).
  assert (Hpos : 0 < kv_size e).
  { unfold kv_size. rewrite Hk. lia. }
  unfold append_kv. rewrite Hd. cbn [bind]. fold (kv_size e).
  replace (kv_size e =? 0) with false by lia.
  rewrite <- kv_pb_written.
  change (encode_tag 2 2) with (encode_varint (2 * 8 + 2)).
  assert (Hw : lenN (encode_varint (2 * 8 + 2) ++ encode_varint (kv_size e) ++ kv_pb e)
               = 1 + sizeof_varint (kv_size e) + kv_size e).
  { rewrite !lenN_app, Hsz, (lenN_varint (kv_size e)) by (unfold two64, two63 in *; lia).
    change (lenN (encode_varint (2 * 8 + 2))) with 1. lia. }
  rewrite Hw, N.leb_refl, N.sub_diag. cbn [N.to_nat repeat]. rewrite app_nil_r.
  unfold set_data, entry_field. rewrite Hsz. replace (kv_size e =? 0) with false by lia.
  cbn [enc_fields flat_map enc_field]. rewrite app_nil_r, Hsz. reflexivity.
Qed.

Lemma entry_size e : kv_valid e = true -> kv_size e < two63 ->
  lenN (enc_fields (entry_field e)) = if kv_size e =? 0 then 0 else 1 + sizeof_varint (kv_size e) + kv_size e.
Proof.
  intros Hv Hs. unfold kv_valid in Hv.
  apply andb_prop in Hv. destruct Hv as [Hv Hts]. apply andb_prop in Hv. destruct Hv as [Hk Hfl].
  destruct (kv_size_bounds e) as (B1 & B2 & _).
  assert (Hsz : lenN (kv_pb e) = kv_size e) by (apply kv_pb_size; unfold two64, two63, two32 in *; lia).
  unfold entry_field. rewrite Hsz. destruct (kv_size e =? 0); [reflexivity|].
  cbn [enc_fields flat_map enc_field]. rewrite app_nil_r, !lenN_app, Hsz.
  rewrite (lenN_varint (kv_size e)) by (unfold two64, two63 in *; lia).
  change (lenN (encode_varint (2 * 8 + 2))) with 1. lia.
Qed.

Lemma append_all_ok es : forall d, w_dirty d = false ->
  Forall (fun e => kv_valid e = true /\ kv_size e < two63) es ->
  append_all d es = Ok (set_data d (w_data d ++ enc_fields (flat_map entry_field es))).
Proof.
  induction es as [|e es IH]; intros d Hd Hall.
  - cbn [append_all flat_map enc_fields]. unfold set_data. rewrite app_nil_r. destruct d; reflexivity.
  - inversion Hall as [|? ? [Hv Hs] Hall']; subst. cbn [append_all].
    rewrite (append_kv_ok d e Hd Hv Hs). cbn [bind].
    rewrite IH; [|exact Hd|exact Hall'].
    cbn [flat_map]. rewrite enc_fields_app. unfold set_data. cbn [w_name w_flags w_transform w_data w_dirty w_flushed].
    rewrite <- app_assoc. reflexivity.
Qed.

Lemma sumN_in {A : Type} (f : A -> N) (l : list A) (x : A) : In x l -> f x <= sumN f l.
Proof.
  induction l as [|a l IH]; intros H; [contradiction|]. cbn [sumN fold_right]. fold (sumN f l).
  destruct H as [->|H]; [lia|]. specialize (IH H). lia.
Qed.

Lemma dbi_valid_entries d : dbi_valid d = true ->
  Forall (fun e => kv_valid e = true /\ kv_size e < two63) (db_entries d).
Proof.
  unfold dbi_valid. intros H. repeat (apply andb_prop in H; destruct H as [H ?]).
  rename H0 into Hsize. rename H1 into Hkv.
  apply Forall_forall. intros e He. split; [rewrite forallb_forall in Hkv; apply Hkv, He|].
  pose proof (sumN_in (fun e => if kv_size e =? 0 then 0 else 1 + sizeof_varint (kv_size e) + kv_size e)
                _ _ He) as Hle. cbv beta in Hle.
  unfold dbi_size in Hsize. unfold MaxFieldLength, two63 in *.
  destruct (kv_size e =? 0) eqn:Z0; lia.
Qed.

Lemma append_kv_dirty d d' e : w_dirty d = true -> flush_fields d = Ok d' -> w_dirty d' = false ->
  append_kv d e = append_kv d' e.
Proof. intros Hd Hf Hd'. unfold append_kv. rewrite Hd, Hf, Hd'. reflexivity. Qed.

(* building a DBI the way the syncer does and marshalling it gives the canonical encoding *)
Lemma marshal_build x : dbi_valid x = true ->
  (do d <- build_dbi x; do (b, _) <- dbi_marshal d; Ok b) = Ok (dbi_pb x).
Proof.
  intros Hv. pose proof (dbi_valid_entries x Hv) as Hes.
  unfold dbi_valid in Hv. repeat (apply andb_prop in Hv; destruct Hv as [Hv ?]).
  assert (Hflush : do_flush_fields (db_name x) (db_flags x) (db_transform x) =
                   Ok (enc_fields (f_len 1 (db_name x) ++ f_var 3 (db_flags x) ++ f_len 4 (db_transform x))))
    by (apply do_flush_fields_ok; lia).
  unfold build_dbi, new_dbi, set_name, set_transform, set_flags. cbn [w_flushed bind w_name w_flags w_transform w_data].
  set (hdr := enc_fields (f_len 1 (db_name x) ++ f_var 3 (db_flags x) ++ f_len 4 (db_transform x))) in *.
  set (d0 := mkW (db_name x) (db_flags x) (db_transform x) [] true false).
  set (d1 := mkW (db_name x) (db_flags x) (db_transform x) hdr false true).
  assert (Hf0 : flush_fields d0 = Ok d1).
  { unfold flush_fields, d0, d1. cbn [w_dirty negb w_name w_flags w_transform w_data]. rewrite Hflush. reflexivity. }
  unfold dbi_pb, dbi_fields. rewrite !app_assoc, enc_fields_app, <- !app_assoc. fold hdr.
  destruct (db_entries x) as [|e es] eqn:Ees.
  - cbn [append_all bind flat_map enc_fields]. unfold dbi_marshal. rewrite Hf0. cbn [bind w_data].
    rewrite app_nil_r. reflexivity.
  - cbn [append_all]. inversion Hes as [|? ? [Hv1 Hs1] Hes']; subst.
    rewrite (append_kv_dirty d0 d1 e (eq_refl : w_dirty d0 = true) Hf0 (eq_refl : w_dirty d1 = false)).
    rewrite (append_kv_ok d1 e (eq_refl : w_dirty d1 = false) Hv1 Hs1). cbn [bind].
    rewrite (append_all_ok es (set_data d1 (w_data d1 ++ enc_fields (entry_field e))) (eq_refl : w_dirty d1 = false) Hes').
    cbn [bind]. unfold d1.
    unfold dbi_marshal, flush_fields, set_data. cbn [w_dirty negb w_name w_flags w_transform w_data bind].
    cbn [flat_map]. rewrite enc_fields_app, <- !app_assoc. reflexivity.
Qed.

Lemma str_field_enc tag s : tag < 16 -> str_field tag s = enc_fields (f_len tag s).
Proof.
  intros Ht. unfold str_field. rewrite enc_f_len. destruct (Nat.ltb 0 (length s)); [|reflexivity].
  f_equal. unfold encode_tag, tag_key, u64. rewrite N.shiftl_mul_pow2. change (2 ^ 3) with 8.
  rewrite N.mod_small by (unfold two64; lia). f_equal.
  (* tag * 8 lor 2 = tag * 8 + 2 for the 15 possible tags *)
  assert (Hc : tag = 0 \/ tag = 1 \/ tag = 2 \/ tag = 3 \/ tag = 4 \/ tag = 5 \/ tag = 6 \/ tag = 7 \/ tag = 8
               \/ tag = 9 \/ tag = 10 \/ tag = 11 \/ tag = 12 \/ tag = 13 \/ tag = 14 \/ tag = 15) by lia.
  repeat (destruct Hc as [->|Hc]; [reflexivity|]). subst. reflexivity.
Qed.

Lemma meta_marshal_enc m : meta_valid m = true -> meta_marshal m = meta_pb m.
Proof.
  unfold meta_valid. intros H. repeat (apply andb_prop in H; destruct H as [H ?]).
  unfold meta_marshal, meta_pb, meta_fields.
  rewrite !enc_fields_app, !str_field_enc, !enc_f_var, enc_f_f64 by lia.
  change (encode_tag 4 0) with (encode_varint (4 * 8 + 0)).
  change (encode_tag 5 1) with (encode_varint (5 * 8 + 1)).
  change (encode_tag 8 0) with (encode_varint (8 * 8 + 0)).
  assert (U : forall z, (0 <= z)%Z -> (z < Z.of_N two63)%Z -> to_uint64 z = Z.to_N z /\ (0 <? z)%Z = (0 <? Z.to_N z)).
  { intros z Hz0 Hz1. unfold to_uint64. rewrite Z.mod_small by (unfold two63, two64 in *; lia). split; [reflexivity|lia]. }
  destruct (U (m_txn m) ltac:(lia) ltac:(lia)) as [-> ->].
  destruct (U (m_from m) ltac:(lia) ltac:(lia)) as [-> ->]. reflexivity.
Qed.

Lemma mapM_map {A B : Type} (f : A -> res B) (g : A -> B) (l : list A) :
  Forall (fun x => f x = Ok (g x)) l -> mapM f l = Ok (map g l).
Proof.
  induction 1 as [|x l Hx Hl IH]; [reflexivity|]. cbn [mapM map]. rewrite Hx, IH. reflexivity.
Qed.

(* C07: what the encoder writes for a valid snapshot *)
Theorem custom_encode_valid s : valid s = true -> custom_encode s = Ok (enc_fields (snap_fields s)).
Proof.
  unfold valid. intros H. repeat (apply andb_prop in H; destruct H as [H ?]).
  rename H0 into Hdb. rename H1 into Hm. rename H2 into Hc.
  unfold custom_encode.
  rewrite (mapM_map _ dbi_pb).
  2:{ rewrite forallb_forall in Hdb. apply Forall_forall. intros x Hx. apply marshal_build, Hdb, Hx. }
  cbn [bind]. f_equal. unfold write_to, snap_fields.
  rewrite !enc_fields_app, !enc_f_var, (meta_marshal_enc _ Hm).
  unfold varint_field. change (encode_tag 1 0) with (encode_varint (1 * 8 + 0)).
  change (encode_tag 4 0) with (encode_varint (4 * 8 + 0)).
  change (encode_tag 2 2) with (encode_varint (2 * 8 + 2)).
  change (encode_tag 3 2) with (encode_varint (3 * 8 + 2)).
  f_equal. f_equal. f_equal.
  - destruct (Nat.ltb 0 (length (meta_pb (s_meta s)))); [|reflexivity].
    cbn [enc_fields flat_map enc_field]. rewrite app_nil_r. reflexivity.
  - clear. induction (s_dbis s) as [|d l IH]; [reflexivity|].
    cbn [map flat_map]. rewrite enc_fields_app, IH. f_equal.
    destruct (Nat.eqb (length (dbi_pb d)) 0); [reflexivity|].
    cbn [enc_fields flat_map enc_field]. rewrite app_nil_r. reflexivity.
Qed.

(* ---- the field lists are grammatical ---- *)

Lemma wf_f_len num p : 1 <= num <= 15 -> lenN p < two64 -> Forall wf_field (f_len num p).
Proof.
  intros Hn Hp. unfold f_len. destruct (Nat.ltb 0 (length p)); constructor; [|constructor].
  unfold wf_field, MaxFieldNumber. split; [lia|exact Hp].
Qed.
Lemma wf_f_var num v : 1 <= num <= 15 -> v < two64 -> Forall wf_field (f_var num v).
Proof.
  intros Hn Hp. unfold f_var. destruct (0 <? v); constructor; [|constructor].
  unfold wf_field, MaxFieldNumber. split; [lia|exact Hp].
Qed.
Lemma wf_f_f64 num v : 1 <= num <= 15 -> v < two64 -> Forall wf_field (f_f64 num v).
Proof.
  intros Hn Hp. unfold f_f64. destruct (0 <? v); constructor; [|constructor].
  unfold wf_field, MaxFieldNumber. split; [lia|exact Hp].
Qed.

Definition kv_good (e : kv) : Prop := kv_valid e = true /\ kv_size e < two63.

Lemma kv_good_bounds e : kv_good e ->
  lenN (k_key e) < two63 /\ lenN (k_val e) < two63 /\ k_flags e < two32 /\ k_ts e < two64 /\
  Nat.ltb 0 (length (k_key e)) = true.
Proof.
  intros [Hv Hs]. unfold kv_valid in Hv.
  apply andb_prop in Hv. destruct Hv as [Hv Hts]. apply andb_prop in Hv. destruct Hv as [Hk Hfl].
  destruct (kv_size_bounds e) as (B1 & B2 & _). repeat split; first [lia|exact Hk].
Qed.

Lemma kv_fields_wf e : kv_good e -> Forall wf_field (kv_fields e).
Proof.
  intros H. destruct (kv_good_bounds e H) as (B1 & B2 & B3 & B4 & _). unfold kv_fields.
  repeat (apply Forall_app; split);
    first [apply wf_f_len|apply wf_f_var|apply wf_f_f64]; unfold two63, two64, two32 in *; lia.
Qed.

Lemma kv_pb_parse e : kv_good e -> wire_parse (kv_pb e) = Some (kv_fields e).
Proof. intros H. apply wire_parse_enc_fields, kv_fields_wf, H. Qed.

Lemma kv_pb_len e : kv_good e -> lenN (kv_pb e) = kv_size e /\ 0 < kv_size e.
Proof.
  intros H. destruct (kv_good_bounds e H) as (B1 & B2 & B3 & B4 & Hk). split.
  - apply kv_pb_size; unfold two63, two64, two32 in *; lia.
  - unfold kv_size. rewrite Hk. lia.
Qed.

Lemma entry_field_good e : kv_good e -> entry_field e = [(2, WLen (kv_pb e))].
Proof.
  intros H. destruct (kv_pb_len e H) as [Hl Hp]. unfold entry_field. rewrite Hl.
  replace (kv_size e =? 0) with false by lia. reflexivity.
Qed.

(* ---- the schema reads the field lists back ---- *)

Lemma list_len0 {A : Type} (l : list A) : Nat.ltb 0 (length l) = false -> l = [].
Proof. destruct l; [reflexivity|cbn; discriminate]. Qed.

Lemma spec_kv_fields e : kv_good e -> spec_kv_fold (kv_fields e) kv0 = Ok e.
Proof.
  intros H. destruct (kv_good_bounds e H) as (_ & _ & B3 & _ & Hk).
  destruct e as [key val ts fl]. cbn [k_key k_val k_ts k_flags] in *.
  unfold kv_fields, f_len, f_var, f_f64. cbn [k_key k_val k_ts k_flags]. rewrite Hk.
  destruct (Nat.ltb 0 (length val)) eqn:V; [|apply list_len0 in V; subst val];
    destruct (0 <? fl) eqn:F; destruct (0 <? ts) eqn:T;
    cbn [app spec_kv_fold spec_kv_step bind N.eqb Pos.eqb k_key k_val k_ts k_flags kv0];
    rewrite ?(N.mod_small fl two32) by exact B3;
    f_equal; f_equal; lia.
Qed.

Lemma spec_kv_pb e : kv_good e -> spec_kv (kv_pb e) = Ok e.
Proof. intros H. unfold spec_kv. rewrite (kv_pb_parse e H). apply spec_kv_fields, H. Qed.

Lemma spec_dbi_fold_app a b : forall d,
  spec_dbi_fold (a ++ b) d = (do d' <- spec_dbi_fold a d; spec_dbi_fold b d').
Proof.
  induction a as [|f a IH]; intros d; [reflexivity|]. cbn [app spec_dbi_fold].
  destruct (spec_dbi_step f d); cbn [bind]; try reflexivity. apply IH.
Qed.

Lemma spec_dbi_entries es : Forall kv_good es -> forall n f t acc,
  spec_dbi_fold (flat_map entry_field es) (mkDbi n f t acc) = Ok (mkDbi n f t (acc ++ es)).
Proof.
  induction 1 as [|e es He Hes IH]; intros n f t acc.
  - cbn [flat_map spec_dbi_fold]. rewrite app_nil_r. reflexivity.
  - cbn [flat_map]. rewrite (entry_field_good e He). cbn [app spec_dbi_fold spec_dbi_step N.eqb Pos.eqb].
    rewrite (spec_kv_pb e He). cbn [bind db_name db_flags db_transform db_entries].
    rewrite IH, <- app_assoc. reflexivity.
Qed.

Definition dbi_good (d : dbi) : Prop := dbi_valid d = true.

Lemma dbi_good_parts d : dbi_good d ->
  Nat.ltb 0 (length (db_name d)) = true /\ lenN (db_name d) <= 511 /\ lenN (db_transform d) <= 472 /\
  db_flags d < two64 /\ Forall kv_good (db_entries d) /\ dbi_size d <= MaxFieldLength.
Proof.
  intros H. pose proof (dbi_valid_entries d H) as He. unfold dbi_good, dbi_valid in H.
  repeat (apply andb_prop in H; destruct H as [H ?]). repeat split; try lia; try assumption.
Qed.

Lemma spec_dbi_fields d : dbi_good d -> spec_dbi_fold (dbi_fields d) dbi0 = Ok d.
Proof.
  intros H. destruct (dbi_good_parts d H) as (Hn & _ & _ & _ & Hes & _).
  destruct d as [name fl tr es]. cbn [db_name db_flags db_transform db_entries] in *.
  unfold dbi_fields. cbn [db_name db_flags db_transform db_entries].
  rewrite !app_assoc, spec_dbi_fold_app, <- !app_assoc.
  assert (Hh : spec_dbi_fold (f_len 1 name ++ f_var 3 fl ++ f_len 4 tr) dbi0 = Ok (mkDbi name fl tr [])).
  { unfold f_len, f_var. rewrite Hn.
    destruct (0 <? fl) eqn:F; (destruct (Nat.ltb 0 (length tr)) eqn:T; [|apply list_len0 in T; subst tr]);
      cbn [app spec_dbi_fold spec_dbi_step bind N.eqb Pos.eqb db_name db_flags db_transform db_entries dbi0];
      f_equal; f_equal; lia. }
  rewrite Hh. cbn [bind]. rewrite (spec_dbi_entries es Hes). reflexivity.
Qed.

Lemma dbi_fields_wf d : dbi_good d -> Forall wf_field (dbi_fields d).
Proof.
  intros H. destruct (dbi_good_parts d H) as (Hn & B1 & B2 & B3 & Hes & _). unfold dbi_fields.
  repeat (apply Forall_app; split);
    try (first [apply wf_f_len|apply wf_f_var]; unfold two64 in *; lia).
  clear -Hes. induction Hes as [|e es He Hes IH]; [constructor|].
  cbn [flat_map]. apply Forall_app. split; [|exact IH]. rewrite (entry_field_good e He).
  constructor; [|constructor]. unfold wf_field, MaxFieldNumber. split; [lia|].
  destruct (kv_pb_len e He) as [-> _]. destruct He as [_ Hs]. unfold two63, two64 in *. lia.
Qed.

Lemma dbi_pb_parse d : dbi_good d -> wire_parse (dbi_pb d) = Some (dbi_fields d).
Proof. intros H. apply wire_parse_enc_fields, dbi_fields_wf, H. Qed.

Lemma spec_dbi_pb d : dbi_good d -> spec_dbi (dbi_pb d) = Ok d.
Proof. intros H. unfold spec_dbi. rewrite (dbi_pb_parse d H). apply spec_dbi_fields, H. Qed.

(* ---- Meta ---- *)

Lemma spec_meta_fold_app a b : forall m,
  spec_meta_fold (a ++ b) m = (do m' <- spec_meta_fold a m; spec_meta_fold b m').
Proof.
  induction a as [|f a IH]; intros m; [reflexivity|]. cbn [app spec_meta_fold].
  destruct (spec_meta_step f m); cbn [bind]; try reflexivity. apply IH.
Qed.

Definition meta_good (m : meta) : Prop := meta_valid m = true.

Lemma meta_good_parts m : meta_good m ->
  (0 <= m_txn m < Z.of_N two63)%Z /\ (0 <= m_from m < Z.of_N two63)%Z /\ m_ts m < two64 /\
  lenN (m_gen m) <= MaxFieldLenDefault /\ lenN (m_inst m) <= MaxFieldLenDefault /\
  lenN (m_host m) <= MaxFieldLenDefault /\ lenN (m_dbname m) <= MaxFieldLenDefault.
Proof.
  unfold meta_good, meta_valid. intros H. repeat (apply andb_prop in H; destruct H as [H ?]).
  repeat split; lia.
Qed.

Lemma to_int64_small z : (0 <= z < Z.of_N two63)%Z -> to_int64 (Z.to_N z) = z.
Proof. intros H. unfold to_int64. replace (Z.to_N z <? two63) with true by lia. lia. Qed.

Lemma spec_meta_fields m : meta_good m -> spec_meta_fold (meta_fields m) meta0 = Ok m.
Proof.
  intros H. destruct (meta_good_parts m H) as (Ht & Hf & _).
  destruct m as [gen inst host txn ts dbn from]. cbn [m_gen m_inst m_host m_txn m_ts m_dbname m_from] in *.
  unfold meta_fields. cbn [m_gen m_inst m_host m_txn m_ts m_dbname m_from].
  pose proof (to_int64_small txn Ht) as Et. pose proof (to_int64_small from Hf) as Ef.
  assert (S1 : spec_meta_fold (f_len 1 gen) meta0 = Ok (mkMeta gen [] [] 0 0 [] 0)).
  { unfold f_len. destruct (Nat.ltb 0 (length gen)) eqn:G; [reflexivity|apply list_len0 in G; subst; reflexivity]. }
  assert (S2 : spec_meta_fold (f_len 2 inst) (mkMeta gen [] [] 0 0 [] 0) = Ok (mkMeta gen inst [] 0 0 [] 0)).
  { unfold f_len. destruct (Nat.ltb 0 (length inst)) eqn:G; [reflexivity|apply list_len0 in G; subst; reflexivity]. }
  assert (S3 : spec_meta_fold (f_len 3 host) (mkMeta gen inst [] 0 0 [] 0) = Ok (mkMeta gen inst host 0 0 [] 0)).
  { unfold f_len. destruct (Nat.ltb 0 (length host)) eqn:G; [reflexivity|apply list_len0 in G; subst; reflexivity]. }
  assert (S4 : spec_meta_fold (f_len 7 dbn) (mkMeta gen inst host 0 0 [] 0) = Ok (mkMeta gen inst host 0 0 dbn 0)).
  { unfold f_len. destruct (Nat.ltb 0 (length dbn)) eqn:G; [reflexivity|apply list_len0 in G; subst; reflexivity]. }
  assert (S5 : spec_meta_fold (f_var 4 (Z.to_N txn)) (mkMeta gen inst host 0 0 dbn 0) = Ok (mkMeta gen inst host txn 0 dbn 0)).
  { unfold f_var. destruct (0 <? Z.to_N txn) eqn:G.
    - cbn [spec_meta_fold spec_meta_step N.eqb Pos.eqb bind m_gen m_inst m_host m_txn m_ts m_dbname m_from].
      rewrite Et. reflexivity.
    - cbn [spec_meta_fold]. f_equal. f_equal. lia. }
  assert (S6 : spec_meta_fold (f_f64 5 ts) (mkMeta gen inst host txn 0 dbn 0) = Ok (mkMeta gen inst host txn ts dbn 0)).
  { unfold f_f64. destruct (0 <? ts) eqn:G; [reflexivity|]. cbn [spec_meta_fold]. f_equal. f_equal. lia. }
  assert (S7 : spec_meta_fold (f_var 8 (Z.to_N from)) (mkMeta gen inst host txn ts dbn 0) = Ok (mkMeta gen inst host txn ts dbn from)).
  { unfold f_var. destruct (0 <? Z.to_N from) eqn:G.
    - cbn [spec_meta_fold spec_meta_step N.eqb Pos.eqb bind m_gen m_inst m_host m_txn m_ts m_dbname m_from].
      rewrite Ef. reflexivity.
    - cbn [spec_meta_fold]. f_equal. f_equal. lia. }
  rewrite spec_meta_fold_app, S1. cbn [bind]. rewrite spec_meta_fold_app, S2. cbn [bind].
  rewrite spec_meta_fold_app, S3. cbn [bind]. rewrite spec_meta_fold_app, S4. cbn [bind].
  rewrite spec_meta_fold_app, S5. cbn [bind]. rewrite spec_meta_fold_app, S6. cbn [bind]. exact S7.
Qed.

Lemma meta_fields_wf m : meta_good m -> Forall wf_field (meta_fields m).
Proof.
  intros H. destruct (meta_good_parts m H) as (Ht & Hf & Hts & B1 & B2 & B3 & B4). unfold meta_fields.
  unfold MaxFieldLenDefault in *.
  repeat (apply Forall_app; split);
    first [apply wf_f_len|apply wf_f_var|apply wf_f_f64]; unfold two63, two64 in *; lia.
Qed.

Lemma meta_pb_parse m : meta_good m -> wire_parse (meta_pb m) = Some (meta_fields m).
Proof. intros H. apply wire_parse_enc_fields, meta_fields_wf, H. Qed.

Lemma spec_meta_pb m : meta_good m -> spec_meta (meta_pb m) meta0 = Ok m.
Proof. intros H. unfold spec_meta. rewrite (meta_pb_parse m H). apply spec_meta_fields, H. Qed.

(* an empty Meta message is written for (and only for) the all-default Meta *)
Lemma meta_pb_empty m : meta_good m -> meta_pb m = [] -> m = meta0.
Proof.
  intros H He. pose proof (meta_pb_parse m H) as Hp. rewrite He in Hp.
  rewrite wire_parse_nil in Hp. inversion Hp as [Hf].
  pose proof (spec_meta_fields m H) as Hs. rewrite <- Hf in Hs. cbn [spec_meta_fold] in Hs.
  inversion Hs. reflexivity.
Qed.

(* ---- sizes of the nested messages ---- *)

Lemma dbi_pb_size d : dbi_good d -> lenN (dbi_pb d) = dbi_size d.
Proof.
  intros H. destruct (dbi_good_parts d H) as (Hn & B1 & B2 & B3 & Hes & _).
  unfold dbi_pb, dbi_fields, dbi_size.
  rewrite !enc_fields_app, !lenN_app, !lenN_f_len, lenN_f_var by (unfold two64 in *; lia).
  assert (Hl : lenN (enc_fields (flat_map entry_field (db_entries d))) =
               sumN (fun e => if kv_size e =? 0 then 0 else 1 + sizeof_varint (kv_size e) + kv_size e) (db_entries d)).
  { clear -Hes. induction Hes as [|e es He Hes IH]; [reflexivity|].
    cbn [flat_map sumN fold_right].
    fold (sumN (fun e => if kv_size e =? 0 then 0 else 1 + sizeof_varint (kv_size e) + kv_size e) es).
    rewrite enc_fields_app, lenN_app, IH. f_equal. destruct He as [Hv Hs]. apply entry_size; assumption. }
  rewrite Hl. lia.
Qed.

Lemma lenN_f_len_le num p : num < 16 -> lenN p < two64 -> lenN (enc_fields (f_len num p)) <= 11 + lenN p.
Proof.
  intros Hn Hp. rewrite lenN_f_len by assumption. destruct (Nat.ltb 0 (length p)); [|lia].
  pose proof (sizeof_le10 (lenN p) Hp). lia.
Qed.

Lemma meta_pb_small m : meta_good m -> lenN (meta_pb m) <= MaxFieldLength.
Proof.
  intros H. destruct (meta_good_parts m H) as (Ht & Hf & Hts & B1 & B2 & B3 & B4).
  unfold meta_pb, meta_fields. unfold MaxFieldLenDefault, MaxFieldLength in *.
  rewrite !enc_fields_app, !lenN_app.
  pose proof (lenN_f_len_le 1 (m_gen m) ltac:(lia) ltac:(unfold two64; lia)).
  pose proof (lenN_f_len_le 2 (m_inst m) ltac:(lia) ltac:(unfold two64; lia)).
  pose proof (lenN_f_len_le 3 (m_host m) ltac:(lia) ltac:(unfold two64; lia)).
  pose proof (lenN_f_len_le 7 (m_dbname m) ltac:(lia) ltac:(unfold two64; lia)).
  rewrite !lenN_f_var, lenN_f_f64 by (unfold two63, two64 in *; lia).
  pose proof (sizeof_le10 (Z.to_N (m_txn m)) ltac:(unfold two63, two64 in *; lia)).
  pose proof (sizeof_le10 (Z.to_N (m_from m)) ltac:(unfold two63, two64 in *; lia)).
  destruct (0 <? Z.to_N (m_txn m)); destruct (0 <? m_ts m); destruct (0 <? Z.to_N (m_from m)); lia.
Qed.

(* ---- Snapshot ---- *)

Lemma spec_snapshot_fold_app a b : forall s,
  spec_snapshot_fold (a ++ b) s = (do s' <- spec_snapshot_fold a s; spec_snapshot_fold b s').
Proof.
  induction a as [|f a IH]; intros s; [reflexivity|]. cbn [app spec_snapshot_fold].
  destruct (spec_snapshot_step f s); cbn [bind]; try reflexivity. apply IH.
Qed.

Definition dbi_field_of (d : dbi) : list field :=
  if Nat.eqb (length (dbi_pb d)) 0 then [] else [(3, WLen (dbi_pb d))].

Lemma dbi_pb_nonempty d : dbi_good d -> Nat.eqb (length (dbi_pb d)) 0 = false /\ lenN (dbi_pb d) <= MaxFieldLength.
Proof.
  intros H. pose proof (dbi_pb_size d H) as Hs. destruct (dbi_good_parts d H) as (Hn & _ & _ & _ & _ & Hm).
  split; [|lia]. apply Nat.eqb_neq. intros H0. unfold lenN in Hs. rewrite H0 in Hs.
  unfold dbi_size in Hs. rewrite Hn in Hs. lia.
Qed.

Lemma spec_snapshot_dbis ds : Forall dbi_good ds -> forall f c m acc,
  spec_snapshot_fold (flat_map dbi_field_of ds) (mkSnap f c m acc) = Ok (mkSnap f c m (acc ++ ds)).
Proof.
  induction 1 as [|d ds Hd Hds IH]; intros f c m acc.
  - cbn [flat_map spec_snapshot_fold]. rewrite app_nil_r. reflexivity.
  - cbn [flat_map]. unfold dbi_field_of at 1. destruct (dbi_pb_nonempty d Hd) as [-> _].
    cbn [app spec_snapshot_fold spec_snapshot_step N.eqb Pos.eqb].
    rewrite (spec_dbi_pb d Hd). cbn [bind s_fmt s_compat s_meta s_dbis]. rewrite IH, <- app_assoc. reflexivity.
Qed.

Lemma valid_parts s : valid s = true ->
  s_fmt s < two32 /\ s_compat s < two32 /\ meta_good (s_meta s) /\ Forall dbi_good (s_dbis s).
Proof.
  unfold valid. intros H. repeat (apply andb_prop in H; destruct H as [H ?]).
  repeat split; try lia; try assumption.
  apply Forall_forall. intros d Hd. rewrite forallb_forall in H0. apply H0, Hd.
Qed.

Lemma snap_fields_eq s : snap_fields s =
  f_var 1 (s_fmt s) ++ f_var 4 (s_compat s)
  ++ (if Nat.ltb 0 (length (meta_pb (s_meta s))) then [(2, WLen (meta_pb (s_meta s)))] else [])
  ++ flat_map dbi_field_of (s_dbis s).
Proof. reflexivity. Qed.

Theorem spec_snap_fields s : valid s = true -> spec_snapshot (snap_fields s) = Ok s.
Proof.
  intros H. destruct (valid_parts s H) as (Hf & Hc & Hm & Hd).
  destruct s as [fmt compat m ds]. cbn [s_fmt s_compat s_meta s_dbis] in *.
  unfold spec_snapshot. rewrite snap_fields_eq. cbn [s_fmt s_compat s_meta s_dbis].
  assert (T1 : spec_snapshot_fold (f_var 1 fmt) snap0 = Ok (mkSnap fmt 0 meta0 [])).
  { unfold f_var. destruct (0 <? fmt) eqn:G.
    - cbn [spec_snapshot_fold spec_snapshot_step N.eqb Pos.eqb bind s_fmt s_compat s_meta s_dbis snap0].
      rewrite (N.mod_small fmt two32) by exact Hf. reflexivity.
    - cbn [spec_snapshot_fold]. unfold snap0. f_equal. f_equal. lia. }
  assert (T2 : spec_snapshot_fold (f_var 4 compat) (mkSnap fmt 0 meta0 []) = Ok (mkSnap fmt compat meta0 [])).
  { unfold f_var. destruct (0 <? compat) eqn:G.
    - cbn [spec_snapshot_fold spec_snapshot_step N.eqb Pos.eqb bind s_fmt s_compat s_meta s_dbis].
      rewrite (N.mod_small compat two32) by exact Hc. reflexivity.
    - cbn [spec_snapshot_fold]. f_equal. f_equal. lia. }
  match goal with |- context [_ ++ _ ++ ?c ++ flat_map dbi_field_of ds] => set (mf := c) end.
  assert (T3 : spec_snapshot_fold mf (mkSnap fmt compat meta0 []) = Ok (mkSnap fmt compat m [])).
  { unfold mf. destruct (Nat.ltb 0 (length (meta_pb m))) eqn:G.
    - cbn [spec_snapshot_fold spec_snapshot_step N.eqb Pos.eqb s_fmt s_compat s_meta s_dbis].
      rewrite (spec_meta_pb m Hm). reflexivity.
    - apply list_len0 in G. rewrite (meta_pb_empty m Hm G). reflexivity. }
  rewrite spec_snapshot_fold_app, T1. cbn [bind]. rewrite spec_snapshot_fold_app, T2. cbn [bind].
  rewrite spec_snapshot_fold_app, T3. cbn [bind]. apply (spec_snapshot_dbis ds Hd fmt compat m []).
Qed.

Lemma snap_fields_wf s : valid s = true -> Forall wf_field (snap_fields s).
Proof.
  intros H. destruct (valid_parts s H) as (Hf & Hc & Hm & Hd). rewrite snap_fields_eq.
  repeat (apply Forall_app; split); try (apply wf_f_var; unfold two32, two64 in *; lia).
  - destruct (Nat.ltb 0 (length (meta_pb (s_meta s)))); constructor; [|constructor].
    unfold wf_field, MaxFieldNumber. split; [lia|].
    pose proof (meta_pb_small _ Hm). unfold MaxFieldLength, two64 in *. lia.
  - clear -Hd. induction Hd as [|d ds Hd Hds IH]; [constructor|].
    cbn [flat_map]. apply Forall_app. split; [|exact IH]. unfold dbi_field_of.
    destruct (dbi_pb_nonempty d Hd) as [-> Hl]. constructor; [|constructor].
    unfold wf_field, MaxFieldNumber. split; [lia|]. unfold MaxFieldLength, two64 in *. lia.
Qed.

Lemma forallb_f_len (ok : field -> bool) num p : (Nat.ltb 0 (length p) = true -> ok (num, WLen p) = true) ->
  forallb ok (f_len num p) = true.
Proof. intros H. unfold f_len. destruct (Nat.ltb 0 (length p)); [cbn; rewrite H; reflexivity|reflexivity]. Qed.
Lemma forallb_f_var (ok : field -> bool) num v : (ok (num, WVar v) = true) -> forallb ok (f_var num v) = true.
Proof. intros H. unfold f_var. destruct (0 <? v); [cbn; rewrite H; reflexivity|reflexivity]. Qed.
Lemma forallb_f_f64 (ok : field -> bool) num v : (ok (num, WF64 v) = true) -> forallb ok (f_f64 num v) = true.
Proof. intros H. unfold f_f64. destruct (0 <? v); [cbn; rewrite H; reflexivity|reflexivity]. Qed.

Lemma meta_pb_ok m : meta_good m -> meta_ok (meta_pb m) = true.
Proof.
  intros H. unfold meta_ok. rewrite (meta_pb_parse m H).
  destruct (meta_good_parts m H) as (_ & _ & _ & B1 & B2 & B3 & B4).
  unfold meta_fields. rewrite !forallb_app.
  rewrite !forallb_f_len, !forallb_f_var, forallb_f_f64; try reflexivity;
    intros _; unfold meta_field_ok; apply andb_true_intro; split; try reflexivity; lia.
Qed.

Lemma kv_pb_ok e : kv_good e -> kv_ok (kv_pb e) = true.
Proof.
  intros H. unfold kv_ok. rewrite (kv_pb_parse e H). destruct (kv_pb_len e H) as [Hl Hp].
  destruct (kv_pb e); [unfold lenN in Hl; cbn [length] in Hl; lia|reflexivity].
Qed.

Lemma dbi_pb_ok d : dbi_good d -> dbi_ok (dbi_pb d) = true.
Proof.
  intros H. unfold dbi_ok. rewrite (dbi_pb_parse d H).
  destruct (dbi_good_parts d H) as (_ & _ & _ & _ & Hes & _).
  unfold dbi_fields. rewrite !forallb_app.
  rewrite !forallb_f_len, forallb_f_var; try reflexivity.
  cbn [andb]. clear -Hes. induction Hes as [|e es He Hes IH]; [reflexivity|].
  cbn [flat_map]. rewrite forallb_app, IH, (entry_field_good e He). cbn [forallb dbi_field_ok N.eqb Pos.eqb].
  rewrite (kv_pb_ok e He). reflexivity.
Qed.

Lemma dbis_schema_ok ds : Forall dbi_good ds -> forallb snap_field_ok (flat_map dbi_field_of ds) = true.
Proof.
  induction 1 as [|d ds Hd Hds IH]; [reflexivity|].
  cbn [flat_map]. rewrite forallb_app. apply andb_true_intro. split; [|exact IH].
  unfold dbi_field_of. destruct (dbi_pb_nonempty d Hd) as [-> Hl].
  cbn [forallb snap_field_ok N.eqb Pos.eqb]. rewrite (dbi_pb_ok d Hd).
  replace (lenN (dbi_pb d) <=? MaxFieldLength) with true by lia. reflexivity.
Qed.

Theorem snap_fields_schema_ok s : valid s = true -> schema_ok (snap_fields s) = true.
Proof.
  intros H. destruct (valid_parts s H) as (Hf & Hc & Hm & Hd). unfold schema_ok. rewrite snap_fields_eq.
  rewrite !forallb_app.
  assert (V1 : snap_field_ok (1, WVar (s_fmt s)) = true).
  { unfold snap_field_ok. apply andb_true_intro. split; [reflexivity|]. change ((1 =? 1) || (1 =? 4)) with true. cbn iota. lia. }
  assert (V4 : snap_field_ok (4, WVar (s_compat s)) = true).
  { unfold snap_field_ok. apply andb_true_intro. split; [reflexivity|]. change ((4 =? 1) || (4 =? 4)) with true. cbn iota. lia. }
  rewrite (forallb_f_var _ 1 _ V1), (forallb_f_var _ 4 _ V4).
  cbn [andb].
  match goal with |- context [forallb snap_field_ok ?c && forallb snap_field_ok (flat_map dbi_field_of _)] => set (mf := c) end.
  assert (M : forallb snap_field_ok mf = true).
  { unfold mf. destruct (Nat.ltb 0 (length (meta_pb (s_meta s)))); [|reflexivity].
    cbn [forallb snap_field_ok N.eqb Pos.eqb]. rewrite (meta_pb_ok _ Hm).
    pose proof (meta_pb_small _ Hm). replace (lenN (meta_pb (s_meta s)) <=? MaxFieldLength) with true by lia.
    reflexivity. }
  apply andb_true_intro. split; [exact M|]. exact (dbis_schema_ok _ Hd).
Qed.

(* C07_valid_wire: the written bytes are a message of the grammar, the schema reads them back as s *)
Theorem valid_wire s b : valid s = true -> custom_encode s = Ok b ->
  exists fs, wire_parse b = Some fs /\ spec_snapshot fs = Ok s /\ schema_ok fs = true.
Proof.
  intros H Hb. rewrite (custom_encode_valid s H) in Hb. inversion Hb; subst b.
  exists (snap_fields s). split; [apply wire_parse_enc_fields, snap_fields_wf, H|].
  split; [apply spec_snap_fields, H|apply snap_fields_schema_ok, H].
Qed.

Theorem encode_ok s : valid s = true -> exists b, custom_encode s = Ok b.
Proof. intros H. eexists. apply custom_encode_valid, H. Qed.

(* C07_roundtrip *)
Theorem roundtrip s b : valid s = true -> custom_encode s = Ok b -> (zlen b <= max_int)%Z ->
  custom_decode b = Ok s.
Proof.
  intros H Hb Hmax. destruct (valid_wire s b H Hb) as (fs & Hw & Hs & Hok).
  rewrite (forward_compat b fs Hmax Hw Hok). exact Hs.
Qed.
