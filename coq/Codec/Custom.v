(* Codec/Custom.v — the hand-written snapshot codec of /repo/snapshot AS IT IS (after commits 0b1b953
   "DBI decoding skipped unknown fields from the start of the buffer" and e5df985 "bound hostile length
   varints before converting them to int"), function by function, with read offsets (Go int = Z), the
   uint64 <-> int conversions, every slice expression (out of range = [Panic]) and every loop (fuel =
   length of the data being scanned + 1; running out = [OutOfFuel]) explicit.
   Conventions: a Go []byte / string that is nil or empty is []; every `return err` is [E]
   (= Err EMalformed; the property distinguishes value / error / panic / hang, not error texts);
   io.EOF from DBI.Next is a value ([None]), not an error. Go int additions are exact in Z (operands are
   bounded by slice lengths after the checks shown; no addition wraps before the model reports Panic).
   No proofs here. *)
From LS Require Import Base.Bytes Base.Res Merge.Model Codec.Varint Codec.Loop Codec.Wire.
Open Scope N_scope.

(* ---- Go runtime pieces ---- *)

(* len(x) *)
Definition zlen (b : bytes) : Z := Z.of_nat (length b).

(* uint64(x) for a Go int x (two's complement; Go ints are below 2^63, where this is exact) *)
Definition u64_of_int (x : Z) : N := if (x <? 0)%Z then Z.to_N (x + Z.of_N two64) else Z.to_N x.
(* int(v) for a uint64 v *)
Definition int_of_u64 (v : N) : Z := to_int64 v.

(* data[off:] *)
Definition slice_from (data : bytes) (off : Z) : res bytes :=
  if ((0 <=? off) && (off <=? zlen data))%Z then Ok (skipn (Z.to_nat off) data) else Panic.
(* data[lo:hi] and data[lo:hi:hi]; hi is checked against len (Go checks against cap >= len) *)
Definition slice3 (data : bytes) (lo hi : Z) : res bytes :=
  if ((0 <=? lo) && (lo <=? hi) && (hi <=? zlen data))%Z
  then Ok (firstn (Z.to_nat (hi - lo)) (skipn (Z.to_nat lo) data)) else Panic.

(* ---- snapshot/utils.go ---- *)

(* Go: expectWT(tag, got, exp) *)
Definition expect_wt (got exp : N) : res unit := if got =? exp then Ok tt else E.

(* Go: skipTag(data, wireType) (skip int, err error) *)
Definition skip_tag (data : bytes) (wt : N) : res Z :=
  do skip <-
    (if wt =? 0 then do (_, n) <- decode_varint data; Ok n
     else if wt =? 2 then
       do (size, n) <- decode_varint data;
       if u64_of_int (zlen data - n) <? size then E               (* size > uint64(len(data)-n) *)
       else Ok (int_of_u64 size + n)%Z
     else if wt =? 5 then Ok 4%Z
     else if wt =? 1 then Ok 8%Z
     else E);                                                      (* unsupported wire type *)
  if (zlen data <? skip)%Z then E else Ok skip.

(* ---- snapshot/kv.go ---- *)

(* Go: one round of the `for` in KV.Unmarshal, from "Get the tag and type" to the switch's end *)
Definition kv_field (data : bytes) (offset : Z) (e : kv) : res (Z * kv) :=
  let dataSize := zlen data in
  do rest <- slice_from data offset;
  do (v, n) <- decode_varint rest;
  let offset := (offset + n)%Z in
  let tag := v / 8 in                    (* int(v >> 3) *)
  let wt := v mod 8 in                   (* v & 0x7 *)
  if (tag =? 1) || (tag =? 2) then       (* case FieldKVKey, FieldKVValue *)
      do _ <- expect_wt wt 2;
      do rest <- slice_from data offset;
      do (v, n) <- decode_varint rest;
      let offset := (offset + n)%Z in
      if u64_of_int (dataSize - offset) <? v then E else
      let size := int_of_u64 v in
      do b <- slice3 data offset (offset + size);
      let offset := (offset + size)%Z in
      Ok (offset, if tag =? 1 then mkKV b (k_val e) (k_ts e) (k_flags e)
                  else mkKV (k_key e) b (k_ts e) (k_flags e))
  else if tag =? 4 then                  (* case FieldKVFlags *)
      do _ <- expect_wt wt 0;
      do rest <- slice_from data offset;
      do (v, n) <- decode_varint rest;
      Ok ((offset + n)%Z, mkKV (k_key e) (k_val e) (k_ts e) (v mod two32))      (* uint32(v) *)
  else if tag =? 3 then                  (* case FieldKVTimestampNano *)
      do _ <- expect_wt wt 1;
      if (dataSize - offset <? 8)%Z then E else
      do b <- slice3 data offset (offset + 8);
      Ok ((offset + 8)%Z, mkKV (k_key e) (k_val e) (of_le b) (k_flags e))
  else                                   (* default *)
      do rest <- slice_from data offset;
      do n <- skip_tag rest wt;
      Ok ((offset + n)%Z, e).

Definition kv_body (data : bytes) (st : Z * kv) : res ((Z * kv) + kv) :=
  let '(offset, e) := st in
  do (offset, e) <- kv_field data offset e;
  if (offset =? zlen data)%Z then Ok (inr e) else Ok (inl (offset, e)).

(* Go: KV.Unmarshal(data) on a zero KV *)
Definition kv_unmarshal (data : bytes) : res kv :=
  loop (kv_body data) (S (length data)) (0%Z, kv0).

(* ---- snapshot/dbi.go, reading ---- *)

(* the DBI object: accessor fields, the protobuf bytes, the read cursor *)
Record dbi_obj := mkObj { o_name : bytes; o_flags : N; o_transform : bytes; o_data : bytes; o_cur : Z }.

Record idx := mkIdx { i_off : Z; i_name : bytes; i_flags : N; i_transform : bytes }.

(* Go: one round of the `for` in DBI.indexData *)
Definition index_body (data : bytes) (st : idx) : res (idx + idx) :=
  let offset := i_off st in
  if (zlen data <=? offset)%Z then Ok (inr st) else
  do rest <- slice_from data offset;
  do (v, n) <- decode_varint rest;
  let offset := (offset + n)%Z in
  let tag := v / 8 in
  let wt := v mod 8 in
  if (tag =? 2) || (tag =? 1) || (tag =? 4) then    (* case FieldDBIEntries, FieldDBIName, FieldDBITransform *)
      do _ <- expect_wt wt 2;
      do rest <- slice_from data offset;
      do (v, n) <- decode_varint rest;
      let offset := (offset + n)%Z in
      if u64_of_int (zlen data - offset) <? v then E else
      let size := int_of_u64 v in
      do b <- slice3 data offset (offset + size);
      let offset := (offset + size)%Z in
      Ok (inl (if tag =? 1 then mkIdx offset b (i_flags st) (i_transform st)
               else if tag =? 4 then mkIdx offset (i_name st) (i_flags st) b
               else mkIdx offset (i_name st) (i_flags st) (i_transform st)))
  else if tag =? 3 then                  (* case FieldDBIFlags *)
      do _ <- expect_wt wt 0;
      do rest <- slice_from data offset;
      do (v, n) <- decode_varint rest;
      Ok (inl (mkIdx (offset + n)%Z (i_name st) v (i_transform st)))
  else                                   (* default *)
      do rest <- slice_from data offset;            (* data[offset:] since 0b1b953 *)
      do n <- skip_tag rest wt;
      Ok (inl (mkIdx (offset + n)%Z (i_name st) (i_flags st) (i_transform st))).

(* Go: DBI.indexData *)
Definition index_data (data : bytes) : res idx :=
  loop (index_body data) (S (length data)) (mkIdx 0 [] 0 []).

(* Go: NewDBIFromData(data) *)
Definition new_dbi_from_data (data : bytes) : res dbi_obj :=
  do i <- index_data data;
  Ok (mkObj (i_name i) (i_flags i) (i_transform i) data 0).

(* Go: one round of `for tag != FieldDBIEntries` in DBI.Next.
   inl off: another round; inr None: io.EOF; inr (Some (off, wt)): the entries tag was read *)
Definition next_body (data : bytes) (offset : Z) : res (Z + option (Z * N)) :=
  if (zlen data <=? offset)%Z then Ok (inr None) else
  do rest <- slice_from data offset;
  do (v, n) <- decode_varint rest;
  let offset := (offset + n)%Z in
  let tag := v / 8 in
  let wt := v mod 8 in
  if tag =? 2 then Ok (inr (Some (offset, wt)))
  else
    do rest <- slice_from data offset;
    do n <- skip_tag rest wt;
    Ok (inl (offset + n)%Z).

(* Go: DBI.Next() with d.data = data, d.cur = cur: io.EOF = None, else the KV and the new cursor *)
Definition dbi_next (data : bytes) (cur : Z) : res (option (kv * Z)) :=
  do r <- loop (next_body data) (S (length data)) cur;
  match r with
  | None => Ok None
  | Some (offset, wt) =>
      do _ <- expect_wt wt 2;
      do rest <- slice_from data offset;
      do (v, n) <- decode_varint rest;
      let offset := (offset + n)%Z in
      if u64_of_int (zlen data - offset) <? v then E else
      let size := int_of_u64 v in
      do b <- slice3 data offset (offset + size);
      let offset := (offset + size)%Z in
      do e <- kv_unmarshal b;
      Ok (Some (e, offset))
  end.

(* Go: the iteration of all entries (ResetCursor; for { Next } until io.EOF), as in
   AsInefficientKVList / DBI.Map / the syncer's iterators *)
Definition entries_body (data : bytes) (st : Z * list kv) : res ((Z * list kv) + list kv) :=
  let '(cur, acc) := st in
  do r <- dbi_next data cur;
  match r with
  | None => Ok (inr acc)
  | Some (e, cur') => Ok (inl (cur', acc ++ [e]))
  end.
Definition all_entries (data : bytes) : res (list kv) :=
  loop (entries_body data) (S (length data)) (0%Z, []).

(* ---- csproto Decoder (decoder.go), fast mode; state = buffer p, offset, maxFieldLen ---- *)

Definition MaxTagValue : N := 536870911.
Definition MaxUint32 : N := 4294967295.

(* Go: Decoder.DecodeTag *)
Definition dec_tag (p : bytes) (off : Z) : res (N * N * Z) :=
  if (zlen p <=? off)%Z then E else
  do rest <- slice_from p off;
  do (v, n) <- decode_varint rest;
  if (n <? 1)%Z || (v <? 1) || (MaxTagValue <? v) then E else
  Ok (v / 8, v mod 8, (off + n)%Z).

(* Go: Decoder.DecodeBytes *)
Definition dec_bytes (maxlen : N) (p : bytes) (off : Z) : res (bytes * Z) :=
  if (zlen p <=? off)%Z then E else
  do rest <- slice_from p off;
  do (l, n) <- decode_varint rest;
  if (n =? 0)%Z then E else
  if maxlen <? l then E else
  let nb := int_of_u64 l in
  if (zlen p <? off + n + nb)%Z then E else
  do b <- slice3 p (off + n) (off + n + nb);
  Ok (b, (off + n + nb)%Z).

(* Go: Decoder.DecodeString (fast mode: the same bytes) *)
Definition dec_string (maxlen : N) (p : bytes) (off : Z) : res (bytes * Z) :=
  if (zlen p <=? off)%Z then E else dec_bytes maxlen p off.

(* Go: Decoder.DecodeUInt32 *)
Definition dec_uint32 (p : bytes) (off : Z) : res (N * Z) :=
  if (zlen p <=? off)%Z then E else
  do rest <- slice_from p off;
  do (v, n) <- decode_varint rest;
  if (n =? 0)%Z then E else
  if MaxUint32 <? v then E else Ok (v, (off + n)%Z).

(* Go: Decoder.DecodeInt64 *)
Definition dec_int64 (p : bytes) (off : Z) : res (Z * Z) :=
  if (zlen p <=? off)%Z then E else
  do rest <- slice_from p off;
  do (v, n) <- decode_varint rest;
  if (n =? 0)%Z then E else Ok (int_of_u64 v, (off + n)%Z).

(* Go: Decoder.DecodeFixed64 with csproto.DecodeFixed64 *)
Definition dec_fixed64 (p : bytes) (off : Z) : res (N * Z) :=
  if (zlen p <=? off)%Z then E else
  do rest <- slice_from p off;
  if Nat.ltb (length rest) 8 then E else Ok (of_le (firstn 8 rest), (off + 8)%Z).

(* Go: Decoder.Skip(tag, wt), fast mode (no validation of the tag in front) *)
Definition dec_skip (maxlen : N) (p : bytes) (off : Z) (tag wt : N) : res Z :=
  if (zlen p <=? off)%Z then E else
  let sz := Z.of_N (sizeof_varint (u64 (tag * 8))) in        (* SizeOfTagKey(tag) *)
  let bof := Z.max 0 (off - sz) in
  do skipped <-
    (if wt =? 0 then do rest <- slice_from p off; do (_, n) <- decode_varint rest; Ok n
     else if wt =? 1 then Ok 8%Z
     else if wt =? 2 then
       do rest <- slice_from p off;
       do (l, n) <- decode_varint rest;
       if (n =? 0)%Z then E else
       if maxlen <? l then E else Ok (n + int_of_u64 l)%Z
     else if wt =? 5 then Ok 4%Z
     else E);
  if (zlen p <? off + skipped)%Z then E else
  do _ <- slice3 p bof (off + skipped);                      (* return d.p[bof:d.offset] *)
  Ok (off + skipped)%Z.

(* Go: getString / getBytes / getUInt32 / getInt64 / getFixed64 of snapshot/utils.go *)
Definition get_string (maxlen : N) (p : bytes) (off : Z) (wt : N) : res (bytes * Z) :=
  do _ <- expect_wt wt 2; dec_string maxlen p off.
Definition get_bytes (maxlen : N) (p : bytes) (off : Z) (wt : N) : res (bytes * Z) :=
  do _ <- expect_wt wt 2; dec_bytes maxlen p off.
Definition get_uint32 (p : bytes) (off : Z) (wt : N) : res (N * Z) :=
  do _ <- expect_wt wt 0; dec_uint32 p off.
Definition get_int64 (p : bytes) (off : Z) (wt : N) : res (Z * Z) :=
  do _ <- expect_wt wt 0; dec_int64 p off.
Definition get_fixed64 (p : bytes) (off : Z) (wt : N) : res (N * Z) :=
  do _ <- expect_wt wt 1; dec_fixed64 p off.

(* ---- snapshot/meta.go ---- *)

(* Go: one round of `for d.More()` in Meta.Unmarshal (decoder with the default 2 GB field limit) *)
Definition meta_body (p : bytes) (st : Z * meta) : res ((Z * meta) + meta) :=
  let '(off, m) := st in
  let ml := MaxFieldLenDefault in
  if (zlen p <=? off)%Z then Ok (inr m) else               (* !d.More() *)
  do (tag, wt, off) <- dec_tag p off;
  if tag =? 1 then
    do (s, off) <- get_string ml p off wt;
    Ok (inl (off, mkMeta s (m_inst m) (m_host m) (m_txn m) (m_ts m) (m_dbname m) (m_from m)))
  else if tag =? 2 then
    do (s, off) <- get_string ml p off wt;
    Ok (inl (off, mkMeta (m_gen m) s (m_host m) (m_txn m) (m_ts m) (m_dbname m) (m_from m)))
  else if tag =? 3 then
    do (s, off) <- get_string ml p off wt;
    Ok (inl (off, mkMeta (m_gen m) (m_inst m) s (m_txn m) (m_ts m) (m_dbname m) (m_from m)))
  else if tag =? 4 then
    do (x, off) <- get_int64 p off wt;
    Ok (inl (off, mkMeta (m_gen m) (m_inst m) (m_host m) x (m_ts m) (m_dbname m) (m_from m)))
  else if tag =? 5 then
    do (x, off) <- get_fixed64 p off wt;
    Ok (inl (off, mkMeta (m_gen m) (m_inst m) (m_host m) (m_txn m) x (m_dbname m) (m_from m)))
  else if tag =? 7 then
    do (s, off) <- get_string ml p off wt;
    Ok (inl (off, mkMeta (m_gen m) (m_inst m) (m_host m) (m_txn m) (m_ts m) s (m_from m)))
  else if tag =? 8 then
    do (x, off) <- get_int64 p off wt;
    Ok (inl (off, mkMeta (m_gen m) (m_inst m) (m_host m) (m_txn m) (m_ts m) (m_dbname m) x))
  else
    do off <- dec_skip ml p off tag wt;
    Ok (inl (off, m)).

(* Go: Meta.Unmarshal(data) on the existing Meta value m *)
Definition meta_unmarshal (data : bytes) (m : meta) : res meta :=
  loop (meta_body data) (S (length data)) (0%Z, m).

(* ---- snapshot/snapshot.go ---- *)

Record snap_obj := mkSnapObj { so_fmt : N; so_compat : N; so_meta : meta; so_dbis : list dbi_obj }.

(* Go: one round of `for d.More()` in Snapshot.Unmarshal (field limit MaxFieldLength = 100 GB) *)
Definition snap_body (p : bytes) (st : Z * snap_obj) : res ((Z * snap_obj) + snap_obj) :=
  let '(off, s) := st in
  let ml := MaxFieldLength in
  if (zlen p <=? off)%Z then Ok (inr s) else
  do (tag, wt, off) <- dec_tag p off;
  if tag =? 1 then
    do (x, off) <- get_uint32 p off wt;
    Ok (inl (off, mkSnapObj x (so_compat s) (so_meta s) (so_dbis s)))
  else if tag =? 4 then
    do (x, off) <- get_uint32 p off wt;
    Ok (inl (off, mkSnapObj (so_fmt s) x (so_meta s) (so_dbis s)))
  else if tag =? 2 then
    do (msg, off) <- get_bytes ml p off wt;
    do m <- meta_unmarshal msg (so_meta s);
    Ok (inl (off, mkSnapObj (so_fmt s) (so_compat s) m (so_dbis s)))
  else if tag =? 3 then
    do (msg, off) <- get_bytes ml p off wt;
    do d <- new_dbi_from_data msg;
    Ok (inl (off, mkSnapObj (so_fmt s) (so_compat s) (so_meta s) (so_dbis s ++ [d])))
  else
    do off <- dec_skip ml p off tag wt;
    Ok (inl (off, s)).

(* Go: Snapshot.Unmarshal(data) on a new Snapshot *)
Definition snap_unmarshal (data : bytes) : res snap_obj :=
  loop (snap_body data) (S (length data)) (0%Z, mkSnapObj 0 0 meta0 []).

(* the content of a decoded DBI object: accessors + full iteration *)
Definition dbi_content (o : dbi_obj) : res dbi :=
  do es <- all_entries (o_data o);
  Ok (mkDbi (o_name o) (o_flags o) (o_transform o) es).

(* decoding a blob completely: Unmarshal (what snapshot.LoadData does after gunzip) followed by the
   iteration of every DBI (what the syncer does when it merges the snapshot) *)
Definition custom_decode (b : bytes) : res snap :=
  do s <- snap_unmarshal b;
  do ds <- mapM dbi_content (so_dbis s);
  Ok (mkSnap (so_fmt s) (so_compat s) (so_meta s) ds).

(* ---- iteration counts (C08_linear): every round of every decoding loop above counts 1;
   DecodeVarint's own loop is bounded by the constant 10 and is not counted ---- *)

Definition kv_steps (data : bytes) : N :=
  loop_steps (kv_body data) (fun _ => 1) (S (length data)) (0%Z, kv0).
Definition index_steps (data : bytes) : N :=
  loop_steps (index_body data) (fun _ => 1) (S (length data)) (mkIdx 0 [] 0 []).
Definition meta_steps (data : bytes) (m : meta) : N :=
  loop_steps (meta_body data) (fun _ => 1) (S (length data)) (0%Z, m).

(* the payload of the Meta / DBI field a round of the Snapshot loop is about to read, if any *)
Definition snap_nested (p : bytes) (st : Z * snap_obj) : N :=
  let '(off, s) := st in
  match dec_tag p off with
  | Ok (tag, wt, off) =>
      if tag =? 2 then
        match get_bytes MaxFieldLength p off wt with
        | Ok (msg, _) => meta_steps msg (so_meta s) | _ => 0 end
      else if tag =? 3 then
        match get_bytes MaxFieldLength p off wt with
        | Ok (msg, _) => index_steps msg | _ => 0 end
      else 0
  | _ => 0
  end.
Definition unmarshal_steps (b : bytes) : N :=
  loop_steps (snap_body b) (fun st => 1 + snap_nested b st) (S (length b)) (0%Z, mkSnapObj 0 0 meta0 []).

(* one Next call: the rounds of its skip loop, plus the rounds of KV.Unmarshal on the entry found *)
Definition next_steps (data : bytes) (cur : Z) : N :=
  loop_steps (next_body data) (fun _ => 1) (S (length data)) cur
  + match loop (next_body data) (S (length data)) cur with
    | Ok (Some (offset, wt)) =>
        match slice_from data offset with
        | Ok rest =>
            match decode_varint rest with
            | Ok (v, n) =>
                if u64_of_int (zlen data - (offset + n)) <? v then 0
                else match slice3 data (offset + n) (offset + n + int_of_u64 v) with
                     | Ok b => if wt =? 2 then kv_steps b else 0
                     | _ => 0
                     end
            | _ => 0
            end
        | _ => 0
        end
    | _ => 0
    end.
Definition entries_steps (data : bytes) : N :=
  loop_steps (entries_body data) (fun st => 1 + next_steps data (fst st)) (S (length data)) (0%Z, []).

Definition steps (b : bytes) : N :=
  unmarshal_steps b
  + match snap_unmarshal b with
    | Ok s => sumN (fun o => entries_steps (o_data o)) (so_dbis s)
    | _ => 0
    end.

(* ---- snapshot/dbi.go, writing ---- *)

(* the DBI being written: accessor fields, protobuf bytes, write state *)
Record dbi_w := mkW { w_name : bytes; w_flags : N; w_transform : bytes; w_data : bytes;
                      w_dirty : bool; w_flushed : bool }.

(* Go: NewDBI() / NewDBISize(n) (capacity does not influence the bytes written) *)
Definition new_dbi : dbi_w := mkW [] 0 [] [] false false.

(* Go: SetName / SetFlags / SetTransform *)
Definition set_name (d : dbi_w) (s : bytes) : res dbi_w :=
  if w_flushed d then Panic else Ok (mkW s (w_flags d) (w_transform d) (w_data d) true (w_flushed d)).
Definition set_flags (d : dbi_w) (v : N) : res dbi_w :=
  if w_flushed d then Panic else Ok (mkW (w_name d) v (w_transform d) (w_data d) true (w_flushed d)).
Definition set_transform (d : dbi_w) (s : bytes) : res dbi_w :=
  if w_flushed d then Panic else Ok (mkW (w_name d) (w_flags d) s (w_data d) true (w_flushed d)).

(* writing into the scratch buffer b[offset:] of capacity [cap]: EncodeTag/EncodeVarint index past the
   end (panic) when the varint does not fit; copy() silently copies only what fits *)
Definition buf_put (cap : Z) (acc x : bytes) : res bytes :=
  if (zlen acc + zlen x <=? cap)%Z then Ok (acc ++ x) else Panic.
Definition buf_copy (cap : Z) (acc x : bytes) : bytes :=
  acc ++ firstn (Z.to_nat (cap - zlen acc)) x.

(* Go: DBI.doFlushFields — b := make([]byte, 1000); returns the bytes appended to d.data *)
Definition do_flush_fields (name : bytes) (flags : N) (transform : bytes) : res bytes :=
  let cap := 1000%Z in
  let b := [] in
  do b <- (if Nat.ltb 0 (length name) then
             do b <- buf_put cap b (encode_tag 1 2);
             do b <- buf_put cap b (encode_varint (lenN name));
             Ok (buf_copy cap b name)
           else Ok b);
  do b <- (if 0 <? flags then
             do b <- buf_put cap b (encode_tag 3 0);
             buf_put cap b (encode_varint flags)
           else Ok b);
  do b <- (if Nat.ltb 0 (length transform) then
             do b <- buf_put cap b (encode_tag 4 2);
             do b <- buf_put cap b (encode_varint (lenN transform));
             Ok (buf_copy cap b transform)
           else Ok b);
  Ok b.

(* Go: DBI.flushFields *)
Definition flush_fields (d : dbi_w) : res dbi_w :=
  if negb (w_dirty d) then Ok (mkW (w_name d) (w_flags d) (w_transform d) (w_data d) false true)
  else
    do b <- do_flush_fields (w_name d) (w_flags d) (w_transform d);
    Ok (mkW (w_name d) (w_flags d) (w_transform d) (w_data d ++ b) false true).

(* Go: DBI.Marshal — the data and the flushed state *)
Definition dbi_marshal (d : dbi_w) : res (bytes * dbi_w) :=
  do d <- flush_fields d; Ok (w_data d, d).

(* Go: DBI.Append(kv). The message size is computed first (TagSize0To15 = 1 per tag), the slice is
   extended by outerSize (fresh bytes are zero), then the fields are written at increasing offsets
   into that room: writing past it is an index panic, writing less leaves zero bytes. *)
Definition append_kv (d : dbi_w) (e : kv) : res dbi_w :=
  do d <- (if w_dirty d then flush_fields d else Ok d);
  let msgSize :=
    (if Nat.ltb 0 (length (k_key e)) then 1 + sizeof_varint (lenN (k_key e)) + lenN (k_key e) else 0)
    + (if Nat.ltb 0 (length (k_val e)) then 1 + sizeof_varint (lenN (k_val e)) + lenN (k_val e) else 0)
    + (if 0 <? k_flags e then 1 + sizeof_varint (k_flags e) else 0)
    + (if 0 <? k_ts e then 1 + 8 else 0) in
  if msgSize =? 0 then Ok d else
  let outerSize := 1 + sizeof_varint msgSize + msgSize in
  let written :=
    encode_tag 2 2 ++ encode_varint msgSize
    ++ (if Nat.ltb 0 (length (k_key e)) then encode_tag 1 2 ++ encode_varint (lenN (k_key e)) ++ k_key e else [])
    ++ (if Nat.ltb 0 (length (k_val e)) then encode_tag 2 2 ++ encode_varint (lenN (k_val e)) ++ k_val e else [])
    ++ (if 0 <? k_flags e then encode_tag 4 0 ++ encode_varint (k_flags e) else [])
    ++ (if 0 <? k_ts e then encode_tag 3 1 ++ le64 (k_ts e) else []) in
  if lenN written <=? outerSize
  then Ok (mkW (w_name d) (w_flags d) (w_transform d)
               (w_data d ++ written ++ repeat 0 (N.to_nat (outerSize - lenN written)))
               (w_dirty d) (w_flushed d))
  else Panic.

Fixpoint append_all (d : dbi_w) (es : list kv) : res dbi_w :=
  match es with
  | [] => Ok d
  | e :: es' => do d <- append_kv d e; append_all d es'
  end.

(* how the syncer builds a DBI message (syncer/utils.go readDBI): NewDBISize, SetName, SetTransform,
   SetFlags, then Append per LMDB entry *)
Definition build_dbi (x : dbi) : res dbi_w :=
  do d <- set_name new_dbi (db_name x);
  do d <- set_transform d (db_transform x);
  do d <- set_flags d (db_flags x);
  append_all d (db_entries x).

(* Go: DBI.Map(transform, f) on a decoded DBI object *)
Definition dbi_map (o : dbi_obj) (transform : bytes) (f : kv -> res kv) : res dbi_w :=
  do d <- set_name new_dbi (o_name o);
  do d <- set_flags d (o_flags o);
  do d <- set_transform d transform;
  do es <- all_entries (o_data o);
  do es' <- mapM f es;
  append_all d es'.

(* ---- snapshot/meta.go, snapshot.go, writing ---- *)

Definition str_field (tag : N) (s : bytes) : bytes :=
  if Nat.ltb 0 (length s) then encode_tag tag 2 ++ encode_varint (lenN s) ++ s else [].

(* Go: Meta.Marshal — the scratch buffer is sized sum(len+20)+1000, which always holds the
   4 strings (tag 1 + length varint <= 10 + len each) and 3 numeric fields (<= 11 bytes each) *)
Definition meta_marshal (m : meta) : bytes :=
  str_field 1 (m_gen m) ++ str_field 2 (m_inst m) ++ str_field 3 (m_host m) ++ str_field 7 (m_dbname m)
  ++ (if (0 <? m_txn m)%Z then encode_tag 4 0 ++ encode_varint (to_uint64 (m_txn m)) else [])
  ++ (if 0 <? m_ts m then encode_tag 5 1 ++ le64 (m_ts m) else [])
  ++ (if (0 <? m_from m)%Z then encode_tag 8 0 ++ encode_varint (to_uint64 (m_from m)) else []).

Definition varint_field (tag v : N) : bytes :=
  if 0 <? v then encode_tag tag 0 ++ encode_varint v else [].

(* Go: Snapshot.WriteTo on already marshalled DBIs: the concatenation of everything written *)
Definition write_to (fmt compat : N) (m : meta) (dbis : list bytes) : bytes :=
  varint_field 1 fmt ++ varint_field 4 compat
  ++ (let metaPB := meta_marshal m in
      if Nat.ltb 0 (length metaPB) then encode_tag 2 2 ++ encode_varint (lenN metaPB) ++ metaPB else [])
  ++ flat_map (fun dbiPB =>
       if Nat.eqb (length dbiPB) 0 then []
       else encode_tag 3 2 ++ encode_varint (lenN dbiPB) ++ dbiPB) dbis.

(* building every DBI the way the syncer does, then WriteTo (what snapshot.DumpData gzips) *)
Definition custom_encode (s : snap) : res bytes :=
  do pbs <- mapM (fun x => do d <- build_dbi x; do (b, _) <- dbi_marshal d; Ok b) (s_dbis s);
  Ok (write_to (s_fmt s) (s_compat s) (s_meta s) pbs).

(* ---- the snapshots the encoder is specified for (hypothesis of C07_roundtrip) ----
   keys non-empty (LMDB keys are), DBI names 1..511 bytes (LMDB's limit) and transform names up to 472
   bytes (so that doFlushFields' 1000-byte scratch buffer holds name + flags + transform in every case),
   transaction ids >= 0 (negative ones are not written), values inside their Go types, Meta strings
   below csproto's default 2 GB field limit, and every DBI message at most snapshot.MaxFieldLength
   (100 GB) — which also bounds every key and value length. *)

(* Go: msgSize in DBI.Append *)
Definition kv_size (e : kv) : N :=
  (if Nat.ltb 0 (length (k_key e)) then 1 + sizeof_varint (lenN (k_key e)) + lenN (k_key e) else 0)
  + (if Nat.ltb 0 (length (k_val e)) then 1 + sizeof_varint (lenN (k_val e)) + lenN (k_val e) else 0)
  + (if 0 <? k_flags e then 1 + sizeof_varint (k_flags e) else 0)
  + (if 0 <? k_ts e then 1 + 8 else 0).
(* the size of a marshalled DBI: the flushed top-level fields, then outerSize of every appended entry *)
Definition dbi_size (d : dbi) : N :=
  (if Nat.ltb 0 (length (db_name d)) then 1 + sizeof_varint (lenN (db_name d)) + lenN (db_name d) else 0)
  + (if 0 <? db_flags d then 1 + sizeof_varint (db_flags d) else 0)
  + (if Nat.ltb 0 (length (db_transform d)) then 1 + sizeof_varint (lenN (db_transform d)) + lenN (db_transform d) else 0)
  + sumN (fun e => if kv_size e =? 0 then 0 else 1 + sizeof_varint (kv_size e) + kv_size e) (db_entries d).

Definition kv_valid (e : kv) : bool :=
  Nat.ltb 0 (length (k_key e)) && (k_flags e <? two32) && (k_ts e <? two64).
Definition dbi_valid (d : dbi) : bool :=
  Nat.ltb 0 (length (db_name d)) && (lenN (db_name d) <=? 511) && (lenN (db_transform d) <=? 472)
  && (db_flags d <? two64) && forallb kv_valid (db_entries d) && (dbi_size d <=? MaxFieldLength).
Definition meta_valid (m : meta) : bool :=
  (0 <=? m_txn m)%Z && (m_txn m <? Z.of_N two63)%Z && (0 <=? m_from m)%Z && (m_from m <? Z.of_N two63)%Z
  && (m_ts m <? two64)
  && (lenN (m_gen m) <=? MaxFieldLenDefault) && (lenN (m_inst m) <=? MaxFieldLenDefault)
  && (lenN (m_host m) <=? MaxFieldLenDefault) && (lenN (m_dbname m) <=? MaxFieldLenDefault).
Definition valid (s : snap) : bool :=
  (s_fmt s <? two32) && (s_compat s <? two32) && meta_valid (s_meta s) && forallb dbi_valid (s_dbis s).
