(* Codec/Hostile.v — C08, decoding half: for EVERY byte string, the hand-written decoder (Unmarshal plus
   the full iteration of every DBI) returns a value or an error — no slice expression goes out of range,
   no loop runs out of its fuel (= length of the scanned data + 1) — the number of loop rounds is linear
   in the input length, and the number of DBI objects is at most half the input length.
   The only hypothesis is that the input is not longer than a Go slice can be (2^63-1 bytes). *)
From LS Require Import Base.Bytes Base.BytesProofs Base.Res Codec.Varint Codec.Loop Merge.Model Codec.Wire
  Codec.Custom Codec.VarintProofs Codec.Util.
From Coq Require Import ZifyN ZifyNat ZifyBool.
Open Scope N_scope.
Ltac Zify.zify_post_hook ::= Z.div_mod_to_equations.

Ltac sbind := eapply safe_bind.

Lemma expect_wt_safe got exp : safe (fun _ => True) (expect_wt got exp).
Proof. unfold expect_wt. destruct (got =? exp); triv. Qed.

(* ---- skipTag ---- *)

Lemma skip_tag_safe data wt : (zlen data <= max_int)%Z ->
  safe (fun n => (1 <= n <= zlen data)%Z) (skip_tag data wt).
Proof.
  intros Hmax. unfold skip_tag.
  sbind; [instantiate (1 := fun skip => (1 <= skip)%Z)|].
  - destruct (wt =? 0).
    { sbind; [apply decode_varint_safe|]. intros [v n] (_ & Hn & _). cbn [safe bind fst snd i_off]. lia. }
    destruct (wt =? 2).
    { sbind; [apply decode_varint_safe|]. intros [v n] (_ & Hn & Hl).
      destruct (u64_of_int (zlen data - n) <? v) eqn:Hc; [triv|].
      destruct (length_check (zlen data) n v ltac:(lia) Hmax Hc) as (H0 & _ & _). cbn [safe bind fst snd i_off]. lia. }
    destruct (wt =? 5); [cbn [safe bind fst snd i_off]; lia|]. destruct (wt =? 1); [cbn [safe bind fst snd i_off]; lia|]. triv.
  - intros skip Hs. cbv beta in Hs. destruct (zlen data <? skip)%Z eqn:Hc; [triv|]. cbn [safe bind fst snd i_off]. lia.
Qed.

(* ---- the shared "length-delimited" step: varint length at [offset], checked, then sliced ---- *)

Lemma skipn_slice data offset : (0 <= offset <= zlen data)%Z ->
  slice_from data offset = Ok (skipn (Z.to_nat offset) data) /\
  zlen (skipn (Z.to_nat offset) data) = (zlen data - offset)%Z.
Proof. intros H. split; [apply slice_from_ok, H|apply zlen_skipn, H]. Qed.

(* ---- KV.Unmarshal ---- *)

Lemma kv_field_safe data offset e : (0 <= offset <= zlen data)%Z -> (zlen data <= max_int)%Z ->
  safe (fun x => (offset < fst x <= zlen data)%Z) (kv_field data offset e).
Proof.
  intros Ho Hmax. unfold kv_field.
  destruct (skipn_slice data offset Ho) as [-> Hl]. cbn [bind].
  sbind; [apply decode_varint_safe|]. intros [v n] (_ & Hn & Hnl). rewrite Hl in Hnl.
  destruct ((v / 8 =? 1) || (v / 8 =? 2)).
  { sbind; [apply expect_wt_safe|]. intros _ _.
    destruct (skipn_slice data (offset + n) ltac:(lia)) as [-> Hl2]. cbn [bind].
    sbind; [apply decode_varint_safe|]. intros [v2 n2] (_ & Hn2 & Hnl2). rewrite Hl2 in Hnl2.
    destruct (u64_of_int (zlen data - (offset + n + n2)) <? v2) eqn:Hc; [triv|].
    destruct (length_check (zlen data) (offset + n + n2)%Z v2 ltac:(lia) Hmax Hc) as (H0 & H1 & _).
    rewrite slice3_ok by lia. cbn [safe bind fst snd i_off]. lia. }
  destruct (v / 8 =? 4).
  { sbind; [apply expect_wt_safe|]. intros _ _.
    destruct (skipn_slice data (offset + n) ltac:(lia)) as [-> Hl2]. cbn [bind].
    sbind; [apply decode_varint_safe|]. intros [v2 n2] (_ & Hn2 & Hnl2). rewrite Hl2 in Hnl2. cbn [safe bind fst snd i_off]. lia. }
  destruct (v / 8 =? 3).
  { sbind; [apply expect_wt_safe|]. intros _ _.
    destruct (zlen data - (offset + n) <? 8)%Z eqn:Hc; [triv|].
    rewrite slice3_ok by lia. cbn [safe bind fst snd i_off]. lia. }
  destruct (skipn_slice data (offset + n) ltac:(lia)) as [-> Hl2]. cbn [bind].
  sbind; [apply skip_tag_safe; lia|]. intros k Hk. rewrite Hl2 in Hk. cbn [safe bind fst snd i_off]. lia.
Qed.

Lemma kv_unmarshal_safe data : (zlen data <= max_int)%Z -> safe (fun _ => True) (kv_unmarshal data).
Proof.
  intros Hmax. unfold kv_unmarshal.
  apply (loop_safe (kv_body data) (fun st => (0 <= fst st <= zlen data)%Z)
                   (fun st => Z.to_nat (zlen data - fst st))).
  - intros [offset e] Ho. cbn [fst] in Ho. unfold kv_body.
    sbind; [apply (kv_field_safe data offset e Ho Hmax)|].
    intros [offset' e'] Hp. cbn [fst] in Hp.
    destruct (offset' =? zlen data)%Z; cbn [safe bind fst snd i_off]; [triv|]. cbn [fst]. lia.
  - cbn [fst]. pose proof (zlen_nonneg data). lia.
  - cbn [fst]. unfold zlen. lia.
Qed.

(* ---- DBI.indexData ---- *)

Lemma index_body_safe data st : (0 <= i_off st <= zlen data)%Z -> (zlen data <= max_int)%Z ->
  safe (fun x => match x with
                 | inl st' => (i_off st < i_off st' <= zlen data)%Z
                 | inr _ => True
                 end) (index_body data st).
Proof.
  intros Ho Hmax. unfold index_body.
  destruct (zlen data <=? i_off st)%Z eqn:Hend; [triv|].
  set (offset := i_off st) in *.
  destruct (skipn_slice data offset Ho) as [-> Hl]. cbn [bind].
  sbind; [apply decode_varint_safe|]. intros [v n] (_ & Hn & Hnl). rewrite Hl in Hnl.
  destruct ((v / 8 =? 2) || (v / 8 =? 1) || (v / 8 =? 4)).
  { sbind; [apply expect_wt_safe|]. intros _ _.
    destruct (skipn_slice data (offset + n) ltac:(lia)) as [-> Hl2]. cbn [bind].
    sbind; [apply decode_varint_safe|]. intros [v2 n2] (_ & Hn2 & Hnl2). rewrite Hl2 in Hnl2.
    destruct (u64_of_int (zlen data - (offset + n + n2)) <? v2) eqn:Hc; [triv|].
    destruct (length_check (zlen data) (offset + n + n2)%Z v2 ltac:(lia) Hmax Hc) as (H0 & H1 & _).
    rewrite slice3_ok by lia. cbn [bind safe].
    destruct (v / 8 =? 1); [cbn [i_off]; lia|]. destruct (v / 8 =? 4); cbn [i_off]; lia. }
  destruct (v / 8 =? 3).
  { sbind; [apply expect_wt_safe|]. intros _ _.
    destruct (skipn_slice data (offset + n) ltac:(lia)) as [-> Hl2]. cbn [bind].
    sbind; [apply decode_varint_safe|]. intros [v2 n2] (_ & Hn2 & Hnl2). rewrite Hl2 in Hnl2.
    cbn [safe bind fst snd i_off]. lia. }
  destruct (skipn_slice data (offset + n) ltac:(lia)) as [-> Hl2]. cbn [bind].
  sbind; [apply skip_tag_safe; lia|]. intros k Hk. rewrite Hl2 in Hk. cbn [safe bind fst snd i_off]. lia.
Qed.

Lemma index_data_safe data : (zlen data <= max_int)%Z -> safe (fun _ => True) (index_data data).
Proof.
  intros Hmax. unfold index_data.
  apply (loop_safe (index_body data) (fun st => (0 <= i_off st <= zlen data)%Z)
                   (fun st => Z.to_nat (zlen data - i_off st))).
  - intros st Ho. eapply safe_weaken; [apply (index_body_safe data st Ho Hmax)|].
    intros [st'|a] H; [lia|triv].
  - cbn [i_off]. pose proof (zlen_nonneg data). lia.
  - cbn [i_off]. unfold zlen. lia.
Qed.

Lemma new_dbi_from_data_safe data : (zlen data <= max_int)%Z ->
  safe (fun o => o_data o = data) (new_dbi_from_data data).
Proof.
  intros Hmax. unfold new_dbi_from_data. sbind; [apply index_data_safe, Hmax|].
  intros i _. reflexivity.
Qed.

(* ---- DBI.Next and the iteration ---- *)

Lemma next_body_safe data offset : (0 <= offset <= zlen data)%Z -> (zlen data <= max_int)%Z ->
  safe (fun x => match x with
                 | inl off' => (offset < off' <= zlen data)%Z
                 | inr None => True
                 | inr (Some (off', _)) => (offset < off' <= zlen data)%Z
                 end) (next_body data offset).
Proof.
  intros Ho Hmax. unfold next_body.
  destruct (zlen data <=? offset)%Z eqn:Hend; [triv|].
  destruct (skipn_slice data offset Ho) as [-> Hl]. cbn [bind].
  sbind; [apply decode_varint_safe|]. intros [v n] (_ & Hn & Hnl). rewrite Hl in Hnl.
  destruct (v / 8 =? 2); [cbn [safe bind fst snd i_off]; lia|].
  destruct (skipn_slice data (offset + n) ltac:(lia)) as [-> Hl2]. cbn [bind].
  sbind; [apply skip_tag_safe; lia|]. intros k Hk. rewrite Hl2 in Hk. cbn [safe bind fst snd i_off]. lia.
Qed.

Lemma next_loop_safe data cur : (0 <= cur <= zlen data)%Z -> (zlen data <= max_int)%Z ->
  safe (fun r => match r with
                 | None => True
                 | Some (off', _) => (cur < off' <= zlen data)%Z
                 end) (loop (next_body data) (S (length data)) cur).
Proof.
  intros Hc Hmax.
  apply (loop_safe (next_body data) (fun off => (cur <= off <= zlen data)%Z)
                   (fun off => Z.to_nat (zlen data - off))).
  - intros off Ho. eapply safe_weaken; [apply (next_body_safe data off ltac:(lia) Hmax)|].
    intros [off'|[[off' wt]|]] H; first [lia|triv].
  - lia.
  - unfold zlen. lia.
Qed.

Lemma dbi_next_safe data cur : (0 <= cur <= zlen data)%Z -> (zlen data <= max_int)%Z ->
  safe (fun r => match r with
                 | None => True
                 | Some (_, cur') => (cur + 2 <= cur' <= zlen data)%Z
                 end) (dbi_next data cur).
Proof.
  intros Hc Hmax. unfold dbi_next.
  sbind; [apply (next_loop_safe data cur Hc Hmax)|].
  intros [[offset wt]|] Hr; [|triv].
  sbind; [apply expect_wt_safe|]. intros _ _.
  destruct (skipn_slice data offset ltac:(lia)) as [-> Hl]. cbn [bind].
  sbind; [apply decode_varint_safe|]. intros [v n] (_ & Hn & Hnl). rewrite Hl in Hnl.
  destruct (u64_of_int (zlen data - (offset + n)) <? v) eqn:Hck; [triv|].
  destruct (length_check (zlen data) (offset + n)%Z v ltac:(lia) Hmax Hck) as (H0 & H1 & _).
  rewrite slice3_ok by lia. cbn [bind].
  sbind; [apply kv_unmarshal_safe|].
  - rewrite zlen_slice3 by lia. lia.
  - intros e _. cbn [safe bind fst snd i_off]. lia.
Qed.

Lemma all_entries_safe data : (zlen data <= max_int)%Z -> safe (fun _ => True) (all_entries data).
Proof.
  intros Hmax. unfold all_entries.
  apply (loop_safe (entries_body data) (fun st => (0 <= fst st <= zlen data)%Z)
                   (fun st => Z.to_nat (zlen data - fst st))).
  - intros [cur acc] Ho. cbn [fst] in Ho. unfold entries_body.
    sbind; [apply (dbi_next_safe data cur Ho Hmax)|].
    intros [[e cur']|] H; cbn [safe bind fst snd i_off]; [cbn [fst]; lia|triv].
  - cbn [fst]. pose proof (zlen_nonneg data). lia.
  - cbn [fst]. unfold zlen. lia.
Qed.

Lemma dbi_content_safe o : (zlen (o_data o) <= max_int)%Z -> safe (fun _ => True) (dbi_content o).
Proof.
  intros Hmax. unfold dbi_content. sbind; [apply all_entries_safe, Hmax|]. intros es _. triv.
Qed.

(* ---- csproto Decoder operations: the offset moves forward and stays inside the buffer ---- *)

Definition fwd (p : bytes) (off off' : Z) : Prop := (off < off' <= zlen p)%Z.

Lemma dec_tag_safe p off : (0 <= off)%Z ->
  safe (fun x => let '(_, _, off') := x in fwd p off off') (dec_tag p off).
Proof.
  intros Ho. unfold dec_tag. destruct (zlen p <=? off)%Z eqn:He; [triv|].
  destruct (skipn_slice p off ltac:(lia)) as [-> Hl]. cbn [bind].
  sbind; [apply decode_varint_safe|]. intros [v n] (_ & Hn & Hnl). rewrite Hl in Hnl.
  destruct ((n <? 1)%Z || (v <? 1) || (MaxTagValue <? v)); [triv|]. cbn [safe bind fst snd i_off]. unfold fwd. lia.
Qed.

Lemma dec_bytes_safe maxlen p off : (0 <= off)%Z -> (zlen p <= max_int)%Z -> maxlen < two63 ->
  safe (fun x => fwd p off (snd x) /\ (zlen (fst x) + 1 <= snd x - off)%Z) (dec_bytes maxlen p off).
Proof.
  intros Ho Hmax Hml. unfold dec_bytes. destruct (zlen p <=? off)%Z eqn:He; [triv|].
  destruct (skipn_slice p off ltac:(lia)) as [-> Hl]. cbn [bind].
  sbind; [apply decode_varint_safe|]. intros [l n] (_ & Hn & Hnl). rewrite Hl in Hnl.
  destruct (n =? 0)%Z; [triv|]. destruct (maxlen <? l) eqn:Hc; [triv|].
  rewrite int_of_u64_small by lia.
  destruct (zlen p <? off + n + Z.of_N l)%Z eqn:Hc2; [triv|].
  rewrite slice3_ok by lia. cbn [bind safe fst snd]. unfold fwd.
  rewrite zlen_slice3 by lia. lia.
Qed.

Lemma dec_string_safe maxlen p off : (0 <= off)%Z -> (zlen p <= max_int)%Z -> maxlen < two63 ->
  safe (fun x => fwd p off (snd x) /\ (zlen (fst x) + 1 <= snd x - off)%Z) (dec_string maxlen p off).
Proof.
  intros. unfold dec_string. destruct (zlen p <=? off)%Z; [triv|]. apply dec_bytes_safe; assumption.
Qed.

Lemma dec_uint32_safe p off : (0 <= off)%Z -> safe (fun x => fwd p off (snd x)) (dec_uint32 p off).
Proof.
  intros Ho. unfold dec_uint32. destruct (zlen p <=? off)%Z eqn:He; [triv|].
  destruct (skipn_slice p off ltac:(lia)) as [-> Hl]. cbn [bind].
  sbind; [apply decode_varint_safe|]. intros [v n] (_ & Hn & Hnl). rewrite Hl in Hnl.
  destruct (n =? 0)%Z; [triv|]. destruct (MaxUint32 <? v); [triv|]. cbn [safe bind fst snd i_off]. unfold fwd. lia.
Qed.

Lemma dec_int64_safe p off : (0 <= off)%Z -> safe (fun x => fwd p off (snd x)) (dec_int64 p off).
Proof.
  intros Ho. unfold dec_int64. destruct (zlen p <=? off)%Z eqn:He; [triv|].
  destruct (skipn_slice p off ltac:(lia)) as [-> Hl]. cbn [bind].
  sbind; [apply decode_varint_safe|]. intros [v n] (_ & Hn & Hnl). rewrite Hl in Hnl.
  destruct (n =? 0)%Z; [triv|]. cbn [safe bind fst snd i_off]. unfold fwd. lia.
Qed.

Lemma dec_fixed64_safe p off : (0 <= off)%Z -> safe (fun x => fwd p off (snd x)) (dec_fixed64 p off).
Proof.
  intros Ho. unfold dec_fixed64. destruct (zlen p <=? off)%Z eqn:He; [triv|].
  destruct (skipn_slice p off ltac:(lia)) as [-> Hl]. cbn [bind].
  destruct (Nat.ltb (length (skipn (Z.to_nat off) p)) 8) eqn:Hc; [triv|].
  apply Nat.ltb_ge in Hc. cbn [safe bind fst snd i_off]. unfold fwd, zlen in *. lia.
Qed.

Lemma sizeof_varint_pos v : 1 <= sizeof_varint v.
Proof. rewrite sizeof_varint_log2. lia. Qed.

Lemma dec_skip_safe maxlen p off tag wt : (0 <= off)%Z -> (zlen p <= max_int)%Z -> maxlen < two63 ->
  safe (fun off' => fwd p off off') (dec_skip maxlen p off tag wt).
Proof.
  intros Ho Hmax Hml. unfold dec_skip. destruct (zlen p <=? off)%Z eqn:He; [triv|].
  sbind; [instantiate (1 := fun skipped => (1 <= skipped)%Z)|].
  - destruct (wt =? 0).
    { destruct (skipn_slice p off ltac:(lia)) as [-> Hl]. cbn [bind].
      sbind; [apply decode_varint_safe|]. intros [v n] (_ & Hn & _). cbn [safe bind fst snd i_off]. lia. }
    destruct (wt =? 1); [cbn [safe bind fst snd i_off]; lia|].
    destruct (wt =? 2).
    { destruct (skipn_slice p off ltac:(lia)) as [-> Hl]. cbn [bind].
      sbind; [apply decode_varint_safe|]. intros [l n] (_ & Hn & _).
      destruct (n =? 0)%Z; [triv|]. destruct (maxlen <? l) eqn:Hc; [triv|].
      rewrite int_of_u64_small by lia. cbn [safe bind fst snd i_off]. lia. }
    destruct (wt =? 5); [cbn [safe bind fst snd i_off]; lia|]. triv.
  - intros skipped Hs. cbv beta in Hs. destruct (zlen p <? off + skipped)%Z eqn:Hc; [triv|].
    rewrite slice3_ok by (pose proof (sizeof_varint_pos (u64 (tag * 8))); lia).
    cbn [safe bind fst snd i_off]. unfold fwd. lia.
Qed.

Lemma maxlen_default_small : MaxFieldLenDefault < two63. Proof. reflexivity. Qed.
Lemma maxlen_snapshot_small : MaxFieldLength < two63. Proof. reflexivity. Qed.

(* ---- Meta.Unmarshal ---- *)

Lemma meta_body_safe p off m : (0 <= off)%Z -> (zlen p <= max_int)%Z ->
  safe (fun x => match x with inl (off', _) => fwd p off off' | inr _ => True end) (meta_body p (off, m)).
Proof.
  intros Ho Hmax. unfold meta_body. destruct (zlen p <=? off)%Z eqn:He; [triv|].
  sbind; [apply (dec_tag_safe p off Ho)|]. intros [[tag wt] off1] H1. unfold fwd in H1.
  pose proof maxlen_default_small as Hml.
  assert (Hstr : forall (k : bytes -> meta),
            safe (fun x => match x with inl (off', _) => fwd p off off' | inr _ => True end)
                 (do (s, off2) <- get_string MaxFieldLenDefault p off1 wt; Ok (@inl (Z * meta) meta (off2, k s)))).
  { intros k. unfold get_string. sbind; [sbind; [apply expect_wt_safe|intros _ _; apply dec_string_safe; try assumption; lia]|].
    intros [s off2] [H2 _]. cbn [snd] in H2. cbn [safe bind fst snd i_off]. unfold fwd in *. lia. }
  assert (Hint : forall (k : Z -> meta),
            safe (fun x => match x with inl (off', _) => fwd p off off' | inr _ => True end)
                 (do (x, off2) <- get_int64 p off1 wt; Ok (@inl (Z * meta) meta (off2, k x)))).
  { intros k. unfold get_int64. sbind; [sbind; [apply expect_wt_safe|intros _ _; apply dec_int64_safe; lia]|].
    intros [s off2] H2. cbn [snd] in H2. cbn [safe bind fst snd i_off]. unfold fwd in *. lia. }
  destruct (tag =? 1); [apply (Hstr (fun s => mkMeta s _ _ _ _ _ _))|].
  destruct (tag =? 2); [apply (Hstr (fun s => mkMeta _ s _ _ _ _ _))|].
  destruct (tag =? 3); [apply (Hstr (fun s => mkMeta _ _ s _ _ _ _))|].
  destruct (tag =? 4); [apply (Hint (fun x => mkMeta _ _ _ x _ _ _))|].
  destruct (tag =? 5).
  { unfold get_fixed64. sbind; [sbind; [apply expect_wt_safe|intros _ _; apply dec_fixed64_safe; lia]|].
    intros [x off2] H2. cbn [snd] in H2. cbn [safe bind fst snd i_off]. unfold fwd in *. lia. }
  destruct (tag =? 7); [apply (Hstr (fun s => mkMeta _ _ _ _ _ s _))|].
  destruct (tag =? 8); [apply (Hint (fun x => mkMeta _ _ _ _ _ _ x))|].
  sbind; [apply dec_skip_safe; try assumption; lia|]. intros off2 H2. cbn [safe bind fst snd i_off]. unfold fwd in *. lia.
Qed.

Lemma meta_unmarshal_safe data m : (zlen data <= max_int)%Z -> safe (fun _ => True) (meta_unmarshal data m).
Proof.
  intros Hmax. unfold meta_unmarshal.
  apply (loop_safe (meta_body data) (fun st => (0 <= fst st <= zlen data)%Z)
                   (fun st => Z.to_nat (zlen data - fst st))).
  - intros [off m'] Ho. cbn [fst] in Ho.
    eapply safe_weaken; [apply (meta_body_safe data off m' ltac:(lia) Hmax)|].
    intros [[off' m'']|a] H; [|triv]. unfold fwd in H. cbn [fst]. lia.
  - cbn [fst]. pose proof (zlen_nonneg data). lia.
  - cbn [fst]. unfold zlen. lia.
Qed.

(* ---- Snapshot.Unmarshal ---- *)

(* the weight of the DBI objects decoded so far: their payload plus two bytes (tag, length) each *)
Definition dbis_weight (l : list dbi_obj) : Z := fold_right (fun o acc => (zlen (o_data o) + 2 + acc)%Z) 0%Z l.

Lemma dbis_weight_app l d : dbis_weight (l ++ [d]) = (dbis_weight l + zlen (o_data d) + 2)%Z.
Proof.
  induction l as [|o l IH]; [cbn [app dbis_weight fold_right]; lia|].
  change (dbis_weight ((o :: l) ++ [d])) with (zlen (o_data o) + 2 + dbis_weight (l ++ [d]))%Z.
  change (dbis_weight (o :: l)) with (zlen (o_data o) + 2 + dbis_weight l)%Z. lia.
Qed.

Lemma dbis_weight_bounds l :
  (2 * Z.of_nat (length l) <= dbis_weight l)%Z /\
  Forall (fun o => (zlen (o_data o) + 2 <= dbis_weight l)%Z) l.
Proof.
  induction l as [|o l [IH1 IH2]]; cbn [length dbis_weight fold_right]; [split; [lia|constructor]|].
  fold (dbis_weight l). pose proof (zlen_nonneg (o_data o)). split; [lia|].
  constructor; [lia|]. eapply Forall_impl; [|exact IH2]. intros a Ha. cbv beta in *. lia.
Qed.

(* the invariant of the Unmarshal loop: the offset is inside the buffer, and the DBI objects decoded so
   far weigh (payload + 2 bytes each) at most the bytes consumed so far *)
Definition snap_inv (p : bytes) (st : Z * snap_obj) : Prop :=
  (0 <= fst st <= zlen p)%Z /\ (dbis_weight (so_dbis (snd st)) <= fst st)%Z.

Lemma snap_body_safe p st : snap_inv p st -> (zlen p <= max_int)%Z ->
  safe (fun x => match x with
                 | inl st' => snap_inv p st' /\ (fst st < fst st')%Z
                 | inr s => s = snd st
                 end) (snap_body p st).
Proof.
  intros (Ho & Hw) Hmax. destruct st as [off s]. cbn [fst snd] in *. unfold snap_body.
  destruct (zlen p <=? off)%Z eqn:He; [reflexivity|].
  sbind; [apply (dec_tag_safe p off ltac:(lia))|]. intros [[tag wt] off1] H1. unfold fwd in H1.
  pose proof maxlen_snapshot_small as Hml.
  assert (Hu32 : forall (k : N -> snap_obj), (forall x, so_dbis (k x) = so_dbis s) ->
            safe (fun x => match x with
                           | inl st' => snap_inv p st' /\ (off < fst st')%Z
                           | inr s' => s' = s
                           end)
                 (do (x, off2) <- get_uint32 p off1 wt; Ok (@inl (Z * snap_obj) snap_obj (off2, k x)))).
  { intros k Hk. unfold get_uint32. sbind; [sbind; [apply expect_wt_safe|intros _ _; apply dec_uint32_safe; lia]|].
    intros [x off2] H2. cbn [snd] in H2. unfold fwd in H2. cbn [safe]. unfold snap_inv. cbn [fst snd].
    rewrite Hk. lia. }
  destruct (tag =? 1); [apply (Hu32 (fun x => mkSnapObj x _ _ _)); reflexivity|].
  destruct (tag =? 4); [apply (Hu32 (fun x => mkSnapObj _ x _ _)); reflexivity|].
  destruct (tag =? 2).
  { unfold get_bytes. sbind; [sbind; [apply expect_wt_safe|intros _ _; apply dec_bytes_safe; try assumption; lia]|].
    intros [msg off2] [H2 Hm]. cbn [fst snd] in H2, Hm. unfold fwd in H2.
    sbind; [apply meta_unmarshal_safe; lia|]. intros m' _. cbn [safe]. unfold snap_inv. cbn [fst snd so_dbis].
    lia. }
  destruct (tag =? 3).
  { unfold get_bytes. sbind; [sbind; [apply expect_wt_safe|intros _ _; apply dec_bytes_safe; try assumption; lia]|].
    intros [msg off2] [H2 Hm]. cbn [fst snd] in H2, Hm. unfold fwd in H2.
    sbind; [apply new_dbi_from_data_safe; lia|]. intros d Hd. cbn [safe]. unfold snap_inv. cbn [fst snd so_dbis].
    rewrite dbis_weight_app, Hd. lia. }
  sbind; [apply dec_skip_safe; try assumption; lia|]. intros off2 H2. unfold fwd in H2.
  cbn [safe]. unfold snap_inv. cbn [fst snd]. lia.
Qed.

Lemma snap_unmarshal_safe b : (zlen b <= max_int)%Z ->
  safe (fun s => (dbis_weight (so_dbis s) <= zlen b)%Z) (snap_unmarshal b).
Proof.
  intros Hmax. unfold snap_unmarshal.
  apply (loop_safe (snap_body b) (snap_inv b) (fun st => Z.to_nat (zlen b - fst st))).
  - intros st Hi. eapply safe_weaken; [apply (snap_body_safe b st Hi Hmax)|].
    intros [st'|s'] H.
    + destruct H as [Hi' Hlt]. split; [exact Hi'|]. destruct Hi' as (Ho' & _). lia.
    + subst s'. destruct Hi as (Ho & Hw). lia.
  - unfold snap_inv. cbn [fst snd so_dbis dbis_weight fold_right]. pose proof (zlen_nonneg b). lia.
  - cbn [fst]. unfold zlen. lia.
Qed.

Lemma snap_unmarshal_objs b s : (zlen b <= max_int)%Z -> snap_unmarshal b = Ok s ->
  (2 * Z.of_nat (length (so_dbis s)) <= zlen b)%Z /\
  Forall (fun o => (zlen (o_data o) + 2 <= zlen b)%Z) (so_dbis s).
Proof.
  intros Hmax H. pose proof (snap_unmarshal_safe b Hmax) as Hs. rewrite H in Hs. cbn [safe] in Hs.
  destruct (dbis_weight_bounds (so_dbis s)) as [H1 H2]. split; [lia|].
  eapply Forall_impl; [|exact H2]. intros o Ho. cbv beta in *. lia.
Qed.

(* ---- the theorems ---- *)

Theorem custom_decode_safe b : (zlen b <= max_int)%Z -> safe (fun _ => True) (custom_decode b).
Proof.
  intros Hmax. unfold custom_decode.
  pose proof (snap_unmarshal_objs b) as Hobjs.
  pose proof (snap_unmarshal_safe b Hmax) as Hx.
  destruct (snap_unmarshal b) as [s|e| |] eqn:Hs; cbn [bind safe] in Hx |- *; try exact Hx.
  destruct (Hobjs s Hmax eq_refl) as [_ Hall].
  sbind; [apply (mapM_safe dbi_content _ (fun _ => True) _ Hall)|].
  - intros o Ho. cbv beta in Ho. apply dbi_content_safe. pose proof (zlen_nonneg (o_data o)). lia.
  - intros ds _. triv.
Qed.

(* C08_total: never a panic (slice out of range, setter after flush, ...) and never out of fuel *)
Theorem decode_total b : (zlen b <= max_int)%Z ->
  exists r, custom_decode b = r /\ r <> Panic /\ r <> OutOfFuel.
Proof.
  intros Hmax. exists (custom_decode b). split; [reflexivity|].
  apply (safe_not_panic (fun _ => True)), custom_decode_safe, Hmax.
Qed.

Theorem decode_ok_or_err b : (zlen b <= max_int)%Z ->
  (exists s, custom_decode b = Ok s) \/ (exists e, custom_decode b = Err e).
Proof.
  intros Hmax. pose proof (custom_decode_safe b Hmax) as H.
  destruct (custom_decode b) as [s|e| |]; cbn [safe] in H; try contradiction;
    [left; exists s; reflexivity|right; exists e; reflexivity].
Qed.

(* C08_mem: every DBI object costs at least two bytes of input (tag + length), and holds a sub-slice
   of the input (no copy): the decoder's memory is bounded by the input *)
Theorem dbi_objects_bound b s : (zlen b <= max_int)%Z -> snap_unmarshal b = Ok s ->
  (2 * length (so_dbis s) <= length b)%nat /\
  Forall (fun o => (length (o_data o) <= length b)%nat) (so_dbis s).
Proof.
  intros Hmax H. destruct (snap_unmarshal_objs b s Hmax H) as [Hc Hall]. unfold zlen in *. split; [lia|].
  eapply Forall_impl; [|exact Hall]. intros o Ho. cbv beta in Ho. lia.
Qed.

(* ---- C08_linear: the number of loop rounds ---- *)

(* a loop whose every round moves a position forward inside [0, len] runs at most len - pos + 1 rounds *)
Lemma simple_loop_steps {S A : Type} (body : S -> res (S + A)) (pos : S -> Z) (len : Z) :
  (forall s, (0 <= pos s <= len)%Z ->
     safe (fun x => match x with inl s' => (pos s < pos s' <= len)%Z | inr _ => True end) (body s)) ->
  forall fuel s, (0 <= pos s <= len)%Z ->
    loop_steps body (fun _ => 1) fuel s <= Z.to_N (len - pos s) + 1.
Proof.
  intros Hb fuel s Hs.
  apply (loop_steps_le body (fun _ => 1) (fun s => Z.to_N (len - pos s) + 1) (fun s => (0 <= pos s <= len)%Z)); [|exact Hs].
  intros s0 H0. specialize (Hb s0 H0). destruct (body s0) as [[s'|a]| | |]; cbn [safe] in Hb; try lia.
Qed.

Lemma kv_steps_le data : (zlen data <= max_int)%Z -> kv_steps data <= Z.to_N (zlen data) + 1.
Proof.
  intros Hmax. unfold kv_steps.
  pose proof (simple_loop_steps (kv_body data) (fun st => fst st) (zlen data)) as H.
  cbn [fst] in H. eapply N.le_trans; [apply H|cbn [fst]; lia]; [|pose proof (zlen_nonneg data); cbn [fst]; lia].
  intros [offset e] Ho. cbn [fst] in *. unfold kv_body.
  eapply safe_bind; [apply (kv_field_safe data offset e Ho Hmax)|].
  intros [offset' e'] Hp. cbn [fst] in Hp. destruct (offset' =? zlen data)%Z; cbn [safe fst]; [triv|lia].
Qed.

Lemma index_steps_le data : (zlen data <= max_int)%Z -> index_steps data <= Z.to_N (zlen data) + 1.
Proof.
  intros Hmax. unfold index_steps.
  pose proof (simple_loop_steps (index_body data) i_off (zlen data)) as H.
  eapply N.le_trans; [apply H|cbn [i_off]; lia]; [|pose proof (zlen_nonneg data); cbn [i_off]; lia].
  intros st Ho. apply (index_body_safe data st Ho Hmax).
Qed.

Lemma meta_steps_le data m : (zlen data <= max_int)%Z -> meta_steps data m <= Z.to_N (zlen data) + 1.
Proof.
  intros Hmax. unfold meta_steps.
  pose proof (simple_loop_steps (meta_body data) (fun st => fst st) (zlen data)) as H.
  eapply N.le_trans; [apply H|cbn [fst]; lia]; [|pose proof (zlen_nonneg data); cbn [fst]; lia].
  intros [off m'] Ho. cbn [fst] in *.
  eapply safe_weaken; [apply (meta_body_safe data off m' ltac:(lia) Hmax)|].
  intros [[off' m'']|a] Hx; [|triv]. unfold fwd in Hx. cbn [fst]. lia.
Qed.

(* the skip loop of Next: when it finds an entries tag at [offset], every round before consumed at least
   one byte, so it ran at most offset - cur rounds; otherwise at most len - cur + 1 *)
Lemma next_loop_steps data : (zlen data <= max_int)%Z -> forall fuel cur, (0 <= cur <= zlen data)%Z ->
  match loop (next_body data) fuel cur with
  | Ok (Some (offset, _)) =>
      loop_steps (next_body data) (fun _ => 1) fuel cur <= Z.to_N (offset - cur) /\ (cur < offset <= zlen data)%Z
  | _ => loop_steps (next_body data) (fun _ => 1) fuel cur <= Z.to_N (zlen data - cur) + 1
  end.
Proof.
  intros Hmax. induction fuel as [|fuel IH]; intros cur Hc; cbn [loop loop_steps]; [lia|].
  pose proof (next_body_safe data cur Hc Hmax) as Hb.
  destruct (next_body data cur) as [[off'|[[off' wt]|]]| | |]; cbn [safe] in Hb; try lia.
  specialize (IH off' ltac:(lia)).
  destruct (loop (next_body data) fuel off') as [[[offset wt]|]| | |]; lia.
Qed.

Lemma next_steps_le data cur : (0 <= cur <= zlen data)%Z -> (zlen data <= max_int)%Z ->
  match dbi_next data cur with
  | Ok (Some (_, cur')) => next_steps data cur <= Z.to_N (cur' - cur)
  | _ => next_steps data cur <= Z.to_N (zlen data - cur) + 1
  end.
Proof.
  intros Hc Hmax. unfold next_steps, dbi_next.
  pose proof (next_loop_steps data Hmax (S (length data)) cur Hc) as Hl.
  set (L := loop_steps (next_body data) (fun _ => 1) (S (length data)) cur) in *.
  destruct (loop (next_body data) (S (length data)) cur) as [[[offset wt]|]| | |]; cbn [bind]; try lia.
  destruct Hl as [Hl Ho].
  assert (Hx : (0 <= offset <= zlen data)%Z) by lia.
  destruct (skipn_slice data offset Hx) as [Hsl Hlen]. rewrite Hsl. cbn [bind].
  pose proof (decode_varint_safe (skipn (Z.to_nat offset) data)) as Hv.
  destruct (decode_varint (skipn (Z.to_nat offset) data)) as [[v n]| | |]; cbn [safe] in Hv;
    try (unfold expect_wt, E; destruct (wt =? 2); cbn [bind]; lia).
  destruct Hv as (_ & Hn & Hnl). rewrite Hlen in Hnl.
  destruct (u64_of_int (zlen data - (offset + n)) <? v) eqn:Hck;
    [unfold expect_wt, E; destruct (wt =? 2); cbn [bind]; rewrite ?Hck; lia|].
  destruct (length_check (zlen data) (offset + n)%Z v ltac:(lia) Hmax Hck) as (H0 & H1 & _).
  rewrite slice3_ok by lia.
  set (b := firstn (Z.to_nat (offset + n + int_of_u64 v - (offset + n))) (skipn (Z.to_nat (offset + n)) data)).
  assert (Hb : zlen b = int_of_u64 v).
  { unfold b. rewrite zlen_slice3 by lia. lia. }
  pose proof (kv_steps_le b ltac:(lia)) as Hk.
  unfold expect_wt, E. destruct (wt =? 2); cbn [bind]; [|lia].
  rewrite Hck. rewrite slice3_ok by lia. fold b. cbn [bind].
  destruct (kv_unmarshal b); cbn [bind]; lia.
Qed.

Lemma entries_steps_le data : (zlen data <= max_int)%Z ->
  entries_steps data <= 2 * Z.to_N (zlen data) + 2.
Proof.
  intros Hmax. unfold entries_steps.
  pose proof (loop_steps_le (entries_body data) (fun st => 1 + next_steps data (fst st))
                (fun st => 2 * Z.to_N (zlen data - fst st) + 2)
                (fun st => (0 <= fst st <= zlen data)%Z)) as H.
  eapply N.le_trans; [apply H|cbn [fst]; lia]; [|cbn [fst]; pose proof (zlen_nonneg data); lia].
  intros [cur acc] Ho. cbn [fst] in *. unfold entries_body.
  pose proof (next_steps_le data cur Ho Hmax) as Hn.
  pose proof (dbi_next_safe data cur Ho Hmax) as Hs.
  destruct (dbi_next data cur) as [[[e cur']|]| | |]; cbn [bind safe fst] in *; try lia.
Qed.

(* one round of the Unmarshal loop, with the rounds of the nested Meta / indexData loop *)
Lemma snap_round_cost p st : snap_inv p st -> (zlen p <= max_int)%Z ->
  match snap_body p st with
  | Ok (inl st') => 1 + snap_nested p st <= Z.to_N (fst st' - fst st)
  | _ => 1 + snap_nested p st <= Z.to_N (zlen p - fst st) + 1
  end.
Proof.
  intros (Ho & Hw) Hmax. destruct st as [off s]. cbn [fst snd] in *. unfold snap_body, snap_nested.
  destruct (zlen p <=? off)%Z eqn:He.
  { (* no more input: dec_tag fails too *)
    unfold dec_tag, E. rewrite He. lia. }
  pose proof (dec_tag_safe p off ltac:(lia)) as Ht.
  destruct (dec_tag p off) as [[[tag wt] off1]| | |]; cbn [safe bind] in Ht |- *; try lia.
  unfold fwd in Ht. pose proof maxlen_snapshot_small as Hml.
  destruct (tag =? 1) eqn:T1.
  { replace (tag =? 2) with false by lia. replace (tag =? 3) with false by lia.
    unfold get_uint32. pose proof (dec_uint32_safe p off1 ltac:(lia)) as Hu.
    unfold expect_wt, E. destruct (wt =? 0); cbn [bind]; [|lia].
    destruct (dec_uint32 p off1) as [[x off2]| | |]; cbn [safe bind fst snd] in Hu |- *; try lia.
    unfold fwd in Hu. lia. }
  destruct (tag =? 4) eqn:T4.
  { replace (tag =? 2) with false by lia. replace (tag =? 3) with false by lia.
    unfold get_uint32. pose proof (dec_uint32_safe p off1 ltac:(lia)) as Hu.
    unfold expect_wt, E. destruct (wt =? 0); cbn [bind]; [|lia].
    destruct (dec_uint32 p off1) as [[x off2]| | |]; cbn [safe bind fst snd] in Hu |- *; try lia.
    unfold fwd in Hu. lia. }
  destruct (tag =? 2) eqn:T2.
  { unfold get_bytes. pose proof (dec_bytes_safe MaxFieldLength p off1 ltac:(lia) Hmax Hml) as Hb.
    unfold expect_wt, E. destruct (wt =? 2); cbn [bind]; [|lia].
    destruct (dec_bytes MaxFieldLength p off1) as [[msg off2]| | |]; cbn [safe bind fst snd] in Hb |- *; try lia.
    destruct Hb as [Hf Hm]. unfold fwd in Hf.
    pose proof (meta_steps_le msg (so_meta s) ltac:(lia)) as Hk. pose proof (zlen_nonneg msg).
    destruct (meta_unmarshal msg (so_meta s)); cbn [bind fst]; lia. }
  destruct (tag =? 3) eqn:T3.
  { unfold get_bytes. pose proof (dec_bytes_safe MaxFieldLength p off1 ltac:(lia) Hmax Hml) as Hb.
    unfold expect_wt, E. destruct (wt =? 2); cbn [bind]; [|lia].
    destruct (dec_bytes MaxFieldLength p off1) as [[msg off2]| | |]; cbn [safe bind fst snd] in Hb |- *; try lia.
    destruct Hb as [Hf Hm]. unfold fwd in Hf.
    pose proof (index_steps_le msg ltac:(lia)) as Hk. pose proof (zlen_nonneg msg).
    destruct (new_dbi_from_data msg); cbn [bind fst]; lia. }
  pose proof (dec_skip_safe MaxFieldLength p off1 tag wt ltac:(lia) Hmax Hml) as Hsk.
  destruct (dec_skip MaxFieldLength p off1 tag wt) as [off2| | |]; cbn [safe bind fst] in Hsk |- *; try lia.
  unfold fwd in Hsk. lia.
Qed.

Lemma unmarshal_steps_le b : (zlen b <= max_int)%Z -> unmarshal_steps b <= 2 * Z.to_N (zlen b) + 1.
Proof.
  intros Hmax. unfold unmarshal_steps.
  pose proof (loop_steps_le (snap_body b) (fun st => 1 + snap_nested b st)
                (fun st => 2 * Z.to_N (zlen b - fst st) + 1) (snap_inv b)) as H.
  eapply N.le_trans; [apply H|cbn [fst]; lia].
  - intros st Hi. pose proof (snap_round_cost b st Hi Hmax) as Hc.
    pose proof (snap_body_safe b st Hi Hmax) as Hs. destruct Hi as (Ho & Hw).
    destruct (snap_body b st) as [[st'|a]| | |]; cbn [safe] in Hs; try lia.
    destruct Hs as [Hi' Hlt]. split; [exact Hi'|]. destruct Hi' as (Ho' & _). lia.
  - unfold snap_inv. cbn [fst snd so_dbis dbis_weight fold_right]. pose proof (zlen_nonneg b). lia.
Qed.

Lemma sum_entries_steps l : Forall (fun o => (zlen (o_data o) <= max_int)%Z) l ->
  (Z.of_N (sumN (fun o => entries_steps (o_data o)) l) <= 2 * dbis_weight l)%Z.
Proof.
  induction 1 as [|o l Ho Hl IH]; cbn [sumN fold_right dbis_weight]; [lia|].
  fold (sumN (fun o => entries_steps (o_data o)) l). fold (dbis_weight l).
  pose proof (entries_steps_le (o_data o) Ho). pose proof (zlen_nonneg (o_data o)). lia.
Qed.

(* C08_linear: all rounds of all loops of Unmarshal and of the full iteration of every DBI *)
Theorem steps_linear b : (zlen b <= max_int)%Z -> steps b <= 4 * N.of_nat (length b) + 1.
Proof.
  intros Hmax. unfold steps. pose proof (unmarshal_steps_le b Hmax) as Hu.
  pose proof (snap_unmarshal_safe b Hmax) as Hs. pose proof (snap_unmarshal_objs b) as Ho.
  destruct (snap_unmarshal b) as [s| | |]; cbn [safe] in Hs; unfold zlen in *; try lia.
  destruct (Ho s Hmax eq_refl) as [_ Hall].
  assert (Hall' : Forall (fun o => (zlen (o_data o) <= max_int)%Z) (so_dbis s)).
  { eapply Forall_impl; [|exact Hall]. intros o H. cbv beta in H. unfold zlen in *. lia. }
  pose proof (sum_entries_steps (so_dbis s) Hall'). unfold zlen in *. lia.
Qed.
