(* Codec/Util.v — generic lemmas for the codec proofs: the [safe] predicate (a result is a value
   satisfying P or the error EMalformed, never Panic / OutOfFuel), loops with an invariant and a decreasing measure,
   iteration counts with a potential function, slices and offsets. *)
From LS Require Import Base.Bytes Base.BytesProofs Base.Res Codec.Varint Codec.Loop Merge.Model Codec.Wire
  Codec.Custom Codec.VarintProofs.
From Coq Require Import ZifyN ZifyNat ZifyBool.
Open Scope N_scope.
Ltac Zify.zify_post_hook ::= Z.div_mod_to_equations.

(* ---- safe ---- *)

Definition safe {A : Type} (P : A -> Prop) (r : res A) : Prop :=
  match r with
  | Ok a => P a
  | Err e => e = EMalformed
  | Panic => False
  | OutOfFuel => False
  end.

Ltac triv := first [exact I | reflexivity].

Lemma safe_bind {A B : Type} (P : A -> Prop) (Q : B -> Prop) (r : res A) (f : A -> res B) :
  safe P r -> (forall a, P a -> safe Q (f a)) -> safe Q (bind r f).
Proof. destruct r; cbn; auto; contradiction. Qed.

Lemma safe_weaken {A : Type} (P Q : A -> Prop) (r : res A) :
  safe P r -> (forall a, P a -> Q a) -> safe Q r.
Proof. destruct r; cbn; auto. Qed.

Lemma safe_E {A : Type} (P : A -> Prop) : safe P (@E A).
Proof. reflexivity. Qed.

(* a safe computation followed by an error is that error *)
Lemma safe_then_E {A B : Type} (P : A -> Prop) (r : res A) : safe P r -> bind r (fun _ => @E B) = E.
Proof. destruct r as [a|e| |]; cbn; intros H; try contradiction; [reflexivity|subst; reflexivity]. Qed.

Lemma safe_not_panic {A : Type} (P : A -> Prop) (r : res A) :
  safe P r -> r <> Panic /\ r <> OutOfFuel.
Proof. destruct r; cbn; intros H; try contradiction; split; discriminate. Qed.

(* ---- loops ---- *)

Lemma loop_safe {S A : Type} (body : S -> res (S + A)) (Inv : S -> Prop) (mu : S -> nat) (P : A -> Prop) :
  (forall s, Inv s ->
     safe (fun x => match x with inl s' => Inv s' /\ (mu s' < mu s)%nat | inr a => P a end) (body s)) ->
  forall fuel s, Inv s -> (mu s < fuel)%nat -> safe P (loop body fuel s).
Proof.
  intros Hb. induction fuel as [|fuel IH]; intros s Hi Hm; [lia|].
  cbn [loop]. specialize (Hb s Hi).
  destruct (body s) as [[s'|a]| | |]; cbn in Hb |- *; auto.
  destruct Hb as [Hi' Hlt]. apply IH; [exact Hi'|lia].
Qed.

(* the result of a loop does not depend on the fuel once it is enough *)
Lemma loop_fuel_mono {S A : Type} (body : S -> res (S + A)) : forall f1 f2 s r,
  loop body f1 s = r -> r <> OutOfFuel -> (f1 <= f2)%nat -> loop body f2 s = r.
Proof.
  induction f1 as [|f1 IH]; intros f2 s r H Hr Hle; cbn [loop] in H; [congruence|].
  destruct f2 as [|f2]; [lia|]. cbn [loop].
  destruct (body s) as [[s'|a]| | |]; try exact H.
  apply IH; [exact H|exact Hr|lia].
Qed.

(* iteration counts: [w] is a potential — it pays for the round and for what remains *)
Lemma loop_steps_le {S A : Type} (body : S -> res (S + A)) (cost w : S -> N) (Inv : S -> Prop) :
  (forall s, Inv s ->
     match body s with
     | Ok (inl s') => Inv s' /\ cost s + w s' <= w s
     | _ => cost s <= w s
     end) ->
  forall fuel s, Inv s -> loop_steps body cost fuel s <= w s.
Proof.
  intros Hb. induction fuel as [|fuel IH]; intros s Hi; cbn [loop_steps]; [lia|].
  specialize (Hb s Hi). destruct (body s) as [[s'|a]| | |]; try lia.
  destruct Hb as [Hi' Hc]. specialize (IH s' Hi'). lia.
Qed.

Lemma mapM_safe {A B : Type} (f : A -> res B) (P : A -> Prop) (Q : B -> Prop) (l : list A) :
  Forall P l -> (forall a, P a -> safe Q (f a)) -> safe (Forall Q) (mapM f l).
Proof.
  intros Hl Hf. induction Hl as [|x l Hx Hl IH]; cbn [mapM]; [constructor|].
  eapply safe_bind; [apply Hf, Hx|]. intros y Hy.
  eapply safe_bind; [exact IH|]. intros ys Hys. cbn. constructor; assumption.
Qed.

(* ---- lengths, offsets, slices ---- *)

Lemma zlen_nonneg (b : bytes) : (0 <= zlen b)%Z.
Proof. unfold zlen. lia. Qed.

Lemma zlen_app (a b : bytes) : zlen (a ++ b) = (zlen a + zlen b)%Z.
Proof. unfold zlen. rewrite app_length. lia. Qed.

Lemma zlen_skipn (data : bytes) (off : Z) : (0 <= off <= zlen data)%Z ->
  zlen (skipn (Z.to_nat off) data) = (zlen data - off)%Z.
Proof. unfold zlen. intros H. rewrite skipn_length. lia. Qed.

Lemma zlen_firstn (data : bytes) (n : Z) : (0 <= n <= zlen data)%Z ->
  zlen (firstn (Z.to_nat n) data) = n.
Proof. unfold zlen. intros H. rewrite firstn_length. lia. Qed.

Lemma slice_from_ok (data : bytes) (off : Z) : (0 <= off <= zlen data)%Z ->
  slice_from data off = Ok (skipn (Z.to_nat off) data).
Proof.
  intros H. unfold slice_from.
  replace ((0 <=? off)%Z && (off <=? zlen data)%Z) with true by lia. reflexivity.
Qed.

Lemma slice3_ok (data : bytes) (lo hi : Z) : (0 <= lo <= hi)%Z -> (hi <= zlen data)%Z ->
  slice3 data lo hi = Ok (firstn (Z.to_nat (hi - lo)) (skipn (Z.to_nat lo) data)).
Proof.
  intros H1 H2. unfold slice3.
  replace ((0 <=? lo)%Z && (lo <=? hi)%Z && (hi <=? zlen data)%Z) with true by lia. reflexivity.
Qed.

Lemma zlen_slice3 (data : bytes) (lo hi : Z) : (0 <= lo <= hi)%Z -> (hi <= zlen data)%Z ->
  zlen (firstn (Z.to_nat (hi - lo)) (skipn (Z.to_nat lo) data)) = (hi - lo)%Z.
Proof.
  intros H1 H2. apply zlen_firstn. rewrite zlen_skipn by lia. lia.
Qed.

Lemma u64_of_int_nonneg (x : Z) : (0 <= x)%Z -> u64_of_int x = Z.to_N x.
Proof. intros H. unfold u64_of_int. replace (x <? 0)%Z with false by lia. reflexivity. Qed.

Lemma int_of_u64_small (v : N) : v < two63 -> int_of_u64 v = Z.of_N v.
Proof. intros H. unfold int_of_u64, to_int64. replace (v <? two63) with true by lia. reflexivity. Qed.

Definition max_int : Z := 9223372036854775807%Z.   (* a Go slice is never longer *)

(* the pattern of every length check of the hand-written decoders after e5df985:
   `if uint64(len - offset) < v { error }; size := int(v)` *)
Lemma length_check (len offset : Z) (v : N) :
  (0 <= offset <= len)%Z -> (len <= max_int)%Z ->
  (u64_of_int (len - offset) <? v) = false ->
  (0 <= int_of_u64 v)%Z /\ (offset + int_of_u64 v <= len)%Z /\ int_of_u64 v = Z.of_N v.
Proof.
  intros H1 H2 H3. rewrite u64_of_int_nonneg in H3 by lia.
  assert (Hv : v < two63) by (unfold two63, max_int in *; lia).
  rewrite int_of_u64_small by exact Hv. lia.
Qed.

(* DecodeVarint as a safe operation *)
Lemma decode_varint_safe (p : bytes) :
  safe (fun x => let '(v, n) := x in v < two64 /\ (1 <= n <= 10)%Z /\ (n <= zlen p)%Z) (decode_varint p).
Proof.
  destruct (decode_varint_total p) as [H|(v & n & r & H & Hv & Hn & Hl & _)]; rewrite H; cbn; auto.
Qed.
