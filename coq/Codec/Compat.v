(* Codec/Compat.v — C07 forward compatibility: on every message of the wire grammar that satisfies
   [schema_ok] (Codec/Wire.v: grammatical at the nested levels, minus the listed exclusions), the
   hand-written decoder (offsets, hand-rolled loops, csproto Decoder) returns exactly what the schema
   specification returns — fields in any order, repeated scalars, merged embedded Meta, unknown fields of
   wire types 0/1/2/5 with any field number at every level, non-minimal varints, wrong wire types
   (both report an error). *)
From LS Require Import Base.Bytes Base.BytesProofs Base.Res Codec.Varint Codec.Loop Merge.Model Codec.Wire
  Codec.Custom Codec.VarintProofs Codec.Util Codec.Hostile.
From Coq Require Import ZifyN ZifyNat ZifyBool.
Open Scope N_scope.
Ltac Zify.zify_post_hook ::= Z.div_mod_to_equations.

(* ---- the shape of one grammatical field ---- *)

Inductive shape (p : bytes) (num : N) : wval -> bytes -> Prop :=
| ShVar key r1 v r :
    vspec p = Some (key, r1) -> key / 8 = num -> key mod 8 = 0 -> vspec r1 = Some (v, r) ->
    shape p num (WVar v) r
| ShF64 key r1 :
    vspec p = Some (key, r1) -> key / 8 = num -> key mod 8 = 1 -> (8 <= length r1)%nat ->
    shape p num (WF64 (of_le (firstn 8 r1))) (skipn 8 r1)
| ShLen key r1 l r2 :
    vspec p = Some (key, r1) -> key / 8 = num -> key mod 8 = 2 -> vspec r1 = Some (l, r2) -> l <= lenN r2 ->
    shape p num (WLen (firstn (N.to_nat l) r2)) (skipn (N.to_nat l) r2)
| ShF32 key r1 :
    vspec p = Some (key, r1) -> key / 8 = num -> key mod 8 = 5 -> (4 <= length r1)%nat ->
    shape p num (WF32 (of_le (firstn 4 r1))) (skipn 4 r1).

Lemma parse_field_shape p num v r : parse_field p = Some ((num, v), r) ->
  shape p num v r /\ 1 <= num <= MaxFieldNumber.
Proof.
  unfold parse_field. destruct (vspec p) as [[key r1]|] eqn:Hk; [|discriminate].
  destruct ((key / 8 =? 0) || (MaxFieldNumber <? key / 8)) eqn:Hn; [discriminate|].
  assert (Hnum : 1 <= key / 8 <= MaxFieldNumber) by lia.
  destruct (key mod 8 =? 0) eqn:W0.
  { destruct (vspec r1) as [[x r']|] eqn:Hv; [|discriminate]. intros H; inversion H; subst.
    split; [eapply ShVar; eauto; lia|exact Hnum]. }
  destruct (key mod 8 =? 1) eqn:W1.
  { destruct (Nat.ltb (length r1) 8) eqn:Hl; [discriminate|]. apply Nat.ltb_ge in Hl.
    intros H; inversion H; subst. split; [eapply ShF64; eauto; lia|exact Hnum]. }
  destruct (key mod 8 =? 2) eqn:W2.
  { destruct (vspec r1) as [[l r2]|] eqn:Hv; [|discriminate].
    destruct (lenN r2 <? l) eqn:Hl; [discriminate|].
    intros H; inversion H; subst. split; [eapply ShLen; eauto; lia|exact Hnum]. }
  destruct (key mod 8 =? 5) eqn:W5; [|discriminate].
  destruct (Nat.ltb (length r1) 4) eqn:Hl; [discriminate|]. apply Nat.ltb_ge in Hl.
  intros H; inversion H; subst. split; [eapply ShF32; eauto; lia|exact Hnum].
Qed.

(* a field consumes at least two bytes... at least one: the remaining input gets shorter *)
Lemma shape_shorter p num v r : shape p num v r -> (length r < length p)%nat.
Proof.
  intros H; destruct H as [key r1 x r Hk _ _ Hv|key r1 Hk _ _ Hl|key r1 l r2 Hk _ _ Hv Hl|key r1 Hk _ _ Hl];
    destruct (vspec_split _ _ _ Hk) as (_ & c & -> & Hc); rewrite app_length.
  - destruct (vspec_split _ _ _ Hv) as (_ & c2 & -> & Hc2). rewrite app_length. lia.
  - rewrite skipn_length. lia.
  - destruct (vspec_split _ _ _ Hv) as (_ & c2 & -> & Hc2). rewrite app_length, skipn_length. lia.
  - rewrite skipn_length. lia.
Qed.

Lemma parse_field_shorter p f r : parse_field p = Some (f, r) -> (length r < length p)%nat.
Proof. destruct f as [num v]. intros H. apply parse_field_shape in H. eapply shape_shorter, H. Qed.

(* wire_parse does not depend on its fuel once it covers the input *)
Lemma wire_parse_f_enough_aux : forall n f p, (f <= n)%nat -> (length p <= f)%nat ->
  wire_parse_f f p = wire_parse_f (length p) p.
Proof.
  induction n as [|n IH]; intros f p Hf Hl.
  - destruct p; [destruct f; reflexivity|cbn [length] in Hl; lia].
  - destruct p as [|b p']; [destruct f; reflexivity|].
    destruct f as [|f]; [cbn [length] in Hl; lia|].
    cbn [wire_parse_f length].
    destruct (parse_field (b :: p')) as [[fl r]|] eqn:Hp; [|reflexivity].
    pose proof (parse_field_shorter _ _ _ Hp) as Hs. cbn [length] in Hs, Hl.
    rewrite (IH f r) by lia. rewrite (IH (length p') r) by lia. reflexivity.
Qed.

Lemma wire_parse_f_enough f p : (length p <= f)%nat -> wire_parse_f f p = wire_parse_f (length p) p.
Proof. apply (wire_parse_f_enough_aux f f p); lia. Qed.

Lemma wire_parse_nil : wire_parse [] = Some [].
Proof. reflexivity. Qed.

Lemma wire_parse_cons p : p <> [] ->
  wire_parse p = match parse_field p with
                 | Some (fl, r) => match wire_parse r with Some l => Some (fl :: l) | None => None end
                 | None => None
                 end.
Proof.
  intros Hne. unfold wire_parse. destruct p as [|b p']; [congruence|].
  cbn [wire_parse_f length].
  destruct (parse_field (b :: p')) as [[fl r]|] eqn:Hp; [|reflexivity].
  pose proof (parse_field_shorter _ _ _ Hp) as Hs. cbn [length] in Hs.
  rewrite (wire_parse_f_enough (length p') r) by lia. reflexivity.
Qed.

Lemma wire_parse_inv p f fs : wire_parse p = Some (f :: fs) ->
  exists r, parse_field p = Some (f, r) /\ wire_parse r = Some fs /\ p <> [].
Proof.
  intros H. destruct p as [|b p']; [discriminate|].
  rewrite wire_parse_cons in H by discriminate.
  destruct (parse_field (b :: p')) as [[fl r]|]; [|discriminate].
  destruct (wire_parse r) as [l|] eqn:Hr; [|discriminate]. inversion H; subst.
  exists r. split; [reflexivity|]. split; [exact Hr|discriminate].
Qed.

Lemma wire_parse_nil_inv p : wire_parse p = Some [] -> p = [].
Proof.
  intros H. destruct p as [|b p']; [reflexivity|].
  rewrite wire_parse_cons in H by discriminate.
  destruct (parse_field (b :: p')) as [[fl r]|]; [|discriminate].
  destruct (wire_parse r); discriminate.
Qed.

(* ---- positions: the hand-written code is at offset [off] of [data], the grammar at [rest] ---- *)

Definition pos (data : bytes) (off : Z) (rest : bytes) : Prop :=
  (0 <= off <= zlen data)%Z /\ skipn (Z.to_nat off) data = rest.

Lemma pos_start data : pos data 0 data.
Proof. split; [pose proof (zlen_nonneg data); lia|reflexivity]. Qed.

Lemma pos_slice data off rest : pos data off rest -> slice_from data off = Ok rest.
Proof. intros [H <-]. apply slice_from_ok, H. Qed.

Lemma pos_zlen data off rest : pos data off rest -> zlen rest = (zlen data - off)%Z.
Proof. intros [H <-]. apply zlen_skipn, H. Qed.

Lemma pos_app data off c r : pos data off (c ++ r) -> pos data (off + zlen c) r.
Proof.
  intros [H E]. pose proof (zlen_skipn data off H) as Hl. rewrite E, zlen_app in Hl.
  pose proof (zlen_nonneg c). pose proof (zlen_nonneg r).
  split; [lia|].
  replace (Z.to_nat (off + zlen c)) with (length c + Z.to_nat off)%nat by (unfold zlen; lia).
  rewrite <- skipn_skipn, E, skipn_app, skipn_all, Nat.sub_diag. reflexivity.
Qed.

Lemma pos_skip data off rest k : pos data off rest -> (k <= length rest)%nat ->
  pos data (off + Z.of_nat k) (skipn k rest).
Proof.
  intros Hp Hk. rewrite <- (firstn_skipn k rest) in Hp. apply pos_app in Hp.
  unfold zlen in Hp. rewrite firstn_length, Nat.min_l in Hp by exact Hk. exact Hp.
Qed.

Lemma pos_take data off rest k : pos data off rest -> (k <= length rest)%nat ->
  slice3 data off (off + Z.of_nat k) = Ok (firstn k rest).
Proof.
  intros [H E] Hk. pose proof (zlen_skipn data off H) as Hl. rewrite E in Hl. unfold zlen in Hl.
  rewrite slice3_ok by (unfold zlen; lia).
  replace (Z.to_nat (off + Z.of_nat k - off)) with k by lia. rewrite E. reflexivity.
Qed.

Lemma pos_end data off : pos data off [] -> off = zlen data.
Proof. intros H. pose proof (pos_zlen _ _ _ H) as Hl. unfold zlen in *. cbn [length] in Hl. lia. Qed.

Lemma pos_not_end data off rest : pos data off rest -> rest <> [] -> (off < zlen data)%Z.
Proof.
  intros H Hne. pose proof (pos_zlen _ _ _ H) as Hl. destruct rest; [congruence|].
  unfold zlen in *. cbn [length] in Hl. lia.
Qed.

Lemma pos_varint data off rest v r1 : pos data off rest -> vspec rest = Some (v, r1) ->
  exists n, decode_varint rest = Ok (v, n) /\ (1 <= n <= 10)%Z /\ pos data (off + n) r1 /\ v < two64.
Proof.
  intros Hp Hv. destruct (vspec_split _ _ _ Hv) as (Hr & c & -> & Hc).
  exists (zlen c). rewrite decode_varint_spec, Hv.
  split; [f_equal; f_equal; rewrite app_length; unfold zlen; lia|].
  split; [unfold zlen; lia|]. split; [apply pos_app, Hp|exact Hr].
Qed.

(* the length check of the hand-written loops accepts exactly what the grammar accepts *)
Lemma len_check_ok data off r2 l : pos data off r2 -> (zlen data <= max_int)%Z -> l <= lenN r2 ->
  (u64_of_int (zlen data - off) <? l) = false /\ int_of_u64 l = Z.of_N l /\
  (Z.to_nat (Z.of_N l) <= length r2)%nat /\ Z.of_N l = Z.of_nat (N.to_nat l).
Proof.
  intros Hp Hmax Hl. pose proof (pos_zlen _ _ _ Hp) as Hz. destruct Hp as [Ho _].
  unfold lenN, zlen in *. rewrite u64_of_int_nonneg by lia.
  rewrite int_of_u64_small by (unfold two63, max_int in *; lia). repeat split; lia.
Qed.

(* skipTag on a grammatical value consumes exactly that value *)
Lemma skip_tag_shape data off rest key r1 num v r :
  (zlen data <= max_int)%Z -> vspec rest = Some (key, r1) -> pos data off r1 ->
  shape rest num v r -> exists n, skip_tag r1 (key mod 8) = Ok n /\ (1 <= n)%Z /\ pos data (off + n) r.
Proof.
  intros Hmax Hk Hp Hs. pose proof (pos_zlen _ _ _ Hp) as Hz. pose proof (proj1 Hp) as Ho.
  unfold skip_tag.
  destruct Hs as [key' r1' x r Hk' _ Hw Hv|key' r1' Hk' _ Hw Hl|key' r1' l r2 Hk' _ Hw Hv Hl|key' r1' Hk' _ Hw Hl];
    rewrite Hk in Hk'; inversion Hk'; subst key' r1'; rewrite Hw.
  - cbn [N.eqb Pos.eqb]. destruct (pos_varint _ _ _ _ _ Hp Hv) as (n & Hd & Hn & Hp' & _).
    rewrite Hd. cbn [bind].
    pose proof (pos_zlen _ _ _ Hp') as Hz'. pose proof (zlen_nonneg r).
    replace (zlen r1 <? n)%Z with false by lia. exists n. split; [reflexivity|]. split; [lia|exact Hp'].
  - change (1 =? 0) with false. change (1 =? 2) with false. change (1 =? 5) with false. change (1 =? 1) with true.
    cbn [bind]. replace (zlen r1 <? 8)%Z with false by (unfold zlen; lia).
    exists 8%Z. split; [reflexivity|]. split; [lia|]. apply (pos_skip _ _ _ 8 Hp Hl).
  - change (2 =? 0) with false. change (2 =? 2) with true.
    destruct (pos_varint _ _ _ _ _ Hp Hv) as (n & Hd & Hn & Hp' & _).
    rewrite Hd. cbn [bind].
    pose proof (pos_zlen _ _ _ Hp') as Hz'.
    destruct (len_check_ok _ _ _ _ Hp' Hmax Hl) as (Hc & Hi & Hle & Hnat).
    replace (zlen r1 - n)%Z with (zlen data - (off + n))%Z by lia. rewrite Hc, Hi. cbn [bind].
    replace (zlen r1 <? Z.of_N l + n)%Z with false by (unfold zlen in *; lia).
    exists (Z.of_N l + n)%Z. split; [reflexivity|]. split; [lia|].
    replace (off + (Z.of_N l + n))%Z with (off + n + Z.of_nat (N.to_nat l))%Z by lia.
    apply pos_skip; [exact Hp'|lia].
  - change (5 =? 0) with false. change (5 =? 2) with false. change (5 =? 5) with true.
    cbn [bind]. replace (zlen r1 <? 4)%Z with false by (unfold zlen; lia).
    exists 4%Z. split; [reflexivity|]. split; [lia|]. apply (pos_skip _ _ _ 4 Hp Hl).
Qed.

Lemma pos_unique data a b r : pos data a r -> pos data b r -> a = b.
Proof. intros Ha Hb. pose proof (pos_zlen _ _ _ Ha). pose proof (pos_zlen _ _ _ Hb). lia. Qed.

Lemma shape_key p num v r : shape p num v r ->
  exists key r1, vspec p = Some (key, r1) /\ key / 8 = num.
Proof. intros H; destruct H; eauto. Qed.

(* every grammatical field ends at some later offset of the data *)
Lemma shape_next data off rest num v rest' : pos data off rest -> (zlen data <= max_int)%Z ->
  shape rest num v rest' -> exists off', pos data off' rest' /\ (off + 2 <= off')%Z.
Proof.
  intros Hp Hmax Hs. destruct (shape_key _ _ _ _ Hs) as (key & r1 & Hk & _).
  destruct (pos_varint _ _ _ _ _ Hp Hk) as (n0 & _ & Hn0 & Hp1 & _).
  destruct (skip_tag_shape _ _ _ _ _ _ _ _ Hmax Hk Hp1 Hs) as (n & _ & Hn & Hp').
  exists (off + n0 + n)%Z. split; [exact Hp'|lia].
Qed.

Ltac wt_eval Hw := unfold expect_wt; rewrite Hw; cbn [N.eqb Pos.eqb bind].

(* ---- KV.Unmarshal = spec_kv ---- *)

Lemma kv_field_sim data off rest num v rest' e :
  pos data off rest -> (zlen data <= max_int)%Z -> parse_field rest = Some ((num, v), rest') ->
  exists off', pos data off' rest' /\ (off < off')%Z /\
    kv_field data off e = (do e' <- spec_kv_step (num, v) e; Ok (off', e')).
Proof.
  intros Hp Hmax Hf. destruct (parse_field_shape _ _ _ _ Hf) as [Hs Hnum].
  destruct (shape_next _ _ _ _ _ _ Hp Hmax Hs) as (off' & Hp' & Hlt).
  exists off'. split; [exact Hp'|]. split; [lia|].
  destruct (shape_key _ _ _ _ Hs) as (key & r1 & Hk & Hkn).
  destruct (pos_varint _ _ _ _ _ Hp Hk) as (n0 & Hd0 & Hn0 & Hp1 & _).
  pose proof (pos_zlen _ _ _ Hp1) as Hz1.
  unfold kv_field, spec_kv_step. rewrite (pos_slice _ _ _ Hp). cbn [bind]. rewrite Hd0. cbn [bind]. rewrite Hkn.
  destruct (skip_tag_shape _ _ _ _ _ _ _ _ Hmax Hk Hp1 Hs) as (nsk & Hsk & _ & Hpsk).
  pose proof (pos_unique _ _ _ _ Hpsk Hp') as Hoff.
  destruct Hs as [key' r1' x r Hk' _ Hw Hv|key' r1' Hk' _ Hw Hl|key' r1' l r2 Hk' _ Hw Hv Hl|key' r1' Hk' _ Hw Hl];
    rewrite Hk in Hk'; inversion Hk'; subst key' r1'; clear Hk'.
  - (* varint value *)
    destruct (pos_varint _ _ _ _ _ Hp1 Hv) as (n & Hd & Hn & Hp2 & _).
    pose proof (pos_unique _ _ _ _ Hp2 Hp') as Ho2.
    destruct (num =? 1) eqn:N1; cbn [orb]; [wt_eval Hw; reflexivity|].
    destruct (num =? 2) eqn:N2; cbn [orb]; [wt_eval Hw; reflexivity|].
    destruct (num =? 4) eqn:N4.
    { replace (num =? 3) with false by lia. wt_eval Hw. rewrite (pos_slice _ _ _ Hp1). cbn [bind].
      rewrite Hd. cbn [bind]. rewrite Ho2. reflexivity. }
    destruct (num =? 3) eqn:N3; [wt_eval Hw; reflexivity|].
    rewrite (pos_slice _ _ _ Hp1). cbn [bind]. rewrite Hsk. cbn [bind]. rewrite Hoff. reflexivity.
  - (* fixed64 *)
    pose proof (pos_skip _ _ _ 8 Hp1 Hl) as Hp2. pose proof (pos_unique _ _ _ _ Hp2 Hp') as Ho2.
    destruct (num =? 1) eqn:N1; cbn [orb]; [wt_eval Hw; reflexivity|].
    destruct (num =? 2) eqn:N2; cbn [orb]; [wt_eval Hw; reflexivity|].
    destruct (num =? 4) eqn:N4; [replace (num =? 3) with false by lia; wt_eval Hw; reflexivity|].
    destruct (num =? 3) eqn:N3.
    { wt_eval Hw. replace (zlen data - (off + n0) <? 8)%Z with false by (unfold zlen in *; lia).
      change 8%Z with (Z.of_nat 8) at 1. rewrite (pos_take _ _ _ 8 Hp1 Hl). cbn [bind].
      change (Z.of_nat 8) with 8%Z in Ho2. rewrite Ho2. reflexivity. }
    rewrite (pos_slice _ _ _ Hp1). cbn [bind]. rewrite Hsk. cbn [bind]. rewrite Hoff. reflexivity.
  - (* length-delimited *)
    destruct (pos_varint _ _ _ _ _ Hp1 Hv) as (n & Hd & Hn & Hp2 & _).
    destruct (len_check_ok _ _ _ _ Hp2 Hmax Hl) as (Hc & Hi & Hle & Hnat).
    assert (Hle' : (N.to_nat l <= length r2)%nat) by lia.
    pose proof (pos_skip _ _ _ _ Hp2 Hle') as Hp3. pose proof (pos_unique _ _ _ _ Hp3 Hp') as Ho3.
    destruct ((num =? 1) || (num =? 2)) eqn:N12.
    { wt_eval Hw. rewrite (pos_slice _ _ _ Hp1). cbn [bind]. rewrite Hd. cbn [bind].
      rewrite Hc, Hi, Hnat. rewrite (pos_take _ _ _ _ Hp2 Hle'). cbn [bind]. rewrite Ho3.
      destruct (num =? 1) eqn:N1; [reflexivity|]. replace (num =? 2) with true by lia. reflexivity. }
    replace (num =? 1) with false by lia. replace (num =? 2) with false by lia.
    destruct (num =? 4) eqn:N4; [replace (num =? 3) with false by lia; wt_eval Hw; reflexivity|].
    destruct (num =? 3) eqn:N3; [wt_eval Hw; reflexivity|].
    rewrite (pos_slice _ _ _ Hp1). cbn [bind]. rewrite Hsk. cbn [bind]. rewrite Hoff. reflexivity.
  - (* fixed32 *)
    destruct (num =? 1) eqn:N1; cbn [orb]; [wt_eval Hw; reflexivity|].
    destruct (num =? 2) eqn:N2; cbn [orb]; [wt_eval Hw; reflexivity|].
    destruct (num =? 4) eqn:N4; [replace (num =? 3) with false by lia; wt_eval Hw; reflexivity|].
    destruct (num =? 3) eqn:N3; [wt_eval Hw; reflexivity|].
    rewrite (pos_slice _ _ _ Hp1). cbn [bind]. rewrite Hsk. cbn [bind]. rewrite Hoff. reflexivity.
Qed.

Lemma kv_loop_sim p : (zlen p <= max_int)%Z -> forall fs fuel off rest e,
  pos p off rest -> rest <> [] -> wire_parse rest = Some fs -> (length rest < fuel)%nat ->
  loop (kv_body p) fuel (off, e) = spec_kv_fold fs e.
Proof.
  intros Hmax. induction fs as [|[num v] fs IH]; intros fuel off rest e Hp Hne Hw Hf.
  - apply wire_parse_nil_inv in Hw. congruence.
  - destruct (wire_parse_inv _ _ _ Hw) as (r & Hpf & Hwr & _).
    destruct fuel as [|fuel]; [lia|]. cbn [loop spec_kv_fold]. unfold kv_body.
    destruct (kv_field_sim p off rest num v r e Hp Hmax Hpf) as (off' & Hp' & Hlt & ->).
    destruct (spec_kv_step (num, v) e) as [e'|err| |]; cbn [bind]; try reflexivity.
    destruct r as [|b r'].
    + rewrite (pos_end _ _ Hp'), Z.eqb_refl. rewrite wire_parse_nil in Hwr. inversion Hwr; subst. reflexivity.
    + pose proof (pos_not_end _ _ _ Hp' ltac:(discriminate)) as Hn.
      replace (off' =? zlen p)%Z with false by lia.
      apply (IH fuel off' (b :: r') e' Hp' ltac:(discriminate) Hwr).
      pose proof (parse_field_shorter _ _ _ Hpf). lia.
Qed.

Theorem kv_unmarshal_spec p : (zlen p <= max_int)%Z -> kv_ok p = true -> kv_unmarshal p = spec_kv p.
Proof.
  intros Hmax Hok. unfold kv_ok in Hok. destruct p as [|b p']; [discriminate|].
  unfold kv_unmarshal, spec_kv. destruct (wire_parse (b :: p')) as [fs|] eqn:Hw; [|discriminate].
  apply (kv_loop_sim (b :: p') Hmax fs (S (length (b :: p'))) 0%Z (b :: p') kv0); try assumption.
  - apply pos_start.
  - discriminate.
  - lia.
Qed.

(* ---- results that are a value or the error E ---- *)

Definition okE {A : Type} (r : res A) : Prop := (exists a, r = Ok a) \/ r = E.

Lemma okE_Ok {A : Type} (a : A) : okE (Ok a). Proof. left; eauto. Qed.
Lemma okE_E {A : Type} : okE (@E A). Proof. right; reflexivity. Qed.
Lemma okE_bind {A B : Type} (r : res A) (f : A -> res B) : okE r -> (forall a, okE (f a)) -> okE (bind r f).
Proof. intros [[a ->]| ->] Hf; cbn [bind]; [apply Hf|apply okE_E]. Qed.

Lemma bind_comm {A B C : Type} (r1 : res A) (r2 : res B) (k : A -> B -> res C) :
  okE r1 -> okE r2 ->
  (do a <- r1; do b <- r2; k a b) = (do b <- r2; do a <- r1; k a b).
Proof. intros [[a ->]| ->] [[b ->]| ->]; reflexivity. Qed.

Lemma safe_okE {A : Type} (P : A -> Prop) (r : res A) : safe P r -> okE r.
Proof. destruct r as [a|e| |]; cbn; intros H; try contradiction; [left; eauto|right; subst; reflexivity]. Qed.

Lemma spec_kv_step_okE f e : okE (spec_kv_step f e).
Proof.
  destruct f as [num v]. unfold spec_kv_step.
  destruct (num =? 1); [destruct v; first [apply okE_Ok|apply okE_E]|].
  destruct (num =? 2); [destruct v; first [apply okE_Ok|apply okE_E]|].
  destruct (num =? 3); [destruct v; first [apply okE_Ok|apply okE_E]|].
  destruct (num =? 4); [destruct v; first [apply okE_Ok|apply okE_E]|]. apply okE_Ok.
Qed.

Lemma spec_kv_fold_okE fs : forall e, okE (spec_kv_fold fs e).
Proof.
  induction fs as [|f fs IH]; intros e; cbn [spec_kv_fold]; [apply okE_Ok|].
  apply okE_bind; [apply spec_kv_step_okE|exact IH].
Qed.

Lemma spec_kv_okE p : okE (spec_kv p).
Proof. unfold spec_kv. destruct (wire_parse p); [apply spec_kv_fold_okE|apply okE_E]. Qed.

(* ---- DBI: the two passes of the hand-written decoder, on field lists ---- *)

(* what indexData keeps: name, flags, transform; entries are only checked for their wire type *)
Definition idx_step (f : field) (st : bytes * N * bytes) : res (bytes * N * bytes) :=
  let '(num, v) := f in
  let '(n, fl, t) := st in
  if num =? 1 then match v with WLen p => Ok (p, fl, t) | _ => E end
  else if num =? 2 then match v with WLen _ => Ok st | _ => E end
  else if num =? 3 then match v with WVar x => Ok (n, x, t) | _ => E end
  else if num =? 4 then match v with WLen p => Ok (n, fl, p) | _ => E end
  else Ok st.
Fixpoint idx_fold (fs : list field) (st : bytes * N * bytes) : res (bytes * N * bytes) :=
  match fs with
  | [] => Ok st
  | f :: r => do st' <- idx_step f st; idx_fold r st'
  end.

(* what the iteration with Next produces *)
Definition ent_step (f : field) (acc : list kv) : res (list kv) :=
  let '(num, v) := f in
  if num =? 2 then match v with WLen p => do e <- spec_kv p; Ok (acc ++ [e]) | _ => E end
  else Ok acc.
Fixpoint ent_fold (fs : list field) (acc : list kv) : res (list kv) :=
  match fs with
  | [] => Ok acc
  | f :: r => do acc' <- ent_step f acc; ent_fold r acc'
  end.

Lemma idx_step_okE f st : okE (idx_step f st).
Proof.
  destruct f as [num v]. destruct st as [[n fl] t]. unfold idx_step.
  destruct (num =? 1); [destruct v; first [apply okE_Ok|apply okE_E]|].
  destruct (num =? 2); [destruct v; first [apply okE_Ok|apply okE_E]|].
  destruct (num =? 3); [destruct v; first [apply okE_Ok|apply okE_E]|].
  destruct (num =? 4); [destruct v; first [apply okE_Ok|apply okE_E]|]. apply okE_Ok.
Qed.
Lemma idx_fold_okE fs : forall st, okE (idx_fold fs st).
Proof.
  induction fs as [|f fs IH]; intros st; cbn [idx_fold]; [apply okE_Ok|].
  apply okE_bind; [apply idx_step_okE|exact IH].
Qed.
Lemma ent_step_okE f acc : okE (ent_step f acc).
Proof.
  destruct f as [num v]. unfold ent_step. destruct (num =? 2); [|apply okE_Ok].
  destruct v; try apply okE_E. apply okE_bind; [apply spec_kv_okE|intros; apply okE_Ok].
Qed.
Lemma ent_fold_okE fs : forall acc, okE (ent_fold fs acc).
Proof.
  induction fs as [|f fs IH]; intros acc; cbn [ent_fold]; [apply okE_Ok|].
  apply okE_bind; [apply ent_step_okE|exact IH].
Qed.

(* the schema's DBI = the index pass and the entries pass together *)
Lemma spec_dbi_two_pass fs : forall n fl t es,
  spec_dbi_fold fs (mkDbi n fl t es) =
  (do st <- idx_fold fs (n, fl, t); do es' <- ent_fold fs es;
   Ok (mkDbi (fst (fst st)) (snd (fst st)) (snd st) es')).
Proof.
  induction fs as [|[num v] fs IH]; intros n fl t es; [reflexivity|].
  cbn [spec_dbi_fold idx_fold ent_fold]. unfold spec_dbi_step, idx_step, ent_step.
  cbn [db_name db_flags db_transform db_entries].
  destruct (num =? 1) eqn:N1.
  { replace (num =? 2) with false by lia. destruct v; cbn [bind]; try reflexivity. apply IH. }
  destruct (num =? 2) eqn:N2.
  { destruct v; cbn [bind]; try reflexivity.
    destruct (spec_kv_okE p) as [[e He]|He]; rewrite He; cbn [bind]; [apply IH|].
    destruct (idx_fold_okE fs (n, fl, t)) as [[st ->]| ->]; reflexivity. }
  destruct (num =? 3) eqn:N3; [destruct v; cbn [bind]; try reflexivity; apply IH|].
  destruct (num =? 4) eqn:N4; [destruct v; cbn [bind]; try reflexivity; apply IH|].
  cbn [bind]. apply IH.
Qed.

(* ---- DBI.indexData = the index pass ---- *)

Definition idx_of (off : Z) (t : bytes * N * bytes) : idx := mkIdx off (fst (fst t)) (snd (fst t)) (snd t).
Definition idx_triple (st : idx) : bytes * N * bytes := (i_name st, i_flags st, i_transform st).

Lemma index_body_sim data st rest num v rest' :
  pos data (i_off st) rest -> (zlen data <= max_int)%Z -> parse_field rest = Some ((num, v), rest') ->
  exists off', pos data off' rest' /\ (i_off st < off')%Z /\
    index_body data st = (do t <- idx_step (num, v) (idx_triple st); Ok (inl (idx_of off' t))).
Proof.
  intros Hp Hmax Hf. destruct (parse_field_shape _ _ _ _ Hf) as [Hs Hnum].
  destruct (shape_next _ _ _ _ _ _ Hp Hmax Hs) as (off' & Hp' & Hlt).
  exists off'. split; [exact Hp'|]. split; [lia|].
  destruct (shape_key _ _ _ _ Hs) as (key & r1 & Hk & Hkn).
  destruct (pos_varint _ _ _ _ _ Hp Hk) as (n0 & Hd0 & Hn0 & Hp1 & _).
  pose proof (pos_zlen _ _ _ Hp1) as Hz1.
  assert (Hne : rest <> []) by (intros ->; discriminate).
  pose proof (pos_not_end _ _ _ Hp Hne) as Hend.
  unfold index_body, idx_step, idx_triple, idx_of. destruct st as [off nm fl tr]. cbn [i_off i_name i_flags i_transform] in *.
  replace (zlen data <=? off)%Z with false by lia.
  rewrite (pos_slice _ _ _ Hp). cbn [bind]. rewrite Hd0. cbn [bind]. rewrite Hkn.
  destruct (skip_tag_shape _ _ _ _ _ _ _ _ Hmax Hk Hp1 Hs) as (nsk & Hsk & _ & Hpsk).
  pose proof (pos_unique _ _ _ _ Hpsk Hp') as Hoff.
  destruct Hs as [key' r1' x r Hk' _ Hw Hv|key' r1' Hk' _ Hw Hl|key' r1' l r2 Hk' _ Hw Hv Hl|key' r1' Hk' _ Hw Hl];
    rewrite Hk in Hk'; inversion Hk'; subst key' r1'; clear Hk'.
  - (* varint value *)
    destruct (pos_varint _ _ _ _ _ Hp1 Hv) as (n & Hd & Hn & Hp2 & _).
    pose proof (pos_unique _ _ _ _ Hp2 Hp') as Ho2.
    destruct (num =? 1) eqn:N1.
    { replace (num =? 2) with false by lia. cbn [orb]. wt_eval Hw. reflexivity. }
    destruct (num =? 2) eqn:N2; cbn [orb]; [wt_eval Hw; reflexivity|].
    destruct (num =? 4) eqn:N4.
    { replace (num =? 3) with false by lia. cbn [orb]. wt_eval Hw. reflexivity. }
    cbn [orb]. destruct (num =? 3) eqn:N3.
    { wt_eval Hw. rewrite (pos_slice _ _ _ Hp1). cbn [bind]. rewrite Hd. cbn [bind fst snd]. rewrite Ho2. reflexivity. }
    rewrite (pos_slice _ _ _ Hp1). cbn [bind]. rewrite Hsk. cbn [bind fst snd]. rewrite Hoff. reflexivity.
  - (* fixed64 *)
    destruct (num =? 1) eqn:N1.
    { replace (num =? 2) with false by lia. cbn [orb]. wt_eval Hw. reflexivity. }
    destruct (num =? 2) eqn:N2; cbn [orb]; [wt_eval Hw; reflexivity|].
    destruct (num =? 4) eqn:N4.
    { replace (num =? 3) with false by lia. cbn [orb]. wt_eval Hw. reflexivity. }
    cbn [orb]. destruct (num =? 3) eqn:N3; [wt_eval Hw; reflexivity|].
    rewrite (pos_slice _ _ _ Hp1). cbn [bind]. rewrite Hsk. cbn [bind fst snd]. rewrite Hoff. reflexivity.
  - (* length-delimited *)
    destruct (pos_varint _ _ _ _ _ Hp1 Hv) as (n & Hd & Hn & Hp2 & _).
    destruct (len_check_ok _ _ _ _ Hp2 Hmax Hl) as (Hc & Hi & Hle & Hnat).
    assert (Hle' : (N.to_nat l <= length r2)%nat) by lia.
    pose proof (pos_skip _ _ _ _ Hp2 Hle') as Hp3. pose proof (pos_unique _ _ _ _ Hp3 Hp') as Ho3.
    destruct ((num =? 2) || (num =? 1) || (num =? 4)) eqn:N124.
    { wt_eval Hw. rewrite (pos_slice _ _ _ Hp1). cbn [bind]. rewrite Hd. cbn [bind].
      rewrite Hc, Hi, Hnat. rewrite (pos_take _ _ _ _ Hp2 Hle'). cbn [bind]. rewrite Ho3.
      destruct (num =? 1) eqn:N1; [reflexivity|].
      destruct (num =? 2) eqn:N2; [replace (num =? 4) with false by lia; reflexivity|].
      replace (num =? 4) with true by lia. replace (num =? 3) with false by lia. reflexivity. }
    replace (num =? 1) with false by lia. replace (num =? 2) with false by lia. replace (num =? 4) with false by lia.
    destruct (num =? 3) eqn:N3; [wt_eval Hw; reflexivity|].
    rewrite (pos_slice _ _ _ Hp1). cbn [bind]. rewrite Hsk. cbn [bind fst snd]. rewrite Hoff. reflexivity.
  - (* fixed32 *)
    destruct (num =? 1) eqn:N1.
    { replace (num =? 2) with false by lia. cbn [orb]. wt_eval Hw. reflexivity. }
    destruct (num =? 2) eqn:N2; cbn [orb]; [wt_eval Hw; reflexivity|].
    destruct (num =? 4) eqn:N4.
    { replace (num =? 3) with false by lia. cbn [orb]. wt_eval Hw. reflexivity. }
    cbn [orb]. destruct (num =? 3) eqn:N3; [wt_eval Hw; reflexivity|].
    rewrite (pos_slice _ _ _ Hp1). cbn [bind]. rewrite Hsk. cbn [bind fst snd]. rewrite Hoff. reflexivity.
Qed.

Lemma index_loop_sim p : (zlen p <= max_int)%Z -> forall fs fuel st rest,
  pos p (i_off st) rest -> wire_parse rest = Some fs -> (length rest < fuel)%nat ->
  loop (index_body p) fuel st = (do t <- idx_fold fs (idx_triple st); Ok (idx_of (zlen p) t)).
Proof.
  intros Hmax. induction fs as [|[num v] fs IH]; intros fuel st rest Hp Hw Hf.
  - apply wire_parse_nil_inv in Hw. subst rest. destruct fuel as [|fuel]; [lia|].
    cbn [loop idx_fold bind]. unfold index_body. rewrite (pos_end _ _ Hp), Z.leb_refl.
    destruct st as [off nm fl tr]. cbn [i_off] in *. unfold idx_of, idx_triple. cbn [fst snd i_name i_flags i_transform].
    rewrite (pos_end _ _ Hp). reflexivity.
  - destruct (wire_parse_inv _ _ _ Hw) as (r & Hpf & Hwr & _).
    destruct fuel as [|fuel]; [lia|]. cbn [loop idx_fold].
    destruct (index_body_sim p st rest num v r Hp Hmax Hpf) as (off' & Hp' & Hlt & ->).
    destruct (idx_step (num, v) (idx_triple st)) as [t|err| |]; cbn [bind]; try reflexivity.
    rewrite (IH fuel (idx_of off' t) r); try assumption.
    + destruct t as [[a b] c]. reflexivity.
    + pose proof (parse_field_shorter _ _ _ Hpf). lia.
Qed.

Definition idx0 : bytes * N * bytes := ([], 0, []).

Theorem new_dbi_from_data_spec p fs : (zlen p <= max_int)%Z -> wire_parse p = Some fs ->
  new_dbi_from_data p = (do t <- idx_fold fs idx0; Ok (mkObj (fst (fst t)) (snd (fst t)) (snd t) p 0)).
Proof.
  intros Hmax Hw. unfold new_dbi_from_data, index_data.
  rewrite (index_loop_sim p Hmax fs (S (length p)) (mkIdx 0 [] 0 []) p (pos_start p) Hw ltac:(lia)).
  change (idx_triple (mkIdx 0 [] 0 [])) with idx0.
  destruct (idx_fold fs idx0) as [t|err| |]; reflexivity.
Qed.
