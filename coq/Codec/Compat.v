(* Codec/Compat.v — C07 forward compatibility: on every message of the wire grammar that satisfies
   [schema_ok] (Codec/Wire.v: grammatical at the nested levels, minus the listed exclusions), the
   hand-written decoder (offsets, hand-rolled loops, csproto Decoder) returns exactly what the schema
   specification returns — fields in any order, repeated scalars, merged embedded Meta, unknown fields of
   wire types 0/1/2/5 with any field number at every level, non-minimal varints, wrong wire types
   (both report an error). *)
From LS Require Import Base.Bytes Base.BytesProofs Base.Res Codec.Varint Codec.Loop Merge.Model Codec.Wire
  Codec.Custom Codec.VarintProofs Codec.Util Codec.Hostile.
From Coq Require Import ZifyN ZifyNat ZifyBool.
Open Scope N_scope.
Ltac Zify.zify_post_hook ::= Z.div_mod_to_equations.

(* ---- the shape of one grammatical field ---- *)

Inductive shape (p : bytes) (num : N) : wval -> bytes -> Prop :=
| ShVar key r1 v r :
    vspec p = Some (key, r1) -> key / 8 = num -> key mod 8 = 0 -> vspec r1 = Some (v, r) ->
    shape p num (WVar v) r
| ShF64 key r1 :
    vspec p = Some (key, r1) -> key / 8 = num -> key mod 8 = 1 -> (8 <= length r1)%nat ->
    shape p num (WF64 (of_le (firstn 8 r1))) (skipn 8 r1)
| ShLen key r1 l r2 :
    vspec p = Some (key, r1) -> key / 8 = num -> key mod 8 = 2 -> vspec r1 = Some (l, r2) -> l <= lenN r2 ->
    shape p num (WLen (firstn (N.to_nat l) r2)) (skipn (N.to_nat l) r2)
| ShF32 key r1 :
    vspec p = Some (key, r1) -> key / 8 = num -> key mod 8 = 5 -> (4 <= length r1)%nat ->
    shape p num (WF32 (of_le (firstn 4 r1))) (skipn 4 r1).

Lemma parse_field_shape p num v r : parse_field p = Some ((num, v), r) ->
  shape p num v r /\ 1 <= num <= MaxFieldNumber.
Proof.
  unfold parse_field. destruct (vspec p) as [[key r1]|] eqn:Hk; [|discriminate].
  destruct ((key / 8 =? 0) || (MaxFieldNumber <? key / 8)) eqn:Hn; [discriminate|].
  assert (Hnum : 1 <= key / 8 <= MaxFieldNumber) by lia.
  destruct (key mod 8 =? 0) eqn:W0.
  { destruct (vspec r1) as [[x r']|] eqn:Hv; [|discriminate]. intros H; inversion H; subst.
    split; [eapply ShVar; eauto; lia|exact Hnum]. }
  destruct (key mod 8 =? 1) eqn:W1.
  { destruct (Nat.ltb (length r1) 8) eqn:Hl; [discriminate|]. apply Nat.ltb_ge in Hl.
    intros H; inversion H; subst. split; [eapply ShF64; eauto; lia|exact Hnum]. }
  destruct (key mod 8 =? 2) eqn:W2.
  { destruct (vspec r1) as [[l r2]|] eqn:Hv; [|discriminate].
    destruct (lenN r2 <? l) eqn:Hl; [discriminate|].
    intros H; inversion H; subst. split; [eapply ShLen; eauto; lia|exact Hnum]. }
  destruct (key mod 8 =? 5) eqn:W5; [|discriminate].
  destruct (Nat.ltb (length r1) 4) eqn:Hl; [discriminate|]. apply Nat.ltb_ge in Hl.
  intros H; inversion H; subst. split; [eapply ShF32; eauto; lia|exact Hnum].
Qed.

(* a field consumes at least two bytes... at least one: the remaining input gets shorter *)
Lemma shape_shorter p num v r : shape p num v r -> (length r < length p)%nat.
Proof.
  intros H; destruct H as [key r1 x r Hk _ _ Hv|key r1 Hk _ _ Hl|key r1 l r2 Hk _ _ Hv Hl|key r1 Hk _ _ Hl];
    destruct (vspec_split _ _ _ Hk) as (_ & c & -> & Hc); rewrite app_length.
  - destruct (vspec_split _ _ _ Hv) as (_ & c2 & -> & Hc2). rewrite app_length. lia.
  - rewrite skipn_length. lia.
  - destruct (vspec_split _ _ _ Hv) as (_ & c2 & -> & Hc2). rewrite app_length, skipn_length. lia.
  - rewrite skipn_length. lia.
Qed.

Lemma parse_field_shorter p f r : parse_field p = Some (f, r) -> (length r < length p)%nat.
Proof. destruct f as [num v]. intros H. apply parse_field_shape in H. eapply shape_shorter, H. Qed.

(* wire_parse does not depend on its fuel once it covers the input *)
Lemma wire_parse_f_enough_aux : forall n f p, (f <= n)%nat -> (length p <= f)%nat ->
  wire_parse_f f p = wire_parse_f (length p) p.
Proof.
  induction n as [|n IH]; intros f p Hf Hl.
  - destruct p; [destruct f; reflexivity|cbn [length] in Hl; lia].
  - destruct p as [|b p']; [destruct f; reflexivity|].
    destruct f as [|f]; [cbn [length] in Hl; lia|].
    cbn [wire_parse_f length].
    destruct (parse_field (b :: p')) as [[fl r]|] eqn:Hp; [|reflexivity].
    pose proof (parse_field_shorter _ _ _ Hp) as Hs. cbn [length] in Hs, Hl.
    rewrite (IH f r) by lia. rewrite (IH (length p') r) by lia. reflexivity.
Qed.

Lemma wire_parse_f_enough f p : (length p <= f)%nat -> wire_parse_f f p = wire_parse_f (length p) p.
Proof. apply (wire_parse_f_enough_aux f f p); lia. Qed.

Lemma wire_parse_nil : wire_parse [] = Some [].
Proof. reflexivity. Qed.

Lemma wire_parse_cons p : p <> [] ->
  wire_parse p = match parse_field p with
                 | Some (fl, r) => match wire_parse r with Some l => Some (fl :: l) | None => None end
                 | None => None
                 end.
Proof.
  intros Hne. unfold wire_parse. destruct p as [|b p']; [congruence|].
  cbn [wire_parse_f length].
  destruct (parse_field (b :: p')) as [[fl r]|] eqn:Hp; [|reflexivity].
  pose proof (parse_field_shorter _ _ _ Hp) as Hs. cbn [length] in Hs.
  rewrite (wire_parse_f_enough (length p') r) by lia. reflexivity.
Qed.

Lemma wire_parse_inv p f fs : wire_parse p = Some (f :: fs) ->
  exists r, parse_field p = Some (f, r) /\ wire_parse r = Some fs /\ p <> [].
Proof.
  intros H. destruct p as [|b p']; [discriminate|].
  rewrite wire_parse_cons in H by discriminate.
  destruct (parse_field (b :: p')) as [[fl r]|]; [|discriminate].
  destruct (wire_parse r) as [l|] eqn:Hr; [|discriminate]. inversion H; subst.
  exists r. split; [reflexivity|]. split; [exact Hr|discriminate].
Qed.

Lemma wire_parse_nil_inv p : wire_parse p = Some [] -> p = [].
Proof.
  intros H. destruct p as [|b p']; [reflexivity|].
  rewrite wire_parse_cons in H by discriminate.
  destruct (parse_field (b :: p')) as [[fl r]|]; [|discriminate].
  destruct (wire_parse r); discriminate.
Qed.

(* ---- positions: the hand-written code is at offset [off] of [data], the grammar at [rest] ---- *)

Definition pos (data : bytes) (off : Z) (rest : bytes) : Prop :=
  (0 <= off <= zlen data)%Z /\ skipn (Z.to_nat off) data = rest.

Lemma pos_start data : pos data 0 data.
Proof. split; [pose proof (zlen_nonneg data); lia|reflexivity]. Qed.

Lemma pos_slice data off rest : pos data off rest -> slice_from data off = Ok rest.
Proof. intros [H <-]. apply slice_from_ok, H. Qed.

Lemma pos_zlen data off rest : pos data off rest -> zlen rest = (zlen data - off)%Z.
Proof. intros [H <-]. apply zlen_skipn, H. Qed.

Lemma pos_app data off c r : pos data off (c ++ r) -> pos data (off + zlen c) r.
Proof.
  intros [H E]. pose proof (zlen_skipn data off H) as Hl. rewrite E, zlen_app in Hl.
  pose proof (zlen_nonneg c). pose proof (zlen_nonneg r).
  split; [lia|].
  replace (Z.to_nat (off + zlen c)) with (length c + Z.to_nat off)%nat by (unfold zlen; lia).
  rewrite <- skipn_skipn, E, skipn_app, skipn_all, Nat.sub_diag. reflexivity.
Qed.

Lemma pos_skip data off rest k : pos data off rest -> (k <= length rest)%nat ->
  pos data (off + Z.of_nat k) (skipn k rest).
Proof.
  intros Hp Hk. rewrite <- (firstn_skipn k rest) in Hp. apply pos_app in Hp.
  unfold zlen in Hp. rewrite firstn_length, Nat.min_l in Hp by exact Hk. exact Hp.
Qed.

Lemma pos_take data off rest k : pos data off rest -> (k <= length rest)%nat ->
  slice3 data off (off + Z.of_nat k) = Ok (firstn k rest).
Proof.
  intros [H E] Hk. pose proof (zlen_skipn data off H) as Hl. rewrite E in Hl. unfold zlen in Hl.
  rewrite slice3_ok by (unfold zlen; lia).
  replace (Z.to_nat (off + Z.of_nat k - off)) with k by lia. rewrite E. reflexivity.
Qed.

Lemma pos_end data off : pos data off [] -> off = zlen data.
Proof. intros H. pose proof (pos_zlen _ _ _ H) as Hl. unfold zlen in *. cbn [length] in Hl. lia. Qed.

Lemma pos_not_end data off rest : pos data off rest -> rest <> [] -> (off < zlen data)%Z.
Proof.
  intros H Hne. pose proof (pos_zlen _ _ _ H) as Hl. destruct rest; [congruence|].
  unfold zlen in *. cbn [length] in Hl. lia.
Qed.

Lemma pos_varint data off rest v r1 : pos data off rest -> vspec rest = Some (v, r1) ->
  exists n, decode_varint rest = Ok (v, n) /\ (1 <= n <= 10)%Z /\ pos data (off + n) r1 /\ v < two64.
Proof.
  intros Hp Hv. destruct (vspec_split _ _ _ Hv) as (Hr & c & -> & Hc).
  exists (zlen c). rewrite decode_varint_spec, Hv.
  split; [f_equal; f_equal; rewrite app_length; unfold zlen; lia|].
  split; [unfold zlen; lia|]. split; [apply pos_app, Hp|exact Hr].
Qed.

(* the length check of the hand-written loops accepts exactly what the grammar accepts *)
Lemma len_check_ok data off r2 l : pos data off r2 -> (zlen data <= max_int)%Z -> l <= lenN r2 ->
  (u64_of_int (zlen data - off) <? l) = false /\ int_of_u64 l = Z.of_N l /\
  (Z.to_nat (Z.of_N l) <= length r2)%nat /\ Z.of_N l = Z.of_nat (N.to_nat l).
Proof.
  intros Hp Hmax Hl. pose proof (pos_zlen _ _ _ Hp) as Hz. destruct Hp as [Ho _].
  unfold lenN, zlen in *. rewrite u64_of_int_nonneg by lia.
  rewrite int_of_u64_small by (unfold two63, max_int in *; lia). repeat split; lia.
Qed.

(* skipTag on a grammatical value consumes exactly that value *)
Lemma skip_tag_shape data off rest key r1 num v r :
  (zlen data <= max_int)%Z -> vspec rest = Some (key, r1) -> pos data off r1 ->
  shape rest num v r -> exists n, skip_tag r1 (key mod 8) = Ok n /\ (1 <= n)%Z /\ pos data (off + n) r.
Proof.
  intros Hmax Hk Hp Hs. pose proof (pos_zlen _ _ _ Hp) as Hz. pose proof (proj1 Hp) as Ho.
  unfold skip_tag.
  destruct Hs as [key' r1' x r Hk' _ Hw Hv|key' r1' Hk' _ Hw Hl|key' r1' l r2 Hk' _ Hw Hv Hl|key' r1' Hk' _ Hw Hl];
    rewrite Hk in Hk'; inversion Hk'; subst key' r1'; rewrite Hw.
  - cbn [N.eqb Pos.eqb]. destruct (pos_varint _ _ _ _ _ Hp Hv) as (n & Hd & Hn & Hp' & _).
    rewrite Hd. cbn [bind].
    pose proof (pos_zlen _ _ _ Hp') as Hz'. pose proof (zlen_nonneg r).
    replace (zlen r1 <? n)%Z with false by lia. exists n. split; [reflexivity|]. split; [lia|exact Hp'].
  - change (1 =? 0) with false. change (1 =? 2) with false. change (1 =? 5) with false. change (1 =? 1) with true.
    cbn [bind]. replace (zlen r1 <? 8)%Z with false by (unfold zlen; lia).
    exists 8%Z. split; [reflexivity|]. split; [lia|]. apply (pos_skip _ _ _ 8 Hp Hl).
  - change (2 =? 0) with false. change (2 =? 2) with true.
    destruct (pos_varint _ _ _ _ _ Hp Hv) as (n & Hd & Hn & Hp' & _).
    rewrite Hd. cbn [bind].
    pose proof (pos_zlen _ _ _ Hp') as Hz'.
    destruct (len_check_ok _ _ _ _ Hp' Hmax Hl) as (Hc & Hi & Hle & Hnat).
    replace (zlen r1 - n)%Z with (zlen data - (off + n))%Z by lia. rewrite Hc, Hi. cbn [bind].
    replace (zlen r1 <? Z.of_N l + n)%Z with false by (unfold zlen in *; lia).
    exists (Z.of_N l + n)%Z. split; [reflexivity|]. split; [lia|].
    replace (off + (Z.of_N l + n))%Z with (off + n + Z.of_nat (N.to_nat l))%Z by lia.
    apply pos_skip; [exact Hp'|lia].
  - change (5 =? 0) with false. change (5 =? 2) with false. change (5 =? 5) with true.
    cbn [bind]. replace (zlen r1 <? 4)%Z with false by (unfold zlen; lia).
    exists 4%Z. split; [reflexivity|]. split; [lia|]. apply (pos_skip _ _ _ 4 Hp Hl).
Qed.

Lemma pos_unique data a b r : pos data a r -> pos data b r -> a = b.
Proof. intros Ha Hb. pose proof (pos_zlen _ _ _ Ha). pose proof (pos_zlen _ _ _ Hb). lia. Qed.

Lemma shape_key p num v r : shape p num v r ->
  exists key r1, vspec p = Some (key, r1) /\ key / 8 = num.
Proof. intros H; destruct H; eauto. Qed.

(* every grammatical field ends at some later offset of the data *)
Lemma shape_next data off rest num v rest' : pos data off rest -> (zlen data <= max_int)%Z ->
  shape rest num v rest' -> exists off', pos data off' rest' /\ (off + 2 <= off')%Z.
Proof.
  intros Hp Hmax Hs. destruct (shape_key _ _ _ _ Hs) as (key & r1 & Hk & _).
  destruct (pos_varint _ _ _ _ _ Hp Hk) as (n0 & _ & Hn0 & Hp1 & _).
  destruct (skip_tag_shape _ _ _ _ _ _ _ _ Hmax Hk Hp1 Hs) as (n & _ & Hn & Hp').
  exists (off + n0 + n)%Z. split; [exact Hp'|lia].
Qed.

Ltac wt_eval Hw := unfold expect_wt; rewrite Hw; cbn [N.eqb Pos.eqb bind].

(* ---- KV.Unmarshal = spec_kv ---- *)

Lemma kv_field_sim data off rest num v rest' e :
  pos data off rest -> (zlen data <= max_int)%Z -> parse_field rest = Some ((num, v), rest') ->
  exists off', pos data off' rest' /\ (off < off')%Z /\
    kv_field data off e = (do e' <- spec_kv_step (num, v) e; Ok (off', e')).
Proof.
  intros Hp Hmax Hf. destruct (parse_field_shape _ _ _ _ Hf) as [Hs Hnum].
  destruct (shape_next _ _ _ _ _ _ Hp Hmax Hs) as (off' & Hp' & Hlt).
  exists off'. split; [exact Hp'|]. split; [lia|].
  destruct (shape_key _ _ _ _ Hs) as (key & r1 & Hk & Hkn).
  destruct (pos_varint _ _ _ _ _ Hp Hk) as (n0 & Hd0 & Hn0 & Hp1 & _).
  pose proof (pos_zlen _ _ _ Hp1) as Hz1.
  unfold kv_field, spec_kv_step. rewrite (pos_slice _ _ _ Hp). cbn [bind]. rewrite Hd0. cbn [bind]. rewrite Hkn.
  destruct (skip_tag_shape _ _ _ _ _ _ _ _ Hmax Hk Hp1 Hs) as (nsk & Hsk & _ & Hpsk).
  pose proof (pos_unique _ _ _ _ Hpsk Hp') as Hoff.
  destruct Hs as [key' r1' x r Hk' _ Hw Hv|key' r1' Hk' _ Hw Hl|key' r1' l r2 Hk' _ Hw Hv Hl|key' r1' Hk' _ Hw Hl];
    rewrite Hk in Hk'; inversion Hk'; subst key' r1'; clear Hk'.
  - (* varint value *)
    destruct (pos_varint _ _ _ _ _ Hp1 Hv) as (n & Hd & Hn & Hp2 & _).
    pose proof (pos_unique _ _ _ _ Hp2 Hp') as Ho2.
    destruct (num =? 1) eqn:N1; cbn [orb]; [wt_eval Hw; reflexivity|].
    destruct (num =? 2) eqn:N2; cbn [orb]; [wt_eval Hw; reflexivity|].
    destruct (num =? 4) eqn:N4.
    { replace (num =? 3) with false by lia. wt_eval Hw. rewrite (pos_slice _ _ _ Hp1). cbn [bind].
      rewrite Hd. cbn [bind]. rewrite Ho2. reflexivity. }
    destruct (num =? 3) eqn:N3; [wt_eval Hw; reflexivity|].
    rewrite (pos_slice _ _ _ Hp1). cbn [bind]. rewrite Hsk. cbn [bind]. rewrite Hoff. reflexivity.
  - (* fixed64 *)
    pose proof (pos_skip _ _ _ 8 Hp1 Hl) as Hp2. pose proof (pos_unique _ _ _ _ Hp2 Hp') as Ho2.
    destruct (num =? 1) eqn:N1; cbn [orb]; [wt_eval Hw; reflexivity|].
    destruct (num =? 2) eqn:N2; cbn [orb]; [wt_eval Hw; reflexivity|].
    destruct (num =? 4) eqn:N4; [replace (num =? 3) with false by lia; wt_eval Hw; reflexivity|].
    destruct (num =? 3) eqn:N3.
    { wt_eval Hw. replace (zlen data - (off + n0) <? 8)%Z with false by (unfold zlen in *; lia).
      change 8%Z with (Z.of_nat 8) at 1. rewrite (pos_take _ _ _ 8 Hp1 Hl). cbn [bind].
      change (Z.of_nat 8) with 8%Z in Ho2. rewrite Ho2. reflexivity. }
    rewrite (pos_slice _ _ _ Hp1). cbn [bind]. rewrite Hsk. cbn [bind]. rewrite Hoff. reflexivity.
  - (* length-delimited *)
    destruct (pos_varint _ _ _ _ _ Hp1 Hv) as (n & Hd & Hn & Hp2 & _).
    destruct (len_check_ok _ _ _ _ Hp2 Hmax Hl) as (Hc & Hi & Hle & Hnat).
    assert (Hle' : (N.to_nat l <= length r2)%nat) by lia.
    pose proof (pos_skip _ _ _ _ Hp2 Hle') as Hp3. pose proof (pos_unique _ _ _ _ Hp3 Hp') as Ho3.
    destruct ((num =? 1) || (num =? 2)) eqn:N12.
    { wt_eval Hw. rewrite (pos_slice _ _ _ Hp1). cbn [bind]. rewrite Hd. cbn [bind].
      rewrite Hc, Hi, Hnat. rewrite (pos_take _ _ _ _ Hp2 Hle'). cbn [bind]. rewrite Ho3.
      destruct (num =? 1) eqn:N1; [reflexivity|]. replace (num =? 2) with true by lia. reflexivity. }
    replace (num =? 1) with false by lia. replace (num =? 2) with false by lia.
    destruct (num =? 4) eqn:N4; [replace (num =? 3) with false by lia; wt_eval Hw; reflexivity|].
    destruct (num =? 3) eqn:N3; [wt_eval Hw; reflexivity|].
    rewrite (pos_slice _ _ _ Hp1). cbn [bind]. rewrite Hsk. cbn [bind]. rewrite Hoff. reflexivity.
  - (* fixed32 *)
    destruct (num =? 1) eqn:N1; cbn [orb]; [wt_eval Hw; reflexivity|].
    destruct (num =? 2) eqn:N2; cbn [orb]; [wt_eval Hw; reflexivity|].
    destruct (num =? 4) eqn:N4; [replace (num =? 3) with false by lia; wt_eval Hw; reflexivity|].
    destruct (num =? 3) eqn:N3; [wt_eval Hw; reflexivity|].
    rewrite (pos_slice _ _ _ Hp1). cbn [bind]. rewrite Hsk. cbn [bind]. rewrite Hoff. reflexivity.
Qed.

Lemma kv_loop_sim p : (zlen p <= max_int)%Z -> forall fs fuel off rest e,
  pos p off rest -> rest <> [] -> wire_parse rest = Some fs -> (length rest < fuel)%nat ->
  loop (kv_body p) fuel (off, e) = spec_kv_fold fs e.
Proof.
  intros Hmax. induction fs as [|[num v] fs IH]; intros fuel off rest e Hp Hne Hw Hf.
  - apply wire_parse_nil_inv in Hw. congruence.
  - destruct (wire_parse_inv _ _ _ Hw) as (r & Hpf & Hwr & _).
    destruct fuel as [|fuel]; [lia|]. cbn [loop spec_kv_fold]. unfold kv_body.
    destruct (kv_field_sim p off rest num v r e Hp Hmax Hpf) as (off' & Hp' & Hlt & ->).
    destruct (spec_kv_step (num, v) e) as [e'|err| |]; cbn [bind]; try reflexivity.
    destruct r as [|b r'].
    + rewrite (pos_end _ _ Hp'), Z.eqb_refl. rewrite wire_parse_nil in Hwr. inversion Hwr; subst. reflexivity.
    + pose proof (pos_not_end _ _ _ Hp' ltac:(discriminate)) as Hn.
      replace (off' =? zlen p)%Z with false by lia.
      apply (IH fuel off' (b :: r') e' Hp' ltac:(discriminate) Hwr).
      pose proof (parse_field_shorter _ _ _ Hpf). lia.
Qed.

Theorem kv_unmarshal_spec p : (zlen p <= max_int)%Z -> kv_ok p = true -> kv_unmarshal p = spec_kv p.
Proof.
  intros Hmax Hok. unfold kv_ok in Hok. destruct p as [|b p']; [discriminate|].
  unfold kv_unmarshal, spec_kv. destruct (wire_parse (b :: p')) as [fs|] eqn:Hw; [|discriminate].
  apply (kv_loop_sim (b :: p') Hmax fs (S (length (b :: p'))) 0%Z (b :: p') kv0); try assumption.
  - apply pos_start.
  - discriminate.
  - lia.
Qed.

(* ---- results that are a value or the error E ---- *)

Definition okE {A : Type} (r : res A) : Prop := (exists a, r = Ok a) \/ r = E.

Lemma okE_Ok {A : Type} (a : A) : okE (Ok a). Proof. left; eauto. Qed.
Lemma okE_E {A : Type} : okE (@E A). Proof. right; reflexivity. Qed.
Lemma okE_bind {A B : Type} (r : res A) (f : A -> res B) : okE r -> (forall a, okE (f a)) -> okE (bind r f).
Proof. intros [[a ->]| ->] Hf; cbn [bind]; [apply Hf|apply okE_E]. Qed.

Lemma bind_comm {A B C : Type} (r1 : res A) (r2 : res B) (k : A -> B -> res C) :
  okE r1 -> okE r2 ->
  (do a <- r1; do b <- r2; k a b) = (do b <- r2; do a <- r1; k a b).
Proof. intros [[a ->]| ->] [[b ->]| ->]; reflexivity. Qed.

Lemma safe_okE {A : Type} (P : A -> Prop) (r : res A) : safe P r -> okE r.
Proof. destruct r as [a|e| |]; cbn; intros H; try contradiction; [left; eauto|right; subst; reflexivity]. Qed.

Lemma spec_kv_step_okE f e : okE (spec_kv_step f e).
Proof.
  destruct f as [num v]. unfold spec_kv_step.
  destruct (num =? 1); [destruct v; first [apply okE_Ok|apply okE_E]|].
  destruct (num =? 2); [destruct v; first [apply okE_Ok|apply okE_E]|].
  destruct (num =? 3); [destruct v; first [apply okE_Ok|apply okE_E]|].
  destruct (num =? 4); [destruct v; first [apply okE_Ok|apply okE_E]|]. apply okE_Ok.
Qed.

Lemma spec_kv_fold_okE fs : forall e, okE (spec_kv_fold fs e).
Proof.
  induction fs as [|f fs IH]; intros e; cbn [spec_kv_fold]; [apply okE_Ok|].
  apply okE_bind; [apply spec_kv_step_okE|exact IH].
Qed.

Lemma spec_kv_okE p : okE (spec_kv p).
Proof. unfold spec_kv. destruct (wire_parse p); [apply spec_kv_fold_okE|apply okE_E]. Qed.

(* ---- DBI: the two passes of the hand-written decoder, on field lists ---- *)

(* what indexData keeps: name, flags, transform; entries are only checked for their wire type *)
Definition idx_step (f : field) (st : bytes * N * bytes) : res (bytes * N * bytes) :=
  let '(num, v) := f in
  let '(n, fl, t) := st in
  if num =? 1 then match v with WLen p => Ok (p, fl, t) | _ => E end
  else if num =? 2 then match v with WLen _ => Ok st | _ => E end
  else if num =? 3 then match v with WVar x => Ok (n, x, t) | _ => E end
  else if num =? 4 then match v with WLen p => Ok (n, fl, p) | _ => E end
  else Ok st.
Fixpoint idx_fold (fs : list field) (st : bytes * N * bytes) : res (bytes * N * bytes) :=
  match fs with
  | [] => Ok st
  | f :: r => do st' <- idx_step f st; idx_fold r st'
  end.

(* what the iteration with Next produces *)
Definition ent_step (f : field) (acc : list kv) : res (list kv) :=
  let '(num, v) := f in
  if num =? 2 then match v with WLen p => do e <- spec_kv p; Ok (acc ++ [e]) | _ => E end
  else Ok acc.
Fixpoint ent_fold (fs : list field) (acc : list kv) : res (list kv) :=
  match fs with
  | [] => Ok acc
  | f :: r => do acc' <- ent_step f acc; ent_fold r acc'
  end.

Lemma idx_step_okE f st : okE (idx_step f st).
Proof.
  destruct f as [num v]. destruct st as [[n fl] t]. unfold idx_step.
  destruct (num =? 1); [destruct v; first [apply okE_Ok|apply okE_E]|].
  destruct (num =? 2); [destruct v; first [apply okE_Ok|apply okE_E]|].
  destruct (num =? 3); [destruct v; first [apply okE_Ok|apply okE_E]|].
  destruct (num =? 4); [destruct v; first [apply okE_Ok|apply okE_E]|]. apply okE_Ok.
Qed.
Lemma idx_fold_okE fs : forall st, okE (idx_fold fs st).
Proof.
  induction fs as [|f fs IH]; intros st; cbn [idx_fold]; [apply okE_Ok|].
  apply okE_bind; [apply idx_step_okE|exact IH].
Qed.
Lemma ent_step_okE f acc : okE (ent_step f acc).
Proof.
  destruct f as [num v]. unfold ent_step. destruct (num =? 2); [|apply okE_Ok].
  destruct v; try apply okE_E. apply okE_bind; [apply spec_kv_okE|intros; apply okE_Ok].
Qed.
Lemma ent_fold_okE fs : forall acc, okE (ent_fold fs acc).
Proof.
  induction fs as [|f fs IH]; intros acc; cbn [ent_fold]; [apply okE_Ok|].
  apply okE_bind; [apply ent_step_okE|exact IH].
Qed.

(* the schema's DBI = the index pass and the entries pass together *)
Lemma spec_dbi_two_pass fs : forall n fl t es,
  spec_dbi_fold fs (mkDbi n fl t es) =
  (do st <- idx_fold fs (n, fl, t); do es' <- ent_fold fs es;
   Ok (mkDbi (fst (fst st)) (snd (fst st)) (snd st) es')).
Proof.
  induction fs as [|[num v] fs IH]; intros n fl t es; [reflexivity|].
  cbn [spec_dbi_fold idx_fold ent_fold]. unfold spec_dbi_step, idx_step, ent_step.
  cbn [db_name db_flags db_transform db_entries].
  destruct (num =? 1) eqn:N1.
  { replace (num =? 2) with false by lia. destruct v; cbn [bind]; try reflexivity. apply IH. }
  destruct (num =? 2) eqn:N2.
  { destruct v; cbn [bind]; try reflexivity.
    destruct (spec_kv_okE p) as [[e He]|He]; rewrite He; cbn [bind]; [apply IH|].
    destruct (idx_fold_okE fs (n, fl, t)) as [[st ->]| ->]; reflexivity. }
  destruct (num =? 3) eqn:N3; [destruct v; cbn [bind]; try reflexivity; apply IH|].
  destruct (num =? 4) eqn:N4; [destruct v; cbn [bind]; try reflexivity; apply IH|].
  cbn [bind]. apply IH.
Qed.

(* ---- DBI.indexData = the index pass ---- *)

Definition idx_of (off : Z) (t : bytes * N * bytes) : idx := mkIdx off (fst (fst t)) (snd (fst t)) (snd t).
Definition idx_triple (st : idx) : bytes * N * bytes := (i_name st, i_flags st, i_transform st).

Lemma index_body_sim data st rest num v rest' :
  pos data (i_off st) rest -> (zlen data <= max_int)%Z -> parse_field rest = Some ((num, v), rest') ->
  exists off', pos data off' rest' /\ (i_off st < off')%Z /\
    index_body data st = (do t <- idx_step (num, v) (idx_triple st); Ok (inl (idx_of off' t))).
Proof.
  intros Hp Hmax Hf. destruct (parse_field_shape _ _ _ _ Hf) as [Hs Hnum].
  destruct (shape_next _ _ _ _ _ _ Hp Hmax Hs) as (off' & Hp' & Hlt).
  exists off'. split; [exact Hp'|]. split; [lia|].
  destruct (shape_key _ _ _ _ Hs) as (key & r1 & Hk & Hkn).
  destruct (pos_varint _ _ _ _ _ Hp Hk) as (n0 & Hd0 & Hn0 & Hp1 & _).
  pose proof (pos_zlen _ _ _ Hp1) as Hz1.
  assert (Hne : rest <> []) by (intros ->; discriminate).
  pose proof (pos_not_end _ _ _ Hp Hne) as Hend.
  unfold index_body, idx_step, idx_triple, idx_of. destruct st as [off nm fl tr]. cbn [i_off i_name i_flags i_transform] in *.
  replace (zlen data <=? off)%Z with false by lia.
  rewrite (pos_slice _ _ _ Hp). cbn [bind]. rewrite Hd0. cbn [bind]. rewrite Hkn.
  destruct (skip_tag_shape _ _ _ _ _ _ _ _ Hmax Hk Hp1 Hs) as (nsk & Hsk & _ & Hpsk).
  pose proof (pos_unique _ _ _ _ Hpsk Hp') as Hoff.
  destruct Hs as [key' r1' x r Hk' _ Hw Hv|key' r1' Hk' _ Hw Hl|key' r1' l r2 Hk' _ Hw Hv Hl|key' r1' Hk' _ Hw Hl];
    rewrite Hk in Hk'; inversion Hk'; subst key' r1'; clear Hk'.
  - (* varint value *)
    destruct (pos_varint _ _ _ _ _ Hp1 Hv) as (n & Hd & Hn & Hp2 & _).
    pose proof (pos_unique _ _ _ _ Hp2 Hp') as Ho2.
    destruct (num =? 1) eqn:N1.
    { replace (num =? 2) with false by lia. cbn [orb]. wt_eval Hw. reflexivity. }
    destruct (num =? 2) eqn:N2; cbn [orb]; [wt_eval Hw; reflexivity|].
    destruct (num =? 4) eqn:N4.
    { replace (num =? 3) with false by lia. cbn [orb]. wt_eval Hw. reflexivity. }
    cbn [orb]. destruct (num =? 3) eqn:N3.
    { wt_eval Hw. rewrite (pos_slice _ _ _ Hp1). cbn [bind]. rewrite Hd. cbn [bind fst snd]. rewrite Ho2. reflexivity. }
    rewrite (pos_slice _ _ _ Hp1). cbn [bind]. rewrite Hsk. cbn [bind fst snd]. rewrite Hoff. reflexivity.
  - (* fixed64 *)
    destruct (num =? 1) eqn:N1.
    { replace (num =? 2) with false by lia. cbn [orb]. wt_eval Hw. reflexivity. }
    destruct (num =? 2) eqn:N2; cbn [orb]; [wt_eval Hw; reflexivity|].
    destruct (num =? 4) eqn:N4.
    { replace (num =? 3) with false by lia. cbn [orb]. wt_eval Hw. reflexivity. }
    cbn [orb]. destruct (num =? 3) eqn:N3; [wt_eval Hw; reflexivity|].
    rewrite (pos_slice _ _ _ Hp1). cbn [bind]. rewrite Hsk. cbn [bind fst snd]. rewrite Hoff. reflexivity.
  - (* length-delimited *)
    destruct (pos_varint _ _ _ _ _ Hp1 Hv) as (n & Hd & Hn & Hp2 & _).
    destruct (len_check_ok _ _ _ _ Hp2 Hmax Hl) as (Hc & Hi & Hle & Hnat).
    assert (Hle' : (N.to_nat l <= length r2)%nat) by lia.
    pose proof (pos_skip _ _ _ _ Hp2 Hle') as Hp3. pose proof (pos_unique _ _ _ _ Hp3 Hp') as Ho3.
    destruct ((num =? 2) || (num =? 1) || (num =? 4)) eqn:N124.
    { wt_eval Hw. rewrite (pos_slice _ _ _ Hp1). cbn [bind]. rewrite Hd. cbn [bind].
      rewrite Hc, Hi, Hnat. rewrite (pos_take _ _ _ _ Hp2 Hle'). cbn [bind]. rewrite Ho3.
      destruct (num =? 1) eqn:N1; [reflexivity|].
      destruct (num =? 2) eqn:N2; [replace (num =? 4) with false by lia; reflexivity|].
      replace (num =? 4) with true by lia. replace (num =? 3) with false by lia. reflexivity. }
    replace (num =? 1) with false by lia. replace (num =? 2) with false by lia. replace (num =? 4) with false by lia.
    destruct (num =? 3) eqn:N3; [wt_eval Hw; reflexivity|].
    rewrite (pos_slice _ _ _ Hp1). cbn [bind]. rewrite Hsk. cbn [bind fst snd]. rewrite Hoff. reflexivity.
  - (* fixed32 *)
    destruct (num =? 1) eqn:N1.
    { replace (num =? 2) with false by lia. cbn [orb]. wt_eval Hw. reflexivity. }
    destruct (num =? 2) eqn:N2; cbn [orb]; [wt_eval Hw; reflexivity|].
    destruct (num =? 4) eqn:N4.
    { replace (num =? 3) with false by lia. cbn [orb]. wt_eval Hw. reflexivity. }
    cbn [orb]. destruct (num =? 3) eqn:N3; [wt_eval Hw; reflexivity|].
    rewrite (pos_slice _ _ _ Hp1). cbn [bind]. rewrite Hsk. cbn [bind fst snd]. rewrite Hoff. reflexivity.
Qed.

Lemma index_loop_sim p : (zlen p <= max_int)%Z -> forall fs fuel st rest,
  pos p (i_off st) rest -> wire_parse rest = Some fs -> (length rest < fuel)%nat ->
  loop (index_body p) fuel st = (do t <- idx_fold fs (idx_triple st); Ok (idx_of (zlen p) t)).
Proof.
  intros Hmax. induction fs as [|[num v] fs IH]; intros fuel st rest Hp Hw Hf.
  - apply wire_parse_nil_inv in Hw. subst rest. destruct fuel as [|fuel]; [lia|].
    cbn [loop idx_fold bind]. unfold index_body. rewrite (pos_end _ _ Hp), Z.leb_refl.
    destruct st as [off nm fl tr]. cbn [i_off] in *. unfold idx_of, idx_triple. cbn [fst snd i_name i_flags i_transform].
    rewrite (pos_end _ _ Hp). reflexivity.
  - destruct (wire_parse_inv _ _ _ Hw) as (r & Hpf & Hwr & _).
    destruct fuel as [|fuel]; [lia|]. cbn [loop idx_fold].
    destruct (index_body_sim p st rest num v r Hp Hmax Hpf) as (off' & Hp' & Hlt & ->).
    destruct (idx_step (num, v) (idx_triple st)) as [t|err| |]; cbn [bind]; try reflexivity.
    rewrite (IH fuel (idx_of off' t) r); try assumption.
    + destruct t as [[a b] c]. reflexivity.
    + pose proof (parse_field_shorter _ _ _ Hpf). lia.
Qed.

Definition idx0 : bytes * N * bytes := ([], 0, []).

Theorem new_dbi_from_data_spec p fs : (zlen p <= max_int)%Z -> wire_parse p = Some fs ->
  new_dbi_from_data p = (do t <- idx_fold fs idx0; Ok (mkObj (fst (fst t)) (snd (fst t)) (snd t) p 0)).
Proof.
  intros Hmax Hw. unfold new_dbi_from_data, index_data.
  rewrite (index_loop_sim p Hmax fs (S (length p)) (mkIdx 0 [] 0 []) p (pos_start p) Hw ltac:(lia)).
  change (idx_triple (mkIdx 0 [] 0 [])) with idx0.
  destruct (idx_fold fs idx0) as [t|err| |]; reflexivity.
Qed.

(* ---- DBI.Next and the full iteration = the entries pass ---- *)

(* the first entry of a field list, and the fields after it *)
Fixpoint next_spec (fs : list field) : res (option (kv * list field)) :=
  match fs with
  | [] => Ok None
  | (num, v) :: r =>
      if num =? 2 then match v with WLen q => do e <- spec_kv q; Ok (Some (e, r)) | _ => E end
      else next_spec r
  end.

Lemma ent_fold_next fs : forall acc,
  ent_fold fs acc = (do r <- next_spec fs;
                     match r with None => Ok acc | Some (e, fs') => ent_fold fs' (acc ++ [e]) end).
Proof.
  induction fs as [|[num v] fs IH]; intros acc; [reflexivity|].
  cbn [ent_fold next_spec]. unfold ent_step. destruct (num =? 2).
  - destruct v; cbn [bind]; try reflexivity. destruct (spec_kv p); reflexivity.
  - cbn [bind]. apply IH.
Qed.

Lemma next_loop_safe_fuel p fuel off : (0 <= off <= zlen p)%Z -> (zlen p <= max_int)%Z ->
  (Z.to_nat (zlen p - off) < fuel)%nat -> safe (fun _ => True) (loop (next_body p) fuel off).
Proof.
  intros Ho Hmax Hf.
  apply (loop_safe (next_body p) (fun o => (0 <= o <= zlen p)%Z) (fun o => Z.to_nat (zlen p - o))); try assumption.
  intros o Hoo. eapply safe_weaken; [apply (next_body_safe p o Hoo Hmax)|].
  intros [o'|[[o' wt]|]] H; first [lia|exact I].
Qed.

Lemma next_loop_skip p cur off' : (0 <= cur <= zlen p)%Z -> (zlen p <= max_int)%Z ->
  next_body p cur = Ok (inl off') -> (cur < off' <= zlen p)%Z ->
  loop (next_body p) (S (length p)) cur = loop (next_body p) (S (length p)) off'.
Proof.
  intros Hc Hmax Hb Ho. cbn [loop]. rewrite Hb.
  pose proof (next_loop_safe_fuel p (length p) off' ltac:(lia) Hmax ltac:(unfold zlen in *; lia)) as Hs.
  symmetry. apply (loop_fuel_mono (next_body p) (length p) (S (length p)) off'); [reflexivity| |lia].
  intros Hx. rewrite Hx in Hs. exact Hs.
Qed.

Lemma next_body_sim data off rest num v rest' :
  pos data off rest -> (zlen data <= max_int)%Z -> parse_field rest = Some ((num, v), rest') ->
  exists key r1 off1, vspec rest = Some (key, r1) /\ key / 8 = num /\ pos data off1 r1 /\ (off < off1)%Z /\
    if num =? 2 then next_body data off = Ok (inr (Some (off1, key mod 8)))
    else exists off', pos data off' rest' /\ (off1 < off' <= zlen data)%Z /\ next_body data off = Ok (inl off').
Proof.
  intros Hp Hmax Hf. destruct (parse_field_shape _ _ _ _ Hf) as [Hs Hnum].
  destruct (shape_key _ _ _ _ Hs) as (key & r1 & Hk & Hkn).
  destruct (pos_varint _ _ _ _ _ Hp Hk) as (n0 & Hd0 & Hn0 & Hp1 & _).
  exists key, r1, (off + n0)%Z. repeat (split; [first [assumption|lia]|]).
  assert (Hne : rest <> []) by (intros ->; discriminate).
  pose proof (pos_not_end _ _ _ Hp Hne) as Hend.
  unfold next_body. replace (zlen data <=? off)%Z with false by lia.
  rewrite (pos_slice _ _ _ Hp). cbn [bind]. rewrite Hd0. cbn [bind]. rewrite Hkn.
  destruct (num =? 2); [reflexivity|].
  destruct (skip_tag_shape _ _ _ _ _ _ _ _ Hmax Hk Hp1 Hs) as (nsk & Hsk & Hn & Hpsk).
  exists (off + n0 + nsk)%Z. split; [exact Hpsk|]. split; [destruct Hpsk; lia|].
  rewrite (pos_slice _ _ _ Hp1). cbn [bind]. rewrite Hsk. reflexivity.
Qed.

Lemma dbi_next_sim p : (zlen p <= max_int)%Z -> forall fs cur rest,
  pos p cur rest -> wire_parse rest = Some fs -> forallb dbi_field_ok fs = true ->
  match next_spec fs with
  | Ok None => dbi_next p cur = Ok None
  | Ok (Some (e, fs')) =>
      exists cur' rest', dbi_next p cur = Ok (Some (e, cur')) /\ pos p cur' rest' /\
                         wire_parse rest' = Some fs' /\ forallb dbi_field_ok fs' = true /\
                         (length rest' < length rest)%nat
  | Err _ => dbi_next p cur = E
  | _ => False
  end.
Proof.
  intros Hmax. induction fs as [|[num v] fs IH]; intros cur rest Hp Hw Hok.
  - apply wire_parse_nil_inv in Hw. subst rest. cbn [next_spec].
    unfold dbi_next. cbn [loop]. unfold next_body. rewrite (pos_end _ _ Hp), Z.leb_refl. reflexivity.
  - destruct (wire_parse_inv _ _ _ Hw) as (r & Hpf & Hwr & _).
    cbn [forallb] in Hok. apply andb_prop in Hok. destruct Hok as [Hok1 Hok].
    pose proof (parse_field_shorter _ _ _ Hpf) as Hshort.
    destruct (next_body_sim p cur rest num v r Hp Hmax Hpf) as (key & r1 & off1 & Hk & Hkn & Hp1 & Hlt & Hb).
    cbn [next_spec]. destruct (num =? 2) eqn:N2.
    + (* the entries tag: Next reads the entry here *)
      unfold dbi_next. cbn [loop]. rewrite Hb. cbn [bind].
      destruct (parse_field_shape _ _ _ _ Hpf) as [Hs _].
      destruct Hs as [key' r1' x r' Hk' _ Hwt Hv|key' r1' Hk' _ Hwt Hl|key' r1' l r2 Hk' _ Hwt Hv Hl|key' r1' Hk' _ Hwt Hl];
        rewrite Hk in Hk'; inversion Hk'; subst key' r1'; clear Hk';
        try (wt_eval Hwt; reflexivity).
      wt_eval Hwt.
      destruct (pos_varint _ _ _ _ _ Hp1 Hv) as (n & Hd & Hn & Hp2 & _).
      destruct (len_check_ok _ _ _ _ Hp2 Hmax Hl) as (Hc & Hi & Hle & Hnat).
      assert (Hle' : (N.to_nat l <= length r2)%nat) by lia.
      pose proof (pos_skip _ _ _ _ Hp2 Hle') as Hp3.
      rewrite (pos_slice _ _ _ Hp1). cbn [bind]. rewrite Hd. cbn [bind].
      rewrite Hc, Hi, Hnat. rewrite (pos_take _ _ _ _ Hp2 Hle'). cbn [bind].
      set (q := firstn (N.to_nat l) r2) in *.
      unfold dbi_field_ok in Hok1. rewrite N2 in Hok1.
      assert (Hq : (zlen q <= max_int)%Z).
      { unfold q, zlen. rewrite firstn_length. pose proof (pos_zlen _ _ _ Hp2). destruct Hp2. unfold zlen in *. lia. }
      rewrite (kv_unmarshal_spec q Hq Hok1).
      destruct (spec_kv_okE q) as [[e He]|He]; rewrite He; cbn [bind]; [|reflexivity].
      exists (off1 + n + Z.of_nat (N.to_nat l))%Z, (skipn (N.to_nat l) r2).
      repeat (split; [first [reflexivity|assumption]|]). exact Hshort.
    + (* another field: skipped inside the same Next call *)
      destruct Hb as (off' & Hp' & Ho' & Hb).
      assert (Heq : dbi_next p cur = dbi_next p off').
      { unfold dbi_next. rewrite (next_loop_skip p cur off' (proj1 Hp) Hmax Hb ltac:(lia)). reflexivity. }
      rewrite Heq. specialize (IH off' r Hp' Hwr Hok).
      destruct (next_spec fs) as [[[e fs']|]|err| |]; try exact IH.
      destruct IH as (cur' & rest' & H1 & H2 & H3 & H4 & H5).
      exists cur', rest'. repeat (split; [assumption|]). lia.
Qed.

Lemma next_spec_okE fs : okE (next_spec fs).
Proof.
  induction fs as [|[num v] fs IH]; cbn [next_spec]; [apply okE_Ok|].
  destruct (num =? 2); [|exact IH]. destruct v; try apply okE_E.
  apply okE_bind; [apply spec_kv_okE|intros; apply okE_Ok].
Qed.

Lemma entries_loop_sim p : (zlen p <= max_int)%Z -> forall fuel fs cur rest acc,
  pos p cur rest -> wire_parse rest = Some fs -> forallb dbi_field_ok fs = true ->
  (length rest < fuel)%nat ->
  loop (entries_body p) fuel (cur, acc) = ent_fold fs acc.
Proof.
  intros Hmax. induction fuel as [|fuel IH]; intros fs cur rest acc Hp Hw Hok Hf; [lia|].
  cbn [loop]. unfold entries_body. rewrite ent_fold_next.
  pose proof (dbi_next_sim p Hmax fs cur rest Hp Hw Hok) as Hn.
  destruct (next_spec_okE fs) as [[[[e fs']|] Hs]|Hs]; rewrite Hs in Hn |- *; cbn [bind].
  - destruct Hn as (cur' & rest' & -> & Hp' & Hw' & Hok' & Hlen). cbn [bind].
    apply (IH fs' cur' rest' (acc ++ [e]) Hp' Hw' Hok'). lia.
  - rewrite Hn. reflexivity.
  - unfold E in Hn. rewrite Hn. reflexivity.
Qed.

Theorem all_entries_spec p fs : (zlen p <= max_int)%Z -> wire_parse p = Some fs ->
  forallb dbi_field_ok fs = true -> all_entries p = ent_fold fs [].
Proof.
  intros Hmax Hw Hok. unfold all_entries.
  apply (entries_loop_sim p Hmax (S (length p)) fs 0%Z p [] (pos_start p) Hw Hok). lia.
Qed.

(* ---- the csproto Decoder operations on grammatical input ---- *)

Lemma key_decompose key : key = 8 * (key / 8) + key mod 8.
Proof. pose proof (N.div_mod key 8 ltac:(lia)). lia. Qed.

Lemma dec_tag_sim p off rest key r1 : pos p off rest -> vspec rest = Some (key, r1) ->
  1 <= key / 8 <= MaxTagNumber ->
  exists off1, dec_tag p off = Ok (key / 8, key mod 8, off1) /\ pos p off1 r1 /\ (off < off1)%Z.
Proof.
  intros Hp Hk Hn. destruct (pos_varint _ _ _ _ _ Hp Hk) as (n0 & Hd0 & Hn0 & Hp1 & _).
  exists (off + n0)%Z. split; [|split; [exact Hp1|lia]].
  assert (Hne : rest <> []) by (intros ->; discriminate).
  pose proof (pos_not_end _ _ _ Hp Hne) as Hend.
  unfold dec_tag. replace (zlen p <=? off)%Z with false by lia.
  rewrite (pos_slice _ _ _ Hp). cbn [bind]. rewrite Hd0. cbn [bind].
  pose proof (key_decompose key) as Hkd. pose proof (N.mod_lt key 8 ltac:(lia)) as Hm.
  unfold MaxTagNumber, MaxTagValue in *.
  replace ((n0 <? 1)%Z || (key <? 1) || (536870911 <? key)) with false by lia. reflexivity.
Qed.

Lemma dec_bytes_sim ml p off r1 l r2 : pos p off r1 -> (zlen p <= max_int)%Z -> ml < two63 ->
  vspec r1 = Some (l, r2) -> l <= lenN r2 -> l <= ml ->
  exists off', dec_bytes ml p off = Ok (firstn (N.to_nat l) r2, off') /\ pos p off' (skipn (N.to_nat l) r2).
Proof.
  intros Hp Hmax Hml Hv Hl Hlm. destruct (pos_varint _ _ _ _ _ Hp Hv) as (n & Hd & Hn & Hp2 & _).
  destruct (len_check_ok _ _ _ _ Hp2 Hmax Hl) as (Hc & Hi & Hle & Hnat).
  assert (Hle' : (N.to_nat l <= length r2)%nat) by lia.
  pose proof (pos_skip _ _ _ _ Hp2 Hle') as Hp3.
  exists (off + n + Z.of_nat (N.to_nat l))%Z. split; [|exact Hp3].
  assert (Hne : r1 <> []) by (intros ->; discriminate).
  pose proof (pos_not_end _ _ _ Hp Hne) as Hend.
  unfold dec_bytes. replace (zlen p <=? off)%Z with false by lia.
  rewrite (pos_slice _ _ _ Hp). cbn [bind]. rewrite Hd. cbn [bind].
  replace (n =? 0)%Z with false by lia. replace (ml <? l) with false by lia. rewrite Hi, Hnat.
  destruct Hp3 as [Ho3 _]. replace (zlen p <? off + n + Z.of_nat (N.to_nat l))%Z with false by lia.
  rewrite (pos_take _ _ _ _ Hp2 Hle'). reflexivity.
Qed.

Lemma dec_string_sim ml p off r1 l r2 : pos p off r1 -> (zlen p <= max_int)%Z -> ml < two63 ->
  vspec r1 = Some (l, r2) -> l <= lenN r2 -> l <= ml ->
  exists off', dec_string ml p off = Ok (firstn (N.to_nat l) r2, off') /\ pos p off' (skipn (N.to_nat l) r2).
Proof.
  intros Hp Hmax Hml Hv Hl Hlm.
  assert (Hne : r1 <> []) by (intros ->; discriminate).
  pose proof (pos_not_end _ _ _ Hp Hne) as Hend.
  unfold dec_string. replace (zlen p <=? off)%Z with false by lia.
  apply (dec_bytes_sim ml p off r1 l r2); assumption.
Qed.

Lemma dec_varint_field_sim p off r1 x r : pos p off r1 -> vspec r1 = Some (x, r) ->
  exists off', pos p off' r /\
    dec_int64 p off = Ok (int_of_u64 x, off') /\
    dec_uint32 p off = (if MaxUint32 <? x then E else Ok (x, off')).
Proof.
  intros Hp Hv. destruct (pos_varint _ _ _ _ _ Hp Hv) as (n & Hd & Hn & Hp2 & _).
  exists (off + n)%Z. split; [exact Hp2|].
  assert (Hne : r1 <> []) by (intros ->; discriminate).
  pose proof (pos_not_end _ _ _ Hp Hne) as Hend.
  unfold dec_int64, dec_uint32. replace (zlen p <=? off)%Z with false by lia.
  rewrite (pos_slice _ _ _ Hp). cbn [bind]. rewrite Hd. cbn [bind].
  replace (n =? 0)%Z with false by lia. split; reflexivity.
Qed.

Lemma dec_fixed64_sim p off r1 : pos p off r1 -> (8 <= length r1)%nat ->
  dec_fixed64 p off = Ok (of_le (firstn 8 r1), (off + 8)%Z) /\ pos p (off + 8) (skipn 8 r1).
Proof.
  intros Hp Hl. split; [|apply (pos_skip _ _ _ 8 Hp Hl)].
  assert (Hne : r1 <> []) by (intros ->; cbn [length] in Hl; lia).
  pose proof (pos_not_end _ _ _ Hp Hne) as Hend.
  unfold dec_fixed64. replace (zlen p <=? off)%Z with false by lia.
  rewrite (pos_slice _ _ _ Hp). cbn [bind].
  replace (Nat.ltb (length r1) 8) with false by (symmetry; apply Nat.ltb_ge; exact Hl). reflexivity.
Qed.

Definition len_within (ml : N) (v : wval) : Prop := match v with WLen q => lenN q <= ml | _ => True end.

Lemma lenN_firstn (l : N) (r : bytes) : l <= lenN r -> lenN (firstn (N.to_nat l) r) = l.
Proof. intros H. unfold lenN in *. rewrite firstn_length. lia. Qed.

Lemma dec_skip_shape ml p off rest key r1 num v r tag :
  (zlen p <= max_int)%Z -> ml < two63 -> vspec rest = Some (key, r1) -> pos p off r1 ->
  shape rest num v r -> len_within ml v ->
  exists off', dec_skip ml p off tag (key mod 8) = Ok off' /\ pos p off' r.
Proof.
  intros Hmax Hml Hk Hp Hs Hlw. pose proof (pos_zlen _ _ _ Hp) as Hz. pose proof (proj1 Hp) as Ho.
  assert (Hbof : forall sk, (0 <= sk)%Z -> (off + sk <= zlen p)%Z ->
            slice3 p (Z.max 0 (off - Z.of_N (sizeof_varint (u64 (tag * 8))))) (off + sk) = Ok
              (firstn (Z.to_nat (off + sk - Z.max 0 (off - Z.of_N (sizeof_varint (u64 (tag * 8))))))
                 (skipn (Z.to_nat (Z.max 0 (off - Z.of_N (sizeof_varint (u64 (tag * 8)))))) p))).
  { intros sk H1 H2. apply slice3_ok; lia. }
  unfold dec_skip.
  destruct Hs as [key' r1' x r Hk' _ Hw Hv|key' r1' Hk' _ Hw Hl|key' r1' l r2 Hk' _ Hw Hv Hl|key' r1' Hk' _ Hw Hl];
    rewrite Hk in Hk'; inversion Hk'; subst key' r1'; rewrite Hw.
  - destruct (pos_varint _ _ _ _ _ Hp Hv) as (n & Hd & Hn & Hp' & _).
    assert (Hne : r1 <> []) by (intros ->; discriminate). pose proof (pos_not_end _ _ _ Hp Hne).
    replace (zlen p <=? off)%Z with false by lia.
    cbn [N.eqb Pos.eqb]. rewrite (pos_slice _ _ _ Hp). cbn [bind]. rewrite Hd. cbn [bind].
    pose proof (proj1 Hp') as Ho'.
    replace (zlen p <? off + n)%Z with false by lia. rewrite Hbof by lia. cbn [bind].
    exists (off + n)%Z. split; [reflexivity|exact Hp'].
  - assert (Hne : r1 <> []) by (intros ->; cbn [length] in Hl; lia). pose proof (pos_not_end _ _ _ Hp Hne).
    replace (zlen p <=? off)%Z with false by lia.
    change (1 =? 0) with false. change (1 =? 1) with true. cbn [bind].
    replace (zlen p <? off + 8)%Z with false by (unfold zlen in *; lia).
    rewrite Hbof by (unfold zlen in *; lia). cbn [bind].
    exists (off + 8)%Z. split; [reflexivity|]. apply (pos_skip _ _ _ 8 Hp Hl).
  - destruct (pos_varint _ _ _ _ _ Hp Hv) as (n & Hd & Hn & Hp' & _).
    assert (Hne : r1 <> []) by (intros ->; discriminate). pose proof (pos_not_end _ _ _ Hp Hne).
    replace (zlen p <=? off)%Z with false by lia.
    change (2 =? 0) with false. change (2 =? 1) with false. change (2 =? 2) with true.
    rewrite (pos_slice _ _ _ Hp). cbn [bind]. rewrite Hd. cbn [bind].
    destruct (len_check_ok _ _ _ _ Hp' Hmax Hl) as (Hc & Hi & Hle & Hnat).
    cbn [len_within] in Hlw. rewrite lenN_firstn in Hlw by exact Hl.
    replace (n =? 0)%Z with false by lia. replace (ml <? l) with false by lia. rewrite Hi. cbn [bind].
    assert (Hle' : (N.to_nat l <= length r2)%nat) by lia.
    pose proof (pos_skip _ _ _ _ Hp' Hle') as Hp3. pose proof (proj1 Hp3) as Ho3.
    replace (zlen p <? off + (n + Z.of_N l))%Z with false by lia. rewrite Hbof by lia. cbn [bind].
    exists (off + (n + Z.of_N l))%Z. split; [reflexivity|].
    replace (off + (n + Z.of_N l))%Z with (off + n + Z.of_nat (N.to_nat l))%Z by lia. exact Hp3.
  - assert (Hne : r1 <> []) by (intros ->; cbn [length] in Hl; lia). pose proof (pos_not_end _ _ _ Hp Hne).
    replace (zlen p <=? off)%Z with false by lia.
    change (5 =? 0) with false. change (5 =? 1) with false. change (5 =? 2) with false. change (5 =? 5) with true.
    cbn [bind]. replace (zlen p <? off + 4)%Z with false by (unfold zlen in *; lia).
    rewrite Hbof by (unfold zlen in *; lia). cbn [bind].
    exists (off + 4)%Z. split; [reflexivity|]. apply (pos_skip _ _ _ 4 Hp Hl).
Qed.

(* the typed readers of snapshot/utils.go on a grammatical field whose key has been read:
   [off'] is the offset of the next field *)
Section Readers.
  Variables (ml : N) (p rest r1 rest' : bytes) (off off' : Z) (key num : N) (v : wval).
  Hypothesis Hmax : (zlen p <= max_int)%Z.
  Hypothesis Hml : ml < two63.
  Hypothesis Hk : vspec rest = Some (key, r1).
  Hypothesis Hp1 : pos p off r1.
  Hypothesis Hs : shape rest num v rest'.
  Hypothesis Hp' : pos p off' rest'.

  Lemma get_bytes_shape : len_within ml v ->
    get_bytes ml p off (key mod 8) = match v with WLen q => Ok (q, off') | _ => E end.
  Proof.
    intros Hlw. unfold get_bytes.
    destruct Hs as [key' r1' x r Hk' _ Hw Hv|key' r1' Hk' _ Hw Hl|key' r1' l r2 Hk' _ Hw Hv Hl|key' r1' Hk' _ Hw Hl];
      rewrite Hk in Hk'; inversion Hk'; subst key' r1'; wt_eval Hw; try reflexivity.
    cbn [len_within] in Hlw. rewrite lenN_firstn in Hlw by exact Hl.
    destruct (dec_bytes_sim ml p off r1 l r2 Hp1 Hmax Hml Hv Hl Hlw) as (o & -> & Hpo).
    rewrite (pos_unique _ _ _ _ Hpo Hp'). reflexivity.
  Qed.

  Lemma get_string_shape : len_within ml v ->
    get_string ml p off (key mod 8) = match v with WLen q => Ok (q, off') | _ => E end.
  Proof.
    intros Hlw. unfold get_string.
    destruct Hs as [key' r1' x r Hk' _ Hw Hv|key' r1' Hk' _ Hw Hl|key' r1' l r2 Hk' _ Hw Hv Hl|key' r1' Hk' _ Hw Hl];
      rewrite Hk in Hk'; inversion Hk'; subst key' r1'; wt_eval Hw; try reflexivity.
    cbn [len_within] in Hlw. rewrite lenN_firstn in Hlw by exact Hl.
    destruct (dec_string_sim ml p off r1 l r2 Hp1 Hmax Hml Hv Hl Hlw) as (o & -> & Hpo).
    rewrite (pos_unique _ _ _ _ Hpo Hp'). reflexivity.
  Qed.

  Lemma get_int64_shape :
    get_int64 p off (key mod 8) = match v with WVar x => Ok (to_int64 x, off') | _ => E end.
  Proof.
    unfold get_int64.
    destruct Hs as [key' r1' x r Hk' _ Hw Hv|key' r1' Hk' _ Hw Hl|key' r1' l r2 Hk' _ Hw Hv Hl|key' r1' Hk' _ Hw Hl];
      rewrite Hk in Hk'; inversion Hk'; subst key' r1'; wt_eval Hw; try reflexivity.
    destruct (dec_varint_field_sim p off r1 x r Hp1 Hv) as (o & Hpo & -> & _).
    rewrite (pos_unique _ _ _ _ Hpo Hp'). reflexivity.
  Qed.

  Lemma get_uint32_shape :
    get_uint32 p off (key mod 8) =
    match v with WVar x => if MaxUint32 <? x then E else Ok (x, off') | _ => E end.
  Proof.
    unfold get_uint32.
    destruct Hs as [key' r1' x r Hk' _ Hw Hv|key' r1' Hk' _ Hw Hl|key' r1' l r2 Hk' _ Hw Hv Hl|key' r1' Hk' _ Hw Hl];
      rewrite Hk in Hk'; inversion Hk'; subst key' r1'; wt_eval Hw; try reflexivity.
    destruct (dec_varint_field_sim p off r1 x r Hp1 Hv) as (o & Hpo & _ & ->).
    rewrite (pos_unique _ _ _ _ Hpo Hp'). reflexivity.
  Qed.

  Lemma get_fixed64_shape :
    get_fixed64 p off (key mod 8) = match v with WF64 x => Ok (x, off') | _ => E end.
  Proof.
    unfold get_fixed64.
    destruct Hs as [key' r1' x r Hk' _ Hw Hv|key' r1' Hk' _ Hw Hl|key' r1' l r2 Hk' _ Hw Hv Hl|key' r1' Hk' _ Hw Hl];
      rewrite Hk in Hk'; inversion Hk'; subst key' r1'; wt_eval Hw; try reflexivity.
    destruct (dec_fixed64_sim p off r1 Hp1 Hl) as (-> & Hpo).
    rewrite (pos_unique _ _ _ _ Hpo Hp'). reflexivity.
  Qed.

  Lemma dec_skip_shape' tag : len_within ml v -> dec_skip ml p off tag (key mod 8) = Ok off'.
  Proof.
    intros Hlw. destruct (dec_skip_shape ml p off rest key r1 num v rest' tag Hmax Hml Hk Hp1 Hs Hlw) as (o & -> & Hpo).
    rewrite (pos_unique _ _ _ _ Hpo Hp'). reflexivity.
  Qed.
End Readers.

(* ---- Meta.Unmarshal = spec_meta ---- *)

Lemma meta_body_sim p off rest num v rest' m :
  pos p off rest -> (zlen p <= max_int)%Z -> parse_field rest = Some ((num, v), rest') ->
  meta_field_ok (num, v) = true ->
  exists off', pos p off' rest' /\ (off < off')%Z /\
    meta_body p (off, m) = (do m' <- spec_meta_step (num, v) m; Ok (inl (off', m'))).
Proof.
  intros Hp Hmax Hf Hok. destruct (parse_field_shape _ _ _ _ Hf) as [Hs Hnum].
  destruct (shape_next _ _ _ _ _ _ Hp Hmax Hs) as (off' & Hp' & Hlt).
  exists off'. split; [exact Hp'|]. split; [lia|].
  destruct (shape_key _ _ _ _ Hs) as (key & r1 & Hk & Hkn).
  unfold meta_field_ok in Hok. apply andb_prop in Hok. destruct Hok as [Hok1 Hok2].
  assert (Hlw : len_within MaxFieldLenDefault v) by (destruct v; cbn [len_within]; try exact I; lia).
  destruct (dec_tag_sim p off rest key r1 Hp Hk ltac:(lia)) as (off1 & Hdt & Hp1 & Hlt1).
  assert (Hne : rest <> []) by (intros ->; discriminate).
  pose proof (pos_not_end _ _ _ Hp Hne) as Hend.
  pose proof maxlen_default_small as Hml.
  unfold meta_body, spec_meta_step. replace (zlen p <=? off)%Z with false by lia.
  rewrite Hdt. cbn [bind]. rewrite Hkn.
  pose proof (get_string_shape MaxFieldLenDefault p rest r1 rest' off1 off' key num v Hmax Hml Hk Hp1 Hs Hp' Hlw) as Gs.
  pose proof (get_int64_shape p rest r1 rest' off1 off' key num v Hk Hp1 Hs Hp') as Gi.
  pose proof (get_fixed64_shape p rest r1 rest' off1 off' key num v Hk Hp1 Hs Hp') as Gf.
  pose proof (dec_skip_shape' MaxFieldLenDefault p rest r1 rest' off1 off' key num v Hmax Hml Hk Hp1 Hs Hp' num Hlw) as Gk.
  destruct (num =? 1); [rewrite Gs; destruct v; reflexivity|].
  destruct (num =? 2); [rewrite Gs; destruct v; reflexivity|].
  destruct (num =? 3); [rewrite Gs; destruct v; reflexivity|].
  destruct (num =? 4); [rewrite Gi; destruct v; reflexivity|].
  destruct (num =? 5); [rewrite Gf; destruct v; reflexivity|].
  destruct (num =? 7); [rewrite Gs; destruct v; reflexivity|].
  destruct (num =? 8); [rewrite Gi; destruct v; reflexivity|].
  rewrite Gk. reflexivity.
Qed.

Lemma meta_loop_sim p : (zlen p <= max_int)%Z -> forall fs fuel off rest m,
  pos p off rest -> wire_parse rest = Some fs -> forallb meta_field_ok fs = true ->
  (length rest < fuel)%nat ->
  loop (meta_body p) fuel (off, m) = spec_meta_fold fs m.
Proof.
  intros Hmax. induction fs as [|[num v] fs IH]; intros fuel off rest m Hp Hw Hok Hf.
  - apply wire_parse_nil_inv in Hw. subst rest. destruct fuel as [|fuel]; [lia|].
    cbn [loop spec_meta_fold]. unfold meta_body. rewrite (pos_end _ _ Hp), Z.leb_refl. reflexivity.
  - destruct (wire_parse_inv _ _ _ Hw) as (r & Hpf & Hwr & _).
    cbn [forallb] in Hok. apply andb_prop in Hok. destruct Hok as [Hok1 Hok].
    destruct fuel as [|fuel]; [lia|]. cbn [loop spec_meta_fold].
    destruct (meta_body_sim p off rest num v r m Hp Hmax Hpf Hok1) as (off' & Hp' & Hlt & ->).
    destruct (spec_meta_step (num, v) m) as [m'|err| |]; cbn [bind]; try reflexivity.
    apply (IH fuel off' r m' Hp' Hwr Hok). pose proof (parse_field_shorter _ _ _ Hpf). lia.
Qed.

Theorem meta_unmarshal_spec p m : (zlen p <= max_int)%Z -> meta_ok p = true ->
  meta_unmarshal p m = spec_meta p m.
Proof.
  intros Hmax Hok. unfold meta_ok in Hok. unfold meta_unmarshal, spec_meta.
  destruct (wire_parse p) as [fs|] eqn:Hw; [|discriminate].
  apply (meta_loop_sim p Hmax fs (S (length p)) 0%Z p m (pos_start p) Hw Hok). lia.
Qed.

(* ---- Snapshot.Unmarshal = the shallow pass over the top-level fields ---- *)

Definition sub_fields (q : bytes) : list field := match wire_parse q with Some fs => fs | None => [] end.

(* what Unmarshal does with one top-level field: scalars, the merged Meta, and for a DBI only the index
   pass (the entries are read later, by the iteration) *)
Definition shallow_step (f : field) (so : snap_obj) : res snap_obj :=
  let '(num, v) := f in
  if num =? 1 then match v with WVar x => Ok (mkSnapObj x (so_compat so) (so_meta so) (so_dbis so)) | _ => E end
  else if num =? 4 then match v with WVar x => Ok (mkSnapObj (so_fmt so) x (so_meta so) (so_dbis so)) | _ => E end
  else if num =? 2 then
    match v with
    | WLen q => do m <- spec_meta q (so_meta so); Ok (mkSnapObj (so_fmt so) (so_compat so) m (so_dbis so))
    | _ => E
    end
  else if num =? 3 then
    match v with
    | WLen q => do t <- idx_fold (sub_fields q) idx0;
                Ok (mkSnapObj (so_fmt so) (so_compat so) (so_meta so)
                      (so_dbis so ++ [mkObj (fst (fst t)) (snd (fst t)) (snd t) q 0]))
    | _ => E
    end
  else Ok so.
Fixpoint shallow_fold (fs : list field) (so : snap_obj) : res snap_obj :=
  match fs with
  | [] => Ok so
  | f :: r => do so' <- shallow_step f so; shallow_fold r so'
  end.

Lemma lenN_zlen (q : bytes) (k : N) : lenN q <= k -> k < two63 -> (zlen q <= max_int)%Z.
Proof. unfold lenN, zlen, two63, max_int. lia. Qed.

Lemma snap_body_sim p off rest num v rest' so :
  pos p off rest -> (zlen p <= max_int)%Z -> parse_field rest = Some ((num, v), rest') ->
  snap_field_ok (num, v) = true ->
  exists off', pos p off' rest' /\ (off < off')%Z /\
    snap_body p (off, so) = (do so' <- shallow_step (num, v) so; Ok (inl (off', so'))).
Proof.
  intros Hp Hmax Hf Hok. destruct (parse_field_shape _ _ _ _ Hf) as [Hs Hnum].
  destruct (shape_next _ _ _ _ _ _ Hp Hmax Hs) as (off' & Hp' & Hlt).
  exists off'. split; [exact Hp'|]. split; [lia|].
  destruct (shape_key _ _ _ _ Hs) as (key & r1 & Hk & Hkn).
  unfold snap_field_ok in Hok. apply andb_prop in Hok. destruct Hok as [Hok1 Hok2].
  assert (Hlw : len_within MaxFieldLength v).
  { destruct v; cbn [len_within]; try exact I. apply andb_prop in Hok2. lia. }
  destruct (dec_tag_sim p off rest key r1 Hp Hk ltac:(lia)) as (off1 & Hdt & Hp1 & Hlt1).
  assert (Hne : rest <> []) by (intros ->; discriminate).
  pose proof (pos_not_end _ _ _ Hp Hne) as Hend.
  pose proof maxlen_snapshot_small as Hml.
  unfold snap_body, shallow_step. replace (zlen p <=? off)%Z with false by lia.
  rewrite Hdt. cbn [bind]. rewrite Hkn.
  pose proof (get_bytes_shape MaxFieldLength p rest r1 rest' off1 off' key num v Hmax Hml Hk Hp1 Hs Hp' Hlw) as Gb.
  pose proof (get_uint32_shape p rest r1 rest' off1 off' key num v Hk Hp1 Hs Hp') as Gu.
  pose proof (dec_skip_shape' MaxFieldLength p rest r1 rest' off1 off' key num v Hmax Hml Hk Hp1 Hs Hp' num Hlw) as Gk.
  destruct (num =? 1) eqn:N1.
  { rewrite Gu. destruct v; try reflexivity. rewrite Bool.orb_true_l in Hok2.
    unfold MaxUint32. replace (4294967295 <? v) with false by (unfold two32 in Hok2; lia). reflexivity. }
  destruct (num =? 4) eqn:N4.
  { rewrite Gu. destruct v; try reflexivity. rewrite Bool.orb_true_r in Hok2.
    unfold MaxUint32. replace (4294967295 <? v) with false by (unfold two32 in Hok2; lia). reflexivity. }
  destruct (num =? 2) eqn:N2.
  { rewrite Gb. destruct v; try reflexivity. cbn [bind]. apply andb_prop in Hok2. destruct Hok2 as [Hl Hmo].
    rewrite meta_unmarshal_spec; [|apply (lenN_zlen p0 MaxFieldLength); [lia|exact Hml]|exact Hmo].
    destruct (spec_meta p0 (so_meta so)); reflexivity. }
  destruct (num =? 3) eqn:N3.
  { rewrite Gb. destruct v; try reflexivity. cbn [bind]. apply andb_prop in Hok2. destruct Hok2 as [Hl Hdo].
    unfold dbi_ok in Hdo. unfold sub_fields. destruct (wire_parse p0) as [fsq|] eqn:Hwq; [|discriminate].
    rewrite (new_dbi_from_data_spec p0 fsq); [|apply (lenN_zlen p0 MaxFieldLength); [lia|exact Hml]|exact Hwq].
    destruct (idx_fold fsq idx0) as [t|err| |]; reflexivity. }
  rewrite Gk. reflexivity.
Qed.

Lemma snap_loop_sim p : (zlen p <= max_int)%Z -> forall fs fuel off rest so,
  pos p off rest -> wire_parse rest = Some fs -> forallb snap_field_ok fs = true ->
  (length rest < fuel)%nat ->
  loop (snap_body p) fuel (off, so) = shallow_fold fs so.
Proof.
  intros Hmax. induction fs as [|[num v] fs IH]; intros fuel off rest so Hp Hw Hok Hf.
  - apply wire_parse_nil_inv in Hw. subst rest. destruct fuel as [|fuel]; [lia|].
    cbn [loop shallow_fold]. unfold snap_body. rewrite (pos_end _ _ Hp), Z.leb_refl. reflexivity.
  - destruct (wire_parse_inv _ _ _ Hw) as (r & Hpf & Hwr & _).
    cbn [forallb] in Hok. apply andb_prop in Hok. destruct Hok as [Hok1 Hok].
    destruct fuel as [|fuel]; [lia|]. cbn [loop shallow_fold].
    destruct (snap_body_sim p off rest num v r so Hp Hmax Hpf Hok1) as (off' & Hp' & Hlt & ->).
    destruct (shallow_step (num, v) so) as [so'|err| |]; cbn [bind]; try reflexivity.
    apply (IH fuel off' r so' Hp' Hwr Hok). pose proof (parse_field_shorter _ _ _ Hpf). lia.
Qed.

(* ---- the two passes together = the schema specification ---- *)

Lemma spec_meta_step_okE f m : okE (spec_meta_step f m).
Proof.
  destruct f as [num v]. unfold spec_meta_step.
  repeat (match goal with |- okE (if ?c then _ else _) => destruct c end);
    try (destruct v; first [apply okE_Ok|apply okE_E]); try apply okE_Ok.
Qed.
Lemma spec_meta_fold_okE fs : forall m, okE (spec_meta_fold fs m).
Proof.
  induction fs as [|f fs IH]; intros m; cbn [spec_meta_fold]; [apply okE_Ok|].
  apply okE_bind; [apply spec_meta_step_okE|exact IH].
Qed.
Lemma spec_meta_okE q m : okE (spec_meta q m).
Proof. unfold spec_meta. destruct (wire_parse q); [apply spec_meta_fold_okE|apply okE_E]. Qed.

Lemma mapM_app1 {A B : Type} (f : A -> res B) (l : list A) (x : A) :
  mapM f (l ++ [x]) = (do ys <- mapM f l; do y <- f x; Ok (ys ++ [y])).
Proof.
  induction l as [|a l IH]; cbn [app mapM].
  - destruct (f x); reflexivity.
  - destruct (f a) as [b| | |]; cbn [bind]; try reflexivity. rewrite IH.
    destruct (mapM f l) as [ys| | |]; cbn [bind]; try reflexivity.
    destruct (f x); reflexivity.
Qed.

Definition objs_small (l : list dbi_obj) : Prop := Forall (fun o => (zlen (o_data o) <= max_int)%Z) l.

Lemma contents_okE l : objs_small l -> okE (mapM dbi_content l).
Proof.
  intros H. apply (safe_okE (Forall (fun _ => True))).
  apply (mapM_safe dbi_content _ (fun _ => True) l H). intros o Ho. apply dbi_content_safe, Ho.
Qed.

Definition finish (so : snap_obj) : res snap :=
  do ds <- mapM dbi_content (so_dbis so); Ok (mkSnap (so_fmt so) (so_compat so) (so_meta so) ds).

Lemma two_passes fs : forall so, forallb snap_field_ok fs = true -> objs_small (so_dbis so) ->
  (do so' <- shallow_fold fs so; finish so') =
  (do ds0 <- mapM dbi_content (so_dbis so);
   spec_snapshot_fold fs (mkSnap (so_fmt so) (so_compat so) (so_meta so) ds0)).
Proof.
  induction fs as [|[num v] fs IH]; intros so Hok Hsm; [reflexivity|].
  cbn [forallb] in Hok. apply andb_prop in Hok. destruct Hok as [Hok1 Hok].
  pose proof (contents_okE _ Hsm) as HX.
  cbn [shallow_fold spec_snapshot_fold]. unfold shallow_step, spec_snapshot_step.
  cbn [s_fmt s_compat s_meta s_dbis].
  unfold snap_field_ok in Hok1. apply andb_prop in Hok1. destruct Hok1 as [_ Hok2].
  (* a top-level error after the DBIs decoded so far is the same error *)
  assert (HE : (do ds0 <- mapM dbi_content (so_dbis so); @E snap) = E).
  { destruct HX as [[ds ->]| ->]; reflexivity. }
  destruct (num =? 1) eqn:N1.
  { replace (num =? 2) with false by lia. replace (num =? 3) with false by lia. replace (num =? 4) with false by lia.
    destruct v; cbn [bind]; try (symmetry; destruct HX as [[ds ->]| ->]; reflexivity).
    rewrite Bool.orb_true_l in Hok2. rewrite (N.mod_small v two32) by lia.
    rewrite (IH _ Hok); [reflexivity|exact Hsm]. }
  destruct (num =? 4) eqn:N4.
  { replace (num =? 2) with false by lia. replace (num =? 3) with false by lia.
    destruct v; cbn [bind]; try (symmetry; destruct HX as [[ds ->]| ->]; reflexivity).
    rewrite Bool.orb_true_r in Hok2. rewrite (N.mod_small v two32) by lia.
    rewrite (IH _ Hok); [reflexivity|exact Hsm]. }
  destruct (num =? 2) eqn:N2.
  { destruct v; cbn [bind]; try (symmetry; destruct HX as [[ds ->]| ->]; reflexivity).
    destruct (spec_meta_okE p (so_meta so)) as [[m Hm]|Hm]; rewrite Hm; cbn [bind].
    - rewrite (IH _ Hok); [|exact Hsm]. cbn [so_dbis so_fmt so_compat so_meta].
      destruct HX as [[ds ->]| ->]; cbn [bind]; rewrite ?Hm; reflexivity.
    - destruct HX as [[ds ->]| ->]; cbn [bind]; rewrite ?Hm; reflexivity. }
  destruct (num =? 3) eqn:N3.
  { destruct v; cbn [bind]; try (symmetry; destruct HX as [[ds ->]| ->]; reflexivity).
    apply andb_prop in Hok2. destruct Hok2 as [Hl Hdo].
    unfold dbi_ok in Hdo. unfold sub_fields, spec_dbi. destruct (wire_parse p) as [fsq|] eqn:Hwq; [|discriminate].
    assert (Hq : (zlen p <= max_int)%Z) by (apply (lenN_zlen p MaxFieldLength); [lia|exact maxlen_snapshot_small]).
    change dbi0 with (mkDbi [] 0 [] []). rewrite spec_dbi_two_pass. change ([], 0, []) with idx0.
    destruct (idx_fold_okE fsq idx0) as [[t Ht]|Ht]; rewrite Ht; cbn [bind].
    - rewrite (IH _ Hok); [|apply Forall_app; split; [exact Hsm|constructor; [exact Hq|constructor]]].
      cbn [so_dbis so_fmt so_compat so_meta]. rewrite mapM_app1.
      destruct HX as [[ds ->]| ->]; cbn [bind]; [|reflexivity].
      unfold dbi_content. cbn [o_data o_name o_flags o_transform].
      rewrite (all_entries_spec p fsq Hq Hwq Hdo).
      destruct (ent_fold fsq []) as [es|err| |]; reflexivity.
    - destruct HX as [[ds ->]| ->]; reflexivity. }
  cbn [bind]. rewrite (IH _ Hok); [|exact Hsm].
  destruct HX as [[ds ->]| ->]; reflexivity.
Qed.

(* C07_forward_compat *)
Theorem forward_compat m fs : (zlen m <= max_int)%Z ->
  wire_parse m = Some fs -> schema_ok fs = true -> custom_decode m = spec_snapshot fs.
Proof.
  intros Hmax Hw Hok. unfold custom_decode, snap_unmarshal, schema_ok in *.
  rewrite (snap_loop_sim m Hmax fs (S (length m)) 0%Z m (mkSnapObj 0 0 meta0 []) (pos_start m) Hw Hok ltac:(lia)).
  pose proof (two_passes fs (mkSnapObj 0 0 meta0 []) Hok ltac:(constructor)) as H.
  unfold finish in H. cbn [so_dbis so_fmt so_compat so_meta mapM bind] in H. exact H.
Qed.
