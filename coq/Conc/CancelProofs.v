(* Conc/CancelProofs.v — once cancelled, the sync loop returns within a bounded number of its own steps,
   from every program counter, for every oracle (results of the library calls), every configuration and
   every set of ready snapshots — under the assumptions A1-A6 listed in Conc/Cancel.v. *)
From LS Require Import Conc.Cancel.

Lemma cancelled_stays : forall f c ch s, cancelled (fst (sstep f c ch s)) = cancelled s.
Proof.
  intros f c ch s. unfold sstep.
  destruct (pc s) as [| a | h | h | | u | | | k | k i | k i a | k | | a | e]; cbn;
    repeat match goal with |- context [if ?b then _ else _] => destruct b end; cbn; auto.
  destruct (sready s); cbn; auto.
Qed.

(* the measure strictly decreases with every step taken after the cancellation (current code) *)
Lemma meas_decreases : forall c ch s, cancelled s = true -> is_returned s = false ->
  meas (fst (sstep true c ch s)) < meas s.
Proof.
  intros c ch s Hc Hr. unfold sstep, is_returned in *. destruct s as [p cn rd nl].
  cbn [pc cancelled sready nloads] in *. subst cn.
  destruct p as [| a | h | h | | u | | | k | k i | k i a | k | | a | e]; try discriminate.
  - unfold after_boot. destruct (ok ch), (has_data c), (tracks c), (flag ch); cbn; unfold m_next; cbn; unfold m_next; cbn; lia.
  - unfold sleep_result. cbn. destruct a, (flag ch); cbn; unfold m_next; cbn; unfold m_next; cbn; lia.
  - destruct (ok ch), (Nat.eqb (local_dbis c) 0), (has_data c), h; cbn; unfold m_next; cbn; unfold m_next; cbn; lia.
  - cbn. lia.
  - destruct rd; cbn; unfold m_next; cbn [length]; lia.
  - destruct (ok ch), (has_ordinary u), (tracks c), (Nat.eqb (local_dbis c) 0); cbn; unfold m_next; cbn; unfold m_next; cbn; lia.
  - destruct (flag ch), (Nat.ltb 10 nl); cbn; unfold m_next; cbn; unfold m_next; cbn; lia.
  - destruct (ok ch), (flag ch); cbn; unfold m_next; cbn; lia.
  - destruct (ok ch), (Nat.eqb (local_dbis c) 0), (recv_only c), (tracks c), k; cbn; unfold m_next; cbn; unfold m_next; cbn; lia.
  - destruct (Nat.ltb i (retry_count c)), (retry_forever c), (ok ch), (Nat.eqb i 0), k; cbn; unfold m_next; cbn; unfold m_next; cbn; lia.
  - unfold sleep_result. cbn. destruct a, (flag ch), k; cbn; unfold m_next; cbn; unfold m_next; cbn; lia.
  - destruct (ok ch), k; cbn; unfold m_next; cbn; unfold m_next; cbn; lia.
  - destruct (only_once c), (flag ch); cbn; unfold m_next; cbn; lia.
  - unfold sleep_result. cbn. destruct a, (flag ch); cbn; unfold m_next; cbn; unfold m_next; cbn; lia.
Qed.

Lemma returned_stays : forall f c o n k s, is_returned s = true -> srun f c o n k s = s.
Proof.
  induction n; intros k s H; cbn; auto. unfold is_returned in H.
  destruct s as [p cn rd nl]; cbn in *. destruct p; try discriminate. cbn. apply IHn. reflexivity.
Qed.

Lemma srun_more : forall f c o m extra k s,
  is_returned (srun f c o m k s) = true -> is_returned (srun f c o (m + extra) k s) = true.
Proof.
  induction m; intros extra k s R; cbn in *.
  - rewrite returned_stays; auto.
  - apply IHm. exact R.
Qed.

(* C17_cancel_returns: from EVERY program counter (cancellation can happen at any moment), with ANY
   results of the library calls from then on, the loop has returned after at most [meas s] of its own
   steps, and [meas s <= 14 + 3 * (number of ready snapshots)]. *)
Theorem cancel_returns : forall c o s k, cancelled s = true ->
  is_returned (srun true c o (meas s) k s) = true.
Proof.
  intros c o s. remember (meas s) as n eqn:E. revert s E.
  induction n as [n IH] using lt_wf_ind. intros s E k Hc.
  destruct (is_returned s) eqn:Hr.
  - rewrite returned_stays; auto.
  - destruct n as [|n'].
    + exfalso. unfold is_returned in Hr. destruct s as [p cn rd nl]; cbn in *.
      destruct p as [| [] | | | | | | | [] | [] | [] ? [] | [] | | [] | ]; cbn in E; unfold m_next in E; try lia; discriminate.
    + cbn [srun]. pose proof (meas_decreases c (o k) s Hc Hr) as D.
      set (s1 := fst (sstep true c (o k) s)) in *.
      assert (C1 : cancelled s1 = true) by (unfold s1; rewrite cancelled_stays; auto).
      assert (L : meas s1 <= n') by lia.
      (* run meas s1 steps to return, the remaining steps keep it returned *)
      assert (R : is_returned (srun true c o (meas s1) (S k) s1) = true) by (apply (IH (meas s1)); auto; lia).
      replace n' with (meas s1 + (n' - meas s1)) by lia.
      apply srun_more. exact R.
Qed.

Theorem meas_bound : forall s, meas s <= 14 + 3 * length (sready s).
Proof.
  intros [p cn rd nl]. cbn. destruct p as [| [] | | | | | | | [] | [] | [] ? [] | [] | | [] | ];
    cbn; unfold m_next; lia.
Qed.

(* regression: before commit a904e94 the boot loop slept with time.Sleep.  With a listing that keeps
   failing, a cancelled loop never returns: after any number of steps it is still in the boot loop. *)
Definition list_fails : nat -> choice := fun _ => mkCh false false.
Theorem prefix_boot_never_returns : forall c n k s, cancelled s = true ->
  (pc s = SBootList \/ exists a, pc s = SBootSleep a) ->
  is_returned (srun false c list_fails n k s) = false.
Proof.
  induction n; intros k s Hc Hp; cbn.
  - destruct Hp as [Hp | [a Hp]]; unfold is_returned; rewrite Hp; reflexivity.
  - apply IHn.
    + rewrite cancelled_stays; auto.
    + destruct s as [p cn rd nl]; cbn in *. destruct Hp as [Hp | [a Hp]]; subst p; cbn.
      * right. eauto.
      * left. reflexivity.
Qed.
(* the same situation on the current code: returns with the second step at the latest *)
Example fixed_boot_returns : forall c s, cancelled s = true -> pc s = SBootList ->
  is_returned (srun true c list_fails 2 0 s) = true.
Proof.
  intros c [p cn rd nl] Hc Hp; cbn in *. subst. reflexivity.
Qed.
