(* Conc/GlobalStorageProofs.v — GetGlobal/SetGlobal under every interleaving of any number of getters
   and setters (fixed = true: the code as it is). *)
From LS Require Import Conc.Topics Conc.GlobalStorage.

Inductive greach (s0 : gstate) : gstate -> Prop :=
| gr_init : greach s0 s0
| gr_step : forall s t s' br, greach s0 s -> gstep true s t = Some (s', br) -> greach s0 s'.

Definition wholds (k : wpc) : bool := match k with WIdle => false | _ => true end.
Definition greads (k : gpc) : bool :=
  match k with GRead1 | GUnl1 _ | GRead2 | GUnl2 _ => true | _ => false end.
(* the local variable st of GetGlobal *)
Definition gloc (k : gpc) : option (option N) :=
  match k with GUnl1 st | GTest1 st | GUnl2 st | GTest2 st => Some st | _ => None end.
(* after wait() has returned *)
Definition gpast (k : gpc) : bool :=
  match k with GLock2 | GRead2 | GUnl2 _ | GTest2 _ => true | _ => false end.
Definition gsecond (k : gpc) : bool := match k with GUnl2 _ | GTest2 _ => true | _ => false end.

Record ginv (s : gstate) : Prop := mkGI {
  h_bad : gbad s = false;
  h_w1 : forall w, wholds (wp s w) = true -> wmu s = Some w;
  h_w2 : forall w, wmu s = Some w -> wholds (wp s w) = true;
  h_r1 : forall g, greads (gp s g) = true -> rd s g = true;
  h_r2 : forall g, rd s g = true -> greads (gp s g) = true /\ g < ng s /\ wmu s = None;
  h_ready : ready s = true ->
            storage s <> None \/ match wmu s with Some w => wp s w = WAssign | None => False end;
  h_stor : forall h, storage s = Some h -> ready s = true /\ In h (hist s);
  h_wu : forall w, wp s w = WUnlock -> storage s <> None;
  h_past : forall g, gpast (gp s g) = true -> ready s = true;
  h_st2 : forall g st, gsecond (gp s g) = true -> gloc (gp s g) = Some st -> st <> None;
  h_loc : forall g h, gloc (gp s g) = Some (Some h) -> In h (hist s);
  h_res : forall g r, In r (gres s g) -> exists h, r = Some h /\ In h (hist s);
  h_ws : forall w, wholds (wp s w) = true -> ws s w <> [];
  h_wa : forall w, wp s w = WAssign -> ready s = true
}.

Lemma ginv_init : forall n wscr gcnt, ginv (ginit n wscr gcnt).
Proof.
  intros. constructor; cbn; intros; try discriminate; try tauto; try contradiction.
Qed.

Ltac gsimp0 :=
  cbn [wmu rd storage ready gbad wp ws gp gc gres hist ng g_set_wmu g_set_rd g_set_ready g_set_bad g_set_wp
       g_set_gp g_assign g_pop g_return wholds greads gloc gpast gsecond] in *.
Ltac gsimp := gsimp0; unfold upd in *; gsimp0.
Ltac geqb :=
  repeat match goal with
         | H : context [Nat.eqb ?a ?b] |- _ => destruct (Nat.eqb_spec a b); subst
         | |- context [Nat.eqb ?a ?b] => destruct (Nat.eqb_spec a b); subst
         end.
Ltac gdm H :=
  repeat match type of H with
         | context [match ?x with _ => _ end] =>
             lazymatch x with
             | context [match _ with _ => _ end] => fail
             | _ => destruct x eqn:?; try discriminate H
             end
         end.
Ltac gstep_inv H := unfold gstep in H; gdm H; inversion H; subst; clear H.

Lemma no_reader_spec : forall s n, no_reader s n = true -> forall g, g < n -> rd s g = false.
Proof.
  induction n; cbn; intros H g Hg; [lia|]. apply andb_prop in H. destruct H as [H1 H2].
  apply negb_true_iff in H1. destruct (Nat.eq_dec g n); subst; auto. apply IHn; auto. lia.
Qed.

Lemma g_is_none_true : forall A (o : option A), is_none o = true -> o = None.
Proof. destruct o; cbn; congruence. Qed.

Definition gmark (P : Prop) : Prop := P.
Ltac gnotHyp P := lazymatch goal with | _ : gmark P |- _ => fail | _ => idtac end.
Ltac gderive P tac :=
  gnotHyp P; let Hm := fresh "Hm" in let Hd := fresh "Hd" in
  assert (Hm : gmark P) by (unfold gmark; tac); pose proof Hm as Hd; unfold gmark in Hd.

Ltac gfwd1 I :=
  match goal with
  | H : is_none _ = true |- _ => apply g_is_none_true in H
  | H : andb _ _ = true |- _ => apply andb_prop in H
  | H : negb _ = true |- _ => apply negb_true_iff in H
  | H : negb _ = false |- _ => apply negb_false_iff in H
  | H : _ /\ _ |- _ => destruct H
  | H : Nat.ltb _ _ = true |- _ => apply Nat.ltb_lt in H
  | H : no_reader ?s ?n = true, H2 : ?g < ?n |- _ =>
      gderive (rd s g = false) ltac:(exact (no_reader_spec _ _ H _ H2))
  | H : wp ?s ?w = _ |- _ =>
      gderive (wmu s = Some w) ltac:(apply (h_w1 _ I); rewrite H; reflexivity)
  | H : wholds (wp ?s ?w) = true |- _ => gderive (wmu s = Some w) ltac:(exact (h_w1 _ I _ H))
  | H : wmu ?s = Some ?w |- _ => gderive (wholds (wp s w) = true) ltac:(exact (h_w2 _ I _ H))
  | H : gp ?s ?g = _ |- _ =>
      gderive (rd s g = true) ltac:(apply (h_r1 _ I); rewrite H; reflexivity)
  | H : greads (gp ?s ?g) = true |- _ => gderive (rd s g = true) ltac:(exact (h_r1 _ I _ H))
  | H : rd ?s ?g = true |- _ =>
      gderive (greads (gp s g) = true /\ g < ng s /\ wmu s = None) ltac:(exact (h_r2 _ I _ H))
  | H : gp ?s ?g = _ |- _ =>
      gderive (ready s = true) ltac:(apply (h_past _ I g); rewrite H; reflexivity)
  | H : gpast (gp ?s ?g) = true |- _ => gderive (ready s = true) ltac:(exact (h_past _ I _ H))
  | H : storage ?s = Some ?h |- _ =>
      gderive (ready s = true /\ In h (hist s)) ltac:(exact (h_stor _ I _ H))
  | H : wp ?s ?w = WUnlock |- _ => gderive (storage s <> None) ltac:(exact (h_wu _ I _ H))
  | H : wp ?s ?w = _ |- _ =>
      gderive (ws s w <> []) ltac:(apply (h_ws _ I); rewrite H; reflexivity)
  | H : wp ?s ?w = WAssign |- _ => gderive (ready s = true) ltac:(exact (h_wa _ I _ H))
  | H : ready ?s = true |- _ =>
      gderive (storage s <> None \/ match wmu s with Some w => wp s w = WAssign | None => False end)
              ltac:(exact (h_ready _ I H))
  | H : gp ?s ?g = GTest2 ?st |- _ =>
      gderive (st <> None) ltac:(apply (h_st2 _ I g); rewrite H; reflexivity)
  | H : gp ?s ?g = GUnl2 ?st |- _ =>
      gderive (st <> None) ltac:(apply (h_st2 _ I g); rewrite H; reflexivity)
  end.
Ltac gfwd I := repeat gfwd1 I.
Ltac grw :=
  repeat match goal with
         | H : wp ?s ?w = _, H2 : context [wp ?s ?w] |- _ => rewrite H in H2
         | H : gp ?s ?g = _, H2 : context [gp ?s ?g] |- _ => rewrite H in H2
         | H : wp ?s ?w = _ |- context [wp ?s ?w] => rewrite H
         | H : gp ?s ?g = _ |- context [gp ?s ?g] => rewrite H
         end.
Ltac gsplit_ready :=
  try match goal with
      | Hd : _ \/ match wmu _ with _ => _ end |- _ =>
          destruct Hd as [Hd | Hd];
          [| repeat match goal with Hw : wmu _ = _ |- _ => rewrite Hw in Hd end]
      end.
Ltac gfin I := gfwd I; gsplit_ready; grw; gsimp0; try discriminate; try congruence; try contradiction; auto.

Lemma gstep_bad : forall s t s' br, ginv s -> gstep true s t = Some (s', br) -> gbad s' = false.
Proof.
  intros s t s' br I H. pose proof (h_bad _ I). destruct t as [w | g]; gstep_inv H; gsimp; auto.
  all: gfin I.
Qed.

Lemma gstep_w1 : forall s t s' br, ginv s -> gstep true s t = Some (s', br) ->
  forall w0, wholds (wp s' w0) = true -> wmu s' = Some w0.
Proof.
  intros s t s' br I H w0. destruct t as [w | g]; gstep_inv H; gsimp; geqb; gsimp0; intros Hq;
    try discriminate; try reflexivity; gfin I.
Qed.
Lemma gstep_w2 : forall s t s' br, ginv s -> gstep true s t = Some (s', br) ->
  forall w0, wmu s' = Some w0 -> wholds (wp s' w0) = true.
Proof.
  intros s t s' br I H w0. destruct t as [w | g]; gstep_inv H; gsimp; geqb; gsimp0; intros Hq;
    try discriminate; try reflexivity; gfin I.
Qed.
Lemma gstep_r1 : forall s t s' br, ginv s -> gstep true s t = Some (s', br) ->
  forall g0, greads (gp s' g0) = true -> rd s' g0 = true.
Proof.
  intros s t s' br I H g0. destruct t as [w | g]; gstep_inv H; gsimp; geqb; gsimp0; intros Hq;
    try discriminate; try reflexivity; gfin I.
Qed.
Lemma gstep_r2 : forall s t s' br, ginv s -> gstep true s t = Some (s', br) ->
  forall g0, rd s' g0 = true -> greads (gp s' g0) = true /\ g0 < ng s' /\ wmu s' = None.
Proof.
  intros s t s' br I H g0. destruct t as [w | g]; gstep_inv H; gsimp; geqb; gsimp0; intros Hq;
    try discriminate; gfin I.
Qed.
Lemma gstep_ready : forall s t s' br, ginv s -> gstep true s t = Some (s', br) ->
  ready s' = true ->
  storage s' <> None \/ match wmu s' with Some w => wp s' w = WAssign | None => False end.
Proof.
  intros s t s' br I H. destruct t as [w | g]; gstep_inv H; gsimp; geqb; gsimp0; intros Hq;
    try (left; discriminate); try (right; reflexivity); gfin I.
  all: try (right; repeat match goal with Hw : wmu _ = _ |- _ => rewrite Hw end;
            rewrite ?Nat.eqb_refl; geqb; congruence).
Qed.
Lemma gstep_stor : forall s t s' br, ginv s -> gstep true s t = Some (s', br) ->
  forall h, storage s' = Some h -> ready s' = true /\ In h (hist s').
Proof.
  intros s t s' br I H h. destruct t as [w | g]; gstep_inv H; gsimp; geqb; gsimp0; intros Hq;
    try discriminate; gfin I.
  all: try (inversion Hq; subst; split; [| left; reflexivity]; gfin I).
  all: try (split; auto; right; auto).
Qed.
Lemma gstep_wu : forall s t s' br, ginv s -> gstep true s t = Some (s', br) ->
  forall w0, wp s' w0 = WUnlock -> storage s' <> None.
Proof.
  intros s t s' br I H w0. destruct t as [w | g]; gstep_inv H; gsimp; geqb; gsimp0; intros Hq;
    try discriminate; gfin I.
Qed.
Lemma gstep_wa : forall s t s' br, ginv s -> gstep true s t = Some (s', br) ->
  forall w0, wp s' w0 = WAssign -> ready s' = true.
Proof.
  intros s t s' br I H w0. destruct t as [w | g]; gstep_inv H; gsimp; geqb; gsimp0; intros Hq;
    try discriminate; gfin I.
Qed.
Lemma gstep_past : forall s t s' br, ginv s -> gstep true s t = Some (s', br) ->
  forall g0, gpast (gp s' g0) = true -> ready s' = true.
Proof.
  intros s t s' br I H g0. destruct t as [w | g]; gstep_inv H; gsimp; geqb; gsimp0; intros Hq;
    try discriminate; gfin I.
Qed.
Lemma gstep_st2 : forall s t s' br, ginv s -> gstep true s t = Some (s', br) ->
  forall g0 st, gsecond (gp s' g0) = true -> gloc (gp s' g0) = Some st -> st <> None.
Proof.
  intros s t s' br I H g0 st. pose proof (h_st2 _ I g0 st) as S2.
  destruct t as [w | g]; gstep_inv H; gsimp; geqb; gsimp0; intros Hq Hl;
    try discriminate; auto; try (inversion Hl; subst; clear Hl); gfin I.
Qed.
Lemma gstep_loc : forall s t s' br, ginv s -> gstep true s t = Some (s', br) ->
  forall g0 h, gloc (gp s' g0) = Some (Some h) -> In h (hist s').
Proof.
  intros s t s' br I H g0 h. pose proof (h_loc _ I g0 h) as L.
  destruct t as [w | g]; gstep_inv H; gsimp; geqb; gsimp0; intros Hq;
    try discriminate; auto; try (right; auto; fail); try (inversion Hq; subst; clear Hq); gfin I.
  all: try (apply (h_loc _ I g); rewrite ?Heqg0, ?Heqg1; reflexivity).
Qed.
Lemma gstep_res : forall s t s' br, ginv s -> gstep true s t = Some (s', br) ->
  forall g0 r, In r (gres s' g0) -> exists h, r = Some h /\ In h (hist s').
Proof.
  intros s t s' br I H g0 r. pose proof (h_res _ I g0 r) as R.
  destruct t as [w | g]; gstep_inv H; gsimp; geqb; gsimp0; intros Hq; auto.
  all: try (destruct (R Hq) as (h0 & E1 & E2); exists h0; split; auto; right; auto; fail).
  all: try (destruct Hq as [Hq | Hq]; auto; subst; eexists; split; [reflexivity|];
            apply (h_loc _ I g); rewrite ?Heqg0, ?Heqg1; reflexivity).
Qed.
Lemma gstep_ws : forall s t s' br, ginv s -> gstep true s t = Some (s', br) ->
  forall w0, wholds (wp s' w0) = true -> ws s' w0 <> [].
Proof.
  intros s t s' br I H w0. pose proof (h_ws _ I w0) as W.
  destruct t as [w | g]; gstep_inv H; gsimp; geqb; gsimp0; intros Hq;
    try discriminate; auto; gfin I.
Qed.

Theorem ginv_step : forall s t s' br, ginv s -> gstep true s t = Some (s', br) -> ginv s'.
Proof.
  intros s t s' br I H. constructor.
  - eapply gstep_bad; eauto.
  - eapply gstep_w1; eauto.
  - eapply gstep_w2; eauto.
  - eapply gstep_r1; eauto.
  - eapply gstep_r2; eauto.
  - eapply gstep_ready; eauto.
  - eapply gstep_stor; eauto.
  - eapply gstep_wu; eauto.
  - eapply gstep_past; eauto.
  - eapply gstep_st2; eauto.
  - eapply gstep_loc; eauto.
  - eapply gstep_res; eauto.
  - eapply gstep_ws; eauto.
  - eapply gstep_wa; eauto.
Qed.

Theorem ginv_reach : forall n wscr gcnt s, greach (ginit n wscr gcnt) s -> ginv s.
Proof. intros n wscr gcnt s R. induction R; [apply ginv_init | eapply ginv_step; eauto]. Qed.

(* ---------- consequences ---------- *)

(* no panic: neither "Storage still nil after wait()" nor a second close(ready) is reachable *)
Theorem get_no_panic : forall n wscr gcnt s, greach (ginit n wscr gcnt) s -> gbad s = false.
Proof. intros. eapply h_bad, ginv_reach; eauto. Qed.

(* every GetGlobal that returns, returns a (non-nil) handle that some SetGlobal stored *)
Theorem get_returns_set_handle : forall n wscr gcnt s g r,
  greach (ginit n wscr gcnt) s -> In r (gres s g) -> exists h, r = Some h /\ In h (hist s).
Proof. intros. eapply h_res; eauto. eapply ginv_reach; eauto. Qed.

(* [hist] really is the list of handles passed to SetGlobal: it only grows by the head of a setter's script *)
Lemma hist_from_scripts : forall b s t s' br, gstep b s t = Some (s', br) ->
  hist s' = hist s \/ exists w h r, t = GSet w /\ ws s w = h :: r /\ hist s' = h :: hist s.
Proof.
  intros b s t s' br H. destruct t as [w | g]; gstep_inv H; gsimp; auto.
  right. eauto 8.
Qed.

(* storage, once set, is never nil again; ready, once closed, stays closed *)
Lemma gstep_mono : forall b s t s' br, gstep b s t = Some (s', br) ->
  (ready s = true -> ready s' = true) /\ (storage s <> None -> storage s' <> None).
Proof.
  intros b s t s' br H. destruct t as [w | g]; gstep_inv H; gsimp; split; auto; try discriminate.
  congruence.
Qed.

(* a SetGlobal that holds the lock is never blocked (and does not panic) *)
Theorem setter_never_blocks : forall s w, ginv s -> wholds (wp s w) = true ->
  exists s' br, gstep true s (GSet w) = Some (s', br) /\ gbad s' = false.
Proof.
  intros s w I Hw. pose proof (h_bad _ I) as Hb. pose proof (h_ws _ I w Hw) as Hs.
  assert (E : exists res, gstep true s (GSet w) = Some res).
  { unfold gstep. rewrite Hb. destruct (wp s w) eqn:E; try discriminate.
    - destruct (storage s); eauto. destruct (ready s); eauto.
    - destruct (ws s w); [congruence | eauto].
    - eauto. }
  destruct E as [[s' br] E]. exists s', br. split; auto. eapply gstep_bad; eauto.
Qed.

(* once ready is closed, a GetGlobal is never blocked except by a SetGlobal that holds the lock (which,
   by the previous theorem, is itself never blocked and unlocks after at most 3 of its own steps) *)
Theorem getter_not_blocked : forall s g, ginv s -> ready s = true -> g < ng s ->
  (gp s g = GIdle -> gc s g <> 0) ->
  (exists res, gstep true s (GGet g) = Some res) \/ (exists w, wmu s = Some w /\ wholds (wp s w) = true).
Proof.
  intros s g I Hr Hg Hc. pose proof (h_bad _ I) as Hb. apply Nat.ltb_lt in Hg.
  unfold gstep. rewrite Hb, Hg. cbn [negb].
  destruct (wmu s) as [w|] eqn:Ew.
  - right. exists w. split; auto. apply (h_w2 _ I); auto.
  - left. cbn [is_none]. destruct (gp s g) as [| | st | [h|] | | | | st | [h|]] eqn:E; eauto.
    + destruct (gc s g); [exfalso; apply Hc; auto | eauto].
    + rewrite Hr. eauto.
Qed.

Definition grank (k : gpc) : nat :=
  match k with
  | GIdle => 4 | GRead1 => 3 | GUnl1 (Some _) => 2 | GUnl1 None => 7 | GTest1 (Some _) => 1 | GTest1 None => 6
  | GWait => 5 | GLock2 => 4 | GRead2 => 3 | GUnl2 _ => 2 | GTest2 _ => 1
  end.

Lemma g_next : forall s g, ginv s -> ready s = true -> wmu s = None -> g < ng s ->
  (gp s g = GIdle -> gc s g <> 0) ->
  exists s1 br, gstep true s (GGet g) = Some (s1, br) /\ wmu s1 = None /\ ready s1 = true /\ ng s1 = ng s /\
    ((gp s1 g <> GIdle /\ grank (gp s1 g) < grank (gp s g) /\ gres s1 g = gres s g /\ gc s1 g = gc s g) \/
     (exists h, gp s1 g = GIdle /\ gres s1 g = Some h :: gres s g /\ gc s1 g = pred (gc s g) /\ In h (hist s1))).
Proof.
  intros s g I Hr Hw Hg Hc. pose proof (h_bad _ I) as Hb. pose proof Hg as Hg'. apply Nat.ltb_lt in Hg.
  assert (Hst : storage s <> None).
  { destruct (h_ready _ I Hr) as [A | A]; auto. rewrite Hw in A. contradiction. }
  unfold gstep. rewrite Hb, Hg, Hw. cbn [negb is_none].
  destruct (gp s g) as [| | st | [h|] | | | | st | [h|]] eqn:E.
  - destruct (gc s g) eqn:Egc; [exfalso; apply Hc; auto|].
    do 2 eexists. split; [reflexivity|]. gsimp. rewrite Nat.eqb_refl. repeat split; auto.
    left. repeat split; auto; try discriminate; try (cbn; lia).
  - do 2 eexists. split; [reflexivity|]. gsimp. rewrite Nat.eqb_refl. repeat split; auto.
    left. repeat split; auto; try discriminate. destruct (storage s); [cbn; lia | congruence].
  - do 2 eexists. split; [reflexivity|]. gsimp. rewrite Nat.eqb_refl. repeat split; auto.
    left. repeat split; auto; try discriminate. destruct st; cbn; lia.
  - do 2 eexists. split; [reflexivity|]. gsimp. rewrite !Nat.eqb_refl. repeat split; auto.
    right. exists h. repeat split; auto. apply (h_loc _ I g). rewrite E. reflexivity.
  - do 2 eexists. split; [reflexivity|]. gsimp. rewrite Nat.eqb_refl. repeat split; auto.
    left. repeat split; auto; try discriminate; try (cbn; lia).
  - rewrite Hr. do 2 eexists. split; [reflexivity|]. gsimp. rewrite Nat.eqb_refl. repeat split; auto.
    left. repeat split; auto; try discriminate; try (cbn; lia).
  - do 2 eexists. split; [reflexivity|]. gsimp. rewrite Nat.eqb_refl. repeat split; auto.
    left. repeat split; auto; try discriminate; try (cbn; lia).
  - do 2 eexists. split; [reflexivity|]. gsimp. rewrite Nat.eqb_refl. repeat split; auto.
    left. repeat split; auto; try discriminate; try (cbn; lia).
  - do 2 eexists. split; [reflexivity|]. gsimp. rewrite Nat.eqb_refl. repeat split; auto.
    left. repeat split; auto; try discriminate; try (cbn; lia).
  - do 2 eexists. split; [reflexivity|]. gsimp. rewrite !Nat.eqb_refl. repeat split; auto.
    right. exists h. repeat split; auto. apply (h_loc _ I g). rewrite E. reflexivity.
  - exfalso. apply (h_st2 _ I g None); try rewrite E; reflexivity.
Qed.

(* "A caller that asks for the global storage handle before it has been set receives it once it is
   set": from ANY point of GetGlobal (in particular blocked in wait()), once ready is closed and no
   SetGlobal holds the lock, the getter alone finishes within 7 steps, all enabled, and returns a handle
   that was stored by SetGlobal. *)
Theorem get_completes : forall n s g, grank (gp s g) <= n -> ginv s -> ready s = true -> wmu s = None ->
  g < ng s -> (gp s g = GIdle -> gc s g <> 0) ->
  exists m s' h, m <= grank (gp s g) /\ grun true (repeat (GGet g) m) s = Some s' /\
    gp s' g = GIdle /\ gres s' g = Some h :: gres s g /\ gc s' g = pred (gc s g) /\ In h (hist s') /\ ginv s'.
Proof.
  induction n; intros s g Hn I Hr Hw Hg Hc.
  - destruct (gp s g) as [| | [|] | [|] | | | | | ]; cbn in Hn; lia.
  - destruct (g_next s g I Hr Hw Hg Hc) as (s1 & br & S1 & W1 & R1 & N1 & [(A & B & C & D) | (h & A & B & C & D)]).
    + pose proof (ginv_step _ _ _ _ I S1) as I1.
      destruct (IHn s1 g) as (m & s2 & h & Hm & Rn & P & Q & R & T & U); auto; try lia; try congruence.
      exists (S m), s2, h. split; [lia|]. split; [cbn [repeat grun]; rewrite S1; exact Rn|].
      split; auto. split; [congruence|]. split; [congruence|]. split; auto.
    + exists 1, s1, h. split; [destruct (gp s g) as [| | [|] | [|] | | | | | ]; cbn; lia|].
      split; [cbn [repeat grun]; rewrite S1; reflexivity|].
      split; auto. split; auto. split; auto. split; auto. eapply ginv_step; eauto.
Qed.

(* regression: before commit 406e4a6 (inverted test) the getter that waited panics as soon as the storage
   is set.  One getter starts first, one setter stores handle 7. *)
Example prefix_get_panics :
  exists s, grun false [GGet 0; GGet 0; GGet 0; GGet 0;          (* RLock, read nil, RUnlock, test: go wait *)
                        GSet 0; GSet 0; GSet 0; GSet 0;          (* SetGlobal(7): lock, close(ready), assign, unlock *)
                        GGet 0; GGet 0; GGet 0; GGet 0; GGet 0]  (* wait returns, RLock, read 7, RUnlock, test *)
                 (ginit 1 (fun w => match w with 0 => [7%N] | _ => [] end) (fun g => match g with 0 => 1 | _ => 0 end))
            = Some s /\ gbad s = true /\ storage s = Some 7%N.
Proof. eexists. split; [vm_compute; reflexivity|]. split; reflexivity. Qed.
(* the same schedule on the current code returns the handle *)
Example fixed_get_returns :
  exists s, grun true [GGet 0; GGet 0; GGet 0; GGet 0; GSet 0; GSet 0; GSet 0; GSet 0;
                       GGet 0; GGet 0; GGet 0; GGet 0; GGet 0]
                 (ginit 1 (fun w => match w with 0 => [7%N] | _ => [] end) (fun g => match g with 0 => 1 | _ => 0 end))
            = Some s /\ gbad s = false /\ gres s 0 = [Some 7%N] /\ g_pending s (GGet 0) = false.
Proof. eexists. split; [vm_compute; reflexivity|]. repeat split. Qed.



(* ---------- stated over reachable states ---------- *)
Definition storage_reach (s : gstate) : Prop := exists n wscr gcnt, greach (ginit n wscr gcnt) s.

Theorem get_after_set : forall s, storage_reach s ->
  (* no panic is reachable *)
  gbad s = false /\
  (* whatever GetGlobal returned is a non-nil handle that some SetGlobal stored *)
  (forall g r, In r (gres s g) -> exists h, r = Some h /\ In h (hist s)) /\
  (* the storage, once set, is visible: ready is closed whenever storage is set *)
  (forall h, storage s = Some h -> ready s = true) /\
  (* once ready is closed a getter is blocked at most by a SetGlobal holding the lock, which is never blocked *)
  (ready s = true -> forall g, g < ng s -> (gp s g = GIdle -> gc s g <> 0) ->
     (exists res, gstep true s (GGet g) = Some res) \/
     (exists w s' br, wmu s = Some w /\ gstep true s (GSet w) = Some (s', br) /\ gbad s' = false)) /\
  (* and with the lock free it returns within 7 of its own steps — also a getter that started before
     the first SetGlobal and is parked in wait() *)
  (ready s = true -> wmu s = None -> forall g, g < ng s -> (gp s g = GIdle -> gc s g <> 0) ->
     exists m s' h, m <= 7 /\ grun true (repeat (GGet g) m) s = Some s' /\ gp s' g = GIdle /\
       gres s' g = Some h :: gres s g /\ In h (hist s') /\ gbad s' = false).
Proof.
  intros s (n & wscr & gcnt & R). pose proof (ginv_reach _ _ _ _ R) as I.
  split; [apply (h_bad _ I)|]. split; [apply (h_res _ I)|]. split; [intros h Hs; apply (h_stor _ I _ Hs)|]. split.
  - intros Hr g Hg Hc. destruct (getter_not_blocked s g I Hr Hg Hc) as [A | (w & Hw & Hh)]; auto.
    right. destruct (setter_never_blocks s w I Hh) as (s' & br & S & B). exists w, s', br. auto.
  - intros Hr Hw g Hg Hc.
    destruct (get_completes (grank (gp s g)) s g (le_n _) I Hr Hw Hg Hc) as (m & s' & h & A & B & C & D & E & F & G).
    exists m, s', h. repeat split; auto.
    + destruct (gp s g) as [| | [|] | [|] | | | | | ]; cbn in A; lia.
    + apply (h_bad _ G).
Qed.

Lemma grun_reachable : forall sched s0 s s', greach s0 s -> grun true sched s = Some s' -> greach s0 s'.
Proof.
  induction sched as [|t r IH]; cbn; intros s0 s s' R H.
  - inversion H; subst; auto.
  - destruct (gstep true s t) as [[s1 br]|] eqn:E; [|discriminate]. apply (IH s0 s1 s'); auto. eapply gr_step; eauto.
Qed.
