(* Conc/Cancel.v — the blocking points of the sync loop and what cancellation does at each of them.
   EXECUTABLE DEFINITIONS ONLY (proofs: Conc/CancelProofs.v).

   Go: syncer/sync.go syncLoop / LoadOnce, syncer/send.go SendOnce, utils/utils.go SleepContext / IsCanceled.
   This is a control-flow skeleton: data (what is merged, which transaction ids) is the subject of other
   models; here a step is "the loop gets from one blocking point to the next".  Each blocking LIBRARY call
   is a step whose result is chosen by an oracle — and that the call RETURNS AT ALL is an assumption:

     A1  st.List / st.Load / st.Store, called with ctx, return (with any result), also after cancellation
     A2  env.Update / env.View obtain their LMDB transaction and the functions run inside them return
         (env.Update takes NO context: while the application holds the LMDB write lock it blocks)
     A3  Topic.Publish returns (it takes NO context: it blocks until every subscriber has received or is
         closing — Conc/Topics.v; with no subscribers it returns at once)
     A4  after cancellation the receiver makes no further snapshot ready than those in [ready] (its
         downloaders run under the same ctx)
     A5  a SleepContext that STARTS after cancellation sees ctx.Done() ready and its timer (of positive
         duration) not yet fired, so it returns Canceled; one that is already sleeping when the
         cancellation happens may, if its timer fires at the same moment, return nil instead (Go's select
         picks any ready case) — that race is modelled ([after = false] + oracle flag)
     A6  hooks (InstanceReady, SnapshotOverdue, BeforeRead, UpdateSnapshotInfo, UpdateStored) return

   Per-DBI loops that test IsCanceled(ctx) between DBIs (LoadOnce, SendOnce, mainToShadow, shadowToMain)
   are one step each, which returns Canceled iff the context is cancelled when the step is taken and the
   loop has at least one iteration that reaches the test. *)
From Coq Require Export List NArith Bool Lia Arith.
Export ListNotations.

Record cfg := mkCfg {
  tracks : bool;        (* schema_tracks_changes (native mode); false = shadow mode *)
  has_data : bool;      (* info.LastTxnID > 0 at start *)
  only_once : bool;     (* c.OnlyOnce *)
  recv_only : bool;     (* opt.ReceiveOnly *)
  retry_forever : bool; (* c.StorageRetryForever *)
  retry_count : nat;    (* c.StorageRetryCount *)
  local_dbis : nat      (* number of application DBIs in the local LMDB *)
}.

(* a ready remote snapshot: its DBIs, true = ordinary DBI (merged, then IsCanceled is tested),
   false = DBI named _sync* (skipped with `continue`, no test) *)
Definition update := list bool.

Inductive cont := KInit | KLoop.   (* who called SendOnce: the start-up code or the main loop *)

Inductive spc :=
| SBootList                     (* r.RunOnce(ctx, true): st.List *)
| SBootSleep (after : bool)     (* utils.SleepContext(ctx, time.Second); after: it started after the cancellation *)
| SInitShadow (hassnap : bool)  (* env.Update(mainToShadow) at start-up (shadow mode, data present) *)
| SInitSend (hassnap : bool)    (* initial SendOnce if hasDataAtStart && !hasSnapshots *)
| SNext                         (* loadReadySnapshotsLoop: r.Next() *)
| SLoad (u : update)            (* LoadOnce: env.Update(...) *)
| SPubLoaded                    (* s.events.UpdateLoaded.Publish *)
| SCheck                        (* overdue check (Publish), env.Info(), decide whether to send *)
| SSendTxn (k : cont)           (* SendOnce: env.View / env.Update dumping the DBIs *)
| SStore (k : cont) (i : nat)   (* s.st.Store(ctx, name, out), attempt i *)
| SRetrySleep (k : cont) (i : nat) (after : bool)  (* utils.SleepContext(ctx, StorageRetryInterval) *)
| SSendPub (k : cont)           (* hooks.UpdateStored; s.events.UpdateStored.Publish *)
| SOnlyOnce                     (* if c.OnlyOnce && waitingForInstances.Done() { return nil } *)
| SSleep (after : bool)         (* utils.SleepContext(ctx, LMDBPollInterval) *)
| SReturned (err : bool).       (* syncLoop returned (err = true: with an error, e.g. context.Canceled) *)

Record sstate := mkS {
  pc : spc;
  cancelled : bool;        (* ctx.Done() is closed *)
  sready : list update;    (* snapshots the receiver has ready, in the order Next() will hand them out *)
  nloads : nat
}.

(* oracle: result of the blocking call of this step, and one auxiliary bit *)
Record choice := mkCh {
  ok : bool;     (* the library call succeeded *)
  flag : bool    (* List: snapshots exist; Next/Info: local change seen; sleep: timer raced; OnlyOnce: pass done *)
}.

Definition goto (p : spc) (s : sstate) : sstate := mkS p (cancelled s) (sready s) (nloads s).
Definition has_ordinary (u : update) : bool := existsb (fun b => b) u.

(* after SendOnce returned successfully *)
Definition after_send (k : cont) : spc := match k with KInit => SNext | KLoop => SOnlyOnce end.
(* after the start-up listing: mainToShadow, initial send, or straight to the loop *)
Definition after_boot (c : cfg) (hassnap : bool) : spc :=
  if has_data c && negb (tracks c) then SInitShadow hassnap
  else if has_data c && negb hassnap then SInitSend hassnap else SNext.

(* Go: utils.SleepContext under assumption A5; [fixed = false] for the boot loop = time.Sleep (pre a904e94) *)
Definition sleep_result (ctxaware : bool) (s : sstate) (after : bool) (ch : choice) : bool (* true = returns Canceled *) :=
  ctxaware && cancelled s && (after || negb (flag ch)).

Definition sstep (fixed : bool) (c : cfg) (ch : choice) (s : sstate) : sstate * N :=
  match pc s with
  | SBootList =>                                         (* A1 *)
      if ok ch then (goto (after_boot c (flag ch)) s, 1%N)
      else (goto (SBootSleep (cancelled s)) s, 2%N)
  | SBootSleep after =>
      if sleep_result fixed s after ch then (goto (SReturned true) s, 3%N)
      else (goto SBootList s, 4%N)
  | SInitShadow hs =>                                    (* A2; mainToShadow tests IsCanceled after each DBI *)
      if negb (ok ch) then (goto (SReturned true) s, 5%N)
      else if cancelled s && negb (Nat.eqb (local_dbis c) 0) then (goto (SReturned true) s, 6%N)
      else (goto (if has_data c && negb hs then SInitSend hs else SNext) s, 7%N)
  | SInitSend _ => (goto (SSendTxn KInit) s, 8%N)
  | SNext =>
      match sready s with
      | [] => (goto SCheck s, 9%N)
      | u :: r => (mkS (SLoad u) (cancelled s) r (S (nloads s)), 10%N)
      end
  | SLoad u =>                                           (* A2 *)
      if negb (ok ch) then (goto (SReturned true) s, 11%N)
      else if cancelled s &&
              (has_ordinary u || (negb (tracks c) && negb (Nat.eqb (local_dbis c) 0)))
           then (goto (SReturned true) s, 12%N)          (* IsCanceled between DBIs *)
      else (goto SPubLoaded s, 13%N)
  | SPubLoaded =>                                        (* A3 *)
      if flag ch && Nat.ltb 10 (nloads s) then (goto SCheck s, 14%N)   (* localChanged && nLoads > 10: break *)
      else (goto SNext s, 15%N)
  | SCheck =>                                            (* A3 (overdue event), env.Info *)
      if negb (ok ch) then (goto (SReturned true) s, 16%N)
      else if flag ch then (goto (SSendTxn KLoop) s, 17%N)
      else (goto SOnlyOnce s, 18%N)
  | SSendTxn k =>                                        (* A2, A6 *)
      if negb (ok ch) then (goto (SReturned true) s, 19%N)
      else if cancelled s && negb (Nat.eqb (local_dbis c) 0) && negb (recv_only c && tracks c)
           then (goto (SReturned true) s, 20%N)          (* IsCanceled after a dumped DBI / in mainToShadow *)
      else if recv_only c then (goto (after_send k) s, 21%N)
      else (goto (SStore k 0) s, 22%N)
  | SStore k i =>
      if Nat.ltb i (retry_count c) || retry_forever c then
        (if ok ch then (goto (SSendPub k) s, 23%N)                       (* A1 *)
         else (goto (SRetrySleep k (S i) (cancelled s)) s, 24%N))
      else if Nat.eqb i 0 then (goto (after_send k) s, 25%N)             (* retry_count = 0: loop body never ran, err == nil *)
      else (goto (SReturned true) s, 26%N)                               (* "Store failed too many times" *)
  | SRetrySleep k i after =>
      if sleep_result true s after ch then (goto (SReturned true) s, 27%N)
      else (goto (SStore k i) s, 28%N)
  | SSendPub k =>                                        (* A6, A3 *)
      if negb (ok ch) then (goto (SReturned true) s, 29%N)               (* hooks.UpdateStored failed *)
      else (goto (after_send k) s, 30%N)
  | SOnlyOnce =>
      if only_once c && flag ch then (goto (SReturned false) s, 31%N)
      else (goto (SSleep (cancelled s)) s, 32%N)
  | SSleep after =>
      if sleep_result true s after ch then (goto (SReturned true) s, 33%N)
      else (goto SNext s, 34%N)
  | SReturned e => (s, 0%N)
  end.

Definition sbranches_all : list N :=
  [1;2;3;4;5;6;7;8;9;10;11;12;13;14;15;16;17;18;19;20;21;22;23;24;25;26;27;28;29;30;31;32;33;34]%N.

Definition is_returned (s : sstate) : bool := match pc s with SReturned _ => true | _ => false end.

(* run n steps, the oracle indexed by step number *)
Fixpoint srun (fixed : bool) (c : cfg) (o : nat -> choice) (n : nat) (k : nat) (s : sstate) : sstate :=
  match n with
  | O => s
  | S n' => srun fixed c o n' (S k) (fst (sstep fixed c (o k) s))
  end.

(* how many of its own steps the loop needs at most to return, once cancelled (CancelProofs.v) *)
Definition m_next (r : list update) : nat := 7 + 3 * length r.
Definition meas (s : sstate) : nat :=
  let r := sready s in
  match pc s with
  | SReturned _ => 0
  | SSleep true => 1
  | SOnlyOnce => 2
  | SSendPub KLoop => 3
  | SRetrySleep _ _ true => 1
  | SStore KLoop _ => 4
  | SRetrySleep KLoop _ false => 5
  | SSendTxn KLoop => 5
  | SCheck => 6
  | SNext => m_next r
  | SPubLoaded => 1 + m_next r
  | SLoad _ => 2 + m_next r
  | SSleep false => 1 + m_next r
  | SSendPub KInit => 1 + m_next r
  | SStore KInit _ => 2 + m_next r
  | SRetrySleep KInit _ false => 3 + m_next r
  | SSendTxn KInit => 3 + m_next r
  | SInitSend _ => 4 + m_next r
  | SInitShadow _ => 5 + m_next r
  | SBootList => 6 + m_next r
  | SBootSleep true => 1
  | SBootSleep false => 7 + m_next r
  end.

(* ---- scenario runner for the correspondence: the oracle is a function of the blocking point; run until
   the loop sits at the [nth] occurrence of a blocking point recognised by [at_pt], cancel there (the call
   in progress at that point returns what [o_after] says), then run on ---- *)
Fixpoint run_until (fixed : bool) (c : cfg) (o : spc -> choice) (at_pt : spc -> bool) (nth fuel : nat)
         (s : sstate) (cov : list N) : option (sstate * list N) :=
  match fuel with
  | O => None
  | S f =>
      if is_returned s then None
      else if at_pt (pc s) then
        (match nth with
         | O => Some (s, cov)
         | S n' => let r := sstep fixed c (o (pc s)) s in run_until fixed c o at_pt n' f (fst r) (snd r :: cov)
         end)
      else let r := sstep fixed c (o (pc s)) s in run_until fixed c o at_pt nth f (fst r) (snd r :: cov)
  end.
Fixpoint run_cov (fixed : bool) (c : cfg) (o : spc -> choice) (n : nat) (s : sstate) (cov : list N)
  : sstate * list N :=
  match n with
  | O => (s, cov)
  | S n' => if is_returned s then (s, cov)
            else let r := sstep fixed c (o (pc s)) s in run_cov fixed c o n' (fst r) (snd r :: cov)
  end.
