(* Conc/Climit.v — utils/climit: a pool of tokens in a buffered channel; Token.Release under Token.mu with
   the [released] flag.  EXECUTABLE DEFINITIONS ONLY (proofs: Conc/ClimitProofs.v).

   Go: utils/climit/climit.go
     New:      ch = make(chan internalToken, limit), filled with limit tokens
     Acquire:  it := <-cl.ch ; returns a fresh *Token{released: false}
     Release:  t.mu.Lock(); defer t.mu.Unlock(); if t.released { return 0 }; t.cl.ch <- t.token;
               t.released = true; ...; t.cl = nil
   Atomicity assumptions (not provable here; supported by the race-detector run): Token.released,
   Token.cl and Token.token are only accessed under Token.mu; the pool is a Go channel.  The Prometheus
   gauges are not modelled.

   Threads: [CAcq a] calls Acquire [acnt a] times; [CRel r] calls Release on token number [rtok r]
   (tokens are numbered in the order Acquire hands them out) [rcnt r] times.  Any number of threads may
   release the same token. *)
From Coq Require Export List NArith Bool Lia Arith.
Export ListNotations.
From LS Require Import Conc.Topics.   (* upd, is_none *)

Inductive ctid := CAcq (a : nat) | CRel (r : nat).

Inductive rpc :=
| RIdle
| RCheck     (* holding t.mu: if t.released *)
| RSend      (* t.cl.ch <- t.token *)
| RSet       (* t.released = true; t.cl = nil *)
| RUnlock.   (* deferred t.mu.Unlock() *)

Record tok := mkTok {
  t_rel : bool;          (* Token.released *)
  t_ret : nat;           (* ghost: how many times this token was put back into the pool *)
  t_mu : option nat      (* Token.mu owner (a CRel thread) *)
}.
Definition tok0 : tok := mkTok false 0 None.

Record cstate := mkC {
  pool : nat;            (* len(cl.ch) *)
  limit : nat;           (* cap(cl.ch) *)
  ntok : nat;            (* tokens handed out so far: numbers 0 .. ntok-1 *)
  toks : nat -> tok;
  rp : nat -> rpc;
  rtok : nat -> nat;
  rcnt : nat -> nat;
  acnt : nat -> nat
}.

Definition cinit (lim : nat) (rt rc ac : nat -> nat) : cstate :=
  mkC lim lim 0 (fun _ => tok0) (fun _ => RIdle) rt rc ac.

Definition c_set_tok i x (c : cstate) := mkC (pool c) (limit c) (ntok c) (upd (toks c) i x) (rp c) (rtok c) (rcnt c) (acnt c).
Definition c_set_rp r x (c : cstate) := mkC (pool c) (limit c) (ntok c) (toks c) (upd (rp c) r x) (rtok c) (rcnt c) (acnt c).
Definition c_set_pool x (c : cstate) := mkC x (limit c) (ntok c) (toks c) (rp c) (rtok c) (rcnt c) (acnt c).

(* [checked = true]: the code as it is.  [checked = false]: Release without the [released] test (a seeded bug
   used only in regression Examples). *)
Definition cstep (checked : bool) (c : cstate) (t : ctid) : option (cstate * N) :=
  match t with
  | CAcq a =>                                                  (* Go: Acquire: it := <-cl.ch *)
      match acnt c a, pool c with
      | S k, S p' => Some (mkC p' (limit c) (S (ntok c)) (upd (toks c) (ntok c) tok0) (rp c) (rtok c) (rcnt c)
                               (upd (acnt c) a k), 1%N)
      | _, _ => None                                           (* nothing to do / pool empty: blocks *)
      end
  | CRel r =>
      let i := rtok c r in
      let tk := toks c i in
      match rp c r with
      | RIdle =>                                               (* Go: Release: t.mu.Lock() *)
          match rcnt c r with
          | S _ => if Nat.ltb i (ntok c) && is_none (t_mu tk)
                   then Some (c_set_rp r RCheck (c_set_tok i (mkTok (t_rel tk) (t_ret tk) (Some r)) c), 2%N)
                   else None
          | O => None
          end
      | RCheck =>                                              (* if t.released { return 0 } *)
          if checked && t_rel tk then Some (c_set_rp r RUnlock c, 3%N)
          else Some (c_set_rp r RSend c, 4%N)
      | RSend =>                                               (* t.cl.ch <- t.token  (blocks when the channel is full) *)
          if Nat.ltb (pool c) (limit c)
          then Some (c_set_rp r RSet (c_set_pool (S (pool c)) (c_set_tok i (mkTok (t_rel tk) (S (t_ret tk)) (t_mu tk)) c)), 5%N)
          else None
      | RSet =>                                                (* t.released = true *)
          Some (c_set_rp r RUnlock (c_set_tok i (mkTok true (t_ret tk) (t_mu tk)) c), 6%N)
      | RUnlock =>                                             (* t.mu.Unlock(); Release returns *)
          Some (mkC (pool c) (limit c) (ntok c) (upd (toks c) i (mkTok (t_rel tk) (t_ret tk) None))
                    (upd (rp c) r RIdle) (rtok c) (upd (rcnt c) r (pred (rcnt c r))) (acnt c), 7%N)
      end
  end.

Definition cbranches_all : list N := [1;2;3;4;5;6;7]%N.

Fixpoint crun (checked : bool) (sched : list ctid) (c : cstate) : option cstate :=
  match sched with
  | [] => Some c
  | t :: r => match cstep checked c t with Some (c', _) => crun checked r c' | None => None end
  end.

(* total number of returns over tokens 0..n-1 *)
Fixpoint sumret (f : nat -> tok) (n : nat) : nat :=
  match n with O => 0 | S n' => t_ret (f n') + sumret f n' end.

(* ---- finite exploration for the correspondence runner: na acquirers, nr releasers ---- *)
Definition c_tids (na nr : nat) : list ctid := map CAcq (seq 0 na) ++ map CRel (seq 0 nr).
Definition c_succs (checked : bool) (na nr : nat) (c : cstate) : list (cstate * N) :=
  flat_map (fun t => match cstep checked c t with Some r => [r] | None => [] end) (c_tids na nr).
Definition enc_rpc (k : rpc) : N := match k with RIdle => 0 | RCheck => 1 | RSend => 2 | RSet => 3 | RUnlock => 4 end%N.
Definition c_encode (na nr : nat) (c : cstate) : list N :=
  [N.of_nat (pool c); N.of_nat (ntok c)]
  ++ flat_map (fun i => let t := toks c i in
                 [enc_bool (t_rel t); N.of_nat (t_ret t); match t_mu t with None => 0%N | Some r => N.of_nat (S r) end])
              (seq 0 (ntok c))
  ++ flat_map (fun r => [enc_rpc (rp c r); N.of_nat (rcnt c r)]) (seq 0 nr)
  ++ map (fun a => N.of_nat (acnt c a)) (seq 0 na).

Record cxres := mkCX { cx_finals : list cstate; cx_seen : trie; cx_cov : list N; cx_out : bool }.
Fixpoint c_explore (checked : bool) (na nr fuel : nat) (todo : list cstate) (r : cxres) : cxres :=
  match fuel with
  | O => match todo with [] => r | _ => mkCX (cx_finals r) (cx_seen r) (cx_cov r) true end
  | S f =>
      match todo with
      | [] => r
      | c :: rest =>
          let e := c_encode na nr c in
          if tmem e (cx_seen r) then c_explore checked na nr f rest r
          else
            let sc := c_succs checked na nr c in
            c_explore checked na nr f (map fst sc ++ rest)
              (mkCX (match sc with [] => c :: cx_finals r | _ => cx_finals r end) (tadd e (cx_seen r))
                    (fold_left (fun cv p => ins_cov (snd p) cv) sc (cx_cov r)) (cx_out r))
      end
  end.
Definition c_pending (c : cstate) (t : ctid) : bool :=
  match t with
  | CAcq a => negb (Nat.eqb (acnt c a) 0)
  | CRel r => negb (Nat.eqb (rcnt c r) 0)
  end.
