(* Conc/ClimitProofs.v — Token.Release is idempotent under every interleaving, for any number of
   releasing goroutines, tokens and Release calls (checked = true: the code as it is). *)
From LS Require Import Conc.Topics Conc.Climit.

Inductive creach (c0 : cstate) : cstate -> Prop :=
| cr_init : creach c0 c0
| cr_step : forall c t c' br, creach c0 c -> cstep true c t = Some (c', br) -> creach c0 c'.

Definition rinv (c : cstate) (r : nat) : Prop :=
  let t := toks c (rtok c r) in
  match rp c r with
  | RIdle => True
  | RCheck => rtok c r < ntok c /\ t_mu t = Some r
  | RSend => rtok c r < ntok c /\ t_mu t = Some r /\ t_rel t = false /\ t_ret t = 0
  | RSet => rtok c r < ntok c /\ t_mu t = Some r /\ t_rel t = false /\ t_ret t = 1
  | RUnlock => rtok c r < ntok c /\ t_mu t = Some r /\ t_rel t = true
  end.

Record cinv (c : cstate) : Prop := mkCI {
  k_sum : pool c + ntok c = limit c + sumret (toks c) (ntok c);
  k_tok : forall i, i < ntok c ->
            t_ret (toks c i) <= 1 /\ (t_rel (toks c i) = true -> t_ret (toks c i) = 1) /\
            (t_rel (toks c i) = false -> t_ret (toks c i) = 1 ->
               match t_mu (toks c i) with Some r' => rp c r' = RSet | None => False end);
  k_thr : forall r, rinv c r;
  k_mu : forall i r, i < ntok c -> t_mu (toks c i) = Some r -> rtok c r = i /\ rp c r <> RIdle
}.

Lemma sumret_upd_ge : forall f i x n, n <= i -> sumret (upd f i x) n = sumret f n.
Proof.
  induction n; cbn; intros; auto. unfold upd at 1.
  destruct (Nat.eqb_spec n i); [lia|]. rewrite IHn; auto; lia.
Qed.
Lemma sumret_upd : forall f i x n, i < n -> sumret (upd f i x) n + t_ret (f i) = sumret f n + t_ret x.
Proof.
  induction n; cbn; intros; [lia|]. unfold upd at 1. destruct (Nat.eqb_spec n i).
  - subst. rewrite sumret_upd_ge; auto. lia.
  - assert (i < n) by lia. specialize (IHn H0). lia.
Qed.
Lemma sumret_le : forall f n, (forall i, i < n -> t_ret (f i) <= 1) -> sumret f n <= n.
Proof.
  induction n; cbn; intros; auto. assert (t_ret (f n) <= 1) by (apply H; lia).
  assert (sumret f n <= n) by (apply IHn; intros; apply H; lia). lia.
Qed.
Lemma sumret_lt : forall f n i, (forall k, k < n -> t_ret (f k) <= 1) -> i < n -> t_ret (f i) = 0 -> sumret f n < n.
Proof.
  induction n; cbn; intros i H Hi H0; [lia|].
  assert (Hn : sumret f n <= n) by (apply sumret_le; intros; apply H; lia).
  destruct (Nat.eq_dec i n).
  - subst. lia.
  - assert (t_ret (f n) <= 1) by (apply H; lia).
    assert (sumret f n < n).
    { apply (IHn i); [intros; apply H; lia | lia | auto]. }
    lia.
Qed.

Lemma cinv_init : forall lim rt rc ac, cinv (cinit lim rt rc ac).
Proof. intros. constructor; cbn; intros; try lia; auto. Qed.

Ltac csimp0 :=
  cbn [pool limit ntok toks rp rtok rcnt acnt c_set_tok c_set_rp c_set_pool t_rel t_ret t_mu] in *.
Ltac csimp := csimp0; unfold upd in *; csimp0.

Ltac ceqb :=
  repeat match goal with
         | H : context [Nat.eqb ?a ?b] |- _ => destruct (Nat.eqb_spec a b); subst
         | |- context [Nat.eqb ?a ?b] => destruct (Nat.eqb_spec a b); subst
         end.

Lemma rinv_of : forall c r, cinv c -> rinv c r. Proof. intros; apply k_thr; auto. Qed.

(* third component of k_tok, for a token whose Token.mu owner / releaser pcs are known *)
Ltac tok3 T3 :=
  let A := fresh in let B := fresh in
  intros A B; try specialize (T3 A B);
  repeat match goal with
         | H : t_mu ?x = _, T : context [match t_mu ?x with _ => _ end] |- _ => rewrite H in T
         | H : t_mu ?x = _ |- context [match t_mu ?x with _ => _ end] => rewrite H
         end;
  try contradiction; try congruence;
  try match goal with
      | |- match ?m with _ => _ end => destruct m eqn:?; auto; ceqb; try congruence
      end.

Lemma cstep_kmu : forall c t c' br, cinv c -> cstep true c t = Some (c', br) ->
  forall i r, i < ntok c' -> t_mu (toks c' i) = Some r -> rtok c' r = i /\ rp c' r <> RIdle.
Proof.
  intros c t c' br I H i r0. pose proof (k_mu _ I) as KM.
  destruct t as [a | r].
  - unfold cstep in H. destruct (acnt c a) eqn:Ea; [discriminate|]. destruct (pool c) eqn:Ep; [discriminate|].
    inversion H; subst; clear H. csimp. intros Hi Hm. ceqb; cbn in Hm; [discriminate|]. apply KM; auto. lia.
  - pose proof (rinv_of c r I) as Rr. unfold rinv in Rr.
    unfold cstep in H. cbv zeta in H. destruct (rp c r) eqn:Er.
    + destruct (rcnt c r); [discriminate|].
      destruct (Nat.ltb (rtok c r) (ntok c) && is_none (t_mu (toks c (rtok c r)))) eqn:Ec; [|discriminate].
      inversion H; subst; clear H. csimp. intros Hi Hm. ceqb; csimp0.
      all: try (inversion Hm; subst; rewrite ?Nat.eqb_refl; split; auto; discriminate).
      all: destruct (KM _ _ Hi Hm); ceqb; auto; try congruence; split; auto; discriminate.
    + cbn [andb] in H. destruct (t_rel (toks c (rtok c r))); inversion H; subst; clear H; csimp;
        intros Hi Hm; destruct (KM _ _ Hi Hm); ceqb; split; auto; discriminate.
    + destruct (Nat.ltb (pool c) (limit c)); [|discriminate].
      inversion H; subst; clear H; csimp; intros Hi Hm; ceqb; csimp0;
        destruct (KM _ _ Hi Hm); ceqb; split; auto; discriminate.
    + inversion H; subst; clear H; csimp; intros Hi Hm; ceqb; csimp0;
        destruct (KM _ _ Hi Hm); ceqb; split; auto; discriminate.
    + destruct Rr as (L & M & _).
      inversion H; subst; clear H; csimp; intros Hi Hm; ceqb; csimp0; try discriminate;
        destruct (KM _ _ Hi Hm); ceqb; try congruence; split; auto.
Qed.

Theorem cinv_step : forall c t c' br, cinv c -> cstep true c t = Some (c', br) -> cinv c'.
Proof.
  intros c t c' br I H. pose proof (cstep_kmu _ _ _ _ I H) as KM'. destruct t as [a | r].
  - (* Acquire *)
    unfold cstep in H. destruct (acnt c a) eqn:Ea; [discriminate|]. destruct (pool c) eqn:Ep; [discriminate|].
    inversion H; subst; clear H. constructor; [| | | exact KM'].
    + csimp0. pose proof (k_sum _ I). cbn [sumret]. rewrite sumret_upd_ge; auto. unfold upd.
      rewrite Nat.eqb_refl. cbn. lia.
    + csimp. intros i Hi. ceqb; cbn; [repeat split; try lia; discriminate|]. apply (k_tok _ I). lia.
    + csimp. intros r. pose proof (rinv_of c r I) as R. unfold rinv in *. csimp.
      destruct (rp c r); auto; ceqb; cbn; try lia; intuition lia.
  - pose proof (rinv_of c r I) as Rr. unfold rinv in Rr.
    unfold cstep in H. cbv zeta in H. destruct (rp c r) eqn:Er.
    + (* lock *)
      destruct (rcnt c r); [discriminate|].
      destruct (Nat.ltb (rtok c r) (ntok c) && is_none (t_mu (toks c (rtok c r)))) eqn:Ec; [|discriminate].
      apply andb_prop in Ec. destruct Ec as [E1 E2]. apply Nat.ltb_lt in E1.
      destruct (t_mu (toks c (rtok c r))) eqn:Em; [discriminate|].
      inversion H; subst; clear H. constructor; [| | | exact KM'].
      * csimp0. pose proof (k_sum _ I). pose proof (sumret_upd (toks c) (rtok c r)
           (mkTok (t_rel (toks c (rtok c r))) (t_ret (toks c (rtok c r))) (Some r)) (ntok c) E1). cbn in *. lia.
      * csimp. intros i Hi. pose proof (k_tok _ I i Hi) as (T1 & T2 & T3). ceqb; csimp0; repeat split; auto.
        all: tok3 T3.
      * csimp. intros r0. pose proof (rinv_of c r0 I) as R. unfold rinv in *. csimp.
        ceqb; csimp0; auto; try congruence.
        all: destruct (rp c r0); auto; exfalso; intuition congruence.
    + (* check *)
      cbn [andb] in H. destruct Rr as [L M]. pose proof (k_tok _ I _ L) as (T1 & T2 & T3).
      destruct (t_rel (toks c (rtok c r))) eqn:Erel; inversion H; subst; clear H; (constructor; [| | | exact KM']);
        try (csimp0; apply (k_sum _ I)).
      * csimp. intros i Hi. pose proof (k_tok _ I i Hi) as (U1 & U2 & U3). repeat split; auto. tok3 U3.
      * csimp. intros r0. pose proof (rinv_of c r0 I) as R. unfold rinv in *. csimp. ceqb; auto.
      * csimp. intros i Hi. pose proof (k_tok _ I i Hi) as (U1 & U2 & U3). repeat split; auto. tok3 U3.
      * csimp. intros r0. pose proof (rinv_of c r0 I) as R. unfold rinv in *. csimp. ceqb; auto.
        repeat split; auto. destruct (t_ret (toks c (rtok c r))) as [|[|k]] eqn:Et; auto; [|lia].
        exfalso. specialize (T3 eq_refl eq_refl). rewrite M in T3. congruence.
    + (* send *)
      destruct Rr as (L & M & Rl & Rt).
      destruct (Nat.ltb (pool c) (limit c)) eqn:Ep; [|discriminate]. apply Nat.ltb_lt in Ep.
      inversion H; subst; clear H. constructor; [| | | exact KM'].
      * csimp0. pose proof (k_sum _ I). pose proof (sumret_upd (toks c) (rtok c r)
           (mkTok (t_rel (toks c (rtok c r))) (S (t_ret (toks c (rtok c r)))) (t_mu (toks c (rtok c r)))) (ntok c) L).
        cbn in *. lia.
      * csimp. intros i Hi. pose proof (k_tok _ I i Hi) as (U1 & U2 & U3). ceqb; csimp0; repeat split; auto;
          try lia; try congruence.
        -- intros _ _. rewrite M. rewrite Nat.eqb_refl. reflexivity.
        -- tok3 U3; try (rewrite e in *; congruence).
      * csimp. intros r0. pose proof (rinv_of c r0 I) as R. unfold rinv in *. csimp.
        ceqb; csimp0; auto; try congruence.
        all: try (repeat split; auto; lia).
        all: try (destruct (rp c r0); auto; exfalso; intuition congruence).
    + (* set *)
      destruct Rr as (L & M & Rl & Rt).
      inversion H; subst; clear H. constructor; [| | | exact KM'].
      * csimp0. pose proof (k_sum _ I). pose proof (sumret_upd (toks c) (rtok c r)
           (mkTok true (t_ret (toks c (rtok c r))) (t_mu (toks c (rtok c r)))) (ntok c) L).
        cbn in *. lia.
      * csimp. intros i Hi. pose proof (k_tok _ I i Hi) as (U1 & U2 & U3). ceqb; csimp0; repeat split; auto;
          try lia; try congruence.
        tok3 U3; try (rewrite e in *; congruence);
          try (exfalso; match goal with Hq : t_mu (toks c ?i) = Some ?rr, Hi : ?i < ntok c |- _ => destruct (k_mu _ I _ _ Hi Hq); congruence end).
      * csimp. intros r0. pose proof (rinv_of c r0 I) as R. unfold rinv in *. csimp.
        ceqb; csimp0; auto; try congruence.
        all: try (repeat split; auto; lia).
        all: try (destruct (rp c r0); auto; exfalso; intuition congruence).
    + (* unlock *)
      destruct Rr as (L & M & Rl).
      inversion H; subst; clear H. constructor; [| | | exact KM'].
      * csimp0. pose proof (k_sum _ I). pose proof (sumret_upd (toks c) (rtok c r)
           (mkTok (t_rel (toks c (rtok c r))) (t_ret (toks c (rtok c r))) None) (ntok c) L).
        cbn in *. lia.
      * csimp. intros i Hi. pose proof (k_tok _ I i Hi) as (U1 & U2 & U3). ceqb; csimp0; repeat split; auto;
          try lia; try congruence.
        tok3 U3; try (rewrite e in *; congruence);
          try (exfalso; match goal with Hq : t_mu (toks c ?i) = Some ?rr, Hi : ?i < ntok c |- _ => destruct (k_mu _ I _ _ Hi Hq); congruence end).
      * csimp. intros r0. pose proof (rinv_of c r0 I) as R. unfold rinv in *. csimp.
        ceqb; csimp0; auto; try congruence.
        all: try (repeat split; auto; lia).
        all: try (destruct (rp c r0); auto; exfalso; intuition congruence).
Qed.

Theorem cinv_reach : forall lim rt rc ac c, creach (cinit lim rt rc ac) c -> cinv c.
Proof. intros lim rt rc ac c R. induction R; [apply cinv_init | eapply cinv_step; eauto]. Qed.

Lemma sumret_bound : forall c, cinv c -> sumret (toks c) (ntok c) <= ntok c.
Proof. intros c I. apply sumret_le. intros i Hi. apply (k_tok _ I i Hi). Qed.

(* the pool never holds more than [limit] tokens, and  pool + (tokens handed out and not put back) = limit *)
Theorem pool_le_limit : forall c, cinv c ->
  pool c <= limit c /\ pool c + (ntok c - sumret (toks c) (ntok c)) = limit c.
Proof. intros c I. pose proof (k_sum _ I). pose proof (sumret_bound c I). lia. Qed.

(* every token is put back at most once, whatever number of Release calls from whatever goroutines;
   it has been put back exactly once as soon as its [released] flag is set, in particular when any
   Release call on it is about to return *)
Theorem returned_once : forall c, cinv c -> forall i, i < ntok c ->
  t_ret (toks c i) <= 1 /\ (t_rel (toks c i) = true -> t_ret (toks c i) = 1).
Proof. intros c I i Hi. destruct (k_tok _ I i Hi) as (A & B & _). auto. Qed.

Theorem release_returns_after_one : forall c r, cinv c -> rp c r = RUnlock ->
  t_rel (toks c (rtok c r)) = true /\ t_ret (toks c (rtok c r)) = 1.
Proof.
  intros c r I Hr. pose proof (k_thr _ I r) as R. unfold rinv in R. rewrite Hr in R.
  destruct R as (L & M & Rl). split; auto. apply (k_tok _ I _ L); auto.
Qed.

(* [released] is never reset, and a returned token stays returned *)
Lemma cstep_mono : forall b c t c' br, cstep b c t = Some (c', br) -> forall i, i < ntok c ->
  (t_rel (toks c i) = true -> t_rel (toks c' i) = true) /\ t_ret (toks c i) <= t_ret (toks c' i).
Proof.
  intros b c t c' br H i Hi. destruct t as [a | r]; unfold cstep in H; cbv zeta in H.
  - destruct (acnt c a); [discriminate|]. destruct (pool c); [discriminate|].
    inversion H; subst; clear H. csimp. ceqb; [lia | auto].
  - destruct (rp c r).
    + destruct (rcnt c r); [discriminate|].
      destruct (Nat.ltb (rtok c r) (ntok c) && is_none (t_mu (toks c (rtok c r)))); [|discriminate].
      inversion H; subst; clear H. csimp. ceqb; auto.
    + destruct (b && t_rel (toks c (rtok c r))); inversion H; subst; clear H; csimp; auto.
    + destruct (Nat.ltb (pool c) (limit c)); [|discriminate].
      inversion H; subst; clear H. csimp. ceqb; csimp0; auto.
    + inversion H; subst; clear H. csimp. ceqb; csimp0; auto.
    + inversion H; subst; clear H. csimp. ceqb; csimp0; auto.
Qed.

(* once a goroutine holds Token.mu, every step of its Release is enabled: in particular the send into the
   pool channel never blocks (the channel is never full at that point), so no Release blocks while holding
   Token.mu and every Release call finishes within 4 further steps of its own *)
Theorem release_never_blocks : forall c r, cinv c -> rp c r <> RIdle ->
  exists res, cstep true c (CRel r) = Some res.
Proof.
  intros c r I Hr. pose proof (k_thr _ I r) as R. unfold rinv in R. unfold cstep. cbv zeta.
  destruct (rp c r) eqn:Er; try congruence.
  - destruct (true && t_rel (toks c (rtok c r))); eauto.
  - destruct R as (L & M & Rl & Rt).
    assert (pool c < limit c).
    { pose proof (k_sum _ I). assert (sumret (toks c) (ntok c) < ntok c).
      { apply (sumret_lt _ _ (rtok c r)); auto. intros k Hk. apply (k_tok _ I k Hk). }
      lia. }
    apply Nat.ltb_lt in H. rewrite H. eauto.
  - eauto.
  - eauto.
Qed.

(* Acquire is enabled exactly when fewer than [limit] tokens are out (handed out and not put back) *)
Theorem acquire_enabled_iff : forall c a, cinv c -> acnt c a <> 0 ->
  ((exists res, cstep true c (CAcq a) = Some res) <-> ntok c - sumret (toks c) (ntok c) < limit c).
Proof.
  intros c a I Ha. pose proof (pool_le_limit c I) as [P1 P2]. pose proof (sumret_bound c I).
  unfold cstep. destruct (acnt c a); [congruence|]. destruct (pool c) eqn:Ep; split.
  - intros [res Hr]. discriminate.
  - intros. lia.
  - intros. lia.
  - intros. eauto.
Qed.

(* regression: Release without the [released] test hands one token back twice.  limit 2, tokens 0 and 1
   acquired, token 0 released by two goroutines: the pool is full again although token 1 is still held —
   three permits exist for a limit of two. *)
Example unchecked_release_overcommits :
  exists c, crun false [CAcq 0; CAcq 0;
                        CRel 0; CRel 0; CRel 0; CRel 0; CRel 0;
                        CRel 1; CRel 1; CRel 1; CRel 1; CRel 1]
                 (cinit 2 (fun _ => 0) (fun _ => 1) (fun a => match a with 0 => 2 | _ => 0 end)) = Some c /\
            pool c = 2 /\ limit c = 2 /\ t_rel (toks c 1) = false /\ t_ret (toks c 0) = 2.
Proof. eexists. split; [vm_compute; reflexivity|]. repeat split. Qed.
(* the same schedule with the check: the second Release is a no-op *)
Example checked_release_same_schedule :
  exists c, crun true [CAcq 0; CAcq 0;
                       CRel 0; CRel 0; CRel 0; CRel 0; CRel 0;
                       CRel 1; CRel 1; CRel 1]
                 (cinit 2 (fun _ => 0) (fun _ => 1) (fun a => match a with 0 => 2 | _ => 0 end)) = Some c /\
            pool c = 1 /\ t_ret (toks c 0) = 1 /\ rcnt c 1 = 0.
Proof. eexists. split; [vm_compute; reflexivity|]. repeat split. Qed.

(* ---------- stated over reachable states ---------- *)
Definition climit_reach (c : cstate) : Prop := exists lim rt rc ac, creach (cinit lim rt rc ac) c.

Theorem release_idempotent : forall c, climit_reach c ->
  (* the pool never exceeds the limit; pool + tokens out = limit *)
  pool c <= limit c /\ pool c + (ntok c - sumret (toks c) (ntok c)) = limit c /\
  (* every token is put back at most once, and exactly once as soon as it is marked released *)
  (forall i, i < ntok c -> t_ret (toks c i) <= 1 /\ (t_rel (toks c i) = true -> t_ret (toks c i) = 1)) /\
  (* a Release that is about to return has put exactly one token back *)
  (forall r, rp c r = RUnlock -> t_rel (toks c (rtok c r)) = true /\ t_ret (toks c (rtok c r)) = 1) /\
  (* no Release ever blocks while holding Token.mu (the send into the pool never finds it full) *)
  (forall r, rp c r <> RIdle -> exists res, cstep true c (CRel r) = Some res) /\
  (* Acquire succeeds exactly when fewer than limit tokens are out *)
  (forall a, acnt c a <> 0 ->
     ((exists res, cstep true c (CAcq a) = Some res) <-> ntok c - sumret (toks c) (ntok c) < limit c)).
Proof.
  intros c (lim & rt & rc & ac & R). pose proof (cinv_reach _ _ _ _ _ R) as I.
  destruct (pool_le_limit c I). repeat split; auto.
  - apply (returned_once c I i H1).
  - apply (returned_once c I i H1).
  - apply (release_returns_after_one c r I H1).
  - apply (release_returns_after_one c r I H1).
  - intros r Hr. apply release_never_blocks; auto.
  - apply (acquire_enabled_iff c a I H1).
  - apply (acquire_enabled_iff c a I H1).
Qed.

Lemma crun_reachable : forall sched c0 c c', creach c0 c -> crun true sched c = Some c' -> creach c0 c'.
Proof.
  induction sched as [|t r IH]; cbn; intros c0 c c' R H.
  - inversion H; subst; auto.
  - destruct (cstep true c t) as [[c1 br]|] eqn:E; [|discriminate]. apply (IH c0 c1 c'); auto. eapply cr_step; eauto.
Qed.
