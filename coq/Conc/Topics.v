(* Conc/Topics.v — the locking / channel protocol of utils/topics as a transition system.
   EXECUTABLE DEFINITIONS ONLY (no proofs; proofs are in Conc/TopicsProofs.v).

   What is modelled: the PROTOCOL LOGIC of
     utils/topics/topic.go        Publish, Subscribe, unsubscribeID (Handle = Subscribe; loop Next+cb; Close)
     utils/topics/subscription.go Channel, Next, Close
   as interleavings of small program-counter machines over the shared state
     Topic.mu owner, Topic.last/hasLast, Topic.subscribers (membership per subscription),
     per subscription: Subscription.mu owner, the channel (capacity 0 or 1, contents, closed),
     the done channel (closed or not), Subscription.topic/ch (cleared or not).
   What is NOT modelled (and cannot be in an executable Gallina model): the Go memory model.  Every
   step below is one atomic action; that the real code's accesses to those variables are in fact
   atomic w.r.t. each other (i.e. there is no data race) is an ASSUMPTION of this model, supported only
   by running the real code under the race detector (harness area conc-race).  Which mutex is
   assumed to protect what:
       Topic.mu         protects Topic.subscribers, Topic.last, Topic.hasLast, Topic.lastID, and
                        close(sub.ch) (only unsubscribeID closes it, only Publish/Subscribe send on it)
       Subscription.mu  protects Subscription.topic, Subscription.ch, and close(Subscription.done)
       channels         sub.ch / sub.done are Go channels (send/receive/close are atomic by the runtime)
   Go runtime facts assumed: an unbuffered send completes only together with a receive (rendezvous);
   a select with several ready cases takes any of them; sync.Mutex gives mutual exclusion; a send on a
   closed channel and a close of a closed channel panic; map iteration under the lock visits every
   entry exactly once in an arbitrary order.

   Threads.  [TPub p] is a goroutine that calls Publish for each value of its script.  [TSub s j] are
   the goroutines that use subscription number s: j = 0 is the goroutine that subscribed (it may
   Subscribe, call Next, sit in its callback, Close), j > 0 are other goroutines holding the
   *Subscription (they may Close).  Scripts are arbitrary; nothing below depends on their length or
   on the number of threads or subscriptions. *)
From Coq Require Export List NArith Bool Lia Arith.
Export ListNotations.

Inductive variant :=
| VFixed     (* the code as it is now (done channel) *)
| VPrefix.   (* before commit 5971b93: no done channel, Publish does a plain blocking send *)

Inductive tid := TPub (p : nat) | TSub (s j : nat).

(* program counters inside Subscription.Close, after s.mu.Lock() succeeded *)
Inductive xpc :=
| XCheck       (* if s.topic == nil { return } *)
| XCloseDone   (* close(s.done) *)
| XLockT       (* unsubscribeID: t.mu.Lock() *)
| XUnsub       (* sub, exists := t.subscribers[id]; close(sub.ch); delete(...) *)
| XUnlockT     (* deferred t.mu.Unlock() *)
| XClear       (* s.ch = nil; s.topic = nil *)
| XUnlockS.    (* deferred s.mu.Unlock() *)

(* what a subscription goroutine is asked to do next *)
Inductive kact :=
| ASub (sendLast : bool)   (* t.Subscribe(sendLast) *)
| ANext                    (* sub.Next(ctx) *)
| ABusy                    (* local work (the Handle callback running): no shared access *)
| AClose.                  (* sub.Close() *)

Inductive kpc :=
| KIdle                    (* between calls *)
| KSubBody (b : bool)      (* inside Subscribe, holding Topic.mu *)
| KSubUnlock               (* deferred t.mu.Unlock() of Subscribe *)
| KRecv (isnil : bool)     (* Next: blocked in select { <-ctx.Done(); <-ch } ; isnil: Channel() returned nil *)
| KClose (x : xpc).

Inductive ppc :=
| PIdle
| PLoop (vis : list nat)            (* holding Topic.mu, ranging over t.subscribers; vis = entries done *)
| PSend (s : nat) (vis : list nat)  (* at  select { case sub.ch <- v: case <-sub.done: }  for entry s *)
| PUnlock.                          (* deferred t.mu.Unlock() *)

(* what Next returned *)
Inductive rev := RVal (v : N) | RClosed (* io.ErrClosedPipe *) | RCtx (* ctx.Err() *).

Record sub := mkSub {
  in_map : bool;        (* id present in Topic.subscribers *)
  cap1 : bool;          (* channel capacity 1 (sendLast) or 0 *)
  buf : list N;         (* channel contents *)
  closed : bool;        (* sub.ch closed *)
  done : bool;          (* sub.done closed *)
  cleared : bool;       (* Subscription.topic == nil (and ch == nil; set together under Subscription.mu) *)
  smu : option nat;     (* Subscription.mu owner: thread j of this subscription *)
  ret : bool;           (* Subscribe has returned the *Subscription *)
  ctxc : bool;          (* the context passed to Next is cancelled *)
  got : list rev        (* results of Next so far, newest first *)
}.

Definition sub0 : sub := mkSub false false [] false false false None false false [].

Definition set_buf x (b : sub) := mkSub (in_map b) (cap1 b) x (closed b) (done b) (cleared b) (smu b) (ret b) (ctxc b) (got b).
Definition set_done x (b : sub) := mkSub (in_map b) (cap1 b) (buf b) (closed b) x (cleared b) (smu b) (ret b) (ctxc b) (got b).
Definition set_cleared x (b : sub) := mkSub (in_map b) (cap1 b) (buf b) (closed b) (done b) x (smu b) (ret b) (ctxc b) (got b).
Definition set_smu x (b : sub) := mkSub (in_map b) (cap1 b) (buf b) (closed b) (done b) (cleared b) x (ret b) (ctxc b) (got b).
Definition set_ret x (b : sub) := mkSub (in_map b) (cap1 b) (buf b) (closed b) (done b) (cleared b) (smu b) x (ctxc b) (got b).
Definition set_ctxc x (b : sub) := mkSub (in_map b) (cap1 b) (buf b) (closed b) (done b) (cleared b) (smu b) (ret b) x (got b).
Definition add_got x (b : sub) := mkSub (in_map b) (cap1 b) (buf b) (closed b) (done b) (cleared b) (smu b) (ret b) (ctxc b) (x :: got b).
(* Go: Subscribe body: make(chan T, 0|1); t.subscribers[id] = ...; if sendLast && hasLast { ch <- t.last } *)
Definition set_subscribed (b1 : bool) (l : option N) (b : sub) :=
  mkSub true b1 (if b1 then match l with Some v => [v] | None => [] end else []) (closed b) (done b) (cleared b) (smu b) (ret b) (ctxc b) (got b).
(* Go: unsubscribeID body: close(sub.ch); delete(t.subscribers, id) *)
Definition set_unsub (b : sub) := mkSub false (cap1 b) (buf b) true (done b) (cleared b) (smu b) (ret b) (ctxc b) (got b).

Definition upd {A} (f : nat -> A) (i : nat) (x : A) : nat -> A := fun k => if Nat.eqb k i then x else f k.
Definition upd2 {A} (f : nat -> nat -> A) (i j : nat) (x : A) : nat -> nat -> A :=
  fun a b => if Nat.eqb a i then (if Nat.eqb b j then x else f a b) else f a b.

Record state := mkSt {
  tmu : option tid;            (* Topic.mu owner *)
  last : option N;             (* Topic.last / hasLast *)
  subs : nat -> sub;
  kp : nat -> nat -> kpc;      (* pc of thread (s, j) *)
  ks : nat -> nat -> list kact;(* its remaining script *)
  pp : nat -> ppc;             (* pc of publisher p *)
  ps : nat -> list N;          (* values it still has to publish (head = the one in progress) *)
  bad : bool;                  (* a runtime panic happened: send on closed channel / close of closed channel *)
  nsub : nat                   (* subscription slots 0 .. nsub-1 exist *)
}.

Definition set_tmu x (t : state) := mkSt x (last t) (subs t) (kp t) (ks t) (pp t) (ps t) (bad t) (nsub t).
Definition set_last x (t : state) := mkSt (tmu t) x (subs t) (kp t) (ks t) (pp t) (ps t) (bad t) (nsub t).
Definition set_sub s x (t : state) := mkSt (tmu t) (last t) (upd (subs t) s x) (kp t) (ks t) (pp t) (ps t) (bad t) (nsub t).
Definition set_kp s j x (t : state) := mkSt (tmu t) (last t) (subs t) (upd2 (kp t) s j x) (ks t) (pp t) (ps t) (bad t) (nsub t).
Definition set_ks s j x (t : state) := mkSt (tmu t) (last t) (subs t) (kp t) (upd2 (ks t) s j x) (pp t) (ps t) (bad t) (nsub t).
Definition set_pp p x (t : state) := mkSt (tmu t) (last t) (subs t) (kp t) (ks t) (upd (pp t) p x) (ps t) (bad t) (nsub t).
Definition set_ps p x (t : state) := mkSt (tmu t) (last t) (subs t) (kp t) (ks t) (pp t) (upd (ps t) p x) (bad t) (nsub t).
Definition set_bad (t : state) := mkSt (tmu t) (last t) (subs t) (kp t) (ks t) (pp t) (ps t) true (nsub t).

Definition init (n : nat) (kscr : nat -> nat -> list kact) (pscr : nat -> list N) : state :=
  mkSt None None (fun _ => sub0) (fun _ _ => KIdle) kscr (fun _ => PIdle) pscr false n.

(* nondeterministic choices of a step *)
Inductive lbl :=
| L0
| LTgt (s : nat)   (* Publish: the map iteration yields entry s next *)
| LSend | LSkip    (* Publish select: the send case / the done case *)
| LBuf | LClosed | LCtx.  (* Next select: a buffered value / channel closed / ctx.Done *)

Definition is_none {A} (o : option A) : bool := match o with None => true | Some _ => false end.
Fixpoint memb (x : nat) (l : list nat) : bool :=
  match l with [] => false | y :: l' => Nat.eqb x y || memb x l' end.
(* every entry of the map has been visited *)
Fixpoint all_vis (st : state) (vis : list nat) (n : nat) : bool :=
  match n with
  | O => true
  | S n' => (negb (in_map (subs st n')) || memb n' vis) && all_vis st vis n'
  end.

(* Go: topic.go Publish.  Returns the new state and the id of the branch taken. *)
Definition pstep (v : variant) (st : state) (p : nat) (l : lbl) : option (state * N) :=
  match pp st p, l with
  | PIdle, L0 =>                                        (* t.mu.Lock(); t.last = v; t.hasLast = true *)
      match ps st p with
      | x :: _ => if is_none (tmu st)
                  then Some (set_pp p (PLoop []) (set_last (Some x) (set_tmu (Some (TPub p)) st)), 1%N)
                  else None
      | [] => None
      end
  | PLoop vis, LTgt s =>                                (* for _, sub := range t.subscribers *)
      if Nat.ltb s (nsub st) && in_map (subs st s) && negb (memb s vis)
      then Some (set_pp p (PSend s vis) st, 2%N) else None
  | PLoop vis, L0 =>                                    (* range exhausted *)
      if all_vis st vis (nsub st) then Some (set_pp p PUnlock st, 3%N) else None
  | PSend s vis, LSend =>                               (* case sub.ch <- v *)
      match ps st p with
      | x :: _ =>
          let sb := subs st s in
          if closed sb then Some (set_bad st, 9%N)      (* send on closed channel: panic *)
          else if cap1 sb then
            (match buf sb with
             | [] => Some (set_pp p (PLoop (s :: vis)) (set_sub s (set_buf [x] sb) st), 4%N)
             | _ => None end)                           (* buffer full: blocks *)
          else
            (match kp st s 0 with
             | KRecv false =>                           (* rendezvous with the receiver blocked in Next *)
                 Some (set_pp p (PLoop (s :: vis))
                        (set_kp s 0 KIdle (set_sub s (add_got (RVal x) sb) st)), 5%N)
             | _ => None end)                           (* nobody receiving: blocks *)
      | [] => None
      end
  | PSend s vis, LSkip =>                               (* case <-sub.done *)
      match v with
      | VFixed => if done (subs st s) then Some (set_pp p (PLoop (s :: vis)) st, 6%N) else None
      | VPrefix => None
      end
  | PUnlock, L0 =>                                      (* t.mu.Unlock(); Publish returns *)
      Some (set_pp p PIdle (set_ps p (tl (ps st p)) (set_tmu None st)), 7%N)
  | _, _ => None
  end.

(* Go: subscription.go Close (after s.mu.Lock()), topic.go unsubscribeID *)
Definition xstep (v : variant) (st : state) (s j : nat) (x : xpc) : option (state * N) :=
  let sb := subs st s in
  match x with
  | XCheck =>
      if cleared sb then Some (set_kp s j (KClose XUnlockS) st, 22%N)        (* already closed: no-op *)
      else Some (set_kp s j (KClose (match v with VFixed => XCloseDone | VPrefix => XLockT end)) st, 23%N)
  | XCloseDone =>
      if done sb then Some (set_bad st, 24%N)                                (* close of closed channel: panic *)
      else Some (set_kp s j (KClose XLockT) (set_sub s (set_done true sb) st), 25%N)
  | XLockT =>
      if is_none (tmu st) then Some (set_kp s j (KClose XUnsub) (set_tmu (Some (TSub s j)) st), 26%N)
      else None
  | XUnsub =>
      if in_map sb then
        (if closed sb then Some (set_bad st, 27%N)                           (* close of closed channel: panic *)
         else Some (set_kp s j (KClose XUnlockT) (set_sub s (set_unsub sb) st), 28%N))
      else Some (set_kp s j (KClose XUnlockT) st, 29%N)                      (* !exists: return *)
  | XUnlockT => Some (set_kp s j (KClose XClear) (set_tmu None st), 30%N)
  | XClear => Some (set_kp s j (KClose XUnlockS) (set_sub s (set_cleared true sb) st), 31%N)
  | XUnlockS => Some (set_kp s j KIdle (set_sub s (set_smu None sb) st), 32%N)
  end.

(* a subscription goroutine *)
Definition sstep (v : variant) (st : state) (s j : nat) (l : lbl) : option (state * N) :=
  let sb := subs st s in
  match kp st s j, l with
  | KIdle, L0 =>
      match ks st s j with
      | [] => None
      | ASub b :: r =>                                   (* Go: Subscribe: t.mu.Lock() *)
          if Nat.eqb j 0 && negb (ret sb) && Nat.ltb s (nsub st) then
            (if is_none (tmu st)
             then Some (set_ks s j r (set_kp s j (KSubBody b) (set_tmu (Some (TSub s j)) st)), 10%N)
             else None)
          else Some (set_ks s j r st, 11%N)              (* not meaningful in this slot: skipped *)
      | ANext :: r =>                                    (* Go: Next: s.Channel() = lock; read s.ch; unlock *)
          if Nat.eqb j 0 && ret sb then
            (if is_none (smu sb)
             then Some (set_ks s j r (set_kp s j (KRecv (cleared sb)) st), if cleared sb then 16%N else 15%N)
             else None)
          else Some (set_ks s j r st, 11%N)
      | ABusy :: r => Some (set_ks s j r st, 20%N)
      | AClose :: r =>                                   (* Go: Close: s.mu.Lock() *)
          if ret sb then
            (if is_none (smu sb)
             then Some (set_ks s j r (set_kp s j (KClose XCheck) (set_sub s (set_smu (Some j) sb) st)), 21%N)
             else None)
          else Some (set_ks s j r st, 11%N)
      end
  | KSubBody b, L0 =>
      Some (set_kp s j KSubUnlock (set_sub s (set_subscribed b (last st) sb) st),
            if b then match last st with Some _ => 12%N | None => 13%N end else 13%N)
  | KSubUnlock, L0 =>
      Some (set_kp s j KIdle (set_sub s (set_ret true sb) (set_tmu None st)), 14%N)
  | KRecv false, LBuf =>                                 (* a buffered value (also after close) *)
      match buf sb with
      | x :: b' => Some (set_kp s j KIdle (set_sub s (add_got (RVal x) (set_buf b' sb)) st), 17%N)
      | [] => None
      end
  | KRecv false, LClosed =>                              (* v, ok := <-ch with ok = false *)
      match buf sb with
      | [] => if closed sb then Some (set_kp s j KIdle (set_sub s (add_got RClosed sb) st), 18%N) else None
      | _ => None
      end
  | KRecv _, LCtx =>                                     (* case <-ctx.Done() *)
      if ctxc sb then Some (set_kp s j KIdle (set_sub s (add_got RCtx sb) st), 19%N) else None
  | KClose x, L0 => xstep v st s j x
  | _, _ => None
  end.

Definition step (v : variant) (st : state) (t : tid) (l : lbl) : option (state * N) :=
  if bad st then None
  else match t with
       | TPub p => pstep v st p l
       | TSub s j => sstep v st s j l
       end.

Definition branches_all : list N :=
  [1;2;3;4;5;6;7;10;11;12;13;14;15;16;17;18;19;20;21;22;23;25;26;28;30;31;32]%N.
(* 9, 24, 27 (panics) and 29 (unsubscribeID: entry missing) are unreachable in VFixed: TopicsProofs.v *)

(* run a schedule; None as soon as a scheduled step is not enabled *)
Fixpoint run (v : variant) (sched : list (tid * lbl)) (st : state) : option state :=
  match sched with
  | [] => Some st
  | (t, l) :: r => match step v st t l with
                   | Some (st', _) => run v r st'
                   | None => None
                   end
  end.

(* ---------- finite-instance exploration (used by the correspondence runner and by Examples) ---------- *)

(* instance shape: np publishers, nsub subscriptions, nj threads per subscription *)
Definition all_tids (np ns nj : nat) : list tid :=
  map TPub (seq 0 np) ++ flat_map (fun s => map (TSub s) (seq 0 nj)) (seq 0 ns).

Definition labels (st : state) (t : tid) : list lbl :=
  match t with
  | TPub p => match pp st p with
              | PLoop _ => L0 :: map LTgt (seq 0 (nsub st))
              | PSend _ _ => [LSend; LSkip]
              | _ => [L0]
              end
  | TSub s j => match kp st s j with
                | KRecv _ => [LBuf; LClosed; LCtx]
                | _ => [L0]
                end
  end.

Definition succs (v : variant) (np nj : nat) (st : state) : list (state * N) :=
  flat_map (fun t => flat_map (fun l => match step v st t l with Some r => [r] | None => [] end) (labels st t))
           (all_tids np (nsub st) nj).

(* canonical encoding of a finite instance, for duplicate detection *)
Definition enc_bool (b : bool) : N := if b then 1%N else 0%N.
Definition enc_xpc (x : xpc) : N :=
  match x with XCheck => 0 | XCloseDone => 1 | XLockT => 2 | XUnsub => 3 | XUnlockT => 4 | XClear => 5 | XUnlockS => 6 end%N.
Definition enc_kpc (k : kpc) : N :=
  match k with
  | KIdle => 0 | KSubBody b => 1 + enc_bool b | KSubUnlock => 3 | KRecv b => 4 + enc_bool b
  | KClose x => 10 + enc_xpc x
  end%N.
Definition enc_kact (a : kact) : N :=
  match a with ASub b => 1 + enc_bool b | ANext => 3 | ABusy => 4 | AClose => 5 end%N.
Definition enc_rev (r : rev) : N := match r with RVal v => 3 + v | RClosed => 1 | RCtx => 2 end%N.
Definition enc_tid (nj : nat) (t : option tid) : N :=
  match t with
  | None => 0
  | Some (TPub p) => 1 + 2 * N.of_nat p
  | Some (TSub s j) => 2 + 2 * N.of_nat (s * nj + j)
  end%N.
Definition enc_list (l : list N) : list N := N.of_nat (length l) :: l.
Definition enc_ppc (k : ppc) : list N :=
  match k with
  | PIdle => [0]
  | PLoop vis => 1 :: enc_list (map N.of_nat vis)
  | PSend s vis => 2 :: N.of_nat s :: enc_list (map N.of_nat vis)
  | PUnlock => [3]
  end%N.
Definition enc_sub (b : sub) : list N :=
  [enc_bool (in_map b); enc_bool (cap1 b); enc_bool (closed b); enc_bool (done b); enc_bool (cleared b);
   match smu b with None => 0 | Some j => 1 + N.of_nat j end; enc_bool (ret b); enc_bool (ctxc b)]%N
  ++ enc_list (buf b) ++ enc_list (map enc_rev (got b)).
Definition encode (np nj : nat) (st : state) : list N :=
  [enc_tid nj (tmu st); match last st with None => 0 | Some v => 1 + v end; enc_bool (bad st)]%N
  ++ flat_map (fun p => enc_ppc (pp st p) ++ enc_list (ps st p)) (seq 0 np)
  ++ flat_map (fun s => enc_sub (subs st s)
        ++ flat_map (fun j => enc_kpc (kp st s j) :: enc_list (map enc_kact (ks st s j))) (seq 0 nj))
       (seq 0 (nsub st)).

Fixpoint leqb (a b : list N) : bool :=
  match a, b with
  | [], [] => true
  | x :: a', y :: b' => N.eqb x y && leqb a' b'
  | _, _ => false
  end.
Definition seen_in (e : list N) (seen : list (list N)) : bool := existsb (leqb e) seen.

(* a set of encodings, as a trie *)
Inductive trie := TNode (present : bool) (children : list (N * trie)).
Definition trie0 : trie := TNode false [].
Fixpoint tmem (k : list N) (t : trie) {struct k} : bool :=
  match t with
  | TNode b ch =>
      match k with
      | [] => b
      | x :: k' =>
          (fix go (l : list (N * trie)) : bool :=
             match l with
             | [] => false
             | (y, t') :: l' => if N.eqb x y then tmem k' t' else go l'
             end) ch
      end
  end.
Fixpoint tadd (k : list N) (t : trie) {struct k} : trie :=
  match t with
  | TNode b ch =>
      match k with
      | [] => TNode true ch
      | x :: k' =>
          TNode b ((fix go (l : list (N * trie)) : list (N * trie) :=
                      match l with
                      | [] => [(x, tadd k' trie0)]
                      | (y, t') :: l' => if N.eqb x y then (y, tadd k' t') :: l' else (y, t') :: go l'
                      end) ch)
      end
  end.

Fixpoint ins_cov (x : N) (l : list N) : list N :=
  match l with
  | [] => [x]
  | y :: l' => if N.ltb x y then x :: l else if N.eqb x y then l else y :: ins_cov x l'
  end.

Record xres := mkX { x_finals : list state; x_seen : trie; x_cov : list N; x_fuel_out : bool }.

(* depth-first exploration of every interleaving from [todo]; [finals] = states without successor *)
Fixpoint explore (v : variant) (np nj : nat) (fuel : nat) (todo : list state) (r : xres) : xres :=
  match fuel with
  | O => match todo with [] => r | _ => mkX (x_finals r) (x_seen r) (x_cov r) true end
  | S f =>
      match todo with
      | [] => r
      | st :: rest =>
          let e := encode np nj st in
          if tmem e (x_seen r) then explore v np nj f rest r
          else
            let sc := succs v np nj st in
            let r' := mkX (match sc with [] => st :: x_finals r | _ => x_finals r end)
                          (tadd e (x_seen r))
                          (fold_left (fun c p => ins_cov (snd p) c) sc (x_cov r))
                          (x_fuel_out r) in
            explore v np nj f (map fst sc ++ rest) r'
      end
  end.

Definition quiescent_from (v : variant) (np nj fuel : nat) (sts : list state) (cov : list N) : xres :=
  explore v np nj fuel sts (mkX [] trie0 cov false).

(* a thread that was given work and has not finished it *)
Definition pending (st : state) (t : tid) : bool :=
  match t with
  | TPub p => match pp st p, ps st p with PIdle, [] => false | _, _ => true end
  | TSub s j => match kp st s j, ks st s j with KIdle, [] => false | _, _ => true end
  end.
