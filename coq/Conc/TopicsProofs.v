(* Conc/TopicsProofs.v — proofs about the protocol model of Conc/Topics.v (variant VFixed = current code).
   Everything here is for ANY number of publishers, subscriptions and goroutines per subscription and
   ANY scripts: the theorems quantify over all states reachable from [init n kscr pscr] by any
   interleaving; the proofs go through one inductive invariant [inv]. *)
From LS Require Import Conc.Topics.

Inductive reachable (v : variant) (st0 : state) : state -> Prop :=
| r_init : reachable v st0 st0
| r_step : forall st t l st' br, reachable v st0 st -> step v st t l = Some (st', br) -> reachable v st0 st'.

(* ---------- the invariant ---------- *)

(* thread t is inside a critical section of Topic.mu, judged by its pc *)
Definition holdp (k : ppc) : bool := match k with PIdle => false | _ => true end.
Definition holdk (k : kpc) : bool :=
  match k with KSubBody _ | KSubUnlock | KClose XUnsub | KClose XUnlockT => true | _ => false end.
Definition hold_t (st : state) (t : tid) : bool :=
  match t with TPub p => holdp (pp st p) | TSub s j => holdk (kp st s j) end.
Definition in_close (k : kpc) : bool := match k with KClose _ => true | _ => false end.
(* inside Close, after close(done) and before the fields are cleared *)
Definition past_done (k : kpc) : bool :=
  match k with KClose XLockT | KClose XUnsub | KClose XUnlockT | KClose XClear => true | _ => false end.
Definition sub_pc (k : kpc) : bool := match k with KSubBody _ | KSubUnlock => true | _ => false end.

Definition xinv (b : sub) (x : xpc) : Prop :=
  match x with
  | XCheck => True
  | XCloseDone => cleared b = false /\ done b = false
  | XLockT | XUnsub => cleared b = false /\ done b = true
  | XUnlockT | XClear => cleared b = false /\ done b = true /\ in_map b = false
  | XUnlockS => cleared b = true
  end.

Record inv (st : state) : Prop := mkInv {
  i_bad : bad st = false;
  i_tmu1 : forall t, hold_t st t = true -> tmu st = Some t;
  i_tmu2 : forall t, tmu st = Some t -> hold_t st t = true;
  i_smu1 : forall s j, in_close (kp st s j) = true -> smu (subs st s) = Some j;
  i_smu2 : forall s j, smu (subs st s) = Some j -> in_close (kp st s j) = true;
  i_map : forall s, in_map (subs st s) = true -> closed (subs st s) = false;
  i_clr : forall s, cleared (subs st s) = true -> done (subs st s) = true /\ in_map (subs st s) = false;
  i_pc : forall s j x, kp st s j = KClose x -> xinv (subs st s) x;
  i_done : forall s, done (subs st s) = true ->
             cleared (subs st s) = true \/ exists j, past_done (kp st s j) = true;
  i_fresh : forall s, ret (subs st s) = false ->
             closed (subs st s) = false /\ done (subs st s) = false /\ cleared (subs st s) = false /\
             smu (subs st s) = None /\ (in_map (subs st s) = true -> kp st s 0 = KSubUnlock) /\
             forall j, kp st s j = KIdle \/ sub_pc (kp st s j) = true;
  i_sub : forall s j, sub_pc (kp st s j) = true -> ret (subs st s) = false /\ j = 0;
  i_j : forall s j, j <> 0 -> kp st s j = KIdle \/ in_close (kp st s j) = true;
  i_send : forall p s vis, pp st p = PSend s vis -> in_map (subs st s) = true;
  i_nil : forall s j, kp st s j = KRecv true -> cleared (subs st s) = true;
  i_ps : forall p, holdp (pp st p) = true -> ps st p <> []
}.

Lemma inv_init : forall n kscr pscr, inv (init n kscr pscr).
Proof.
  intros. constructor; cbn; try discriminate; try tauto; intros;
    try (destruct t; cbn in *; discriminate); try (repeat split; auto; discriminate); auto.
Qed.

(* ---------- case analysis machinery ---------- *)

Ltac dmH H :=
  repeat match type of H with
         | context [match ?x with _ => _ end] =>
             lazymatch x with
             | context [match _ with _ => _ end] => fail
             | _ => destruct x eqn:?; try discriminate H
             end
         end.

Ltac step_inv H :=
  unfold step, pstep, sstep, xstep in H; cbv zeta in H; dmH H;
  inversion H; subst; clear H.

Ltac eqb_tac :=
  repeat match goal with
         | H : context [Nat.eqb ?a ?b] |- _ => destruct (Nat.eqb_spec a b); subst
         | |- context [Nat.eqb ?a ?b] => destruct (Nat.eqb_spec a b); subst
         end.

Lemma is_none_true : forall A (o : option A), is_none o = true -> o = None.
Proof. destruct o; cbn; congruence. Qed.

Lemma step_bad : forall st t l st' br, inv st -> step VFixed st t l = Some (st', br) -> bad st' = false.
Proof.
  intros st t l st' br I H. pose proof (i_bad _ I) as Hb. destruct t as [p | s j].
  - step_inv H; cbn; auto.
    (* send on a closed channel *)
    match goal with Hp : pp st p = PSend ?s0 _ |- _ => pose proof (i_send _ I _ _ _ Hp) as Hm;
      pose proof (i_map _ I _ Hm) end. congruence.
  - step_inv H; cbn; auto.
    + (* close(done) twice *)
      match goal with Hk : kp st s j = KClose XCloseDone |- _ => pose proof (i_pc _ I _ _ _ Hk) as Hx end.
      cbn in Hx. destruct Hx. congruence.
    + (* close(ch) twice *)
      match goal with Hm : in_map (subs st s) = true |- _ => pose proof (i_map _ I _ Hm) end. congruence.
Qed.

Ltac simp0 :=
  cbn [tmu last subs kp ks pp ps bad nsub set_tmu set_last set_sub set_kp set_ks set_pp set_ps set_bad
       in_map cap1 buf closed done cleared smu ret ctxc got set_buf set_done set_cleared set_smu
       set_ret set_ctxc add_got set_subscribed set_unsub hold_t holdp holdk in_close past_done sub_pc xinv] in *.
Ltac simp := simp0; unfold upd, upd2 in *; simp0.

Definition mark (P : Prop) : Prop := P.
Definition xmark (b : sub) (x : xpc) : Prop := xinv b x.
Ltac notHyp P := lazymatch goal with | _ : mark P |- _ => fail | _ => idtac end.
Ltac derive P tac :=
  notHyp P; let Hm := fresh "Hm" in let Hd := fresh "Hd" in
  assert (Hm : mark P) by (unfold mark; tac); pose proof Hm as Hd; unfold mark in Hd.

(* forward chaining of the invariant's consequences for the pcs mentioned in the context *)
Ltac fwd1 I :=
  match goal with
  | H : is_none _ = true |- _ => apply is_none_true in H
  | H : andb _ _ = true |- _ => apply andb_prop in H
  | H : negb _ = true |- _ => apply negb_true_iff in H
  | H : holdp (pp ?st ?p) = true |- _ =>
      derive (tmu st = Some (TPub p)) ltac:(exact (i_tmu1 _ I (TPub p) H))
  | H : holdk (kp ?st ?s ?j) = true |- _ =>
      derive (tmu st = Some (TSub s j)) ltac:(exact (i_tmu1 _ I (TSub s j) H))
  | H : pp ?st ?p = _ |- _ =>
      derive (tmu st = Some (TPub p)) ltac:(apply (i_tmu1 _ I (TPub p)); cbn [hold_t]; rewrite H; reflexivity)
  | H : kp ?st ?s ?j = _ |- _ =>
      derive (tmu st = Some (TSub s j)) ltac:(apply (i_tmu1 _ I (TSub s j)); cbn [hold_t]; rewrite H; reflexivity)
  | H : kp ?st ?s ?j = KClose _ |- _ =>
      derive (smu (subs st s) = Some j) ltac:(apply (i_smu1 _ I); rewrite H; reflexivity)
  | H : in_close (kp ?st ?s ?j) = true |- _ =>
      derive (smu (subs st s) = Some j) ltac:(exact (i_smu1 _ I _ _ H))
  | H : kp ?st ?s ?j = KClose ?x |- _ =>
      derive (xmark (subs st s) x) ltac:(exact (i_pc _ I _ _ _ H));
      match goal with Hx : xmark _ _ |- _ => unfold xmark in Hx; cbn [xinv] in Hx end
  | H : pp ?st ?p = PSend ?s ?vis |- _ =>
      derive (in_map (subs st s) = true) ltac:(exact (i_send _ I _ _ _ H))
  | H : in_map (subs ?st ?s) = true |- _ =>
      derive (closed (subs st s) = false) ltac:(exact (i_map _ I _ H))
  | H : cleared (subs ?st ?s) = true |- _ =>
      derive (done (subs st s) = true /\ in_map (subs st s) = false) ltac:(exact (i_clr _ I _ H))
  | H : sub_pc (kp ?st ?s ?j) = true |- _ =>
      derive (ret (subs st s) = false /\ j = 0) ltac:(exact (i_sub _ I _ _ H))
  | H : kp ?st ?s ?j = _ |- _ =>
      derive (ret (subs st s) = false /\ j = 0) ltac:(apply (i_sub _ I); rewrite H; reflexivity)
  | H : ret (subs ?st ?s) = false |- _ =>
      derive (closed (subs st s) = false /\ done (subs st s) = false /\ cleared (subs st s) = false /\
              smu (subs st s) = None /\ (in_map (subs st s) = true -> kp st s 0 = KSubUnlock) /\
              forall j, kp st s j = KIdle \/ sub_pc (kp st s j) = true) ltac:(exact (i_fresh _ I _ H))
  | H : tmu ?st = Some (TSub ?s ?j) |- _ =>
      derive (holdk (kp st s j) = true) ltac:(exact (i_tmu2 _ I (TSub s j) H))
  | H : tmu ?st = Some (TPub ?p) |- _ =>
      derive (holdp (pp st p) = true) ltac:(exact (i_tmu2 _ I (TPub p) H))
  | H : smu (subs ?st ?s) = Some ?j |- _ =>
      derive (in_close (kp st s j) = true) ltac:(exact (i_smu2 _ I _ _ H))
  | H : _ /\ _ |- _ => destruct H
  end.
Ltac rw_pcs0 :=
  repeat match goal with
         | H : kp ?st ?s ?j = _, H2 : context [kp ?st ?s ?j] |- _ => rewrite H in H2
         | H : pp ?st ?p = _, H2 : context [pp ?st ?p] |- _ => rewrite H in H2
         | H : kp ?st ?s ?j = _ |- context [kp ?st ?s ?j] => rewrite H
         | H : pp ?st ?p = _ |- context [pp ?st ?p] => rewrite H
         end.
Ltac rw_pcs := rw_pcs0.
Ltac fwd I := repeat fwd1 I.
Ltac fin I := fwd I; rw_pcs; simp0; try discriminate; try congruence.

Lemma step_tmu1 : forall st t l st' br, inv st -> step VFixed st t l = Some (st', br) ->
  forall q, hold_t st' q = true -> tmu st' = Some q.
Proof.
  intros st t l st' br I H q.
  pose proof (i_tmu1 _ I) as T1. pose proof (i_tmu2 _ I) as T2.
  destruct t as [p | s j]; step_inv H; destruct q as [p0 | s0 j0]; simp; eqb_tac; simp; intros Hq;
    try discriminate; try reflexivity; try congruence.
  all: fwd I; try congruence.
Qed.

Lemma step_tmu2 : forall st t l st' br, inv st -> step VFixed st t l = Some (st', br) ->
  forall q, tmu st' = Some q -> hold_t st' q = true.
Proof.
  intros st t l st' br I H q.
  pose proof (i_tmu2 _ I) as T2.
  destruct t as [p | s j]; step_inv H; destruct q as [p0 | s0 j0]; simp; eqb_tac; simp; intros Hq;
    try discriminate; try reflexivity; try congruence.
  all: fin I.
Qed.

Lemma step_smu1 : forall st t l st' br, inv st -> step VFixed st t l = Some (st', br) ->
  forall s0 j0, in_close (kp st' s0 j0) = true -> smu (subs st' s0) = Some j0.
Proof.
  intros st t l st' br I H s0 j0.
  destruct t as [p | s j]; step_inv H; simp; eqb_tac; simp; intros Hq;
    try discriminate; try reflexivity; try congruence.
  all: fin I.
Qed.

Lemma step_smu2 : forall st t l st' br, inv st -> step VFixed st t l = Some (st', br) ->
  forall s0 j0, smu (subs st' s0) = Some j0 -> in_close (kp st' s0 j0) = true.
Proof.
  intros st t l st' br I H s0 j0.
  destruct t as [p | s j]; step_inv H; simp; eqb_tac; simp; intros Hq;
    try discriminate; try reflexivity; try congruence.
  all: fin I.
Qed.

Lemma step_map : forall st t l st' br, inv st -> step VFixed st t l = Some (st', br) ->
  forall s0, in_map (subs st' s0) = true -> closed (subs st' s0) = false.
Proof.
  intros st t l st' br I H s0.
  destruct t as [p | s j]; step_inv H; simp; eqb_tac; simp; intros Hq;
    try discriminate; try reflexivity; try congruence.
  all: fin I.
Qed.

Lemma step_clr : forall st t l st' br, inv st -> step VFixed st t l = Some (st', br) ->
  forall s0, cleared (subs st' s0) = true -> done (subs st' s0) = true /\ in_map (subs st' s0) = false.
Proof.
  intros st t l st' br I H s0.
  destruct t as [p | s j]; step_inv H; simp; eqb_tac; simp; intros Hq;
    try discriminate; try (split; reflexivity); try congruence.
  all: fin I; auto.
Qed.

Lemma step_pc : forall st t l st' br, inv st -> step VFixed st t l = Some (st', br) ->
  forall s0 j0 x, kp st' s0 j0 = KClose x -> xinv (subs st' s0) x.
Proof.
  intros st t l st' br I H s0 j0 x.
  destruct t as [p | s j]; step_inv H; simp; eqb_tac; simp; intros Hq;
    try discriminate; try congruence.
  all: try (inversion Hq; subst; clear Hq); fin I; auto.
  all: try (destruct x; fin I; auto).
  split; auto. destruct (done (subs st s)) eqn:Hdn; auto.
  destruct (i_done _ I _ Hdn) as [Hc | [j' Hp]]; [congruence|].
  assert (Hic : in_close (kp st s j') = true) by (destruct (kp st s j') as [| | | |[]]; cbn in *; congruence).
  pose proof (i_smu1 _ I _ _ Hic). assert (j' = j) by congruence. subst. rewrite Heqk in Hp. discriminate.
Qed.

Lemma step_done : forall st t l st' br, inv st -> step VFixed st t l = Some (st', br) ->
  forall s0, done (subs st' s0) = true ->
    cleared (subs st' s0) = true \/ exists j0, past_done (kp st' s0 j0) = true.
Proof.
  intros st t l st' br I H s0.
  destruct t as [p | s j]; step_inv H; simp; intros Hq.
  all: eqb_tac; simp.
  all: try (left; reflexivity).
  all: try (destruct (i_done _ I _ Hq) as [Hc | [j' Hp]];
            [left; fin I; auto; fail | right; exists j'; eqb_tac; fin I; auto]).
  right. exists j. rewrite Nat.eqb_refl. reflexivity.
Qed.

Lemma step_sub : forall st t l st' br, inv st -> step VFixed st t l = Some (st', br) ->
  forall s0 j0, sub_pc (kp st' s0 j0) = true -> ret (subs st' s0) = false /\ j0 = 0.
Proof.
  intros st t l st' br I H s0 j0.
  destruct t as [p | s j]; step_inv H; simp; eqb_tac; simp; intros Hq;
    try discriminate; try congruence.
  all: fin I; auto.
Qed.

Lemma step_j : forall st t l st' br, inv st -> step VFixed st t l = Some (st', br) ->
  forall s0 j0, j0 <> 0 -> kp st' s0 j0 = KIdle \/ in_close (kp st' s0 j0) = true.
Proof.
  intros st t l st' br I H s0 j0 Hj. pose proof (i_j _ I s0 j0 Hj) as J.
  destruct t as [p | s j]; step_inv H; simp; eqb_tac; simp; auto; fin I; auto.
Qed.

Lemma step_send : forall st t l st' br, inv st -> step VFixed st t l = Some (st', br) ->
  forall p0 s0 vis, pp st' p0 = PSend s0 vis -> in_map (subs st' s0) = true.
Proof.
  intros st t l st' br I H p0 s0 vis.
  destruct t as [p | s j]; step_inv H; simp; eqb_tac; simp; intros Hq;
    try discriminate; try congruence.
  all: try (inversion Hq; subst; clear Hq); fin I; auto.
Qed.

Lemma step_fresh : forall st t l st' br, inv st -> step VFixed st t l = Some (st', br) ->
  forall s0, ret (subs st' s0) = false ->
    closed (subs st' s0) = false /\ done (subs st' s0) = false /\ cleared (subs st' s0) = false /\
    smu (subs st' s0) = None /\ (in_map (subs st' s0) = true -> kp st' s0 0 = KSubUnlock) /\
    forall j0, kp st' s0 j0 = KIdle \/ sub_pc (kp st' s0 j0) = true.
Proof.
  intros st t l st' br I H s0.
  destruct t as [p | s j]; step_inv H; simp; eqb_tac; simp; intros Hq;
    try discriminate.
  all: fin I.
  all: try (repeat split; auto; intros; eqb_tac; fin I; auto; fail).
  all: try (exfalso; match goal with H3 : in_map _ = true -> _, Hin : in_map _ = true |- _ =>
                       specialize (H3 Hin); discriminate end).
  all: repeat split; auto.
  all: try (intros Hin; match goal with H3 : in_map _ = true -> _ |- _ => specialize (H3 Hin) end;
            rw_pcs; try discriminate; congruence).
  all: try (intros j0; eqb_tac; simp0; auto;
            match goal with H4 : forall j, _ \/ _ |- _ => specialize (H4 j0) end; rw_pcs; simp0;
            intuition congruence).
Qed.

Lemma step_nil : forall st t l st' br, inv st -> step VFixed st t l = Some (st', br) ->
  forall s0 j0, kp st' s0 j0 = KRecv true -> cleared (subs st' s0) = true.
Proof.
  intros st t l st' br I H s0 j0. pose proof (i_nil _ I s0 j0) as Hn.
  destruct t as [p | s j]; step_inv H; simp; eqb_tac; simp; intros Hq;
    try discriminate; try congruence; auto.
  all: try (inversion Hq; subst; clear Hq); fin I; auto.
Qed.

Lemma step_ps : forall st t l st' br, inv st -> step VFixed st t l = Some (st', br) ->
  forall p0, holdp (pp st' p0) = true -> ps st' p0 <> [].
Proof.
  intros st t l st' br I H p0. pose proof (i_ps _ I p0) as Hn.
  destruct t as [p | s j]; step_inv H; simp; eqb_tac; simp; intros Hq;
    try discriminate; try congruence; auto.
  all: try (apply Hn; rw_pcs; reflexivity).
Qed.

Theorem inv_step : forall st t l st' br, inv st -> step VFixed st t l = Some (st', br) -> inv st'.
Proof.
  intros st t l st' br I H. constructor.
  - eapply step_bad; eauto.
  - eapply step_tmu1; eauto.
  - eapply step_tmu2; eauto.
  - eapply step_smu1; eauto.
  - eapply step_smu2; eauto.
  - eapply step_map; eauto.
  - eapply step_clr; eauto.
  - eapply step_pc; eauto.
  - eapply step_done; eauto.
  - eapply step_fresh; eauto.
  - eapply step_sub; eauto.
  - eapply step_j; eauto.
  - eapply step_send; eauto.
  - eapply step_nil; eauto.
  - eapply step_ps; eauto.
Qed.

Theorem inv_reachable : forall n kscr pscr st, reachable VFixed (init n kscr pscr) st -> inv st.
Proof.
  intros n kscr pscr st R. induction R.
  - apply inv_init.
  - eapply inv_step; eauto.
Qed.











(* ---------- consequences ---------- *)

(* no runtime panic is reachable: no send on a closed channel, no double close of ch or done *)
Theorem no_panic : forall n kscr pscr st, reachable VFixed (init n kscr pscr) st -> bad st = false.
Proof. intros. eapply i_bad, inv_reachable; eauto. Qed.

(* ... and none is one step away either: every enabled step of a reachable state avoids the panic
   branches 9 (send on closed ch), 24 (close(done) twice), 27 (close(ch) twice) *)
Theorem no_panic_branch : forall st t l st' br, inv st -> step VFixed st t l = Some (st', br) ->
  br <> 9%N /\ br <> 24%N /\ br <> 27%N.
Proof.
  intros st t l st' br I H. pose proof (step_bad _ _ _ _ _ I H) as Hb.
  destruct t as [p | s j]; step_inv H; simp; repeat split; try discriminate; try congruence.
Qed.

(* closed-ness only grows: done, cleared, closed, ret are never reset (any variant) *)
Lemma step_mono : forall v st t l st' br, step v st t l = Some (st', br) -> forall s0,
  (done (subs st s0) = true -> done (subs st' s0) = true) /\
  (cleared (subs st s0) = true -> cleared (subs st' s0) = true) /\
  (closed (subs st s0) = true -> closed (subs st' s0) = true) /\
  (ret (subs st s0) = true -> ret (subs st' s0) = true).
Proof.
  intros v st t l st' br H s0.
  destruct t as [p | s j]; step_inv H; simp; eqb_tac; simp; repeat split; auto; try congruence.
Qed.

(* a step of thread t changes only t's pc, except that a publisher's rendezvous send moves the
   receiver (s,0) from "blocked in Next" to idle *)
Lemma step_frame_k : forall v st t l st' br s j, step v st t l = Some (st', br) -> t <> TSub s j ->
  kp st' s j = kp st s j \/ (kp st s j = KRecv false /\ kp st' s j = KIdle).
Proof.
  intros v st t l st' br s j H Hne.
  destruct t as [p | s1 j1]; step_inv H; simp; eqb_tac; simp; auto; try congruence.
Qed.
Lemma step_frame_p : forall v st t l st' br p, step v st t l = Some (st', br) -> t <> TPub p ->
  pp st' p = pp st p.
Proof.
  intros v st t l st' br p H Hne.
  destruct t as [p1 | s1 j1]; step_inv H; simp; eqb_tac; simp; auto; try congruence.
Qed.

(* the done case of Publish's select *)
Lemma pub_skip : forall st p s vis, bad st = false -> pp st p = PSend s vis -> done (subs st s) = true ->
  step VFixed st (TPub p) LSkip = Some (set_pp p (PLoop (s :: vis)) st, 6%N).
Proof. intros st p s vis Hb Hp Hd. unfold step, pstep. rewrite Hb, Hp, Hd. reflexivity. Qed.

Definition xnextpc (c : bool) (x : xpc) : kpc :=
  match x with
  | XCheck => if c then KClose XUnlockS else KClose XCloseDone
  | XCloseDone => KClose XLockT | XLockT => KClose XUnsub | XUnsub => KClose XUnlockT
  | XUnlockT => KClose XClear | XClear => KClose XUnlockS | XUnlockS => KIdle
  end.

(* every pc of Close is enabled, except XLockT which needs Topic.mu to be free *)
Lemma x_step : forall st s j x, inv st -> kp st s j = KClose x -> (x = XLockT -> tmu st = None) ->
  exists st' br, step VFixed st (TSub s j) L0 = Some (st', br) /\
    kp st' s j = xnextpc (cleared (subs st s)) x /\
    (forall p, pp st' p = pp st p) /\
    tmu st' = match x with XLockT => Some (TSub s j) | XUnlockT => None | _ => tmu st end /\
    (x = XCloseDone -> done (subs st' s) = true) /\
    (x = XUnlockS -> smu (subs st' s) = None).
Proof.
  intros st s j x I Hk Ht. pose proof (i_bad _ I) as Hb.
  unfold step, sstep, xstep. rewrite Hb, Hk. cbv zeta.
  destruct x; simp.
  - destruct (cleared (subs st s)); do 2 eexists; (split; [reflexivity|]); simp;
      rewrite !Nat.eqb_refl; repeat split; auto; discriminate.
  - fwd I. rewrite H0. do 2 eexists; (split; [reflexivity|]); simp; rewrite !Nat.eqb_refl.
    rewrite H. repeat split; auto; discriminate.
  - rewrite (Ht eq_refl). cbn [is_none]. fwd I. do 2 eexists; (split; [reflexivity|]); simp;
      rewrite !Nat.eqb_refl. rewrite H. repeat split; auto; discriminate.
  - fwd I. destruct (in_map (subs st s)) eqn:Hm4.
    + rewrite (i_map _ I _ Hm4). do 2 eexists; (split; [reflexivity|]); simp; rewrite !Nat.eqb_refl.
      rewrite H. repeat split; auto; discriminate.
    + do 2 eexists; (split; [reflexivity|]); simp; rewrite !Nat.eqb_refl.
      rewrite H. repeat split; auto; discriminate.
  - fwd I. do 2 eexists; (split; [reflexivity|]); simp; rewrite !Nat.eqb_refl.
    rewrite H. repeat split; auto; discriminate.
  - fwd I. do 2 eexists; (split; [reflexivity|]); simp; rewrite !Nat.eqb_refl.
    rewrite H. repeat split; auto; discriminate.
  - fwd I. do 2 eexists; (split; [reflexivity|]); simp; rewrite !Nat.eqb_refl.
    repeat split; auto; discriminate.
Qed.

Definition only (ts : list tid) (sched : list (tid * lbl)) : Prop :=
  Forall (fun tl => In (fst tl) ts) sched.

(* THE FIX, as a theorem.  Whenever a publisher p is at its select for subscription s (holding
   Topic.mu) and ANY goroutine j is anywhere inside Close of s (holding Subscription.mu), then — in
   every reachable state, whatever all other goroutines are doing — the two of them alone can take at
   most 3 steps (<= 2 by the closer up to close(done), 1 by the publisher: the done case), each
   enabled when taken, after which the publisher has left s for good (s is in its visited list). *)
Theorem pub_released : forall st p s vis j x, inv st -> pp st p = PSend s vis -> kp st s j = KClose x ->
  exists sched st', length sched <= 3 /\ only [TPub p; TSub s j] sched /\
    run VFixed sched st = Some st' /\ pp st' p = PLoop (s :: vis) /\ inv st'.
Proof.
  intros st p s vis j x I Hp Hk.
  assert (Hmap : in_map (subs st s) = true) by (eapply i_send; eauto).
  assert (Hclr : cleared (subs st s) = false).
  { destruct (cleared (subs st s)) eqn:E; auto. destruct (i_clr _ I _ E). congruence. }
  assert (Hskip : forall st1, inv st1 -> pp st1 p = PSend s vis -> done (subs st1 s) = true ->
            exists st2, run VFixed [(TPub p, LSkip)] st1 = Some st2 /\ pp st2 p = PLoop (s :: vis) /\ inv st2).
  { intros st1 I1 Hp1 Hd1. pose proof (pub_skip st1 p s vis (i_bad _ I1) Hp1 Hd1) as Hs.
    eexists. cbn [run]. rewrite Hs. split; [reflexivity|]. split.
    - cbn. unfold upd. rewrite Nat.eqb_refl. reflexivity.
    - eapply inv_step; eauto. }
  assert (Hun : forall tl, In tl [(TSub s j, L0); (TSub s j, L0); (TPub p, LSkip)] ->
                           In (fst tl) [TPub p; TSub s j]).
  { intros tl [E | [E | [E | []]]]; subst; cbn; auto. }
  pose proof (i_pc _ I _ _ _ Hk) as Hx.
  destruct x; cbn [xinv] in Hx.
  - (* XCheck: two closer steps, then the publisher *)
    destruct (x_step st s j XCheck I Hk) as (st1 & b1 & S1 & K1 & P1 & T1 & _); [discriminate|].
    rewrite Hclr in K1. cbn in K1. pose proof (inv_step _ _ _ _ _ I S1) as I1.
    destruct (x_step st1 s j XCloseDone I1 K1) as (st2 & b2 & S2 & K2 & P2 & T2 & D2 & _); [discriminate|].
    pose proof (inv_step _ _ _ _ _ I1 S2) as I2.
    destruct (Hskip st2 I2) as (st3 & R3 & P3 & I3); [rewrite P2, P1; auto | auto |].
    exists [(TSub s j, L0); (TSub s j, L0); (TPub p, LSkip)], st3.
    split; [cbn; lia|]. split; [apply Forall_forall; auto|].
    split; [cbn [run]; rewrite S1, S2; exact R3|]. split; auto.
  - (* XCloseDone *)
    destruct (x_step st s j XCloseDone I Hk) as (st2 & b2 & S2 & K2 & P2 & T2 & D2 & _); [discriminate|].
    pose proof (inv_step _ _ _ _ _ I S2) as I2.
    destruct (Hskip st2 I2) as (st3 & R3 & P3 & I3); [rewrite P2; auto | auto |].
    exists [(TSub s j, L0); (TPub p, LSkip)], st3.
    split; [cbn; lia|]. split; [apply Forall_forall; intros tl Hin; apply Hun; cbn in *; tauto|].
    split; [cbn [run]; rewrite S2; exact R3|]. split; auto.
  - destruct Hx. destruct (Hskip st I) as (st3 & R3 & P3 & I3); auto.
    exists [(TPub p, LSkip)], st3.
    split; [cbn; lia|]. split; [apply Forall_forall; intros tl Hin; apply Hun; cbn in *; tauto|].
    split; auto.
  - destruct Hx. destruct (Hskip st I) as (st3 & R3 & P3 & I3); auto.
    exists [(TPub p, LSkip)], st3.
    split; [cbn; lia|]. split; [apply Forall_forall; intros tl Hin; apply Hun; cbn in *; tauto|].
    split; auto.
  - destruct Hx as (_ & Hd & _). destruct (Hskip st I) as (st3 & R3 & P3 & I3); auto.
    exists [(TPub p, LSkip)], st3.
    split; [cbn; lia|]. split; [apply Forall_forall; intros tl Hin; apply Hun; cbn in *; tauto|].
    split; auto.
  - destruct Hx as (_ & Hd & _). destruct (Hskip st I) as (st3 & R3 & P3 & I3); auto.
    exists [(TPub p, LSkip)], st3.
    split; [cbn; lia|]. split; [apply Forall_forall; intros tl Hin; apply Hun; cbn in *; tauto|].
    split; auto.
  - congruence.
Qed.

(* nothing any other goroutine does can take that away: the configuration "p at its select for s,
   j inside Close of s" and the fact that done is closed are stable under steps of all other threads *)
Theorem pub_released_stable : forall v st t l st' br p s vis j x,
  step v st t l = Some (st', br) -> t <> TPub p -> t <> TSub s j ->
  pp st p = PSend s vis -> kp st s j = KClose x ->
  pp st' p = PSend s vis /\ kp st' s j = KClose x /\
  (done (subs st s) = true -> done (subs st' s) = true).
Proof.
  intros v st t l st' br p s vis j x H N1 N2 Hp Hk. split; [|split].
  - rewrite (step_frame_p _ _ _ _ _ _ _ H N1). exact Hp.
  - destruct (step_frame_k _ _ _ _ _ _ s j H N2) as [E | [E _]]; congruence.
  - apply (step_mono _ _ _ _ _ _ H s).
Qed.

Definition xrank (x : xpc) : nat :=
  match x with XCheck => 7 | XCloseDone => 6 | XLockT => 5 | XUnsub => 4 | XUnlockT => 3 | XClear => 2 | XUnlockS => 1 end.

(* Close itself: from any pc inside Close, once Topic.mu is free (or already ours), the closer ALONE
   finishes in at most 7 steps, all enabled; afterwards the subscription is closed and unlocked. *)
Theorem close_completes : forall n st s j x, xrank x <= n -> inv st -> kp st s j = KClose x ->
  (tmu st = None \/ tmu st = Some (TSub s j)) ->
  exists m st', m <= xrank x /\ run VFixed (repeat (TSub s j, L0) m) st = Some st' /\
    kp st' s j = KIdle /\ cleared (subs st' s) = true /\ smu (subs st' s) = None /\ inv st'.
Proof.
  induction n; intros st s j x Hr I Hk Ht.
  - destruct x; cbn in Hr; lia.
  - assert (Hlk : x = XLockT -> tmu st = None).
    { intros ->. destruct Ht as [|Ht]; auto. pose proof (i_tmu2 _ I _ Ht) as Hh.
      cbn in Hh. rewrite Hk in Hh. discriminate. }
    destruct (x_step st s j x I Hk Hlk) as (st1 & b1 & S1 & K1 & P1 & T1 & D1 & U1).
    pose proof (inv_step _ _ _ _ _ I S1) as I1.
    assert (Ht1 : tmu st1 = None \/ tmu st1 = Some (TSub s j)) by (rewrite T1; destruct x; auto).
    destruct x; cbn [xnextpc] in K1.
    + destruct (cleared (subs st s)).
      * destruct (IHn st1 s j XUnlockS) as (m & st2 & Hm & R & A & B & C & D); auto; [cbn [xrank] in *; lia|].
        exists (S m), st2. split; [cbn [xrank] in *; lia|]. split; [cbn [repeat run]; rewrite S1; exact R|]. split; [|split; [|split]]; auto.
      * destruct (IHn st1 s j XCloseDone) as (m & st2 & Hm & R & A & B & C & D); auto; [cbn [xrank] in *; lia|].
        exists (S m), st2. split; [cbn [xrank] in *; lia|]. split; [cbn [repeat run]; rewrite S1; exact R|]. split; [|split; [|split]]; auto.
    + destruct (IHn st1 s j XLockT) as (m & st2 & Hm & R & A & B & C & D); auto; [cbn [xrank] in *; lia|].
      exists (S m), st2. split; [cbn [xrank] in *; lia|]. split; [cbn [repeat run]; rewrite S1; exact R|]. split; [|split; [|split]]; auto.
    + destruct (IHn st1 s j XUnsub) as (m & st2 & Hm & R & A & B & C & D); auto; [cbn [xrank] in *; lia|].
      exists (S m), st2. split; [cbn [xrank] in *; lia|]. split; [cbn [repeat run]; rewrite S1; exact R|]. split; [|split; [|split]]; auto.
    + destruct (IHn st1 s j XUnlockT) as (m & st2 & Hm & R & A & B & C & D); auto; [cbn [xrank] in *; lia|].
      exists (S m), st2. split; [cbn [xrank] in *; lia|]. split; [cbn [repeat run]; rewrite S1; exact R|]. split; [|split; [|split]]; auto.
    + destruct (IHn st1 s j XClear) as (m & st2 & Hm & R & A & B & C & D); auto; [cbn [xrank] in *; lia|].
      exists (S m), st2. split; [cbn [xrank] in *; lia|]. split; [cbn [repeat run]; rewrite S1; exact R|]. split; [|split; [|split]]; auto.
    + destruct (IHn st1 s j XUnlockS) as (m & st2 & Hm & R & A & B & C & D); auto; [cbn [xrank] in *; lia|].
      exists (S m), st2. split; [cbn [xrank] in *; lia|]. split; [cbn [repeat run]; rewrite S1; exact R|]. split; [|split; [|split]]; auto.
    + exists 1, st1. split; [cbn; lia|]. split; [cbn [repeat run]; rewrite S1; reflexivity|].
      split; auto. split; [|split; auto].
      pose proof (i_pc _ I _ _ _ Hk) as Hx. cbn in Hx.
      apply (step_mono _ _ _ _ _ _ S1 s). exact Hx.
Qed.

(* st' differs from st at most in the pc/script of thread (s,j) *)
Definition same_but (st st' : state) (s j : nat) : Prop :=
  tmu st' = tmu st /\ last st' = last st /\ bad st' = bad st /\ nsub st' = nsub st /\
  (forall s0, subs st' s0 = subs st s0) /\
  (forall s0 j0, (s0 <> s \/ j0 <> j) -> kp st' s0 j0 = kp st s0 j0 /\ ks st' s0 j0 = ks st s0 j0) /\
  (forall p, pp st' p = pp st p /\ ps st' p = ps st p).

(* Close is idempotent: on a subscription that has been closed (by anyone), a further Close from ANY
   goroutine j is lock, look, unlock — three steps, all enabled, and the shared state afterwards is
   exactly what it was. *)
Theorem close_idempotent : forall st s j r, inv st -> kp st s j = KIdle -> ks st s j = AClose :: r ->
  ret (subs st s) = true -> cleared (subs st s) = true -> smu (subs st s) = None ->
  exists st', run VFixed [(TSub s j, L0); (TSub s j, L0); (TSub s j, L0)] st = Some st' /\
     kp st' s j = KIdle /\ ks st' s j = r /\ same_but st st' s j.
Proof.
  intros st s j r I Hk Hs Hret Hclr Hsmu. pose proof (i_bad _ I) as Hb.
  eexists. split.
  { cbn [run]. unfold step at 1. rewrite Hb. unfold sstep at 1. cbv zeta. rewrite Hk, Hs, Hret, Hsmu. cbn [is_none].
    unfold step at 1. simp. rewrite Hb. unfold sstep at 1. cbv zeta. simp. rewrite !Nat.eqb_refl.
    unfold xstep at 1. cbv zeta. simp. rewrite !Nat.eqb_refl. simp. rewrite Hclr.
    unfold step at 1. simp. rewrite Hb. unfold sstep at 1. cbv zeta. simp. rewrite !Nat.eqb_refl.
    unfold xstep at 1. cbv zeta. reflexivity. }
  simp. rewrite !Nat.eqb_refl. split; auto. split; auto.
  unfold same_but. simp. repeat split; auto.
  - intros s0. eqb_tac; auto. destruct (subs st s); cbn in *. subst. reflexivity.
  - destruct H as [H | H]; eqb_tac; auto; congruence.
  - destruct H as [H | H]; eqb_tac; auto; congruence.
Qed.

(* ---------- what a global deadlock can look like ---------- *)

Definition stuck (st : state) : Prop := forall t l, step VFixed st t l = None.

Lemma all_vis_false : forall st vis n, all_vis st vis n = false ->
  exists s, s < n /\ in_map (subs st s) = true /\ memb s vis = false.
Proof.
  induction n; cbn; intros H; [discriminate|].
  apply andb_false_iff in H. destruct H as [H | H].
  - apply orb_false_iff in H. destruct H as [H1 H2]. apply negb_false_iff in H1.
    exists n. repeat split; auto.
  - destruct (IHn H) as (s & L & A & B). exists s. repeat split; auto.
Qed.

Lemma idle_enabled : forall st s j a r, bad st = false -> kp st s j = KIdle -> ks st s j = a :: r ->
  (tmu st = None \/ ret (subs st s) = true) -> smu (subs st s) = None ->
  step VFixed st (TSub s j) L0 <> None.
Proof.
  intros st s j a r Hb Hk Hs Ht Hm. unfold step, sstep. cbv zeta. rewrite Hb, Hk, Hs, Hm. cbn [is_none].
  destruct a.
  - destruct Ht as [Ht | Ht]; rewrite Ht; cbn [is_none negb andb];
      destruct (j =? 0), (ret (subs st s)), (s <? nsub st); cbn; discriminate.
  - destruct (j =? 0), (ret (subs st s)), (cleared (subs st s)); cbn; discriminate.
  - discriminate.
  - destruct (ret (subs st s)); discriminate.
Qed.

Lemma close_enabled : forall st s j x, inv st -> kp st s j = KClose x -> (x = XLockT -> tmu st = None) ->
  step VFixed st (TSub s j) L0 <> None.
Proof.
  intros st s j x I Hk Ht. destruct (x_step st s j x I Hk Ht) as (st' & br & S & _). congruence.
Qed.

(* A state in which NO goroutine can move is one of exactly two kinds:
   (a) quiescent: Topic.mu is free, every publisher has finished, and every subscription goroutine has
       either finished its script or sits in Next waiting for an event (nothing to receive, its
       context not cancelled) — nobody is stuck inside Publish, Subscribe or Close, nobody waits for a
       mutex;
   (b) the documented blocking Publish: a publisher holds Topic.mu at its select for a subscription s
       that is registered, whose done channel is NOT closed, that nobody is closing, and ALL of whose
       goroutines have finished their scripts — i.e. a *Subscription that was abandoned without
       Close(), against the contract "Subscription MUST always be closed with Close()".
   In particular there is no deadlock that involves a goroutine inside Close, for any number of
   publishers, subscriptions and goroutines and any interleaving. *)
Theorem stuck_char : forall st, inv st -> stuck st ->
  (tmu st = None /\ (forall p, pp st p = PIdle /\ ps st p = []) /\
   (forall s j, (kp st s j = KIdle /\ ks st s j = []) \/ (exists b, kp st s j = KRecv b))) \/
  (exists p s vis, tmu st = Some (TPub p) /\ pp st p = PSend s vis /\
     in_map (subs st s) = true /\ done (subs st s) = false /\ smu (subs st s) = None /\
     (forall j, kp st s j = KIdle /\ ks st s j = [])).
Proof.
  intros st I St. pose proof (i_bad _ I) as Hb.
  (* nobody inside Close can be blocked unless it waits for a held Topic.mu *)
  assert (Hcl : forall s j x, kp st s j = KClose x -> x = XLockT /\ tmu st <> None).
  { intros s j x Hk. destruct x; try (exfalso; eapply close_enabled; eauto; discriminate).
    split; auto. intros Ht. eapply close_enabled; eauto. }
  (* a held Subscription.mu with Topic.mu free is impossible *)
  assert (Hsm : forall s, tmu st = None -> smu (subs st s) = None).
  { intros s Ht. destruct (smu (subs st s)) as [j'|] eqn:E; auto.
    pose proof (i_smu2 _ I _ _ E) as Hc. destruct (kp st s j') eqn:Ek; try discriminate.
    destruct (Hcl _ _ _ Ek). congruence. }
  destruct (tmu st) as [[p | s j]|] eqn:Et.
  - (* a publisher holds Topic.mu *)
    right. pose proof (i_tmu2 _ I _ Et) as Hh. cbn in Hh.
    destruct (pp st p) as [|vis|s vis|] eqn:Ep; try discriminate.
    + exfalso. destruct (all_vis st vis (nsub st)) eqn:Ea.
      * specialize (St (TPub p) L0). unfold step, pstep in St. rewrite Hb, Ep, Ea in St. discriminate.
      * destruct (all_vis_false _ _ _ Ea) as (s & L & A & B).
        specialize (St (TPub p) (LTgt s)). unfold step, pstep in St. rewrite Hb, Ep, A, B in St.
        apply Nat.ltb_lt in L. rewrite L in St. discriminate.
    + pose proof (i_send _ I _ _ _ Ep) as Hm.
      assert (Hd : done (subs st s) = false).
      { destruct (done (subs st s)) eqn:E; auto.
        pose proof (pub_skip st p s vis Hb Ep E) as Hs. rewrite St in Hs. discriminate. }
      assert (Hs : smu (subs st s) = None).
      { destruct (smu (subs st s)) as [j'|] eqn:E; auto.
        pose proof (i_smu2 _ I _ _ E) as Hc. destruct (kp st s j') eqn:Ek; try discriminate.
        destruct (Hcl _ _ _ Ek) as [-> _]. pose proof (i_pc _ I _ _ _ Ek) as Hx. cbn in Hx.
        destruct Hx. congruence. }
      assert (Hr : ret (subs st s) = true).
      { destruct (ret (subs st s)) eqn:E; auto. destruct (i_fresh _ I _ E) as (_ & _ & _ & _ & Hu & _).
        specialize (Hu Hm). assert (Hh2 : hold_t st (TSub s 0) = true) by (cbn; rewrite Hu; reflexivity).
        apply (i_tmu1 _ I) in Hh2. congruence. }
      exists p, s, vis. repeat split; auto.
      all: destruct (kp st s j) eqn:Ek.
      all: try (destruct (ks st s j) eqn:Es; auto; exfalso;
                eapply (idle_enabled st s j); eauto; fail).
      all: try (exfalso; assert (Hh2 : hold_t st (TSub s j) = true) by (cbn; rewrite Ek; reflexivity);
                apply (i_tmu1 _ I) in Hh2; congruence).
      all: try (destruct (Hcl _ _ _ Ek) as [-> _]; pose proof (i_pc _ I _ _ _ Ek) as Hx; cbn in Hx;
                destruct Hx; congruence).
      (* (s,j) blocked in Next *)
      all: exfalso.
      all: assert (j = 0) by (destruct (Nat.eq_dec j 0); auto;
                              destruct (i_j _ I s j n) as [E | E]; rewrite Ek in E; discriminate); subst.
      all: destruct isnil.
      all: try (pose proof (i_nil _ I _ _ Ek) as Hc; destruct (i_clr _ I _ Hc); congruence).
      all: destruct (ps st p) as [|v rest] eqn:Eps.
      all: try (destruct (cap1 (subs st s)) eqn:Ec;
        [ destruct (buf (subs st s)) eqn:Eb;
          [ specialize (St (TPub p) LSend); unfold step, pstep in St; cbv zeta in St;
            rewrite Hb, Ep, Eps, (i_map _ I _ Hm), Ec, Eb in St; discriminate
          | specialize (St (TSub s 0) LBuf); unfold step, sstep in St; cbv zeta in St;
            rewrite Hb, Ek, Eb in St; discriminate ]
        | specialize (St (TPub p) LSend); unfold step, pstep in St; cbv zeta in St;
          rewrite Hb, Ep, Eps, (i_map _ I _ Hm), Ec, Ek in St; discriminate ]).
      all: apply (i_ps _ I p); [rewrite Ep; reflexivity | exact Eps].
    + exfalso. specialize (St (TPub p) L0). unfold step, pstep in St. rewrite Hb, Ep in St. discriminate.
  - (* a subscription goroutine holds Topic.mu: it is inside Subscribe or unsubscribeID, never blocked *)
    exfalso. pose proof (i_tmu2 _ I _ Et) as Hh. cbn in Hh.
    destruct (kp st s j) as [| b | | b | x] eqn:Ek; try discriminate.
    + specialize (St (TSub s j) L0). unfold step, sstep in St. rewrite Hb, Ek in St. discriminate.
    + specialize (St (TSub s j) L0). unfold step, sstep in St. rewrite Hb, Ek in St. discriminate.
    + destruct (Hcl _ _ _ Ek) as [-> _]. discriminate.
  - (* Topic.mu is free *)
    left. split; auto. split.
    + intros p. destruct (pp st p) eqn:Ep.
      2-4: exfalso; assert (Hh2 : hold_t st (TPub p) = true) by (cbn; rewrite Ep; reflexivity);
           apply (i_tmu1 _ I) in Hh2; congruence.
      split; auto. destruct (ps st p) eqn:Eps; auto. exfalso.
      specialize (St (TPub p) L0). unfold step, pstep in St. rewrite Hb, Ep, Eps, Et in St. discriminate.
    + intros s j. destruct (kp st s j) as [| b | | b | x] eqn:Ek.
      * left. split; auto. destruct (ks st s j) eqn:Es; auto. exfalso.
        eapply (idle_enabled st s j); eauto.
      * exfalso; assert (Hh2 : hold_t st (TSub s j) = true) by (cbn; rewrite Ek; reflexivity).
        apply (i_tmu1 _ I) in Hh2; congruence.
      * exfalso; assert (Hh2 : hold_t st (TSub s j) = true) by (cbn; rewrite Ek; reflexivity).
        apply (i_tmu1 _ I) in Hh2; congruence.
      * right. eauto.
      * exfalso. destruct (Hcl _ _ _ Ek) as [_ Hn]. congruence.
Qed.

(* ---------- regression: the protocol before commit 5971b93 deadlocks ---------- *)

(* one subscription whose owner subscribes and then closes without receiving; one publisher *)
Definition dl_kscr (s j : nat) : list kact :=
  match s, j with 0, 0 => [ASub false; AClose] | _, _ => [] end.
Definition dl_pscr (p : nat) : list N := match p with 0 => [5%N] | _ => [] end.
Definition dl_init : state := init 1 dl_kscr dl_pscr.
Definition dl_sched : list (tid * lbl) :=
  [(TSub 0 0, L0); (TSub 0 0, L0); (TSub 0 0, L0);      (* Subscribe(false) *)
   (TPub 0, L0); (TPub 0, LTgt 0);                      (* Publish: lock, reach the send to subscription 0 *)
   (TSub 0 0, L0); (TSub 0 0, L0)].                     (* Close: lock s.mu, s.topic != nil, go to unsubscribeID *)

Theorem prefix_deadlock :
  exists st, run VPrefix dl_sched dl_init = Some st /\
    tmu st = Some (TPub 0) /\ pp st 0 = PSend 0 [] /\       (* publisher blocked in send, holding Topic.mu *)
    kp st 0 0 = KClose XLockT /\                            (* the addressed subscriber inside Close, waiting for Topic.mu *)
    bad st = false /\
    forall t l, step VPrefix st t l = None.                 (* and nothing can ever move again *)
Proof.
  eexists. split; [vm_compute; reflexivity|].
  repeat split.
  intros t l. destruct t as [[|p] | [|s] [|j]]; destruct l; reflexivity.
Qed.

(* the same scenario under the current protocol runs to completion: Close closes done, the publisher
   takes the done case, both finish *)
Definition dl_sched_fixed : list (tid * lbl) :=
  dl_sched ++ [(TSub 0 0, L0);                          (* close(done) *)
               (TPub 0, LSkip); (TPub 0, L0); (TPub 0, L0);   (* done case; range exhausted; unlock *)
               (TSub 0 0, L0); (TSub 0 0, L0); (TSub 0 0, L0); (TSub 0 0, L0); (TSub 0 0, L0)].
Theorem fixed_scenario_completes :
  exists st, run VFixed dl_sched_fixed dl_init = Some st /\ bad st = false /\ tmu st = None /\
    pending st (TPub 0) = false /\ pending st (TSub 0 0) = false /\
    cleared (subs st 0) = true /\ got (subs st 0) = [] /\
    forall t l, step VFixed st t l = None.
Proof.
  eexists. split; [vm_compute; reflexivity|].
  repeat split.
  intros t l. destruct t as [[|p] | [|s] [|j]]; destruct l; reflexivity.
Qed.

(* ---------- the same facts, stated over reachable states (what Props/C17.v quotes) ---------- *)

Definition topic_reach (st : state) : Prop := exists n kscr pscr, reachable VFixed (init n kscr pscr) st.

Lemma reach_inv : forall st, topic_reach st -> inv st.
Proof. intros st (n & k & p & R). eapply inv_reachable; eauto. Qed.

Theorem topic_no_wedge : forall st, topic_reach st ->
  (* (1) a publisher at its select for s is released by ANY goroutine that is inside Close of s *)
  (forall p s vis j x, pp st p = PSend s vis -> kp st s j = KClose x ->
     exists sched st', length sched <= 3 /\ only [TPub p; TSub s j] sched /\
       run VFixed sched st = Some st' /\ pp st' p = PLoop (s :: vis) /\ bad st' = false) /\
  (* (2) Close finishes on its own as soon as Topic.mu is free (or already its own) *)
  (forall s j x, kp st s j = KClose x -> (tmu st = None \/ tmu st = Some (TSub s j)) ->
     exists m st', m <= 7 /\ run VFixed (repeat (TSub s j, L0) m) st = Some st' /\
       kp st' s j = KIdle /\ cleared (subs st' s) = true /\ smu (subs st' s) = None /\ bad st' = false) /\
  (* (3) inside Close only the wait for Topic.mu can block; inside Subscribe/unsubscribeID nothing can *)
  (forall s j x, kp st s j = KClose x -> (x = XLockT -> tmu st = None) ->
     exists st' br, step VFixed st (TSub s j) L0 = Some (st', br)).
Proof.
  intros st R. pose proof (reach_inv _ R) as I. split; [|split].
  - intros p s vis j x Hp Hk.
    destruct (pub_released st p s vis j x I Hp Hk) as (sched & st' & A & B & C & D & E).
    exists sched, st'. repeat split; auto. apply (i_bad _ E).
  - intros s j x Hk Ht.
    destruct (close_completes (xrank x) st s j x (le_n _) I Hk Ht) as (m & st' & A & B & C & D & E & F).
    exists m, st'. repeat split; auto. destruct x; cbn in A; lia. apply (i_bad _ F).
  - intros s j x Hk Ht. destruct (x_step st s j x I Hk Ht) as (st' & br & S & _). eauto.
Qed.

Theorem topic_stuck_char : forall st, topic_reach st -> stuck st ->
  (tmu st = None /\ (forall p, pp st p = PIdle /\ ps st p = []) /\
   (forall s j, (kp st s j = KIdle /\ ks st s j = []) \/ (exists b, kp st s j = KRecv b))) \/
  (exists p s vis, tmu st = Some (TPub p) /\ pp st p = PSend s vis /\
     in_map (subs st s) = true /\ done (subs st s) = false /\ smu (subs st s) = None /\
     (forall j, kp st s j = KIdle /\ ks st s j = [])).
Proof. intros st R. apply stuck_char. apply reach_inv; auto. Qed.

Theorem topic_no_panic : forall st, topic_reach st ->
  bad st = false /\
  forall t l st' br, step VFixed st t l = Some (st', br) ->
    bad st' = false /\ br <> 9%N /\ br <> 24%N /\ br <> 27%N.
Proof.
  intros st R. pose proof (reach_inv _ R) as I. split; [apply (i_bad _ I)|].
  intros t l st' br S. split; [eapply step_bad; eauto | eapply no_panic_branch; eauto].
Qed.

Theorem topic_close_idempotent : forall st s j r, topic_reach st ->
  kp st s j = KIdle -> ks st s j = AClose :: r ->
  ret (subs st s) = true -> cleared (subs st s) = true -> smu (subs st s) = None ->
  exists st', run VFixed [(TSub s j, L0); (TSub s j, L0); (TSub s j, L0)] st = Some st' /\
     kp st' s j = KIdle /\ ks st' s j = r /\ same_but st st' s j.
Proof. intros st s j r R. apply close_idempotent. apply reach_inv; auto. Qed.

(* exactly one real close per subscription: a Close that gets past the nil test finds done open and the
   entry present, so it closes done once and ch once; afterwards [cleared] is set for good and every
   later Close takes the no-op path *)
Theorem topic_close_once : forall st s j, topic_reach st ->
  (kp st s j = KClose XCloseDone -> done (subs st s) = false) /\
  (kp st s j = KClose XUnsub -> in_map (subs st s) = true -> closed (subs st s) = false) /\
  (forall t l st' br, step VFixed st t l = Some (st', br) ->
     (cleared (subs st s) = true -> cleared (subs st' s) = true) /\
     (done (subs st s) = true -> done (subs st' s) = true)).
Proof.
  intros st s j R. pose proof (reach_inv _ R) as I. split; [|split].
  - intros Hk. pose proof (i_pc _ I _ _ _ Hk) as Hx. cbn in Hx. tauto.
  - intros _ Hm. apply (i_map _ I _ Hm).
  - intros t l st' br S. destruct (step_mono _ _ _ _ _ _ S s) as (A & B & _). auto.
Qed.

Lemma reachable_trans_run : forall v st0 sched st st', reachable v st0 st -> run v sched st = Some st' ->
  reachable v st0 st'.
Proof.
  induction sched as [|[t l] r IH]; cbn; intros st st' R H.
  - inversion H; subst; auto.
  - destruct (step v st t l) as [[st1 br]|] eqn:E; [|discriminate].
    apply (IH st1 st'); auto. eapply r_step; eauto.
Qed.
Lemma run_reachable : forall v sched st0 st, run v sched st0 = Some st -> reachable v st0 st.
Proof. intros. eapply reachable_trans_run; eauto. constructor. Qed.
