(* Conc/GlobalStorage.v — snapshot/storage/storage.go: SetGlobal / GetGlobal / wait.
   EXECUTABLE DEFINITIONS ONLY (proofs: Conc/GlobalStorageProofs.v).

   Go:
     var mu sync.RWMutex; var storage simpleblob.Interface; var ready = make(chan struct{})
     SetGlobal(st): (panic if st == nil;) mu.Lock(); defer mu.Unlock();
                    if storage == nil { close(ready) }; storage = st
     GetGlobal():   mu.RLock(); st := storage; mu.RUnlock(); if st != nil { return st }
                    wait()   // returns when ready is closed
                    mu.RLock(); st = storage; mu.RUnlock();
                    if st == nil { panic("Storage still nil after wait()") }; return st
   Atomicity assumptions (race-detector run only): [storage] is read/written only under mu; [ready] is a
   channel.  sync.RWMutex: Lock excludes everybody, RLock excludes writers.  (Go's writer preference —
   a waiting Lock blocks new RLocks — only removes schedules and is not modelled; no reader ever blocks
   while holding RLock here, so it cannot create a deadlock.)

   Threads: [GSet w] calls SetGlobal for each (non-nil) handle of its script; [GGet g] calls GetGlobal
   [gc g] times.  Handles are numbers.  [fixed = false] is the code before commit 406e4a6 (inverted test). *)
From Coq Require Export List NArith Bool Lia Arith.
Export ListNotations.
From LS Require Import Conc.Topics.   (* upd, is_none, seen_in, ins_cov *)

Inductive gtid := GSet (w : nat) | GGet (g : nat).

Inductive wpc :=
| WIdle
| WCheck    (* holding mu: if storage == nil { close(ready) } *)
| WAssign   (* storage = st *)
| WUnlock.  (* deferred mu.Unlock() *)

Inductive gpc :=
| GIdle
| GRead1                    (* holding RLock: st := storage *)
| GUnl1 (st : option N)     (* mu.RUnlock() *)
| GTest1 (st : option N)    (* if st != nil { return st } *)
| GWait                     (* wait(): <-ready *)
| GLock2                    (* mu.RLock() *)
| GRead2
| GUnl2 (st : option N)
| GTest2 (st : option N).   (* if st == nil { panic }; return st *)

Record gstate := mkG {
  wmu : option nat;          (* mu held for writing by SetGlobal thread w *)
  rd : nat -> bool;          (* GetGlobal thread g holds mu.RLock *)
  storage : option N;
  ready : bool;              (* ready is closed *)
  gbad : bool;               (* a panic happened *)
  wp : nat -> wpc;
  ws : nat -> list N;        (* handles still to set (head = in progress) *)
  gp : nat -> gpc;
  gc : nat -> nat;           (* GetGlobal calls still to make *)
  gres : nat -> list (option N);  (* what GetGlobal returned, newest first (None = nil interface) *)
  hist : list N;             (* ghost: every handle ever assigned to [storage] *)
  ng : nat                   (* GetGlobal threads 0 .. ng-1 exist *)
}.

Definition ginit (n : nat) (wscr : nat -> list N) (gcnt : nat -> nat) : gstate :=
  mkG None (fun _ => false) None false false (fun _ => WIdle) wscr (fun _ => GIdle) gcnt (fun _ => []) [] n.

Definition g_set_wmu x (s : gstate) := mkG x (rd s) (storage s) (ready s) (gbad s) (wp s) (ws s) (gp s) (gc s) (gres s) (hist s) (ng s).
Definition g_set_rd g x (s : gstate) := mkG (wmu s) (upd (rd s) g x) (storage s) (ready s) (gbad s) (wp s) (ws s) (gp s) (gc s) (gres s) (hist s) (ng s).
Definition g_set_ready (s : gstate) := mkG (wmu s) (rd s) (storage s) true (gbad s) (wp s) (ws s) (gp s) (gc s) (gres s) (hist s) (ng s).
Definition g_set_bad (s : gstate) := mkG (wmu s) (rd s) (storage s) (ready s) true (wp s) (ws s) (gp s) (gc s) (gres s) (hist s) (ng s).
Definition g_set_wp w x (s : gstate) := mkG (wmu s) (rd s) (storage s) (ready s) (gbad s) (upd (wp s) w x) (ws s) (gp s) (gc s) (gres s) (hist s) (ng s).
Definition g_set_gp g x (s : gstate) := mkG (wmu s) (rd s) (storage s) (ready s) (gbad s) (wp s) (ws s) (upd (gp s) g x) (gc s) (gres s) (hist s) (ng s).
Definition g_assign h (s : gstate) := mkG (wmu s) (rd s) (Some h) (ready s) (gbad s) (wp s) (ws s) (gp s) (gc s) (gres s) (h :: hist s) (ng s).
Definition g_pop w (s : gstate) := mkG (wmu s) (rd s) (storage s) (ready s) (gbad s) (wp s) (upd (ws s) w (tl (ws s w))) (gp s) (gc s) (gres s) (hist s) (ng s).
(* GetGlobal returns r *)
Definition g_return g (r : option N) (s : gstate) :=
  mkG (wmu s) (rd s) (storage s) (ready s) (gbad s) (wp s) (ws s) (upd (gp s) g GIdle) (upd (gc s) g (pred (gc s g)))
      (upd (gres s) g (r :: gres s g)) (hist s) (ng s).

Fixpoint no_reader (s : gstate) (n : nat) : bool :=
  match n with O => true | S n' => negb (rd s n') && no_reader s n' end.

Definition gstep (fixed : bool) (s : gstate) (t : gtid) : option (gstate * N) :=
  if gbad s then None else
  match t with
  | GSet w =>
      match wp s w with
      | WIdle =>                                             (* mu.Lock() *)
          match ws s w with
          | _ :: _ => if is_none (wmu s) && no_reader s (ng s)
                      then Some (g_set_wp w WCheck (g_set_wmu (Some w) s), 1%N) else None
          | [] => None
          end
      | WCheck =>                                            (* if storage == nil { close(ready) } *)
          match storage s with
          | None => if ready s then Some (g_set_bad s, 9%N)  (* close of closed channel *)
                    else Some (g_set_wp w WAssign (g_set_ready s), 2%N)
          | Some _ => Some (g_set_wp w WAssign s, 3%N)
          end
      | WAssign =>                                           (* storage = st *)
          match ws s w with
          | h :: _ => Some (g_set_wp w WUnlock (g_assign h s), 4%N)
          | [] => None
          end
      | WUnlock => Some (g_set_wp w WIdle (g_pop w (g_set_wmu None s)), 5%N)
      end
  | GGet g =>
      if negb (Nat.ltb g (ng s)) then None else
      match gp s g with
      | GIdle =>                                             (* mu.RLock() *)
          match gc s g with
          | S _ => if is_none (wmu s) then Some (g_set_gp g GRead1 (g_set_rd g true s), 10%N) else None
          | O => None
          end
      | GRead1 => Some (g_set_gp g (GUnl1 (storage s)) s, 11%N)
      | GUnl1 st => Some (g_set_gp g (GTest1 st) (g_set_rd g false s), 12%N)
      | GTest1 (Some h) => Some (g_return g (Some h) s, 13%N)     (* fast path *)
      | GTest1 None => Some (g_set_gp g GWait s, 14%N)
      | GWait => if ready s then Some (g_set_gp g GLock2 s, 15%N) else None   (* <-ready *)
      | GLock2 => if is_none (wmu s) then Some (g_set_gp g GRead2 (g_set_rd g true s), 16%N) else None
      | GRead2 => Some (g_set_gp g (GUnl2 (storage s)) s, 17%N)
      | GUnl2 st => Some (g_set_gp g (GTest2 st) (g_set_rd g false s), 18%N)
      | GTest2 st =>
          if fixed then
            match st with
            | None => Some (g_set_bad s, 19%N)                (* panic("Storage still nil after wait()") *)
            | Some h => Some (g_return g (Some h) s, 20%N)
            end
          else
            match st with                                     (* before 406e4a6: if st != nil { panic } *)
            | Some _ => Some (g_set_bad s, 19%N)
            | None => Some (g_return g None s, 20%N)
            end
      end
  end.

Definition gbranches_all : list N := [1;2;3;4;5;10;11;12;13;14;15;16;17;18;20]%N.
(* 9 and 19 (panics) are unreachable with fixed = true: GlobalStorageProofs.v *)

Fixpoint grun (fixed : bool) (sched : list gtid) (s : gstate) : option gstate :=
  match sched with
  | [] => Some s
  | t :: r => match gstep fixed s t with Some (s', _) => grun fixed r s' | None => None end
  end.

(* ---- finite exploration: nw setters, ng getters ---- *)
Definition g_tids (nw n : nat) : list gtid := map GSet (seq 0 nw) ++ map GGet (seq 0 n).
Definition g_succs (fixed : bool) (nw : nat) (s : gstate) : list (gstate * N) :=
  flat_map (fun t => match gstep fixed s t with Some r => [r] | None => [] end) (g_tids nw (ng s)).
Definition enc_on (o : option N) : N := match o with None => 0 | Some v => 1 + v end%N.
Definition enc_wpc (k : wpc) : N := match k with WIdle => 0 | WCheck => 1 | WAssign => 2 | WUnlock => 3 end%N.
Definition enc_gpc (k : gpc) : list N :=
  match k with
  | GIdle => [0] | GRead1 => [1] | GUnl1 st => [2; enc_on st] | GTest1 st => [3; enc_on st] | GWait => [4]
  | GLock2 => [5] | GRead2 => [6] | GUnl2 st => [7; enc_on st] | GTest2 st => [8; enc_on st]
  end%N.
Definition g_encode (nw : nat) (s : gstate) : list N :=
  [match wmu s with None => 0 | Some w => N.of_nat (S w) end; enc_on (storage s); enc_bool (ready s); enc_bool (gbad s)]%N
  ++ flat_map (fun w => enc_wpc (wp s w) :: enc_list (ws s w)) (seq 0 nw)
  ++ flat_map (fun g => enc_bool (rd s g) :: N.of_nat (gc s g) :: enc_gpc (gp s g) ++ enc_list (map enc_on (gres s g)))
              (seq 0 (ng s)).

Record gxres := mkGX { gx_finals : list gstate; gx_seen : trie; gx_cov : list N; gx_out : bool }.
Fixpoint g_explore (fixed : bool) (nw fuel : nat) (todo : list gstate) (r : gxres) : gxres :=
  match fuel with
  | O => match todo with [] => r | _ => mkGX (gx_finals r) (gx_seen r) (gx_cov r) true end
  | S f =>
      match todo with
      | [] => r
      | s :: rest =>
          let e := g_encode nw s in
          if tmem e (gx_seen r) then g_explore fixed nw f rest r
          else
            let sc := g_succs fixed nw s in
            g_explore fixed nw f (map fst sc ++ rest)
              (mkGX (match sc with [] => s :: gx_finals r | _ => gx_finals r end) (tadd e (gx_seen r))
                    (fold_left (fun cv p => ins_cov (snd p) cv) sc (gx_cov r)) (gx_out r))
      end
  end.
Definition g_pending (s : gstate) (t : gtid) : bool :=
  match t with
  | GSet w => match wp s w, ws s w with WIdle, [] => false | _, _ => true end
  | GGet g => match gp s g, gc s g with GIdle, O => false | _, _ => true end
  end.
