(* Sweeper/Model.v — the tomb sweeper.  Mirrors syncer/sweeper/sweeper.go (sweep) and
   lmdbenv/limitscanner/scanner.go (NewLimitScanner, Scan, Cursor) with lmdbscan.Scanner
   (Set, Scan, Key, Val) as used there.

   A DBI is an association list (key, value), strictly sorted by the DBI's key order [cmp]
   (bytes.Compare for ordinary DBIs; MDB_INTEGERKEY DBIs are the same argument with the integer
   order: the model and all proofs are parametric in [cmp]).  DBIs are NOT MDB_DUPSORT (the syncer
   refuses DUPSORT DBIs in native mode; shadow DBIs are never DUPSORT).  An LMDB environment is an
   association list DBI name -> DBI.

   LMDB behaviour assumed (validated by the correspondence on the real library): a write
   transaction is atomic (an error aborts it: nothing it did is visible), a cursor iterates in key
   order over the transaction's view, deleting the record under the cursor with txn.Del does not
   disturb the iteration; MDB_SET_RANGE positions at the first key >= the given key (the value
   argument is ignored for non-DUPSORT DBIs); txn.Del(dbi, key, val) on a non-DUPSORT DBI deletes
   the key whatever val is.

   The application is modelled by arbitrary lists of puts/deletes ([op]) committed between two
   sweeper transactions.  A schedule gives, per sweeper transaction ("slice"), the number of
   records after which the scanner's limit trips (LimitRecords, or the first multiple of
   LimitDurationCheckEvery at which the deadline has passed: any n >= 1; 0 = no limit) and the
   application operations committed before the next slice.  A schedule that is used up is
   [Fuel] (the pass did not end within the given number of slices).
   No proofs here. *)
From LS Require Import Base.Bytes Base.Res Header.Model Retention.Model.
Open Scope N_scope.

Definition dbi := list (bytes * bytes).
Definition env := list (bytes * dbi).

(* what the sweep loop decides for one stored value *)
Inductive verdict := VLive | VYoung | VExpired.

(* Go: sweep, body of `for ls.Scan()`: header.Parse; !IsDeleted -> continue;
   h.Timestamp >= cutoffTS -> continue; else clean *)
Definition classify (cutoff : N) (v : bytes) : res verdict :=
  match parse v with
  | Ok (h, _) =>
      if negb (is_deleted (h_flags h)) then Ok VLive
      else if cutoff <=? h_ts h then Ok VYoung
      else Ok VExpired
  | Err e => Err e
  | Panic => Panic
  | OutOfFuel => OutOfFuel
  end.

Definition is_expired (cutoff : N) (v : bytes) : bool :=
  match classify cutoff v with Ok VExpired => true | _ => false end.

(* point lookups by byte equality (keys of a sorted DBI are unique) *)
Fixpoint lookup (k : bytes) (db : dbi) : option bytes :=
  match db with
  | [] => None
  | (k', v) :: r => if beqb k k' then Some v else lookup k r
  end.

(* Go: txn.Del(dbi, key, val) on a non-DUPSORT DBI; also the application's delete *)
Fixpoint del (k : bytes) (db : dbi) : dbi :=
  match db with
  | [] => []
  | (k', v) :: r => if beqb k k' then r else (k', v) :: del k r
  end.

(* Go: LimitScanner.Scan, the two limit checks made before fetching the next record:
   LimitRecords > 0 && count >= LimitRecords, and the deadline check at count > 0 &&
   count % checkEvery == 0.  [lim] is the record count at which the limit trips in this slice;
   0 = never (LimitRecords = 0 and no deadline, or the deadline is not reached) *)
Definition limit_hit (lim count : nat) : bool := Nat.ltb 0 lim && Nat.leb lim count.

(* Go: the `for ls.Scan() { ... }` loop of sweep together with LimitScanner.Scan/Cursor.
   [s] the records the cursor still has in front of it, [cur] the record last returned by Scan
   (s.Key(), s.Val(); nil/nil = None), [db] the DBI as the transaction sees it.
   Result: (DBI, LimitCursor, limitReached) *)
Fixpoint scan_loop (cutoff : N) (lim count : nat) (s : dbi) (cur : option (bytes * bytes)) (db : dbi)
  : res (dbi * option (bytes * bytes) * bool) :=
  if limit_hit lim count then Ok (db, cur, true)
  else
    match s with
    | [] => Ok (db, None, false)            (* ErrNotFound: Scan false, Key()/Val() nil *)
    | (k, v) :: s' =>
        match classify cutoff v with
        | Ok VExpired => scan_loop cutoff lim (S count) s' (Some (k, v)) (del k db)
        | Ok _ => scan_loop cutoff lim (S count) s' (Some (k, v)) db
        | Err e => Err e
        | Panic => Panic
        | OutOfFuel => OutOfFuel
        end
    end.

(* which kinds of record a slice met (coverage): bit 1 live, 2 young marker, 4 expired marker,
   8 unparsable *)
Fixpoint scan_kinds (cutoff : N) (lim count : nat) (s : dbi) : N :=
  if limit_hit lim count then 0
  else
    match s with
    | [] => 0
    | (k, v) :: s' =>
        match classify cutoff v with
        | Ok VLive => N.lor 1 (scan_kinds cutoff lim (S count) s')
        | Ok VYoung => N.lor 2 (scan_kinds cutoff lim (S count) s')
        | Ok VExpired => N.lor 4 (scan_kinds cutoff lim (S count) s')
        | _ => 8
        end
    end.

Section Order.
(* the key order of the DBI *)
Variable cmp : bytes -> bytes -> comparison.

(* the application's put *)
Fixpoint put (k v : bytes) (db : dbi) : dbi :=
  match db with
  | [] => [(k, v)]
  | (k', v') :: r =>
      match cmp k k' with
      | Lt => (k, v) :: db
      | Eq => (k, v) :: r
      | Gt => (k', v') :: put k v r
      end
  end.

(* Go: cursor.Get(key, _, MDB_SET_RANGE): the records from the first key >= k on *)
Fixpoint seek (k : bytes) (db : dbi) : dbi :=
  match db with
  | [] => []
  | (k', v') :: r =>
      match cmp k' k with
      | Lt => seek k r
      | _ => db
      end
  end.

(* Go: LimitScanner.Scan, `if s.count == 0 && !s.opt.Last.IsZero()`:
   Set(last.key, last.val, SetRange); if key AND value equal the last ones, advance one *)
Definition resume (last : option (bytes * bytes)) (db : dbi) : dbi :=
  match last with
  | None => db
  | Some (lk, lv) =>
      match seek lk db with
      | [] => []
      | (k, v) :: s' => if beqb k lk && beqb v lv then s' else (k, v) :: s'
      end
  end.

(* which resume path a slice takes (coverage): 0 first slice; 1 nothing at or after the last key;
   2 last record unchanged, skipped; 3 same key, value changed, re-examined;
   4 last key gone, next key *)
Definition resume_branch (last : option (bytes * bytes)) (db : dbi) : N :=
  match last with
  | None => 0
  | Some (lk, lv) =>
      match seek lk db with
      | [] => 1
      | (k, v) :: _ => if beqb k lk then (if beqb v lv then 2 else 3) else 4
      end
  end.

(* Go: one `env.Update(func(txn) ...)` of sweep on an opened DBI, when it returns nil *)
Definition slice (cutoff : N) (last : option (bytes * bytes)) (lim : nat) (db : dbi)
  : res (dbi * option (bytes * bytes) * bool) :=
  scan_loop cutoff lim 0 (resume last db) None db.

(* ---- environment ---- *)

Fixpoint env_get (d : bytes) (e : env) : option dbi :=
  match e with
  | [] => None
  | (d', db) :: r => if beqb d d' then Some db else env_get d r
  end.

Fixpoint env_set (d : bytes) (db : dbi) (e : env) : env :=
  match e with
  | [] => []
  | (d', db') :: r => if beqb d d' then (d', db) :: r else (d', db') :: env_set d db r
  end.

Definition elookup (d k : bytes) (e : env) : option bytes :=
  match env_get d e with Some db => lookup k db | None => None end.

(* application writes, one committed transaction = a list of them *)
Inductive op :=
| OPut (d k v : bytes)
| ODel (d k : bytes).

Definition apply_op (e : env) (o : op) : env :=
  match o with
  | OPut d k v => match env_get d e with Some db => env_set d (put k v db) e | None => e end
  | ODel d k => match env_get d e with Some db => env_set d (del k db) e | None => e end
  end.
Definition apply_ops (ops : list op) (e : env) : env := fold_left apply_op ops e.

Definition op_touches (d k : bytes) (o : op) : bool :=
  match o with
  | OPut d' k' _ => beqb d d' && beqb k k'
  | ODel d' k' => beqb d d' && beqb k k'
  end.
Definition op_dbi (o : op) : bytes := match o with OPut d _ _ => d | ODel d _ => d end.

(* Go: one env.Update of sweep: OpenDBI(dbiName, 0) (fails when the DBI is gone), the scan *)
Definition eslice (cutoff : N) (d : bytes) (last : option (bytes * bytes)) (lim : nat) (e : env)
  : res (env * option (bytes * bytes) * bool) :=
  match env_get d e with
  | None => Err EOther
  | Some db =>
      match slice cutoff last lim db with
      | Ok (db', last', lr) => Ok (env_set d db' e, last', lr)
      | Err x => Err x
      | Panic => Panic
      | OutOfFuel => OutOfFuel
      end
  end.

Definition sched := list (nat * list op).

(* one committed sweeper transaction *)
Record step := mkStep { st_dbi : bytes; st_before : env; st_after : env }.

Inductive outcome :=
| Done (e : env) (rest : sched)     (* the loop ended normally *)
| Failed (x : err) (e : env)        (* sweep returned an error *)
| Fuel (e : env).                   (* still looping when the schedule ran out *)

(* Go: sweep, the inner `for { err := s.env.Update(...); if limitReached {sleep; continue};
   if err != nil {return}; break }` for one dbiName.  [last], [lr] are the variables
   `last`, `limitReached`: they are assigned at the END of a successful transaction body only, so a
   transaction that fails leaves the values of the previous slice in place (the stale
   `limitReached`: after a failure in a later slice the loop sleeps and retries).
   Returns the outcome and the committed sweeper transactions in order. *)
Fixpoint dbi_pass (cutoff : N) (d : bytes) (sc : sched) (last : option (bytes * bytes)) (lr : bool)
  (e : env) : outcome * list step :=
  match sc with
  | [] => (Fuel e, [])
  | (lim, ops) :: sc' =>
      match eslice cutoff d last lim e with
      | Ok (e', last', lr') =>
          if lr' then
            let (o, tr) := dbi_pass cutoff d sc' last' true (apply_ops ops e') in
            (o, mkStep d e e' :: tr)
          else (Done (apply_ops ops e') sc', [mkStep d e e'])
      | Err x =>
          if lr then dbi_pass cutoff d sc' last true (apply_ops ops e)
          else (Failed x e, [])
      | Panic => (Failed EOther e, [])
      | OutOfFuel => (Fuel e, [])
      end
  end.

(* Go: strings.HasPrefix *)
Fixpoint has_prefix (p s : bytes) : bool :=
  match p with
  | [] => true
  | x :: p' => match s with y :: s' => (x =? y) && has_prefix p' s' | [] => false end
  end.
Definition SyncDBIPrefix : bytes := [95; 115; 121; 110; 99].   (* "_sync" *)

(* Go: sweep, `if !s.schemaTracksChanges && !strings.HasPrefix(dbiName, SyncDBIPrefix) {continue}` *)
Definition selected (native : bool) (name : bytes) : bool := native || has_prefix SyncDBIPrefix name.

(* Go: sweep, `for _, dbiName := range dbiNames` *)
Fixpoint sweep_dbis (cutoff : N) (native : bool) (names : list bytes) (sc : sched) (e : env)
  : outcome * list step :=
  match names with
  | [] => (Done e sc, [])
  | d :: names' =>
      if selected native d then
        match dbi_pass cutoff d sc None false e with
        | (Done e' sc', tr) =>
            let (o, tr') := sweep_dbis cutoff native names' sc' e' in (o, tr ++ tr')
        | r => r
        end
      else sweep_dbis cutoff native names' sc e
  end.

(* Go: sweep.  [now] = time.Now().UnixNano() at the start, [R] = conf.RetentionDuration();
   the DBI names are read once at the start *)
Definition sweep (now R : Z) (native : bool) (sc : sched) (e : env) : outcome * list step :=
  sweep_dbis (sweep_cutoff now R) native (map fst e) sc e.

End Order.
