(* Sweeper/Proofs.v — proofs about Sweeper/Model.v, parametric in the DBI key order. *)
From LS Require Import Base.Bytes Base.BytesProofs Base.Res Header.Model Retention.Model
  Retention.Proofs Sweeper.Model.
From Coq Require Import Sorted ZifyN ZifyNat ZifyBool.
Open Scope N_scope.

Section Order.
Variable cmp : bytes -> bytes -> comparison.
Hypothesis cmp_eq : forall a b, cmp a b = Eq <-> a = b.
Hypothesis cmp_antisym : forall a b, cmp b a = CompOpp (cmp a b).
Hypothesis cmp_trans : forall a b c, cmp a b = Lt -> cmp b c = Lt -> cmp a c = Lt.

Definition ltk (a b : bytes) : Prop := cmp a b = Lt.
Definition kabove (k : bytes) (p : bytes * bytes) : Prop := ltk k (fst p).
Definition kbelow (k : bytes) (p : bytes * bytes) : Prop := ltk (fst p) k.

(* a DBI: strictly sorted by key *)
Definition sorted (db : dbi) : Prop := StronglySorted (fun a b => ltk (fst a) (fst b)) db.
Definition env_wf (e : env) : Prop := Forall (fun p => sorted (snd p)) e.

Lemma ltk_irrefl a : ~ ltk a a.
Proof. unfold ltk. intros H. assert (E : cmp a a = Eq) by (apply cmp_eq; reflexivity). congruence. Qed.

Lemma ltk_neq a b : ltk a b -> a <> b.
Proof. intros H E. subst. exact (ltk_irrefl _ H). Qed.

Lemma ltk_beqb a b : ltk a b -> beqb a b = false /\ beqb b a = false.
Proof. intros H. pose proof (ltk_neq _ _ H). split; apply beqb_false; congruence. Qed.

Lemma gt_ltk a b : cmp a b = Gt -> ltk b a.
Proof. unfold ltk. intros H. rewrite (cmp_antisym a b), H. reflexivity. Qed.

Lemma sorted_inv k v r : sorted ((k, v) :: r) -> sorted r /\ Forall (kabove k) r.
Proof. intros H. inversion H; subst. split; assumption. Qed.

Lemma sorted_cons k v r : sorted r -> Forall (kabove k) r -> sorted ((k, v) :: r).
Proof. intros H F. constructor; assumption. Qed.

Lemma kabove_trans k k' r : ltk k k' -> Forall (kabove k') r -> Forall (kabove k) r.
Proof.
  intros H F. eapply Forall_impl; [|exact F]. intros [a b] Ha. unfold kabove in *. cbn [fst] in *.
  eapply cmp_trans; eassumption.
Qed.

(* ---- lookup / del / put ---- *)

Lemma lookup_above k r : Forall (kabove k) r -> lookup k r = None.
Proof.
  induction r as [|[k' v'] r IH]; intros F; [reflexivity|].
  inversion F as [|? ? Hh Ft]; subst. cbn [lookup]. unfold kabove in Hh. cbn [fst] in Hh.
  destruct (ltk_beqb _ _ Hh) as [-> _]. apply IH, Ft.
Qed.

Lemma in_lookup db k v : sorted db -> In (k, v) db -> lookup k db = Some v.
Proof.
  induction db as [|[k' v'] r IH]; intros S I; [destruct I|].
  apply sorted_inv in S. destruct S as [Sr F]. cbn [lookup]. destruct I as [E|I].
  - inversion E; subst. rewrite beqb_refl. reflexivity.
  - assert (Hlt : ltk k' k).
    { rewrite Forall_forall in F. exact (F _ I). }
    destruct (ltk_beqb _ _ Hlt) as [_ ->]. apply IH; assumption.
Qed.

Lemma lookup_in db k v : lookup k db = Some v -> In (k, v) db.
Proof.
  induction db as [|[k' v'] r IH]; cbn [lookup]; [discriminate|].
  destruct (beqb k k') eqn:E.
  - apply beqb_eq in E. subst. intros H. inversion H; subst. left. reflexivity.
  - intros H. right. apply IH, H.
Qed.

Lemma del_forall (P : bytes * bytes -> Prop) k db : Forall P db -> Forall P (del k db).
Proof.
  induction db as [|[k' v'] r IH]; intros F; [constructor|].
  inversion F; subst. cbn [del]. destruct (beqb k k'); [assumption|]. constructor; auto.
Qed.

Lemma sorted_del k db : sorted db -> sorted (del k db).
Proof.
  induction db as [|[k' v'] r IH]; intros S; [constructor|].
  apply sorted_inv in S. destruct S as [Sr F]. cbn [del]. destruct (beqb k k'); [assumption|].
  apply sorted_cons; [apply IH, Sr|apply del_forall, F].
Qed.

Lemma lookup_del_same k db : sorted db -> lookup k (del k db) = None.
Proof.
  induction db as [|[k' v'] r IH]; intros S; [reflexivity|].
  apply sorted_inv in S. destruct S as [Sr F]. cbn [del]. destruct (beqb k k') eqn:E.
  - apply beqb_eq in E. subst. apply lookup_above, F.
  - cbn [lookup]. rewrite E. apply IH, Sr.
Qed.

Lemma lookup_del_other k k' db : k <> k' -> lookup k (del k' db) = lookup k db.
Proof.
  intros N. induction db as [|[k2 v2] r IH]; [reflexivity|].
  cbn [del]. destruct (beqb k' k2) eqn:E.
  - apply beqb_eq in E. subst. cbn [lookup].
    assert (beqb k k2 = false) as -> by (apply beqb_false; congruence). reflexivity.
  - cbn [lookup]. destruct (beqb k k2); [reflexivity|apply IH].
Qed.

Lemma lookup_put_same k v db : lookup k (put cmp k v db) = Some v.
Proof.
  induction db as [|[k' v'] r IH]; cbn [put lookup]; [rewrite beqb_refl; reflexivity|].
  destruct (cmp k k') eqn:C; cbn [lookup]; rewrite ?beqb_refl; try reflexivity.
  assert (beqb k k' = false) as ->.
  { apply beqb_false. intros E. apply cmp_eq in E. congruence. }
  exact IH.
Qed.

Lemma lookup_put_other k k' v db : k' <> k -> lookup k' (put cmp k v db) = lookup k' db.
Proof.
  intros N. assert (Hb : beqb k' k = false) by (apply beqb_false; exact N).
  induction db as [|[k2 v2] r IH]; cbn [put lookup]; [rewrite Hb; reflexivity|].
  destruct (cmp k k2) eqn:C; cbn [lookup].
  - apply cmp_eq in C. subst k2. rewrite Hb. reflexivity.
  - rewrite Hb. reflexivity.
  - destruct (beqb k' k2); [reflexivity|exact IH].
Qed.

Lemma put_forall (P : bytes * bytes -> Prop) k v db : P (k, v) -> Forall P db -> Forall P (put cmp k v db).
Proof.
  intros Hk. induction db as [|[k' v'] r IH]; intros F; cbn [put]; [repeat constructor; exact Hk|].
  inversion F; subst. destruct (cmp k k'); constructor; auto.
Qed.

Lemma sorted_put k v db : sorted db -> sorted (put cmp k v db).
Proof.
  induction db as [|[k' v'] r IH]; intros S; cbn [put]; [repeat constructor|].
  apply sorted_inv in S. destruct S as [Sr F]. destruct (cmp k k') eqn:C.
  - apply cmp_eq in C. subst k'. apply sorted_cons; assumption.
  - apply sorted_cons; [apply sorted_cons; assumption|].
    constructor; [exact C|]. eapply kabove_trans; [exact C|exact F].
  - apply sorted_cons; [apply IH, Sr|]. apply put_forall; [|exact F].
    unfold kabove. cbn [fst]. apply gt_ltk, C.
Qed.

(* ---- seek / resume ---- *)

Lemma seek_incl k db : incl (seek cmp k db) db.
Proof.
  induction db as [|[k' v'] r IH]; cbn [seek]; [apply incl_refl|].
  destruct (cmp k' k); try apply incl_refl. apply incl_tl, IH.
Qed.

Lemma resume_incl last db : incl (resume cmp last db) db.
Proof.
  unfold resume. destruct last as [[lk lv]|]; [|apply incl_refl].
  pose proof (seek_incl lk db) as I. destruct (seek cmp lk db) as [|[k v] s']; [apply incl_nil_l|].
  destruct (beqb k lk && beqb v lv); [|exact I].
  intros x Hx. apply I. right. exact Hx.
Qed.

(* db = (records below k) ++ seek k db *)
Lemma seek_split k db : sorted db ->
  exists p, db = p ++ seek cmp k db /\ Forall (kbelow k) p /\
    match seek cmp k db with [] => True | (k', _) :: _ => ~ ltk k' k end.
Proof.
  induction db as [|[k' v'] r IH]; intros S; cbn [seek].
  - exists []. repeat split; constructor.
  - apply sorted_inv in S. destruct S as [Sr F]. destruct (cmp k' k) eqn:C.
    + exists []. repeat split; [constructor|]. unfold ltk. congruence.
    + destruct (IH Sr) as (p & E & Fp & Hh). exists ((k', v') :: p). repeat split.
      * cbn [app]. f_equal. exact E.
      * constructor; [exact C|exact Fp].
      * exact Hh.
    + exists []. repeat split; [constructor|]. unfold ltk. congruence.
Qed.

Lemma sorted_app_inv p s : sorted (p ++ s) -> sorted p /\ sorted s.
Proof.
  induction p as [|[k v] p IH]; cbn [app]; intros S; [split; [constructor|exact S]|].
  apply sorted_inv in S. destruct S as [Sr F]. destruct (IH Sr) as [Sp Ss].
  apply Forall_app in F. destruct F as [Fp Fs]. split; [apply sorted_cons; assumption|exact Ss].
Qed.


Lemma sorted_app_below q k v r : sorted (q ++ (k, v) :: r) -> Forall (kbelow k) q.
Proof.
  induction q as [|[k0 v0] q IH]; cbn [app]; intros S; [constructor|].
  apply sorted_inv in S. destruct S as [Sr F]. constructor; [|apply IH, Sr].
  apply Forall_app in F. destruct F as [_ F]. inversion F; subst. assumption.
Qed.

Lemma sorted_app_remove q x r : sorted (q ++ x :: r) -> sorted (q ++ r).
Proof.
  induction q as [|[k0 v0] q IH]; cbn [app]; intros S.
  - destruct x. apply sorted_inv in S. tauto.
  - apply sorted_inv in S. destruct S as [Sr F]. apply sorted_cons; [apply IH, Sr|].
    apply Forall_app in F. destruct F as [F1 F2]. inversion F2; subst. apply Forall_app. split; assumption.
Qed.

Lemma seek_app_below k p r : Forall (kbelow k) p -> seek cmp k (p ++ r) = seek cmp k r.
Proof.
  induction p as [|[k0 v0] p IH]; intros F; [reflexivity|].
  inversion F as [|? ? Hh Ft]; subst. cbn [app seek]. unfold kbelow, ltk in Hh. cbn [fst] in Hh.
  rewrite Hh. apply IH, Ft.
Qed.

Lemma del_app_head k v q r : Forall (kbelow k) q -> del k (q ++ (k, v) :: r) = q ++ r.
Proof.
  induction q as [|[k0 v0] q IH]; intros F; cbn [app del]; [rewrite beqb_refl; reflexivity|].
  inversion F as [|? ? Hh Ft]; subst. unfold kbelow in Hh. cbn [fst] in Hh.
  destruct (ltk_beqb _ _ Hh) as [_ ->]. f_equal. apply IH, Ft.
Qed.

(* the records a slice scans are a suffix of the DBI *)
Lemma resume_suffix last db : sorted db -> exists q, db = q ++ resume cmp last db.
Proof.
  intros S. unfold resume. destruct last as [[lk lv]|]; [|exists []; reflexivity].
  destruct (seek_split lk db S) as (p & E & _ & _).
  destruct (seek cmp lk db) as [|[k v] s']; [exists db; rewrite app_nil_r; reflexivity|].
  destruct (beqb k lk && beqb v lv).
  - exists (p ++ [(k, v)]). rewrite <- app_assoc. exact E.
  - exists p. exact E.
Qed.

Lemma sorted_resume last db : sorted db -> sorted (resume cmp last db).
Proof.
  intros S. destruct (resume_suffix last db S) as [q E]. rewrite E in S.
  apply sorted_app_inv in S. tauto.
Qed.

(* ---- the scan loop: only expired markers go ---- *)

Lemma is_expired_classify cutoff v : is_expired cutoff v = true <-> classify cutoff v = Ok VExpired.
Proof.
  unfold is_expired. destruct (classify cutoff v) as [[| |]| | |]; split; congruence.
Qed.

Lemma scan_loop_only cutoff : forall s lim count cur db db' last' lr,
  sorted db -> scan_loop cutoff lim count s cur db = Ok (db', last', lr) ->
  sorted db' /\
  forall k, lookup k db' = lookup k db \/
            (lookup k db' = None /\ exists v, In (k, v) s /\ is_expired cutoff v = true).
Proof.
  induction s as [|[k1 v1] s IH]; intros lim count cur db db' last' lr S H; cbn [scan_loop] in H.
  - destruct (limit_hit lim count); inversion H; subst; split; auto.
  - destruct (limit_hit lim count); [inversion H; subst; split; auto|].
    destruct (classify cutoff v1) as [[| |]| | |] eqn:C; try discriminate.
    + destruct (IH _ _ _ _ _ _ _ S H) as [S' L]. split; [exact S'|]. intros k.
      destruct (L k) as [E|(E & v & I & X)]; [left; exact E|right]. split; [exact E|].
      exists v. split; [right; exact I|exact X].
    + destruct (IH _ _ _ _ _ _ _ S H) as [S' L]. split; [exact S'|]. intros k.
      destruct (L k) as [E|(E & v & I & X)]; [left; exact E|right]. split; [exact E|].
      exists v. split; [right; exact I|exact X].
    + destruct (IH _ _ _ _ _ _ _ (sorted_del k1 _ S) H) as [S' L]. split; [exact S'|]. intros k.
      destruct (beqb k k1) eqn:Ek.
      * apply beqb_eq in Ek. subst k1. right.
        assert (E0 : lookup k db' = None).
        { destruct (L k) as [E|(E & _)]; [rewrite E; apply lookup_del_same, S|exact E]. }
        split; [exact E0|]. exists v1. split; [left; reflexivity|apply is_expired_classify, C].
      * apply beqb_false in Ek.
        destruct (L k) as [E|(E & v & I & X)].
        -- left. rewrite E. apply lookup_del_other, Ek.
        -- right. split; [exact E|]. exists v. split; [right; exact I|exact X].
Qed.

Lemma scan_loop_noexp cutoff : forall s lim count cur db db' last' lr,
  (forall k v, In (k, v) s -> is_expired cutoff v = false) ->
  scan_loop cutoff lim count s cur db = Ok (db', last', lr) -> db' = db.
Proof.
  induction s as [|[k1 v1] s IH]; intros lim count cur db db' last' lr A H; cbn [scan_loop] in H.
  - destruct (limit_hit lim count); inversion H; reflexivity.
  - destruct (limit_hit lim count); [inversion H; reflexivity|].
    assert (A' : forall k v, In (k, v) s -> is_expired cutoff v = false)
      by (intros k v I; apply (A k v); right; exact I).
    destruct (classify cutoff v1) as [[| |]| | |] eqn:C; try discriminate.
    + eapply IH; eassumption.
    + eapply IH; eassumption.
    + apply is_expired_classify in C. rewrite (A k1 v1) in C by (left; reflexivity). discriminate.
Qed.

(* Theorem (slice level): a sweeper transaction removes only expired markers and alters nothing else *)
Theorem slice_only cutoff last lim db db' last' lr :
  sorted db -> slice cmp cutoff last lim db = Ok (db', last', lr) ->
  sorted db' /\
  forall k, lookup k db' = lookup k db \/
            (lookup k db' = None /\ exists v, lookup k db = Some v /\ is_expired cutoff v = true).
Proof.
  intros S H. unfold slice in H. destruct (scan_loop_only _ _ _ _ _ _ _ _ _ S H) as [S' L].
  split; [exact S'|]. intros k. destruct (L k) as [E|(E & v & I & X)]; [left; exact E|right].
  split; [exact E|]. exists v. split; [|exact X]. apply in_lookup; [exact S|].
  apply (resume_incl last db). exact I.
Qed.

Lemma is_expired_zero v : is_expired 0 v = false.
Proof.
  unfold is_expired, classify. destruct (parse v) as [[h a]| | |]; try reflexivity.
  destruct (negb (is_deleted (h_flags h))); [reflexivity|].
  assert (0 <=? h_ts h = true) as -> by (apply N.leb_le; lia). reflexivity.
Qed.

(* cutoff 0 (retention reaching before the epoch, after the clamp): a slice removes nothing *)
Theorem slice_zero_cutoff last lim db db' last' lr :
  slice cmp 0 last lim db = Ok (db', last', lr) -> db' = db.
Proof.
  intros H. unfold slice in H. eapply scan_loop_noexp; [|exact H]. intros. apply is_expired_zero.
Qed.

(* ---- the cursor invariant: everything below the resume point has been examined ---- *)

Definition before (last : option (bytes * bytes)) (k : bytes) : Prop :=
  match last with None => True | Some (lk, _) => ltk lk k end.

Lemma scan_loop_reach cutoff k v : forall s lim count cur db db' last' lr,
  sorted db -> sorted s -> In (k, v) s -> lookup k db = Some v -> is_expired cutoff v = true ->
  before cur k ->
  scan_loop cutoff lim count s cur db = Ok (db', last', lr) ->
  lookup k db' = None \/ (lr = true /\ lookup k db' = Some v /\ before last' k).
Proof.
  induction s as [|[k1 v1] s IH]; intros lim count cur db db' last' lr S Ss I L X B H; [destruct I|].
  cbn [scan_loop] in H. destruct (limit_hit lim count).
  { inversion H; subst. right. auto. }
  apply sorted_inv in Ss. destruct Ss as [Ss F]. destruct I as [E|I].
  - inversion E; subst k1 v1. apply is_expired_classify in X. rewrite X in H. left.
    destruct (scan_loop_only _ _ _ _ _ _ _ _ _ (sorted_del k _ S) H) as [_ L'].
    destruct (L' k) as [E'|[E' _]]; [rewrite E'; apply lookup_del_same, S|exact E'].
  - assert (Hlt : ltk k1 k) by (rewrite Forall_forall in F; exact (F _ I)).
    assert (B' : before (Some (k1, v1)) k) by exact Hlt.
    destruct (classify cutoff v1) as [[| |]| | |] eqn:C; try discriminate.
    + exact (IH _ _ _ _ _ _ _ S Ss I L X B' H).
    + exact (IH _ _ _ _ _ _ _ S Ss I L X B' H).
    + refine (IH _ _ _ _ _ _ _ (sorted_del k1 _ S) Ss I _ X B' H).
      rewrite lookup_del_other; [exact L|]. apply not_eq_sym, ltk_neq, Hlt.
Qed.

Lemma in_resume last db k v : sorted db -> lookup k db = Some v -> before last k ->
  In (k, v) (resume cmp last db).
Proof.
  intros S L B. apply lookup_in in L. unfold resume. destruct last as [[lk lv]|]; [|exact L].
  cbn [before] in B. destruct (seek_split lk db S) as (p & E & Fp & _).
  assert (Is : In (k, v) (seek cmp lk db)).
  { rewrite E in L. apply in_app_or in L. destruct L as [Ip|Is]; [|exact Is]. exfalso.
    rewrite Forall_forall in Fp. specialize (Fp _ Ip). unfold kbelow in Fp. cbn [fst] in Fp.
    exact (ltk_irrefl _ (cmp_trans _ _ _ B Fp)). }
  destruct (seek cmp lk db) as [|[k2 v2] s']; [destruct Is|].
  destruct (beqb k2 lk && beqb v2 lv) eqn:Eb; [|exact Is].
  destruct Is as [E2|Is]; [|exact Is]. exfalso. inversion E2; subst.
  apply andb_true_iff in Eb. destruct Eb as [Ek _]. apply beqb_eq in Ek. subst.
  exact (ltk_irrefl _ B).
Qed.

(* Theorem (slice level): an expired marker above the resume point is either removed by the slice,
   or the slice hit its limit below it and the new resume point is still below it *)
Theorem slice_reach cutoff last lim db db' last' lr k v :
  sorted db -> lookup k db = Some v -> is_expired cutoff v = true -> before last k ->
  slice cmp cutoff last lim db = Ok (db', last', lr) ->
  lookup k db' = None \/ (lr = true /\ lookup k db' = Some v /\ before last' k).
Proof.
  intros S L X B H. unfold slice in H.
  exact (scan_loop_reach cutoff k v _ _ _ _ _ _ _ _ S (sorted_resume last db S)
           (in_resume last db k v S L B) L X (I : before None k) H).
Qed.

(* ---- progress: the next slice starts exactly where this one stopped ---- *)

Definition cur_ok (q s : dbi) (cur : option (bytes * bytes)) : Prop :=
  exists kc vc, cur = Some (kc, vc) /\ Forall (kabove kc) s /\
    ((exists q1, q = q1 ++ [(kc, vc)]) \/ Forall (kbelow kc) q).

Lemma resume_at q s cur : sorted (q ++ s) -> cur_ok q s cur -> resume cmp cur (q ++ s) = s.
Proof.
  intros S (kc & vc & -> & Fs & [[q1 ->]|Fq]); unfold resume.
  - rewrite <- app_assoc in S |- *. cbn [app] in S |- *.
    rewrite seek_app_below by (eapply sorted_app_below; exact S).
    cbn [seek]. assert (cmp kc kc = Eq) as -> by (apply cmp_eq; reflexivity).
    rewrite !beqb_refl. reflexivity.
  - rewrite seek_app_below by exact Fq. destruct s as [|[k2 v2] s2]; [reflexivity|].
    inversion Fs as [|? ? Hh _]; subst. unfold kabove, ltk in Hh. cbn [fst] in Hh.
    cbn [seek]. rewrite (cmp_antisym kc k2), Hh. cbn [CompOpp].
    destruct (ltk_beqb _ _ Hh) as [_ ->]. reflexivity.
Qed.

Lemma limit_hit_zero lim : limit_hit lim 0 = false.
Proof. unfold limit_hit. destruct lim; reflexivity. Qed.

Lemma scan_loop_resume cutoff : forall s lim count cur q db' last',
  sorted (q ++ s) -> (count = 0%nat \/ cur_ok q s cur) ->
  scan_loop cutoff lim count s cur (q ++ s) = Ok (db', last', true) ->
  exists pre s', s = pre ++ s' /\ resume cmp last' db' = s' /\ sorted db' /\ (count = 0%nat -> pre <> []).
Proof.
  induction s as [|[k1 v1] s IH]; intros lim count cur q db' last' S Hc H; cbn [scan_loop] in H.
  - destruct (limit_hit lim count) eqn:Lh; [|discriminate]. inversion H; subst.
    destruct Hc as [->|Hc]; [rewrite limit_hit_zero in Lh; discriminate|].
    exists [], []. repeat split; [apply resume_at; assumption|exact S|].
    intros ->. rewrite limit_hit_zero in Lh. discriminate.
  - destruct (limit_hit lim count) eqn:Lh.
    { inversion H; subst.
      destruct Hc as [->|Hc]; [rewrite limit_hit_zero in Lh; discriminate|].
      exists [], ((k1, v1) :: s). repeat split; [apply resume_at; assumption|exact S|].
      intros ->. rewrite limit_hit_zero in Lh. discriminate. }
    assert (Fq : Forall (kbelow k1) q) by (eapply sorted_app_below; exact S).
    assert (Fs : Forall (kabove k1) s).
    { apply sorted_app_inv in S. destruct S as [_ S]. apply sorted_inv in S. tauto. }
    assert (Keep : forall r, scan_loop cutoff lim (Datatypes.S count) s (Some (k1, v1)) (q ++ (k1, v1) :: s) = Ok (db', last', true) ->
       exists pre s', (k1, v1) :: s = pre ++ s' /\ resume cmp last' db' = s' /\ sorted db' /\ (r = 0%nat -> pre <> [])).
    { intros r H'. replace (q ++ (k1, v1) :: s) with ((q ++ [(k1, v1)]) ++ s) in H', S
        by (rewrite <- app_assoc; reflexivity).
      destruct (IH _ _ _ _ _ _ S (or_intror (ex_intro _ k1 (ex_intro _ v1
                 (conj eq_refl (conj Fs (or_introl (ex_intro _ q eq_refl))))))) H')
        as (pre & s' & E & R & S' & _).
      exists ((k1, v1) :: pre), s'. repeat split; [cbn [app]; f_equal; exact E|exact R|exact S'|discriminate]. }
    destruct (classify cutoff v1) as [[| |]| | |] eqn:C; try discriminate.
    + exact (Keep count H).
    + exact (Keep count H).
    + rewrite del_app_head in H by exact Fq.
      destruct (IH _ _ _ _ _ _ (sorted_app_remove _ _ _ S)
                 (or_intror (ex_intro _ k1 (ex_intro _ v1 (conj eq_refl (conj Fs (or_intror Fq)))))) H)
        as (pre & s' & E & R & S' & _).
      exists ((k1, v1) :: pre), s'. repeat split; [cbn [app]; f_equal; exact E|exact R|exact S'|discriminate].
Qed.

(* Theorem: explicit measure.  The number of records the next slice has in front of it
   (length (resume last db)) strictly decreases with every slice that hits its limit. *)
Theorem slice_progress cutoff last lim db db' last' :
  sorted db -> slice cmp cutoff last lim db = Ok (db', last', true) ->
  (length (resume cmp last' db') < length (resume cmp last db))%nat.
Proof.
  intros S H. unfold slice in H. destruct (resume_suffix last db S) as [q E].
  set (s := resume cmp last db) in *. rewrite E in H, S.
  destruct (scan_loop_resume _ _ _ _ _ _ _ _ S (or_introl eq_refl) H) as (pre & s' & Es & R & _ & Np).
  rewrite R, Es, app_length. specialize (Np eq_refl). destruct pre; [congruence|cbn [length]; lia].
Qed.

End Order.
