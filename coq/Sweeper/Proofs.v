(* Sweeper/Proofs.v — proofs about Sweeper/Model.v, parametric in the DBI key order. *)
From LS Require Import Base.Bytes Base.BytesProofs Base.Res Header.Model Retention.Model
  Retention.Proofs Sweeper.Model.
From Coq Require Import Sorted ZifyN ZifyNat ZifyBool.
Open Scope N_scope.

Section Order.
Variable cmp : bytes -> bytes -> comparison.
Hypothesis cmp_eq : forall a b, cmp a b = Eq <-> a = b.
Hypothesis cmp_antisym : forall a b, cmp b a = CompOpp (cmp a b).
Hypothesis cmp_trans : forall a b c, cmp a b = Lt -> cmp b c = Lt -> cmp a c = Lt.

Definition ltk (a b : bytes) : Prop := cmp a b = Lt.
Definition kabove (k : bytes) (p : bytes * bytes) : Prop := ltk k (fst p).
Definition kbelow (k : bytes) (p : bytes * bytes) : Prop := ltk (fst p) k.

(* a DBI: strictly sorted by key *)
Definition sorted (db : dbi) : Prop := StronglySorted (fun a b => ltk (fst a) (fst b)) db.
Definition env_wf (e : env) : Prop := Forall (fun p => sorted (snd p)) e.

Lemma ltk_irrefl a : ~ ltk a a.
Proof. unfold ltk. intros H. assert (E : cmp a a = Eq) by (apply cmp_eq; reflexivity). congruence. Qed.

Lemma ltk_neq a b : ltk a b -> a <> b.
Proof. intros H E. subst. exact (ltk_irrefl _ H). Qed.

Lemma ltk_beqb a b : ltk a b -> beqb a b = false /\ beqb b a = false.
Proof. intros H. pose proof (ltk_neq _ _ H). split; apply beqb_false; congruence. Qed.

Lemma gt_ltk a b : cmp a b = Gt -> ltk b a.
Proof. unfold ltk. intros H. rewrite (cmp_antisym a b), H. reflexivity. Qed.

Lemma sorted_inv k v r : sorted ((k, v) :: r) -> sorted r /\ Forall (kabove k) r.
Proof. intros H. inversion H; subst. split; assumption. Qed.

Lemma sorted_cons k v r : sorted r -> Forall (kabove k) r -> sorted ((k, v) :: r).
Proof. intros H F. constructor; assumption. Qed.

Lemma kabove_trans k k' r : ltk k k' -> Forall (kabove k') r -> Forall (kabove k) r.
Proof.
  intros H F. eapply Forall_impl; [|exact F]. intros [a b] Ha. unfold kabove in *. cbn [fst] in *.
  eapply cmp_trans; eassumption.
Qed.

(* ---- lookup / del / put ---- *)

Lemma lookup_above k r : Forall (kabove k) r -> lookup k r = None.
Proof.
  induction r as [|[k' v'] r IH]; intros F; [reflexivity|].
  inversion F as [|? ? Hh Ft]; subst. cbn [lookup]. unfold kabove in Hh. cbn [fst] in Hh.
  destruct (ltk_beqb _ _ Hh) as [-> _]. apply IH, Ft.
Qed.

Lemma in_lookup db k v : sorted db -> In (k, v) db -> lookup k db = Some v.
Proof.
  induction db as [|[k' v'] r IH]; intros S I; [destruct I|].
  apply sorted_inv in S. destruct S as [Sr F]. cbn [lookup]. destruct I as [E|I].
  - inversion E; subst. rewrite beqb_refl. reflexivity.
  - assert (Hlt : ltk k' k).
    { rewrite Forall_forall in F. exact (F _ I). }
    destruct (ltk_beqb _ _ Hlt) as [_ ->]. apply IH; assumption.
Qed.

Lemma lookup_in db k v : lookup k db = Some v -> In (k, v) db.
Proof.
  induction db as [|[k' v'] r IH]; cbn [lookup]; [discriminate|].
  destruct (beqb k k') eqn:E.
  - apply beqb_eq in E. subst. intros H. inversion H; subst. left. reflexivity.
  - intros H. right. apply IH, H.
Qed.

Lemma del_forall (P : bytes * bytes -> Prop) k db : Forall P db -> Forall P (del k db).
Proof.
  induction db as [|[k' v'] r IH]; intros F; [constructor|].
  inversion F; subst. cbn [del]. destruct (beqb k k'); [assumption|]. constructor; auto.
Qed.

Lemma sorted_del k db : sorted db -> sorted (del k db).
Proof.
  induction db as [|[k' v'] r IH]; intros S; [constructor|].
  apply sorted_inv in S. destruct S as [Sr F]. cbn [del]. destruct (beqb k k'); [assumption|].
  apply sorted_cons; [apply IH, Sr|apply del_forall, F].
Qed.

Lemma lookup_del_same k db : sorted db -> lookup k (del k db) = None.
Proof.
  induction db as [|[k' v'] r IH]; intros S; [reflexivity|].
  apply sorted_inv in S. destruct S as [Sr F]. cbn [del]. destruct (beqb k k') eqn:E.
  - apply beqb_eq in E. subst. apply lookup_above, F.
  - cbn [lookup]. rewrite E. apply IH, Sr.
Qed.

Lemma lookup_del_other k k' db : k <> k' -> lookup k (del k' db) = lookup k db.
Proof.
  intros N. induction db as [|[k2 v2] r IH]; [reflexivity|].
  cbn [del]. destruct (beqb k' k2) eqn:E.
  - apply beqb_eq in E. subst. cbn [lookup].
    assert (beqb k k2 = false) as -> by (apply beqb_false; congruence). reflexivity.
  - cbn [lookup]. destruct (beqb k k2); [reflexivity|apply IH].
Qed.

Lemma lookup_put_same k v db : lookup k (put cmp k v db) = Some v.
Proof.
  induction db as [|[k' v'] r IH]; cbn [put lookup]; [rewrite beqb_refl; reflexivity|].
  destruct (cmp k k') eqn:C; cbn [lookup]; rewrite ?beqb_refl; try reflexivity.
  assert (beqb k k' = false) as ->.
  { apply beqb_false. intros E. apply cmp_eq in E. congruence. }
  exact IH.
Qed.

Lemma lookup_put_other k k' v db : k' <> k -> lookup k' (put cmp k v db) = lookup k' db.
Proof.
  intros N. assert (Hb : beqb k' k = false) by (apply beqb_false; exact N).
  induction db as [|[k2 v2] r IH]; cbn [put lookup]; [rewrite Hb; reflexivity|].
  destruct (cmp k k2) eqn:C; cbn [lookup].
  - apply cmp_eq in C. subst k2. rewrite Hb. reflexivity.
  - rewrite Hb. reflexivity.
  - destruct (beqb k' k2); [reflexivity|exact IH].
Qed.

Lemma put_forall (P : bytes * bytes -> Prop) k v db : P (k, v) -> Forall P db -> Forall P (put cmp k v db).
Proof.
  intros Hk. induction db as [|[k' v'] r IH]; intros F; cbn [put]; [repeat constructor; exact Hk|].
  inversion F; subst. destruct (cmp k k'); constructor; auto.
Qed.

Lemma sorted_put k v db : sorted db -> sorted (put cmp k v db).
Proof.
  induction db as [|[k' v'] r IH]; intros S; cbn [put]; [repeat constructor|].
  apply sorted_inv in S. destruct S as [Sr F]. destruct (cmp k k') eqn:C.
  - apply cmp_eq in C. subst k'. apply sorted_cons; assumption.
  - apply sorted_cons; [apply sorted_cons; assumption|].
    constructor; [exact C|]. eapply kabove_trans; [exact C|exact F].
  - apply sorted_cons; [apply IH, Sr|]. apply put_forall; [|exact F].
    unfold kabove. cbn [fst]. apply gt_ltk, C.
Qed.

(* ---- seek / resume ---- *)

Lemma seek_incl k db : incl (seek cmp k db) db.
Proof.
  induction db as [|[k' v'] r IH]; cbn [seek]; [apply incl_refl|].
  destruct (cmp k' k); try apply incl_refl. apply incl_tl, IH.
Qed.

Lemma resume_incl last db : incl (resume cmp last db) db.
Proof.
  unfold resume. destruct last as [[lk lv]|]; [|apply incl_refl].
  pose proof (seek_incl lk db) as I. destruct (seek cmp lk db) as [|[k v] s']; [apply incl_nil_l|].
  destruct (beqb k lk && beqb v lv); [|exact I].
  intros x Hx. apply I. right. exact Hx.
Qed.

(* db = (records below k) ++ seek k db *)
Lemma seek_split k db : sorted db ->
  exists p, db = p ++ seek cmp k db /\ Forall (kbelow k) p /\
    match seek cmp k db with [] => True | (k', _) :: _ => ~ ltk k' k end.
Proof.
  induction db as [|[k' v'] r IH]; intros S; cbn [seek].
  - exists []. repeat split; constructor.
  - apply sorted_inv in S. destruct S as [Sr F]. destruct (cmp k' k) eqn:C.
    + exists []. repeat split; [constructor|]. unfold ltk. congruence.
    + destruct (IH Sr) as (p & E & Fp & Hh). exists ((k', v') :: p). repeat split.
      * cbn [app]. f_equal. exact E.
      * constructor; [exact C|exact Fp].
      * exact Hh.
    + exists []. repeat split; [constructor|]. unfold ltk. congruence.
Qed.

Lemma sorted_app_inv p s : sorted (p ++ s) -> sorted p /\ sorted s.
Proof.
  induction p as [|[k v] p IH]; cbn [app]; intros S; [split; [constructor|exact S]|].
  apply sorted_inv in S. destruct S as [Sr F]. destruct (IH Sr) as [Sp Ss].
  apply Forall_app in F. destruct F as [Fp Fs]. split; [apply sorted_cons; assumption|exact Ss].
Qed.


Lemma sorted_app_below q k v r : sorted (q ++ (k, v) :: r) -> Forall (kbelow k) q.
Proof.
  induction q as [|[k0 v0] q IH]; cbn [app]; intros S; [constructor|].
  apply sorted_inv in S. destruct S as [Sr F]. constructor; [|apply IH, Sr].
  apply Forall_app in F. destruct F as [_ F]. inversion F; subst. assumption.
Qed.

Lemma sorted_app_remove q x r : sorted (q ++ x :: r) -> sorted (q ++ r).
Proof.
  induction q as [|[k0 v0] q IH]; cbn [app]; intros S.
  - destruct x. apply sorted_inv in S. tauto.
  - apply sorted_inv in S. destruct S as [Sr F]. apply sorted_cons; [apply IH, Sr|].
    apply Forall_app in F. destruct F as [F1 F2]. inversion F2; subst. apply Forall_app. split; assumption.
Qed.

Lemma seek_app_below k p r : Forall (kbelow k) p -> seek cmp k (p ++ r) = seek cmp k r.
Proof.
  induction p as [|[k0 v0] p IH]; intros F; [reflexivity|].
  inversion F as [|? ? Hh Ft]; subst. cbn [app seek]. unfold kbelow, ltk in Hh. cbn [fst] in Hh.
  rewrite Hh. apply IH, Ft.
Qed.

Lemma del_app_head k v q r : Forall (kbelow k) q -> del k (q ++ (k, v) :: r) = q ++ r.
Proof.
  induction q as [|[k0 v0] q IH]; intros F; cbn [app del]; [rewrite beqb_refl; reflexivity|].
  inversion F as [|? ? Hh Ft]; subst. unfold kbelow in Hh. cbn [fst] in Hh.
  destruct (ltk_beqb _ _ Hh) as [_ ->]. f_equal. apply IH, Ft.
Qed.

(* the records a slice scans are a suffix of the DBI *)
Lemma resume_suffix last db : sorted db -> exists q, db = q ++ resume cmp last db.
Proof.
  intros S. unfold resume. destruct last as [[lk lv]|]; [|exists []; reflexivity].
  destruct (seek_split lk db S) as (p & E & _ & _).
  destruct (seek cmp lk db) as [|[k v] s']; [exists db; rewrite app_nil_r; reflexivity|].
  destruct (beqb k lk && beqb v lv).
  - exists (p ++ [(k, v)]). rewrite <- app_assoc. exact E.
  - exists p. exact E.
Qed.

Lemma sorted_resume last db : sorted db -> sorted (resume cmp last db).
Proof.
  intros S. destruct (resume_suffix last db S) as [q E]. rewrite E in S.
  apply sorted_app_inv in S. tauto.
Qed.

(* ---- the scan loop: only expired markers go ---- *)

Lemma is_expired_classify cutoff v : is_expired cutoff v = true <-> classify cutoff v = Ok VExpired.
Proof.
  unfold is_expired. destruct (classify cutoff v) as [[| |]| | |]; split; congruence.
Qed.

Lemma scan_loop_only cutoff : forall s lim count cur db db' last' lr,
  sorted db -> scan_loop cutoff lim count s cur db = Ok (db', last', lr) ->
  sorted db' /\
  forall k, lookup k db' = lookup k db \/
            (lookup k db' = None /\ exists v, In (k, v) s /\ is_expired cutoff v = true).
Proof.
  induction s as [|[k1 v1] s IH]; intros lim count cur db db' last' lr S H; cbn [scan_loop] in H.
  - destruct (limit_hit lim count); inversion H; subst; split; auto.
  - destruct (limit_hit lim count); [inversion H; subst; split; auto|].
    destruct (classify cutoff v1) as [[| |]| | |] eqn:C; try discriminate.
    + destruct (IH _ _ _ _ _ _ _ S H) as [S' L]. split; [exact S'|]. intros k.
      destruct (L k) as [E|(E & v & I & X)]; [left; exact E|right]. split; [exact E|].
      exists v. split; [right; exact I|exact X].
    + destruct (IH _ _ _ _ _ _ _ S H) as [S' L]. split; [exact S'|]. intros k.
      destruct (L k) as [E|(E & v & I & X)]; [left; exact E|right]. split; [exact E|].
      exists v. split; [right; exact I|exact X].
    + destruct (IH _ _ _ _ _ _ _ (sorted_del k1 _ S) H) as [S' L]. split; [exact S'|]. intros k.
      destruct (beqb k k1) eqn:Ek.
      * apply beqb_eq in Ek. subst k1. right.
        assert (E0 : lookup k db' = None).
        { destruct (L k) as [E|(E & _)]; [rewrite E; apply lookup_del_same, S|exact E]. }
        split; [exact E0|]. exists v1. split; [left; reflexivity|apply is_expired_classify, C].
      * apply beqb_false in Ek.
        destruct (L k) as [E|(E & v & I & X)].
        -- left. rewrite E. apply lookup_del_other, Ek.
        -- right. split; [exact E|]. exists v. split; [right; exact I|exact X].
Qed.

Lemma scan_loop_noexp cutoff : forall s lim count cur db db' last' lr,
  (forall k v, In (k, v) s -> is_expired cutoff v = false) ->
  scan_loop cutoff lim count s cur db = Ok (db', last', lr) -> db' = db.
Proof.
  induction s as [|[k1 v1] s IH]; intros lim count cur db db' last' lr A H; cbn [scan_loop] in H.
  - destruct (limit_hit lim count); inversion H; reflexivity.
  - destruct (limit_hit lim count); [inversion H; reflexivity|].
    assert (A' : forall k v, In (k, v) s -> is_expired cutoff v = false)
      by (intros k v I; apply (A k v); right; exact I).
    destruct (classify cutoff v1) as [[| |]| | |] eqn:C; try discriminate.
    + eapply IH; eassumption.
    + eapply IH; eassumption.
    + apply is_expired_classify in C. rewrite (A k1 v1) in C by (left; reflexivity). discriminate.
Qed.

(* Theorem (slice level): a sweeper transaction removes only expired markers and alters nothing else *)
Theorem slice_only cutoff last lim db db' last' lr :
  sorted db -> slice cmp cutoff last lim db = Ok (db', last', lr) ->
  sorted db' /\
  forall k, lookup k db' = lookup k db \/
            (lookup k db' = None /\ exists v, lookup k db = Some v /\ is_expired cutoff v = true).
Proof.
  intros S H. unfold slice in H. destruct (scan_loop_only _ _ _ _ _ _ _ _ _ S H) as [S' L].
  split; [exact S'|]. intros k. destruct (L k) as [E|(E & v & I & X)]; [left; exact E|right].
  split; [exact E|]. exists v. split; [|exact X]. apply in_lookup; [exact S|].
  apply (resume_incl last db). exact I.
Qed.

Lemma is_expired_zero v : is_expired 0 v = false.
Proof.
  unfold is_expired, classify. destruct (parse v) as [[h a]| | |]; try reflexivity.
  destruct (negb (is_deleted (h_flags h))); [reflexivity|].
  assert (0 <=? h_ts h = true) as -> by (apply N.leb_le; lia). reflexivity.
Qed.

(* cutoff 0 (retention reaching before the epoch, after the clamp): a slice removes nothing *)
Theorem slice_zero_cutoff last lim db db' last' lr :
  slice cmp 0 last lim db = Ok (db', last', lr) -> db' = db.
Proof.
  intros H. unfold slice in H. eapply scan_loop_noexp; [|exact H]. intros. apply is_expired_zero.
Qed.

(* ---- the cursor invariant: everything below the resume point has been examined ---- *)

Definition before (last : option (bytes * bytes)) (k : bytes) : Prop :=
  match last with None => True | Some (lk, _) => ltk lk k end.

Lemma scan_loop_reach cutoff k v : forall s lim count cur db db' last' lr,
  sorted db -> sorted s -> In (k, v) s -> lookup k db = Some v -> is_expired cutoff v = true ->
  before cur k ->
  scan_loop cutoff lim count s cur db = Ok (db', last', lr) ->
  lookup k db' = None \/ (lr = true /\ lookup k db' = Some v /\ before last' k).
Proof.
  induction s as [|[k1 v1] s IH]; intros lim count cur db db' last' lr S Ss I L X B H; [destruct I|].
  cbn [scan_loop] in H. destruct (limit_hit lim count).
  { inversion H; subst. right. auto. }
  apply sorted_inv in Ss. destruct Ss as [Ss F]. destruct I as [E|I].
  - inversion E; subst k1 v1. apply is_expired_classify in X. rewrite X in H. left.
    destruct (scan_loop_only _ _ _ _ _ _ _ _ _ (sorted_del k _ S) H) as [_ L'].
    destruct (L' k) as [E'|[E' _]]; [rewrite E'; apply lookup_del_same, S|exact E'].
  - assert (Hlt : ltk k1 k) by (rewrite Forall_forall in F; exact (F _ I)).
    assert (B' : before (Some (k1, v1)) k) by exact Hlt.
    destruct (classify cutoff v1) as [[| |]| | |] eqn:C; try discriminate.
    + exact (IH _ _ _ _ _ _ _ S Ss I L X B' H).
    + exact (IH _ _ _ _ _ _ _ S Ss I L X B' H).
    + refine (IH _ _ _ _ _ _ _ (sorted_del k1 _ S) Ss I _ X B' H).
      rewrite lookup_del_other; [exact L|]. apply not_eq_sym, ltk_neq, Hlt.
Qed.

Lemma in_resume last db k v : sorted db -> lookup k db = Some v -> before last k ->
  In (k, v) (resume cmp last db).
Proof.
  intros S L B. apply lookup_in in L. unfold resume. destruct last as [[lk lv]|]; [|exact L].
  cbn [before] in B. destruct (seek_split lk db S) as (p & E & Fp & _).
  assert (Is : In (k, v) (seek cmp lk db)).
  { rewrite E in L. apply in_app_or in L. destruct L as [Ip|Is]; [|exact Is]. exfalso.
    rewrite Forall_forall in Fp. specialize (Fp _ Ip). unfold kbelow in Fp. cbn [fst] in Fp.
    exact (ltk_irrefl _ (cmp_trans _ _ _ B Fp)). }
  destruct (seek cmp lk db) as [|[k2 v2] s']; [destruct Is|].
  destruct (beqb k2 lk && beqb v2 lv) eqn:Eb; [|exact Is].
  destruct Is as [E2|Is]; [|exact Is]. exfalso. inversion E2; subst.
  apply andb_true_iff in Eb. destruct Eb as [Ek _]. apply beqb_eq in Ek. subst.
  exact (ltk_irrefl _ B).
Qed.

(* Theorem (slice level): an expired marker above the resume point is either removed by the slice,
   or the slice hit its limit below it and the new resume point is still below it *)
Theorem slice_reach cutoff last lim db db' last' lr k v :
  sorted db -> lookup k db = Some v -> is_expired cutoff v = true -> before last k ->
  slice cmp cutoff last lim db = Ok (db', last', lr) ->
  lookup k db' = None \/ (lr = true /\ lookup k db' = Some v /\ before last' k).
Proof.
  intros S L X B H. unfold slice in H.
  exact (scan_loop_reach cutoff k v _ _ _ _ _ _ _ _ S (sorted_resume last db S)
           (in_resume last db k v S L B) L X (I : before None k) H).
Qed.

(* ---- progress: the next slice starts exactly where this one stopped ---- *)

Definition cur_ok (q s : dbi) (cur : option (bytes * bytes)) : Prop :=
  exists kc vc, cur = Some (kc, vc) /\ Forall (kabove kc) s /\
    ((exists q1, q = q1 ++ [(kc, vc)]) \/ Forall (kbelow kc) q).

Lemma resume_at q s cur : sorted (q ++ s) -> cur_ok q s cur -> resume cmp cur (q ++ s) = s.
Proof.
  intros S (kc & vc & -> & Fs & [[q1 ->]|Fq]); unfold resume.
  - rewrite <- app_assoc in S |- *. cbn [app] in S |- *.
    rewrite seek_app_below by (eapply sorted_app_below; exact S).
    cbn [seek]. assert (cmp kc kc = Eq) as -> by (apply cmp_eq; reflexivity).
    rewrite !beqb_refl. reflexivity.
  - rewrite seek_app_below by exact Fq. destruct s as [|[k2 v2] s2]; [reflexivity|].
    inversion Fs as [|? ? Hh _]; subst. unfold kabove, ltk in Hh. cbn [fst] in Hh.
    cbn [seek]. rewrite (cmp_antisym kc k2), Hh. cbn [CompOpp].
    destruct (ltk_beqb _ _ Hh) as [_ ->]. reflexivity.
Qed.

Lemma limit_hit_zero lim : limit_hit lim 0 = false.
Proof. unfold limit_hit. destruct lim; reflexivity. Qed.

Lemma scan_loop_resume cutoff : forall s lim count cur q db' last',
  sorted (q ++ s) -> (count = 0%nat \/ cur_ok q s cur) ->
  scan_loop cutoff lim count s cur (q ++ s) = Ok (db', last', true) ->
  exists pre s', s = pre ++ s' /\ resume cmp last' db' = s' /\ sorted db' /\ (count = 0%nat -> pre <> []).
Proof.
  induction s as [|[k1 v1] s IH]; intros lim count cur q db' last' S Hc H; cbn [scan_loop] in H.
  - destruct (limit_hit lim count) eqn:Lh; [|discriminate]. inversion H; subst.
    destruct Hc as [->|Hc]; [rewrite limit_hit_zero in Lh; discriminate|].
    exists [], []. repeat split; [apply resume_at; assumption|exact S|].
    intros ->. rewrite limit_hit_zero in Lh. discriminate.
  - destruct (limit_hit lim count) eqn:Lh.
    { inversion H; subst.
      destruct Hc as [->|Hc]; [rewrite limit_hit_zero in Lh; discriminate|].
      exists [], ((k1, v1) :: s). repeat split; [apply resume_at; assumption|exact S|].
      intros ->. rewrite limit_hit_zero in Lh. discriminate. }
    assert (Fq : Forall (kbelow k1) q) by (eapply sorted_app_below; exact S).
    assert (Fs : Forall (kabove k1) s).
    { apply sorted_app_inv in S. destruct S as [_ S]. apply sorted_inv in S. tauto. }
    assert (Keep : forall r, scan_loop cutoff lim (Datatypes.S count) s (Some (k1, v1)) (q ++ (k1, v1) :: s) = Ok (db', last', true) ->
       exists pre s', (k1, v1) :: s = pre ++ s' /\ resume cmp last' db' = s' /\ sorted db' /\ (r = 0%nat -> pre <> [])).
    { intros r H'. replace (q ++ (k1, v1) :: s) with ((q ++ [(k1, v1)]) ++ s) in H', S
        by (rewrite <- app_assoc; reflexivity).
      destruct (IH _ _ _ _ _ _ S (or_intror (ex_intro _ k1 (ex_intro _ v1
                 (conj eq_refl (conj Fs (or_introl (ex_intro _ q eq_refl))))))) H')
        as (pre & s' & E & R & S' & _).
      exists ((k1, v1) :: pre), s'. repeat split; [cbn [app]; f_equal; exact E|exact R|exact S'|discriminate]. }
    destruct (classify cutoff v1) as [[| |]| | |] eqn:C; try discriminate.
    + exact (Keep count H).
    + exact (Keep count H).
    + rewrite del_app_head in H by exact Fq.
      destruct (IH _ _ _ _ _ _ (sorted_app_remove _ _ _ S)
                 (or_intror (ex_intro _ k1 (ex_intro _ v1 (conj eq_refl (conj Fs (or_intror Fq)))))) H)
        as (pre & s' & E & R & S' & _).
      exists ((k1, v1) :: pre), s'. repeat split; [cbn [app]; f_equal; exact E|exact R|exact S'|discriminate].
Qed.

(* Theorem: explicit measure.  The number of records the next slice has in front of it
   (length (resume last db)) strictly decreases with every slice that hits its limit. *)
Theorem slice_progress cutoff last lim db db' last' :
  sorted db -> slice cmp cutoff last lim db = Ok (db', last', true) ->
  (length (resume cmp last' db') < length (resume cmp last db))%nat.
Proof.
  intros S H. unfold slice in H. destruct (resume_suffix last db S) as [q E].
  set (s := resume cmp last db) in *. rewrite E in H, S.
  destruct (scan_loop_resume _ _ _ _ _ _ _ _ S (or_introl eq_refl) H) as (pre & s' & Es & R & _ & Np).
  rewrite R, Es, app_length. specialize (Np eq_refl). destruct pre; [congruence|cbn [length]; lia].
Qed.


(* ---- environments ---- *)

Lemma env_get_set_same d db db0 e : env_get d e = Some db0 -> env_get d (env_set d db e) = Some db.
Proof.
  induction e as [|[d' x] r IH]; cbn [env_get env_set]; [discriminate|].
  destruct (beqb d d') eqn:E; cbn [env_get]; rewrite E; [reflexivity|exact IH].
Qed.

Lemma env_get_set_other d d' db e : d' <> d -> env_get d' (env_set d db e) = env_get d' e.
Proof.
  intros N. induction e as [|[d2 x] r IH]; [reflexivity|]. cbn [env_set].
  destruct (beqb d d2) eqn:E; cbn [env_get].
  - apply beqb_eq in E. subst d2. assert (beqb d' d = false) as -> by (apply beqb_false; exact N). reflexivity.
  - destruct (beqb d' d2); [reflexivity|exact IH].
Qed.

Lemma env_set_id d db e : env_get d e = Some db -> env_set d db e = e.
Proof.
  induction e as [|[d' x] r IH]; cbn [env_get env_set]; [reflexivity|].
  destruct (beqb d d'); [intros H; inversion H; reflexivity|intros H; f_equal; apply IH, H].
Qed.

Lemma env_set_names d db e : map fst (env_set d db e) = map fst e.
Proof.
  induction e as [|[d' x] r IH]; [reflexivity|]. cbn [env_set].
  destruct (beqb d d'); cbn [map fst]; [reflexivity|f_equal; exact IH].
Qed.

Lemma env_wf_get d db e : env_wf e -> env_get d e = Some db -> sorted db.
Proof.
  induction e as [|[d' x] r IH]; intros W; cbn [env_get]; [discriminate|].
  inversion W; subst. destruct (beqb d d'); [intros H; inversion H; subst; assumption|apply IH; assumption].
Qed.

Lemma env_wf_set d db e : env_wf e -> sorted db -> env_wf (env_set d db e).
Proof.
  intros W Sd. induction e as [|[d' x] r IH]; [constructor|]. inversion W; subst. cbn [env_set].
  destruct (beqb d d'); constructor; cbn [snd] in *; auto. apply IH. assumption.
Qed.

Lemma elookup_set_same d k db db0 e : env_get d e = Some db0 -> elookup d k (env_set d db e) = lookup k db.
Proof. intros H. unfold elookup. rewrite (env_get_set_same _ _ _ _ H). reflexivity. Qed.

Lemma elookup_set_other d d' k db e : d' <> d -> elookup d' k (env_set d db e) = elookup d' k e.
Proof. intros N. unfold elookup. rewrite env_get_set_other by exact N. reflexivity. Qed.

(* ---- application operations ---- *)

Lemma apply_op_wf e o : env_wf e -> env_wf (apply_op cmp e o).
Proof.
  intros W. destruct o as [d k v|d k]; cbn [apply_op]; destruct (env_get d e) as [db|] eqn:G; try exact W;
    apply env_wf_set; try exact W; [apply sorted_put|apply sorted_del]; eapply env_wf_get; eassumption.
Qed.

Lemma apply_ops_wf ops e : env_wf e -> env_wf (apply_ops cmp ops e).
Proof.
  unfold apply_ops. revert e. induction ops as [|o ops IH]; intros e W; [exact W|].
  cbn [fold_left]. apply IH, apply_op_wf, W.
Qed.

Lemma apply_op_names e o : map fst (apply_op cmp e o) = map fst e.
Proof.
  destruct o as [d k v|d k]; cbn [apply_op]; destruct (env_get d e); try reflexivity; apply env_set_names.
Qed.

Lemma apply_op_untouched d k e o : op_touches d k o = false -> elookup d k (apply_op cmp e o) = elookup d k e.
Proof.
  intros T. destruct o as [d' k' v|d' k']; cbn [apply_op op_touches] in *;
    destruct (env_get d' e) as [db|] eqn:G; try reflexivity;
    (destruct (beqb d d') eqn:Ed;
     [apply beqb_eq in Ed; subst d'; rewrite (elookup_set_same _ _ _ _ _ G); unfold elookup; rewrite G;
      cbn [andb] in T; apply beqb_false in T
     |apply beqb_false in Ed; apply elookup_set_other; exact Ed]).
  - apply lookup_put_other, T.
  - apply lookup_del_other, T.
Qed.

Definition ops_untouched (d k : bytes) (ops : list op) : bool := forallb (fun o => negb (op_touches d k o)) ops.
(* the application writes neither puts nor deletes key k of DBI d during the pass *)
Definition untouched (d k : bytes) (sc : sched) : bool := forallb (fun p => ops_untouched d k (snd p)) sc.

Lemma apply_ops_untouched d k ops e : ops_untouched d k ops = true ->
  elookup d k (apply_ops cmp ops e) = elookup d k e.
Proof.
  unfold apply_ops, ops_untouched. revert e. induction ops as [|o ops IH]; intros e U; [reflexivity|].
  cbn [forallb] in U. apply andb_true_iff in U. destruct U as [U1 U2]. cbn [fold_left].
  rewrite IH by exact U2. apply apply_op_untouched. destruct (op_touches d k o); [discriminate|reflexivity].
Qed.

Definition ops_avoid (d : bytes) (ops : list op) : bool := forallb (fun o => negb (beqb d (op_dbi o))) ops.
(* the application does not write DBI d at all during the pass *)
Definition avoids (d : bytes) (sc : sched) : bool := forallb (fun p => ops_avoid d (snd p)) sc.

Lemma apply_ops_avoid d ops e : ops_avoid d ops = true -> env_get d (apply_ops cmp ops e) = env_get d e.
Proof.
  unfold apply_ops, ops_avoid. revert e. induction ops as [|o ops IH]; intros e U; [reflexivity|].
  cbn [forallb] in U. apply andb_true_iff in U. destruct U as [U1 U2]. cbn [fold_left].
  rewrite IH by exact U2. destruct (beqb d (op_dbi o)) eqn:E; [discriminate|]. apply beqb_false in E.
  destruct o as [d' k v|d' k]; cbn [apply_op op_dbi] in *; destruct (env_get d' e); try reflexivity;
    apply env_get_set_other; exact E.
Qed.

(* ---- one sweeper transaction on the environment ---- *)

(* what a committed sweeper transaction may do *)
Definition step_ok (cutoff : N) (s : step) : Prop :=
  map fst (st_after s) = map fst (st_before s) /\
  (forall d', d' <> st_dbi s -> env_get d' (st_after s) = env_get d' (st_before s)) /\
  (forall d k, elookup d k (st_after s) = elookup d k (st_before s) \/
     (d = st_dbi s /\ elookup d k (st_after s) = None /\
      exists v, elookup d k (st_before s) = Some v /\ is_expired cutoff v = true)).

Lemma eslice_inv cutoff d last lim e e' last' lr :
  eslice cmp cutoff d last lim e = Ok (e', last', lr) ->
  exists db db', env_get d e = Some db /\ slice cmp cutoff last lim db = Ok (db', last', lr) /\
                 e' = env_set d db' e.
Proof.
  unfold eslice. destruct (env_get d e) as [db|]; [|discriminate].
  destruct (slice cmp cutoff last lim db) as [[[db' l'] r']| | |] eqn:E; try discriminate.
  intros H. inversion H; subst. exists db, db'. auto.
Qed.

Theorem eslice_only cutoff d last lim e e' last' lr :
  env_wf e -> eslice cmp cutoff d last lim e = Ok (e', last', lr) ->
  env_wf e' /\ step_ok cutoff (mkStep d e e').
Proof.
  intros W H. destruct (eslice_inv _ _ _ _ _ _ _ _ H) as (db & db' & G & Sl & ->).
  pose proof (env_wf_get _ _ _ W G) as Sd.
  destruct (slice_only _ _ _ _ _ _ _ Sd Sl) as [Sd' L].
  split; [apply env_wf_set; assumption|]. unfold step_ok. cbn [st_dbi st_before st_after].
  split; [apply env_set_names|]. split; [intros d' N; apply env_get_set_other, N|].
  intros d2 k. destruct (beqb d2 d) eqn:E.
  - apply beqb_eq in E. subst d2. rewrite (elookup_set_same _ _ _ _ _ G). unfold elookup. rewrite G.
    destruct (L k) as [E1|(E1 & v & E2 & X)]; [left; exact E1|right].
    split; [reflexivity|]. split; [exact E1|]. exists v. split; [exact E2|exact X].
  - apply beqb_false in E. left. apply elookup_set_other, E.
Qed.

Definition out_env (o : outcome) : env :=
  match o with Done e _ => e | Failed _ e => e | Fuel e => e end.

(* ---- generic inductions over the pass ---- *)

Lemma dbi_pass_trace_gen cutoff d (G : step -> Prop) :
  (forall e last lim e' last' lr, env_wf e -> eslice cmp cutoff d last lim e = Ok (e', last', lr) -> G (mkStep d e e')) ->
  forall sc last lr e, env_wf e ->
    Forall G (snd (dbi_pass cmp cutoff d sc last lr e)) /\ env_wf (out_env (fst (dbi_pass cmp cutoff d sc last lr e))).
Proof.
  intros HG. induction sc as [|[lim ops] sc IH]; intros last lr e W; cbn [dbi_pass].
  - split; [constructor|exact W].
  - destruct (eslice cmp cutoff d last lim e) as [[[e1 last1] lr1]|x| |] eqn:E.
    + destruct (eslice_only _ _ _ _ _ _ _ _ W E) as [W1 _]. pose proof (HG _ _ _ _ _ _ W E) as G1.
      pose proof (apply_ops_wf ops _ W1) as W2. destruct lr1.
      * specialize (IH last1 true _ W2). destruct (dbi_pass cmp cutoff d sc last1 true (apply_ops cmp ops e1)) as [o tr].
        cbn [fst snd] in *. destruct IH as [F Wo]. split; [constructor; assumption|exact Wo].
      * cbn [fst snd out_env]. split; [repeat constructor; exact G1|exact W2].
    + destruct lr; [apply IH, apply_ops_wf, W|]. cbn [fst snd out_env]. split; [constructor|exact W].
    + cbn [fst snd out_env]. split; [constructor|exact W].
    + cbn [fst snd out_env]. split; [constructor|exact W].
Qed.

Lemma dbi_pass_rest cutoff d : forall sc last lr e e' rest tr,
  dbi_pass cmp cutoff d sc last lr e = (Done e' rest, tr) -> exists pre, sc = pre ++ rest.
Proof.
  induction sc as [|[lim ops] sc IH]; intros last lr e e' rest tr H; cbn [dbi_pass] in H; [discriminate|].
  destruct (eslice cmp cutoff d last lim e) as [[[e1 last1] lr1]|x| |]; try discriminate.
  - destruct lr1.
    + destruct (dbi_pass cmp cutoff d sc last1 true (apply_ops cmp ops e1)) as [o tr1] eqn:E. inversion H; subst.
      destruct (IH _ _ _ _ _ _ E) as [pre ->]. exists ((lim, ops) :: pre). reflexivity.
    + inversion H; subst. exists [(lim, ops)]. reflexivity.
  - destruct lr; [|discriminate]. destruct (IH _ _ _ _ _ _ H) as [pre ->]. exists ((lim, ops) :: pre). reflexivity.
Qed.

(* a state predicate kept by every sweeper transaction on d and by every application step of the
   schedule is kept by the pass *)
Lemma dbi_pass_inv_gen cutoff d (J : env -> Prop) :
  (forall e last lim e' last' lr, env_wf e -> J e -> eslice cmp cutoff d last lim e = Ok (e', last', lr) -> J e') ->
  forall sc, (forall lim ops, In (lim, ops) sc -> forall e, env_wf e -> J e -> J (apply_ops cmp ops e)) ->
  forall last lr e, env_wf e -> J e -> J (out_env (fst (dbi_pass cmp cutoff d sc last lr e))).
Proof.
  intros HS. induction sc as [|[lim ops] sc IH]; intros HA last lr e W Je; cbn [dbi_pass]; [exact Je|].
  assert (HA' : forall lim ops, In (lim, ops) sc -> forall e, env_wf e -> J e -> J (apply_ops cmp ops e))
    by (intros l o I; apply (HA l o); right; exact I).
  assert (HA0 : forall e, env_wf e -> J e -> J (apply_ops cmp ops e)) by (apply (HA lim ops); left; reflexivity).
  destruct (eslice cmp cutoff d last lim e) as [[[e1 last1] lr1]|x| |] eqn:E; try exact Je.
  - destruct (eslice_only _ _ _ _ _ _ _ _ W E) as [W1 _]. pose proof (HS _ _ _ _ _ _ W Je E) as J1.
    destruct lr1.
    + specialize (IH HA' last1 true _ (apply_ops_wf ops _ W1) (HA0 _ W1 J1)).
      destruct (dbi_pass cmp cutoff d sc last1 true (apply_ops cmp ops e1)) as [o tr]. exact IH.
    + cbn [fst out_env]. apply HA0; assumption.
  - destruct lr; [|exact Je]. apply IH; [exact HA'|apply apply_ops_wf, W|apply HA0; assumption].
Qed.

Lemma sweep_dbis_trace_gen cutoff native (G : step -> Prop) :
  (forall d e last lim e' last' lr, selected native d = true -> env_wf e ->
     eslice cmp cutoff d last lim e = Ok (e', last', lr) -> G (mkStep d e e')) ->
  forall names sc e, env_wf e ->
    Forall G (snd (sweep_dbis cmp cutoff native names sc e)) /\
    env_wf (out_env (fst (sweep_dbis cmp cutoff native names sc e))).
Proof.
  intros HG. induction names as [|d names IH]; intros sc e W; cbn [sweep_dbis].
  - split; [constructor|exact W].
  - destruct (selected native d) eqn:Sel; [|apply IH, W].
    destruct (dbi_pass_trace_gen cutoff d G (fun e last lim e' last' lr => HG d e last lim e' last' lr Sel) sc None false e W)
      as [F Wo].
    destruct (dbi_pass cmp cutoff d sc None false e) as [[e1 sc1|x e1|e1] tr]; cbn [fst snd out_env] in *.
    + specialize (IH sc1 e1 Wo). destruct (sweep_dbis cmp cutoff native names sc1 e1) as [o tr'].
      cbn [fst snd] in *. destruct IH as [F' Wo']. split; [apply Forall_app; split; assumption|exact Wo'].
    + split; assumption.
    + split; assumption.
Qed.

Lemma in_app_sched {A} (x : A) pre rest : In x rest -> In x (pre ++ rest).
Proof. intros I. apply in_or_app. right. exact I. Qed.

Lemma sweep_dbis_inv_gen cutoff native (J : env -> Prop) :
  (forall d e last lim e' last' lr, selected native d = true -> env_wf e -> J e ->
     eslice cmp cutoff d last lim e = Ok (e', last', lr) -> J e') ->
  forall names sc, (forall lim ops, In (lim, ops) sc -> forall e, env_wf e -> J e -> J (apply_ops cmp ops e)) ->
  forall e, env_wf e -> J e -> J (out_env (fst (sweep_dbis cmp cutoff native names sc e))).
Proof.
  intros HS. induction names as [|d names IH]; intros sc HA e W Je; cbn [sweep_dbis]; [exact Je|].
  destruct (selected native d) eqn:Sel; [|apply IH; assumption].
  pose proof (dbi_pass_inv_gen cutoff d J (fun e last lim e' last' lr => HS d e last lim e' last' lr Sel) sc HA None false e W Je) as J1.
  destruct (dbi_pass_trace_gen cutoff d (fun _ => True) (fun _ _ _ _ _ _ _ _ => I) sc None false e W) as [_ W1].
  destruct (dbi_pass cmp cutoff d sc None false e) as [[e1 sc1|x e1|e1] tr] eqn:E; cbn [fst snd out_env] in *;
    try exact J1.
  destruct (dbi_pass_rest _ _ _ _ _ _ _ _ _ E) as [pre ->].
  assert (HA1 : forall lim ops, In (lim, ops) sc1 -> forall e, env_wf e -> J e -> J (apply_ops cmp ops e))
    by (intros l o Il; apply (HA l o), in_app_sched, Il).
  specialize (IH sc1 HA1 e1 W1 J1). destruct (sweep_dbis cmp cutoff native names sc1 e1) as [o tr']. exact IH.
Qed.


(* ==== C13_only_expired ==== *)

(* every transaction the sweeper commits is on a DBI selected by the mode rule, removes only
   entries that are expired markers at that moment, alters no other entry of any DBI and creates
   or drops no DBI — for every slicing and every interleaved application behaviour, whatever the
   outcome of the pass *)
Theorem sweep_only_expired cutoff native names sc e : env_wf e ->
  Forall (fun s => selected native (st_dbi s) = true /\ step_ok cutoff s)
         (snd (sweep_dbis cmp cutoff native names sc e)).
Proof.
  intros W. apply (sweep_dbis_trace_gen cutoff native _); [|exact W].
  intros d e0 last lim e' last' lr Sel W0 E. split; [exact Sel|].
  exact (proj2 (eslice_only _ _ _ _ _ _ _ _ W0 E)).
Qed.

Definition quiet (sc : sched) : bool := forallb (fun p => match snd p with [] => true | _ => false end) sc.

Lemma quiet_ops sc lim ops : quiet sc = true -> In (lim, ops) sc -> ops = [].
Proof.
  unfold quiet. rewrite forallb_forall. intros Q I. specialize (Q _ I). cbn [snd] in Q.
  destruct ops; [reflexivity|discriminate].
Qed.

(* net effect without a concurrent writer: the final content is the initial content minus some
   markers that were expired, in selected DBIs only *)
Theorem sweep_only_expired_net cutoff native names sc e : env_wf e -> quiet sc = true ->
  let e' := out_env (fst (sweep_dbis cmp cutoff native names sc e)) in
  map fst e' = map fst e /\
  forall d k, elookup d k e' = elookup d k e \/
    (selected native d = true /\ elookup d k e' = None /\
     exists v, elookup d k e = Some v /\ is_expired cutoff v = true).
Proof.
  intros W Q.
  apply (sweep_dbis_inv_gen cutoff native (fun e' => map fst e' = map fst e /\
    forall d k, elookup d k e' = elookup d k e \/
      (selected native d = true /\ elookup d k e' = None /\
       exists v, elookup d k e = Some v /\ is_expired cutoff v = true))).
  - intros d e0 last lim e1 last1 lr1 Sel W0 [N0 J0] E.
    destruct (eslice_only _ _ _ _ _ _ _ _ W0 E) as [_ (N1 & _ & L1)]. cbn [st_dbi st_before st_after] in *.
    split; [congruence|]. intros d2 k.
    destruct (L1 d2 k) as [E1|(-> & E1 & v & E2 & X)].
    + rewrite E1. apply J0.
    + destruct (J0 d k) as [E0|(S0 & E0 & _)]; [|rewrite E0 in E2; discriminate].
      right. split; [exact Sel|]. split; [exact E1|]. exists v. split; [congruence|exact X].
  - intros lim ops I e0 _ J0. rewrite (quiet_ops _ _ _ Q I). exact J0.
  - exact W.
  - split; [reflexivity|]. intros; left; reflexivity.
Qed.

(* ==== C13_complete ==== *)

Definition inv_k (d k v : bytes) (last : option (bytes * bytes)) (e : env) : Prop :=
  elookup d k e = None \/ (elookup d k e = Some v /\ before last k).

Lemma untouched_cons d k lim ops sc : untouched d k ((lim, ops) :: sc) = true ->
  ops_untouched d k ops = true /\ untouched d k sc = true.
Proof. unfold untouched. cbn [forallb snd]. intros H. apply andb_true_iff in H. exact H. Qed.

Lemma dbi_pass_complete cutoff d k v : is_expired cutoff v = true ->
  forall sc last lr e e' rest tr, env_wf e -> untouched d k sc = true -> inv_k d k v last e ->
  dbi_pass cmp cutoff d sc last lr e = (Done e' rest, tr) -> elookup d k e' = None.
Proof.
  intros X. induction sc as [|[lim ops] sc IH]; intros last lr e e' rest tr W U Inv H; cbn [dbi_pass] in H;
    [discriminate|].
  apply untouched_cons in U. destruct U as [U0 U].
  destruct (eslice cmp cutoff d last lim e) as [[[e1 last1] lr1]|x| |] eqn:E; try discriminate.
  - destruct (eslice_only _ _ _ _ _ _ _ _ W E) as [W1 _].
    destruct (eslice_inv _ _ _ _ _ _ _ _ E) as (db & db1 & G & Sl & ->).
    pose proof (env_wf_get _ _ _ W G) as Sd.
    assert (Inv1 : lookup k db1 = None \/ (lr1 = true /\ lookup k db1 = Some v /\ before last1 k)).
    { destruct Inv as [E0|[E0 B]]; unfold elookup in E0; rewrite G in E0.
      - left. destruct (proj2 (slice_only _ _ _ _ _ _ _ Sd Sl) k) as [E1|[E1 _]]; congruence.
      - eapply slice_reach; eassumption. }
    assert (E2 : elookup d k (apply_ops cmp ops (env_set d db1 e)) = lookup k db1).
    { rewrite apply_ops_untouched by exact U0. apply (elookup_set_same _ _ _ _ _ G). }
    destruct lr1.
    + destruct (dbi_pass cmp cutoff d sc last1 true (apply_ops cmp ops (env_set d db1 e))) as [o tr1] eqn:E3.
      inversion H; subst o. eapply (IH last1 true _ _ _ _ (apply_ops_wf ops _ W1) U); [|exact E3].
      unfold inv_k. rewrite E2. destruct Inv1 as [N|(_ & Sv & B)]; [left; exact N|right; split; assumption].
    + inversion H; subst. rewrite E2. destruct Inv1 as [N|(F & _)]; [exact N|discriminate].
  - destruct lr; [|discriminate].
    eapply (IH last true _ _ _ _ (apply_ops_wf ops _ W) U); [|exact H].
    unfold inv_k. rewrite apply_ops_untouched by exact U0. exact Inv.
Qed.

Lemma untouched_in d k sc lim ops : untouched d k sc = true -> In (lim, ops) sc -> ops_untouched d k ops = true.
Proof. unfold untouched. rewrite forallb_forall. intros U I. exact (U _ I). Qed.

Lemma untouched_app d k pre rest : untouched d k (pre ++ rest) = true -> untouched d k rest = true.
Proof. unfold untouched. rewrite forallb_app. intros H. apply andb_true_iff in H. tauto. Qed.

(* a predicate on the content of (d,k) that survives "unchanged or removed" survives the pass when
   the application does not touch (d,k) *)
Lemma sweep_dbis_keeps cutoff native d k (Qo : option bytes -> Prop) :
  (forall x, Qo x -> Qo None) ->
  forall names sc e, env_wf e -> untouched d k sc = true -> Qo (elookup d k e) ->
  Qo (elookup d k (out_env (fst (sweep_dbis cmp cutoff native names sc e)))).
Proof.
  intros HQ names sc e W U Q0.
  apply (sweep_dbis_inv_gen cutoff native (fun e' => Qo (elookup d k e'))); try assumption.
  - intros d1 e0 last lim e1 last1 lr1 _ W0 J0 E.
    destruct (eslice_only _ _ _ _ _ _ _ _ W0 E) as [_ (_ & _ & L1)]. cbn [st_dbi st_before st_after] in L1.
    destruct (L1 d k) as [E1|(_ & E1 & _)]; rewrite E1; [exact J0|exact (HQ _ J0)].
  - intros lim ops I e0 _ J0. rewrite apply_ops_untouched; [exact J0|]. eapply untouched_in; eassumption.
Qed.

Lemma dbi_pass_keeps cutoff d1 d k (Qo : option bytes -> Prop) :
  (forall x, Qo x -> Qo None) ->
  forall sc last lr e, env_wf e -> untouched d k sc = true -> Qo (elookup d k e) ->
  Qo (elookup d k (out_env (fst (dbi_pass cmp cutoff d1 sc last lr e)))).
Proof.
  intros HQ sc last lr e W U Q0.
  apply (dbi_pass_inv_gen cutoff d1 (fun e' => Qo (elookup d k e'))); try assumption.
  - intros e0 last0 lim e1 last1 lr1 W0 J0 E.
    destruct (eslice_only _ _ _ _ _ _ _ _ W0 E) as [_ (_ & _ & L1)]. cbn [st_dbi st_before st_after] in L1.
    destruct (L1 d k) as [E1|(_ & E1 & _)]; rewrite E1; [exact J0|exact (HQ _ J0)].
  - intros lim ops I e0 _ J0. rewrite apply_ops_untouched; [exact J0|]. eapply untouched_in; eassumption.
Qed.

(* an expired marker that the application leaves alone is gone when the pass ends normally:
   every slicing, every concurrent application behaviour on all other keys (including the resume
   keys of every slice) *)
Theorem sweep_complete cutoff native d k v : is_expired cutoff v = true -> selected native d = true ->
  forall names sc e e' rest, env_wf e -> untouched d k sc = true -> In d names ->
  (elookup d k e = Some v \/ elookup d k e = None) ->
  fst (sweep_dbis cmp cutoff native names sc e) = Done e' rest ->
  elookup d k e' = None.
Proof.
  intros X Sel. induction names as [|d1 names IH]; intros sc e e' rest W U I P H; [destruct I|].
  cbn [sweep_dbis] in H.
  destruct (beqb d d1) eqn:Ed.
  - apply beqb_eq in Ed. subst d1. rewrite Sel in H.
    pose proof (dbi_pass_trace_gen cutoff d (fun _ => True) (fun _ _ _ _ _ _ _ _ => Logic.I) sc None false e W) as [_ W1].
    destruct (dbi_pass cmp cutoff d sc None false e) as [[e1 sc1|x e1|e1] tr] eqn:E; cbn [fst] in H; try discriminate.
    cbn [fst out_env] in W1.
    assert (N1 : elookup d k e1 = None).
    { eapply (dbi_pass_complete cutoff d k v X sc None false e); try eassumption.
      unfold inv_k, before. destruct P as [P|P]; [right; split; [exact P|exact Logic.I]|left; exact P]. }
    destruct (dbi_pass_rest _ _ _ _ _ _ _ _ _ E) as [pre ->]. apply untouched_app in U.
    pose proof (sweep_dbis_keeps cutoff native d k (fun x => x = None) (fun _ _ => eq_refl) names sc1 e1 W1 U N1) as K.
    destruct (sweep_dbis cmp cutoff native names sc1 e1) as [o tr']. cbn [fst] in *. subst o. exact K.
  - assert (I' : In d names).
    { destruct I as [I|I]; [subst d1; rewrite beqb_refl in Ed; discriminate|exact I]. }
    destruct (selected native d1) eqn:Sel1; [|eapply IH; eassumption].
    pose proof (dbi_pass_trace_gen cutoff d1 (fun _ => True) (fun _ _ _ _ _ _ _ _ => Logic.I) sc None false e W) as [_ W1].
    pose proof (dbi_pass_keeps cutoff d1 d k (fun x => x = Some v \/ x = None) (fun _ _ => or_intror eq_refl)
                  sc None false e W U P) as P1.
    destruct (dbi_pass cmp cutoff d1 sc None false e) as [[e1 sc1|x e1|e1] tr] eqn:E; cbn [fst] in H; try discriminate.
    cbn [fst out_env] in W1, P1.
    destruct (dbi_pass_rest _ _ _ _ _ _ _ _ _ E) as [pre ->]. apply untouched_app in U.
    specialize (IH sc1 e1 e' rest W1 U I' P1).
    destruct (sweep_dbis cmp cutoff native names sc1 e1) as [o tr']. cbn [fst] in *. apply IH, H.
Qed.


(* ==== C13_shadow_scope ==== *)

(* non-native mode: no sweeper transaction touches a DBI without the "_sync" prefix *)
Theorem sweep_shadow_scope cutoff names sc e d : env_wf e -> has_prefix SyncDBIPrefix d = false ->
  Forall (fun s => env_get d (st_after s) = env_get d (st_before s))
         (snd (sweep_dbis cmp cutoff false names sc e)).
Proof.
  intros W Np. eapply Forall_impl; [|apply (sweep_only_expired cutoff false names sc e W)].
  intros s [Sel (_ & Fr & _)]. apply Fr. intros ->. unfold selected in Sel. cbn [orb] in Sel. congruence.
Qed.

Lemma avoids_in d sc lim ops : avoids d sc = true -> In (lim, ops) sc -> ops_avoid d ops = true.
Proof. unfold avoids. rewrite forallb_forall. intros U I. exact (U _ I). Qed.

(* a DBI that is not selected and that the application does not write during the pass is
   byte-for-byte the same afterwards, whatever the outcome *)
Theorem sweep_frame cutoff native names sc e d : env_wf e -> selected native d = false -> avoids d sc = true ->
  env_get d (out_env (fst (sweep_dbis cmp cutoff native names sc e))) = env_get d e.
Proof.
  intros W Ns Av.
  apply (sweep_dbis_inv_gen cutoff native (fun e' => env_get d e' = env_get d e)); try assumption; try reflexivity.
  - intros d1 e0 last lim e1 last1 lr1 Sel W0 J0 E.
    destruct (eslice_only _ _ _ _ _ _ _ _ W0 E) as [_ (_ & Fr & _)]. cbn [st_dbi st_before st_after] in Fr.
    rewrite Fr; [exact J0|]. intros ->. congruence.
  - intros lim ops I e0 _ J0. rewrite apply_ops_avoid; [exact J0|]. eapply avoids_in; eassumption.
Qed.

(* ==== the guard: cutoff 0 ==== *)

Lemma eslice_zero d last lim e e' last' lr : eslice cmp 0 d last lim e = Ok (e', last', lr) -> e' = e.
Proof.
  intros E. destruct (eslice_inv _ _ _ _ _ _ _ _ E) as (db & db1 & G & Sl & ->).
  apply slice_zero_cutoff in Sl. subst db1. apply env_set_id, G.
Qed.

(* with cutoff 0 (what the clamp yields when the retention reaches before the UNIX epoch)
   NOTHING is swept *)
Theorem sweep_zero_cutoff native names sc e : env_wf e ->
  Forall (fun s => st_after s = st_before s) (snd (sweep_dbis cmp 0 native names sc e)).
Proof.
  intros W. apply (sweep_dbis_trace_gen 0 native _); [|exact W].
  intros d e0 last lim e' last' lr _ _ E. cbn [st_after st_before]. eapply eslice_zero, E.
Qed.

Theorem sweep_clamped_sweeps_nothing now R native sc e : env_wf e ->
  (0 <= now)%Z -> (now < R)%Z -> (R <= max_int64)%Z ->
  Forall (fun s => st_after s = st_before s) (snd (sweep cmp now R native sc e)).
Proof.
  intros W H0 H1 H2. unfold sweep. rewrite sweep_cutoff_clamped by assumption. apply sweep_zero_cutoff, W.
Qed.

(* ==== C13_terminates ==== *)

Definition parseable (db : dbi) : bool := forallb (fun p => is_ok (parse (snd p))) db.
(* every slice limit is >= 1 record (the scanner never stops before its first record) and the
   application writes nothing *)
Definition quiescent (sc : sched) : bool :=
  forallb (fun p => Nat.leb 1 (fst p) && match snd p with [] => true | _ => false end) sc.

Lemma classify_ok cutoff v : is_ok (parse v) = true -> exists c, classify cutoff v = Ok c.
Proof.
  unfold classify. destruct (parse v) as [[h a]| | |]; try discriminate. intros _.
  destruct (negb (is_deleted (h_flags h))); [eauto|]. destruct (cutoff <=? h_ts h); eauto.
Qed.

Lemma scan_loop_ok cutoff : forall s lim count cur db,
  (forall k v, In (k, v) s -> is_ok (parse v) = true) -> exists r, scan_loop cutoff lim count s cur db = Ok r.
Proof.
  induction s as [|[k1 v1] s IH]; intros lim count cur db A; cbn [scan_loop];
    destruct (limit_hit lim count); eauto.
  destruct (classify_ok cutoff v1 (A k1 v1 (or_introl eq_refl))) as [c ->].
  assert (A' : forall k v, In (k, v) s -> is_ok (parse v) = true) by (intros k v I; apply (A k v); right; exact I).
  destruct c; apply IH; exact A'.
Qed.

Lemma parseable_in db k v : parseable db = true -> In (k, v) db -> is_ok (parse v) = true.
Proof. unfold parseable. rewrite forallb_forall. intros P I. exact (P _ I). Qed.

Lemma slice_ok cutoff last lim db : parseable db = true -> exists r, slice cmp cutoff last lim db = Ok r.
Proof.
  intros P. unfold slice. apply scan_loop_ok. intros k v I. eapply parseable_in; [exact P|].
  apply (resume_incl last db), I.
Qed.

Lemma slice_parseable cutoff last lim db db' last' lr : sorted db -> parseable db = true ->
  slice cmp cutoff last lim db = Ok (db', last', lr) -> parseable db' = true.
Proof.
  intros Sd P Sl. destruct (slice_only _ _ _ _ _ _ _ Sd Sl) as [Sd' L].
  unfold parseable. apply forallb_forall. intros [k v] I. cbn [snd].
  pose proof (in_lookup _ _ _ Sd' I) as Lk. destruct (L k) as [E|[E _]]; [|congruence].
  rewrite Lk in E. symmetry in E. apply lookup_in in E. eapply parseable_in; eassumption.
Qed.

(* with a quiescent application and parseable values the loop for one DBI ends normally within
   (records in front of the cursor) + 1 slices, whatever the slice limits *)
Theorem dbi_pass_terminates cutoff d : forall sc last lr e db,
  env_wf e -> env_get d e = Some db -> parseable db = true -> quiescent sc = true ->
  (length (resume cmp last db) < length sc)%nat ->
  exists e' rest tr, dbi_pass cmp cutoff d sc last lr e = (Done e' rest, tr).
Proof.
  induction sc as [|[lim ops] sc IH]; intros last lr e db W G P Q Len; [cbn [length] in Len; lia|].
  unfold quiescent in Q. cbn [forallb fst snd] in Q. apply andb_true_iff in Q. destruct Q as [Q0 Q].
  apply andb_true_iff in Q0. destruct Q0 as [Hlim Hops]. destruct ops; [|discriminate].
  pose proof (env_wf_get _ _ _ W G) as Sd.
  destruct (slice_ok cutoff last lim db P) as [[[db1 last1] lr1] Sl].
  cbn [dbi_pass]. unfold eslice. rewrite G, Sl. unfold apply_ops. cbn [fold_left].
  destruct lr1.
  - pose proof (slice_progress _ _ _ _ _ _ Sd Sl) as Pr.
    destruct (slice_only _ _ _ _ _ _ _ Sd Sl) as [Sd1 _].
    destruct (IH last1 true (env_set d db1 e) db1) as (e' & rest & tr & E).
    + apply env_wf_set; assumption.
    + eapply env_get_set_same, G.
    + exact (slice_parseable _ _ _ _ _ _ _ Sd P Sl).
    + exact Q.
    + cbn [length] in Len. lia.
    + fold (apply_ops cmp [] (env_set d db1 e)). unfold apply_ops. cbn [fold_left]. rewrite E. eauto.
  - eauto.
Qed.

(* ==== recorded observation: the stale limitReached ==== *)

(* once a slice has hit its limit, a transaction that keeps failing (e.g. a value that does not
   parse further on) is retried forever: the loop never returns while the application is quiet *)
Theorem stale_limit_livelock cutoff d last e x :
  (forall lim, eslice cmp cutoff d last lim e = Err x) ->
  forall sc, quiet sc = true -> dbi_pass cmp cutoff d sc last true e = (Fuel e, []).
Proof.
  intros HE. induction sc as [|[lim ops] sc IH]; intros Q; [reflexivity|].
  unfold quiet in Q. cbn [forallb snd] in Q. apply andb_true_iff in Q. destruct Q as [Q0 Q].
  destruct ops; [|discriminate]. cbn [dbi_pass]. rewrite HE. unfold apply_ops. cbn [fold_left]. apply IH, Q.
Qed.


(* ==== the pass is nothing but ok-steps interleaved with the application's steps ==== *)

(* rely/guarantee form of C13_only_expired: any state predicate that is kept by every [step_ok]
   transaction on a selected DBI and by the application's own commits holds of the environment
   the pass leaves behind (whatever its outcome) *)
Theorem sweep_rely_guarantee cutoff native (J : env -> Prop) names sc e :
  (forall d e1 e2, selected native d = true -> env_wf e1 -> env_wf e2 -> step_ok cutoff (mkStep d e1 e2) -> J e1 -> J e2) ->
  (forall lim ops, In (lim, ops) sc -> forall e1, env_wf e1 -> J e1 -> J (apply_ops cmp ops e1)) ->
  env_wf e -> J e -> J (out_env (fst (sweep_dbis cmp cutoff native names sc e))).
Proof.
  intros HS HA W J0. apply (sweep_dbis_inv_gen cutoff native J); try assumption.
  intros d e0 last lim e1 last1 lr1 Sel W0 Je E.
  destruct (eslice_only _ _ _ _ _ _ _ _ W0 E) as [W1 Ok1]. exact (HS d e0 e1 Sel W0 W1 Ok1 Je).
Qed.

End Order.

(* ---- the instance for ordinary DBIs: keys ordered by bytes.Compare ---- *)
Ltac inst L :=
  first [ let x := constr:(L bcmp bcmp_eq_iff bcmp_antisym bcmp_lt_trans) in exact x
        | let x := constr:(L bcmp bcmp_eq_iff bcmp_lt_trans) in exact x
        | let x := constr:(L bcmp bcmp_eq_iff bcmp_antisym) in exact x
        | let x := constr:(L bcmp bcmp_eq_iff) in exact x
        | let x := constr:(L bcmp) in exact x ].
Definition b_only_expired := ltac:(inst sweep_only_expired).
Definition b_only_expired_net := ltac:(inst sweep_only_expired_net).
Definition b_rely_guarantee := ltac:(inst sweep_rely_guarantee).
Definition b_slice_only := ltac:(inst slice_only).
Definition b_complete := ltac:(inst sweep_complete).
Definition b_slice_reach := ltac:(inst slice_reach).
Definition b_slice_progress := ltac:(inst slice_progress).
Definition b_terminates := ltac:(inst dbi_pass_terminates).
Definition b_shadow_scope := ltac:(inst sweep_shadow_scope).
Definition b_frame := ltac:(inst sweep_frame).
Definition b_zero_cutoff := ltac:(inst sweep_zero_cutoff).
Definition b_clamped := ltac:(inst sweep_clamped_sweeps_nothing).
Definition b_livelock := ltac:(inst stale_limit_livelock).

(* ---- what "expired" means, and decidable well-formedness ---- *)

Theorem is_expired_iff cutoff v :
  is_expired cutoff v = true <->
  exists h a, parse v = Ok (h, a) /\ is_deleted (h_flags h) = true /\ h_ts h < cutoff.
Proof.
  unfold is_expired, classify. destruct (parse v) as [[h a]| | |].
  - destruct (is_deleted (h_flags h)) eqn:D; cbn [negb].
    + destruct (N.leb_spec cutoff (h_ts h)) as [L|L]; split.
      * discriminate.
      * intros (h' & a' & E & _ & Lt). inversion E; subst. lia.
      * intros _. exists h, a. auto.
      * reflexivity.
    + split; [discriminate|]. intros (h' & a' & E & D' & _). inversion E; subst. congruence.
  - split; [discriminate|]. intros (h' & a' & E & _). discriminate.
  - split; [discriminate|]. intros (h' & a' & E & _). discriminate.
  - split; [discriminate|]. intros (h' & a' & E & _). discriminate.
Qed.

Fixpoint sortedb (db : dbi) : bool :=
  match db with
  | [] => true
  | (k, _) :: r => forallb (fun p => is_lt (bcmp k (fst p))) r && sortedb r
  end.
Definition env_wfb (e : env) : bool := forallb (fun p => sortedb (snd p)) e.

Lemma sortedb_sorted db : sortedb db = true -> sorted bcmp db.
Proof.
  induction db as [|[k v] r IH]; intros H; [constructor|].
  cbn [sortedb] in H. apply andb_true_iff in H. destruct H as [F S].
  constructor; [apply IH, S|]. rewrite forallb_forall in F. apply Forall_forall. intros p I.
  specialize (F p I). unfold ltk. cbn [fst]. destruct (bcmp k (fst p)); try discriminate. reflexivity.
Qed.

Theorem env_wfb_wf e : env_wfb e = true -> env_wf bcmp e.
Proof.
  unfold env_wfb, env_wf. rewrite forallb_forall. intros H. apply Forall_forall. intros p I.
  apply sortedb_sorted, H, I.
Qed.

Lemma env_get_in d e db : env_get d e = Some db -> In d (map fst e).
Proof.
  induction e as [|[d' x] r IH]; cbn [env_get]; [discriminate|].
  destruct (beqb d d') eqn:E; [apply beqb_eq in E; subst; left; reflexivity|intros H; right; apply IH, H].
Qed.

(* C13_complete stated on [sweep] with the cutoff computed from the clock and the retention
   (no wrap: 0 <= R <= now) *)
Theorem sweep_complete_top now R native sc e e' rest d k v h a :
  env_wf bcmp e -> (0 <= R)%Z -> (R <= now)%Z -> (now <= max_int64)%Z ->
  selected native d = true ->
  elookup d k e = Some v -> parse v = Ok (h, a) -> is_deleted (h_flags h) = true ->
  (Z.of_N (h_ts h) < now - R)%Z ->
  untouched d k sc = true ->
  fst (sweep bcmp now R native sc e) = Done e' rest ->
  elookup d k e' = None.
Proof.
  intros W H0 H1 H2 Sel L P D T U H. unfold sweep in H.
  assert (X : is_expired (sweep_cutoff now R) v = true).
  { apply is_expired_iff. exists h, a. repeat split; try assumption.
    pose proof (sweep_cutoff_exact now R H0 H1 H2). lia. }
  eapply (b_complete _ native d k v X Sel _ sc e e' rest W U); [|left; exact L|exact H].
  unfold elookup in L. destruct (env_get d e) as [db|] eqn:G; [|discriminate]. eapply env_get_in, G.
Qed.
