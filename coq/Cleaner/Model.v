(* Cleaner/Model.v — executable model of syncer/cleaner/cleaner.go (the snapshot cleaner), of the
   two lines of syncer/syncer.go and syncer/send.go that configure and notify it, and the
   specification vocabulary used by the C12 theorems.  No proofs here.

   Time: a time.Time is its number of nanoseconds since the Unix epoch, an unbounded Z (the zero
   time.Time, year 1, is [zero_time]); a time.Duration is a Z; [dur_sub] is time.Time.Sub with its
   saturation at the int64 range.  Names and instance ids are byte strings.
   snapshot.ParseName is NOT modelled here (property C15): the model takes the parse function as an
   argument [parse : name -> option pinfo]; only "error", InstanceID, Timestamp and
   "Kind == KindSnapshot" of its result are used by the cleaner. *)
From LS Require Import Base.Bytes.
Open Scope Z_scope.

Definition name := bytes.
Definition inst := bytes.

(* what the cleaner uses of a snapshot.NameInfo returned by snapshot.ParseName without error *)
Record pinfo := mkP { p_inst : inst; p_ts : Z; p_snap : bool (* ni.Kind == snapshot.KindSnapshot *) }.
Definition parser := name -> option pinfo.   (* None: ParseName returned an error *)

(* an element of removalCandidates: FullName, InstanceID, Timestamp *)
Record cand := mkCand { c_name : name; c_inst : inst; c_ts : Z }.

(* Go: config.Cleanup (Interval is only the sleep between runs in Worker.Run) *)
Record conf := mkConf { cf_enabled : bool; cf_keep : Z (* MustKeepInterval *); cf_rem : Z (* RemoveOldInstancesInterval *) }.

Definition min_i64 : Z := -9223372036854775808.
Definition max_i64 : Z := 9223372036854775807.

(* Go: time.Time.Sub — the difference, saturated to the Duration range *)
Definition dur_sub (a b : Z) : Z :=
  let d := a - b in
  if d <? min_i64 then min_i64 else if max_i64 <? d then max_i64 else d.

(* Go: the zero time.Time (January 1, year 1, 00:00 UTC), returned by a map lookup that misses *)
Definition zero_time : Z := -62135596800000000000.

(* ---- Go maps keyed by strings, as association lists (first binding wins) ---- *)
Fixpoint mem (x : bytes) (l : list bytes) : bool :=
  match l with
  | [] => false
  | y :: l' => beqb x y || mem x l'
  end.

Fixpoint get {V : Type} (m : list (bytes * V)) (k : bytes) : option V :=
  match m with
  | [] => None
  | (k', v) :: m' => if beqb k k' then Some v else get m' k
  end.

Definition set {V : Type} (m : list (bytes * V)) (k : bytes) (v : V) : list (bytes * V) := (k, v) :: m.

(* delete every key for which [keep] is false *)
Definition prune {V : Type} (keep : bytes -> bool) (m : list (bytes * V)) : list (bytes * V) :=
  filter (fun kv => keep (fst kv)) m.

(* Go: strings.HasPrefix(s, p) *)
Fixpoint has_prefix (p s : bytes) : bool :=
  match p, s with
  | [], _ => true
  | x :: p', y :: s' => (x =? y)%N && has_prefix p' s'
  | _ :: _, [] => false
  end.

(* Go: cleaner.go New — prefix: name + "__" *)
Definition new_prefix (dbname : bytes) : bytes := dbname ++ [95; 95]%N.

(* simpleblob.Interface.List(ctx, prefix) without error: the names in the bucket that start with
   the prefix, in the backend's order (contract of the backends; the harness' fake bucket does this) *)
Definition blob_list (prefix : bytes) (bucket : list name) : list name :=
  filter (has_prefix prefix) bucket.

(* the Worker's mutable fields besides lastByInstance *)
Record cstate := mkSt {
  s_ignored : list name;          (* ignoredFilenames *)
  s_fs : list (name * Z)          (* snapFirstSeen *)
}.

Definition cmap := list (inst * Z).   (* lastByInstance *)

(* Go: cleaner.go Worker.SetCommitted — maps.Copy(w.lastByInstance, last): every binding of [last]
   overwrites; nothing else changes; the caller's map is not retained *)
Definition set_committed (committed last : cmap) : cmap :=
  fold_left (fun acc kv => set acc (fst kv) (snd kv)) last committed.

(* Go: cleaner.go Worker.GetCommitted — missing instance: zero time *)
Definition get_committed (committed : cmap) (i : inst) : Z :=
  match get committed i with Some t => t | None => zero_time end.

(* Go: cleaner.go RunOnce, first loop over names: ignoredFilenames cache, ParseName error => cache
   and skip, Kind != KindSnapshot => skip, else candidate (and seen[name] = true) *)
Fixpoint scan (parse : parser) (ignored : list name) (names : list name) : list name * list cand :=
  match names with
  | [] => (ignored, [])
  | n :: r =>
      if mem n ignored then scan parse ignored r
      else match parse n with
           | None => scan parse (n :: ignored) r
           | Some p =>
               if p_snap p then
                 let (ig, cs) := scan parse ignored r in (ig, mkCand n (p_inst p) (p_ts p) :: cs)
               else scan parse ignored r
           end
  end.

(* Go: cleaner.go RunOnce, slices.SortFunc newest first.  The comparison function: -1 when a is
   newer, 1 when older, 0 when equal.  The model sorts by stable insertion (what slices.SortFunc
   does up to 12 elements); the theorems are proved for EVERY permutation that is sorted newest
   first ([run_core] takes the sorted list), so they do not depend on the algorithm. *)
Fixpoint insert_newest (c : cand) (l : list cand) : list cand :=
  match l with
  | [] => [c]
  | d :: l' => if c_ts c <? c_ts d then d :: insert_newest c l' else c :: l
  end.
Definition sort_newest_first (l : list cand) : list cand := fold_right insert_newest [] l.

(* Go: cleaner.go RunOnce, first lo.Filter.  Threads snapFirstSeen (written while filtering) and
   seenInstances.  Not seen before: record now, keep, do NOT mark.  now.Sub(firstSeen) <=
   MustKeepInterval: keep and mark the instance.  Otherwise the candidate continues. *)
Fixpoint filter1 (now keep : Z) (fs : list (name * Z)) (marks : list inst) (l : list cand)
  : list (name * Z) * list inst * list cand :=
  match l with
  | [] => (fs, marks, [])
  | c :: l' =>
      match get fs (c_name c) with
      | None => filter1 now keep (set fs (c_name c) now) marks l'
      | Some t =>
          if dur_sub now t <=? keep then filter1 now keep fs (c_inst c :: marks) l'
          else let '(fs', marks', r) := filter1 now keep fs marks l' in (fs', marks', c :: r)
      end
  end.

(* Go: cleaner.go RunOnce, second lo.Filter.  First candidate of an unmarked instance: keep, mark,
   and if now.Sub(ni.Timestamp) > RemoveOldInstancesInterval append to tooOld.  Marked instance:
   the candidate stays in removalCandidates.  Result: (removalCandidates, tooOld). *)
Fixpoint filter2 (now rem : Z) (marks : list inst) (l : list cand) : list cand * list cand :=
  match l with
  | [] => ([], [])
  | c :: l' =>
      if mem (c_inst c) marks then
        let (d, t) := filter2 now rem marks l' in (c :: d, t)
      else
        let (d, t) := filter2 now rem (c_inst c :: marks) l' in
        (d, if rem <? dur_sub now (c_ts c) then c :: t else t)
  end.

(* Go: cleaner.go RunOnce, the stale list: ni.Timestamp.After(lastCommitted) => not deleted *)
Definition stale_deletable (committed : cmap) (c : cand) : bool :=
  negb (get_committed committed (c_inst c) <? c_ts c).

(* the Delete calls of a run, in order, with their outcome; [del_fail]: the names for which the
   backend's Delete returns an error during this run.  A failing Delete is logged and skipped. *)
Definition deletes (del_fail : list name) (l : list name) : list (name * bool) :=
  map (fun n => (n, negb (mem n del_fail))) l.

(* Go: cleaner.go RunOnce from the sort on, given the sorted candidates *)
Definition run_core (cf : conf) (committed : cmap) (fs1 : list (name * Z)) (sorted : list cand)
  (now : Z) (del_fail : list name) : list (name * Z) * list (name * bool) :=
  let '(fs2, marks, rc) := filter1 now (cf_keep cf) fs1 [] sorted in
  let (rc2, too_old) := filter2 now (cf_rem cf) marks rc in
  let stale := filter (stale_deletable committed) too_old in
  (fs2, deletes del_fail (map c_name rc2 ++ map c_name stale)).

(* Go: cleaner.go RunOnce after a successful List (Enabled is tested by the caller [step]) *)
Definition run_once (parse : parser) (cf : conf) (committed : cmap) (st : cstate)
  (listing : list name) (now : Z) (del_fail : list name) : cstate * list (name * bool) :=
  let (ign', cands) := scan parse (s_ignored st) listing in
  let seen := map c_name cands in
  let fs1 := prune (fun n => mem n seen) (s_fs st) in
  let (fs2, dels) := run_core cf committed fs1 (sort_newest_first cands) now del_fail in
  (mkSt ign' fs2, dels).

(* ---- histories ---- *)

(* calls the worker makes on the storage backend *)
Inductive bcall :=
| BList (prefix : bytes)
| BDelete (n : name) (ok : bool).

Inductive event :=
| Run (bucket : list name) (now : Z) (del_fail : list name)  (* RunOnce(ctx, now); List succeeds *)
| ListFails                                                   (* RunOnce; List returns an error *)
| SetCommitted (m : cmap).                                    (* SetCommitted(m) *)

Record wstate := mkWS { ws_committed : cmap; ws_st : cstate }.

(* Go: cleaner.go New — empty maps *)
Definition ws0 : wstate := mkWS [] (mkSt [] []).

(* Go: cleaner.go RunOnce / SetCommitted as one step of a history.  Run with Enabled = false waits
   for the context and never calls RunOnce; RunOnce itself returns at once when disabled. *)
Definition step (parse : parser) (prefix : bytes) (cf : conf) (ws : wstate) (e : event)
  : wstate * list bcall :=
  match e with
  | Run bucket now del_fail =>
      if cf_enabled cf then
        let (st', dels) := run_once parse cf (ws_committed ws) (ws_st ws)
                                    (blob_list prefix bucket) now del_fail in
        (mkWS (ws_committed ws) st', BList prefix :: map (fun d => BDelete (fst d) (snd d)) dels)
      else (ws, [])
  | ListFails => if cf_enabled cf then (ws, [BList prefix]) else (ws, [])
  | SetCommitted m => (mkWS (set_committed (ws_committed ws) m) (ws_st ws), [])
  end.

(* state after a history (events in chronological order), from a fresh Worker *)
Definition hist_state (parse : parser) (prefix : bytes) (cf : conf) (h : list event) : wstate :=
  fold_left (fun ws e => fst (step parse prefix cf ws e)) h ws0.

(* the call log of every event of a history *)
Fixpoint hist_logs (parse : parser) (prefix : bytes) (cf : conf) (ws : wstate) (h : list event)
  : list (list bcall) :=
  match h with
  | [] => []
  | e :: h' => let (ws', log) := step parse prefix cf ws e in log :: hist_logs parse prefix cf ws' h'
  end.

(* Go: syncer/syncer.go New — receive-only: the zero config.Cleanup (Enabled = false) *)
Definition syncer_cleanup_conf (receive_only : bool) (c : conf) : conf :=
  if receive_only then mkConf false 0 0 else c.

(* Go: syncer/send.go SendOnce, the part that talks to the bucket and the cleaner: receive-only
   returns before building a name; otherwise Store (retried by the caller's loop; [store_ok] is
   the final outcome); only after a successful Store: cleaner.SetCommitted(lastByInstance).
   Result: (number of successful Store calls, cleaner events). *)
Definition send_once_tail (receive_only store_ok : bool) (last_by_instance : cmap) : N * list event :=
  if receive_only then (0%N, [])
  else if store_ok then (1%N, [SetCommitted last_by_instance]) else (0%N, []).

(* ================= specification vocabulary (not Go) ================= *)

(* the names of a bucket the cleaner of this database may touch: listed under the prefix, parse,
   and are of kind snapshot — as candidates *)
Definition cands_of (parse : parser) (names : list name) : list cand :=
  flat_map (fun n => match parse n with
                     | Some p => if p_snap p then [mkCand n (p_inst p) (p_ts p)] else []
                     | None => []
                     end) names.

Definition bucket_cands (parse : parser) (prefix : bytes) (bucket : list name) : list cand :=
  cands_of parse (blob_list prefix bucket).

Definition is_cand (parse : parser) (prefix : bytes) (bucket : list name) (n : name) : Prop :=
  In n bucket /\ has_prefix prefix n = true /\ exists p, parse n = Some p /\ p_snap p = true.

(* when the worker first saw [n], given the history LATEST FIRST: a name is being tracked while it
   is a candidate of every successful listing; it starts at the [now] of the run that first lists
   it and is forgotten by the first listing that does not contain it *)
Fixpoint first_seen_rev (parse : parser) (prefix : bytes) (hr : list event) (n : name) : option Z :=
  match hr with
  | [] => None
  | Run bucket now _ :: hr' =>
      if mem n (map c_name (bucket_cands parse prefix bucket)) then
        match first_seen_rev parse prefix hr' n with Some t => Some t | None => Some now end
      else None
  | _ :: hr' => first_seen_rev parse prefix hr' n
  end.
Definition first_seen (parse : parser) (prefix : bytes) (h : list event) (n : name) : option Z :=
  first_seen_rev parse prefix (rev h) n.

(* the value SetCommitted last recorded for an instance (history latest first) *)
Fixpoint last_committed_rev (hr : list event) (i : inst) : option Z :=
  match hr with
  | [] => None
  | SetCommitted m :: hr' =>
      match get (rev m) i with Some t => Some t | None => last_committed_rev hr' i end
  | _ :: hr' => last_committed_rev hr' i
  end.
Definition last_committed (h : list event) (i : inst) : Z :=
  match last_committed_rev (rev h) i with Some t => t | None => zero_time end.

Definition deleted_names (log : list bcall) : list name :=
  flat_map (fun c => match c with BDelete n _ => [n] | _ => [] end) log.
Definition deleted_ok_names (log : list bcall) : list name :=
  flat_map (fun c => match c with BDelete n true => [n] | _ => [] end) log.
Definition listed (log : list bcall) : list bytes :=
  flat_map (fun c => match c with BList p => [p] | _ => [] end) log.
Definition all_deletes_ok (log : list bcall) : bool :=
  forallb (fun c => match c with BDelete _ ok => ok | _ => true end) log.

(* the bucket after a run: the successfully deleted names are gone *)
Definition bucket_after (bucket : list name) (log : list bcall) : list name :=
  filter (fun n => negb (mem n (deleted_ok_names log))) bucket.

(* ---- hypotheses of C12_newest_protected, as boolean predicates ---- *)
Fixpoint nodupb (l : list bytes) : bool :=
  match l with
  | [] => true
  | x :: l' => negb (mem x l') && nodupb l'
  end.

(* timestamps are distinct per instance: two candidates of one instance with equal timestamps are
   the same name *)
Definition distinct_ts (cs : list cand) : bool :=
  forallb (fun a => forallb (fun b =>
    implb (beqb (c_inst a) (c_inst b) && (c_ts a =? c_ts b)) (beqb (c_name a) (c_name b))) cs) cs.

Definition le_opt (a b : option Z) : bool :=
  match a, b with Some x, Some y => x <=? y | _, _ => true end.

(* names of an instance appeared in timestamp order, at the run [Run bucket now _] after history
   [h]: an older snapshot of an instance has been tracked at least as long as a newer one *)
Definition in_order_at (parse : parser) (prefix : bytes) (h : list event) (bucket : list name) (now : Z) : bool :=
  let cs := bucket_cands parse prefix bucket in
  let fsn := first_seen parse prefix (h ++ [Run bucket now []]) in
  forallb (fun a => forallb (fun b =>
    implb (beqb (c_inst a) (c_inst b) && (c_ts a <? c_ts b))
          (le_opt (fsn (c_name a)) (fsn (c_name b)))) cs) cs.

(* the same for every run of a history *)
Fixpoint in_order_hist_aux (parse : parser) (prefix : bytes) (done todo : list event) : bool :=
  match todo with
  | [] => true
  | e :: todo' =>
      (match e with
       | Run bucket now _ => in_order_at parse prefix done bucket now
                             && nodupb bucket && distinct_ts (bucket_cands parse prefix bucket)
       | _ => true
       end) && in_order_hist_aux parse prefix (done ++ [e]) todo'
  end.
Definition in_order_hist (parse : parser) (prefix : bytes) (h : list event) : bool :=
  in_order_hist_aux parse prefix [] h.

Definition conf_ok (cf : conf) : Prop :=
  min_i64 <= cf_keep cf < max_i64 /\ min_i64 <= cf_rem cf.

(* a parse function given by a table, for concrete examples and the correspondence cases *)
Definition parse_tbl (tbl : list (name * pinfo)) : parser := fun n => get tbl n.
