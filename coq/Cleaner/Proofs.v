(* Cleaner/Proofs.v — proofs about Cleaner/Model.v (property C12). *)
From LS Require Import Base.Bytes Base.BytesProofs Cleaner.Model.
From Coq Require Import Permutation Sorted.
Open Scope Z_scope.

(* ---------- association lists ---------- *)

Lemma mem_In x l : mem x l = true <-> In x l.
Proof.
  induction l as [|y l IH]; simpl; [split; [discriminate|tauto]|].
  rewrite orb_true_iff, IH, beqb_eq. split; intros [H|H]; auto.
Qed.

Lemma mem_false x l : mem x l = false <-> ~ In x l.
Proof. rewrite <- mem_In. destruct (mem x l); split; congruence. Qed.

Lemma mem_ext x l l' : (forall y, In y l <-> In y l') -> mem x l = mem x l'.
Proof.
  intros H. destruct (mem x l') eqn:E.
  - apply mem_In, H, mem_In, E.
  - apply mem_false. intros HI. apply H, mem_In in HI. congruence.
Qed.

Lemma get_set {V} (m : list (bytes * V)) k v k' :
  get (set m k v) k' = if beqb k' k then Some v else get m k'.
Proof. reflexivity. Qed.

Lemma get_prune {V} f (m : list (bytes * V)) k :
  get (prune f m) k = if f k then get m k else None.
Proof.
  induction m as [|[k' v] m IH]; simpl; [destruct (f k); reflexivity|].
  destruct (beqb k k') eqn:E.
  - apply beqb_eq in E. subst k'. destruct (f k) eqn:F; simpl.
    + rewrite beqb_refl. reflexivity.
    + exact IH.
  - destruct (f k') eqn:F'; simpl; [rewrite E|]; exact IH.
Qed.

Lemma get_In {V} (m : list (bytes * V)) k v : get m k = Some v -> In (k, v) m.
Proof.
  induction m as [|[k' v'] m IH]; simpl; [discriminate|].
  destruct (beqb k k') eqn:E; [apply beqb_eq in E; subst; intros [= ->]; auto|auto].
Qed.

(* ---------- time ---------- *)

Ltac dsub := unfold dur_sub, min_i64, max_i64 in *; cbv zeta;
  repeat match goal with |- context [?a <? ?b] => destruct (Z.ltb_spec a b) end; try lia.

Lemma dur_sub_gt a b d : min_i64 <= d -> d < dur_sub a b -> d < a - b.
Proof. intros Hd. dsub. Qed.

Lemma gt_dur_sub a b d : d < max_i64 -> d < a - b -> d < dur_sub a b.
Proof. intros Hd H. dsub. Qed.

Lemma dur_sub_mono a b b' : b <= b' -> dur_sub a b' <= dur_sub a b.
Proof. intros H. dsub. Qed.

(* ---------- scan ---------- *)

Definition ign_ok (parse : parser) (ign : list name) : Prop := forall n, In n ign -> parse n = None.

Lemma scan_cands_sound parse ign l c :
  In c (snd (scan parse ign l)) ->
  In (c_name c) l /\ exists p, parse (c_name c) = Some p /\ p_snap p = true /\ c_inst c = p_inst p /\ c_ts c = p_ts p.
Proof.
  revert ign. induction l as [|n l IH]; intros ign; simpl; [tauto|].
  destruct (mem n ign).
  { intros H. apply IH in H. tauto. }
  destruct (parse n) as [p|] eqn:P.
  2:{ intros H. apply IH in H. tauto. }
  destruct (p_snap p) eqn:S.
  2:{ intros H. apply IH in H. tauto. }
  destruct (scan parse ign l) as [ig cs] eqn:E. simpl. intros [<-|H].
  - simpl. split; [auto|]. exists p. auto.
  - specialize (IH ign). rewrite E in IH. apply IH in H. tauto.
Qed.

Lemma scan_spec parse ign l : ign_ok parse ign ->
  snd (scan parse ign l) = cands_of parse l /\ ign_ok parse (fst (scan parse ign l)).
Proof.
  revert ign. induction l as [|n l IH]; intros ign Hi; simpl; [auto|].
  destruct (mem n ign) eqn:M.
  { apply mem_In in M. rewrite (Hi _ M). simpl. apply IH, Hi. }
  destruct (parse n) as [p|] eqn:P.
  2:{ simpl. apply IH. intros x [<-|Hx]; auto. }
  destruct (p_snap p) eqn:S.
  2:{ simpl. apply IH, Hi. }
  destruct (scan parse ign l) as [ig cs] eqn:E. simpl.
  destruct (IH ign Hi) as [H1 H2]. rewrite E in H1, H2. simpl in H1, H2. subst cs. auto.
Qed.

Lemma cands_of_In parse l c :
  In c (cands_of parse l) <->
  In (c_name c) l /\ exists p, parse (c_name c) = Some p /\ p_snap p = true /\ c = mkCand (c_name c) (p_inst p) (p_ts p).
Proof.
  unfold cands_of. rewrite in_flat_map. split.
  - intros (n & Hn & H). destruct (parse n) as [p|] eqn:P; [|destruct H].
    destruct (p_snap p) eqn:S; [|destruct H]. destruct H as [<-|[]]. simpl. split; [exact Hn|].
    exists p. auto.
  - intros (Hn & p & P & S & E). exists (c_name c). split; [exact Hn|]. rewrite P, S. left. auto.
Qed.

Lemma cands_of_names_sub parse l : exists f, map c_name (cands_of parse l) = filter f l.
Proof.
  exists (fun n => match parse n with Some p => p_snap p | None => false end).
  induction l as [|n l IH]; simpl; [reflexivity|].
  destruct (parse n) as [p|]; [destruct (p_snap p)|]; simpl; rewrite ?IH; reflexivity.
Qed.

Lemma NoDup_filter {A} (f : A -> bool) l : NoDup l -> NoDup (filter f l).
Proof.
  induction 1 as [|x l Hx Hl IH]; simpl; [constructor|].
  destruct (f x); [constructor; [rewrite filter_In; tauto|exact IH]|exact IH].
Qed.

Lemma nodupb_NoDup l : nodupb l = true <-> NoDup l.
Proof.
  induction l as [|x l IH]; simpl; [split; [constructor|reflexivity]|].
  rewrite andb_true_iff, negb_true_iff, mem_false, IH. split.
  - intros [H1 H2]. constructor; assumption.
  - inversion 1; auto.
Qed.

Lemma cands_names_nodup parse l : NoDup l -> NoDup (map c_name (cands_of parse l)).
Proof. intros H. destruct (cands_of_names_sub parse l) as [f ->]. apply NoDup_filter, H. Qed.

(* equal names => equal candidates (a candidate is determined by its name through parse) *)
Lemma cands_of_inj parse l a b :
  In a (cands_of parse l) -> In b (cands_of parse l) -> c_name a = c_name b -> a = b.
Proof.
  rewrite !cands_of_In. intros (_ & p & P & _ & ->) (_ & q & Q & _ & ->). simpl. intros E.
  rewrite E in P. rewrite P in Q. injection Q as <-. rewrite E. reflexivity.
Qed.

(* ---------- sort ---------- *)

Definition newer_eq (a b : cand) : Prop := c_ts b <= c_ts a.
Definition newest_first (l : list cand) : Prop := StronglySorted newer_eq l.

Lemma insert_perm c l : Permutation (c :: l) (insert_newest c l).
Proof.
  induction l as [|d l IH]; simpl; [reflexivity|].
  destruct (c_ts c <? c_ts d); [|reflexivity].
  rewrite perm_swap. apply perm_skip, IH.
Qed.

Lemma sort_perm l : Permutation l (sort_newest_first l).
Proof.
  induction l as [|c l IH]; simpl; [constructor|].
  rewrite <- insert_perm. apply perm_skip, IH.
Qed.

Lemma insert_sorted c l : newest_first l -> newest_first (insert_newest c l).
Proof.
  induction 1 as [|d l Hl IH Hd]; simpl; [repeat constructor|].
  destruct (c_ts c <? c_ts d) eqn:E.
  - constructor; [exact IH|]. rewrite <- insert_perm. constructor; [unfold newer_eq; lia|exact Hd].
  - constructor; [constructor; assumption|]. constructor; [unfold newer_eq; lia|].
    eapply Forall_impl; [|exact Hd]. unfold newer_eq. intros; lia.
Qed.

Lemma sort_sorted l : newest_first (sort_newest_first l).
Proof. induction l as [|c l IH]; simpl; [constructor|apply insert_sorted, IH]. Qed.

(* ---------- first filter ---------- *)

Definition is_old (now keep : Z) (fs : list (name * Z)) (c : cand) : bool :=
  match get fs (c_name c) with Some t => keep <? dur_sub now t | None => false end.
Definition is_young (now keep : Z) (fs : list (name * Z)) (c : cand) : bool :=
  match get fs (c_name c) with Some t => dur_sub now t <=? keep | None => false end.

(* the first-seen map after the filter: existing entries kept, every listed candidate entered *)
Lemma filter1_fs now keep l : forall fs marks k,
  get (fst (fst (filter1 now keep fs marks l))) k =
  match get fs k with Some t => Some t | None => if mem k (map c_name l) then Some now else None end.
Proof.
  induction l as [|c l IH]; intros fs marks k; simpl.
  { destruct (get fs k); reflexivity. }
  destruct (get fs (c_name c)) as [t|] eqn:G.
  - assert (R : match get fs k with Some t0 => Some t0
                | None => if beqb k (c_name c) || mem k (map c_name l) then Some now else None end
              = match get fs k with Some t0 => Some t0
                | None => if mem k (map c_name l) then Some now else None end).
    { destruct (get fs k) eqn:Gk; [reflexivity|]. destruct (beqb k (c_name c)) eqn:B; [|reflexivity].
      apply beqb_eq in B. subst k. congruence. }
    rewrite R. destruct (dur_sub now t <=? keep).
    + apply IH.
    + specialize (IH fs marks k). destruct (filter1 now keep fs marks l) as [[fs' m'] r]. exact IH.
  - rewrite IH, get_set. destruct (beqb k (c_name c)) eqn:B; simpl.
    + apply beqb_eq in B. subst k. rewrite G. reflexivity.
    + reflexivity.
Qed.

Lemma get_set_other {V} (fs : list (bytes * V)) n v k : k <> n -> get (set fs n v) k = get fs k.
Proof. intros H. rewrite get_set. apply beqb_false in H. rewrite H. reflexivity. Qed.

Lemma filter1_rc now keep l : forall fs marks, NoDup (map c_name l) ->
  snd (filter1 now keep fs marks l) = filter (is_old now keep fs) l.
Proof.
  induction l as [|c l IH]; intros fs marks Hnd; simpl; [reflexivity|].
  inversion Hnd as [|x xs Hx Hnd']; subst.
  unfold is_old at 1. destruct (get fs (c_name c)) as [t|] eqn:G.
  - destruct (Z.leb_spec (dur_sub now t) keep) as [L|L].
    + assert (keep <? dur_sub now t = false) as -> by lia. apply IH, Hnd'.
    + assert (keep <? dur_sub now t = true) as -> by lia.
      specialize (IH fs marks Hnd'). destruct (filter1 now keep fs marks l) as [[fs' m'] r].
      simpl in *. rewrite IH. reflexivity.
  - rewrite IH by exact Hnd'. apply filter_ext_in. intros a Ha. unfold is_old.
    rewrite get_set_other; [reflexivity|]. intros E. apply Hx. rewrite <- E. apply in_map, Ha.
Qed.

Lemma filter1_marks now keep l : forall fs marks i, NoDup (map c_name l) ->
  In i (snd (fst (filter1 now keep fs marks l))) <->
  In i marks \/ exists c, In c l /\ c_inst c = i /\ is_young now keep fs c = true.
Proof.
  induction l as [|c l IH]; intros fs marks i Hnd; simpl.
  { split; [auto|]. intros [H|(c & [] & _)]. exact H. }
  inversion Hnd as [|x xs Hx Hnd']; subst.
  destruct (get fs (c_name c)) as [t|] eqn:G.
  - destruct (dur_sub now t <=? keep) eqn:L.
    + rewrite IH by exact Hnd'. simpl. split.
      * intros [[<-|H]|(a & Ha & Hi & Hy)].
        -- right. exists c. split; [auto|]. split; [reflexivity|]. unfold is_young. rewrite G. exact L.
        -- auto.
        -- right. exists a. auto.
      * intros [H|(a & [<-|Ha] & Hi & Hy)]; [auto|auto|]. right. exists a. auto.
    + specialize (IH fs marks i Hnd'). destruct (filter1 now keep fs marks l) as [[fs' m'] r].
      simpl in *. rewrite IH. split.
      * intros [H|(a & Ha & Hi & Hy)]; [auto|]. right. exists a. auto.
      * intros [H|(a & [<-|Ha] & Hi & Hy)]; [auto| |].
        -- unfold is_young in Hy. rewrite G, L in Hy. discriminate.
        -- right. exists a. auto.
  - rewrite IH by exact Hnd'.
    assert (Hext : forall a, In a l -> is_young now keep (set fs (c_name c) now) a = is_young now keep fs a).
    { intros a Ha. unfold is_young. rewrite get_set_other; [reflexivity|].
      intros E. apply Hx. rewrite <- E. apply in_map, Ha. }
    split.
    * intros [H|(a & Ha & Hi & Hy)]; [auto|]. right. exists a. rewrite Hext in Hy by exact Ha. auto.
    * intros [H|(a & [<-|Ha] & Hi & Hy)]; [auto| |].
      -- unfold is_young in Hy. rewrite G in Hy. discriminate.
      -- right. exists a. rewrite Hext by exact Ha. auto.
Qed.

(* ---------- second filter ---------- *)

Lemma filter2_del_sub now rem l : forall marks c, In c (fst (filter2 now rem marks l)) -> In c l.
Proof.
  induction l as [|a l IH]; intros marks c; simpl; [tauto|].
  destruct (mem (c_inst a) marks).
  - specialize (IH marks c). destruct (filter2 now rem marks l) as [d t]. simpl in *. intros [H|H]; auto.
  - specialize (IH (c_inst a :: marks) c). destruct (filter2 now rem (c_inst a :: marks) l) as [d t].
    simpl in *. auto.
Qed.

Lemma filter2_too now rem l : forall marks c, In c (snd (filter2 now rem marks l)) ->
  In c l /\ rem < dur_sub now (c_ts c).
Proof.
  induction l as [|a l IH]; intros marks c; simpl; [tauto|].
  destruct (mem (c_inst a) marks).
  - specialize (IH marks c). destruct (filter2 now rem marks l) as [d t]. simpl in *. intros H. apply IH in H. tauto.
  - specialize (IH (c_inst a :: marks) c). destruct (filter2 now rem (c_inst a :: marks) l) as [d t].
    simpl in *. destruct (Z.ltb_spec rem (dur_sub now (c_ts a))) as [L|L].
    + intros [<-|H]; [auto|]. apply IH in H. tauto.
    + intros H. apply IH in H. tauto.
Qed.

(* a candidate of a marked instance is always a removal candidate *)
Lemma filter2_marked now rem l : forall marks c, In c l -> In (c_inst c) marks ->
  In c (fst (filter2 now rem marks l)).
Proof.
  induction l as [|a l IH]; intros marks c; simpl; [tauto|].
  intros [<-|Hc] Hm.
  - apply mem_In in Hm. rewrite Hm. destruct (filter2 now rem marks l). simpl. auto.
  - destruct (mem (c_inst a) marks).
    + specialize (IH marks c Hc Hm). destruct (filter2 now rem marks l). simpl in *. auto.
    + specialize (IH (c_inst a :: marks) c Hc (or_intror Hm)).
      destruct (filter2 now rem (c_inst a :: marks) l). simpl in *. auto.
Qed.

(* per instance at most one candidate survives the second filter *)
Lemma filter2_one_kept now rem l : forall marks c1 c2,
  In c1 l -> In c2 l -> c_inst c1 = c_inst c2 ->
  ~ In c1 (fst (filter2 now rem marks l)) -> ~ In c2 (fst (filter2 now rem marks l)) -> c1 = c2.
Proof.
  induction l as [|a l IH]; intros marks c1 c2; simpl; [tauto|].
  destruct (mem (c_inst a) marks) eqn:M.
  - specialize (IH marks c1 c2). destruct (filter2 now rem marks l) as [d t]. simpl in *.
    intros [<-|H1] [<-|H2] Hi N1 N2; try tauto; apply IH; tauto.
  - pose proof (filter2_marked now rem l (c_inst a :: marks)) as Hm.
    specialize (IH (c_inst a :: marks) c1 c2).
    destruct (filter2 now rem (c_inst a :: marks) l) as [d t]. simpl in *.
    intros [<-|H1] [<-|H2] Hi N1 N2.
    + reflexivity.
    + exfalso. apply N2. apply Hm; [exact H2|]. left. exact Hi.
    + exfalso. apply N1. apply Hm; [exact H1|]. left. symmetry. exact Hi.
    + apply IH; assumption.
Qed.

(* why a candidate became a removal candidate: its instance was marked by the first filter, or a
   different candidate of the same instance precedes it in the newest-first order *)
Lemma filter2_del_why now rem l : forall marks c, newest_first l -> NoDup l ->
  In c (fst (filter2 now rem marks l)) ->
  In (c_inst c) marks \/ exists m, In m l /\ c_inst m = c_inst c /\ c_ts c <= c_ts m /\ m <> c.
Proof.
  induction l as [|a l IH]; intros marks c Hs Hnd; simpl; [tauto|].
  inversion Hs as [|a' l' Hs' Ha]; subst. inversion Hnd as [|a' l' Hna Hnd']; subst.
  destruct (mem (c_inst a) marks) eqn:M.
  - specialize (IH marks c Hs' Hnd'). destruct (filter2 now rem marks l) as [d t]. simpl in *.
    intros [<-|H].
    + left. apply mem_In, M.
    + destruct (IH H) as [H1|(m & Hm & H2)]; [auto|]. right. exists m. auto.
  - pose proof (filter2_del_sub now rem l (c_inst a :: marks) c) as Hsub.
    specialize (IH (c_inst a :: marks) c Hs' Hnd').
    destruct (filter2 now rem (c_inst a :: marks) l) as [d t]. simpl in *.
    intros H. destruct (IH H) as [[E|H1]|(m & Hm & H2)].
    + right. exists a. split; [auto|]. split; [exact E|]. specialize (Hsub H).
      rewrite Forall_forall in Ha. split; [apply Ha, Hsub|]. intros ->. exact (Hna Hsub).
    + auto.
    + right. exists m. auto.
Qed.

(* and conversely (used to show the result does not depend on the sorting algorithm) *)
Lemma filter2_del_if now rem l : forall marks c, newest_first l -> In c l ->
  (In (c_inst c) marks \/ exists m, In m l /\ c_inst m = c_inst c /\ c_ts c < c_ts m) ->
  In c (fst (filter2 now rem marks l)).
Proof.
  induction l as [|a l IH]; intros marks c Hs; simpl; [tauto|].
  inversion Hs as [|a' l' Hs' Ha]; subst. rewrite Forall_forall in Ha.
  intros Hc Hw. destruct (mem (c_inst a) marks) eqn:M.
  - specialize (IH marks c Hs'). destruct (filter2 now rem marks l) as [d t]. simpl in *.
    destruct Hc as [<-|Hc]; [auto|]. right. apply IH; [exact Hc|].
    destruct Hw as [H|(m & [<-|Hm] & Hi & Ht)]; [auto| |].
    + left. rewrite <- Hi. apply mem_In, M.
    + right. exists m. auto.
  - specialize (IH (c_inst a :: marks) c Hs').
    destruct (filter2 now rem (c_inst a :: marks) l) as [d t]. simpl in *.
    destruct Hc as [<-|Hc].
    + exfalso. destruct Hw as [H|(m & [<-|Hm] & Hi & Ht)].
      * apply mem_In in H. congruence.
      * lia.
      * specialize (Ha _ Hm). unfold newer_eq in Ha. lia.
    + apply IH; [exact Hc|]. destruct Hw as [H|(m & [<-|Hm] & Hi & Ht)]; [auto|auto|].
      right. exists m. auto.
Qed.

Lemma filter2_too_not_del now rem l : forall marks c, NoDup l ->
  In c (snd (filter2 now rem marks l)) -> ~ In c (fst (filter2 now rem marks l)).
Proof.
  induction l as [|a l IH]; intros marks c Hnd; simpl; [tauto|].
  inversion Hnd as [|a' l' Hna Hnd']; subst.
  destruct (mem (c_inst a) marks).
  - pose proof (filter2_too now rem l marks c) as Hsub. specialize (IH marks c Hnd').
    destruct (filter2 now rem marks l) as [d t]. simpl in *.
    intros Ht [<-|Hd]; [|tauto]. apply Hna. apply Hsub, Ht.
  - pose proof (filter2_del_sub now rem l (c_inst a :: marks) c) as Hsub.
    specialize (IH (c_inst a :: marks) c Hnd').
    destruct (filter2 now rem (c_inst a :: marks) l) as [d t]. simpl in *.
    destruct (rem <? dur_sub now (c_ts a)); [|exact IH].
    intros [<-|Ht]; [|auto]. intros Hd. apply Hna, Hsub, Hd.
Qed.

Lemma filter2_too_if now rem l : forall marks c, In c l ->
  ~ In c (fst (filter2 now rem marks l)) -> rem < dur_sub now (c_ts c) ->
  In c (snd (filter2 now rem marks l)).
Proof.
  induction l as [|a l IH]; intros marks c; simpl; [tauto|].
  destruct (mem (c_inst a) marks).
  - specialize (IH marks c). destruct (filter2 now rem marks l) as [d t]. simpl in *.
    intros [<-|Hc] Hn Hr; [tauto|]. apply IH; tauto.
  - specialize (IH (c_inst a :: marks) c). destruct (filter2 now rem (c_inst a :: marks) l) as [d t].
    simpl in *. intros [<-|Hc] Hn Hr.
    + destruct (Z.ltb_spec rem (dur_sub now (c_ts a))); [left; reflexivity|lia].
    + destruct (rem <? dur_sub now (c_ts a)); [right|]; apply IH; tauto.
Qed.

(* ---------- one run, from the sort on ---------- *)

Definition rc_of (cf : conf) fs1 sorted now := snd (filter1 now (cf_keep cf) fs1 [] sorted).
Definition marks_of (cf : conf) fs1 sorted now := snd (fst (filter1 now (cf_keep cf) fs1 [] sorted)).
Definition fs2_of (cf : conf) fs1 sorted now := fst (fst (filter1 now (cf_keep cf) fs1 [] sorted)).
Definition rc2_of cf fs1 sorted now :=
  fst (filter2 now (cf_rem cf) (marks_of cf fs1 sorted now) (rc_of cf fs1 sorted now)).
Definition too_of cf fs1 sorted now :=
  snd (filter2 now (cf_rem cf) (marks_of cf fs1 sorted now) (rc_of cf fs1 sorted now)).
Definition del_names cf committed fs1 sorted now : list name :=
  map c_name (rc2_of cf fs1 sorted now) ++ map c_name (filter (stale_deletable committed) (too_of cf fs1 sorted now)).

Lemma run_core_eq cf committed fs1 sorted now df :
  run_core cf committed fs1 sorted now df =
  (fs2_of cf fs1 sorted now, deletes df (del_names cf committed fs1 sorted now)).
Proof.
  unfold run_core, del_names, rc2_of, too_of, marks_of, rc_of, fs2_of.
  destruct (filter1 now (cf_keep cf) fs1 [] sorted) as [[a b] c]. simpl.
  destruct (filter2 now (cf_rem cf) b c) as [d t]. reflexivity.
Qed.

Lemma deletes_names df l : map fst (deletes df l) = l.
Proof. unfold deletes. rewrite map_map. simpl. apply map_id. Qed.

Lemma NoDup_map_inj {A B} (f : A -> B) l a b :
  NoDup (map f l) -> In a l -> In b l -> f a = f b -> a = b.
Proof.
  induction l as [|x l IH]; simpl; [tauto|]. intros Hnd. inversion Hnd as [|y ys Hx Hnd']; subst.
  intros [<-|Ha] [<-|Hb] E; auto.
  - exfalso. apply Hx. rewrite E. apply in_map, Hb.
  - exfalso. apply Hx. rewrite <- E. apply in_map, Ha.
Qed.

Lemma NoDup_of_map {A B} (f : A -> B) l : NoDup (map f l) -> NoDup l.
Proof.
  induction l as [|x l IH]; simpl; intros H; [constructor|]. inversion H; subst.
  constructor; [|auto]. intros Hx. apply H2. apply in_map, Hx.
Qed.

Lemma filter_sorted {A} (R : A -> A -> Prop) f l : StronglySorted R l -> StronglySorted R (filter f l).
Proof.
  induction 1 as [|a l Hl IH Ha]; simpl; [constructor|].
  destruct (f a); [|exact IH]. constructor; [exact IH|].
  rewrite Forall_forall in *. intros x Hx. apply filter_In in Hx. apply Ha. tauto.
Qed.

Lemma filter1_rc_sub now keep l : forall fs marks c, In c (snd (filter1 now keep fs marks l)) -> In c l.
Proof.
  induction l as [|a l IH]; intros fs marks c; simpl; [tauto|].
  destruct (get fs (c_name a)) as [t|].
  - destruct (dur_sub now t <=? keep).
    + intros H. apply IH in H. auto.
    + specialize (IH fs marks c). destruct (filter1 now keep fs marks l) as [[fs' m'] r]. simpl in *.
      intros [H|H]; auto.
  - intros H. apply IH in H. auto.
Qed.

(* no hypothesis at all: whatever is handed to Delete is the name of a sorted candidate *)
Lemma del_names_sub cf committed fs1 sorted now n :
  In n (del_names cf committed fs1 sorted now) -> exists c, In c sorted /\ c_name c = n.
Proof.
  unfold del_names. rewrite in_app_iff, !in_map_iff. intros [(c & <- & Hc)|(c & <- & Hc)].
  - exists c. split; [|reflexivity]. apply filter2_del_sub in Hc. eapply filter1_rc_sub, Hc.
  - exists c. split; [|reflexivity]. apply filter_In in Hc. destruct Hc as [Hc _].
    apply filter2_too in Hc. eapply filter1_rc_sub, (proj1 Hc).
Qed.

Section Core.
  Variables (cf : conf) (committed : cmap) (fs1 : list (name * Z)) (cands sorted : list cand) (now : Z).
  Hypothesis Hperm : Permutation cands sorted.
  Hypothesis Hsorted : newest_first sorted.
  Hypothesis Hnd : NoDup (map c_name cands).

  Let keep := cf_keep cf.
  Let rem := cf_rem cf.

  Lemma Hnd_sorted : NoDup (map c_name sorted).
  Proof. eapply Permutation_NoDup; [apply Permutation_map, Hperm|exact Hnd]. Qed.

  Lemma in_sorted c : In c sorted <-> In c cands.
  Proof. split; apply Permutation_in; [symmetry|]; exact Hperm. Qed.

  Lemma rc_eq : rc_of cf fs1 sorted now = filter (is_old now keep fs1) sorted.
  Proof. unfold rc_of. apply filter1_rc, Hnd_sorted. Qed.

  Lemma rc_In c : In c (rc_of cf fs1 sorted now) <-> In c cands /\ is_old now keep fs1 c = true.
  Proof. rewrite rc_eq, filter_In, in_sorted. tauto. Qed.

  Lemma marks_In i : In i (marks_of cf fs1 sorted now) <->
    exists y, In y cands /\ c_inst y = i /\ is_young now keep fs1 y = true.
  Proof.
    unfold marks_of. rewrite filter1_marks by apply Hnd_sorted. simpl. split.
    - intros [[]|(y & Hy & H)]. exists y. rewrite <- in_sorted. auto.
    - intros (y & Hy & H). right. exists y. rewrite in_sorted. auto.
  Qed.

  Lemma rc_sorted : newest_first (rc_of cf fs1 sorted now).
  Proof. rewrite rc_eq. apply filter_sorted, Hsorted. Qed.

  Lemma rc_nodup : NoDup (rc_of cf fs1 sorted now).
  Proof. rewrite rc_eq. apply NoDup_filter. eapply NoDup_of_map, Hnd_sorted. Qed.

  (* every name handed to Delete belongs to a candidate that passed the first filter *)
  Lemma del_names_why n : In n (del_names cf committed fs1 sorted now) ->
    exists c, c_name c = n /\ In c cands /\ is_old now keep fs1 c = true /\
      (In c (rc2_of cf fs1 sorted now) \/
       (In c (too_of cf fs1 sorted now) /\ rem < dur_sub now (c_ts c) /\
        c_ts c <= get_committed committed (c_inst c))).
  Proof.
    unfold del_names. rewrite in_app_iff, !in_map_iff. intros [(c & <- & Hc)|(c & <- & Hc)].
    - exists c. pose proof (filter2_del_sub _ _ _ _ _ Hc) as Hrc. apply rc_In in Hrc. tauto.
    - apply filter_In in Hc. destruct Hc as [Hc Hst]. exists c.
      destruct (filter2_too _ _ _ _ _ Hc) as [Hrc Hr]. apply rc_In in Hrc.
      unfold stale_deletable in Hst. apply negb_true_iff in Hst.
      destruct (Z.ltb_spec (get_committed committed (c_inst c)) (c_ts c)); [discriminate|].
      split; [reflexivity|]. split; [tauto|]. split; [tauto|]. right. auto.
  Qed.

  Lemma core_keep n : In n (del_names cf committed fs1 sorted now) ->
    exists t, get fs1 n = Some t /\ keep < dur_sub now t.
  Proof.
    intros H. destruct (del_names_why n H) as (c & <- & _ & Ho & _). unfold is_old in Ho.
    destruct (get fs1 (c_name c)) as [t|]; [|discriminate]. exists t. split; [reflexivity|]. lia.
  Qed.

  Lemma core_cand n : In n (del_names cf committed fs1 sorted now) -> exists c, In c cands /\ c_name c = n.
  Proof. intros H. destruct (del_names_why n H) as (c & <- & Hc & _). eauto. Qed.

  (* the newest candidate of an instance is deleted only through the stale list *)
  Lemma core_newest c :
    (forall a b, In a cands -> In b cands -> c_inst a = c_inst b -> c_ts a = c_ts b -> a = b) ->
    In c cands ->
    (forall m, In m cands -> c_inst m = c_inst c -> c_ts m <= c_ts c) ->
    (forall y ty tc, In y cands -> c_inst y = c_inst c -> c_ts y < c_ts c ->
       get fs1 (c_name y) = Some ty -> get fs1 (c_name c) = Some tc -> ty <= tc) ->
    In (c_name c) (del_names cf committed fs1 sorted now) ->
    rem < dur_sub now (c_ts c) /\ c_ts c <= get_committed committed (c_inst c).
  Proof.
    intros Hdist Hc Hnew Hord Hdel.
    destruct (del_names_why _ Hdel) as (c' & En & Hc' & Hold & Hw).
    assert (c' = c) as -> by (eapply NoDup_map_inj; eauto). clear En Hc'.
    destruct Hw as [H2|H2]; [exfalso|tauto].
    apply filter2_del_why in H2; [|apply rc_sorted|apply rc_nodup].
    destruct H2 as [Hm|(m & Hm & Hi & Ht & Hne)].
    - apply marks_In in Hm. destruct Hm as (y & Hy & Hi & Hyoung).
      assert (Hyc : y <> c). { intros ->. unfold is_old, is_young in *. destruct (get fs1 (c_name c)); [lia|discriminate]. }
      assert (Hlt : c_ts y < c_ts c).
      { specialize (Hnew y Hy Hi). destruct (Z.eq_dec (c_ts y) (c_ts c)) as [E|E]; [|lia].
        exfalso. apply Hyc. apply Hdist; auto. }
      unfold is_old, is_young in *.
      destruct (get fs1 (c_name y)) as [ty|] eqn:Gy; [|discriminate].
      destruct (get fs1 (c_name c)) as [tc|] eqn:Gc; [|discriminate].
      specialize (Hord y ty tc Hy Hi Hlt Gy eq_refl).
      pose proof (dur_sub_mono now ty tc Hord). fold keep in Hyoung, Hold. lia.
    - apply rc_In in Hm. destruct Hm as [Hm _]. specialize (Hnew m Hm Hi).
      apply Hne. apply Hdist; auto. lia.
  Qed.

  (* per instance at most one candidate that is past the keep interval is not handed to Delete *)
  Lemma core_bounded c1 c2 :
    In c1 cands -> In c2 cands -> c_inst c1 = c_inst c2 ->
    is_old now keep fs1 c1 = true -> is_old now keep fs1 c2 = true ->
    ~ In (c_name c1) (del_names cf committed fs1 sorted now) ->
    ~ In (c_name c2) (del_names cf committed fs1 sorted now) -> c1 = c2.
  Proof.
    intros H1 H2 Hi O1 O2 N1 N2.
    eapply (filter2_one_kept now rem (rc_of cf fs1 sorted now) (marks_of cf fs1 sorted now)).
    - apply rc_In. auto.
    - apply rc_In. auto.
    - exact Hi.
    - intros H. apply N1. unfold del_names. apply in_app_iff. left. apply in_map. exact H.
    - intros H. apply N2. unfold del_names. apply in_app_iff. left. apply in_map. exact H.
  Qed.

  (* order-free description of the decision, valid when timestamps are distinct per instance *)
  Definition superseded (c : cand) : Prop :=
    (exists y, In y cands /\ c_inst y = c_inst c /\ is_young now keep fs1 y = true) \/
    (exists m, In m cands /\ c_inst m = c_inst c /\ is_old now keep fs1 m = true /\ c_ts c < c_ts m).

  Lemma rc2_iff c :
    (forall a b, In a cands -> In b cands -> c_inst a = c_inst b -> c_ts a = c_ts b -> a = b) ->
    (In c (rc2_of cf fs1 sorted now) <-> In c cands /\ is_old now keep fs1 c = true /\ superseded c).
  Proof.
    intros Hdist. unfold rc2_of. split.
    - intros H. pose proof (filter2_del_sub _ _ _ _ _ H) as Hrc. apply rc_In in Hrc.
      split; [tauto|]. split; [tauto|].
      apply filter2_del_why in H; [|apply rc_sorted|apply rc_nodup].
      destruct H as [Hm|(m & Hm & Hi & Ht & Hne)].
      + left. apply marks_In in Hm. destruct Hm as (y & Hy). exists y. tauto.
      + right. apply rc_In in Hm. exists m. split; [tauto|]. split; [exact Hi|]. split; [tauto|].
        destruct (Z.eq_dec (c_ts c) (c_ts m)) as [E|E]; [|lia]. exfalso. apply Hne. apply Hdist; [tauto|tauto|exact Hi|symmetry; exact E].
    - intros (Hc & Ho & Hs). apply filter2_del_if; [apply rc_sorted|apply rc_In; auto|].
      destruct Hs as [(y & Hy & Hi & Hyy)|(m & Hm & Hi & Hmo & Ht)].
      + left. apply marks_In. exists y. auto.
      + right. exists m. split; [apply rc_In; auto|]. auto.
  Qed.

  Definition should_delete (c : cand) : Prop :=
    In c cands /\ is_old now keep fs1 c = true /\
    (superseded c \/
     (~ superseded c /\ rem < dur_sub now (c_ts c) /\ c_ts c <= get_committed committed (c_inst c))).

  Lemma del_names_iff n :
    (forall a b, In a cands -> In b cands -> c_inst a = c_inst b -> c_ts a = c_ts b -> a = b) ->
    (In n (del_names cf committed fs1 sorted now) <-> exists c, c_name c = n /\ should_delete c).
  Proof.
    intros Hdist. unfold del_names. rewrite in_app_iff, !in_map_iff. split.
    - intros [(c & <- & Hc)|(c & <- & Hc)]; exists c; (split; [reflexivity|]).
      + apply (rc2_iff c Hdist) in Hc. unfold should_delete. tauto.
      + apply filter_In in Hc. destruct Hc as [Hc Hst].
        destruct (filter2_too _ _ _ _ _ Hc) as [Hrc Hr]. apply rc_In in Hrc.
        apply filter2_too_not_del in Hc; [|apply rc_nodup]. fold (rc2_of cf fs1 sorted now) in Hc.
        rewrite (rc2_iff c Hdist) in Hc.
        unfold stale_deletable in Hst. apply negb_true_iff in Hst.
        destruct (Z.ltb_spec (get_committed committed (c_inst c)) (c_ts c)); [discriminate|].
        unfold should_delete. split; [tauto|]. split; [tauto|]. right. split; [tauto|]. auto.
    - intros (c & <- & Hc & Ho & [Hs|(Hns & Hr & Hcm)]).
      + left. exists c. split; [reflexivity|]. apply (rc2_iff c Hdist). auto.
      + right. exists c. split; [reflexivity|]. apply filter_In. split.
        * apply filter2_too_if; [apply rc_In; auto| |exact Hr].
          fold (rc2_of cf fs1 sorted now). rewrite (rc2_iff c Hdist). tauto.
        * unfold stale_deletable. apply negb_true_iff. apply Z.ltb_ge. exact Hcm.
  Qed.

  Lemma fs2_get k : get (fs2_of cf fs1 sorted now) k =
    match get fs1 k with Some t => Some t | None => if mem k (map c_name cands) then Some now else None end.
  Proof.
    unfold fs2_of. rewrite filter1_fs.
    rewrite (mem_ext k (map c_name sorted) (map c_name cands)); [reflexivity|].
    intros y. split; apply Permutation_in, Permutation_map; [symmetry|]; exact Hperm.
  Qed.
End Core.

(* the set of names handed to Delete does not depend on HOW the candidates were sorted: any two
   newest-first arrangements give the same set, when timestamps are distinct per instance
   (slices.SortFunc is not stable; ties between different instances do not matter) *)
Theorem core_any_sort cf committed fs1 cands s1 s2 now :
  Permutation cands s1 -> newest_first s1 -> Permutation cands s2 -> newest_first s2 ->
  NoDup (map c_name cands) ->
  (forall a b, In a cands -> In b cands -> c_inst a = c_inst b -> c_ts a = c_ts b -> a = b) ->
  forall n, In n (del_names cf committed fs1 s1 now) <-> In n (del_names cf committed fs1 s2 now).
Proof.
  intros P1 S1 P2 S2 Hnd Hdist n.
  rewrite (del_names_iff cf committed fs1 cands s1 now P1 S1 Hnd n Hdist).
  rewrite (del_names_iff cf committed fs1 cands s2 now P2 S2 Hnd n Hdist). reflexivity.
Qed.

(* ---------- one event ---------- *)

Lemma deleted_names_of_deletes p dels :
  deleted_names (BList p :: map (fun d : name * bool => BDelete (fst d) (snd d)) dels) = map fst dels.
Proof. unfold deleted_names. simpl. induction dels as [|d l IH]; simpl; [reflexivity|]. rewrite IH. reflexivity. Qed.

Lemma get_app {V} (a b : list (bytes * V)) k :
  get (a ++ b) k = match get a k with Some v => Some v | None => get b k end.
Proof. induction a as [|[k' v] a IH]; simpl; [reflexivity|]. destruct (beqb k k'); [reflexivity|exact IH]. Qed.

Lemma get_set_committed c m i :
  get (set_committed c m) i = match get (rev m) i with Some v => Some v | None => get c i end.
Proof.
  unfold set_committed. revert c. induction m as [|[k v] m IH]; intros c; simpl; [reflexivity|].
  rewrite IH, get_app. destruct (get (rev m) i); [reflexivity|]. simpl.
  destruct (beqb i k); reflexivity.
Qed.

Section Hist.
  Variables (parse : parser) (prefix : bytes) (cf : conf).

  Notation stepf := (step parse prefix cf).
  Notation hstate := (hist_state parse prefix cf).

  Lemma hist_state_snoc h e : hstate (h ++ [e]) = fst (stepf (hstate h) e).
  Proof. unfold hist_state. rewrite fold_left_app. reflexivity. Qed.

  (* the pieces of a run *)
  Definition run_cands (ws : wstate) (bucket : list name) : list cand :=
    snd (scan parse (s_ignored (ws_st ws)) (blob_list prefix bucket)).
  Definition run_fs1 (ws : wstate) (bucket : list name) : list (name * Z) :=
    prune (fun n => mem n (map c_name (run_cands ws bucket))) (s_fs (ws_st ws)).
  Definition run_del_names (ws : wstate) (bucket : list name) (now : Z) : list name :=
    del_names cf (ws_committed ws) (run_fs1 ws bucket) (sort_newest_first (run_cands ws bucket)) now.

  Lemma step_run_eq ws bucket now df : cf_enabled cf = true ->
    stepf ws (Run bucket now df) =
    (mkWS (ws_committed ws)
          (mkSt (fst (scan parse (s_ignored (ws_st ws)) (blob_list prefix bucket)))
                (fs2_of cf (run_fs1 ws bucket) (sort_newest_first (run_cands ws bucket)) now)),
     BList prefix :: map (fun d : name * bool => BDelete (fst d) (snd d))
                         (deletes df (run_del_names ws bucket now))).
  Proof.
    intros He. unfold step, run_once, run_del_names, run_fs1, run_cands. rewrite He.
    destruct (scan parse (s_ignored (ws_st ws)) (blob_list prefix bucket)) as [ig cs]. simpl.
    rewrite run_core_eq. reflexivity.
  Qed.

  Lemma step_run_deleted ws bucket now df : cf_enabled cf = true ->
    deleted_names (snd (stepf ws (Run bucket now df))) = run_del_names ws bucket now.
  Proof. intros He. rewrite step_run_eq by exact He. simpl snd. rewrite deleted_names_of_deletes. apply deletes_names. Qed.

  Lemma step_disabled ws e : cf_enabled cf = false ->
    snd (stepf ws e) = [] /\ ws_st (fst (stepf ws e)) = ws_st ws.
  Proof. intros He. destruct e; simpl; rewrite ?He; auto. Qed.

  (* ---------- invariants of every history ---------- *)

  Definition inv (h : list event) (ws : wstate) : Prop :=
    ign_ok parse (s_ignored (ws_st ws)) /\
    (forall n, get (s_fs (ws_st ws)) n = first_seen parse prefix h n) /\
    (forall i, get_committed (ws_committed ws) i = last_committed h i).

  Lemma run_cands_spec ws bucket : ign_ok parse (s_ignored (ws_st ws)) ->
    run_cands ws bucket = bucket_cands parse prefix bucket.
  Proof. intros H. unfold run_cands, bucket_cands. apply scan_spec, H. Qed.

  Lemma inv_all h : cf_enabled cf = true -> inv h (hstate h).
  Proof.
    intros He. induction h as [|e h IH] using rev_ind.
    { split; [intros n []|]. split; reflexivity. }
    rewrite hist_state_snoc. destruct IH as (Hi & Hf & Hc). set (ws := hstate h) in *.
    unfold inv, first_seen, last_committed. rewrite rev_app_distr. simpl rev. simpl app.
    destruct e as [bucket now df| |m].
    - rewrite step_run_eq by exact He. simpl. split; [apply scan_spec, Hi|]. split.
      + intros n. rewrite (fs2_get cf _ _ _ _ (sort_perm _)). unfold run_fs1. rewrite get_prune.
        rewrite (run_cands_spec ws bucket Hi). rewrite Hf. unfold first_seen.
        destruct (mem n (map c_name (bucket_cands parse prefix bucket))); reflexivity.
      + exact Hc.
    - simpl. rewrite He. simpl. auto.
    - simpl. split; [exact Hi|]. split; [exact Hf|]. intros i.
      unfold get_committed. rewrite get_set_committed.
      destruct (get (rev m) i); [reflexivity|]. apply Hc.
  Qed.

  Lemma bucket_cands_is_cand bucket c : In c (bucket_cands parse prefix bucket) ->
    is_cand parse prefix bucket (c_name c).
  Proof.
    unfold bucket_cands, blob_list. rewrite cands_of_In, filter_In.
    intros ((Hb & Hp) & p & P & S & _). split; [exact Hb|]. split; [exact Hp|]. eauto.
  Qed.

  Lemma is_cand_bucket_cands bucket n : is_cand parse prefix bucket n ->
    exists c, In c (bucket_cands parse prefix bucket) /\ c_name c = n.
  Proof.
    intros (Hb & Hp & p & P & S). exists (mkCand n (p_inst p) (p_ts p)). split; [|reflexivity].
    unfold bucket_cands, blob_list. rewrite cands_of_In, filter_In. simpl. split; [auto|]. exists p. auto.
  Qed.

  Lemma bucket_cands_nodup bucket : NoDup bucket -> NoDup (map c_name (bucket_cands parse prefix bucket)).
  Proof. intros H. apply cands_names_nodup, NoDup_filter, H. Qed.

  (* ---------- the C12 statements ---------- *)

  (* deleted names are listed snapshot names of this database *)
  Theorem only_snapshots h bucket now df n :
    In n (deleted_names (snd (stepf (hstate h) (Run bucket now df)))) -> is_cand parse prefix bucket n.
  Proof.
    destruct (cf_enabled cf) eqn:He.
    2:{ rewrite (proj1 (step_disabled _ _ He)). intros []. }
    rewrite step_run_deleted by exact He. intros H.
    destruct (inv_all h He) as (Hi & _). unfold run_del_names in H.
    apply del_names_sub in H. destruct H as (c & Hc & <-).
    eapply Permutation_in in Hc; [|symmetry; apply sort_perm].
    rewrite run_cands_spec in Hc by exact Hi. apply bucket_cands_is_cand, Hc.
  Qed.

  Lemma run_nodup h bucket : cf_enabled cf = true -> NoDup bucket ->
    NoDup (map c_name (run_cands (hstate h) bucket)).
  Proof.
    intros He Hb. destruct (inv_all h He) as (Hi & _).
    rewrite run_cands_spec by exact Hi. apply bucket_cands_nodup, Hb.
  Qed.

  Lemma run_fs1_get h bucket n t : cf_enabled cf = true ->
    get (run_fs1 (hstate h) bucket) n = Some t -> first_seen parse prefix h n = Some t.
  Proof.
    intros He. destruct (inv_all h He) as (_ & Hf & _). unfold run_fs1. rewrite get_prune.
    destruct (mem n _); [|discriminate]. rewrite Hf. auto.
  Qed.

  Lemma run_fs1_get_cand h bucket c : cf_enabled cf = true ->
    In c (bucket_cands parse prefix bucket) ->
    get (run_fs1 (hstate h) bucket) (c_name c) = first_seen parse prefix h (c_name c).
  Proof.
    intros He Hc. destruct (inv_all h He) as (Hi & Hf & _). unfold run_fs1. rewrite get_prune.
    rewrite run_cands_spec by exact Hi.
    assert (mem (c_name c) (map c_name (bucket_cands parse prefix bucket)) = true) as ->
      by (apply mem_In, in_map, Hc). apply Hf.
  Qed.

  (* a deleted name was first seen by this worker more than MustKeepInterval before now *)
  Theorem keep_interval h bucket now df n :
    min_i64 <= cf_keep cf -> NoDup bucket ->
    In n (deleted_names (snd (stepf (hstate h) (Run bucket now df)))) ->
    exists t, first_seen parse prefix h n = Some t /\ cf_keep cf < now - t.
  Proof.
    intros Hk Hb. destruct (cf_enabled cf) eqn:He.
    2:{ rewrite (proj1 (step_disabled _ _ He)). intros []. }
    rewrite step_run_deleted by exact He. intros H. unfold run_del_names in H.
    apply (core_keep cf _ _ (run_cands (hstate h) bucket) _ now (sort_perm _) (run_nodup h bucket He Hb)) in H.
    destruct H as (t & G & Ht). exists t. split; [eapply run_fs1_get; eauto|].
    apply dur_sub_gt; assumption.
  Qed.

  Lemma distinct_ts_prop cs : distinct_ts cs = true ->
    forall a b, In a cs -> In b cs -> c_inst a = c_inst b -> c_ts a = c_ts b -> c_name a = c_name b.
  Proof.
    unfold distinct_ts. rewrite forallb_forall. intros H a b Ha Hb Hi Ht.
    specialize (H a Ha). rewrite forallb_forall in H. specialize (H b Hb).
    rewrite Hi, Ht, beqb_refl, Z.eqb_refl in H. simpl in H. apply beqb_eq, H.
  Qed.

  Lemma first_seen_snoc_run h bucket now df n :
    first_seen parse prefix (h ++ [Run bucket now df]) n =
    if mem n (map c_name (bucket_cands parse prefix bucket)) then
      match first_seen parse prefix h n with Some t => Some t | None => Some now end
    else None.
  Proof. unfold first_seen. rewrite rev_app_distr. reflexivity. Qed.

  Lemma in_order_at_prop h bucket now : in_order_at parse prefix h bucket now = true ->
    forall a b ta tb, In a (bucket_cands parse prefix bucket) -> In b (bucket_cands parse prefix bucket) ->
      c_inst a = c_inst b -> c_ts a < c_ts b ->
      first_seen parse prefix h (c_name a) = Some ta -> first_seen parse prefix h (c_name b) = Some tb ->
      ta <= tb.
  Proof.
    unfold in_order_at. rewrite forallb_forall. intros H a b ta tb Ha Hb Hi Ht Fa Fb.
    specialize (H a Ha). rewrite forallb_forall in H. specialize (H b Hb).
    rewrite !first_seen_snoc_run in H.
    assert (mem (c_name a) (map c_name (bucket_cands parse prefix bucket)) = true) as Ma by (apply mem_In, in_map, Ha).
    assert (mem (c_name b) (map c_name (bucket_cands parse prefix bucket)) = true) as Mb by (apply mem_In, in_map, Hb).
    rewrite Ma, Mb, Fa, Fb, Hi, beqb_refl in H. simpl in H.
    destruct (Z.ltb_spec (c_ts a) (c_ts b)); [|lia]. simpl in H. lia.
  Qed.

  (* the newest snapshot of an instance is deleted only when the instance has been silent longer
     than RemoveOldInstancesInterval AND the snapshot is not newer than what was committed *)
  Theorem newest_protected h bucket now df c :
    min_i64 <= cf_rem cf ->
    nodupb bucket = true ->
    distinct_ts (bucket_cands parse prefix bucket) = true ->
    in_order_at parse prefix h bucket now = true ->
    In c (bucket_cands parse prefix bucket) ->
    (forall m, In m (bucket_cands parse prefix bucket) -> c_inst m = c_inst c -> c_ts m <= c_ts c) ->
    In (c_name c) (deleted_names (snd (stepf (hstate h) (Run bucket now df)))) ->
    cf_rem cf < now - c_ts c /\ c_ts c <= last_committed h (c_inst c).
  Proof.
    intros Hr Hb Hd Ho Hc Hnew. destruct (cf_enabled cf) eqn:He.
    2:{ rewrite (proj1 (step_disabled _ _ He)). intros []. }
    apply nodupb_NoDup in Hb.
    rewrite step_run_deleted by exact He. intros H. unfold run_del_names in H.
    destruct (inv_all h He) as (Hi & Hf & Hcm).
    pose proof (run_cands_spec (hstate h) bucket Hi) as Ecs.
    eapply (core_newest cf _ _ (run_cands (hstate h) bucket) _ now (sort_perm _) (sort_sorted _)
              (run_nodup h bucket He Hb) c) in H.
    - destruct H as [H1 H2]. rewrite Hcm in H2. split; [apply dur_sub_gt; assumption|exact H2].
    - rewrite Ecs. intros a b Ha Hbb Hii Htt. eapply cands_of_inj; eauto.
      eapply distinct_ts_prop; eauto.
    - rewrite Ecs. exact Hc.
    - rewrite Ecs. exact Hnew.
    - rewrite Ecs. intros y ty tc Hy Hii Htt Gy Gc.
      eapply (in_order_at_prop h bucket now Ho y c); eauto; eapply run_fs1_get; eauto.
  Qed.

  Lemma all_ok_names log : all_deletes_ok log = true -> deleted_ok_names log = deleted_names log.
  Proof.
    unfold all_deletes_ok, deleted_ok_names, deleted_names.
    induction log as [|[p|n ok] log IH]; simpl; [reflexivity| |].
    - exact IH.
    - intros H. apply andb_true_iff in H. destruct H as [-> H]. rewrite IH by exact H. reflexivity.
  Qed.

  (* after a run whose deletes all succeed, per instance at most one snapshot that was first seen
     more than MustKeepInterval ago remains in the bucket *)
  Theorem bounded h bucket now df c1 c2 t1 t2 :
    cf_enabled cf = true -> cf_keep cf < max_i64 -> NoDup bucket ->
    let log := snd (stepf (hstate h) (Run bucket now df)) in
    all_deletes_ok log = true ->
    In c1 (bucket_cands parse prefix (bucket_after bucket log)) ->
    In c2 (bucket_cands parse prefix (bucket_after bucket log)) ->
    c_inst c1 = c_inst c2 ->
    first_seen parse prefix h (c_name c1) = Some t1 -> cf_keep cf < now - t1 ->
    first_seen parse prefix h (c_name c2) = Some t2 -> cf_keep cf < now - t2 ->
    c1 = c2.
  Proof.
    intros He Hk Hb log Hok H1 H2 Hi F1 K1 F2 K2.
    assert (Hsplit : forall c, In c (bucket_cands parse prefix (bucket_after bucket log)) ->
              In c (bucket_cands parse prefix bucket) /\ ~ In (c_name c) (deleted_names log)).
    { intros c. unfold bucket_cands, blob_list, bucket_after. rewrite !cands_of_In, !filter_In.
      rewrite (all_ok_names log Hok). intros (((Hin & Hm) & Hp) & Hq). split; [tauto|].
      apply negb_true_iff, mem_false in Hm. exact Hm. }
    destruct (Hsplit _ H1) as [C1 N1]. destruct (Hsplit _ H2) as [C2 N2].
    unfold log in N1, N2. rewrite step_run_deleted in N1, N2 by exact He. unfold run_del_names in N1, N2.
    destruct (inv_all h He) as (Hig & _).
    pose proof (run_cands_spec (hstate h) bucket Hig) as Ecs.
    eapply (core_bounded cf _ _ (run_cands (hstate h) bucket) _ now (sort_perm _) (run_nodup h bucket He Hb) c1 c2);
      try eassumption; try (rewrite Ecs; assumption).
    - unfold is_old. rewrite run_fs1_get_cand, F1 by assumption. apply Z.ltb_lt, gt_dur_sub; assumption.
    - unfold is_old. rewrite run_fs1_get_cand, F2 by assumption. apply Z.ltb_lt, gt_dur_sub; assumption.
  Qed.

  (* a failing List: nothing deleted, nothing changed *)
  Theorem list_fails_safe ws :
    fst (stepf ws ListFails) = ws /\ deleted_names (snd (stepf ws ListFails)) = [].
  Proof. simpl. destruct (cf_enabled cf); auto. Qed.

  (* failing Deletes: same state afterwards, the same Delete calls in the same order, and each
     call's outcome is just what the backend said for that name *)
  Theorem delete_fails_safe ws bucket now df df' :
    fst (stepf ws (Run bucket now df)) = fst (stepf ws (Run bucket now df')) /\
    deleted_names (snd (stepf ws (Run bucket now df))) = deleted_names (snd (stepf ws (Run bucket now df'))) /\
    listed (snd (stepf ws (Run bucket now df))) = listed (snd (stepf ws (Run bucket now df'))) /\
    (forall n ok, In (BDelete n ok) (snd (stepf ws (Run bucket now df))) -> ok = negb (mem n df)).
  Proof.
    destruct (cf_enabled cf) eqn:He.
    2:{ simpl. rewrite He. simpl. repeat split. intros n ok []. }
    rewrite !step_run_eq by exact He. simpl fst. simpl snd. split; [reflexivity|].
    rewrite !deleted_names_of_deletes, !deletes_names. split; [reflexivity|]. split.
    - unfold listed. simpl. f_equal.
      generalize (run_del_names ws bucket now). intros l. induction l as [|x l IH]; simpl; auto.
    - intros n ok [H|H]; [discriminate|]. unfold deletes in H. rewrite map_map in H.
      apply in_map_iff in H. destruct H as (x & E & _). simpl in E. injection E as <- <-. reflexivity.
  Qed.

  (* Enabled = false: no call at all on the backend, for any event of any history *)
  Theorem disabled_no_calls h e : cf_enabled cf = false ->
    snd (stepf (hstate h) e) = [] /\ ws_st (hstate (h ++ [e])) = ws_st ws0.
  Proof.
    intros He. split; [apply step_disabled, He|].
    induction (h ++ [e]) as [|x l IH] using rev_ind; [reflexivity|].
    rewrite hist_state_snoc. rewrite (proj2 (step_disabled _ _ He)). exact IH.
  Qed.

  Theorem disabled_logs ws h : cf_enabled cf = false ->
    Forall (fun log => log = []) (hist_logs parse prefix cf ws h).
  Proof.
    intros He. revert ws. induction h as [|e h IH]; intros ws; simpl; [constructor|].
    pose proof (step_disabled ws e He) as [H _]. destruct (stepf ws e) as [ws' log]. simpl in H.
    constructor; [exact H|apply IH].
  Qed.

  (* what the worker holds as "committed" is the value of the latest SetCommitted naming the instance *)
  Theorem committed_is_latest h i : get_committed (ws_committed (hstate h)) i = last_committed h i.
  Proof.
    induction h as [|e h IH] using rev_ind; [reflexivity|].
    rewrite hist_state_snoc. unfold last_committed in *. rewrite rev_app_distr. simpl rev. simpl app.
    destruct e as [bucket now df| |m]; simpl.
    - destruct (cf_enabled cf); [|exact IH].
      destruct (run_once _ _ _ _ _ _ _). exact IH.
    - destruct (cf_enabled cf); exact IH.
    - unfold get_committed in *. rewrite get_set_committed. destruct (get (rev m) i); [reflexivity|exact IH].
  Qed.

  (* the hypothesis for a whole history gives it at each of its runs *)
  Lemma in_order_hist_at done todo h bucket now df rest :
    in_order_hist_aux parse prefix done todo = true -> todo = h ++ Run bucket now df :: rest ->
    in_order_at parse prefix (done ++ h) bucket now = true /\ nodupb bucket = true /\
    distinct_ts (bucket_cands parse prefix bucket) = true.
  Proof.
    revert done h. induction todo as [|e todo IH]; intros done h H E.
    { destruct h; discriminate. }
    simpl in H. apply andb_true_iff in H. destruct H as [H1 H2].
    destruct h as [|e' h]; simpl in E; injection E as E1 E2; subst.
    - rewrite app_nil_r. rewrite !andb_true_iff in H1. tauto.
    - specialize (IH (done ++ [e']) h H2 eq_refl). rewrite <- app_assoc in IH. exact IH.
  Qed.
End Hist.

(* receive-only mode: the cleaner is disabled whatever the configuration says, and SendOnce
   neither stores nor notifies *)
Theorem receive_only_disabled c : cf_enabled (syncer_cleanup_conf true c) = false.
Proof. reflexivity. Qed.
Theorem receive_only_no_store ok last : send_once_tail true ok last = (0%N, []).
Proof. reflexivity. Qed.
Theorem notify_only_after_store last : send_once_tail false false last = (0%N, []).
Proof. reflexivity. Qed.

Theorem receive_only_all (c : conf) (ok : bool) (last : cmap) :
  cf_enabled (syncer_cleanup_conf true c) = false /\ send_once_tail true ok last = (0%N, []) /\
  send_once_tail false false last = (0%N, []).
Proof. repeat split. Qed.

Theorem in_order_hist_run parse prefix h bucket now del_fail rest :
  in_order_hist parse prefix (h ++ Run bucket now del_fail :: rest) = true ->
  in_order_at parse prefix h bucket now = true /\ nodupb bucket = true /\
  distinct_ts (bucket_cands parse prefix bucket) = true.
Proof. intros H. exact (in_order_hist_at parse prefix [] _ h bucket now del_fail rest H eq_refl). Qed.

(* ---------- why the in-order hypothesis is needed ---------- *)
(* One instance [9]; its newest snapshot [2] (ts 200) is listed first; the older [1] (ts 100)
   shows up later (e.g. delayed by multi-site replication).  At now = 105, [1] is 5 ns "young":
   it marks the instance in the first filter, so the second filter hands the true newest [2] to
   Delete although the instance is not stale (now - 200 < RemoveOldInstancesInterval). *)
Definition ooo_parse : parser := parse_tbl [([1]%N, mkP [9]%N 100 true); ([2]%N, mkP [9]%N 200 true)].
Definition ooo_conf : conf := mkConf true 10 1000000.
Definition ooo_hist : list event := [Run [[2]%N] 0 []; Run [[2]%N; [1]%N] 100 []].

Lemma out_of_order_witness :
  exists parse prefix cf h bucket now c,
    conf_ok cf /\ cf_enabled cf = true /\ nodupb bucket = true /\
    distinct_ts (bucket_cands parse prefix bucket) = true /\
    In c (bucket_cands parse prefix bucket) /\
    (forall m, In m (bucket_cands parse prefix bucket) -> c_inst m = c_inst c -> c_ts m <= c_ts c) /\
    In (c_name c) (deleted_names (snd (step parse prefix cf (hist_state parse prefix cf h) (Run bucket now [])))) /\
    in_order_at parse prefix h bucket now = false /\
    ~ (cf_rem cf < now - c_ts c).
Proof.
  exists ooo_parse, [], ooo_conf, ooo_hist, [[2]%N; [1]%N], 105, (mkCand [2]%N [9]%N 200).
  split; [unfold conf_ok, min_i64, max_i64; simpl; lia|].
  split; [reflexivity|]. split; [reflexivity|]. split; [vm_compute; reflexivity|].
  split; [vm_compute; auto|].
  split. { intros m Hm _. vm_compute in Hm. destruct Hm as [<-|[<-|[]]]; simpl; lia. }
  split; [vm_compute; auto|]. split; [vm_compute; reflexivity|]. simpl. lia.
Qed.
