(* C20 — The dupsort hack maps duplicate-key data reversibly or refuses it. Property theorems only. *)
From LS Require Import Base.Bytes Base.Res Merge.Model Merge.Version Strategy.Model Strategy.Proofs
  DupSort.Model DupSort.Proofs Shadow.Model Shadow.DupCycle Instance.Model Instance.Proofs.
From Coq Require Import Sorted.
Open Scope N_scope.

(* exact recovery of the original pair (key, value, flags) from the shadow key/value *)
Theorem C20_decode_encode : forall e e',
  enc_one e = Ok e' -> dec_one e' = Ok (mkKV (k_key e) (k_val e) 0 (k_flags e)).
Proof. exact dec_enc_one. Qed.
Print Assumptions C20_decode_encode.

(* keys of 1..255 bytes are accepted with values of ANY length and bytes *)
Theorem C20_encode_accepts : forall e, (1 <= length (k_key e) <= 255)%nat ->
  enc_one e = Ok (mkKV (k_key e ++ [0;0;0;0] ++ vpart e ++ [N.of_nat (length (k_key e))]) (k_val e) 0 (k_flags e)).
Proof. exact enc_one_ok. Qed.

(* the shadow key has a legal LMDB length *)
Theorem C20_legal_length : forall e e', enc_one e = Ok e' -> (6 <= length (k_key e') <= 511)%nat.
Proof. exact enc_one_len. Qed.
Print Assumptions C20_legal_length.

(* a DBI's worth of pairs: whenever the mapping is accepted the shadow keys are STRICTLY increasing in byte
   order (hence distinct, and in the order of the original pairs), each is the encoding of its pair, and
   decoding returns exactly the original pairs *)
Theorem C20_encode_checked : forall l r,
  hack_encode l = Ok r ->
  Forall2 (fun e e' => enc_one e = Ok e') l r /\
  StronglySorted (fun a b => bcmp a b = Lt) (map k_key r).
Proof. exact hack_encode_spec. Qed.
Theorem C20_decode_all : forall l r,
  hack_encode l = Ok r ->
  hack_decode r = Ok (map (fun e => mkKV (k_key e) (k_val e) 0 (k_flags e)) l).
Proof. exact hack_decode_encode. Qed.
Print Assumptions C20_decode_all.

(* data for which the mapping would not be unique / order preserving / representable is REFUSED with an
   error (and the surrounding LMDB transaction aborts): the outcome is Ok or a refusal, never anything else,
   and Ok implies all keys are 1..255 bytes *)
Theorem C20_refuses : forall l prev,
  (exists r, hack_encode_from prev l = Ok r) \/ hack_encode_from prev l = Err ERefused.
Proof. exact hack_encode_total. Qed.
Theorem C20_keys_ok : forall l r,
  hack_encode l = Ok r -> Forall (fun e => (1 <= length (k_key e) <= 255)%nat) l.
Proof. exact hack_encode_keys_ok. Qed.
Print Assumptions C20_keys_ok.

(* ---- the mirror cycle over a whole DUPSORT DBI ---- *)
(* shadow -> application: the rebuilt application DBI holds EXACTLY the pairs (decoded key, application
   value) of the shadow entries with a non-empty application value — whatever was merged into the shadow
   DBI from remote snapshots in between ("apart from merged remote changes") *)
Theorem C20_project_pairs : forall main shadow main',
  sorted bcmp (fun _ => True) (keys shadow) ->
  shadow_to_main_dup main shadow = Ok main' ->
  forall p, In p main' <->
    (snd p <> [] /\ exists K r, In K (keys shadow) /\ pv shadow K = snd p /\
                               dec_one (mkKV K [] 0 0) = Ok r /\ k_key r = fst p).
Proof. exact dup_project_spec. Qed.
Print Assumptions C20_project_pairs.

(* a full cycle with nothing merged in between leaves the set of pairs unchanged: for EVERY content of the
   duplicate-keys DBI that the mapping accepts and every shadow DBI as LS writes it (timestamps below now —
   the clock assumption of C11 —, deleted => empty value — C14). Pairs with an EMPTY value are dropped
   (the empty-means-deleted convention, known finding F6 of C11). *)
Theorem C20_mirror_cycle : forall now txn cutoff main shadow shadow' main',
  now < two64 -> txn < two64 ->
  sorted bcmp (fun _ => True) (keys shadow) ->
  (forall K o, ver_of (dget bcmp shadow K) = Some o -> ts o < now /\ (del o = true -> val o = [])) ->
  main_to_shadow_dup now txn cutoff main shadow = Ok shadow' ->
  shadow_to_main_dup main shadow' = Ok main' ->
  forall p, In p main' <-> (In p main /\ snd p <> []).
Proof. exact dup_mirror_cycle. Qed.
Print Assumptions C20_mirror_cycle.

(* ---- the transform is stated by the sender and checked by the receiver ---- *)
(* every dumped DBI states "dupsort_hack_v1" iff the application DBI is DUPSORT *)
Theorem C20_transform_stated : forall c ds names r,
  dump_loop c ds names = Ok r ->
  Forall (fun sd => exists m, find_dbi ds (sd_name sd) = Some m /\ sd_flags sd = d_flags m /\
            sd_transform sd = (if has_flag (d_flags m) DupSortFlag then transform_dupsort else [])) r.
Proof.
  intros c ds names r H. eapply Forall_impl; [|exact (dump_loop_content c ds names r H)].
  intros sd (m & s & Hm & _ & Hf & Ht & _). exists m. auto.
Qed.
Print Assumptions C20_transform_stated.
(* a receiver accepts a DBI only if it knows the transform, is not in native mode when one is stated, and
   (format >= 3) the DUPSORT flag and the transform agree; everything else fails the whole load (C18) *)
Theorem C20_transform_checked : forall fmt native d,
  validate_transform fmt native d = Ok tt <->
  ((sd_transform d = [] \/ sd_transform d = transform_dupsort) /\
   (native = true -> sd_transform d = []) /\
   (3 <= fmt -> (has_flag (sd_flags d) DupSortFlag = true <-> sd_transform d = transform_dupsort))).
Proof. exact transform_rules. Qed.
Print Assumptions C20_transform_checked.

(* non-vacuity + the refusal cases, concretely *)
Example C20_example_ok :
  hack_encode [mkKV [107] [118] 0 0; mkKV [107] [119] 0 0]
  = Ok [mkKV [107;0;0;0;0;118;1] [118] 0 0; mkKV [107;0;0;0;0;119;1] [119] 0 0].
Proof. vm_compute. reflexivity. Qed.
(* key "k" value 00 00 00 00 01 .. sorts BELOW key "k\0" ... : separator bytes inside keys invert the order *)
Example C20_example_order_refused :
  hack_encode [mkKV [107] [1] 0 0; mkKV [107;0] [0] 0 0] = Err ERefused.
Proof. vm_compute. reflexivity. Qed.

(* non-vacuity of the cycle theorem: duplicate keys, a stale shadow entry, a changed pair *)
Example C20_cycle_example :
  let main := [([107], [118]); ([107], [119]); ([108], [120])] in
  let shadow := [([107;0;0;0;0;117;1], be64 5 ++ be64 7 ++ [0;0;0;0;0;0;0;0] ++ [117])] in
  exists shadow' main',
    main_to_shadow_dup 1000 9 0 main shadow = Ok shadow' /\
    shadow_to_main_dup main shadow' = Ok main' /\ main' = main.
Proof. eexists. eexists. split; [vm_compute; reflexivity|]. split; vm_compute; reflexivity. Qed.
