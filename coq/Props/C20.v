(* C20 — The dupsort hack maps duplicate-key data reversibly or refuses it. Property theorems only. *)
From LS Require Import Base.Bytes Base.Res Merge.Model DupSort.Model DupSort.Proofs.
From Coq Require Import Sorted.
Open Scope N_scope.

(* exact recovery of the original pair (key, value, flags) from the shadow key/value *)
Theorem C20_decode_encode : forall e e',
  enc_one e = Ok e' -> dec_one e' = Ok (mkKV (k_key e) (k_val e) 0 (k_flags e)).
Proof. exact dec_enc_one. Qed.
Print Assumptions C20_decode_encode.

(* keys of 1..255 bytes are accepted with values of ANY length and bytes *)
Theorem C20_encode_accepts : forall e, (1 <= length (k_key e) <= 255)%nat ->
  enc_one e = Ok (mkKV (k_key e ++ [0;0;0;0] ++ vpart e ++ [N.of_nat (length (k_key e))]) (k_val e) 0 (k_flags e)).
Proof. exact enc_one_ok. Qed.

(* the shadow key has a legal LMDB length *)
Theorem C20_legal_length : forall e e', enc_one e = Ok e' -> (6 <= length (k_key e') <= 511)%nat.
Proof. exact enc_one_len. Qed.
Print Assumptions C20_legal_length.

(* a DBI's worth of pairs: whenever the mapping is accepted the shadow keys are STRICTLY increasing in byte
   order (hence distinct, and in the order of the original pairs), each is the encoding of its pair, and
   decoding returns exactly the original pairs *)
Theorem C20_encode_checked : forall l r,
  hack_encode l = Ok r ->
  Forall2 (fun e e' => enc_one e = Ok e') l r /\
  StronglySorted (fun a b => bcmp a b = Lt) (map k_key r).
Proof. exact hack_encode_spec. Qed.
Theorem C20_decode_all : forall l r,
  hack_encode l = Ok r ->
  hack_decode r = Ok (map (fun e => mkKV (k_key e) (k_val e) 0 (k_flags e)) l).
Proof. exact hack_decode_encode. Qed.
Print Assumptions C20_decode_all.

(* data for which the mapping would not be unique / order preserving / representable is REFUSED with an
   error (and the surrounding LMDB transaction aborts): the outcome is Ok or a refusal, never anything else,
   and Ok implies all keys are 1..255 bytes *)
Theorem C20_refuses : forall l prev,
  (exists r, hack_encode_from prev l = Ok r) \/ hack_encode_from prev l = Err ERefused.
Proof. exact hack_encode_total. Qed.
Theorem C20_keys_ok : forall l r,
  hack_encode l = Ok r -> Forall (fun e => (1 <= length (k_key e) <= 255)%nat) l.
Proof. exact hack_encode_keys_ok. Qed.
Print Assumptions C20_keys_ok.

(* non-vacuity + the refusal cases, concretely *)
Example C20_example_ok :
  hack_encode [mkKV [107] [118] 0 0; mkKV [107] [119] 0 0]
  = Ok [mkKV [107;0;0;0;0;118;1] [118] 0 0; mkKV [107;0;0;0;0;119;1] [119] 0 0].
Proof. vm_compute. reflexivity. Qed.
(* key "k" value 00 00 00 00 01 .. sorts BELOW key "k\0" ... : separator bytes inside keys invert the order *)
Example C20_example_order_refused :
  hack_encode [mkKV [107] [1] 0 0; mkKV [107;0] [0] 0 0] = Err ERefused.
Proof. vm_compute. reflexivity. Qed.
