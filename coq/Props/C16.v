(* C16 — Every instance's newest snapshot is eventually delivered, within memory limits.
   Property theorems only; every proof is [exact <lemma>].

   Object of the theorems: the labelled transition system of Receiver/Model.v (Receiver.RunOnce / Next /
   MarkCorrupt, Downloader.Run / LoadOnce, climit tokens, Update.Close, the waitingForInstances logic of
   syncLoop), for ANY number of instances, ANY configured limits (values < 1 count as 1, as in climit.New),
   ANY interleaving of the goroutines at the granularity "one critical section / one blocking call",
   ANY bucket evolution (Publish of fresh names, Delete) and ANY failing List / Load calls.

   PARTIAL by nature: "eventually" needs a scheduler.  What is proved is (a) an explicit measure that
   every useful step decreases and no other step increases, so only finitely many useful steps can happen
   once the bucket is stable and nothing fails any more (C16_progress_measure / _finite), and (b) that a
   state in which no useful step is enabled has delivered everything (C16_progress_quiescent).  That every
   enabled step is eventually taken (weak fairness of each downloader goroutine, of Receiver.Run's polling
   loop, and of the syncer — "the syncer keeps calling Next and Close", without which a limit of 1 wedges:
   the token of an un-taken snapshot is never returned) is the Go runtime's and syncLoop's business and is
   assumed, not proved. *)
From Coq Require Import List NArith ZArith Bool Relations.
From LS Require Import Receiver.Model Receiver.Basics Receiver.Inv Receiver.Progress Receiver.Own Receiver.Proofs.
Import ListNotations.
Open Scope N_scope.

(* ---------------------------------------------------------------------------------------------- *)
(* memory limits                                                                                   *)
(* ---------------------------------------------------------------------------------------------- *)

(* In every reachable state: tokens are conserved — those in the channel plus those attributable to a
   holder that will release them make up the limit, for both kinds (so none is leaked on any path:
   failing Load, vanished blob, decode failure, superseded snapshot, Close), hence never more than the
   limit are out.  Holders of a download token: downloaders between Acquire and the end of LoadOnce's
   use of the blob.  Holders of a decompress token: decoded snapshots waiting in snapshotsByInstance (at
   most one per instance), the one the syncer is merging, downloaders between Acquire and publish/failure.
   Every such holder is counted: it belongs to a registered downloader, and the list has no duplicates. *)
Theorem C16_limits : forall c h s, reach c h s ->
  (1 <= lim_dl c)%nat /\ (1 <= lim_dc c)%nat /\
  (held_dl s + s_fdl s = lim_dl c)%nat /\ (held_dc s + s_fdc s = lim_dc c)%nat /\
  (held_dl s <= lim_dl c)%nat /\ (held_dc s <= lim_dc c)%nat /\
  NoDup (s_dls s) /\
  (forall j, s_dl s j <> None -> In j (s_dls s)) /\
  (forall j x, s_ready s j = Some x -> In j (s_dls s)).
Proof. exact limits. Qed.
Print Assumptions C16_limits.

(* a decoded snapshot that supersedes one the syncer has not taken yet replaces it and the old one's
   decompress token goes back (as does the download token); no other instance's entry changes *)
Theorem C16_superseded_released : forall c s j d x y s',
  s_dl s j = Some d -> d_phase d = HaveDc x -> n_ok x = true -> s_ready s j = Some y ->
  step c s (LDecode j) = Some s' ->
  s_ready s' j = Some x /\ s_fdc s' = S (s_fdc s) /\ s_fdl s' = S (s_fdl s) /\
  (forall k, k <> j -> s_ready s' k = s_ready s k).
Proof. exact superseded_released. Qed.
Print Assumptions C16_superseded_released.

(* ---------------------------------------------------------------------------------------------- *)
(* only newest names are delivered                                                                 *)
(* ---------------------------------------------------------------------------------------------- *)

(* whatever Next hands out for instance j is a decodable snapshot name of j that, at some earlier
   successful listing of this very history, was the newest not-ignored snapshot name of j in the bucket *)
Theorem C16_newest_only : forall c h s j x s',
  reach c h s -> s_ready s j = Some x -> step c s (LNext j) = Some s' ->
  n_inst x = j /\ n_ok x = true /\ was_listed c h x /\ s_deliv s' = x :: s_deliv s.
Proof. exact newest_only. Qed.
Print Assumptions C16_newest_only.

Theorem C16_deliveries_listed : forall c h s, reach c h s ->
  forall x, In x (s_deliv s) -> n_ok x = true /\ was_listed c h x.
Proof. exact deliveries_listed. Qed.
Print Assumptions C16_deliveries_listed.

(* ---------------------------------------------------------------------------------------------- *)
(* progress                                                                                        *)
(* ---------------------------------------------------------------------------------------------- *)

(* [good]: an invariant-satisfying state whose lastSeenByInstance / ignoredFilenames are what a listing
   of the present bucket yields — the situation after any successful listing: *)
Theorem C16_progress_start : forall c h s incl s',
  reach c h s -> step c s (LListOk incl) = Some s' -> good c s'.
Proof. exact good_after_listing. Qed.
Print Assumptions C16_progress_start.

(* Stable bucket, no further faults = only [internal] steps: everything except Publish/Delete, a failing
   List, a failing Load of a blob that exists.  The measure is the pair
     U  = number of distinct not-yet-ignored names among bucket, names in flight and names marked corrupt,
     mu = 50 * (notifications RunOnce still owes) + sum over downloaders of
          (20*signal + 20*[lastSeen differs from d.last] + 40*[working on a name that is no longer lastSeen]
           + rank of the control point) + 2*|ready| + [merging] + 2*|waiting| + [not exited],
   ordered lexicographically.  Administrative steps (a poll with nothing new to ignore, a loop iteration
   that notifies nobody, a pass through the loop bottom that changes nothing) never increase it; every
   other step strictly decreases it. *)
Theorem C16_progress_measure : forall c s l s',
  good c s -> internal s l = true -> step c s l = Some s' ->
  good c s' /\
  (admin c s l = true -> (U s' <= U s)%nat /\ (mu c s' <= mu c s)%nat) /\
  (admin c s l = false -> lex_lt (meas c s') (meas c s)).
Proof. exact progress_measure. Qed.
Print Assumptions C16_progress_measure.

(* hence no infinite sequence of useful steps, however many administrative steps are interleaved *)
Theorem C16_progress_finite : forall c s,
  good c s -> Acc (fun s2 s1 => good c s1 /\ macro c s2 s1) s.
Proof. exact progress_finite. Qed.
Print Assumptions C16_progress_finite.

(* and where none is enabled (between two polls): every downloader is idle with no signal pending,
   nothing is waiting to be merged, ALL tokens are back, every corrupt name is ignored, and for every
   instance j other than the own one (and for the own one as long as no poll has skipped a new own name)
   the newest decodable snapshot of j in the bucket is the last one that was handed to the merge loop.
   Limits >= 1 are what exclude a circular wait on tokens here. *)
Theorem C16_progress_quiescent : forall c s,
  good c s -> s_started s = true -> s_exited s = false -> quiescent c s ->
  (forall j d, s_dl s j = Some d -> d_phase d = Idle /\ d_sig d = false) /\
  (forall j, s_ready s j = None) /\ s_merge s = None /\
  s_fdl s = lim_dl c /\ s_fdc s = lim_dc c /\
  (forall x, mem x (s_cor s) = true -> mem x (s_ign s) = true) /\
  (forall j x, (j <> c_own c \/ s_ownskip s = false) ->
     newest_ok (s_bucket s) j = Some x -> last_deliv (s_deliv s) j = Some x).
Proof. exact progress_quiescent. Qed.
Print Assumptions C16_progress_quiescent.

(* ---------------------------------------------------------------------------------------------- *)
(* run-once                                                                                        *)
(* ---------------------------------------------------------------------------------------------- *)

(* not earlier: syncLoop has returned only if only_once is set, the waiting set is empty, and every
   instance that had a snapshot at the start-up listing either had a (decodable) snapshot handed to the
   merge loop or was dropped by CleanDisappeared at a moment it had no snapshot left *)
Theorem C16_once_not_early : forall c h s, reach c h s -> s_exited s = true ->
  c_once c = true /\ s_wait s = [] /\
  forall j, In j (s_init s) ->
    (exists x, In x (s_deliv s) /\ n_inst x = j /\ n_ok x = true) \/ was_gone c h j.
Proof. exact once_not_early. Qed.
Print Assumptions C16_once_not_early.

Theorem C16_once_waits : forall c h s, reach c h s -> s_wait s <> [] -> s_exited s = false.
Proof. exact once_waits. Qed.
Print Assumptions C16_once_waits.

(* it ends by itself: in a state reached by a history in which, while the own instance was still waited
   for, nobody stored a blob under the own instance's name and nobody deleted the own snapshot the receiver
   was after ([reach_calm], Receiver/Own.v — every other bucket evolution, every fault and every
   interleaving is allowed), once the bucket is stable and nothing useful is left to do, syncLoop has
   returned.  This needs the rule of RunOnce as fixed in /repo (the own downloader is notified again when
   the own snapshot it was last told about has been ignored): with the rule before the fix it is false even
   for calm histories, see C16_regression_own_corrupt_old_rule. *)
Theorem C16_once_exits : forall c h s,
  reach_calm c h s -> synced s -> s_started s = true -> quiescent c s ->
  c_once c = true -> s_exited s = true.
Proof. exact once_exits. Qed.
Print Assumptions C16_once_exits.

(* the same from a state-level hypothesis instead of one on the history: no poll has skipped a not yet
   notified own name while the own instance was waited for; and that this is what calm histories give *)
Theorem C16_once_exits_state : forall c s,
  good c s -> s_started s = true -> quiescent c s ->
  c_once c = true -> (own_waiting c s = true -> s_ownskip s = false) -> s_exited s = true.
Proof. exact once_exits_state. Qed.
Print Assumptions C16_once_exits_state.

Theorem C16_once_calm : forall c h s,
  reach_calm c h s -> own_waiting c s = true -> s_ownskip s = false.
Proof. exact calm_no_ownskip. Qed.
Print Assumptions C16_once_calm.

(* WITHOUT the environment assumption the statement
     forall c h s, reach c h s -> synced s -> s_started s = true -> quiescent c s -> c_once c = true -> s_exited s = true
   is false: if the NEWEST own snapshot is deleted during start-up before it was loaded and the next-newest
   one does not decode, the polls skip the own instance (the name notified about is gone, not ignored) and
   the third-newest is never loaded.  The witness below is not [reach_calm]. *)
Theorem C16_once_exits_unconditional_refuted :
  exists c h s, reach c h s /\ good c s /\ s_started s = true /\ quiescent c s /\ c_once c = true /\
                s_exited s = false /\ s_wait s = [c_own c] /\
                newest_ok (s_bucket s) (c_own c) <> None /\ last_deliv (s_deliv s) (c_own c) = None /\
                ~ reach_calm c h s.
Proof. exact once_exits_unconditional_refuted. Qed.
Print Assumptions C16_once_exits_unconditional_refuted.

(* ---------------------------------------------------------------------------------------------- *)
(* non-vacuity: a concrete run (three instances, limits 1/1, an undecodable newest snapshot)         *)
(* ---------------------------------------------------------------------------------------------- *)

Example C16_example_run :
  reach (demo_cfg false) (rev demo_trace ++ []) demo_state /\
  good (demo_cfg false) demo_state /\ s_started demo_state = true /\ s_exited demo_state = false /\
  quiescent (demo_cfg false) demo_state /\
  newest_ok (s_bucket demo_state) 2 = Some (mkName 2 1 true KSnap) /\
  newest (s_bucket demo_state) [] 2 = Some (mkName 2 2 false KSnap) /\
  mem (mkName 2 2 false KSnap) (s_cor demo_state) = true /\
  s_deliv demo_state = [mkName 2 1 true KSnap; mkName 1 0 true KSnap].
Proof. split; [exact demo_reach | exact demo_facts]. Qed.

Example C16_example_once :
  reach_calm (demo_cfg true) (rev (demo_trace ++ [LBottom]) ++ []) demo_state_once /\
  good (demo_cfg true) demo_state_once /\ s_started demo_state_once = true /\
  quiescent (demo_cfg true) demo_state_once /\ c_once (demo_cfg true) = true /\
  s_ownskip demo_state_once = false /\ s_exited demo_state_once = true /\ s_init demo_state_once = [1; 2].
Proof. split; [exact demo_reach_calm_once | exact demo_facts_once]. Qed.

(* regression for the defect repaired in /repo (receiver.RunOnce): own instance 0 with an older good and a
   newest undecodable snapshot.  Under the rule BEFORE the fix ([step_old]: own instance always skipped by
   polls) the history ends with downloader 0 idle, no signal, the good snapshot listed but never notified,
   waitingForInstances = {0}, and the loop bottom not exiting; under the CURRENT rule the very same history
   continues to the delivery of the good snapshot and to the exit. *)
Example C16_regression_own_corrupt_old_rule :
  exists s, run_old wedge_cfg (init wedge_cfg) wedge_trace = Some s /\
    s_pend s = None /\ s_wait s = [0] /\ s_exited s = false /\ s_deliv s = [] /\
    s_dl s 0 = Some (mkDl false (Some (mkName 0 1 false KSnap)) Idle) /\
    alook (s_seen s) 0 = Some (mkName 0 0 true KSnap) /\ s_notif s 0 = Some (mkName 0 1 false KSnap) /\
    step_old wedge_cfg s (LWake 0) = None /\ step_old wedge_cfg s (LNext 0) = None /\
    (exists s', step_old wedge_cfg s LBottom = Some s' /\ s_wait s' = [0] /\ s_exited s' = false).
Proof. exact wedge_old_rule. Qed.

Example C16_regression_own_corrupt_new_rule :
  exists s, run_calm wedge_cfg (init wedge_cfg) (wedge_trace ++ wedge_rest) = Some s /\
    s_deliv s = [mkName 0 0 true KSnap] /\ s_wait s = [] /\ s_exited s = true /\ s_ownskip s = false.
Proof. exact wedge_new_rule. Qed.

(* a state with a snapshot ready for Next and one download in flight, limits 1/1 (hypotheses of
   C16_newest_only and a non-trivial instance of C16_limits) *)
Example C16_example_next :
  exists s s', run (demo_cfg false) (init (demo_cfg false)) (firstn 16 demo_trace) = Some s /\
    s_ready s 1 = Some (mkName 1 0 true KSnap) /\ held_dl s = 1%nat /\ held_dc s = 1%nat /\
    s_fdl s = 0%nat /\ s_fdc s = 0%nat /\ step (demo_cfg false) s (LNext 1) = Some s'.
Proof. vm_compute. eexists. eexists. repeat split. Qed.
