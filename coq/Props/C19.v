(* C19 — Update strategies apply exactly the iterator's decisions, in the DBI's key order.
   Property theorems only. The iterator is abstract: the theorems hold for EVERY merge / clean
   decision function and every entry type. [cmp]/[dom] range over the DBI orders: byte order on all
   keys ([bcmp_ord]) and native integer order on 2-, 4- or 8-byte keys ([int_cmp_ord]). *)
From LS Require Import Base.Bytes Base.Res Strategy.Model Strategy.Order Strategy.Proofs Strategy.EmptyPutProofs.
Open Scope N_scope.

(* the two key orders are admissible *)
Theorem C19_byte_order : ord_ok bcmp (fun _ => True).
Proof. exact bcmp_ord. Qed.
Theorem C19_integer_order : forall n, (n = 2 \/ n = 4 \/ n = 8)%nat -> ord_ok int_cmp (int_dom n).
Proof. exact int_cmp_ord. Qed.

(* Update (point update; sorted input not required, duplicates applied in sequence):
   for every key the stored value becomes the result of applying, in input order, the merge decision
   of every input entry with that key, starting from the stored value; the DBI stays in key order *)
Theorem C19_update_spec : forall cmp dom, ord_ok cmp dom ->
  forall (E : Type) (key_of : E -> bytes) (merge : E -> bytes -> res bytes) l d r,
  sorted cmp dom (keys d) -> Forall dom (ekeys E key_of l) ->
  update cmp E key_of merge d l = Ok r ->
  sorted cmp dom (keys r) /\ forall k, dom k -> decide cmp E key_of merge l k (dget cmp d k) = Ok (dget cmp r k).
Proof. intros cmp dom H E key_of merge. exact (update_spec cmp dom H E key_of merge (fun _ => Ok [])). Qed.
Print Assumptions C19_update_spec.

(* IterUpdate on sorted input: exactly the merge decision for keys of the input (with the stored value,
   if any) and the clean decision for stored keys absent from the input; nothing else; result in key order *)
Theorem C19_iter_update_spec : forall cmp dom, ord_ok cmp dom ->
  forall (E : Type) (key_of : E -> bytes) (merge : E -> bytes -> res bytes) (clean : bytes -> res bytes) l d r,
  sorted cmp dom (ekeys E key_of l) -> sorted cmp dom (keys d) ->
  iu cmp E key_of merge clean l d = Ok r ->
  sound cmp dom E key_of merge clean l d r.
Proof. exact iu_sound. Qed.
Print Assumptions C19_iter_update_spec.

(* input that violates the required order is rejected: IterUpdate never returns Ok on it *)
Theorem C19_unsorted_rejected : forall cmp (E : Type) (key_of : E -> bytes) merge clean l d r,
  iu cmp E key_of merge clean l d = Ok r -> strictly_sorted_b cmp (ekeys E key_of l) = true.
Proof. exact iu_unsorted_rejected. Qed.
Print Assumptions C19_unsorted_rejected.

(* valid input is never rejected: sorted input whose decisions all succeed gives Ok *)
Theorem C19_valid_never_rejected : forall cmp dom, ord_ok cmp dom ->
  forall (E : Type) (key_of : E -> bytes) (merge : E -> bytes -> res bytes) (clean : bytes -> res bytes) l d,
  sorted cmp dom (ekeys E key_of l) ->
  (forall e old, In e l -> exists v, merge e old = Ok v) ->
  (forall dv, In dv (map snd d) -> exists v, clean dv = Ok v) ->
  exists r, iu cmp E key_of merge clean l d = Ok r.
Proof. intros cmp dom _. exact (iu_valid_never_rejected cmp dom). Qed.
Print Assumptions C19_valid_never_rejected.

(* EmptyPut (rebuild from empty) on a duplicate-keys DBI: exactly the pairs (key, decision) with a
   non-empty decision *)
Theorem C19_empty_put_spec : forall (E : Type) (key_of : E -> bytes) (merge : E -> bytes -> res bytes) l acc r,
  do_put_empty E key_of merge acc l = Ok r ->
  forall p, In p r <-> (In p acc \/ exists e, In e l /\ merge e [] = Ok (snd p) /\ snd p <> [] /\ fst p = key_of e).
Proof. exact do_put_empty_spec. Qed.
Print Assumptions C19_empty_put_spec.

(* regression: the pre-fix order check (empty initial previous key) rejected integer key 0 *)
Example C19_prefix_intkey0 : int_cmp [] [0;0;0;0] = Eq.
Proof. reflexivity. Qed.

(* non-vacuity: a concrete IterUpdate on integer keys 0 and 2^31 with stored key 1 *)
Example C19_example :
  iu int_cmp (bytes * bytes) fst (fun e old => Ok (old ++ snd e)) (fun _ => Ok [])
     [([0;0;0;0], [7]); ([0;0;0;128], [9])] [([1;0;0;0], [5]); ([0;0;0;128], [1])]
  = Ok [([0;0;0;0], [7]); ([0;0;0;128], [1;9])].
Proof. vm_compute. reflexivity. Qed.
