(* C11 — Shadow mode mirrors application data faithfully in both directions (per DBI).
   Property theorems only. [dom] is the key domain of the DBI's order: all byte strings for byte order
   (C19_byte_order), well-formed 4- or 8-byte keys for MDB_INTEGERKEY (C19_integer_order), incl. key 0. *)
From LS Require Import Base.Bytes Base.Res Header.Model Merge.Model Merge.Version Strategy.Model Strategy.Order
  Strategy.Proofs Shadow.Model Shadow.Proofs Instance.ShadowNoop.
Open Scope N_scope.

(* application -> shadow. For every key, after mainToShadow at time [now]:
   - key in the application DBI with value v: the shadow entry is byte-identical to before when it was
     live with the same value (so it keeps its previous timestamp); otherwise it becomes the join of the old
     entry with the new version (now, live, v) — which IS (now, live, v) under the clock assumption
     (C11_stamped_now); a key new to the shadow gets (now, live, v). Empty values v included.
   - key absent from the application DBI: an absent or already deleted shadow entry is untouched, a live one
     becomes (now, deleted, empty).
   Nothing else changes (the statement covers every key), the shadow DBI stays in key order, and an
   unparsable stored shadow value makes the whole step fail (capture_at is False there). *)
Theorem C11_capture : forall flags dom now txn cutoff main shadow shadow',
  ord_ok (dbi_cmp flags) dom ->
  now < two64 -> txn < two64 ->
  sorted (dbi_cmp flags) dom (keys main) -> sorted (dbi_cmp flags) dom (keys shadow) ->
  main_to_shadow flags now txn cutoff main shadow = Ok shadow' ->
  sorted (dbi_cmp flags) dom (keys shadow') /\
  forall k, dom k ->
    capture_at now (if dmem (dbi_cmp flags) main k then Some (dget (dbi_cmp flags) main k) else None)
               (dget (dbi_cmp flags) shadow k) (dget (dbi_cmp flags) shadow' k).
Proof. exact main_to_shadow_spec. Qed.
Print Assumptions C11_capture.

Theorem C11_stamped_now : forall o now v d, ts o < now -> join o (mkVer now d v) = mkVer now d v.
Proof. exact join_newer. Qed.

(* shadow -> application. After shadowToMain the application DBI holds, for every key, exactly the
   application value of the shadow entry (absent when there is no entry); for shadow DBIs as LS writes them
   (deleted => empty value, C14) these are the live entries with a non-empty value. *)
Theorem C11_project : forall flags dom main shadow main',
  ord_ok (dbi_cmp flags) dom ->
  sorted (dbi_cmp flags) dom (keys main) -> sorted (dbi_cmp flags) dom (keys shadow) ->
  shadow_to_main flags main shadow = Ok main' ->
  sorted (dbi_cmp flags) dom (keys main') /\
  forall k, dom k ->
    dget (dbi_cmp flags) main' k = match ver_of (dget (dbi_cmp flags) shadow k) with Some o => val o | None => [] end.
Proof. exact shadow_to_main_spec. Qed.
Print Assumptions C11_project.

(* ... and as a whole: the application DBI after shadowToMain is EXACTLY the list of shadow entries with a
   non-empty application value, in key order, whatever the application DBI held before — anything else that
   was in it is gone, nothing else is added ("exactly the live entries of the merged state and nothing else") *)
Theorem C11_project_exact : forall flags dom main shadow l,
  ord_ok (dbi_cmp flags) dom ->
  sorted (dbi_cmp flags) dom (keys shadow) -> Forall dom (keys main) ->
  read_hdr shadow = Ok l ->
  shadow_to_main flags main shadow = Ok (proj l).
Proof. exact shadow_to_main_exact. Qed.
Print Assumptions C11_project_exact.

(* FULL statement of the projection clause ("every key present with the winning value") is FALSE of the code
   for live entries with an EMPTY value: they are dropped from the application DBI. Known finding F6. *)
Theorem C11_empty_value_refuted :
  exists shadow main', shadow_to_main 0 [] shadow = Ok main' /\
    ver_of (dget bcmp shadow [107]) = Some (mkVer 5 false []) /\ dmem bcmp main' [107] = false.
Proof. exact empty_value_not_projected. Qed.

(* non-vacuity: integer-key DBI with keys 0 and 2^31: overwrite of key 0, delete of key 2^31, insert of key 1 *)
Example C11_example :
  let sh := [([0;0;0;0], be64 5 ++ be64 7 ++ [0;0;0;0;0;0;0;0] ++ [97]);
             ([0;0;0;128], be64 6 ++ be64 7 ++ [0;0;0;0;0;0;0;0] ++ [98])] in
  main_to_shadow 8 1000 9 0 [([0;0;0;0], [99]); ([1;0;0;0], [])] sh
  = Ok [([0;0;0;0], be64 1000 ++ be64 9 ++ [0;0;0;0;0;0;0;0] ++ [99]);
        ([1;0;0;0], be64 1000 ++ be64 9 ++ [0;0;0;0;0;0;0;0]);
        ([0;0;0;128], be64 1000 ++ be64 9 ++ [0;1;0;0;0;0;0;0])].
Proof. vm_compute. reflexivity. Qed.
