(* C08 (receiver half) — a blob that cannot be decoded is ignored from then on, and the newest decodable
   snapshot of that instance and the snapshots of all other instances continue to be merged.
   ONLY [C08_corrupt_isolated]; to be merged into Props/C08.v by the integrator. *)
From Coq Require Import List NArith ZArith Bool.
From LS Require Import Receiver.Model Receiver.Basics Receiver.Inv Receiver.Progress Receiver.Proofs.
Import ListNotations.
Open Scope N_scope.

(* Over the receiver model (Receiver/Model.v), in every reachable state, for every instance count, limits
   and interleaving:
   (1) a decode failure of x by downloader j marks x corrupt, returns BOTH tokens, publishes and delivers
       nothing, sets d.last := x, and changes no component that belongs to another instance
       (lastSeen, lastNotified, ignored, ready, other downloaders, the bucket, the waiting set);
   (2) marks stay: corrupt names stay corrupt and ignored names stay ignored on every step; the next
       successful listing puts every corrupt name into ignoredFilenames; an ignored name is never the
       lastSeen entry of any instance;
   (3) from the moment x is marked, no downloader ever works on x again (no Load, no decode): not retried;
   (4) what a listing installs for every instance k is the newest snapshot name of k that is not ignored
       — so the previous snapshot of the instance is promoted — and this does not depend on which names of
       OTHER instances are ignored;
   (5) (with C16_progress_quiescent) when the system has run out of useful work, the newest DECODABLE
       snapshot of every instance is the last one handed to the merge loop — corrupt blobs of any
       instance, in any position, notwithstanding. *)
Theorem C08_corrupt_isolated :
  (forall c s j d x s',
     s_dl s j = Some d -> d_phase d = HaveDc x -> n_ok x = false -> step c s (LDecode j) = Some s' ->
     mem x (s_cor s') = true /\ s_fdl s' = S (s_fdl s) /\ s_fdc s' = S (s_fdc s) /\
     s_ready s' = s_ready s /\ s_deliv s' = s_deliv s /\ s_merge s' = s_merge s /\
     s_seen s' = s_seen s /\ s_notif s' = s_notif s /\ s_ign s' = s_ign s /\ s_pend s' = s_pend s /\
     s_bucket s' = s_bucket s /\ s_wait s' = s_wait s /\
     (forall k, k <> j -> s_dl s' k = s_dl s k) /\
     s_dl s' j = Some (mkDl (d_sig d) (Some x) Sleeping)) /\
  (forall c s l s', step c s l = Some s' ->
     (forall x, mem x (s_cor s) = true -> mem x (s_cor s') = true) /\
     (forall x, mem x (s_ign s) = true -> mem x (s_ign s') = true)) /\
  (forall c s incl s' x,
     step c s (LListOk incl) = Some s' -> mem x (s_cor s) = true -> mem x (s_ign s') = true) /\
  (forall c h s, reach c h s ->
     forall j x, alook (s_seen s) j = Some x -> mem x (s_ign s) = false) /\
  (forall c h s, reach c h s ->
     forall x j d, mem x (s_cor s) = true -> s_dl s j = Some d -> working (d_phase d) <> Some x) /\
  (forall c s incl s', step c s (LListOk incl) = Some s' ->
     (forall j, alook (s_seen s') j = newest (s_bucket s) (s_ign s') j) /\
     (forall x, mem x (s_ign s') = mem x (s_cor s) || mem x (s_ign s) || (is_bad_kind x && mem x (s_bucket s)))) /\
  (forall names ign1 ign2 k,
     (forall y, n_inst y = k -> mem y ign1 = mem y ign2) -> newest names ign1 k = newest names ign2 k) /\
  (forall c s,
     good c s -> s_started s = true -> s_exited s = false -> quiescent c s ->
     forall j x, (j <> c_own c \/ s_ownskip s = false) ->
       newest_ok (s_bucket s) j = Some x -> last_deliv (s_deliv s) j = Some x).
Proof.
  exact (conj corrupt_marked (conj marks_mono (conj corrupt_then_ignored (conj ignored_not_seen
        (conj corrupt_not_retried (conj listing_promotes (conj newest_indep quiescent_delivered))))))).
Qed.
Print Assumptions C08_corrupt_isolated.

(* non-vacuity: in the run of Receiver/Proofs.v the newest snapshot of instance 2 is undecodable; it ends
   up marked corrupt, the older one is delivered, instance 1 is delivered too *)
Example C08_receiver_example :
  good (demo_cfg false) demo_state /\ s_started demo_state = true /\ s_exited demo_state = false /\
  quiescent (demo_cfg false) demo_state /\
  newest_ok (s_bucket demo_state) 2 = Some (mkName 2 1 true KSnap) /\
  newest (s_bucket demo_state) [] 2 = Some (mkName 2 2 false KSnap) /\
  mem (mkName 2 2 false KSnap) (s_cor demo_state) = true /\
  s_deliv demo_state = [mkName 2 1 true KSnap; mkName 1 0 true KSnap].
Proof. exact demo_facts. Qed.
