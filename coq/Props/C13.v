(* C13 — The tomb sweeper removes exactly the expired deletion markers.
   Property theorems only; every proof is [exact <lemma>].
   Model: Sweeper/Model.v (sweep, the LimitScanner resume rule), cutoff arithmetic: Retention/Model.v.
   The theorems are proved for an arbitrary DBI key order (Sweeper/Proofs.v, Section Order) and
   instantiated here with bytes.Compare; an MDB_INTEGERKEY DBI is the same argument with the
   integer order on its fixed-width keys.
   Vocabulary: [sched] = per sweeper transaction the record count at which the scanner's limit
   trips (any n >= 1; 0 = never) and the application's puts/deletes committed before the next
   one — so "forall sc" is "for every slicing and every concurrent application behaviour";
   the second component of [sweep_dbis]/[sweep] is the list of transactions the sweeper committed. *)
From LS Require Import Base.Bytes Base.BytesProofs Base.Res Header.Model Retention.Model Retention.Proofs
  Sweeper.Model Sweeper.Proofs.
Open Scope N_scope.

(* "expired" is exactly: parses, deleted flag set, timestamp strictly below the cutoff *)
Theorem C13_expired_iff : forall cutoff v,
  is_expired cutoff v = true <->
  exists h a, parse v = Ok (h, a) /\ is_deleted (h_flags h) = true /\ h_ts h < cutoff.
Proof. exact is_expired_iff. Qed.
Print Assumptions C13_expired_iff.

(* every transaction the sweeper commits is on a DBI selected by the mode rule; each entry it
   removes is, at that moment, a marker with timestamp < cutoff; no other entry of any DBI is
   altered, no DBI appears or disappears — every slicing, every interleaved application
   behaviour, every outcome of the pass (normal end, error, still running) *)
Theorem C13_only_expired : forall cutoff native names sc e,
  env_wf bcmp e ->
  Forall (fun s => selected native (st_dbi s) = true /\ step_ok cutoff s)
         (snd (sweep_dbis bcmp cutoff native names sc e)).
Proof. exact b_only_expired. Qed.
Print Assumptions C13_only_expired.

(* the same for a single sweeper transaction, whatever resume cursor and limit it is given *)
Theorem C13_only_expired_slice : forall cutoff last lim db db' last' lr,
  sorted bcmp db -> slice bcmp cutoff last lim db = Ok (db', last', lr) ->
  sorted bcmp db' /\
  forall k, lookup k db' = lookup k db \/
            (lookup k db' = None /\ exists v, lookup k db = Some v /\ is_expired cutoff v = true).
Proof. exact b_slice_only. Qed.
Print Assumptions C13_only_expired_slice.

(* the pass is nothing but such transactions interleaved with the application's commits:
   whatever is preserved by both holds of the environment the pass leaves behind *)
Theorem C13_only_expired_rely_guarantee : forall cutoff native (J : env -> Prop) names sc e,
  (forall d e1 e2, selected native d = true -> env_wf bcmp e1 -> env_wf bcmp e2 ->
     step_ok cutoff (mkStep d e1 e2) -> J e1 -> J e2) ->
  (forall lim ops, In (lim, ops) sc -> forall e1, env_wf bcmp e1 -> J e1 -> J (apply_ops bcmp ops e1)) ->
  env_wf bcmp e -> J e -> J (out_env (fst (sweep_dbis bcmp cutoff native names sc e))).
Proof. exact b_rely_guarantee. Qed.
Print Assumptions C13_only_expired_rely_guarantee.

(* net effect without a concurrent writer: initial content minus markers that were expired *)
Theorem C13_only_expired_net : forall cutoff native names sc e,
  env_wf bcmp e -> quiet sc = true ->
  let e' := out_env (fst (sweep_dbis bcmp cutoff native names sc e)) in
  map fst e' = map fst e /\
  forall d k, elookup d k e' = elookup d k e \/
    (selected native d = true /\ elookup d k e' = None /\
     exists v, elookup d k e = Some v /\ is_expired cutoff v = true).
Proof. exact b_only_expired_net. Qed.
Print Assumptions C13_only_expired_net.

(* an entry that is an expired marker when the pass starts and that the application neither puts
   nor deletes during the pass is gone when the pass ends — every slicing, every application
   behaviour on all OTHER keys, in particular deleting or rewriting the key a slice stopped at *)
Theorem C13_complete : forall cutoff native d k v,
  is_expired cutoff v = true -> selected native d = true ->
  forall names sc e e' rest, env_wf bcmp e -> untouched d k sc = true -> In d names ->
  (elookup d k e = Some v \/ elookup d k e = None) ->
  fst (sweep_dbis bcmp cutoff native names sc e) = Done e' rest ->
  elookup d k e' = None.
Proof. exact b_complete. Qed.
Print Assumptions C13_complete.

(* ... with the cutoff computed by sweep itself from the clock and the retention (0 <= R <= now,
   no wrap) and the DBI names read from the environment *)
Theorem C13_complete_sweep : forall now R native sc e e' rest d k v h a,
  env_wf bcmp e -> (0 <= R)%Z -> (R <= now)%Z -> (now <= max_int64)%Z ->
  selected native d = true ->
  elookup d k e = Some v -> parse v = Ok (h, a) -> is_deleted (h_flags h) = true ->
  (Z.of_N (h_ts h) < now - R)%Z ->
  untouched d k sc = true ->
  fst (sweep bcmp now R native sc e) = Done e' rest ->
  elookup d k e' = None.
Proof. exact sweep_complete_top. Qed.
Print Assumptions C13_complete_sweep.

(* the cursor invariant behind it: an expired marker above the resume point is removed by the
   slice, or the slice hit its limit and the new resume point is still below it *)
Theorem C13_cursor_invariant : forall cutoff last lim db db' last' lr k v,
  sorted bcmp db -> lookup k db = Some v -> is_expired cutoff v = true -> before bcmp last k ->
  slice bcmp cutoff last lim db = Ok (db', last', lr) ->
  lookup k db' = None \/ (lr = true /\ lookup k db' = Some v /\ before bcmp last' k).
Proof. exact b_slice_reach. Qed.
Print Assumptions C13_cursor_invariant.

(* progress, explicit measure: the number of records in front of the cursor strictly decreases
   with every slice that stops at its limit (the next slice starts exactly where this one stopped) *)
Theorem C13_slice_progress : forall cutoff last lim db db' last',
  sorted bcmp db -> slice bcmp cutoff last lim db = Ok (db', last', true) ->
  (length (resume bcmp last' db') < length (resume bcmp last db))%nat.
Proof. exact b_slice_progress. Qed.
Print Assumptions C13_slice_progress.

(* hence with a quiescent application (and values that parse) the loop for a DBI ends normally
   within (records in front of the cursor)+1 slices, whatever limits >= 1 the slices get *)
Theorem C13_terminates : forall cutoff d sc last lr e db,
  env_wf bcmp e -> env_get d e = Some db -> parseable db = true -> quiescent sc = true ->
  (length (resume bcmp last db) < length sc)%nat ->
  exists e' rest tr, dbi_pass bcmp cutoff d sc last lr e = (Done e' rest, tr).
Proof. exact b_terminates. Qed.
Print Assumptions C13_terminates.

(* non-native mode: no sweeper transaction touches a DBI whose name lacks the "_sync" prefix ... *)
Theorem C13_shadow_scope : forall cutoff names sc e d,
  env_wf bcmp e -> has_prefix SyncDBIPrefix d = false ->
  Forall (fun s => env_get d (st_after s) = env_get d (st_before s))
         (snd (sweep_dbis bcmp cutoff false names sc e)).
Proof. exact b_shadow_scope. Qed.
Print Assumptions C13_shadow_scope.

(* ... so an application DBI the application itself does not write during the pass is identical
   afterwards, whatever the outcome (header-less application data is never even parsed) *)
Theorem C13_shadow_scope_frame : forall cutoff native names sc e d,
  env_wf bcmp e -> selected native d = false -> avoids d sc = true ->
  env_get d (out_env (fst (sweep_dbis bcmp cutoff native names sc e))) = env_get d e.
Proof. exact b_frame. Qed.
Print Assumptions C13_shadow_scope_frame.

(* guard: the cutoff is now - R exactly when 0 <= R <= now, never lies after `now` ... *)
Theorem C13_cutoff_exact : forall t R, (0 <= R)%Z -> (R <= t)%Z -> (t <= max_int64)%Z ->
  Z.of_N (sweep_cutoff t R) = (t - R)%Z.
Proof. exact sweep_cutoff_exact. Qed.
Theorem C13_cutoff_le_now : forall t R, (0 <= t <= max_int64)%Z -> (0 <= R <= max_int64)%Z ->
  (Z.of_N (sweep_cutoff t R) <= t)%Z.
Proof. exact sweep_cutoff_le_now. Qed.
Print Assumptions C13_cutoff_le_now.

(* ... and when the retention reaches before the UNIX epoch (retention_days above ~20,700 today)
   the clamp makes the cutoff 0 and then NOTHING is swept *)
Theorem C13_clamped_sweeps_nothing : forall now R native sc e,
  env_wf bcmp e -> (0 <= now)%Z -> (now < R)%Z -> (R <= max_int64)%Z ->
  Forall (fun s => st_after s = st_before s) (snd (sweep bcmp now R native sc e)).
Proof. exact b_clamped. Qed.
Print Assumptions C13_clamped_sweeps_nothing.

(* well-formedness of an environment is decidable (used by the examples) *)
Theorem C13_wf_decidable : forall e, env_wfb e = true -> env_wf bcmp e.
Proof. exact env_wfb_wf. Qed.

(* recorded observation (not a claim of the property): once a slice has hit its limit, a
   transaction that keeps failing is retried for ever while the application is quiet, because
   `limitReached` keeps the value of the previous slice *)
Theorem C13_obs_stale_limit_livelock : forall cutoff d last e x,
  (forall lim, eslice bcmp cutoff d last lim e = Err x) ->
  forall sc, quiet sc = true -> dbi_pass bcmp cutoff d sc last true e = (Fuel e, []).
Proof. exact b_livelock. Qed.
Print Assumptions C13_obs_stale_limit_livelock.

(* ---- non-vacuity ---- *)

(* stored values: a 24-byte header; flag 1 = deleted *)
Definition ex_val (ts flags : N) (app : bytes) : bytes := put_basic ts 7 flags ++ app.
Definition ex_cut : N := 1000.
(* one native DBI "d": k1 live and old, k2 expired marker, k3 marker exactly AT the cutoff (young),
   k4 expired marker, k5 expired marker; and an application DBI "app" with header-less data *)
Definition ex_env : env :=
  [ ([97;112;112], [([1], [120]); ([2], [])]);
    ([100], [([1], ex_val 5 0 [118]); ([2], ex_val 999 1 []); ([3], ex_val 1000 1 []);
             ([4], ex_val 10 1 []); ([5], ex_val 11 1 [])]) ].
(* slices of one record; after the first slice the application deletes the resume key k1, after
   the second (k2 was swept and is the resume key) it re-creates k2 live, after the third it
   rewrites the next key k3 (while k2, unchanged since, is skipped), after the fourth it puts a new key below the cursor *)
Definition ex_sched : sched :=
  [ (1%nat, [ODel [100] [1]]); (1%nat, [OPut [100] [2] (ex_val 2000 0 [119])]);
    (1%nat, [OPut [100] [3] (ex_val 3000 0 [122])]); (1%nat, [OPut [100] [0] (ex_val 2000 0 [])]);
    (1%nat, []); (1%nat, []); (1%nat, []); (1%nat, []) ].

Example C13_example_wf : env_wfb ex_env = true.
Proof. vm_compute. reflexivity. Qed.
Example C13_example_expired : is_expired ex_cut (ex_val 999 1 []) = true /\ is_expired ex_cut (ex_val 1000 1 []) = false.
Proof. vm_compute. split; reflexivity. Qed.
Example C13_example_untouched : untouched [100] [4] ex_sched = true /\ untouched [100] [5] ex_sched = true.
Proof. vm_compute. split; reflexivity. Qed.
(* non-native: "d" and "app" both lack the prefix: nothing happens *)
Example C13_example_nonnative :
  sweep_dbis bcmp ex_cut false (map fst ex_env) ex_sched ex_env = (Done ex_env ex_sched, []).
Proof. vm_compute. reflexivity. Qed.
(* native mode on DBI "d" alone: ends normally; k4 and k5 are gone, k3 (rewritten) and the re-created
   k2 stay, the application DBI is untouched *)
Example C13_example_native :
  exists rest tr,
    sweep_dbis bcmp ex_cut true [[100]] ex_sched ex_env =
    (Done [ ([97;112;112], [([1], [120]); ([2], [])]);
            ([100], [([0], ex_val 2000 0 []); ([2], ex_val 2000 0 [119]); ([3], ex_val 3000 0 [122])]) ] rest, tr)
    /\ length tr = 7%nat.
Proof. eexists. eexists. vm_compute. split; reflexivity. Qed.
(* native mode over all DBIs: the header-less application DBI makes the first transaction fail *)
Example C13_example_native_headerless :
  fst (sweep_dbis bcmp ex_cut true (map fst ex_env) ex_sched ex_env) = Failed ETooShort ex_env.
Proof. vm_compute. reflexivity. Qed.
(* the stale limitReached: the second record does not parse, slices of one record *)
Example C13_example_livelock :
  let e := [([100], [([1], ex_val 5 0 []); ([2], [1;2;3])])] in
  fst (dbi_pass bcmp ex_cut [100] (repeat (1%nat, []) 50) None false e) = Fuel e.
Proof. vm_compute. reflexivity. Qed.
