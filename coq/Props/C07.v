(* C07 — Snapshot encoding is lossless and wire-compatible with the published schema.
   Property theorems only; every proof is [exact <lemma>].
   Model of the hand-written codec: Codec/Custom.v (custom_encode, custom_decode);
   specification (protobuf wire grammar + snapshot.proto as the generated reference codec reads it):
   Codec/Wire.v (wire_parse, spec_snapshot, schema_ok). *)
From LS Require Import Base.Bytes Base.Res Merge.Model Codec.Varint Codec.Wire Codec.Custom
  Codec.VarintProofs Codec.Util Codec.Compat Codec.RoundTrip.
Open Scope N_scope.

(* Round trip, for every valid snapshot: any number of DBIs and entries, any bytes, any lengths (varints
   of 1..10 bytes), empty values, any timestamps / flags / transaction ids inside their types.
   [valid] (Codec/Custom.v): keys non-empty; DBI names 1..511 bytes; transform names <= 472 bytes; txn ids
   >= 0; every DBI message <= 100 GB (snapshot.MaxFieldLength) and Meta strings <= 2 GB. The last
   hypothesis says the blob is not longer than a Go slice can be. *)
Theorem C07_roundtrip : forall s b,
  valid s = true -> custom_encode s = Ok b -> (Z.of_nat (length b) <= 9223372036854775807)%Z ->
  custom_decode b = Ok s.
Proof. exact roundtrip. Qed.
Print Assumptions C07_roundtrip.

(* the encoder never fails (no scratch-buffer overrun, no slice panic) on a valid snapshot *)
Theorem C07_encode_total : forall s, valid s = true -> exists b, custom_encode s = Ok b.
Proof. exact encode_ok. Qed.
Print Assumptions C07_encode_total.

(* The bytes written are a message of the wire grammar, and the schema reads them back as s
   (so does every conforming decoder); they also avoid every exclusion listed under [schema_ok] *)
Theorem C07_valid_wire : forall s b,
  valid s = true -> custom_encode s = Ok b ->
  exists fs, wire_parse b = Some fs /\ spec_snapshot fs = Ok s /\ schema_ok fs = true.
Proof. exact valid_wire. Qed.
Print Assumptions C07_valid_wire.

(* Forward compatibility: on EVERY message of the grammar — fields in any order, repeated scalars
   (last wins), an embedded Meta split over several fields (merged), unknown fields of wire types
   0/1/2/5 with any number at Snapshot / Meta / DBI / KV level, non-minimal varints, known fields with a
   wrong wire type (both sides: error) — the hand-written decoder returns exactly what the schema
   specification returns. [schema_ok] (Codec/Wire.v) requires the nested Meta / DBI / KV payloads to be
   grammatical too and excludes precisely: field numbers >= 2^26 at Snapshot and Meta level (csproto
   compares the whole key with MaxTagValue); formatVersion / compatVersion varints >= 2^32; top-level
   length-delimited fields > 100 GB and Meta-level ones > 2^31-1 bytes; `entries` fields whose KV message
   is empty. Group wire types 3/4 are not part of the grammar. *)
Theorem C07_forward_compat : forall m fs,
  (Z.of_nat (length m) <= 9223372036854775807)%Z ->
  wire_parse m = Some fs -> schema_ok fs = true ->
  custom_decode m = spec_snapshot fs.
Proof. exact forward_compat. Qed.
Print Assumptions C07_forward_compat.

(* the varint layer, for all values (no enumeration): DecodeVarint inverts EncodeVarint on every uint64 in
   front of any following bytes; an encoding is 1..10 bytes, exactly SizeOfVarint v of them; both code
   paths of DecodeVarint (len < 10, len >= 10) compute the grammar's varint *)
Theorem C07_varint_roundtrip : forall v rest, v < two64 ->
  decode_varint (encode_varint v ++ rest) = Ok (v, Z.of_nat (length (encode_varint v))).
Proof. exact decode_encode_varint. Qed.
Theorem C07_varint_length : forall v, (1 <= length (encode_varint v) <= 10)%nat.
Proof. exact encode_varint_length. Qed.
Theorem C07_varint_size : forall v, v < two64 -> N.of_nat (length (encode_varint v)) = sizeof_varint v.
Proof. exact encode_varint_size. Qed.
Theorem C07_decode_varint_is_grammar : forall p,
  decode_varint p = match vspec p with
                    | Some (v, r) => Ok (v, (Z.of_nat (length p) - Z.of_nat (length r))%Z)
                    | None => E
                    end.
Proof. exact decode_varint_spec. Qed.
Print Assumptions C07_varint_roundtrip.
Print Assumptions C07_varint_size.
Print Assumptions C07_decode_varint_is_grammar.

(* non-vacuity: a snapshot with two DBIs (one without entries), an entry without value, flags >= 128, a
   200-byte value (2-byte length varint), maximal timestamp and flags is valid, its encoding decodes back
   with both the model of the hand-written decoder and the specification *)
Example C07_example_roundtrip :
  let s := mkSnap 3 1 (mkMeta [103;101;110] [105] [] 12345 1700000000000000000 [100;98] 0)
             [mkDbi [112;100;110;115] 4 [100;117;112]
                [mkKV [107;49] (repeat 7 200) 1700000000000000001 0;
                 mkKV [107;50] [] 0 129;
                 mkKV [107;51] [0;255] 18446744073709551615 4294967295];
              mkDbi [101] 0 [] []] in
  valid s = true /\
  match custom_encode s with
  | Ok b => custom_decode b = Ok s /\ spec_decode b = Ok s /\ length b = 304%nat
  | _ => False
  end.
Proof. vm_compute. repeat split; reflexivity. Qed.
(* a message no encoder of this code base writes — reversed field order, an unknown field at each level
   (varint, fixed32, varint, varint), a repeated scalar — satisfies the hypotheses of C07_forward_compat *)
Example C07_example_compat :
  let m := [32;1; 26;15; 40;9; 18;8; 125;1;2;3;4; 10;1;107; 10;1;100; 8;7; 8;3; 18;5; 48;0; 10;1;103; 88;42] in
  match wire_parse m with
  | Some fs => schema_ok fs = true /\ custom_decode m = spec_snapshot fs
               /\ exists s, spec_snapshot fs = Ok s /\ s_fmt s = 3 /\ length (s_dbis s) = 1%nat
  | None => False
  end.
Proof. vm_compute. split; [reflexivity|]. split; [reflexivity|]. eexists. repeat split. Qed.
