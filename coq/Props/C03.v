(* C03 — A committed local application write is never destroyed by syncing. Property theorems only.
   Two layers: (1) per DBI, WHAT the sync transactions write (C11/C02 theorems, re-exported here): the capture
   records every application change as a new version that wins against everything older, the merge replaces a
   stored version only by one that wins against it, the projection writes exactly the merged state;
   (2) WHEN: the projection must never run while an application commit is still uncaptured. (2) is the
   transaction-id bookkeeping, proved here for every interleaving that contains no application commit inside
   the window after an empty own transaction — and refuted inside that window (known finding F8). *)
From LS Require Import Base.Bytes Base.Res Header.Model Merge.Model Merge.Version Merge.Proofs
  Instance.Ids Instance.IdsProofs.
Open Scope N_scope.

(* (2) shadow mode: whenever a load transaction runs (it ends with shadowToMain), every application commit of
   this run has been captured into the shadow DBIs before the projection: either the transaction captures
   first (localChanged) or everything was captured already *)
Theorem C03_partial : forall l s,
  reach (step_nw true) (init l) s -> at_ s = Top ->
  let T := last s + 1 in
  let lc := synced s <? T - 1 in
  forall a, In a (apps s) -> a <= (if lc then last s else cap s).
Proof. exact (fun l s => captured_before_projection true l s eq_refl). Qed.
Print Assumptions C03_partial.

(* the invariant behind it, for both modes: what counts as synced has been captured and published *)
Theorem C03_inv : forall shadow l s, reach (step_nw shadow) (init l) s -> inv shadow s.
Proof. exact inv_reach. Qed.

(* (1) the merge never replaces a stored version by one that does not win against it (native and shadow DBIs) *)
Theorem C03_merge_only_by_winner : forall c old h app e,
  cfg_ok c -> kv_ok e -> old <> [] -> parse old = Ok (h, app) ->
  exists v r, native_merge c old e = Ok v /\ ver_of v = Some r /\
    vle (mkVer (h_ts h) (is_deleted (h_flags h)) app) r.
Proof. exact merge_never_backwards. Qed.

(* FULL statement (every interleaving) is FALSE of the code: an application commit inside the window is
   counted as synced, is not captured, and the next projection reverts it (finding F8) *)
Theorem C03_refuted :
  exists s, reach (step true) (init 5) s /\ at_ s = Top /\ ~ (synced s < last s) /\
            exists a, In a (apps s) /\ pub s < a /\ cap s < a.
Proof. exact window_breaks_C09_C03. Qed.
Print Assumptions C03_refuted.
