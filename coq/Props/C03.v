(* C03 — A committed local application write is never destroyed by syncing. Property theorems only.
   Two layers: (1) per DBI, WHAT the sync transactions write (C11/C02 theorems, re-exported here): the capture
   records every application change as a new version that wins against everything older, the merge replaces a
   stored version only by one that wins against it, the projection writes exactly the merged state;
   (2) WHEN: the projection must never run while an application commit is still uncaptured. (2) is the
   transaction-id bookkeeping, proved here for every interleaving that contains no application commit inside
   the window after an empty own transaction — and refuted inside that window (known finding F8). *)
From Coq Require Import List NArith Lia. Import ListNotations.
From LS Require Import Base.Bytes Base.Res Header.Model Merge.Model Merge.Version Merge.Proofs
  Strategy.Model Shadow.Model Instance.Model Instance.SyncLoop Instance.Ids Instance.IdsProofs Instance.StepShapes Instance.ReceiveOnly Instance.LoopSim.
Open Scope N_scope.

(* (2) shadow mode: whenever a load transaction runs (it ends with shadowToMain), every application commit of
   this run has been captured into the shadow DBIs before the projection: either the transaction captures
   first (localChanged) or everything was captured already *)
Theorem C03_partial : forall l s,
  reach (step_nw true) (init l) s -> at_ s = Top ->
  let T := last s + 1 in
  let lc := synced s <? T - 1 in
  forall a, In a (apps s) -> a <= (if lc then last s else cap s).
Proof. exact (fun l s => captured_before_projection true l s eq_refl). Qed.
Print Assumptions C03_partial.

(* non-vacuity of C03_partial: a reachable idle state in shadow mode whose application commit was captured *)
Example C03_example :
  exists s, reach (step_nw true) (init 3) s /\ at_ s = Top /\ apps s = [4] /\ 
            (forall a, In a (apps s) -> a <= cap s).
Proof.
  eexists. split.
  - eapply r_step. eapply r_step. eapply r_step. eapply r_step. eapply r_step. apply r_init.
    + apply nw_app; cbn; [discriminate|tauto].
    + apply nw_other; [apply s_check_send; [reflexivity|cbn; lia]|reflexivity].
    + apply nw_other; [apply (s_send_txn true _ true); reflexivity|reflexivity].
    + apply nw_other; [eapply s_send_info; reflexivity|reflexivity].
    + apply nw_other; [eapply s_store_ok; reflexivity|reflexivity].
  - cbn. repeat split; try reflexivity. intros a [<-|[]]. lia.
Qed.

(* ... and with FORCED periodic snapshots (storage_force_snapshot_interval) allowed at every idle point: a pass
   that uploads although the loop saw no local change still captures first (SendOnce's transaction always does) *)
Theorem C03_partial_forced : forall l s,
  reach (step_nw_f true) (init l) s -> at_ s = Top ->
  let T := last s + 1 in
  let lc := synced s <? T - 1 in
  forall a, In a (apps s) -> a <= (if lc then last s else cap s).
Proof. exact (fun l s => captured_before_projection_f true l s eq_refl). Qed.
Print Assumptions C03_partial_forced.

(* the invariant behind it, for both modes: what counts as synced has been captured and published *)
Theorem C03_inv : forall shadow l s, reach (step_nw shadow) (init l) s -> inv shadow s.
Proof. exact inv_reach. Qed.

(* (1) the merge never replaces a stored version by one that does not win against it (native and shadow DBIs) *)
Theorem C03_merge_only_by_winner : forall c old h app e,
  cfg_ok c -> kv_ok e -> old <> [] -> parse old = Ok (h, app) ->
  exists v r, native_merge c old e = Ok v /\ ver_of v = Some r /\
    vle (mkVer (h_ts h) (is_deleted (h_flags h)) app) r.
Proof. exact merge_never_backwards. Qed.

(* FULL statement (every interleaving) is FALSE of the code: an application commit inside the window is
   counted as synced, is not captured, and the next projection reverts it (finding F8) *)
Theorem C03_refuted :
  exists s, reach (step true) (init 5) s /\ at_ s = Top /\ ~ (synced s < last s) /\
            exists a, In a (apps s) /\ pub s < a /\ cap s < a.
Proof. exact window_breaks_C09_C03. Qed.
Print Assumptions C03_refuted.

(* a receive-only instance (shadow mode) captures application changes exactly like any other instance: same
   environment afterwards, same transaction id; the option only suppresses the dump — so the bookkeeping
   theorems above apply to it unchanged and its application's writes are never reverted either *)
Theorem C03_receive_only_captures : forall c c2 e now cutoff e' T ds,
  i_receive_only c = true ->
  i_native c2 = i_native c -> i_duphack c2 = i_duphack c -> i_padding c2 = i_padding c ->
  i_cancelled c2 = i_cancelled c -> i_receive_only c2 = false ->
  send_txn c2 e now cutoff = Ok (e', T, ds) ->
  send_txn c e now cutoff = Ok (e', T, []).
Proof. exact send_receive_only_captures. Qed.
Print Assumptions C03_receive_only_captures.

(* ---- the tie between the two single-instance models ----
   The theorems above (and C09/C10) are about Instance/Ids.v, the abstract id bookkeeping with all interleavings;
   the correspondence replays the real syncLoop against Instance/SyncLoop.v, the executable machine. Every atomic
   step of the executable machine has exactly the shape Ids.step assumes of it (the order of the steps is the same
   program text in both): *)
Theorem C03_step_load_txn : forall c e s ls now cutoff e' T lc,
  load_txn c e s ls now cutoff = Ok (e', T, lc) ->
  T = e_last e + 1 /\ lc = (ls <? T - 1) /\ (e_last e' = e_last e \/ e_last e' = T).
Proof. exact load_txn_shape. Qed.
Theorem C03_step_send_txn : forall c e now cutoff e' T ds,
  send_txn c e now cutoff = Ok (e', T, ds) ->
  if i_native c then T = e_last e /\ e' = e
  else T = e_last e + 1 /\ (e_last e' = e_last e \/ e_last e' = T).
Proof. exact send_txn_shape. Qed.
(* at a yield point only application commits happen to the bookkeeping: LastTxnID + 1 each *)
Theorem C03_step_yield : forall p s,
  book (yield p s) = book s /\
  exists k, e_last (l_env (yield p s)) = e_last (l_env s) + k /\
            k = N.of_nat (length (filter is_app (match l_acts s with [] => [] | a :: _ => a end))).
Proof. exact yield_shape. Qed.
(* LoadOnce / SendOnce: transaction, yield, id adjustment against the LastTxnID found after that yield *)
Theorem C03_step_load_once : forall c s u s' id lc,
  load_once c s u = (s', Some (id, lc)) ->
  let s1 := yield P_load_begin s in
  exists e' T,
    load_txn c (l_env s1) (u_snap u) (l_synced s1) (now_of s1) 0 = Ok (e', T, lc) /\
    let s2 := yield P_load_after_txn (set_env s1 e') in
    id = adjust T (e_last (l_env s2)) /\
    l_synced s' = l_synced s /\
    l_env s' = l_env (yield P_load_end s2).
Proof. exact load_once_shape. Qed.
Theorem C03_step_send_once : forall c s s' id,
  send_once c s = (s', Some id) ->
  let s1 := yield P_send_begin s in
  exists e' T ds,
    send_txn c (l_env s1) (now_of s1) 0 = Ok (e', T, ds) /\
    let s2 := yield P_send_after_txn (set_env s1 e') in
    id = adjust T (e_last (l_env s2)).
Proof. exact send_once_shape. Qed.
Print Assumptions C03_step_load_once.
Print Assumptions C03_step_send_once.

(* ---- the ORDER of the steps too: the executable loop machine REFINES the abstract system ----
   Every complete pass of the machine's outer loop (the yield at the top, any number of LoadOnce calls with the
   loop's bookkeeping after each, the upload check, SendOnce with failing and succeeding Store calls, the idle
   sleep — with the application commits the schedule places at every yield point) is a sequence of steps of the
   abstract system between two Top states that carry the machine's LastTxnID and lastSyncedTxnID. So the states the
   replayed machine is in between two passes are reachable states of the system C03_inv / C10's cause invariant
   speak about (instance not receive-only: the abstract system has no such mode). *)
Theorem C03_loop_pass_refines : forall c, i_receive_only c = false ->
  forall fuel has_data s a s',
  R s a -> at_ a = Top -> loop_iter fuel c has_data s = (s', true) ->
  exists a', steps c a a' /\ at_ a' = Top /\ R s' a'.
Proof. exact loop_iter_sim. Qed.
Print Assumptions C03_loop_pass_refines.

Theorem C03_machine_states_are_reachable : forall c, i_receive_only c = false ->
  forall has_data s s',
  l_synced s = 0 -> passes c has_data s s' ->
  exists a', reach (step (negb (i_native c))) (init (e_last (l_env s))) a' /\ at_ a' = Top /\
             last a' = e_last (l_env s') /\ synced a' = l_synced s'.
Proof. exact machine_states_are_reachable. Qed.
Print Assumptions C03_machine_states_are_reachable.

(* non-vacuity: a concrete pass of the machine (native mode, one stored entry, nothing synced yet): it uploads once
   and goes on; by C03_loop_pass_refines it is a path of the abstract system *)
Definition ex_cfg := mkICfg true true false false false [].
Definition ex_env := mkEnv [([97], mkDbi 0 [([107], [0;0;0;0;0;0;0;5; 0;0;0;0;0;0;0;1; 0;0;0;0;0;0;0;0; 118])])] 1.
Definition ex_s := init_state ex_env [[];[];[];[];[];[];[];[];[];[];[];[]] 1000.
Example C03_pass_example :
  exists s', loop_iter 10 ex_cfg true ex_s = (s', true) /\ l_synced ex_s = 0 /\ l_synced s' = 1 /\ length (l_stores s') = 1%nat.
Proof. eexists. split; [vm_compute; reflexivity|]. vm_compute. repeat split. Qed.
