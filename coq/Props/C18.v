(* C18 — A snapshot is merged all-or-nothing, for every supported format version. Property theorems only.
   The merge is the function [load_txn : ... -> res (env * N * bool)]: on [Err] the caller keeps the old
   environment — the rollback itself and the isolation from concurrent readers are LMDB's (trusted). What is
   proved is that every failure, wherever it occurs, reaches that [Err]; and the version / transform /
   private-DBI rules. *)
From LS Require Import Base.Bytes Base.Res Header.Model Merge.Model Merge.Version Shadow.Model Instance.Model Instance.Proofs.
Open Scope N_scope.

(* a failure in ANY DBI of the snapshot, at any position, after any number of successfully merged DBIs,
   fails the whole per-DBI loop: nothing continues after an error *)
Theorem C18_no_partial_merge : forall c fmt compat T cutoff ds1 d ds2 st st1 x,
  load_dbis c fmt compat T cutoff ds1 st = Ok st1 ->
  load_one c fmt compat T cutoff d st1 = Err x ->
  load_dbis c fmt compat T cutoff (ds1 ++ d :: ds2) st = Err x.
Proof. exact load_dbis_fails. Qed.
Print Assumptions C18_no_partial_merge.

(* ... and with it the transaction *)
Theorem C18_txn_fails : forall c e s ls now cutoff st0 x,
  new_native_iterator (sn_fmt s) (sn_compat s) (e_last e + 1) = Ok tt ->
  (if negb (i_native c) && (ls <? e_last e + 1 - 1)
   then main_to_shadow_all c now (e_last e + 1) cutoff (e_dbis e, false) else Ok (e_dbis e, false)) = Ok st0 ->
  load_dbis c (sn_fmt s) (sn_compat s) (e_last e + 1) cutoff (sn_dbis s) st0 = Err x ->
  load_txn c e s ls now cutoff = Err x.
Proof. exact load_txn_fails_in_dbis. Qed.
Print Assumptions C18_txn_fails.

(* format version 0, or a compatibility version newer than this build (3): refused, whatever the snapshot
   contains — also when it contains no DBI at all (fix 1a70907) *)
Theorem C18_version_gate : forall c e s ls now cutoff,
  sn_fmt s = 0 \/ 3 < sn_compat s -> load_txn c e s ls now cutoff = Err ERefused.
Proof. exact version_gate. Qed.
Theorem C18_supported_versions_pass : forall fmt compat T,
  1 <= fmt -> compat <= 3 -> T <> 0 -> new_native_iterator fmt compat T = Ok tt.
Proof. exact version_gate_ok. Qed.
Print Assumptions C18_version_gate.

(* cancellation: with a cancelled context no snapshot DBI is merged-and-kept: the per-DBI step fails, so
   (C18_no_partial_merge) the transaction aborts instead of committing the DBIs merged so far *)
Theorem C18_cancel_aborts : forall c fmt compat T cutoff d st st',
  i_cancelled c = true -> has_prefix sync_prefix (sd_name d) = false ->
  load_one c fmt compat T cutoff d st <> Ok st'.
Proof. exact load_one_cancelled. Qed.
Print Assumptions C18_cancel_aborts.

(* transforms: exactly "" and "dupsort_hack_v1" are known; none is allowed in native mode; from format 3
   the DUPSORT flag and the transform must agree *)
Theorem C18_transform_rules : forall fmt native d,
  validate_transform fmt native d = Ok tt <->
  ((sd_transform d = [] \/ sd_transform d = transform_dupsort) /\
   (native = true -> sd_transform d = []) /\
   (3 <= fmt -> (has_flag (sd_flags d) DupSortFlag = true <-> sd_transform d = transform_dupsort))).
Proof. exact transform_rules. Qed.
Print Assumptions C18_transform_rules.

(* "a DBI that cannot be created safely": in shadow mode a snapshot older than format 3 does not state the flags
   of the application DBI; a DBI missing locally is then created only with an explicit override_create_flags
   for THAT DBI, otherwise the load fails as a whole; and the options of one DBI never influence another *)
Theorem C18_create_needs_v3_or_override : forall c fmt compat T cutoff d st,
  i_native c = false -> has_prefix sync_prefix (sd_name d) = false ->
  validate_transform fmt false d = Ok tt ->
  find_dbi (fst st) (sd_name d) = None ->
  override_of (i_override c) (sd_name d) = None -> fmt < 3 ->
  load_one c fmt compat T cutoff d st = Err ERefused.
Proof. exact load_one_refuses_old_format. Qed.
Theorem C18_override_is_per_dbi : forall c c' fmt compat T cutoff d st,
  i_native c' = i_native c -> i_padding c' = i_padding c -> i_cancelled c' = i_cancelled c ->
  override_of (i_override c') (sd_name d) = override_of (i_override c) (sd_name d) ->
  load_one c' fmt compat T cutoff d st = load_one c fmt compat T cutoff d st.
Proof. exact load_one_override_local. Qed.
Print Assumptions C18_override_is_per_dbi.

(* private bookkeeping DBIs found in a snapshot are ignored *)
Theorem C18_private_skipped : forall c fmt compat T cutoff d st,
  has_prefix sync_prefix (sd_name d) = true -> load_one c fmt compat T cutoff d st = Ok st.
Proof. exact private_skipped. Qed.

(* documented meaning of the old versions: in version 1 an empty value denotes a deletion; from version 2
   the deleted flag alone decides *)
Theorem C18_v1_empty_is_delete : forall c e, c_fmt c = 1 -> k_val e = [] -> del (norm c e) = true.
Proof. exact v1_empty_is_delete. Qed.
Theorem C18_v2_flags : forall c e, 2 <= c_fmt c -> del (norm c e) = is_deleted (masked_flags e).
Proof. exact v2_flags. Qed.
Print Assumptions C18_v2_flags.

(* non-vacuity: a two-DBI snapshot whose second DBI declares an unknown transform fails as a whole *)
Example C18_example :
  load_txn (mkICfg true true false false false []) (mkEnv [] 4)
    (mkSnap 3 1 [mkSDbi [97] 0 [] [mkKV [107] [118] 5 0]; mkSDbi [98] 0 [120] []]) 4 1000 0 = Err ERefused.
Proof. vm_compute. reflexivity. Qed.
