(* C10 — Syncing reaches quiescence: no echo uploads, no write amplification. Property theorems only. *)
From LS Require Import Base.Bytes Base.Res Header.Model Merge.Model Merge.Version Shadow.Model
  Instance.Model Instance.Proofs Instance.Ids Instance.IdsProofs.
Open Scope N_scope.

(* merging a snapshot that contains nothing newer than the local data commits NO LMDB transaction
   (the environment and LastTxnID are unchanged) and hands LastTxnID back to the loop — native mode, every
   format version, with and without the padding option, any number of DBIs incl. private ones *)
Theorem C10_noop_load_native : forall c e s ls now cutoff,
  i_native c = true -> i_cancelled c = false -> dbis_sorted (e_dbis e) ->
  new_native_iterator (sn_fmt s) (sn_compat s) (e_last e + 1) = Ok tt ->
  (forall d, In d (sn_dbis s) ->
     has_prefix sync_prefix (sd_name d) = true \/
     (has_prefix sync_prefix (sd_name d) = false /\ validate_transform (sn_fmt s) true d = Ok tt /\
      exists t, find_dbi (e_dbis e) (sd_name d) = Some t /\
        forall x, In x (sd_entries d) ->
          loses (mkCfg (sn_fmt s) 0 (e_last e + 1) (i_padding c) cutoff) (d_data t) (dbi_cmp (d_flags t)) x)) ->
  load_txn c e s ls now cutoff = Ok (e, e_last e + 1, ls <? e_last e + 1 - 1)
  /\ adjust_id (e_last e + 1) (e_last e) = e_last e.
Proof. exact load_txn_noop_native. Qed.
Print Assumptions C10_noop_load_native.
(* shadow mode: the same statement needs the mirror invariant (application DBIs = live shadow content); it is
   checked on the real code by the re-merge oracle of the `instance` area and on the model by the
   correspondence; not mechanised (C10_noop_load_shadow: see DESIGN.md). *)

(* no echo: after a load that found no local change, if no application commit follows, lastSynced = LastTxnID:
   the upload check finds nothing to send — every interleaving, both modes *)
Theorem C10_no_echo : forall shadow s T la,
  inv shadow s -> at_ s = LoadInfo T false la -> last s = la ->
  forall s', step shadow s s' -> apps s' = apps s -> synced s' = last s'.
Proof. exact no_echo. Qed.
Print Assumptions C10_no_echo.

(* an upload is only ever started because an application commit lies above lastSynced (or nothing was synced
   yet in this run: start-up) — for EVERY interleaving of application commits with the loop's steps *)
Theorem C10_upload_has_cause : forall shadow l s s',
  reach (step shadow) (init l) s -> step shadow s s' -> at_ s' = SendBegin -> apps s' = apps s ->
  synced s = 0 \/ exists a, In a (apps s) /\ synced s < a <= last s.
Proof. exact upload_has_cause. Qed.
Print Assumptions C10_upload_has_cause.

Example C10_example :
  let e := mkEnv [([97], mkDbi 0 [([107], be64 9 ++ be64 3 ++ [0;0;0;0;0;0;0;0] ++ [118])])] 3 in
  load_txn (mkICfg true true false false false) e (mkSnap 3 1 [mkSDbi [97] 0 [] [mkKV [107] [119] 8 0]]) 3 1000 0
  = Ok (e, 4, false).
Proof. vm_compute. reflexivity. Qed.
