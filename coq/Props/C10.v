(* C10 — Syncing reaches quiescence: no echo uploads, no write amplification. Property theorems only. *)
From LS Require Import Base.Bytes Base.Res Header.Model Merge.Model Merge.Version Shadow.Model
  Strategy.Model Strategy.Order Strategy.Proofs
  Instance.Model Instance.Proofs Instance.ShadowNoop Instance.SyncLoop Instance.Ids Instance.IdsProofs Instance.IdsQuiesce Instance.StepShapes Instance.LoopQuiet Instance.FleetQuiet.
Open Scope N_scope.

(* merging a snapshot that contains nothing newer than the local data commits NO LMDB transaction
   (the environment and LastTxnID are unchanged) and hands LastTxnID back to the loop — native mode, every
   format version, with and without the padding option, any number of DBIs incl. private ones *)
Theorem C10_noop_load_native : forall c e s ls now cutoff,
  i_native c = true -> i_cancelled c = false -> dbis_sorted (e_dbis e) ->
  new_native_iterator (sn_fmt s) (sn_compat s) (e_last e + 1) = Ok tt ->
  (forall d, In d (sn_dbis s) ->
     has_prefix sync_prefix (sd_name d) = true \/
     (has_prefix sync_prefix (sd_name d) = false /\ validate_transform (sn_fmt s) true d = Ok tt /\
      exists t, find_dbi (e_dbis e) (sd_name d) = Some t /\
        forall x, In x (sd_entries d) ->
          loses (mkCfg (sn_fmt s) 0 (e_last e + 1) (i_padding c) cutoff) (d_data t) (dbi_cmp (d_flags t)) x)) ->
  load_txn c e s ls now cutoff = Ok (e, e_last e + 1, ls <? e_last e + 1 - 1)
  /\ adjust_id (e_last e + 1) (e_last e) = e_last e.
Proof. exact load_txn_noop_native. Qed.
Print Assumptions C10_noop_load_native.
(* shadow mode, DBIs without the dupsort hack. The projection onto the application DBI is a function of the
   shadow DBI alone: whatever the application DBI held, after shadowToMain it is exactly [proj] of the shadow
   entries (the live entries with a non-empty value, in key order) — so LoadOnce itself establishes the
   mirror invariant [mirrored] that the no-op statement below assumes *)
Theorem C10_projection_exact : forall flags dom main shadow l,
  ord_ok (dbi_cmp flags) dom ->
  sorted (dbi_cmp flags) dom (keys shadow) -> Forall dom (keys main) ->
  read_hdr shadow = Ok l ->
  shadow_to_main flags main shadow = Ok (proj l).
Proof. exact shadow_to_main_exact. Qed.
Print Assumptions C10_projection_exact.

(* shadow mode: no local change since the last sync, a snapshot with nothing newer than the shadow DBIs,
   every public DBI mirrored (not DUPSORT): the transaction commits NOTHING (environment and LastTxnID
   unchanged), reports localChanged = false and hands LastTxnID back, so no upload follows — every format
   version, with and without padding, any number of DBIs incl. private ones *)
Theorem C10_noop_load_shadow : forall c e s ls now cutoff,
  i_native c = false -> i_cancelled c = false -> dbis_sorted (e_dbis e) ->
  e_last e <= ls ->
  new_native_iterator (sn_fmt s) (sn_compat s) (e_last e + 1) = Ok tt ->
  (forall d, In d (sn_dbis s) -> nothing_newer c (sn_fmt s) (e_last e + 1) cutoff (e_dbis e) d) ->
  (forall name, In name (dbi_names (e_dbis e)) -> has_prefix sync_prefix name = false -> mirrored (e_dbis e) name) ->
  load_txn c e s ls now cutoff = Ok (e, e_last e + 1, false)
  /\ adjust_id (e_last e + 1) (e_last e) = e_last e.
Proof. exact load_txn_noop_shadow. Qed.
Print Assumptions C10_noop_load_shadow.
(* with the dupsort hack the application DBI is rebuilt (Drop + Put) on every load — that transaction is
   always recorded; the property exempts it ("for DBIs without the dupsort hack") *)

(* non-vacuity: a mirrored environment (application DBI "a" = {k: v}, shadow entry (ts 5, v)), a snapshot
   carrying an OLDER version of k: nothing is committed *)
Example C10_noop_shadow_example :
  let sh := [([107], be64 5 ++ be64 3 ++ [0;0;0;0;0;0;0;0] ++ [118])] in
  let e := mkEnv [(shadow_prefix ++ [97], mkDbi 0 sh); ([97], mkDbi 0 [([107], [118])])] 4 in
  load_txn (mkICfg false false false false false []) e
    (mkSnap 3 1 [mkSDbi [97] 0 [] [mkKV [107] [119] 3 0]]) 4 1000 0 = Ok (e, 5, false).
Proof. vm_compute. reflexivity. Qed.

(* no echo: after a load that found no local change, if no application commit follows, lastSynced = LastTxnID:
   the upload check finds nothing to send — every interleaving, both modes *)
Theorem C10_no_echo : forall shadow s T la,
  inv shadow s -> at_ s = LoadInfo T false la -> last s = la ->
  forall s', step shadow s s' -> apps s' = apps s -> synced s' = last s'.
Proof. exact no_echo. Qed.
Print Assumptions C10_no_echo.

(* an upload is only ever started because an application commit lies above lastSynced (or nothing was synced
   yet in this run: start-up) — for EVERY interleaving of application commits with the loop's steps *)
Theorem C10_upload_has_cause : forall shadow l s s',
  reach (step shadow) (init l) s -> step shadow s s' -> at_ s' = SendBegin -> apps s' = apps s ->
  synced s = 0 \/ exists a, In a (apps s) /\ synced s < a <= last s.
Proof. exact upload_has_cause. Qed.
Print Assumptions C10_upload_has_cause.

(* "after applications stop writing, the fleet stops producing snapshots after a bounded number of
   exchanges": in a run WITHOUT application commits an instance completes at most two more uploads (the one in
   flight, and one for a commit that arrived while it was in flight) from ANY state of the loop, through any
   number of snapshot loads, dirty or not, with Store failures, native and shadow mode alike; n instances
   hence produce at most 2n further snapshots *)
Theorem C10_bounded_uploads : forall shadow s k s', quiet shadow s k s' -> (k <= 2)%nat.
Proof. exact quiet_bounded. Qed.
Print Assumptions C10_bounded_uploads.
(* from the top of the loop: at most one *)
Theorem C10_pending_once : forall shadow s k s', at_ s = Top -> quiet shadow s k s' -> (k <= 1)%nat.
Proof. exact quiet_pending. Qed.
(* an idle instance (top of the loop, lastSynced = LastTxnID) never uploads again however many remote
   snapshots it merges, and is idle again at every later visit of the top of the loop: no feedback loop *)
Theorem C10_idle_forever : forall shadow s k s',
  at_ s = Top -> ~ (synced s < last s) -> quiet shadow s k s' ->
  k = 0%nat /\ (at_ s' = Top -> ~ (synced s' < last s')).
Proof. exact quiet_idle. Qed.
Print Assumptions C10_idle_forever.
(* non-vacuity: a pending change is uploaded exactly once along this quiet run (k = 1) *)
Example C10_quiet_example :
  exists k, quiet false (mkSt 5 3 0 3 [5] Top) k (mkSt 5 5 0 5 [5] Top) /\ k = 1%nat.
Proof.
  eexists. split.
  - eapply q_step; [exact (s_check_send false (mkSt 5 3 0 3 [5] Top) eq_refl ltac:(cbn; lia))|reflexivity|].
    eapply q_step; [exact (s_send_txn false (mkSt 5 3 0 3 [5] SendBegin) false eq_refl)|reflexivity|].
    eapply q_step; [exact (s_send_info false (mkSt 5 3 0 3 [5] (SendInfo 5 5 5)) 5 5 5 eq_refl)|reflexivity|].
    eapply q_step; [exact (s_store_ok false (mkSt 5 3 0 3 [5] (Storing 5 5)) 5 5 eq_refl)|reflexivity|].
    apply q_nil.
  - reflexivity.
Qed.

(* the fleet-level form, as a theorem: n instances, each in its own mode, interleaved in ANY order (the loads
   of Ids.step accept any snapshot, so the uploads of one instance reaching the others are already among every
   instance's own steps). Without application commits the whole fleet completes at most 2n further uploads from
   ANY combination of loop states, and not a single one once every instance is idle: no feedback loop between
   instances *)
Theorem C10_fleet_bounded_uploads : forall (mode : nat -> bool) f k f',
  fquiet mode f k f' -> (k <= 2 * length f)%nat.
Proof. exact fleet_quiet_bounded. Qed.
Print Assumptions C10_fleet_bounded_uploads.
Theorem C10_fleet_idle_forever : forall (mode : nat -> bool) f k f',
  all_idle f -> fquiet mode f k f' -> k = 0%nat.
Proof. exact fleet_idle_forever. Qed.
Print Assumptions C10_fleet_idle_forever.
(* non-vacuity: a native instance with a pending change next to an idle shadow-mode instance: one upload *)
Example C10_fleet_example :
  exists k f', fquiet (fun i => Nat.eqb i 1) [mkSt 5 3 0 3 [5] Top; mkSt 7 7 0 7 [7] Top] k f' /\ k = 1%nat
               /\ all_idle f'.
Proof.
  eexists. eexists. split; [|split].
  - eapply (fq_step _ _ 0%nat); [reflexivity|exact (s_check_send false (mkSt 5 3 0 3 [5] Top) eq_refl ltac:(cbn; lia))|reflexivity|].
    cbn [upd_nth].
    eapply (fq_step _ _ 0%nat); [reflexivity|exact (s_send_txn false (mkSt 5 3 0 3 [5] SendBegin) false eq_refl)|reflexivity|].
    cbn [upd_nth].
    eapply (fq_step _ _ 0%nat); [reflexivity|exact (s_send_info false (mkSt 5 3 0 3 [5] (SendInfo 5 5 5)) 5 5 5 eq_refl)|reflexivity|].
    cbn [upd_nth].
    eapply (fq_step _ _ 0%nat); [reflexivity|exact (s_store_ok false (mkSt 5 3 0 3 [5] (Storing 5 5)) 5 5 eq_refl)|reflexivity|].
    cbn [upd_nth]. apply fq_nil.
  - reflexivity.
  - repeat constructor; cbn; lia.
Qed.

(* the same one level down, on the EXECUTABLE loop machine that is replayed against the real syncLoop, with
   the real LoadOnce transaction: an idle instance (lastSynced = LastTxnID) whose schedule contains no further
   application commit uploads nothing in any later pass — whatever snapshots are injected, in both modes,
   whether or not the loads change the LMDB — and is idle again after every pass it survives *)
Theorem C10_idle_pass_executable : forall fuel c has_data s s' alive,
  idle s -> loop_iter fuel c has_data s = (s', alive) ->
  l_stores s' = l_stores s /\ (alive = true -> idle s').
Proof. exact loop_iter_idle. Qed.
Theorem C10_idle_forever_executable : forall c has_data fuel s,
  idle s -> l_stores (outer_loop fuel c has_data s) = l_stores s.
Proof. exact outer_loop_idle. Qed.
Print Assumptions C10_idle_forever_executable.
(* non-vacuity: a freshly started instance on an empty LMDB with two snapshots still to be injected is idle *)
Example C10_idle_example :
  idle (init_state (mkEnv [] 0)
          [[]; [AInject (mkUpd [98] 7 (mkSnap 3 1 [mkSDbi [97] 0 [] [mkKV [107] [118] 5 0]]))]; []] 1000).
Proof. split; [reflexivity|]. repeat constructor. Qed.

Example C10_example :
  let e := mkEnv [([97], mkDbi 0 [([107], be64 9 ++ be64 3 ++ [0;0;0;0;0;0;0;0] ++ [118])])] 3 in
  load_txn (mkICfg true true false false false []) e (mkSnap 3 1 [mkSDbi [97] 0 [] [mkKV [107] [119] 8 0]]) 3 1000 0
  = Ok (e, 4, false).
Proof. vm_compute. reflexivity. Qed.
