(* C01 — Replicas converge to the per-key last-writer-wins winner. Property theorems only.
   Level 1 (Fleet): any number of instances; writes, uploads and merges of ANY uploaded snapshot in any order.
   Level 2 (Refine): the byte-level merge of a snapshot DBI (as LoadOnce runs it) computes that join key by key,
   and a dumped entry denotes exactly the stored version. Tomb sweeper disabled (cutoff 0), as the property says. *)
From LS Require Import Base.Bytes Base.Res Header.Model Merge.Model Merge.Version Merge.Order Merge.Proofs Merge.Fold
  Strategy.Model Strategy.Order Strategy.Proofs Shadow.Model Shadow.Proofs Fleet.Model Fleet.Proofs Fleet.Refine Corr.Run_fleet Fleet.Replay.
Open Scope N_scope.

(* convergence: in every reachable quiescent state every instance holds, for every key, a version that
   (a) is at least as new as every version ever written anywhere, (b) is itself one of the written versions,
   hence is THE last-writer-wins winner, and (c) is identical on all instances *)
Theorem C01_convergence : forall (K : Type) (K_eq_dec : forall a b : K, {a = b} + {a <> b}) n s,
  freach K K_eq_dec (finit K) s -> quiescent K n s ->
  forall i k, (i < n)%nat ->
    (forall v, written_k K s k v -> ole (Some v) (st K s i k)) /\
    from_written K s (st K s i k) k /\
    (forall j, (j < n)%nat -> st K s i k = st K s j k).
Proof. exact convergence. Qed.
Print Assumptions C01_convergence.

(* the winner is well defined: the order is total and antisymmetric (fixed, order-independent tie-break) *)
Theorem C01_winner_unique : forall (P : ver -> Prop) a b,
  P a -> P b -> (forall v, P v -> vle v a) -> (forall v, P v -> vle v b) -> a = b.
Proof. exact winner_unique. Qed.
Theorem C01_total : forall a b, wins a b = false -> wins b a = false -> a = b.
Proof. exact wins_total. Qed.

(* no instance ever moves a key backwards, whatever happens — short of losing that instance's LMDB itself
   (f_reset: restart under the same name with an emptied or rolled-back LMDB; convergence above covers it) *)
Theorem C01_monotone : forall (K : Type) (K_eq_dec : forall a b : K, {a = b} + {a <> b}) s s',
  fstep K K_eq_dec s s' ->
  forall i, (forall k, ole (st K s i k) (st K s' i k)) \/
            (exists g, s' = mkSys K (upd_inst K (st K s) i g) (snaps K s) (written K s)).
Proof. exact stores_monotone. Qed.
Print Assumptions C01_monotone.

(* refinement of Merge: LoadOnce's per-DBI step, byte level, any DBI order (bytes / integer keys) *)
Theorem C01_refine_load : forall cmp dom, ord_ok cmp dom -> forall c d l r,
  snap_cfg c -> c_cutoff c = 0 ->
  sorted cmp dom (keys d) -> Forall dom (ekeys kv k_key l) -> Forall kv_ok l ->
  update cmp kv k_key (fun e old => native_merge c old e) d l = Ok r ->
  sorted cmp dom (keys r) /\
  forall k, dom k ->
    match entries_for cmp l k with
    | [] => dget cmp r k = dget cmp d k
    | e :: es =>
        match dget cmp d k with
        | [] => ver_of (dget cmp r k) = Some (joinl (norm c e) (map (norm c) es))
        | old => exists o, ver_of old = Some o /\
                           ver_of (dget cmp r k) = Some (joinl o (map (norm c) (e :: es)))
        end
    end.
Proof. exact load_dbi_refines. Qed.
Print Assumptions C01_refine_load.

(* refinement of Upload: a dumped entry denotes exactly the stored version *)
Theorem C01_refine_send : forall c v h app,
  c_fmt c = 3 -> c_default_ts c = 0 ->
  parse v = Ok (h, app) -> (is_deleted (h_flags h) = true -> app = []) ->
  norm c (mkKV [] app (h_ts h) (masked (h_flags h))) = mkVer (h_ts h) (is_deleted (h_flags h)) app.
Proof. exact dump_entry_denotes. Qed.

(* non-native mode: the application DBI is a function of the merged shadow state, so instances whose shadow
   DBIs hold the same versions have identical application DBIs (C11_project gives the function) *)
Theorem C01_identical_app_dbis : forall flags dom m1 sh1 m1' m2 sh2 m2',
  ord_ok (dbi_cmp flags) dom ->
  sorted (dbi_cmp flags) dom (keys m1) -> sorted (dbi_cmp flags) dom (keys sh1) ->
  sorted (dbi_cmp flags) dom (keys m2) -> sorted (dbi_cmp flags) dom (keys sh2) ->
  shadow_to_main flags m1 sh1 = Ok m1' -> shadow_to_main flags m2 sh2 = Ok m2' ->
  forall k, dom k ->
    ver_of (dget (dbi_cmp flags) sh1 k) = ver_of (dget (dbi_cmp flags) sh2 k) ->
    dget (dbi_cmp flags) m1' k = dget (dbi_cmp flags) m2' k.
Proof.
  intros flags dom m1 sh1 m1' m2 sh2 m2' ORD S1 S2 S3 S4 H1 H2 k Hk E.
  destruct (shadow_to_main_spec flags dom m1 sh1 m1' ORD S1 S2 H1) as [_ P1].
  destruct (shadow_to_main_spec flags dom m2 sh2 m2' ORD S3 S4 H2) as [_ P2].
  rewrite (P1 k Hk), (P2 k Hk), E. reflexivity.
Qed.
Print Assumptions C01_identical_app_dbis.

(* regression: with the pre-fix tie rule two instances could end with del@T and live ""@T forever *)
Example C01_prefix_tie_diverges :
  let a := mkVer 5 true [] in let b := mkVer 5 false [] in
  (if (ts b <? ts a) || ((ts a =? ts b) && is_lt (bcmp (val a) (val b))) then a else b) <>
  (if (ts a <? ts b) || ((ts b =? ts a) && is_lt (bcmp (val b) (val a))) then b else a).
Proof. vm_compute. discriminate. Qed.

(* non-vacuity: two instances, one key, crossing writes with EQUAL timestamps, snapshots merged both ways *)
Example C01_example :
  let K := nat in
  let s0 := finit K in
  exists s, freach K Nat.eq_dec s0 s /\ st K s 0%nat 7%nat = st K s 1%nat 7%nat
            /\ st K s 0%nat 7%nat = Some (mkVer 5 false [97]).
Proof.
  cbv zeta.
  eexists. split.
  - eapply fr_step. eapply fr_step. eapply fr_step. eapply fr_step. eapply fr_step. eapply fr_step. apply fr_init.
    + apply (f_write nat Nat.eq_dec _ 0%nat 7%nat (mkVer 5 false [98])). exact I.
    + apply (f_write nat Nat.eq_dec _ 1%nat 7%nat (mkVer 5 false [97])). exact I.
    + apply (f_upload nat Nat.eq_dec _ 0%nat).
    + apply (f_upload nat Nat.eq_dec _ 1%nat).
    + eapply (f_merge nat Nat.eq_dec _ 0%nat). right. left. reflexivity.
    + eapply (f_merge nat Nat.eq_dec _ 1%nat). left. reflexivity.
  - split; vm_compute; reflexivity.
Qed.

(* the executable replay of the correspondence check (Corr/Run_fleet.v) only produces states of this proven
   system: the histories real fleets are compared on are paths of fstep *)
Theorem C01_replay_is_reachable : forall l s,
  frun (finit Run_fleet.K) l = Some s -> freach Run_fleet.K Run_fleet.K_eq_dec (finit Run_fleet.K) s.
Proof. exact frun_init_reach. Qed.
Print Assumptions C01_replay_is_reachable.

(* non-vacuity of C01_convergence, with a RESET on the way: instance 0 writes and uploads, loses its LMDB, writes
   another key before its old data is back, merges its own old snapshot, uploads; instance 1 merges, uploads;
   instance 0 merges: the state is reachable AND quiescent for the fleet {0, 1} *)
Definition v7 := mkVer 5 false [98].
Definition u8 := mkVer 9 false [99].

Example C01_reset_example :
  exists s, freach bool Bool.bool_dec (finit bool) s /\ quiescent bool 2 s /\
            st bool s 0%nat true = Some v7 /\ st bool s 1%nat false = Some u8.
Proof.
  eexists. split.
  - eapply fr_step. eapply fr_step. eapply fr_step. eapply fr_step. eapply fr_step. eapply fr_step.
    eapply fr_step. eapply fr_step. eapply fr_step. apply fr_init.
    + apply (f_write bool Bool.bool_dec _ 0%nat true v7). exact I.
    + apply (f_upload bool Bool.bool_dec _ 0%nat).
    + apply (f_reset bool Bool.bool_dec _ 0%nat (fun _ => None)). intros k. exact I.
    + apply (f_write bool Bool.bool_dec _ 0%nat false u8). vm_compute. exact I.
    + eapply (f_merge bool Bool.bool_dec _ 0%nat). left. reflexivity.
    + apply (f_upload bool Bool.bool_dec _ 0%nat).
    + eapply (f_merge bool Bool.bool_dec _ 1%nat). right. left. reflexivity.
    + apply (f_upload bool Bool.bool_dec _ 1%nat).
    + eapply (f_merge bool Bool.bool_dec _ 0%nat). right. right. left. reflexivity.
  - split; [|split; vm_compute; reflexivity].
    split.
    + cbn [written]. intros j k v [E|[E|[]]]; inversion E; subst; lia.
    + intros i j Hi Hj.
      assert (Hc : (i = 0 \/ i = 1)%nat) by lia. assert (Hd : (j = 0 \/ j = 1)%nat) by lia.
      destruct Hd as [-> | ->].
      * (* newest snapshot of 0: the second upload of 0 *)
        eexists. split; [right; left; reflexivity|]. split; [reflexivity|]. split.
        -- cbn [written]. intros k v [E|[E|[]]]; inversion E; subst; vm_compute; left; reflexivity.
        -- intros k. destruct Hc as [-> | ->]; destruct k; vm_compute; left; reflexivity.
      * eexists. split; [right; right; left; reflexivity|]. split; [reflexivity|]. split.
        -- cbn [written]. intros k v [E|[E|[]]]; inversion E.
        -- intros k. destruct Hc as [-> | ->]; destruct k; vm_compute; left; reflexivity.
Qed.
