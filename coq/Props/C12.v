(* C12 — The snapshot cleaner never deletes what is still needed.
   Property theorems only; every proof is [exact <lemma>].

   Reading guide.  [parse] is snapshot.ParseName reduced to what the cleaner uses (any function);
   [prefix] is the List prefix (cleaner.New: database name ++ "__"); [cf] the config.Cleanup;
   [h] ANY history of events since cleaner.New — [Run bucket now del_fail] (a RunOnce at clock [now]
   whose List succeeds on a bucket holding [bucket], Delete failing for the names in [del_fail]),
   [ListFails], [SetCommitted m] — and the theorems speak about the calls the NEXT run makes on the
   storage backend: [deleted_names log] are the names handed to Delete.  Since [h] is arbitrary, this
   is every run of every history.  Times are nanoseconds (Z); [first_seen parse prefix h n] is when
   the worker first saw [n], forgotten whenever a successful listing does not contain [n] as a
   snapshot candidate. *)
From LS Require Instance.Model Instance.SyncLoop Instance.Committed.
From LS Require Import Base.Bytes Cleaner.Model Cleaner.Proofs.
From Coq Require Import Permutation.
Open Scope Z_scope.

(* only listed, parseable, kind-snapshot names under the database prefix are ever deleted *)
Theorem C12_only_snapshots : forall parse prefix cf h bucket now del_fail n,
  In n (deleted_names (snd (step parse prefix cf (hist_state parse prefix cf h) (Run bucket now del_fail)))) ->
  In n bucket /\ has_prefix prefix n = true /\ exists p, parse n = Some p /\ p_snap p = true.
Proof. exact only_snapshots. Qed.
Print Assumptions C12_only_snapshots.

(* a deleted name has been tracked by this worker for more than MustKeepInterval; tracking restarts
   when the name disappears from a listing and reappears (see [first_seen_rev]) *)
Theorem C12_keep_interval : forall parse prefix cf h bucket now del_fail n,
  min_i64 <= cf_keep cf -> NoDup bucket ->
  In n (deleted_names (snd (step parse prefix cf (hist_state parse prefix cf h) (Run bucket now del_fail)))) ->
  exists t, first_seen parse prefix h n = Some t /\ cf_keep cf < now - t.
Proof. exact keep_interval. Qed.
Print Assumptions C12_keep_interval.

(* the newest snapshot of an instance goes only when the instance is stale AND the snapshot is
   covered by what this instance committed.  Hypotheses (the property's): the listing names each
   blob once, timestamps are distinct per instance, names of an instance appeared in timestamp
   order (an older one has been tracked at least as long as a newer one) *)
Theorem C12_newest_protected : forall parse prefix cf h bucket now del_fail c,
  min_i64 <= cf_rem cf ->
  nodupb bucket = true ->
  distinct_ts (bucket_cands parse prefix bucket) = true ->
  in_order_at parse prefix h bucket now = true ->
  In c (bucket_cands parse prefix bucket) ->
  (forall m, In m (bucket_cands parse prefix bucket) -> c_inst m = c_inst c -> c_ts m <= c_ts c) ->
  In (c_name c) (deleted_names (snd (step parse prefix cf (hist_state parse prefix cf h) (Run bucket now del_fail)))) ->
  cf_rem cf < now - c_ts c /\ c_ts c <= last_committed h (c_inst c).
Proof. exact newest_protected. Qed.
Print Assumptions C12_newest_protected.

(* [last_committed] above is what the worker really holds: the latest SetCommitted value naming
   the instance (SetCommitted copies; nothing else writes it), the zero time when there is none *)
Theorem C12_committed_is_latest : forall parse prefix cf h i,
  get_committed (ws_committed (hist_state parse prefix cf h)) i = last_committed h i.
Proof. exact committed_is_latest. Qed.
Print Assumptions C12_committed_is_latest.

(* the in-order hypothesis stated once for a whole history yields the three hypotheses above at
   each of its runs *)
Theorem C12_in_order_hist : forall parse prefix h bucket now del_fail rest,
  in_order_hist parse prefix (h ++ Run bucket now del_fail :: rest) = true ->
  in_order_at parse prefix h bucket now = true /\ nodupb bucket = true /\
  distinct_ts (bucket_cands parse prefix bucket) = true.
Proof. exact in_order_hist_run. Qed.
Print Assumptions C12_in_order_hist.

(* superseded files go: after a run whose Deletes all succeed, per instance at most ONE snapshot
   first seen more than MustKeepInterval ago is left in the bucket *)
Theorem C12_bounded : forall parse prefix cf h bucket now del_fail c1 c2 t1 t2,
  cf_enabled cf = true -> cf_keep cf < max_i64 -> NoDup bucket ->
  let log := snd (step parse prefix cf (hist_state parse prefix cf h) (Run bucket now del_fail)) in
  all_deletes_ok log = true ->
  In c1 (bucket_cands parse prefix (bucket_after bucket log)) ->
  In c2 (bucket_cands parse prefix (bucket_after bucket log)) ->
  c_inst c1 = c_inst c2 ->
  first_seen parse prefix h (c_name c1) = Some t1 -> cf_keep cf < now - t1 ->
  first_seen parse prefix h (c_name c2) = Some t2 -> cf_keep cf < now - t2 ->
  c1 = c2.
Proof. exact bounded. Qed.
Print Assumptions C12_bounded.

(* storage errors: a failing List deletes nothing and changes nothing *)
Theorem C12_errors_safe_list : forall parse prefix cf ws,
  fst (step parse prefix cf ws ListFails) = ws /\
  deleted_names (snd (step parse prefix cf ws ListFails)) = [].
Proof. exact list_fails_safe. Qed.
Print Assumptions C12_errors_safe_list.

(* ... and failing Deletes change no other decision of the run: same state afterwards, the same
   sequence of Delete calls, the same List call; a call's outcome is only the backend's answer *)
Theorem C12_errors_safe_delete : forall parse prefix cf ws bucket now df df',
  fst (step parse prefix cf ws (Run bucket now df)) = fst (step parse prefix cf ws (Run bucket now df')) /\
  deleted_names (snd (step parse prefix cf ws (Run bucket now df))) =
    deleted_names (snd (step parse prefix cf ws (Run bucket now df'))) /\
  listed (snd (step parse prefix cf ws (Run bucket now df))) =
    listed (snd (step parse prefix cf ws (Run bucket now df'))) /\
  (forall n ok, In (BDelete n ok) (snd (step parse prefix cf ws (Run bucket now df))) -> ok = negb (mem n df)).
Proof. exact delete_fails_safe. Qed.
Print Assumptions C12_errors_safe_delete.

(* Enabled = false: no List, no Delete, no bookkeeping — for every event of every history;
   receive-only mode forces Enabled = false, stores nothing and notifies nothing *)
Theorem C12_disabled : forall parse prefix cf h e,
  cf_enabled cf = false ->
  snd (step parse prefix cf (hist_state parse prefix cf h) e) = [] /\
  ws_st (hist_state parse prefix cf (h ++ [e])) = ws_st ws0.
Proof. exact disabled_no_calls. Qed.
Print Assumptions C12_disabled.

Theorem C12_receive_only : forall c ok last,
  cf_enabled (syncer_cleanup_conf true c) = false /\ send_once_tail true ok last = (0%N, []) /\
  send_once_tail false false last = (0%N, []).
Proof. exact receive_only_all. Qed.
Print Assumptions C12_receive_only.

(* slices.SortFunc is not stable, and its algorithm is not part of the property: with timestamps
   distinct per instance, ANY newest-first arrangement of the candidates hands the same set of
   names to Delete (ties between different instances are harmless) *)
Theorem C12_any_sort : forall cf committed fs1 cands s1 s2 now,
  Permutation cands s1 -> newest_first s1 -> Permutation cands s2 -> newest_first s2 ->
  NoDup (map c_name cands) ->
  (forall a b, In a cands -> In b cands -> c_inst a = c_inst b -> c_ts a = c_ts b -> a = b) ->
  forall n, In n (del_names cf committed fs1 s1 now) <-> In n (del_names cf committed fs1 s2 now).
Proof. exact core_any_sort. Qed.
Print Assumptions C12_any_sort.

(* the in-order hypothesis cannot be dropped: with every other hypothesis of C12_newest_protected
   in place, an older snapshot that is first listed late marks its instance "recent" and the true
   newest snapshot of a live instance is handed to Delete *)
Theorem C12_out_of_order_refuted :
  exists parse prefix cf h bucket now c,
    conf_ok cf /\ cf_enabled cf = true /\ nodupb bucket = true /\
    distinct_ts (bucket_cands parse prefix bucket) = true /\
    In c (bucket_cands parse prefix bucket) /\
    (forall m, In m (bucket_cands parse prefix bucket) -> c_inst m = c_inst c -> c_ts m <= c_ts c) /\
    In (c_name c) (deleted_names (snd (step parse prefix cf (hist_state parse prefix cf h) (Run bucket now [])))) /\
    in_order_at parse prefix h bucket now = false /\
    ~ (cf_rem cf < now - c_ts c).
Proof. exact out_of_order_witness. Qed.
Print Assumptions C12_out_of_order_refuted.

(* ---- the wiring in the sync loop (executable loop machine, replayed against the real syncLoop) ----
   the cleaner's "committed" table is written only by a SUCCESSFUL upload of an own snapshot, with exactly the
   snapshots merged so far; a failed upload (retry budget exhausted), a receive-only instance and LoadOnce never
   write it *)
Theorem C12_committed_only_after_store : forall c s s' r,
  LS.Instance.SyncLoop.send_once c s = (s', r) ->
  LS.Instance.SyncLoop.l_last_by s' = LS.Instance.SyncLoop.l_last_by s /\
  match r with
  | Some _ =>
      if LS.Instance.Model.i_receive_only c
      then LS.Instance.SyncLoop.l_committed s' = LS.Instance.SyncLoop.l_committed s /\
           LS.Instance.SyncLoop.l_stores s' = LS.Instance.SyncLoop.l_stores s
      else LS.Instance.SyncLoop.l_committed s' = LS.Instance.SyncLoop.l_last_by s /\
           exists x, LS.Instance.SyncLoop.l_stores s' = x :: LS.Instance.SyncLoop.l_stores s
  | None => LS.Instance.SyncLoop.l_committed s' = LS.Instance.SyncLoop.l_committed s /\
            LS.Instance.SyncLoop.l_stores s' = LS.Instance.SyncLoop.l_stores s
  end.
Proof. exact LS.Instance.Committed.send_once_committed. Qed.
Print Assumptions C12_committed_only_after_store.
Theorem C12_load_never_commits : forall c s u s' r,
  LS.Instance.SyncLoop.load_once c s u = (s', r) ->
  LS.Instance.SyncLoop.l_committed s' = LS.Instance.SyncLoop.l_committed s /\
  LS.Instance.SyncLoop.l_stores s' = LS.Instance.SyncLoop.l_stores s /\
  match r with
  | Some _ => LS.Instance.SyncLoop.l_last_by s' =
              LS.Instance.SyncLoop.assoc_set (LS.Instance.SyncLoop.l_last_by s) (LS.Instance.SyncLoop.u_inst u) (LS.Instance.SyncLoop.u_ts u)
  | None => LS.Instance.SyncLoop.l_last_by s' = LS.Instance.SyncLoop.l_last_by s
  end.
Proof. exact LS.Instance.Committed.load_once_committed. Qed.
Print Assumptions C12_load_never_commits.

(* ---- non-vacuity ---- *)
(* database "d" (prefix "d__" = [100;95;95]); instance [7] has an old and a new snapshot, instance
   [8] one stale snapshot that was committed; a foreign file, another database's snapshot, an
   unparsable name and a non-snapshot kind are in the bucket as well *)
Definition ex_pfx : bytes := new_prefix [100]%N.
Definition ex_n (k : N) : name := ex_pfx ++ [k].
Definition ex_parse : parser := parse_tbl
  [(ex_n 1, mkP [7]%N 1000 true); (ex_n 2, mkP [7]%N 2000 true); (ex_n 3, mkP [8]%N 500 true);
   (ex_n 5, mkP [7]%N 3000 false); ([100;50;95;95;1]%N, mkP [7]%N 100 true)].
Definition ex_bucket : list name := [ex_n 1; ex_n 2; ex_n 3; ex_n 4; ex_n 5; [100;50;95;95;1]%N; [120]%N].
Definition ex_conf : conf := mkConf true 600 100000.
Definition ex_hist : list event :=
  [Run ex_bucket 200000 []; SetCommitted [([8]%N, 500)]; ListFails; Run ex_bucket 200600 [ex_n 1]].

Example C12_example :
  let log := snd (step ex_parse ex_pfx ex_conf (hist_state ex_parse ex_pfx ex_conf ex_hist) (Run ex_bucket 200601 [])) in
  conf_ok ex_conf /\ in_order_hist ex_parse ex_pfx (ex_hist ++ [Run ex_bucket 200601 []]) = true /\
  (* the superseded [.1] and the stale, committed [.3] go; the newest of the live instance stays *)
  log = [BList ex_pfx; BDelete (ex_n 1) true; BDelete (ex_n 3) true] /\
  first_seen ex_parse ex_pfx ex_hist (ex_n 1) = Some 200000 /\
  last_committed ex_hist [8]%N = 500 /\
  bucket_cands ex_parse ex_pfx (bucket_after ex_bucket log) = [mkCand (ex_n 2) [7]%N 2000].
Proof.
  cbv zeta. split; [unfold conf_ok, min_i64, max_i64; simpl; lia|].
  repeat split; vm_compute; reflexivity.
Qed.
