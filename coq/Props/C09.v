(* C09 — Every committed local change gets published. Property theorems only. *)
From Coq Require Import List NArith Lia. Import ListNotations.
From LS Require Import Instance.Ids Instance.IdsProofs.
Open Scope N_scope.

(* whenever the loop is idle (at the top with nothing to send), every application commit of this run is
   contained in the newest successful upload — for every interleaving of application commits with the loop's
   transactions, env.Info() reads and Store calls (failing Store calls retried or fatal), native and shadow
   mode, PROVIDED no application commit falls into the window between one of Lightning Stream's own write
   transactions that recorded nothing and the following env.Info() *)
Theorem C09_partial : forall shadow l s,
  reach (step_nw shadow) (init l) s -> at_ s = Top -> ~ (synced s < last s) ->
  forall a, In a (apps s) -> a <= pub s.
Proof. exact published_at_idle. Qed.
Print Assumptions C09_partial.

(* FULL statement is FALSE of the code inside that window (finding F8): the commit is counted as synced and
   is in no upload *)
Theorem C09_refuted :
  exists s, reach (step true) (init 5) s /\ at_ s = Top /\ ~ (synced s < last s) /\
            exists a, In a (apps s) /\ pub s < a /\ cap s < a.
Proof. exact window_breaks_C09_C03. Qed.
Print Assumptions C09_refuted.

(* non-vacuity: a reachable idle state with a published application commit *)
Example C09_example :
  exists s, reach (step_nw false) (init 3) s /\ at_ s = Top /\ synced s = last s /\ apps s = [4] /\ pub s = 4.
Proof.
  eexists. split.
  - eapply r_step. eapply r_step. eapply r_step. eapply r_step. eapply r_step. apply r_init.
    + apply nw_app; cbn; [discriminate|tauto].
    + apply nw_other; [apply s_check_send; [reflexivity|cbn; lia]|reflexivity].
    + apply nw_other; [apply (s_send_txn false _ false); reflexivity|reflexivity].
    + apply nw_other; [eapply s_send_info; reflexivity|reflexivity].
    + apply nw_other; [eapply s_store_ok; reflexivity|reflexivity].
  - cbn. repeat split; reflexivity.
Qed.
