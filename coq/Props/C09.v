(* C09 — Every committed local change gets published. Property theorems only. *)
From Coq Require Import List NArith Lia. Import ListNotations.
From LS Require Import Base.Bytes Base.Res Merge.Model Strategy.Model Shadow.Model Instance.Model Instance.SyncLoop
  Instance.LoopQuiet Instance.LoopPublish Instance.Ids Instance.IdsProofs.
Open Scope N_scope.

(* whenever the loop is idle (at the top with nothing to send), every application commit of this run is
   contained in the newest successful upload — for every interleaving of application commits with the loop's
   transactions, env.Info() reads and Store calls (failing Store calls retried or fatal), native and shadow
   mode, PROVIDED no application commit falls into the window between one of Lightning Stream's own write
   transactions that recorded nothing and the following env.Info() *)
Theorem C09_partial : forall shadow l s,
  reach (step_nw shadow) (init l) s -> at_ s = Top -> ~ (synced s < last s) ->
  forall a, In a (apps s) -> a <= pub s.
Proof. exact published_at_idle. Qed.
Print Assumptions C09_partial.

(* the same with FORCED periodic snapshots at any idle point (an upload the loop starts without having seen a
   local change): still everything committed is in the newest upload whenever the loop is idle *)
Theorem C09_partial_forced : forall shadow l s,
  reach (step_nw_f shadow) (init l) s -> at_ s = Top -> ~ (synced s < last s) ->
  forall a, In a (apps s) -> a <= pub s.
Proof. exact published_at_idle_f. Qed.
Print Assumptions C09_partial_forced.

(* non-vacuity: the C03-16 schedule — a forced-only pass, an application commit at send.begin, captured and published *)
Example C09_forced_example :
  exists s, reach (step_nw_f true) (init 3) s /\ at_ s = Top /\ apps s = [4] /\ pub s = 4 /\ cap s = 4.
Proof.
  eexists. split.
  - eapply r_step. eapply r_step. eapply r_step. eapply r_step. eapply r_step. apply r_init.
    + apply nwf_forced. reflexivity.
    + apply nwf_nw. apply nw_app; cbn; [discriminate|tauto].
    + apply nwf_nw. apply nw_other; [apply (s_send_txn true _ true); reflexivity|reflexivity].
    + apply nwf_nw. apply nw_other; [eapply s_send_info; reflexivity|reflexivity].
    + apply nwf_nw. apply nw_other; [eapply s_store_ok; reflexivity|reflexivity].
  - cbn. repeat split; reflexivity.
Qed.

(* FULL statement is FALSE of the code inside that window (finding F8): the commit is counted as synced and
   is in no upload *)
Theorem C09_refuted :
  exists s, reach (step true) (init 5) s /\ at_ s = Top /\ ~ (synced s < last s) /\
            exists a, In a (apps s) /\ pub s < a /\ cap s < a.
Proof. exact window_breaks_C09_C03. Qed.
Print Assumptions C09_refuted.

(* non-vacuity: a reachable idle state with a published application commit *)
Example C09_example :
  exists s, reach (step_nw false) (init 3) s /\ at_ s = Top /\ synced s = last s /\ apps s = [4] /\ pub s = 4.
Proof.
  eexists. split.
  - eapply r_step. eapply r_step. eapply r_step. eapply r_step. eapply r_step. apply r_init.
    + apply nw_app; cbn; [discriminate|tauto].
    + apply nw_other; [apply s_check_send; [reflexivity|cbn; lia]|reflexivity].
    + apply nw_other; [apply (s_send_txn false _ false); reflexivity|reflexivity].
    + apply nw_other; [eapply s_send_info; reflexivity|reflexivity].
    + apply nw_other; [eapply s_store_ok; reflexivity|reflexivity].
  - cbn. repeat split; reflexivity.
Qed.

(* ---- on the EXECUTABLE loop machine (the one replayed against the real syncLoop) ----
   a pending local change (lastSynced < LastTxnID), nothing else happening, storage healthy, not receive-only:
   ONE pass uploads a snapshot whose content is exactly what SendOnce's transaction dumped from the environment
   holding that change, records it as synced, tells the cleaner what had been merged, and leaves the instance
   idle; whatever number of further passes follow, the uploads stay exactly these (published once, no echo) *)
Theorem C09_quiet_pass_publishes_executable : forall fuel c has_data s s' alive,
  still s -> i_receive_only c = false -> (0 < fuel)%nat ->
  l_synced s < e_last (l_env s) ->
  (forall now, exists r, send_txn c (l_env s) now 0 = Ok r) ->
  loop_iter fuel c has_data s = (s', alive) ->
  exists now e' T ds,
    send_txn c (l_env s) now 0 = Ok (e', T, ds) /\
    l_stores s' = (now, e_last e', ds) :: l_stores s /\
    l_env s' = e' /\ l_synced s' = e_last e' /\ l_committed s' = l_last_by s /\ still s'.
Proof. exact loop_iter_publishes. Qed.
Print Assumptions C09_quiet_pass_publishes_executable.
Theorem C09_published_exactly_once_executable : forall fuel fuel' c has_data s s',
  still s -> i_receive_only c = false -> (0 < fuel)%nat ->
  l_synced s < e_last (l_env s) ->
  (forall now, exists r, send_txn c (l_env s) now 0 = Ok r) ->
  loop_iter fuel c has_data s = (s', true) ->
  exists now e' T ds,
    send_txn c (l_env s) now 0 = Ok (e', T, ds) /\
    l_stores (outer_loop fuel' c has_data s') = (now, e_last e', ds) :: l_stores s.
Proof. exact publishes_exactly_once. Qed.
Print Assumptions C09_published_exactly_once_executable.

(* non-vacuity: native instance, one application commit pending (LastTxnID 3, lastSynced 2): the pass uploads
   the DBI's content and ends idle *)
Example C09_publish_example :
  let e := mkEnv [([97], mkDbi 0 [([107], be64 9 ++ be64 3 ++ [0;0;0;0;0;0;0;0] ++ [118])])] 3 in
  let s := mkL e [[]; []; []; []; []; []; []; []] 0 1000 [] 0 false 2 [] [] [] [] in
  exists s', loop_iter 5 (mkICfg true true false false false []) true s = (s', true) /\
             l_synced s' = 3 /\
             map (fun x => snd x) (l_stores s') = [[mkSDbi [97] 0 [] [mkKV [107] [118] 9 0]]].
Proof. eexists. split; [vm_compute; reflexivity|]. split; vm_compute; reflexivity. Qed.
