(* C05 — Published data is never lost from the bucket. Property theorems only.
   Model: Fleet/Crash.v — uploads, merges of any snapshot ever uploaded, cleaning by ANY running instance
   (superseded and stale rules), crashes/stops at any point (volatile state lost), arbitrary changes of an LMDB
   while its syncer is down (emptied, edited), restarts under the same name, failing storage calls — in any
   interleaving, any number of instances. Sweeper disabled (the property excepts markers past retention). *)
From LS Require Import Base.Bytes Merge.Version Merge.Order Fleet.Model Fleet.Crash Fleet.CrashProofs Corr.Run_crash Fleet.CrashReplay.
Open Scope N_scope.

(* after any step of any reachable state, every snapshot EVER uploaded — still stored or long deleted — is
   covered (key by key: at least as new a version) by a snapshot that is currently the newest of its instance *)
Theorem C05_monotone : forall (K : Type) (K_eq_dec : forall a b : K, {a = b} + {a <> b}) s s',
  creach K K_eq_dec s -> cstep K K_eq_dec s s' ->
  forall x, In x (ever K s) -> exists y, newest K s' y /\ covers K y x.
Proof. exact published_never_lost. Qed.
Print Assumptions C05_monotone.

(* so the join of the newest snapshots of all instances never decreases *)
Theorem C05_join_never_decreases : forall (K : Type) (K_eq_dec : forall a b : K, {a = b} + {a <> b}) s s',
  creach K K_eq_dec s -> cstep K K_eq_dec s s' ->
  forall w, newest K s w -> exists w', newest K s' w' /\ covers K w' w.
Proof. exact newest_join_monotone. Qed.
Print Assumptions C05_join_never_decreases.

(* the full inductive invariant (S/M/A/E/B/D of DESIGN.md Appendix D) holds in every reachable state *)
Theorem C05_invariant : forall (K : Type) (K_eq_dec : forall a b : K, {a = b} + {a <> b}) s,
  creach K K_eq_dec s -> cinv K s.
Proof. exact cinv_reach. Qed.

(* own first: whoever uploads is not waiting for its own snapshot and holds at least the newest stored
   snapshot of its name; and a process started while its name has snapshots does wait *)
Theorem C05_own_first : forall (K : Type) (K_eq_dec : forall a b : K, {a = b} + {a <> b}) s s' i,
  creach K K_eq_dec s -> cstep K K_eq_dec s s' ->
  (exists y, In y (ever K s') /\ ~ In y (ever K s) /\ sn_inst K y = i) ->
  exists p, procs K s i = Some p /\ p_waiting_self K p = false /\
            forall x, newest K s x -> sn_inst K x = i -> sle K (sn_store K x) (cst K s i).
Proof. exact own_first. Qed.
Theorem C05_start_waits : forall (K : Type) (K_eq_dec : forall a b : K, {a = b} + {a <> b}) s s' i,
  cstep K K_eq_dec s s' -> procs K s i = None -> (exists p, procs K s' i = Some p) -> has_own K s i ->
  exists p, procs K s' i = Some p /\ p_waiting_self K p = true.
Proof. exact start_waits. Qed.
Print Assumptions C05_start_waits.

(* non-vacuity: instance 0 writes, starts (no snapshots of its name: nothing to wait for), uploads, stops, its
   LMDB is emptied while it is down: a reachable state with one snapshot ever uploaded, to which C05_monotone
   applies *)
Example C05_example :
  exists s, creach nat Nat.eq_dec s /\ length (ever nat s) = 1%nat /\ procs nat s 0%nat = None.
Proof.
  eexists. split.
  - eapply cr_step. eapply cr_step. eapply cr_step. eapply cr_step. eapply cr_step. apply cr_init.
    + apply (c_write nat Nat.eq_dec _ 0%nat 7%nat (mkVer 5 false [97])). exact I.
    + apply (c_start nat Nat.eq_dec _ 0%nat None); [reflexivity|]. intros (z & [] & _).
    + eapply (c_upload nat Nat.eq_dec _ 0%nat); reflexivity.
    + apply (c_stop nat Nat.eq_dec _ 0%nat).
    + apply (c_tamper nat Nat.eq_dec _ 0%nat (fun _ => None)). reflexivity.
  - split; reflexivity.
Qed.

(* THE TIE to the correspondence check: the event logs of the real Syncers (starts, stops, merges, uploads, cleaner
   deletions) are replayed by an executable, content-free transcription of the guards (Corr/Run_crash.v); every
   log that replay ACCEPTS is a path of the proven model from its initial state — so the invariant behind the
   theorems above holds of exactly the histories the implementation is compared on, and a log the implementation
   can produce but the model cannot (an upload while waiting for the own snapshot, a deletion no rule allows)
   is rejected by the replay *)
Theorem C05_accepted_log_is_model_path : forall (K : Type) (K_eq_dec : forall a b : K, {a = b} + {a <> b}) l,
  ccheck (mkCC l) = true ->
  exists g s, gfinal g0 l = Some g /\ creach K K_eq_dec s /\ R K g s.
Proof. exact accepted_log_is_model_path. Qed.
Print Assumptions C05_accepted_log_is_model_path.

(* non-vacuity: a log with a restart, an upload that had to wait for the own snapshot, and a deletion is accepted *)
Example C05_replay_example :
  ccheck (mkCC [EStart 0; EUpload 0; EStop 0; EStart 0; EMerge 0 0; EUpload 0; EDelete 0 0]) = true /\
  ccheck (mkCC [EStart 0; EUpload 0; EStop 0; EStart 0; EUpload 0]) = false.
Proof. split; vm_compute; reflexivity. Qed.
