(* C06 — Every snapshot is the complete image of one committed LMDB transaction. Property theorems only.
   [send_txn] is a function of ONE environment value: "as of one single LMDB transaction" is by construction
   and rests on LMDB's isolation (trusted). Name and metadata (database, sanitised instance, time of the
   image) are compared on every run by the correspondence oracle; names are property C15. *)
From LS Require Import Base.Bytes Base.Res Header.Model Merge.Model Shadow.Model Instance.Model Instance.Proofs.
Open Scope N_scope.

(* exactly the DBIs that are not private, each once, in name order *)
Theorem C06_dbis_complete : forall c ds names r,
  dump_loop c ds names = Ok r ->
  map sd_name r = filter (fun n => negb (has_prefix sync_prefix n)) names.
Proof. exact dump_loop_names. Qed.
Print Assumptions C06_dbis_complete.

(* every dumped DBI carries the flags of the APPLICATION DBI, states the dupsort transform iff that DBI is
   DUPSORT, and its entries are those of the DBI itself (native) or of its shadow DBI (non-native) *)
Theorem C06_dbi_content : forall c ds names r,
  dump_loop c ds names = Ok r ->
  Forall (fun sd => exists m s,
            find_dbi ds (sd_name sd) = Some m /\
            (if i_native c then Some m else find_dbi ds (shadow_prefix ++ sd_name sd)) = Some s /\
            sd_flags sd = d_flags m /\
            sd_transform sd = (if has_flag (d_flags m) DupSortFlag then transform_dupsort else []) /\
            read_hdr (d_data s) = Ok (sd_entries sd)) r.
Proof. exact dump_loop_content. Qed.
Print Assumptions C06_dbi_content.

(* every stored entry appears, in order, with exactly the stored key, the application value (what follows
   all extension blocks), the timestamp and the deleted flag — live entries, empty values and markers alike;
   the entry type has no field for the local transaction id *)
Theorem C06_entries_exact : forall d l,
  read_hdr d = Ok l ->
  Forall2 (fun p e => exists h, parse (snd p) = Ok (h, k_val e) /\ k_key e = fst p /\
                               k_ts e = h_ts h /\ k_flags e = masked (h_flags h)) d l.
Proof. exact read_hdr_spec. Qed.
Print Assumptions C06_entries_exact.

(* native mode: the dump is a read transaction: nothing changes and the image is as of LastTxnID *)
Theorem C06_native_readonly : forall c e now cutoff e' T ds,
  i_native c = true -> send_txn c e now cutoff = Ok (e', T, ds) -> e' = e /\ T = e_last e.
Proof. exact send_native_readonly. Qed.

(* receive-only instances dump nothing *)
Theorem C06_receive_only : forall c e now cutoff e' T ds,
  i_receive_only c = true -> send_txn c e now cutoff = Ok (e', T, ds) -> ds = [].
Proof. exact send_receive_only. Qed.
Print Assumptions C06_receive_only.

Example C06_example :
  send_txn (mkICfg true true false false false [])
    (mkEnv [([95;115;121;110;99;95;120], mkDbi 0 [([107], [1])]);
            ([97], mkDbi 0 [([107], be64 5 ++ be64 9 ++ [0;1;0;0;0;0;0;0])])] 9) 1000 0
  = Ok (mkEnv [([95;115;121;110;99;95;120], mkDbi 0 [([107], [1])]);
               ([97], mkDbi 0 [([107], be64 5 ++ be64 9 ++ [0;1;0;0;0;0;0;0])])] 9, 9,
        [mkSDbi [97] 0 [] [mkKV [107] [] 5 1]]).
Proof. vm_compute. reflexivity. Qed.
