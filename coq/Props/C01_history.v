(* C01 (history independence) — "regardless of the order in which snapshots were produced, delivered and merged".
   Property theorem only; kept apart from Props/C01.v (picked up by bin/check as Props/C01_*.v).
   The converged content is a function of the SET of versions written, not of the history: two fleets (of any
   sizes n1, n2) that went through different orders of writes, uploads, merges of whatever snapshots (stale ones
   included) and LMDB losses, but in which the same versions were written for a key, hold the same version of that
   key on every instance once both are quiescent.
   Non-vacuity: the hypotheses are those of C01_convergence (a reachable quiescent state with a reset on the way is
   exhibited by C01_reset_example in Props/C01.v) for two states, plus equality of the written sets, which holds
   for the two delivery orders of the same writes exhibited by C01_history_example below. *)
From LS Require Import Base.Bytes Merge.Version Merge.Order Fleet.Model Fleet.Proofs Fleet.Determinism.
From Coq Require Import Lia.
Open Scope N_scope.

Theorem C01_history_independent : forall (K : Type) (K_eq_dec : forall a b : K, {a = b} + {a <> b}) n1 n2 s1 s2,
  freach K K_eq_dec (finit K) s1 -> quiescent K n1 s1 ->
  freach K K_eq_dec (finit K) s2 -> quiescent K n2 s2 ->
  forall k, (forall v, written_k K s1 k v <-> written_k K s2 k v) ->
  forall i j, (i < n1)%nat -> (j < n2)%nat -> st K s1 i k = st K s2 j k.
Proof. exact history_independent. Qed.
Print Assumptions C01_history_independent.

(* non-vacuity: the same two crossing writes (equal timestamps), delivered in two different ways — A: both upload,
   then merge crosswise; B: the other write order, instance 0 merges BEFORE it uploads, so its snapshot already
   holds the join. Both final states are reachable and quiescent, the histories differ, the written sets agree *)
Definition va := mkVer 5 false [97].
Definition vb := mkVer 5 false [98].
Example C01_history_example :
  exists s1 s2, freach bool Bool.bool_dec (finit bool) s1 /\ quiescent bool 2 s1 /\
                freach bool Bool.bool_dec (finit bool) s2 /\ quiescent bool 2 s2 /\
                (forall k v, written_k bool s1 k v <-> written_k bool s2 k v) /\
                map fst (snaps bool s1) <> map fst (snaps bool s2).
Proof.
  eexists. eexists. split; [|split; [|split; [|split; [|split]]]].
  - eapply fr_step. eapply fr_step. eapply fr_step. eapply fr_step. eapply fr_step. eapply fr_step. apply fr_init.
    + apply (f_write bool Bool.bool_dec _ 0%nat true vb). exact I.
    + apply (f_write bool Bool.bool_dec _ 1%nat true va). exact I.
    + apply (f_upload bool Bool.bool_dec _ 0%nat).
    + apply (f_upload bool Bool.bool_dec _ 1%nat).
    + eapply (f_merge bool Bool.bool_dec _ 0%nat). right. left. reflexivity.
    + eapply (f_merge bool Bool.bool_dec _ 1%nat). left. reflexivity.
  - split.
    + cbn [written]. intros j k u [E|[E|[]]]; inversion E; subst; lia.
    + intros i j Hi Hj.
      assert (Hc : (i = 0 \/ i = 1)%nat) by lia. assert (Hd : (j = 0 \/ j = 1)%nat) by lia.
      destruct Hd as [-> | ->].
      * eexists. split; [left; reflexivity|]. split; [reflexivity|]. split.
        -- cbn [written]. intros k u [E|[E|[]]]; inversion E; subst; vm_compute; left; reflexivity.
        -- intros k. destruct Hc as [-> | ->]; destruct k; vm_compute; auto.
      * eexists. split; [right; left; reflexivity|]. split; [reflexivity|]. split.
        -- cbn [written]. intros k u [E|[E|[]]]; inversion E; subst; vm_compute; left; reflexivity.
        -- intros k. destruct Hc as [-> | ->]; destruct k; vm_compute; auto.
  - eapply fr_step. eapply fr_step. eapply fr_step. eapply fr_step. eapply fr_step. eapply fr_step. apply fr_init.
    + apply (f_write bool Bool.bool_dec _ 1%nat true va). exact I.
    + apply (f_write bool Bool.bool_dec _ 0%nat true vb). exact I.
    + apply (f_upload bool Bool.bool_dec _ 1%nat).
    + eapply (f_merge bool Bool.bool_dec _ 0%nat). left. reflexivity.
    + apply (f_upload bool Bool.bool_dec _ 0%nat).
    + eapply (f_merge bool Bool.bool_dec _ 1%nat). right. left. reflexivity.
  - split.
    + cbn [written]. intros j k u [E|[E|[]]]; inversion E; subst; lia.
    + intros i j Hi Hj.
      assert (Hc : (i = 0 \/ i = 1)%nat) by lia. assert (Hd : (j = 0 \/ j = 1)%nat) by lia.
      destruct Hd as [-> | ->].
      * eexists. split; [right; left; reflexivity|]. split; [reflexivity|]. split.
        -- cbn [written]. intros k u [E|[E|[]]]; inversion E; subst; vm_compute; auto.
        -- intros k. destruct Hc as [-> | ->]; destruct k; vm_compute; auto.
      * eexists. split; [left; reflexivity|]. split; [reflexivity|]. split.
        -- cbn [written]. intros k u [E|[E|[]]]; inversion E; subst; vm_compute; left; reflexivity.
        -- intros k. destruct Hc as [-> | ->]; destruct k; vm_compute; auto.
  - intros k v. unfold written_k. cbn [written]. split; intros [i [E|[E|[]]]]; inversion E; subst; eexists; cbn; eauto.
  - cbn. discriminate.
Qed.
