(* C01 (history independence) — "regardless of the order in which snapshots were produced, delivered and merged".
   Property theorem only; kept apart from Props/C01.v (picked up by bin/check as Props/C01_*.v).
   The converged content is a function of the SET of versions written, not of the history: two fleets (of any
   sizes n1, n2) that went through different orders of writes, uploads, merges of whatever snapshots (stale ones
   included) and LMDB losses, but in which the same versions were written for a key, hold the same version of that
   key on every instance once both are quiescent.
   Non-vacuity: the hypotheses are those of C01_convergence (a reachable quiescent state with a reset on the way is
   exhibited by C01_reset_example in Props/C01.v) for two states, plus equality of the written sets, which holds
   e.g. for the two delivery orders of the same writes (and trivially for s1 = s2, where the theorem is the
   "identical on all instances" clause of C01_convergence). *)
From LS Require Import Base.Bytes Merge.Version Merge.Order Fleet.Model Fleet.Proofs Fleet.Determinism.
Open Scope N_scope.

Theorem C01_history_independent : forall (K : Type) (K_eq_dec : forall a b : K, {a = b} + {a <> b}) n1 n2 s1 s2,
  freach K K_eq_dec (finit K) s1 -> quiescent K n1 s1 ->
  freach K K_eq_dec (finit K) s2 -> quiescent K n2 s2 ->
  forall k, (forall v, written_k K s1 k v <-> written_k K s2 k v) ->
  forall i j, (i < n1)%nat -> (j < n2)%nat -> st K s1 i k = st K s2 j k.
Proof. exact history_independent. Qed.
Print Assumptions C01_history_independent.
