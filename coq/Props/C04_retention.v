(* C04 (retention part) — "when the tomb sweeper is enabled, a marker older than the retention
   cutoff is never re-created on an instance that has no entry for that key, so swept markers do
   not bounce between instances".  ONLY the C04_no_bounce* theorems; to be merged into Props/C04.v.
   Model: Retention/Model.v (RetentionDurationMinusCutoff, deletedCutoff, the sweeper's cutoff,
   TimestampFromTime with the int64/uint64 conversions explicit), Merge/Model.v native_merge.
   R = Sweeper.RetentionDuration() (a float32 product converted to int64 by Go) is an input. *)
From LS Require Import Base.Bytes Base.Res Header.Model Merge.Model Retention.Model Retention.Proofs.
Open Scope Z_scope.

(* the retention used for loading never exceeds the sweeper's retention and is never negative:
   every retention 0 <= R < 2^63, every retention_load_cutoff_duration c (zero, negative, larger
   than R, ...) *)
Theorem C04_no_bounce_rmc_le : forall R c, 0 <= R <= max_int64 -> 0 <= rmc R c <= R.
Proof. exact rmc_bounds. Qed.
Print Assumptions C04_no_bounce_rmc_le.

(* hence the load cutoff of a load started at t_load is never below the sweep cutoff of a pass
   started at t_sweep <= t_load (all clock values 0 <= t < 2^63, i.e. 1970..2262) *)
Theorem C04_no_bounce_cutoffs : forall t_sweep t_load R c,
  0 <= R <= max_int64 -> 0 <= t_sweep -> t_sweep <= t_load -> t_load <= max_int64 ->
  (sweep_cutoff t_sweep R <= load_cutoff t_load R c)%N.
Proof. exact cutoff_mono. Qed.
Print Assumptions C04_no_bounce_cutoffs.

Theorem C04_no_bounce_stale : forall t_sweep t_load R c ts,
  0 <= R <= max_int64 -> 0 <= t_sweep -> t_sweep <= t_load -> t_load <= max_int64 ->
  (ts < sweep_cutoff t_sweep R)%N -> (ts < load_cutoff t_load R c)%N.
Proof. exact stale_stays_stale. Qed.
Print Assumptions C04_no_bounce_stale.

(* a deletion the sweeper may have removed (timestamp below the cutoff of a pass started at
   t_sweep) is NOT re-created on an instance that has no entry for the key (old = []), by a load
   started at any t_load >= t_sweep, under every iterator configuration whose DeletedCutoff is
   what deletedCutoff(t_load) returns with the sweeper enabled. "Deletion" is what the snapshot's
   format version says it is: the deleted flag, or — format version 1 — an empty value (this second
   case needed the repair 03ae323: the stale check looked at the flag only) *)
Theorem C04_no_bounce : forall cfg e t_sweep t_load R c,
  0 <= R <= max_int64 -> 0 <= t_sweep -> t_sweep <= t_load -> t_load <= max_int64 ->
  c_cutoff cfg = deleted_cutoff true t_load R c ->
  (is_deleted (masked_flags e) || (Nat.eqb (length (k_val e)) 0 && (c_fmt cfg <? 2)%N)) = true ->
  (k_ts e < sweep_cutoff t_sweep R)%N ->
  native_merge cfg [] e = Ok [].
Proof. exact no_bounce. Qed.
Print Assumptions C04_no_bounce.

(* the other side of the same rule (so the statement is not about a cutoff that drops everything):
   a marker at or above the load cutoff IS created *)
Theorem C04_no_bounce_young_loaded : forall cfg e,
  is_deleted (masked_flags e) = true -> (c_cutoff cfg <= k_ts e)%N ->
  native_merge cfg [] e = Ok (add_header cfg (k_val e) (k_ts e) (masked_flags e)).
Proof. exact young_marker_loaded. Qed.
Print Assumptions C04_no_bounce_young_loaded.

(* ---- non-vacuity and regressions.  R values are what Go computes for the given
   retention_days (float32 arithmetic); t_now = 2026-09-25 in UnixNano ---- *)
Definition ex_now : Z := 1790372036255442626.
Definition ex_hour : Z := 3600000000000.
Definition R_370 : Z := 31968002077360128.
Definition R_20800 : Z := 1797120007201619968.
Definition R_21000 : Z := 1814400069382701056.
Definition R_40000 : Z := 3456000066710405120.

(* a marker one nanosecond older than the sweep cutoff is refused an hour later, for a default,
   a negative, a one-hour and an absurdly large retention_load_cutoff_duration *)
Example C04_no_bounce_example :
  let e := mkKV [107%N] [] (Z.to_N (ex_now - R_370 - 1)) 1%N in
  forall c, In c [0; -5; ex_hour; R_370; 10 * R_370] ->
  (k_ts e < sweep_cutoff ex_now R_370)%N /\
  native_merge (mkCfg 3%N 0%N 9%N false (deleted_cutoff true (ex_now + ex_hour) R_370 c)) [] e = Ok [].
Proof.
  cbv zeta. intros c H. cbn [In] in H.
  repeat (destruct H as [<-|H]; [vm_compute; split; reflexivity|]). destruct H.
Qed.

(* regression, arithmetic before commit 31f909d: retention_days 21000 puts the cutoff before the
   epoch; unclamped it wrapped to the far future: a marker written NOW counted as expired (swept)
   and as stale for loading (refused).  Now both cutoffs are 0 *)
Example C04_no_bounce_regress_21000 :
  (Z.to_N ex_now < sweep_cutoff_prefix ex_now R_21000)%N /\
  (Z.to_N ex_now < load_cutoff_prefix ex_now R_21000 0)%N /\
  sweep_cutoff ex_now R_21000 = 0%N /\ load_cutoff ex_now R_21000 0 = 0%N.
Proof. vm_compute. repeat split; reflexivity. Qed.

(* regression: retention_days 20800 — the sweep cutoff wrapped, the load cutoff (99%) did not:
   a marker written a nanosecond ago was swept AND re-created by the next load: the bounce *)
Example C04_no_bounce_regress_20800 :
  let m := Z.to_N (ex_now - 1) in
  (m < sweep_cutoff_prefix ex_now R_20800)%N /\ ~ (m < load_cutoff_prefix ex_now R_20800 0)%N /\
  ~ (m < sweep_cutoff ex_now R_20800)%N.
Proof. vm_compute. repeat split; intros H; discriminate H. Qed.

(* regression: retention_days 40000 with a one-hour load cutoff duration — retention*3/4
   overflowed, the "75%" cap became negative and the load retention LARGER than the sweep
   retention; e.g. in 2096 a marker from 1973 was below the sweep cutoff but above the load
   cutoff.  With retention/4*3 the bound holds *)
Example C04_no_bounce_regress_40000 :
  R_40000 < rmc_prefix R_40000 ex_hour /\ rmc R_40000 ex_hour = R_40000 - ex_hour /\
  let t := 4000000000000000000 in let m := 100000000000000000%N in
  (m < ts_from_ns (add_neg t R_40000))%N /\ ~ (m < ts_from_ns (add_neg t (rmc_prefix R_40000 ex_hour)))%N /\
  (m < load_cutoff t R_40000 ex_hour)%N.
Proof. vm_compute. repeat split; try reflexivity; intros H; discriminate H. Qed.

(* regression for the repair 03ae323: a format-version-1 deletion (empty value, no flag) older than the load
   cutoff is not re-created on an instance without an entry; a younger one is stored as a marker *)
Example C04_no_bounce_v1 :
  native_merge (mkCfg 1 0 7 false 1000) [] (mkKV [107%N] [] 999 0) = Ok [] /\
  native_merge (mkCfg 1 0 7 false 1000) [] (mkKV [107%N] [] 1000 0)
    = Ok (be64 1000 ++ be64 7 ++ [0;1;0;0;0;0;0;0]%N).
Proof. split; vm_compute; reflexivity. Qed.
