(* C14 — Values written by Lightning Stream always carry a well-formed header.
   Property theorems only; every proof is [exact <lemma>]. *)
From LS Require Import Base.Bytes Base.Res Header.Model Header.Proofs Merge.Model Merge.Proofs.
Open Scope N_scope.

(* PutBasic followed by any application value parses back to exactly that header and value:
   all timestamps, transaction ids and flag bytes *)
Theorem C14_parse_put_basic : forall ts txn f a,
  ts < two64 -> txn < two64 -> f < 256 ->
  parse (put_basic ts txn f ++ a) = Ok (mkHdr ts txn f [0;0;0;0] 0 [], a).
Proof. exact parse_put_basic. Qed.
Print Assumptions C14_parse_put_basic.

(* values carrying extension blocks written by others (any count 0..65535, any reserved bytes,
   any flag byte) are read correctly: the application value is what follows all blocks *)
Theorem C14_parse_ext : forall ts txn f r n ext a,
  ts < two64 -> txn < two64 -> length r = 4%nat -> n < 65536 ->
  length ext = (8 * N.to_nat n)%nat ->
  parse (be64 ts ++ be64 txn ++ [0; f] ++ r ++ be16 n ++ ext ++ a)
  = Ok (mkHdr ts txn f r n ext, a).
Proof. exact parse_layout. Qed.
Print Assumptions C14_parse_ext.

(* nothing is misread: whatever Parse accepts IS header ++ extension blocks ++ returned value *)
Theorem C14_parse_sound : forall v h a,
  wfb v -> parse v = Ok (h, a) -> v = fixed24 h ++ h_extra h ++ a.
Proof. exact parse_sound. Qed.
Print Assumptions C14_parse_sound.

(* Parse accepts exactly: at least 24 bytes, version byte 0, long enough for the extension count;
   everything else is an error (too short / other version), never a misreading *)
Theorem C14_accepts_iff : forall v,
  (exists h a, parse v = Ok (h, a)) <->
  ((24 <= length v)%nat /\ nth 16 v 0 = 0 /\ (24 + 8 * N.to_nat (get_num_extra v) <= length v)%nat).
Proof. exact parse_ok_iff. Qed.
Print Assumptions C14_accepts_iff.

Theorem C14_rejects_short : forall v, (length v < 24)%nat -> parse v = Err ETooShort.
Proof. exact parse_too_short. Qed.
Theorem C14_rejects_version : forall v, (24 <= length v)%nat -> nth 16 v 0 <> 0 -> parse v = Err EVersion.
Proof. exact parse_bad_version. Qed.
Theorem C14_rejects_short_ext : forall v,
  (24 <= length v)%nat -> nth 16 v 0 = 0 ->
  (length v < 24 + 8 * N.to_nat (get_num_extra v))%nat -> parse v = Err ETooShort.
Proof. exact parse_ext_too_short. Qed.
Print Assumptions C14_rejects_short_ext.

(* Skip is Parse without the header *)
Theorem C14_skip_is_parse : forall v,
  skip v = match parse v with Ok (_, a) => Ok a | Err e => Err e | Panic => Panic | OutOfFuel => OutOfFuel end.
Proof. exact skip_parse. Qed.

(* every value the merge routine hands to LMDB (merge into native DBIs, into shadow DBIs, capture)
   is either the stored value unchanged, a deletion of the key, or a freshly built value with:
   version 0, the writing transaction's id, only the deleted flag, reserved bytes zero, extension
   count equal to the blocks present (0, or 1 padding block), followed by exactly the application
   value, which is empty when the entry is deleted — under every configuration and input *)
Theorem C14_written_wf : forall c old e v,
  native_merge c old e = Ok v ->
  v = [] \/ v = old \/
  exists ts f app, ls_written v ts (c_txn c) f (c_pad c) app /\ f < 2 /\
     (is_deleted f = true -> app = []) /\ (app = [] \/ app = k_val e).
Proof. exact merge_written_wf. Qed.
Print Assumptions C14_written_wf.

Theorem C14_clean_written_wf : forall c old v,
  native_clean c old = Ok v ->
  v = old \/ ls_written v (c_default_ts c) (c_txn c) 1 (c_pad c) [].
Proof. exact clean_written_wf. Qed.
Print Assumptions C14_clean_written_wf.

(* non-vacuity: a concrete non-trivial value with two extension blocks *)
Example C14_example :
  parse (be64 1700000000000000000 ++ be64 42 ++ [0; 1] ++ [0;0;0;0] ++ be16 2
         ++ [1;2;3;4;5;6;7;8;9;10;11;12;13;14;15;16] ++ [104;105])
  = Ok (mkHdr 1700000000000000000 42 1 [0;0;0;0] 2 [1;2;3;4;5;6;7;8;9;10;11;12;13;14;15;16], [104;105]).
Proof. vm_compute. reflexivity. Qed.
