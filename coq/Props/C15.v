(* C15 — Snapshot names round-trip and sort chronologically.
   Property theorems only; every proof is [exact <lemma>].

   Model: Names/Model.v (snapshot/name.go BuildName, ParseName, NameTimestamp(FromNano), Name; the
   instanceID sanitiser of syncer/utils.go; prefix listing and "later overwrites earlier" of
   receiver.RunOnce / cleaner.RunOnce) over Names/Civil.v (time.Format / time.Parse for the fixed layout).
   Strings are byte strings (list N); instants are Z nanoseconds since the Unix epoch; two63z = 2^63.
   safe = the documented alphabet [A-Za-z0-9-]; extra_safe = a capital letter, then that alphabet. *)
From Coq Require Import String.
From LS Require Import Base.Bytes Base.Res Names.Civil Names.CivilProofs Names.Model Names.Proofs.
From Coq Require Import Sorted.
Import Limits.
Open Scope N_scope.

(* ---------- round trip ---------- *)

(* parsing a built name returns exactly the components it was built from (and the derived fields:
   full name, base name, extension, kind "snapshot", the 25-byte timestamp string) — every database,
   instance and generation over the safe alphabet, any list of extra items, every instant of 1970..2262 *)
Theorem C15_roundtrip : forall db inst gen extras t,
  safe db = true -> safe inst = true -> safe gen = true -> forallb extra_safe extras = true ->
  (0 <= t < two63z)%Z ->
  parse_name (name_of db inst gen t extras)
  = Ok (mkNI (name_of db inst gen t extras) (build_base (basic_info db inst gen t extras))
             ext_pbgz kind_snapshot db inst gen (format_ts t) t extras).
Proof. exact roundtrip_safe. Qed.
Print Assumptions C15_roundtrip.

(* the exact condition BuildName/ParseName need: no '.' in any component, no "__" inside a component,
   and no component other than the last one ending in '_' (comps_ok); registered extension *)
Theorem C15_roundtrip_exact : forall x,
  ni_ext x = ext_pbgz -> ni_tss x = [] -> (0 <= ni_ts x < two63z)%Z ->
  comps_ok ([ni_syncer x; ni_inst x; ni_gen x] ++ ni_extra x) = true ->
  parse_name (build_name x) = Ok (complete x).
Proof. exact roundtrip_ts. Qed.
Print Assumptions C15_roundtrip_exact.

(* ParseName's result is a fixed point: building from it (TimestampString set) and parsing returns it *)
Theorem C15_roundtrip_parsed : forall x,
  ni_ext x = ext_pbgz -> ni_tss x = [] -> (0 <= ni_ts x < two63z)%Z ->
  comps_ok ([ni_syncer x; ni_inst x; ni_gen x] ++ ni_extra x) = true ->
  parse_name (build_name (complete x)) = Ok (complete x).
Proof. exact roundtrip_complete. Qed.
Print Assumptions C15_roundtrip_parsed.

(* the other direction, for EVERY string: an accepted name is exactly BuildName of what was parsed,
   so two different names never parse to the same NameInfo *)
Theorem C15_parse_build : forall n x, parse_name n = Ok x -> build_name x = n.
Proof. exact parse_build. Qed.
Print Assumptions C15_parse_build.

(* each excluded case really fails *)
Theorem C15_roundtrip_trailing_underscore_refuted :
  exists db inst gen t extras,
    safe db = true /\ safe inst = true /\ safe gen = true /\ (0 <= t < two63z)%Z /\
    no_sep (List.nth 0 extras nil) = true /\
    exists x, parse_name (name_of db inst gen t extras) = Ok x /\ ni_extra x <> extras.
Proof. exact roundtrip_extra_trailing_us_refuted. Qed.
Print Assumptions C15_roundtrip_trailing_underscore_refuted.

Theorem C15_roundtrip_db_underscore_refuted :
  exists x, parse_name (name_of (b "db_") (b "i") (b "GX") T0 nil) = Ok x /\
            ni_syncer x = b "db" /\ ni_inst x = b "_i".
Proof. exact roundtrip_db_trailing_us_refuted. Qed.
Print Assumptions C15_roundtrip_db_underscore_refuted.

Theorem C15_roundtrip_dot_refuted :
  parse_name (name_of (b "d.b") (b "i") (b "GX") T0 nil) = Err EOther /\
  parse_name (name_of (b "db") (b "host.example.org") (b "GX") T0 nil) = Err EOther.
Proof. exact roundtrip_dot_refuted. Qed.
Print Assumptions C15_roundtrip_dot_refuted.

(* ---------- chronological order ---------- *)

(* for one database and instance the byte-wise order of names equals the order of their timestamps,
   at nanosecond resolution, over all of 1970-01-01 .. 2262-04-11T23:47:16.854775807Z *)
Theorem C15_chronological : forall db inst gen extras t1 t2,
  (0 <= t1 < two63z)%Z -> (0 <= t2 < two63z)%Z ->
  ((t1 < t2)%Z <-> bcmp (name_of db inst gen t1 extras) (name_of db inst gen t2 extras) = Lt).
Proof. exact chronological. Qed.
Print Assumptions C15_chronological.

(* full strength: bytes.Compare of the names IS the comparison of the instants (so equal names <-> equal
   instants, greater <-> later), for arbitrary database / instance / generation / extras bytes *)
Theorem C15_chronological_cmp : forall db inst gen extras t1 t2,
  (0 <= t1 < two63z)%Z -> (0 <= t2 < two63z)%Z ->
  bcmp (name_of db inst gen t1 extras) (name_of db inst gen t2 extras) = (t1 ?= t2)%Z.
Proof. exact chrono_same_tail. Qed.
Print Assumptions C15_chronological_cmp.

(* generation and extras never override the timestamp *)
Theorem C15_chronological_any_tail : forall db inst g1 e1 g2 e2 t1 t2,
  (0 <= t1 < two63z)%Z -> (0 <= t2 < two63z)%Z -> (t1 < t2)%Z ->
  bcmp (name_of db inst g1 t1 e1) (name_of db inst g2 t2 e2) = Lt.
Proof. exact chrono_any_tail. Qed.
Print Assumptions C15_chronological_any_tail.

(* the finite fact underneath, about all 106,752 days of the range (kernel-evaluated sweep) *)
Theorem C15_days_checked : forall d, (0 <= d < NDAYS)%Z -> day_ok d = true.
Proof. exact all_days_ok. Qed.
Print Assumptions C15_days_checked.

(* the timestamp functions alone: Parse inverts Format; outside int64 the claim stops *)
Theorem C15_timestamp_roundtrip : forall t, (0 <= t < two63z)%Z ->
  List.length (format_ts t) = 25%nat /\ nth 15 (format_ts t) 0 = DASH /\ time_parse (format_ts t) = Some t.
Proof. exact (fun t H => conj (format_ts_length t) (conj (format_ts_dash t) (time_parse_format t H))). Qed.
Print Assumptions C15_timestamp_roundtrip.

Theorem C15_from_nano_wrap_refuted :
  exists u1 u2, u1 < u2 /\ u2 < two64 /\
    bcmp (name_timestamp_from_nano u1) (name_timestamp_from_nano u2) = Gt.
Proof. exact from_nano_wrap_refuted. Qed.
Print Assumptions C15_from_nano_wrap_refuted.

(* ---------- the newest snapshot is the last name of the listing ---------- *)

(* receiver.RunOnce: names = the storage listing for prefix d ++ "__", sorted byte-wise (assumption on the
   backend), every parsable entry written by BuildName from an in-range instant (canonical). Then the
   NameInfo kept for instance i is in the listing, belongs to database d and instance i, and no snapshot
   of i in the listing has a later timestamp — whatever else the listing contains. *)
Theorem C15_newest_is_last : forall d names i x,
  nous d = true -> no_dot d = true ->
  StronglySorted ble names ->
  (forall n, In n names -> has_prefix (db_prefix d) n = true) ->
  (forall n y, In n names -> parse_name n = Ok y -> canonical y) ->
  last_seen names i = Some x ->
  In (ni_full x) names /\ ni_inst x = i /\ ni_syncer x = d /\
  forall n y, In n names -> parse_name n = Ok y -> ni_inst y = i -> (ni_ts y <= ni_ts x)%Z.
Proof. exact newest_is_last. Qed.
Print Assumptions C15_newest_is_last.

(* without "canonical" it fails: time.Parse accepts a sign in the fraction, and '+' sorts before '0' *)
Theorem C15_signed_fraction_order_refuted :
  exists n1 n2 x1 x2, parse_name n1 = Ok x1 /\ parse_name n2 = Ok x2 /\
    ni_syncer x1 = ni_syncer x2 /\ ni_inst x1 = ni_inst x2 /\
    bcmp n1 n2 = Lt /\ (ni_ts x2 < ni_ts x1)%Z.
Proof. exact signed_fraction_order_refuted. Qed.
Print Assumptions C15_signed_fraction_order_refuted.

(* ---------- other databases ---------- *)

(* no name built for another safe-alphabet database carries this database's listing prefix *)
Theorem C15_other_db : forall d x,
  safe d = true -> safe (ni_syncer x) = true -> d <> ni_syncer x ->
  has_prefix (db_prefix d) (build_name x) = false.
Proof. exact other_db. Qed.
Print Assumptions C15_other_db.

(* receiver and cleaner never compare the parsed database name with their own; for a database name
   without '_' and '.' the prefix alone forces it: whatever is listed and parses, parses as database d *)
Theorem C15_prefix_decides_db : forall d n x,
  nous d = true -> no_dot d = true ->
  has_prefix (db_prefix d) n = true -> parse_name n = Ok x -> ni_syncer x = d.
Proof. exact prefix_syncer. Qed.
Print Assumptions C15_prefix_decides_db.

(* ... and for database names containing "__" it does not hold *)
Theorem C15_other_db_unsafe_refuted :
  exists d d' inst t,
    d <> d' /\ safe d = true /\ safe inst = true /\ (0 <= t < two63z)%Z /\
    has_prefix (db_prefix d) (name_of d' inst (b "GX") t nil) = true /\
    exists x, parse_name (name_of d' inst (b "GX") t nil) = Ok x /\ ni_syncer x = d /\ ni_inst x = b "b".
Proof. exact other_db_unsafe_refuted. Qed.
Print Assumptions C15_other_db_unsafe_refuted.

(* ---------- files that are not snapshots ---------- *)

(* no '.', an extension other than "pb.gz", fewer than four "__"-separated parts, a timestamp part that is
   not 25 bytes with '-' at index 15, or that time.Parse refuses: all rejected with an error; ParseName
   never panics and always terminates *)
Theorem C15_not_snapshot : forall n,
  (no_dot n = true -> parse_name n = Err EOther) /\
  (forall base ext, cut DOT n = Some (base, ext) -> ext <> ext_pbgz -> parse_name n = Err EOther) /\
  (forall base ext, cut DOT n = Some (base, ext) -> (List.length (split_us base) < 4)%nat -> parse_name n = Err EOther) /\
  (forall base ext p0 p1 p2 p3 ex, cut DOT n = Some (base, ext) -> split_us base = p0 :: p1 :: p2 :: p3 :: ex ->
      List.length p2 <> 25%nat \/ nth 15 p2 0 <> DASH \/ time_parse p2 = None -> parse_name n = Err EOther) /\
  ((exists x, parse_name n = Ok x) \/ parse_name n = Err EOther).
Proof. exact not_snapshot. Qed.
Print Assumptions C15_not_snapshot.

(* exactly what is accepted *)
Theorem C15_accepts_iff : forall n x,
  parse_name n = Ok x <->
  exists base p0 p1 p2 p3 ex t,
    cut DOT n = Some (base, ext_pbgz) /\ split_us base = p0 :: p1 :: p2 :: p3 :: ex /\
    List.length p2 = 25%nat /\ nth 15 p2 0 = DASH /\ time_parse p2 = Some t /\
    x = mkNI n base ext_pbgz kind_snapshot p0 p1 p3 p2 t ex.
Proof. exact accepts_iff. Qed.
Print Assumptions C15_accepts_iff.

(* a timestamp part that is accepted is a real calendar date and clock time in fixed-width digits; the
   fraction is nine digits — or a sign and eight digits ("-" only with all zeros), the tolerance of
   time.Parse that is outside the claim *)
Theorem C15_timestamp_shape : forall s t, time_parse s = Some t ->
  exists y mo d hh mi ss c15 fr,
    s = dec 4 y ++ dec 2 mo ++ dec 2 d ++ [45] ++ dec 2 hh ++ dec 2 mi ++ dec 2 ss ++ [c15] ++ fr /\
    (0 <= y < 10000 /\ 1 <= mo <= 12 /\ 1 <= d <= days_in mo y /\ 0 <= hh < 24 /\ 0 <= mi < 60 /\ 0 <= ss < 60)%Z /\
    ((exists ns, fr = dec 9 ns /\ (0 <= ns < 1000000000)%Z /\
                 t = ((days_from_civil y mo d * 86400 + hh * 3600 + mi * 60 + ss) * NS_SEC + ns)%Z)
     \/ (exists sg ns, fr = sg :: dec 8 ns /\ (sg = 43 \/ sg = 45 /\ ns = 0%Z) /\ (0 <= ns < 100000000)%Z /\
                 t = ((days_from_civil y mo d * 86400 + hh * 3600 + mi * 60 + ss) * NS_SEC + ns)%Z)).
Proof. exact time_parse_shape. Qed.
Print Assumptions C15_timestamp_shape.

Theorem C15_signed_fraction_accepted :
  exists x, parse_name (b "db__i__20220102-030405-+12345678__GX.pb.gz") = Ok x /\
            ni_ts x = 1641092645012345678%Z /\ ni_tss x <> format_ts (ni_ts x).
Proof. exact signed_fraction_accepted. Qed.
Print Assumptions C15_signed_fraction_accepted.

(* ---------- the instance-name sanitiser ---------- *)

(* for EVERY byte string (valid UTF-8 or not): the result is within [A-Za-z0-9-], safe names are
   unchanged, so neither '_' nor '.' can reach a name through the instance id; it never grows *)
Theorem C15_sanitize : forall s,
  safe (sanitize s) = true /\ (safe s = true -> sanitize s = s) /\
  ~ In US (sanitize s) /\ ~ In DOT (sanitize s) /\ (List.length (sanitize s) <= List.length s)%nat.
Proof. exact sanitize_props. Qed.
Print Assumptions C15_sanitize.

(* hence names built with ANY configured instance name (or host name) round-trip *)
Theorem C15_sanitized_roundtrip : forall db raw host gen extras t,
  safe db = true -> safe gen = true -> forallb extra_safe extras = true -> (0 <= t < two63z)%Z ->
  exists x, parse_name (name_of db (instance_id raw host) gen t extras) = Ok x /\
            ni_inst x = instance_id raw host /\ ni_syncer x = db /\ ni_ts x = t.
Proof. exact roundtrip_sanitized. Qed.
Print Assumptions C15_sanitized_roundtrip.

(* not injective: two configured names can collapse into one instance id (outside the claim) *)
Theorem C15_sanitize_collision :
  b "host.1" <> b "host_1" /\ sanitize (b "host.1") = sanitize (b "host_1") /\ sanitize (b "host.1") = b "host-1".
Proof. exact sanitize_collision. Qed.
Print Assumptions C15_sanitize_collision.

(* ---------- non-vacuity ---------- *)

(* the second unit-test name of snapshot/name_test.go *)
Example C15_example_roundtrip :
  name_of (b "db1") (b "inst1") (b "G1") T0 [b "X123"; b "Y456"]
    = b "db1__inst1__20220102-030405-012345678__G1__X123__Y456.pb.gz" /\
  safe (b "db1") = true /\ safe (b "inst1") = true /\ safe (b "G1") = true /\
  forallb extra_safe [b "X123"; b "Y456"] = true /\ (0 <= T0 < two63z)%Z /\
  parse_name (b "db1__inst1__20220102-030405-012345678__G1__X123__Y456.pb.gz")
  = Ok (mkNI (b "db1__inst1__20220102-030405-012345678__G1__X123__Y456.pb.gz")
             (b "db1__inst1__20220102-030405-012345678__G1__X123__Y456")
             (b "pb.gz") (b "snapshot") (b "db1") (b "inst1") (b "G1") (b "20220102-030405-012345678") T0
             [b "X123"; b "Y456"]).
Proof. vm_compute. repeat split; intros; discriminate. Qed.

(* 1 ns apart across a year boundary, and the two ends of the range *)
Example C15_example_chronological :
  bcmp (name_of (b "main") (b "i") (b "GX") 1703980799999999999%Z []) (name_of (b "main") (b "i") (b "GX") 1703980800000000000%Z []) = Lt /\
  name_of (b "main") (b "i") (b "GX") 1703980799999999999%Z [] = b "main__i__20231230-235959-999999999__GX.pb.gz" /\
  name_of (b "main") (b "i") (b "GX") 0%Z [] = b "main__i__19700101-000000-000000000__GX.pb.gz" /\
  name_of (b "main") (b "i") (b "GX") (two63z - 1)%Z [] = b "main__i__22620411-234716-854775807__GX.pb.gz".
Proof. vm_compute. repeat split. Qed.

(* a listing of database "main" with two instances, a foreign file and a non-snapshot: the hypotheses of
   C15_newest_is_last hold and the entry kept for instance "a" is its newest snapshot *)
Definition ex_listing : list bytes :=
  [ b "main__a__20220102-030405-012345678__GX.pb.gz";
    b "main__a__20220102-030405-012345679__GX.pb.gz";
    b "main__b__20230102-030405-012345678__GX.pb.gz";
    b "main__notes.txt" ].
Example C15_example_newest :
  nous (b "main") = true /\ no_dot (b "main") = true /\ StronglySorted ble ex_listing /\
  (forall n, In n ex_listing -> has_prefix (db_prefix (b "main")) n = true) /\
  (forall n y, In n ex_listing -> parse_name n = Ok y -> canonical y) /\
  exists x, last_seen ex_listing (b "a") = Some x /\ ni_ts x = 1641092645012345679%Z.
Proof.
  split; [reflexivity|]. split; [reflexivity|].
  split. { unfold ex_listing, ble. repeat constructor; vm_compute; discriminate. }
  split. { intros n [<-|[<-|[<-|[<-|[]]]]]; vm_compute; reflexivity. }
  split. { intros n y [<-|[<-|[<-|[<-|[]]]]] H; vm_compute in H; inversion H; subst;
           (split; [vm_compute; reflexivity|]); vm_compute; (split; [intros; discriminate|reflexivity]). }
  eexists. split; vm_compute; reflexivity.
Qed.

Example C15_example_sanitize :
  sanitize (b "pdns_auth.example.org") = b "pdns-auth-example-org" /\ sanitize (b "pdns-01") = b "pdns-01".
Proof. vm_compute. split; reflexivity. Qed.
