(* C04 — Deletions propagate and deleted keys are not resurrected. Property theorems only.
   The retention arithmetic ("swept markers do not bounce") is in Props/C04_retention.v (the C04_no_bounce theorems),
   re-exported below. *)
From LS Require Import Base.Bytes Base.Res Header.Model Merge.Model Merge.Version Merge.Order Merge.Proofs Merge.Fold
  Fleet.Model Fleet.Proofs Fleet.Deletion Shadow.Model Shadow.Proofs Instance.Model Instance.Proofs.
From LS Require Export Props.C04_retention.
Open Scope N_scope.

(* only a version with a HIGHER timestamp wins against a deletion recorded at time T: an equal timestamp
   loses (deleted wins the exact tie, fix 061e636), a lower one loses *)
Theorem C04_only_newer_beats_deletion : forall o n,
  del o = true -> val o = [] -> wins n o = true -> ts o < ts n.
Proof. exact only_newer_beats_deletion. Qed.
Print Assumptions C04_only_newer_beats_deletion.

(* once an instance holds the deletion, merging versions with timestamps <= T — however many, in whatever
   order, older versions that exist there or arrive later — leaves exactly the deletion: the key stays absent
   from the application's view until a version with a timestamp above T arrives *)
Theorem C04_stays_deleted : forall o l,
  del o = true -> val o = [] -> Forall (fun n => ts n <= ts o) l -> joinl o l = o.
Proof. exact stays_deleted. Qed.
Print Assumptions C04_stays_deleted.

(* and the deletion itself supersedes whatever older version an instance holds: joining del@T onto any version
   with a lower timestamp gives del@T *)
Theorem C04_deletion_supersedes_older : forall o T,
  ts o < T -> join o (mkVer T true []) = mkVer T true [].
Proof. intros o T H. apply join_newer. exact H. Qed.

(* byte level: merging a deletion marker with a higher timestamp into ANY stored value leaves a marker
   (snapshot merge, every supported format, padding, cutoff) — via C02_merge_refines_join *)
Theorem C04_marker_merged : forall c old h app e,
  cfg_ok c -> kv_ok e -> old <> [] -> parse old = Ok (h, app) ->
  (c_default_ts c = 0 \/ k_ts e <> 0) ->
  exists v, native_merge c old e = Ok v /\
    ver_of v = Some (join (mkVer (h_ts h) (is_deleted (h_flags h)) app) (norm c e)).
Proof. exact merge_refines_join. Qed.

(* deletion markers travel in every snapshot for as long as they exist: the dump contains every stored entry,
   markers included, with its deleted flag *)
Theorem C04_markers_travel : forall d l,
  read_hdr d = Ok l ->
  Forall2 (fun p e => exists h, parse (snd p) = Ok (h, k_val e) /\ k_key e = fst p /\
                               k_ts e = h_ts h /\ k_flags e = masked (h_flags h)) d l.
Proof. exact read_hdr_spec. Qed.
Print Assumptions C04_markers_travel.

(* non-native mode: a key the application deleted becomes a marker stamped "now" in the shadow DBI
   (it is the [None] case of capture_at in C11_capture) *)
Theorem C04_clean_marks : forall flags dom now txn cutoff main shadow shadow',
  Strategy.Order.ord_ok (dbi_cmp flags) dom ->
  now < two64 -> txn < two64 ->
  Strategy.Proofs.sorted (dbi_cmp flags) dom (Strategy.Proofs.keys main) ->
  Strategy.Proofs.sorted (dbi_cmp flags) dom (Strategy.Proofs.keys shadow) ->
  main_to_shadow flags now txn cutoff main shadow = Ok shadow' ->
  forall k, dom k -> Strategy.Model.dmem (dbi_cmp flags) main k = false ->
    capture_at now None (Strategy.Model.dget (dbi_cmp flags) shadow k) (Strategy.Model.dget (dbi_cmp flags) shadow' k).
Proof.
  intros flags dom now txn cutoff main shadow shadow' ORD Hn Ht Sm Ss H k Hk Hm.
  destruct (main_to_shadow_spec flags dom now txn cutoff main shadow shadow' ORD Hn Ht Sm Ss H) as [_ P].
  specialize (P k Hk). rewrite Hm in P. exact P.
Qed.
Print Assumptions C04_clean_marks.

(* FLEET LEVEL (the C01 convergence theorem instantiated for a deletion): if the newest thing ever written for
   a key anywhere is a deletion at time T — every other write of the key, on any instance, earlier or later, has
   a timestamp <= T — then in every reachable quiescent state EVERY instance holds exactly that marker: the
   deletion reached all replicas and no older version, stored somewhere or arriving in a stale snapshot, brought
   the key back; any number of instances, any order of writes / uploads / merges of any snapshot, LMDB losses *)
Theorem C04_deletion_propagates_fleet : forall (K : Type) (K_eq_dec : forall a b : K, {a = b} + {a <> b}) n s k d,
  freach K K_eq_dec (finit K) s -> quiescent K n s ->
  del d = true -> val d = [] -> written_k K s k d ->
  (forall v, written_k K s k v -> ts v <= ts d) ->
  forall i, (i < n)%nat -> st K s i k = Some d.
Proof. exact deletion_propagates. Qed.
Print Assumptions C04_deletion_propagates_fleet.
(* the key is live again at quiescence only through a write with a timestamp strictly above T *)
Theorem C04_live_again_only_by_newer_write : forall (K : Type) (K_eq_dec : forall a b : K, {a = b} + {a <> b}) n s k d w,
  freach K K_eq_dec (finit K) s -> quiescent K n s ->
  del d = true -> val d = [] -> written_k K s k d ->
  forall i, (i < n)%nat -> st K s i k = Some w -> w <> d ->
  written_k K s k w /\ ts d < ts w.
Proof. exact live_after_deletion_is_newer. Qed.
Print Assumptions C04_live_again_only_by_newer_write.
(* non-vacuity: instance 0 writes a live value, instance 1 merges it and deletes the key later; after the
   exchange the state is reachable, quiescent for {0,1}, and meets every hypothesis of the theorem *)
Example C04_fleet_example :
  let v := mkVer 5 false [97] in let d := mkVer 9 true [] in
  exists s, freach bool Bool.bool_dec (finit bool) s /\ quiescent bool 2 s /\ written_k bool s true d /\
            (forall u, written_k bool s true u -> ts u <= ts d) /\
            st bool s 0%nat true = Some d /\ st bool s 1%nat true = Some d.
Proof.
  cbv zeta. eexists. split.
  - eapply fr_step. eapply fr_step. eapply fr_step. eapply fr_step. eapply fr_step. eapply fr_step. apply fr_init.
    + apply (f_write bool Bool.bool_dec _ 0%nat true (mkVer 5 false [97])). exact I.
    + apply (f_upload bool Bool.bool_dec _ 0%nat).
    + eapply (f_merge bool Bool.bool_dec _ 1%nat). left. reflexivity.
    + apply (f_write bool Bool.bool_dec _ 1%nat true (mkVer 9 true [])). vm_compute. right. reflexivity.
    + apply (f_upload bool Bool.bool_dec _ 1%nat).
    + eapply (f_merge bool Bool.bool_dec _ 0%nat). right. left. reflexivity.
  - split; [|split; [|split; [|split; vm_compute; reflexivity]]].
    + split.
      * cbn [written]. intros j k u [E|[E|[]]]; inversion E; subst; lia.
      * intros i j Hi Hj.
        assert (Hc : (i = 0 \/ i = 1)%nat) by lia. assert (Hd : (j = 0 \/ j = 1)%nat) by lia.
        destruct Hd as [-> | ->].
        -- eexists. split; [left; reflexivity|]. split; [reflexivity|]. split.
           ++ cbn [written]. intros k u [E|[E|[]]]; inversion E; subst; vm_compute; left; reflexivity.
           ++ intros k. destruct Hc as [-> | ->]; destruct k; vm_compute; auto.
        -- eexists. split; [right; left; reflexivity|]. split; [reflexivity|]. split.
           ++ cbn [written]. intros k u [E|[E|[]]]; inversion E; subst; vm_compute; left; reflexivity.
           ++ intros k. destruct Hc as [-> | ->]; destruct k; vm_compute; auto.
    + exists 1%nat. left. reflexivity.
    + intros u [j [E|[E|[]]]]; inversion E; subst; cbn [ts]; lia.
Qed.

(* regression: with the pre-fix tie rule a live empty value of the SAME timestamp survived next to the deletion *)
Example C04_prefix_tie : 
  let wins_prefix (n o : ver) := (ts o <? ts n) || ((ts n =? ts o) && is_lt (bcmp (val n) (val o))) in
  wins_prefix (mkVer 5 true []) (mkVer 5 false []) = false.
Proof. vm_compute. reflexivity. Qed.

Example C04_example : joinl (mkVer 9 true []) [mkVer 3 false [97]; mkVer 9 false []; mkVer 8 false [98]] = mkVer 9 true [].
Proof. vm_compute. reflexivity. Qed.
