(* C08 — Hostile or corrupt snapshot blobs cannot crash, hang or block an instance.
   THIS FILE: the decoding half (arbitrary bytes through Unmarshal + the full iteration of every DBI).
   Property theorems only; every proof is [exact <lemma>].

   >>> The receiver half — a blob that fails to decode is marked corrupt, never retried, the newest
   >>> decodable snapshot of that instance and the snapshots of all other instances are still merged —
   >>> is theorem C08_corrupt_isolated of the Receiver area; it is NOT in this file and will be added
   >>> here by the integrator.

   Model: Codec/Custom.v — every slice expression of the hand-written decoder is checked ([Panic] when
   out of range), every uint64 -> int conversion wraps as in Go, every loop has fuel = length of the data
   it scans + 1 ([OutOfFuel] when exhausted). gzip decompression is outside the model (DESIGN.md, C08
   "Partial"). The hypothesis on the length says b is not longer than a Go slice can be. *)
From LS Require Import Base.Bytes Base.Res Merge.Model Codec.Varint Codec.Loop Codec.Wire Codec.Custom
  Codec.Util Codec.Hostile.
Open Scope N_scope.

(* for EVERY byte string: decoding returns — never a slice-bounds panic, never a loop that does not end *)
Theorem C08_total : forall b : bytes,
  (Z.of_nat (length b) <= 9223372036854775807)%Z ->
  exists r, custom_decode b = r /\ r <> Panic /\ r <> OutOfFuel.
Proof. exact decode_total. Qed.
Print Assumptions C08_total.

(* ... and what it returns is a snapshot or an error *)
Theorem C08_value_or_error : forall b : bytes,
  (Z.of_nat (length b) <= 9223372036854775807)%Z ->
  (exists s, custom_decode b = Ok s) \/ (exists e, custom_decode b = Err e).
Proof. exact decode_ok_or_err. Qed.
Print Assumptions C08_value_or_error.

(* time: the rounds of ALL loops (Snapshot.Unmarshal, Meta.Unmarshal, indexData, every Next call, every
   KV.Unmarshal, the iteration itself) together are at most 4 * len(b) + 1; DecodeVarint's own loop runs
   at most 10 rounds per call (its fuel is the constant 10 / 9 in Codec/Varint.v) *)
Theorem C08_linear : forall b : bytes,
  (Z.of_nat (length b) <= 9223372036854775807)%Z ->
  steps b <= 4 * N.of_nat (length b) + 1.
Proof. exact steps_linear. Qed.
Print Assumptions C08_linear.

(* memory: at most len(b)/2 DBI objects are created, and each holds a sub-slice of b, no copy *)
Theorem C08_mem : forall (b : bytes) (s : snap_obj),
  (Z.of_nat (length b) <= 9223372036854775807)%Z -> snap_unmarshal b = Ok s ->
  (2 * length (so_dbis s) <= length b)%nat /\
  Forall (fun o => (length (o_data o) <= length b)%nat) (so_dbis s).
Proof. exact dbi_objects_bound. Qed.
Print Assumptions C08_mem.

(* non-vacuity / the two defects fixed in e5df985 as concrete instances: the blob that made skipTag step
   backwards forever, and a length varint of 2^64-1 inside a DBI *)
Example C08_example_hang_blob :
  custom_decode [26;11; 122;245;255;255;255;255;255;255;255;255;1] = Err EMalformed
  /\ steps [26;11; 122;245;255;255;255;255;255;255;255;255;1] = 2.
Proof. vm_compute. split; reflexivity. Qed.
Example C08_example_panic_blob :
  custom_decode [26;13; 18;11; 10;255;255;255;255;255;255;255;255;255;1] = Err EMalformed.
Proof. vm_compute. reflexivity. Qed.
Example C08_example_ok_blob :
  exists s, custom_decode [8;3; 26;8; 10;1;100; 18;3; 10;1;107] = Ok s /\ length (s_dbis s) = 1%nat
            /\ steps [8;3; 26;8; 10;1;100; 18;3; 10;1;107] = 12.
Proof. vm_compute. eexists. repeat split. Qed.
